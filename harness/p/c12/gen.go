package c12

import (
	"crypto/rand"
	"fmt"
	"math/big"
	"sort"
	"strings"
	"sync"

	"github.com/tink-crypto/tink-go/v2/aead"
	"github.com/tink-crypto/tink-go/v2/daead"
	"github.com/tink-crypto/tink-go/v2/hybrid"
	"github.com/tink-crypto/tink-go/v2/internal/keygenregistry"
	"github.com/tink-crypto/tink-go/v2/internal/protoserialization"
	"github.com/tink-crypto/tink-go/v2/jwt"
	"github.com/tink-crypto/tink-go/v2/key"
	"github.com/tink-crypto/tink-go/v2/keyderivation"
	"github.com/tink-crypto/tink-go/v2/mac"
	"github.com/tink-crypto/tink-go/v2/prf"
	"github.com/tink-crypto/tink-go/v2/signature"
	"github.com/tink-crypto/tink-go/v2/streamingaead"
	"github.com/tink-crypto/tink-go/v2/verifharness/hx"
	"google.golang.org/protobuf/encoding/protowire"
	"google.golang.org/protobuf/proto"
	"google.golang.org/protobuf/reflect/protoreflect"

	tinkpb "github.com/tink-crypto/tink-go/v2/proto/tink_go_proto"
)

const tinkNS = "type.googleapis.com/google.crypto.tink."

// every type URL with a registered parameters parser (one per protoserialization.go)
var paramURLs = []string{
	"AesCtrHmacAeadKey", "AesGcmKey", "AesGcmSivKey", "ChaCha20Poly1305Key", "XAesGcmKey", "XChaCha20Poly1305Key",
	"AesSivKey", "EciesAeadHkdfPrivateKey", "HpkePrivateKey", "JwtEcdsaPrivateKey", "JwtHmacKey", "JwtMlDsaPrivateKey",
	"JwtRsaSsaPkcs1PrivateKey", "JwtRsaSsaPssPrivateKey", "PrfBasedDeriverKey", "AesCmacKey", "HmacKey",
	"AesCmacPrfKey", "HkdfPrfKey", "HmacPrfKey", "CompositeMlDsaPrivateKey", "EcdsaPrivateKey", "Ed25519PrivateKey",
	"MlDsaPrivateKey", "RsaSsaPkcs1PrivateKey", "RsaSsaPssPrivateKey", "SlhDsaPrivateKey",
	"AesCtrHmacStreamingKey", "AesGcmHkdfStreamingKey",
}

func registeredTemplates() []*tinkpb.KeyTemplate {
	ts := []*tinkpb.KeyTemplate{
		aead.AES128GCMKeyTemplate(), aead.AES256GCMKeyTemplate(), aead.AES256GCMNoPrefixKeyTemplate(),
		aead.XAES256GCM192BitNonceKeyTemplate(), aead.XAES256GCM192BitNonceNoPrefixKeyTemplate(),
		aead.XAES256GCM160BitNonceKeyTemplate(), aead.XAES256GCM160BitNonceNoPrefixKeyTemplate(),
		aead.AES128GCMSIVKeyTemplate(), aead.AES256GCMSIVKeyTemplate(), aead.AES256GCMSIVNoPrefixKeyTemplate(),
		aead.AES128CTRHMACSHA256KeyTemplate(), aead.AES256CTRHMACSHA256KeyTemplate(),
		aead.ChaCha20Poly1305KeyTemplate(), aead.XChaCha20Poly1305KeyTemplate(),
		daead.AESSIVKeyTemplate(),
		hybrid.DHKEM_P256_HKDF_SHA256_HKDF_SHA256_AES_128_GCM_Key_Template(), hybrid.DHKEM_P256_HKDF_SHA256_HKDF_SHA256_AES_128_GCM_Raw_Key_Template(),
		hybrid.DHKEM_P256_HKDF_SHA256_HKDF_SHA256_AES_256_GCM_Key_Template(), hybrid.DHKEM_P256_HKDF_SHA256_HKDF_SHA256_AES_256_GCM_Raw_Key_Template(),
		hybrid.DHKEM_X25519_HKDF_SHA256_HKDF_SHA256_AES_128_GCM_Key_Template(), hybrid.DHKEM_X25519_HKDF_SHA256_HKDF_SHA256_AES_128_GCM_Raw_Key_Template(),
		hybrid.DHKEM_X25519_HKDF_SHA256_HKDF_SHA256_AES_256_GCM_Key_Template(), hybrid.DHKEM_X25519_HKDF_SHA256_HKDF_SHA256_AES_256_GCM_Raw_Key_Template(),
		hybrid.DHKEM_X25519_HKDF_SHA256_HKDF_SHA256_CHACHA20_POLY1305_Key_Template(), hybrid.DHKEM_X25519_HKDF_SHA256_HKDF_SHA256_CHACHA20_POLY1305_Raw_Key_Template(),
		hybrid.ECIESHKDFAES128GCMKeyTemplate(), hybrid.ECIESHKDFAES128CTRHMACSHA256KeyTemplate(),
		jwt.HS256Template(), jwt.RawHS256Template(), jwt.HS384Template(), jwt.RawHS384Template(), jwt.HS512Template(), jwt.RawHS512Template(),
		jwt.ES256Template(), jwt.RawES256Template(), jwt.ES384Template(), jwt.RawES384Template(), jwt.ES512Template(), jwt.RawES512Template(),
		jwt.RS256_2048_F4_Key_Template(), jwt.RawRS256_2048_F4_Key_Template(), jwt.RS256_3072_F4_Key_Template(), jwt.RawRS256_3072_F4_Key_Template(),
		jwt.RS384_3072_F4_Key_Template(), jwt.RawRS384_3072_F4_Key_Template(), jwt.RS512_4096_F4_Key_Template(), jwt.RawRS512_4096_F4_Key_Template(),
		jwt.PS256_2048_F4_Key_Template(), jwt.RawPS256_2048_F4_Key_Template(), jwt.PS256_3072_F4_Key_Template(), jwt.RawPS256_3072_F4_Key_Template(),
		jwt.PS384_3072_F4_Key_Template(), jwt.RawPS384_3072_F4_Key_Template(), jwt.PS512_4096_F4_Key_Template(), jwt.RawPS512_4096_F4_Key_Template(),
		mac.HMACSHA256Tag128KeyTemplate(), mac.HMACSHA256Tag256KeyTemplate(), mac.HMACSHA512Tag256KeyTemplate(), mac.HMACSHA512Tag512KeyTemplate(),
		mac.AESCMACTag128KeyTemplate(),
		prf.HMACSHA256PRFKeyTemplate(), prf.HMACSHA512PRFKeyTemplate(), prf.HKDFSHA256PRFKeyTemplate(), prf.AESCMACPRFKeyTemplate(),
		signature.ECDSAP256KeyTemplate(), signature.ECDSAP256KeyWithoutPrefixTemplate(), signature.ECDSAP256RawKeyTemplate(),
		signature.ECDSAP384SHA384KeyTemplate(), signature.ECDSAP384SHA384KeyWithoutPrefixTemplate(), signature.ECDSAP384SHA512KeyTemplate(),
		signature.ECDSAP384KeyWithoutPrefixTemplate(), signature.ECDSAP521KeyTemplate(), signature.ECDSAP521KeyWithoutPrefixTemplate(),
		signature.ED25519KeyTemplate(), signature.ED25519KeyWithoutPrefixTemplate(),
		signature.RSA_SSA_PKCS1_3072_SHA256_F4_Key_Template(), signature.RSA_SSA_PKCS1_3072_SHA256_F4_RAW_Key_Template(),
		signature.RSA_SSA_PKCS1_4096_SHA512_F4_Key_Template(), signature.RSA_SSA_PKCS1_4096_SHA512_F4_RAW_Key_Template(),
		signature.RSA_SSA_PSS_3072_SHA256_32_F4_Key_Template(), signature.RSA_SSA_PSS_3072_SHA256_32_F4_Raw_Key_Template(),
		signature.RSA_SSA_PSS_4096_SHA512_64_F4_Key_Template(), signature.RSA_SSA_PSS_4096_SHA512_64_F4_Raw_Key_Template(),
		streamingaead.AES128GCMHKDF4KBKeyTemplate(), streamingaead.AES128GCMHKDF1MBKeyTemplate(),
		streamingaead.AES256GCMHKDF4KBKeyTemplate(), streamingaead.AES256GCMHKDF1MBKeyTemplate(),
		streamingaead.AES128CTRHMACSHA256Segment4KBKeyTemplate(), streamingaead.AES128CTRHMACSHA256Segment1MBKeyTemplate(),
		streamingaead.AES256CTRHMACSHA256Segment4KBKeyTemplate(), streamingaead.AES256CTRHMACSHA256Segment1MBKeyTemplate(),
	}
	ts = append(ts, eciesTemplates()...)
	for _, pt := range []*tinkpb.KeyTemplate{prf.HKDFSHA256PRFKeyTemplate()} {
		for _, dt := range []*tinkpb.KeyTemplate{aead.AES128GCMKeyTemplate(), aead.AES256GCMNoPrefixKeyTemplate(), mac.HMACSHA256Tag128KeyTemplate(),
			daead.AESSIVKeyTemplate(), aead.XChaCha20Poly1305KeyTemplate(), signature.ED25519KeyTemplate(), prf.HMACSHA256PRFKeyTemplate()} {
			if t, err := keyderivation.CreatePRFBasedKeyTemplate(pt, dt); err == nil {
				ts = append(ts, t)
			}
		}
	}
	return ts
}

// eciesTemplates: ECIES over every curve with every DEM the parameters accept (the template
// functions of package hybrid cover two of them); the parameters serializer of ECIES calls the
// DEM's own serializer and edits what it returns.
func eciesTemplates() []*tinkpb.KeyTemplate {
	var ts []*tinkpb.KeyTemplate
	ft := formatTypeOfURL(tinkNS + "EciesAeadHkdfPrivateKey")
	if ft == nil {
		return nil
	}
	dems := []*tinkpb.KeyTemplate{aead.AES128GCMKeyTemplate(), aead.AES256GCMKeyTemplate(), aead.AES128CTRHMACSHA256KeyTemplate(),
		aead.AES256CTRHMACSHA256KeyTemplate(), aead.XChaCha20Poly1305KeyTemplate(), daead.AESSIVKeyTemplate(), aead.AES256GCMSIVKeyTemplate(),
		aead.ChaCha20Poly1305KeyTemplate()}
	for _, dem := range dems {
		for curve := 2; curve <= 5; curve++ { // NIST_P256, NIST_P384, NIST_P521, CURVE25519
			for _, pt := range []tinkpb.OutputPrefixType{tinkpb.OutputPrefixType_TINK, tinkpb.OutputPrefixType_RAW} {
				b := hybrid.ECIESHKDFAES128GCMKeyTemplate()
				m := ft.New()
				if proto.Unmarshal(b.Value, m.Interface()) != nil {
					continue
				}
				if cm, cf := fieldByPath(m, "params.kem_params.curve_type"); cm != nil {
					cm.Set(cf, protoreflect.ValueOfEnum(protoreflect.EnumNumber(curve)))
				}
				if curve == 5 {
					if pm, pf := fieldByPath(m, "params.ec_point_format"); pm != nil {
						pm.Set(pf, protoreflect.ValueOfEnum(2)) // COMPRESSED, as X25519 keys are stored
					}
				}
				if dm, df := fieldByPath(m, "params.dem_params.aead_dem"); dm != nil {
					dm.Set(df, protoreflect.ValueOfMessage(proto.Clone(dem).ProtoReflect()))
				}
				ts = append(ts, &tinkpb.KeyTemplate{TypeUrl: b.TypeUrl, Value: detMarshal(m.Interface()), OutputPrefixType: pt})
			}
		}
	}
	return ts
}

// ---- deterministic randomness for key generation ---------------------------

// detReader is installed as crypto/rand.Reader while a key is generated:
// a splitmix stream of the seed.  One-byte reads (crypto/internal/randutil.
// MaybeReadByte, made at random by the standard library) do not advance the
// stream, so the generated key is a function of the seed.
type detReader struct{ r *hx.Rng }

func (d *detReader) Read(p []byte) (int, error) {
	if len(p) == 1 {
		p[0] = 0
		return 1, nil
	}
	copy(p, d.r.Bytes(len(p)))
	return len(p), nil
}

func withDet(seed uint64, f func()) {
	old := rand.Reader
	rand.Reader = &detReader{hx.NewRng(seed)}
	defer func() { rand.Reader = old }()
	f()
}

// ---- catalogue --------------------------------------------------------------

type catalogue struct {
	urls  []string                         // full type URLs with a parameters parser
	bases map[string][]*tinkpb.KeyTemplate // canonical (re-serialized) valid templates per URL
}

var (
	catOnce sync.Once
	cat     *catalogue
)

func canonTemplate(t *tinkpb.KeyTemplate) (*tinkpb.KeyTemplate, key.Parameters, bool) {
	p, err := protoserialization.ParseParameters(t)
	if err != nil {
		return nil, nil, false
	}
	t1, err := protoserialization.SerializeParameters(p)
	if err != nil {
		return nil, nil, false
	}
	return t1, p, true
}

func getCatalogue() *catalogue {
	catOnce.Do(func() {
		c := &catalogue{bases: map[string][]*tinkpb.KeyTemplate{}}
		for _, n := range paramURLs {
			c.urls = append(c.urls, tinkNS+n)
		}
		for _, t := range registeredTemplates() {
			if t1, _, ok := canonTemplate(t); ok {
				c.bases[t1.TypeUrl] = append(c.bases[t1.TypeUrl], t1)
			}
		}
		// RSA templates whose modulus size is not a multiple of 8 bits (keys from rsaPool "odd-bits")
		for u, bs := range c.bases {
			if !isRSAURL(u) || strings.Contains(u, "Composite") || len(bs) == 0 {
				continue
			}
			for _, bits := range []uint32{2049, 2052, 3073} {
				for _, pt := range []tinkpb.OutputPrefixType{tinkpb.OutputPrefixType_TINK, tinkpb.OutputPrefixType_RAW} {
					m := formatTypeOfURL(u).New()
					if proto.Unmarshal(bs[0].Value, m.Interface()) != nil {
						continue
					}
					if mm, fd := fieldByPath(m, "modulus_size_in_bits"); mm != nil {
						mm.Set(fd, protoreflect.ValueOfUint32(bits))
						t := &tinkpb.KeyTemplate{TypeUrl: u, Value: detMarshal(m.Interface()), OutputPrefixType: pt}
						if t1, _, ok := canonTemplate(t); ok {
							c.bases[u] = append(c.bases[u], t1)
						}
					}
				}
			}
		}
		// types without template functions: search the format space by reflection
		r := hx.NewRng(0xC12)
		for _, u := range c.urls {
			if len(c.bases[u]) > 0 {
				continue
			}
			ft := formatTypeOfURL(u)
			if ft == nil {
				continue
			}
			seen := map[string]bool{}
			for try := 0; try < 4000 && len(c.bases[u]) < 12; try++ {
				m := ft.New()
				randomizeFormat(r, m, 100, c)
				for _, pt := range []tinkpb.OutputPrefixType{tinkpb.OutputPrefixType_TINK, tinkpb.OutputPrefixType_RAW} {
					t := &tinkpb.KeyTemplate{TypeUrl: u, Value: detMarshal(m.Interface()), OutputPrefixType: pt}
					if t1, _, ok := canonTemplate(t); ok {
						k := string(detMarshal(t1))
						if !seen[k] {
							seen[k] = true
							c.bases[u] = append(c.bases[u], t1)
						}
					}
				}
			}
		}
		cat = c
	})
	return cat
}

var sizeChoices = []uint64{0, 8, 10, 12, 16, 20, 24, 28, 32, 48, 64, 128, 256, 2048, 3072, 4096, 4096 + 1}

// randomizeFormat re-picks, each with probability pct, the enum fields (any
// value of the enum), the integer fields (interesting sizes) and the nested
// key templates (another valid template) of a KeyFormat message.
func randomizeFormat(r *hx.Rng, m protoreflect.Message, pct int, c *catalogue) {
	for _, fd := range sortedFields(m.Descriptor()) {
		if fd.IsList() {
			continue
		}
		switch fd.Kind() {
		case protoreflect.EnumKind:
			if r.Chance(pct) {
				vs := fd.Enum().Values()
				m.Set(fd, protoreflect.ValueOfEnum(vs.Get(r.Intn(vs.Len())).Number()))
			}
		case protoreflect.Uint32Kind:
			if fd.Name() == "version" {
				continue
			}
			if r.Chance(pct) {
				m.Set(fd, protoreflect.ValueOfUint32(uint32(hx.PickS(r, sizeChoices))))
			}
		case protoreflect.Int32Kind:
			if r.Chance(pct) {
				m.Set(fd, protoreflect.ValueOfInt32(int32(hx.PickS(r, sizeChoices))))
			}
		case protoreflect.BytesKind:
			if fd.Name() == "public_exponent" {
				m.Set(fd, protoreflect.ValueOfBytes([]byte{1, 0, 1}))
			} else if r.Chance(pct / 2) {
				m.Set(fd, protoreflect.ValueOfBytes(r.Bytes(r.Intn(20))))
			}
		case protoreflect.MessageKind:
			if fd.Message().FullName() == "google.crypto.tink.KeyTemplate" {
				if r.Chance(pct/2) && c != nil && len(c.bases) > 0 {
					us := make([]string, 0, len(c.bases))
					for u := range c.bases {
						us = append(us, u)
					}
					sort.Strings(us)
					bs := c.bases[hx.PickS(r, us)]
					m.Set(fd, protoreflect.ValueOfMessage(proto.Clone(hx.PickS(r, bs)).ProtoReflect()))
				}
				continue
			}
			if m.Has(fd) || pct == 100 {
				randomizeFormat(r, m.Mutable(fd).Message(), pct, c)
			}
		}
	}
}

// randomTemplate: a valid, canonical template of url — a base one or a
// parameter-product neighbour of it.
func randomTemplate(r *hx.Rng, c *catalogue, url string) (*tinkpb.KeyTemplate, key.Parameters) {
	bs := c.bases[url]
	if len(bs) == 0 {
		return nil, nil
	}
	for try := 0; try < 30; try++ {
		b := proto.Clone(hx.PickS(r, bs)).(*tinkpb.KeyTemplate)
		if try < 25 && r.Chance(70) {
			ft := formatTypeOfURL(url)
			m := ft.New()
			if err := proto.Unmarshal(b.Value, m.Interface()); err != nil {
				continue
			}
			randomizeFormat(r, m, 35, c)
			b.Value = detMarshal(m.Interface())
			if r.Chance(50) {
				b.OutputPrefixType = tinkpb.OutputPrefixType(1 + r.Intn(4))
			}
		}
		if t1, p, ok := canonTemplate(b); ok {
			return t1, p
		}
	}
	t1, p, _ := canonTemplate(bs[0])
	return t1, p
}

// rawTemplate is a parseable template that has NOT been through the implementation's own
// serializer: the implementation must get every field of it back from its parameters object.
// For the streaming key formats the ciphertext key size and the derived key size are
// pushed apart, since a serializer that confuses the two is invisible when they agree.
func rawTemplate(r *hx.Rng, c *catalogue, url string) *tinkpb.KeyTemplate {
	bs := c.bases[url]
	if len(bs) == 0 {
		return nil
	}
	ft := formatTypeOfURL(url)
	for try := 0; try < 30; try++ {
		b := proto.Clone(hx.PickS(r, bs)).(*tinkpb.KeyTemplate)
		m := ft.New()
		if err := proto.Unmarshal(b.Value, m.Interface()); err != nil {
			continue
		}
		if try < 20 && r.Chance(60) {
			randomizeFormat(r, m, 25, c)
		}
		if km, kf := fieldByPath(m, "key_size"); km != nil && try < 25 {
			if dm, df := fieldByPath(m, "params.derived_key_size"); dm != nil {
				d := uint32(hx.PickS(r, []int{16, 32}))
				dm.Set(df, protoreflect.ValueOfUint32(d))
				km.Set(kf, protoreflect.ValueOfUint32(d+uint32(hx.PickS(r, []int{0, 1, 8, 16, 32}))))
			}
		}
		b.Value = detMarshal(m.Interface())
		if _, err := protoserialization.ParseParameters(b); err == nil {
			return b
		}
	}
	return nil
}

// ---- keys ---------------------------------------------------------------------

func isRSAURL(url string) bool { return strings.Contains(url, "Rsa") }

func slowParams(t *tinkpb.KeyTemplate) bool {
	// composite ML-DSA with an RSA component generates RSA keys; SLH-DSA small-signature key generation is slow
	if strings.HasSuffix(t.TypeUrl, "CompositeMlDsaPrivateKey") {
		ft := formatTypeOfURL(t.TypeUrl).New()
		if proto.Unmarshal(t.Value, ft.Interface()) == nil {
			pm, fd := fieldByPath(ft, "params.classical_algorithm")
			if pm != nil && pm.Get(fd).Enum() >= 5 {
				return true
			}
		}
	}
	if strings.HasSuffix(t.TypeUrl, "SlhDsaPrivateKey") {
		ft := formatTypeOfURL(t.TypeUrl).New()
		if proto.Unmarshal(t.Value, ft.Interface()) == nil {
			pm, fd := fieldByPath(ft, "params.sig_type")
			if pm != nil && pm.Get(fd).Enum() == 2 {
				return true
			}
		}
	}
	return false
}

func bi(h string) *big.Int {
	v, ok := new(big.Int).SetString(h, 16)
	if !ok {
		panic("bad hex")
	}
	return v
}

// rsaKeyFromPool builds the private-key proto of an RSA type from embedded
// primes by reflection (the four RSA key protos share their field names).
func rsaKeyFromPool(r *hx.Rng, t *tinkpb.KeyTemplate, id uint32) (*protoserialization.KeySerialization, bool) {
	ft := formatTypeOfURL(t.TypeUrl).New()
	if err := proto.Unmarshal(t.Value, ft.Interface()); err != nil {
		return nil, false
	}
	bitsFd := ft.Descriptor().Fields().ByName("modulus_size_in_bits")
	bits := int(ft.Get(bitsFd).Uint())
	var cands []rsaPrimes
	for _, k := range rsaPool {
		if k.bits == bits {
			cands = append(cands, k)
		}
	}
	if len(cands) == 0 {
		return nil, false
	}
	pr := hx.PickS(r, cands)
	if r.Chance(30) { // primes of different byte lengths: |dp| = |crt| = |p| <> |q| = |dq|
		var unb []rsaPrimes
		for _, k := range cands {
			if strings.HasPrefix(k.tag, "unbalanced") {
				unb = append(unb, k)
			}
		}
		if len(unb) > 0 {
			pr = hx.PickS(r, unb)
		}
	}
	p, q := bi(pr.p), bi(pr.q)
	one := big.NewInt(1)
	n := new(big.Int).Mul(p, q)
	e := big.NewInt(65537)
	phi := new(big.Int).Mul(new(big.Int).Sub(p, one), new(big.Int).Sub(q, one))
	d := new(big.Int).ModInverse(e, phi)
	dp := new(big.Int).Mod(d, new(big.Int).Sub(p, one))
	dq := new(big.Int).Mod(d, new(big.Int).Sub(q, one))
	crt := new(big.Int).ModInverse(q, p)
	priv := msgTypeOfURL(t.TypeUrl).New()
	set := func(path string, v []byte) {
		m, fd := fieldByPath(priv, path)
		if m == nil {
			panic("no field " + path)
		}
		m.Set(fd, protoreflect.ValueOfBytes(v))
	}
	set("public_key.n", n.Bytes())
	set("public_key.e", e.Bytes())
	set("d", d.Bytes())
	set("p", p.Bytes())
	set("q", q.Bytes())
	set("dp", dp.Bytes())
	set("dq", dq.Bytes())
	set("crt", crt.Bytes())
	// params / algorithm are copied from the format message
	pubFd := priv.Descriptor().Fields().ByName("public_key")
	pub := priv.Mutable(pubFd).Message()
	for _, name := range []protoreflect.Name{"params", "algorithm"} {
		src := ft.Descriptor().Fields().ByName(name)
		dst := pub.Descriptor().Fields().ByName(name)
		if src != nil && dst != nil && ft.Has(src) {
			if src.Kind() == protoreflect.MessageKind {
				pub.Set(dst, protoreflect.ValueOfMessage(proto.Clone(ft.Get(src).Message().Interface()).ProtoReflect()))
			} else {
				pub.Set(dst, ft.Get(src))
			}
		}
	}
	idr := id
	if t.OutputPrefixType == tinkpb.OutputPrefixType_RAW {
		idr = 0
	}
	s, err := protoserialization.NewKeySerialization(&tinkpb.KeyData{TypeUrl: t.TypeUrl, Value: detMarshal(priv.Interface()),
		KeyMaterialType: tinkpb.KeyData_ASYMMETRIC_PRIVATE}, t.OutputPrefixType, idr)
	if err != nil {
		return nil, false
	}
	return s, true
}

var idChoices = []uint32{0, 1, 1 << 31, 1<<32 - 1}

func pickID(r *hx.Rng) uint32 {
	if r.Chance(70) {
		return hx.PickS(r, idChoices)
	}
	return uint32(r.U64())
}

// newKey creates a key of the template's parameters with the given id
// requirement (ignored when the parameters carry none).
func newKey(r *hx.Rng, t *tinkpb.KeyTemplate, p key.Parameters, id uint32) (key.Key, bool) {
	if !p.HasIDRequirement() {
		id = 0
	}
	if isRSAURL(t.TypeUrl) {
		s, ok := rsaKeyFromPool(r, t, id)
		if !ok {
			return nil, false
		}
		k, err := protoserialization.ParseKey(s)
		if err != nil {
			// a well-formed key built by hand from valid primes that the implementation refuses to parse:
			// not a reason to drop the case - the line goes to the model, which will disagree
			// (only for templates whose parameters are ordinary: the parameters parser accepts RSA-SSA-PSS salt
			// lengths - 0, or larger than the modulus allows - with which the key constructor refuses every key;
			// those refusals are validity rules of the key, not of its serialization)
			if saneRSATemplate(t) {
				why := strings.Map(func(c rune) rune {
					if c == '|' || c == ';' || c < 32 || c > 126 {
						return '/'
					}
					return c
				}, err.Error())
				poolUnparsed = append(poolUnparsed, keyLine("pool-unparsed:"+why, s))
			}
			return nil, false
		}
		return k, true
	}
	var k key.Key
	var err error
	withDet(r.U64(), func() { k, err = keygenregistry.CreateKey(p, id) })
	if err != nil {
		// (key creation legitimately refuses many parameters their parser accepts - AES-192, AES-SIV with 32-byte
		// keys, HKDF with SHA-1, derivers over non-PRF keys ...: a refusal cannot be told from a defect here; what
		// protects against a whole family vanishing is the class-group coverage obligation of the check, to which
		// the key-size class of every K line belongs - fifth audit C-3)
		return nil, false
	}
	return k, true
}

// saneRSATemplate: no PSS salt, or a salt length every key of the template can sign with:
// 1 <= salt <= emLen - hLen - 2 with emLen = ceil((modulus bits - 1) / 8) (RFC 8017 9.1.1; the key constructor
// test-signs).  Salt length 0 is accepted by the parameters parser and refused by the key parser by design.
func saneRSATemplate(t *tinkpb.KeyTemplate) bool {
	m := formatTypeOfURL(t.TypeUrl).New()
	if proto.Unmarshal(t.Value, m.Interface()) != nil {
		return false
	}
	pm, fd := fieldByPath(m, "params.salt_length")
	if pm == nil {
		return true
	}
	sl := pm.Get(fd).Int()
	hm, hf := fieldByPath(m, "params.sig_hash")
	bm, bf := fieldByPath(m, "modulus_size_in_bits")
	if hm == nil || bm == nil {
		return false
	}
	hlen := map[protoreflect.EnumNumber]int64{1: 20, 2: 48, 3: 32, 4: 64, 5: 28}[hm.Get(hf).Enum()]
	emLen := (int64(bm.Get(bf).Uint()) - 1 + 7) / 8
	return hlen > 0 && sl >= 1 && sl <= emLen-hlen-2
}

// createRefused: GENFAIL lines for parameters CreateKey refused (see newKey); drained like poolUnparsed.
var createRefused []string

// poolUnparsed: K lines of pool-built RSA keys the implementation's parser refused (see newKey);
// drained into the case list by the generator.
var poolUnparsed []string

// ---- case lines ---------------------------------------------------------------

func pubInfo(url string) (pubURL string, pubField int) {
	mt := msgTypeOfURL(url)
	if mt == nil {
		return "-", 0
	}
	fd := mt.Descriptor().Fields().ByName("public_key")
	if fd == nil || fd.Kind() != protoreflect.MessageKind {
		return "-", 0
	}
	return "type.googleapis.com/" + string(fd.Message().FullName()), int(fd.Number())
}

func keyLine(tag string, s *protoserialization.KeySerialization) string {
	return keyLineRaw(tag, s.KeyData().GetTypeUrl(), uint32(s.KeyData().GetKeyMaterialType()), uint32(s.OutputPrefixType()),
		func() uint32 { id, _ := s.IDRequirement(); return id }(), s.KeyData().GetValue())
}

func keyLineRaw(tag, url string, mat, prefix, id uint32, value []byte) string {
	pu, pf := pubInfo(url)
	return fmt.Sprintf("K|%s|%s|%d|%d|%d|%s|%s|%s|%d", tag, url, mat, prefix, id, hx.H(value), schemaOfURL(url), pu, pf)
}

func paramsLine(tag string, t *tinkpb.KeyTemplate) string {
	ft := formatTypeOfURL(t.TypeUrl)
	return fmt.Sprintf("P|%s|%s|%d|%s|%s", tag, t.TypeUrl, int32(t.OutputPrefixType), hx.H(t.Value), schemaOf(ft.Descriptor()))
}

// bigIntNames: the big-integer fields of the EC and RSA key protos.
var bigIntNames = []string{"x", "y", "key_value", "n", "e", "d", "p", "q", "dp", "dq", "crt",
	"public_key.x", "public_key.y", "public_key.n", "public_key.e"}

func hasBigInts(url string) bool {
	n := msgNameOfURL(url)
	return strings.Contains(n, "Ecdsa") || strings.Contains(n, "Rsa") || strings.Contains(n, "EciesAeadHkdf")
}

// reencodeBigInts prepends or strips leading zero bytes of big-integer fields
// (same integer, different encoding); with overflow, makes one too large.
func reencodeBigInts(r *hx.Rng, url string, value []byte, overflow bool) ([]byte, bool) {
	m := msgTypeOfURL(url).New()
	if err := proto.Unmarshal(value, m.Interface()); err != nil {
		return nil, false
	}
	// X25519 ECIES keys carry raw strings, not integers
	if strings.Contains(url, "EciesAeadHkdf") {
		path := "params.kem_params.curve_type"
		if strings.HasSuffix(url, "PrivateKey") {
			path = "public_key." + path
		}
		if pm, fd := fieldByPath(m, path); pm == nil || pm.Get(fd).Enum() == 5 {
			return nil, false
		}
	}
	changed := false
	for _, name := range bigIntNames {
		pm, fd := fieldByPath(m, name)
		if pm == nil || fd.Kind() != protoreflect.BytesKind || !r.Chance(60) {
			continue
		}
		b := append([]byte(nil), pm.Get(fd).Bytes()...)
		if len(b) == 0 {
			continue
		}
		if overflow && !changed {
			b = append([]byte{1 + byte(r.Intn(255))}, b...)
			if !(name == "x" || name == "y" || name == "key_value" || strings.HasSuffix(name, ".x") || strings.HasSuffix(name, ".y")) {
				continue // only the fixed-size EC fields have an upper bound the serializers check
			}
		} else if r.Bool() {
			b = append(make([]byte, 1+r.Intn(3)), b...)
		} else {
			for len(b) > 0 && b[0] == 0 {
				b = b[1:]
			}
		}
		pm.Set(fd, protoreflect.ValueOfBytes(b))
		changed = true
	}
	if !changed {
		return nil, false
	}
	return detMarshal(m.Interface()), true
}

// ---- wire-level noise -----------------------------------------------------------

func nonMinimalVarint(r *hx.Rng, v uint64) []byte {
	b := protowire.AppendVarint(nil, v)
	extra := 1 + r.Intn(10-len(b)+1)
	if len(b)+extra > 10 {
		extra = 10 - len(b)
	}
	if extra <= 0 {
		return b
	}
	b[len(b)-1] |= 0x80
	for i := 0; i < extra-1; i++ {
		b = append(b, 0x80)
	}
	return append(b, 0x00)
}

func unknownField(r *hx.Rng, md protoreflect.MessageDescriptor, allowGroup bool) []byte {
	num := protowire.Number(0)
	for {
		num = protowire.Number(1 + r.Intn(40))
		if r.Chance(10) {
			num = protowire.Number(1 + r.Intn(1<<29-1))
		}
		if md.Fields().ByNumber(num) == nil {
			break
		}
	}
	n := 4
	if allowGroup {
		n = 5
	}
	switch r.Intn(n) {
	case 0:
		return protowire.AppendVarint(protowire.AppendTag(nil, num, protowire.VarintType), r.U64()>>uint(r.Intn(64)))
	case 1:
		return protowire.AppendFixed64(protowire.AppendTag(nil, num, protowire.Fixed64Type), r.U64())
	case 2:
		return protowire.AppendBytes(protowire.AppendTag(nil, num, protowire.BytesType), r.Bytes(r.Intn(12)))
	case 3:
		return protowire.AppendFixed32(protowire.AppendTag(nil, num, protowire.Fixed32Type), uint32(r.U64()))
	default:
		b := protowire.AppendTag(nil, num, protowire.StartGroupType)
		for i := r.Intn(3); i > 0; i-- {
			b = append(b, unknownField(r, md, r.Chance(30))...)
		}
		return protowire.AppendTag(b, num, protowire.EndGroupType)
	}
}

// noisyReencode rewrites a valid message so that it decodes to the same known
// fields: unknown fields inserted, varints non-minimal, scalar fields
// duplicated (last one wins), sub-messages split in two (they merge), known
// fields reordered across different numbers.
func noisyReencode(r *hx.Rng, md protoreflect.MessageDescriptor, b []byte, depth int) []byte {
	type fld struct {
		num protowire.Number
		typ protowire.Type
		raw []byte // value bytes without the tag
	}
	var fs []fld
	for len(b) > 0 {
		num, typ, n := protowire.ConsumeTag(b)
		if n < 0 {
			return b
		}
		b = b[n:]
		vn := protowire.ConsumeFieldValue(num, typ, b)
		if vn < 0 {
			return b
		}
		fs = append(fs, fld{num, typ, b[:vn]})
		b = b[vn:]
	}
	var out []byte
	emitTag := func(num protowire.Number, typ protowire.Type) {
		if r.Chance(15) {
			out = append(out, nonMinimalVarint(r, protowire.EncodeTag(num, typ))...)
		} else {
			out = protowire.AppendTag(out, num, typ)
		}
	}
	for _, f := range fs {
		if r.Chance(25) {
			out = append(out, unknownField(r, md, true)...)
		}
		fd := md.Fields().ByNumber(f.num)
		switch {
		case f.typ == protowire.VarintType:
			v, _ := protowire.ConsumeVarint(f.raw)
			if fd != nil && !fd.IsList() && r.Chance(20) {
				// an earlier occurrence with another value is overridden
				emitTag(f.num, f.typ)
				out = protowire.AppendVarint(out, r.U64()>>uint(r.Intn(64)))
			}
			emitTag(f.num, f.typ)
			if r.Chance(25) {
				out = append(out, nonMinimalVarint(r, v)...)
			} else {
				out = protowire.AppendVarint(out, v)
			}
		case f.typ == protowire.BytesType:
			v, _ := protowire.ConsumeBytes(f.raw)
			if fd != nil && fd.Kind() == protoreflect.MessageKind && depth < 3 {
				if !fd.IsList() && len(v) > 0 && r.Chance(25) {
					// split the sub-message at a field boundary: the two halves merge
					cut := 0
					rest := v
					k := r.Intn(4)
					for i := 0; i <= k && len(rest) > 0; i++ {
						num, typ, n := protowire.ConsumeTag(rest)
						vn := protowire.ConsumeFieldValue(num, typ, rest[n:])
						if n < 0 || vn < 0 {
							break
						}
						cut += n + vn
						rest = rest[n+vn:]
					}
					emitTag(f.num, f.typ)
					out = protowire.AppendBytes(out, noisyReencode(r, fd.Message(), v[:cut], depth+1))
					emitTag(f.num, f.typ)
					out = protowire.AppendBytes(out, noisyReencode(r, fd.Message(), v[cut:], depth+1))
					continue
				}
				v = noisyReencode(r, fd.Message(), v, depth+1)
			} else if fd != nil && !fd.IsList() && r.Chance(15) {
				emitTag(f.num, f.typ)
				out = protowire.AppendBytes(out, r.Bytes(r.Intn(6)))
			}
			emitTag(f.num, f.typ)
			if r.Chance(20) {
				out = append(out, nonMinimalVarint(r, uint64(len(v)))...)
				out = append(out, v...)
			} else {
				out = protowire.AppendBytes(out, v)
			}
		default:
			emitTag(f.num, f.typ)
			out = append(out, f.raw...)
		}
	}
	if r.Chance(30) {
		out = append(out, unknownField(r, md, true)...)
	}
	return out
}

// corrupt produces (mostly) invalid wire bytes.
func corrupt(r *hx.Rng, md protoreflect.MessageDescriptor, b []byte) ([]byte, string) {
	b = append([]byte(nil), b...)
	switch r.Intn(12) {
	case 0:
		if len(b) > 0 {
			return b[:r.Intn(len(b))], "truncate"
		}
	case 1:
		for i := 1 + r.Intn(3); i > 0 && len(b) > 0; i-- {
			b[r.Intn(len(b))] ^= byte(1 << uint(r.Intn(8)))
		}
		return b, "bitflip"
	case 2:
		return append(b, 0x00, 0x01), "field0"
	case 3:
		return append(b, protowire.AppendTag(nil, protowire.Number(1+r.Intn(30)), protowire.EndGroupType)...), "stray-endgroup"
	case 4:
		x := protowire.AppendTag(nil, protowire.Number(20+r.Intn(10)), protowire.StartGroupType)
		x = append(x, unknownField(r, md, false)...)
		if r.Bool() {
			x = protowire.AppendTag(x, protowire.Number(31+r.Intn(5)), protowire.EndGroupType)
			return append(b, x...), "group-mismatch"
		}
		return append(b, x...), "group-unclosed"
	case 5:
		// varint of 10 bytes with a large last byte, or 11 bytes
		x := protowire.AppendTag(nil, protowire.Number(25), protowire.VarintType)
		for i := 0; i < 9; i++ {
			x = append(x, 0x80|byte(r.Intn(128)))
		}
		if r.Bool() {
			x = append(x, byte(r.Intn(4)))
			return append(b, x...), "varint10"
		}
		x = append(x, 0x80, 0x01)
		return append(b, x...), "varint11"
	case 6:
		return append(b, byte(8*(1+r.Intn(15))+6+r.Intn(2)), 0x00), "reserved-wiretype"
	case 7:
		// a known field with another wire type is skipped as unknown
		fs := sortedFields(md)
		if len(fs) > 0 {
			fd := fs[r.Intn(len(fs))]
			switch fd.Kind() {
			case protoreflect.BytesKind, protoreflect.StringKind, protoreflect.MessageKind:
				x := protowire.AppendTag(nil, fd.Number(), protowire.VarintType)
				return append(b, protowire.AppendVarint(x, r.U64())...), "wiretype-mismatch"
			default:
				x := protowire.AppendTag(nil, fd.Number(), protowire.BytesType)
				return append(b, protowire.AppendBytes(x, r.Bytes(r.Intn(5)))...), "wiretype-mismatch"
			}
		}
	case 8:
		// invalid UTF-8 (or valid multi-byte) in a string field, if any
		for _, fd := range sortedFields(md) {
			if fd.Kind() == protoreflect.StringKind {
				x := protowire.AppendTag(nil, fd.Number(), protowire.BytesType)
				samples := [][]byte{{0xff}, {0xc0, 0x80}, {0xe0, 0x80, 0x80}, {0xed, 0xa0, 0x80}, {0xf4, 0x90, 0x80, 0x80}, {0xc3, 0xa9}, {0xe2, 0x82, 0xac},
					{0xf0, 0x9f, 0x98, 0x80}, {0xe2, 0x82}, {0xf0, 0x90, 0x80}, {0xed, 0x9f, 0xbf}, {0xf4, 0x8f, 0xbf, 0xbf}, {0xc2}, {0x80}}
				return append(b, protowire.AppendBytes(x, hx.PickS(r, samples))...), "utf8"
			}
		}
	case 9:
		return r.Bytes(r.Intn(12)), "random"
	case 10:
		// length running past the end
		x := protowire.AppendTag(nil, protowire.Number(1+r.Intn(8)), protowire.BytesType)
		x = protowire.AppendVarint(x, uint64(5+r.Intn(1000)))
		return append(b, append(x, r.Bytes(r.Intn(5))...)...), "overlong-length"
	case 11:
		// field number beyond 2^29-1
		x := protowire.AppendVarint(nil, (uint64(1<<29)+uint64(r.Intn(1000)))<<3)
		return append(b, append(x, 0x01)...), "fieldnum-too-large"
	}
	return noisyReencode(r, md, b, 0), "noise"
}

// ---- Gen ------------------------------------------------------------------------

type genKey struct {
	url string
	s   *protoserialization.KeySerialization
	pub *protoserialization.KeySerialization
}

func gen(r *hx.Rng, n int, tier string) []string {
	// hx seeds are consecutive integers and splitmix states of consecutive seeds
	// are one step apart; re-seed from a mixed output so that runs with
	// different seeds explore different cases
	r = hx.NewRng(r.U64() ^ (r.U64() << 1) ^ 0xC12C12C12)
	c := getCatalogue()
	var lines []string
	var pool []genKey // keys generated so far, reused for keyset cases
	add := func(l string) { lines = append(lines, l) }
	genfail := func(what string) { add("GENFAIL|" + strings.ReplaceAll(what, "|", "/")) }
	// a handle holding a key its serializer refuses: every writer must fail or write something readable
	add("U|jwthmac|0")
	add("U|jwthmac|1")
	for _, k := range []string{"aesgcm-16-16", "aesgcm-12-12", "aesgcm-8-14", "aesgcm-12-16"} {
		add("U|" + k + "|0")
		add("U|" + k + "|1")
	}
	// the JSON text layer: every fault family, text manipulation and accepted spelling (jsontext.go)
	for _, l := range directedJSONText() {
		add(l)
	}

	makeKey := func(url string, id uint32) (genKey, bool) {
		var t *tinkpb.KeyTemplate
		var p key.Parameters
		for try := 0; try < 10; try++ {
			t, p = randomTemplate(r, c, url)
			if t == nil {
				return genKey{}, false
			}
			if tier != "thorough" && slowParams(t) {
				continue
			}
			break
		}
		if tier != "thorough" && slowParams(t) {
			return genKey{}, false
		}
		k0, ok := newKey(r, t, p, id)
		if !ok {
			return genKey{}, false
		}
		s0, err := protoserialization.SerializeKey(k0)
		if err == nil && len(s0.KeyData().GetValue()) > 20000 {
			return genKey{}, false // keep case lines small
		}
		if err != nil {
			genfail("SerializeKey failed on a freshly generated key of " + url + ": " + err.Error())
			return genKey{}, false
		}
		// direct check on the generated key object itself
		k1, err := protoserialization.ParseKey(s0)
		if err != nil || !k1.Equal(k0) || !k0.Equal(k1) {
			genfail("parse(serialize(k)) not Equal to the generated key k of " + url + " value=" + hx.H(s0.KeyData().GetValue()))
		}
		g := genKey{url: url, s: s0}
		if pk, ok := k0.(privateKey); ok {
			if pub, err := pk.PublicKey(); err == nil {
				if ps, err := protoserialization.SerializeKey(pub); err == nil {
					g.pub = ps
				}
			}
		}
		return g, true
	}

	// directed: handles built through keyset.Manager holding an ML-DSA key written
	// with OutputPrefixType WITH_ID_REQUIREMENT (alone, as primary, among others),
	// keys generated by the Manager itself, and that prefix on other key types
	for mode := 0; mode < 3; mode++ {
		if l, ok := genManagerHandle(r, mode, tier); ok {
			add(l)
		}
	}
	if l, ok := genFromParametersHandle(r); ok {
		add(l)
	}
	for _, l := range genPrefix5Elsewhere(r, c, makeKey) {
		add(l)
	}

	i := 0
	for len(lines) < n {
		i++
		url := c.urls[i%len(c.urls)]
		if r.Chance(30) {
			url = hx.PickS(r, c.urls)
		}
		switch k := r.Intn(100); {
		case k < 40: // keys: generated, then derived variants
			g, ok := makeKey(url, pickID(r))
			if !ok {
				continue
			}
			pool = append(pool, g)
			if len(pool) > 400 {
				pool = pool[1:]
			}
			add(keyLine("gen", g.s))
			if g.pub != nil && r.Chance(60) {
				add(keyLine("gen", g.pub))
			}
			s := g.s
			if g.pub != nil && r.Bool() {
				s = g.pub
			}
			id, _ := s.IDRequirement()
			kd := s.KeyData()
			for _, v := range []string{"prefix", "bigint", "overflow", "wire", "rawid", "customkid"} {
				if !r.Chance(35) {
					continue
				}
				switch v {
				case "prefix":
					np := uint32(r.Intn(6))
					nid := id
					if np == 3 {
						nid = 0
					} else if nid == 0 {
						nid = pickID(r)
					}
					if strings.Contains(url, "PrfBasedDeriver") {
						continue // the prefix of these keys is tied to the derived key template inside
					}
					add(keyLineRaw("prefix", kd.GetTypeUrl(), uint32(kd.GetKeyMaterialType()), np, nid, kd.GetValue()))
				case "bigint", "overflow":
					if !hasBigInts(kd.GetTypeUrl()) {
						continue
					}
					if nv, ok := reencodeBigInts(r, kd.GetTypeUrl(), kd.GetValue(), v == "overflow"); ok {
						add(keyLineRaw(v, kd.GetTypeUrl(), uint32(kd.GetKeyMaterialType()), uint32(s.OutputPrefixType()), id, nv))
					}
				case "wire":
					mt := msgTypeOfURL(kd.GetTypeUrl())
					nv := noisyReencode(r, mt.Descriptor(), kd.GetValue(), 0)
					add(keyLineRaw("wire", kd.GetTypeUrl(), uint32(kd.GetKeyMaterialType()), uint32(s.OutputPrefixType()), id, nv))
				case "customkid":
					// JWT keys may carry a custom kid (only with RAW); never produced by key generation
					if !strings.Contains(kd.GetTypeUrl(), "Jwt") {
						continue
					}
					m := msgTypeOfURL(kd.GetTypeUrl()).New()
					if proto.Unmarshal(kd.GetValue(), m.Interface()) != nil {
						continue
					}
					pm, fd := fieldByPath(m, "custom_kid.value")
					if pm == nil {
						pm, fd = fieldByPath(m, "public_key.custom_kid.value")
					}
					if pm == nil {
						continue
					}
					kid := hx.PickS(r, []string{"", "kid", "c12-custom-kid-\u00e9"})
					pm.Set(fd, protoreflect.ValueOfString(kid))
					np := uint32(s.OutputPrefixType())
					nid := id
					if r.Chance(70) {
						np, nid = 3, 0
					}
					add(keyLineRaw("customkid", kd.GetTypeUrl(), uint32(kd.GetKeyMaterialType()), np, nid, detMarshal(m.Interface())))
				case "rawid":
					// a RAW key cannot carry an id requirement
					if s.OutputPrefixType() == tinkpb.OutputPrefixType_RAW {
						add(keyLineRaw("rawid", kd.GetTypeUrl(), uint32(kd.GetKeyMaterialType()), 3, 1+uint32(r.Intn(1000)), kd.GetValue()))
					}
				}
			}
		case k < 55: // parameters
			t, _ := randomTemplate(r, c, url)
			if t == nil {
				continue
			}
			add(paramsLine("gen", t))
			if b := rawTemplate(r, c, url); b != nil {
				add(paramsLine("raw", b))
			}
			if r.Chance(40) && !strings.Contains(url, "PrfBasedDeriver") {
				t2 := proto.Clone(t).(*tinkpb.KeyTemplate)
				t2.OutputPrefixType = tinkpb.OutputPrefixType(r.Intn(6))
				add(paramsLine("prefix", t2))
			}
			if r.Chance(30) {
				t2 := proto.Clone(t).(*tinkpb.KeyTemplate)
				t2.Value = noisyReencode(r, formatTypeOfURL(url).Descriptor(), t2.Value, 0)
				add(paramsLine("wire", t2))
			}
			if isRSAURL(url) && !strings.Contains(url, "Composite") && r.Chance(60) {
				// a public exponent other than F4 is part of the parameters and must survive serialization
				// (the catalogue and randomizeFormat keep F4 so that keys can be generated)
				t2 := proto.Clone(t).(*tinkpb.KeyTemplate)
				m := formatTypeOfURL(url).New()
				if proto.Unmarshal(t2.Value, m.Interface()) == nil {
					if pm, pf := fieldByPath(m, "public_exponent"); pm != nil {
						pm.Set(pf, protoreflect.ValueOfBytes(hx.PickS(r, [][]byte{{1, 0, 3}, {1, 0, 0xff}, {0x7f, 0xff, 0xff, 0xff}, {2, 0, 1}})))
						t2.Value = detMarshal(m.Interface())
						add(paramsLine("exponent", t2))
					}
				}
			}
		case k < 75: // wire decoder
			var md protoreflect.MessageDescriptor
			var name string
			var src []byte
			if len(pool) > 0 && r.Chance(70) {
				g := hx.PickS(r, pool)
				s := g.s
				if g.pub != nil && r.Bool() {
					s = g.pub
				}
				mt := msgTypeOfURL(s.KeyData().GetTypeUrl())
				md, name, src = mt.Descriptor(), string(mt.Descriptor().FullName()), s.KeyData().GetValue()
				if r.Chance(30) {
					// the enclosing Keyset message
					ks := &tinkpb.Keyset{PrimaryKeyId: uint32(r.U64()), Key: []*tinkpb.Keyset_Key{{KeyId: uint32(r.U64()), Status: tinkpb.KeyStatusType(r.Intn(5)),
						OutputPrefixType: s.OutputPrefixType(), KeyData: s.KeyData()}}}
					md, name, src = ks.ProtoReflect().Descriptor(), "google.crypto.tink.Keyset", detMarshal(ks)
				}
			} else {
				t, _ := randomTemplate(r, c, url)
				if t == nil {
					continue
				}
				md, name, src = t.ProtoReflect().Descriptor(), "google.crypto.tink.KeyTemplate", detMarshal(t)
			}
			if len(src) > 3000 {
				continue
			}
			if r.Chance(45) {
				add(fmt.Sprintf("W|noise|%s|%s|%s", name, schemaOf(md), hx.H(noisyReencode(r, md, src, 0))))
			} else {
				b, tag := corrupt(r, md, src)
				add(fmt.Sprintf("W|%s|%s|%s|%s", tag, name, schemaOf(md), hx.H(b)))
			}
		default: // keysets
			if r.Chance(8) {
				if l, ok := genManagerHandle(r, r.Intn(3), tier); ok {
					add(l)
				}
				continue
			}
			if r.Chance(2) {
				if l, ok := genFromParametersHandle(r); ok {
					add(l)
				}
				continue
			}
			if l, ok := genHandle(r, c, makeKey, tier); ok {
				add(l)
				if r.Chance(60) { // the JSON text of the same keyset (jsontext.go)
					for _, t := range jsonTextLines(r, l) {
						add(t)
					}
				}
			}
		}
	}
	// keys the implementation's parser refused although they are valid (at most a handful; they replace the
	// last lines so that the case count stays n)
	poolUnparsed = append(poolUnparsed, createRefused...)
	createRefused = nil
	if len(poolUnparsed) > 0 {
		k := len(poolUnparsed)
		if k > 20 {
			k = 20
		}
		copy(lines[n-k:n], poolUnparsed[:k])
		poolUnparsed = nil
	}
	return lines[:n]
}

// genHandle: a keyset of 1..4 keys of one primitive family.
func genHandle(r *hx.Rng, c *catalogue, makeKey func(string, uint32) (genKey, bool), tier string) (string, bool) {
	fams := map[string][]string{}
	var names []string
	for _, u := range c.urls {
		f := familyOf(u)
		if len(fams[f]) == 0 {
			names = append(names, f)
		}
		fams[f] = append(fams[f], u)
	}
	sort.Strings(names)
	fam := hx.PickS(r, names)
	nk := 1 + r.Intn(4)
	public := (fam == "sig" || fam == "hybrid" || fam == "jwtsig" || fam == "slowsig") && r.Chance(25)
	var ents []string
	ids := map[uint32]bool{}
	schemas := map[string]string{}
	pubs := map[string]string{}
	primaryIdx := r.Intn(nk)
	var primary uint32
	tag := "plain"
	for i := 0; i < nk; i++ {
		id := pickID(r)
		for ids[id] {
			id = uint32(r.U64())
		}
		ids[id] = true
		url := hx.PickS(r, fams[fam])
		g, ok := makeKey(url, id)
		if !ok {
			return "", false
		}
		s := g.s
		if public {
			if g.pub == nil {
				return "", false
			}
			s = g.pub
			tag = "public-keys"
		}
		st := 1
		if i != primaryIdx {
			st = 1 + r.Intn(3)
		} else {
			primary = id
		}
		kd := s.KeyData()
		if len(kd.GetValue()) > 6000 {
			return "", false
		}
		value := kd.GetValue()
		if hasBigInts(kd.GetTypeUrl()) && r.Chance(30) {
			// the same integers with missing or extra leading zero bytes: the handle
			// normalises them on the way in (C12_constructed_key_roundtrip inside a
			// keyset; for private keys also the public part handed to Public())
			if v, ok := reencodeBigInts(r, kd.GetTypeUrl(), value, false); ok {
				value = v
				if tag == "plain" {
					tag = "unnormalised-ints"
				}
			}
		}
		ents = append(ents, fmt.Sprintf("%d~%d~%d~%d~%s~%s", id, st, int32(s.OutputPrefixType()), int32(kd.GetKeyMaterialType()), kd.GetTypeUrl(), hx.H(value)))
		schemas[kd.GetTypeUrl()] = schemaOfURL(kd.GetTypeUrl())
		if pu, pf := pubInfo(kd.GetTypeUrl()); pu != "-" {
			pubs[kd.GetTypeUrl()] = fmt.Sprintf("%s~%d", pu, pf)
			schemas[pu] = schemaOfURL(pu)
		}
	}
	if r.Chance(12) {
		// a key of a type nobody registered: kept as a fallback key, written back verbatim
		id := uint32(r.U64())
		for ids[id] {
			id = uint32(r.U64())
		}
		mat := 1 + r.Intn(4)
		ents = append([]string{fmt.Sprintf("%d~%d~%d~%d~%s~%s", id, 2+r.Intn(2), 1+r.Intn(4), mat, "type.googleapis.com/verif.c12.Unknown"+fmt.Sprint(r.Intn(3)), hx.H(r.Bytes(r.Intn(24))))}, ents...)
		tag = "fallback"
	}
	if r.Chance(10) {
		// structurally invalid keysets: both sides must refuse them
		tag = "invalid"
		i := r.Intn(len(ents))
		e := strings.Split(ents[i], "~")
		switch r.Intn(5) {
		case 0:
			e[1] = hx.PickS(r, []string{"0", "4", "7"}) // unknown status
		case 1:
			e[2] = hx.PickS(r, []string{"0", "5", "9"}) // unknown prefix
		case 2:
			primary = uint32(r.U64()) // no such primary
		case 3:
			if len(ents) > 1 { // duplicate id
				e[0] = strings.Split(ents[(i+1)%len(ents)], "~")[0]
			} else {
				e[1] = "2"
			}
		case 4:
			for j := range ents { // primary not enabled
				f := strings.Split(ents[j], "~")
				if f[0] == fmt.Sprint(primary) {
					f[1] = "2"
					ents[j] = strings.Join(f, "~")
				}
			}
			e = strings.Split(ents[i], "~")
		}
		ents[i] = strings.Join(e, "~")
	}
	return handleLine(r, "H", tag, primary, ents, schemas, pubs), true
}

// handleLine: kind|tag|kek kind|kek|ad|tape|primary|entries|schemas|puburls
func handleLine(r *hx.Rng, kind, tag string, primary uint32, ents []string, schemas, pubs map[string]string) string {
	keks := []string{"gcm", "gcm", "gcm", "gcmsiv", "xchacha", "chacha", "keyset"}
	kk := hx.PickS(r, keks)
	kb := r.Bytes(32)
	if (kk == "gcm" || kk == "gcmsiv" || kk == "keyset") && r.Bool() {
		kb = kb[:16]
	}
	ad := r.Bytes(r.Pick([]int{0, 0, 1, 16, 33}))
	var ss, ps []string
	for u, s := range schemas {
		ss = append(ss, u+"="+s)
	}
	for u, p := range pubs {
		ps = append(ps, u+"="+p)
	}
	sort.Strings(ss)
	sort.Strings(ps)
	return fmt.Sprintf("%s|%s|%s|%s|%s|%s|%d|%s|%s|%s", kind, tag, kk, hx.H(kb), hx.H(ad), hx.H(r.Bytes(32)), primary,
		strings.Join(ents, ";"), strings.Join(ss, ";"), strings.Join(ps, ";"))
}
