package c12

import (
	"bytes"
	"fmt"
	"io"
	"strings"

	"github.com/tink-crypto/tink-go/v2/aead"
	"github.com/tink-crypto/tink-go/v2/daead"
	"github.com/tink-crypto/tink-go/v2/hybrid"
	"github.com/tink-crypto/tink-go/v2/insecurecleartextkeyset"
	"github.com/tink-crypto/tink-go/v2/jwt"
	"github.com/tink-crypto/tink-go/v2/keyderivation"
	"github.com/tink-crypto/tink-go/v2/keyset"
	"github.com/tink-crypto/tink-go/v2/mac"
	"github.com/tink-crypto/tink-go/v2/prf"
	"github.com/tink-crypto/tink-go/v2/signature"
	"github.com/tink-crypto/tink-go/v2/streamingaead"

	// key types that the family packages do not pull in
	_ "github.com/tink-crypto/tink-go/v2/aead/xaesgcm"
	_ "github.com/tink-crypto/tink-go/v2/jwt/jwtmldsa"
	_ "github.com/tink-crypto/tink-go/v2/keyderivation/prfbasedkeyderivation"
	_ "github.com/tink-crypto/tink-go/v2/signature/compositemldsa"
	_ "github.com/tink-crypto/tink-go/v2/signature/mldsa"
	_ "github.com/tink-crypto/tink-go/v2/signature/slhdsa"
)

// familyOf maps a key type URL to the primitive family used for the
// interoperability check of two handles.
func familyOf(url string) string {
	n := strings.TrimPrefix(msgNameOfURL(url), "google.crypto.tink.")
	switch n {
	case "AesCtrHmacAeadKey", "AesGcmKey", "AesGcmSivKey", "ChaCha20Poly1305Key", "XAesGcmKey", "XChaCha20Poly1305Key":
		return "aead"
	case "AesSivKey":
		return "daead"
	case "AesCmacKey", "HmacKey":
		return "mac"
	case "AesCmacPrfKey", "HkdfPrfKey", "HmacPrfKey":
		return "prf"
	case "AesCtrHmacStreamingKey", "AesGcmHkdfStreamingKey":
		return "streaming"
	case "JwtHmacKey":
		return "jwtmac"
	case "PrfBasedDeriverKey":
		return "deriver"
	case "EciesAeadHkdfPrivateKey", "HpkePrivateKey":
		return "hybrid"
	case "EciesAeadHkdfPublicKey", "HpkePublicKey":
		return "hybridpub"
	case "SlhDsaPrivateKey":
		return "slowsig"
	case "SlhDsaPublicKey":
		return "sigpub"
	}
	switch {
	case strings.HasPrefix(n, "Jwt") && strings.HasSuffix(n, "PrivateKey"):
		return "jwtsig"
	case strings.HasPrefix(n, "Jwt") && strings.HasSuffix(n, "PublicKey"):
		return "jwtpub"
	case strings.HasSuffix(n, "PrivateKey"):
		return "sig"
	case strings.HasSuffix(n, "PublicKey"):
		return "sigpub"
	}
	return "unknown"
}

var interopMsg = []byte("c12 interoperability message")
var interopAD = []byte("c12 ad")

func jwtRaw() *jwt.RawJWT {
	iss := "c12"
	r, err := jwt.NewRawJWT(&jwt.RawJWTOptions{Issuer: &iss, WithoutExpiration: true})
	if err != nil {
		panic(err)
	}
	return r
}

func jwtValidator() *jwt.Validator {
	iss := "c12"
	v, err := jwt.NewValidator(&jwt.ValidatorOpts{ExpectedIssuer: &iss, AllowMissingExpiration: true})
	if err != nil {
		panic(err)
	}
	return v
}

// oneWay: produce with a's primitive, consume with b's.
func oneWay(fam string, a, b *keyset.Handle) string {
	switch fam {
	case "aead":
		pa, err := aead.New(a)
		if err != nil {
			return "aead.New: " + err.Error()
		}
		pb, err := aead.New(b)
		if err != nil {
			return "aead.New(reread): " + err.Error()
		}
		ct, err := pa.Encrypt(interopMsg, interopAD)
		if err != nil {
			return "Encrypt: " + err.Error()
		}
		pt, err := pb.Decrypt(ct, interopAD)
		if err != nil || !bytes.Equal(pt, interopMsg) {
			return "Decrypt of the other handle's ciphertext failed"
		}
	case "daead":
		pa, err := daead.New(a)
		if err != nil {
			return "daead.New: " + err.Error()
		}
		pb, err := daead.New(b)
		if err != nil {
			return "daead.New(reread): " + err.Error()
		}
		ca, err1 := pa.EncryptDeterministically(interopMsg, interopAD)
		cb, err2 := pb.EncryptDeterministically(interopMsg, interopAD)
		if err1 != nil || err2 != nil || !bytes.Equal(ca, cb) {
			return "deterministic ciphertexts differ"
		}
		pt, err := pb.DecryptDeterministically(ca, interopAD)
		if err != nil || !bytes.Equal(pt, interopMsg) {
			return "DecryptDeterministically failed"
		}
	case "mac":
		pa, err := mac.New(a)
		if err != nil {
			return "mac.New: " + err.Error()
		}
		pb, err := mac.New(b)
		if err != nil {
			return "mac.New(reread): " + err.Error()
		}
		tag, err := pa.ComputeMAC(interopMsg)
		if err != nil {
			return "ComputeMAC: " + err.Error()
		}
		if err := pb.VerifyMAC(tag, interopMsg); err != nil {
			return "VerifyMAC of the other handle's tag failed"
		}
	case "prf":
		pa, err := prf.NewPRFSet(a)
		if err != nil {
			return "prf.NewPRFSet: " + err.Error()
		}
		pb, err := prf.NewPRFSet(b)
		if err != nil {
			return "prf.NewPRFSet(reread): " + err.Error()
		}
		if pa.PrimaryID != pb.PrimaryID || len(pa.PRFs) != len(pb.PRFs) {
			return "PRF sets differ in shape"
		}
		for id, p := range pa.PRFs {
			q, ok := pb.PRFs[id]
			if !ok {
				return "PRF id missing"
			}
			x, err1 := p.ComputePRF(interopMsg, 16)
			y, err2 := q.ComputePRF(interopMsg, 16)
			if err1 != nil || err2 != nil || !bytes.Equal(x, y) {
				return "PRF outputs differ"
			}
		}
	case "streaming":
		pa, err := streamingaead.New(a)
		if err != nil {
			return "streamingaead.New: " + err.Error()
		}
		pb, err := streamingaead.New(b)
		if err != nil {
			return "streamingaead.New(reread): " + err.Error()
		}
		buf := &bytes.Buffer{}
		w, err := pa.NewEncryptingWriter(buf, interopAD)
		if err != nil {
			return "NewEncryptingWriter: " + err.Error()
		}
		if _, err := w.Write(interopMsg); err != nil {
			return "stream write: " + err.Error()
		}
		if err := w.Close(); err != nil {
			return "stream close: " + err.Error()
		}
		r, err := pb.NewDecryptingReader(bytes.NewReader(buf.Bytes()), interopAD)
		if err != nil {
			return "NewDecryptingReader: " + err.Error()
		}
		pt, err := io.ReadAll(r)
		if err != nil || !bytes.Equal(pt, interopMsg) {
			return "stream decrypt of the other handle's ciphertext failed"
		}
	case "jwtmac":
		pa, err := jwt.NewMAC(a)
		if err != nil {
			return "jwt.NewMAC: " + err.Error()
		}
		pb, err := jwt.NewMAC(b)
		if err != nil {
			return "jwt.NewMAC(reread): " + err.Error()
		}
		tok, err := pa.ComputeMACAndEncode(jwtRaw())
		if err != nil {
			return "ComputeMACAndEncode: " + err.Error()
		}
		if _, err := pb.VerifyMACAndDecode(tok, jwtValidator()); err != nil {
			return "VerifyMACAndDecode of the other handle's token failed"
		}
	case "deriver":
		pa, err := keyderivation.New(a)
		if err != nil {
			return "keyderivation.New: " + err.Error()
		}
		pb, err := keyderivation.New(b)
		if err != nil {
			return "keyderivation.New(reread): " + err.Error()
		}
		da, err1 := pa.DeriveKeyset(interopMsg)
		db, err2 := pb.DeriveKeyset(interopMsg)
		if err1 != nil || err2 != nil {
			return "DeriveKeyset failed"
		}
		if !bytes.Equal(detMarshal(insecurecleartextkeyset.KeysetMaterial(da)), detMarshal(insecurecleartextkeyset.KeysetMaterial(db))) {
			return "derived keysets differ"
		}
	case "sig", "hybrid", "jwtsig":
		pub, err := b.Public()
		if err != nil {
			return "Public: " + err.Error()
		}
		return privPub(fam, a, pub)
	case "slowsig", "sigpub", "hybridpub", "jwtpub", "unknown":
		// SLH-DSA signing is too slow for every case; public-only keysets and
		// unknown types are compared by key equality only
	}
	return ""
}

// privPub: produce with the private handle, consume with the public handle
// (signatures) or the other way round (hybrid encryption).
func privPub(fam string, priv, pub *keyset.Handle) string {
	switch fam {
	case "sig":
		s, err := signature.NewSigner(priv)
		if err != nil {
			return "NewSigner: " + err.Error()
		}
		v, err := signature.NewVerifier(pub)
		if err != nil {
			return "NewVerifier: " + err.Error()
		}
		sig, err := s.Sign(interopMsg)
		if err != nil {
			return "Sign: " + err.Error()
		}
		if err := v.Verify(sig, interopMsg); err != nil {
			return "Verify of the other handle's signature failed"
		}
	case "hybrid":
		e, err := hybrid.NewHybridEncrypt(pub)
		if err != nil {
			return "NewHybridEncrypt: " + err.Error()
		}
		d, err := hybrid.NewHybridDecrypt(priv)
		if err != nil {
			return "NewHybridDecrypt: " + err.Error()
		}
		ct, err := e.Encrypt(interopMsg, interopAD)
		if err != nil {
			return "hybrid Encrypt: " + err.Error()
		}
		pt, err := d.Decrypt(ct, interopAD)
		if err != nil || !bytes.Equal(pt, interopMsg) {
			return "hybrid Decrypt of the other handle's ciphertext failed"
		}
	case "jwtsig":
		s, err := jwt.NewSigner(priv)
		if err != nil {
			return "jwt.NewSigner: " + err.Error()
		}
		v, err := jwt.NewVerifier(pub)
		if err != nil {
			return "jwt.NewVerifier: " + err.Error()
		}
		tok, err := s.SignAndEncode(jwtRaw())
		if err != nil {
			return "SignAndEncode: " + err.Error()
		}
		if _, err := v.VerifyAndDecode(tok, jwtValidator()); err != nil {
			return "VerifyAndDecode of the other handle's token failed"
		}
	}
	return ""
}

// usable: can the family's primitives be created from the handle at all?
// (Some accepted parameter combinations have no primitive, e.g. ECIES with an
// XChaCha20-Poly1305 DEM; that is not a serialisation matter.)
func usable(fam string, h *keyset.Handle) bool {
	var err error
	switch fam {
	case "aead":
		_, err = aead.New(h)
	case "daead":
		_, err = daead.New(h)
	case "mac":
		_, err = mac.New(h)
	case "prf":
		_, err = prf.NewPRFSet(h)
	case "streaming":
		_, err = streamingaead.New(h)
	case "jwtmac":
		_, err = jwt.NewMAC(h)
	case "deriver":
		_, err = keyderivation.New(h)
	case "sig", "hybrid", "jwtsig":
		pub, perr := h.Public()
		if perr != nil {
			return false
		}
		switch fam {
		case "sig":
			if _, err = signature.NewSigner(h); err == nil {
				_, err = signature.NewVerifier(pub)
			}
		case "hybrid":
			if _, err = hybrid.NewHybridDecrypt(h); err == nil {
				_, err = hybrid.NewHybridEncrypt(pub)
			}
		case "jwtsig":
			if _, err = jwt.NewSigner(h); err == nil {
				_, err = jwt.NewVerifier(pub)
			}
		}
	}
	return err == nil
}

// interop: primitives of the original and the reread handle interoperate, both ways.
func interop(fam string, a, b *keyset.Handle) string {
	if !usable(fam, a) {
		if usable(fam, b) {
			return "the reread handle yields primitives but the original does not"
		}
		return ""
	}
	if d := oneWay(fam, a, b); d != "" {
		return "original->reread: " + d
	}
	if d := oneWay(fam, b, a); d != "" {
		return "reread->original: " + d
	}
	return ""
}

// interopPublic: the reread public handle works with the original private one.
func interopPublic(fam string, priv, pubReread *keyset.Handle) string {
	if !usable(fam, priv) {
		return ""
	}
	switch fam {
	case "sig", "hybrid", "jwtsig":
		return privPub(fam, priv, pubReread)
	}
	return ""
}

var _ = fmt.Sprint
