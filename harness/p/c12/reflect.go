package c12

import (
	"fmt"
	"sort"
	"strconv"
	"strings"

	"github.com/tink-crypto/tink-go/v2/verifharness/hx"
	"google.golang.org/protobuf/proto"
	"google.golang.org/protobuf/reflect/protoreflect"
	"google.golang.org/protobuf/reflect/protoregistry"
)

// Schema, canonical text and canonical bytes of protobuf messages, read by
// reflection from the generated descriptors.  The model receives the schema in
// the case line and must reproduce bytes and text from the wire bytes alone.

func sortedFields(md protoreflect.MessageDescriptor) []protoreflect.FieldDescriptor {
	fs := md.Fields()
	out := make([]protoreflect.FieldDescriptor, 0, fs.Len())
	for i := 0; i < fs.Len(); i++ {
		out = append(out, fs.Get(i))
	}
	sort.Slice(out, func(i, j int) bool { return out[i].Number() < out[j].Number() })
	return out
}

// schemaOf prints num:kind,... with kinds u32 u64 i32 i64 e b y(bytes) s(string) m(..) r(..).
func schemaOf(md protoreflect.MessageDescriptor) string {
	var parts []string
	for _, fd := range sortedFields(md) {
		if fd.IsMap() || (fd.ContainingOneof() != nil && !fd.ContainingOneof().IsSynthetic()) {
			panic("c12: unsupported field shape " + string(fd.FullName()))
		}
		var k string
		switch fd.Kind() {
		case protoreflect.Uint32Kind:
			k = "u32"
		case protoreflect.Uint64Kind:
			k = "u64"
		case protoreflect.Int32Kind:
			k = "i32"
		case protoreflect.Int64Kind:
			k = "i64"
		case protoreflect.EnumKind:
			k = "e"
		case protoreflect.BoolKind:
			k = "b"
		case protoreflect.BytesKind:
			k = "y"
		case protoreflect.StringKind:
			k = "s"
		case protoreflect.MessageKind:
			if fd.IsList() {
				k = "r(" + schemaOf(fd.Message()) + ")"
			} else {
				k = "m(" + schemaOf(fd.Message()) + ")"
			}
		default:
			panic("c12: unsupported kind " + fd.Kind().String() + " in " + string(fd.FullName()))
		}
		if fd.IsList() && fd.Kind() != protoreflect.MessageKind {
			panic("c12: repeated scalar " + string(fd.FullName()))
		}
		parts = append(parts, fmt.Sprintf("%d:%s", fd.Number(), k))
	}
	return strings.Join(parts, ",")
}

// textOf prints every field in number order: scalars as the unsigned 64-bit
// value that goes on the wire, bytes/strings in hex, "~" for an absent
// message, {..} for a present one, [..] for a repeated one.
func textOf(m protoreflect.Message) string {
	var parts []string
	for _, fd := range sortedFields(m.Descriptor()) {
		v := m.Get(fd)
		var s string
		switch {
		case fd.IsList():
			l := v.List()
			var es []string
			for i := 0; i < l.Len(); i++ {
				es = append(es, "{"+textOf(l.Get(i).Message())+"}")
			}
			s = "[" + strings.Join(es, "") + "]"
		case fd.Kind() == protoreflect.MessageKind:
			if !m.Has(fd) {
				s = "~"
			} else {
				s = "{" + textOf(v.Message()) + "}"
			}
		case fd.Kind() == protoreflect.BytesKind:
			s = hx.H(v.Bytes())
		case fd.Kind() == protoreflect.StringKind:
			s = hx.H([]byte(v.String()))
		case fd.Kind() == protoreflect.BoolKind:
			s = "0"
			if v.Bool() {
				s = "1"
			}
		case fd.Kind() == protoreflect.EnumKind:
			s = strconv.FormatUint(uint64(int64(int32(v.Enum()))), 10)
		case fd.Kind() == protoreflect.Int32Kind, fd.Kind() == protoreflect.Int64Kind:
			s = strconv.FormatUint(uint64(v.Int()), 10)
		default:
			s = strconv.FormatUint(v.Uint(), 10)
		}
		parts = append(parts, s)
	}
	return strings.Join(parts, ",")
}

func clearUnknown(m protoreflect.Message) {
	m.SetUnknown(nil)
	m.Range(func(fd protoreflect.FieldDescriptor, v protoreflect.Value) bool {
		if fd.Kind() == protoreflect.MessageKind {
			if fd.IsList() {
				l := v.List()
				for i := 0; i < l.Len(); i++ {
					clearUnknown(l.Get(i).Message())
				}
			} else {
				clearUnknown(v.Message())
			}
		}
		return true
	})
}

func detMarshal(m proto.Message) []byte {
	b, err := proto.MarshalOptions{Deterministic: true}.Marshal(m)
	if err != nil {
		panic(err)
	}
	return b
}

func msgTypeByName(name string) protoreflect.MessageType {
	mt, err := protoregistry.GlobalTypes.FindMessageByName(protoreflect.FullName(name))
	if err != nil {
		return nil
	}
	return mt
}

func msgNameOfURL(url string) string {
	return strings.TrimPrefix(url, "type.googleapis.com/")
}

func msgTypeOfURL(url string) protoreflect.MessageType { return msgTypeByName(msgNameOfURL(url)) }

// formatTypeOfURL finds the KeyFormat message of a key type URL.
func formatTypeOfURL(url string) protoreflect.MessageType {
	n := msgNameOfURL(url)
	for _, c := range []string{n + "Format", strings.TrimSuffix(n, "PrivateKey") + "KeyFormat"} {
		if mt := msgTypeByName(c); mt != nil {
			return mt
		}
	}
	return nil
}

func schemaOfURL(url string) string {
	mt := msgTypeOfURL(url)
	if mt == nil {
		return ""
	}
	return schemaOf(mt.Descriptor())
}

// decodeCanon unmarshals b as message type mt and returns the canonical
// re-encoding (known fields only) and text; ok=false when Unmarshal fails.
func decodeCanon(mt protoreflect.MessageType, b []byte) (hexs, text string, ok bool) {
	m := mt.New()
	if err := proto.Unmarshal(b, m.Interface()); err != nil {
		return "", "", false
	}
	clearUnknown(m)
	return hx.H(detMarshal(m.Interface())), textOf(m), true
}

// fieldByPath resolves names like "public_key.x" on a message.
func fieldByPath(m protoreflect.Message, path string) (protoreflect.Message, protoreflect.FieldDescriptor) {
	names := strings.Split(path, ".")
	for i, n := range names {
		fd := m.Descriptor().Fields().ByName(protoreflect.Name(n))
		if fd == nil {
			return nil, nil
		}
		if i == len(names)-1 {
			return m, fd
		}
		if fd.Kind() != protoreflect.MessageKind || fd.IsList() {
			return nil, nil
		}
		m = m.Mutable(fd).Message()
	}
	return nil, nil
}
