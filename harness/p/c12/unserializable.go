package c12

// U cases (direct check only, the model answers with the same constant): a handle that
// holds a key its serializer REFUSES (built with constructors: a JWT key whose custom kid is
// not valid UTF-8 cannot go into a proto3 string field).  Every writer must either return an
// error or produce bytes the matching reader turns back into the same keyset; a writer that
// reports success and writes nothing, or something unreadable, is the failure
// (findings/cleartext_write_swallows_serialization_error, fixed by /repo d845f99).
//
//	U|<jwt key type>|<position of the bad key 0..1>

import (
	"bytes"
	"fmt"

	"github.com/tink-crypto/tink-go/v2/aead"
	"github.com/tink-crypto/tink-go/v2/aead/aesgcm"
	"github.com/tink-crypto/tink-go/v2/insecurecleartextkeyset"
	"github.com/tink-crypto/tink-go/v2/insecuresecretdataaccess"
	"github.com/tink-crypto/tink-go/v2/internal/protoserialization"
	"github.com/tink-crypto/tink-go/v2/jwt/jwthmac"
	"github.com/tink-crypto/tink-go/v2/key"
	"github.com/tink-crypto/tink-go/v2/keyset"
	"github.com/tink-crypto/tink-go/v2/secretdata"
)

func unserializableKey(kind string) (key.Key, error) {
	switch kind {
	case "jwthmac":
		p, err := jwthmac.NewParameters(32, jwthmac.CustomKID, jwthmac.HS256)
		if err != nil {
			return nil, err
		}
		return jwthmac.NewKey(jwthmac.KeyOpts{KeyBytes: secretdata.NewBytesFromData(make([]byte, 32), insecuresecretdataaccess.Token{}),
			CustomKID: "kid\xff", HasCustomKID: true, Parameters: p})
	}
	if len(kind) > 7 && kind[:7] == "aesgcm-" {
		// AES-GCM parameters whose IV / tag size the proto format (key_value only) cannot express:
		// aesgcm-<iv>-<tag>  (findings/aesgcm_sizes_lost_in_serialization, fixed by /repo fd043d0)
		var iv, tag int
		if _, err := fmt.Sscanf(kind[7:], "%d-%d", &iv, &tag); err != nil {
			return nil, err
		}
		p, err := aesgcm.NewParameters(aesgcm.ParametersOpts{KeySizeInBytes: 16, IVSizeInBytes: iv, TagSizeInBytes: tag, Variant: aesgcm.VariantTink})
		if err != nil {
			return nil, err
		}
		return aesgcm.NewKey(secretdata.NewBytesFromData(bytes.Repeat([]byte{9}, 16), insecuresecretdataaccess.Token{}), 0x11223344, p)
	}
	return nil, fmt.Errorf("unknown kind %s", kind)
}

// keyLevel: SerializeKey / SerializeParameters of such an object either refuse, or what they write
// parses back to an Equal object (never silently to a different one).
func keyLevel(bad key.Key) string {
	if s, err := protoserialization.SerializeKey(bad); err == nil {
		k2, err := protoserialization.ParseKey(s)
		if err != nil {
			return "SerializeKey succeeded for a key the proto format cannot express and ParseKey fails on the result: " + err.Error()
		}
		if !k2.Equal(bad) {
			return "SerializeKey succeeded and ParseKey gives back a DIFFERENT key (parameters changed silently)"
		}
	}
	if t, err := protoserialization.SerializeParameters(bad.Parameters()); err == nil {
		p2, err := protoserialization.ParseParameters(t)
		if err != nil {
			return "SerializeParameters succeeded and ParseParameters fails on the result: " + err.Error()
		}
		if !p2.Equal(bad.Parameters()) {
			return "SerializeParameters succeeded and ParseParameters gives back DIFFERENT parameters"
		}
	}
	return ""
}

func runUnserializable(f []string) string {
	bad, err := unserializableKey(f[1])
	if err != nil {
		return "u|chk=ok" // the constructor refuses such a key: nothing to check
	}
	// (not for the JWT custom-kid key: that CustomKID PARAMETERS come back as IgnoredKID is the recorded
	// known finding of C12, reported by the parameters cases with its own message)
	if len(f[1]) > 7 && f[1][:7] == "aesgcm-" {
		if msg := keyLevel(bad); msg != "" {
			return "u|chk=" + msg
		}
	}
	p, err := jwthmac.NewParameters(32, jwthmac.IgnoredKID, jwthmac.HS256)
	if err != nil {
		return "u|chk=setup: " + err.Error()
	}
	good, err := jwthmac.NewKey(jwthmac.KeyOpts{KeyBytes: secretdata.NewBytesFromData(bytes.Repeat([]byte{7}, 32), insecuresecretdataaccess.Token{}), Parameters: p})
	if err != nil {
		return "u|chk=setup: " + err.Error()
	}
	km := keyset.NewManager()
	keys := []key.Key{good, bad}
	if f[2] == "0" {
		keys = []key.Key{bad, good}
	}
	var first uint32
	for i, k := range keys {
		id, err := km.AddKey(k)
		if err != nil {
			return "u|chk=ok" // the manager refuses it
		}
		if i == 0 {
			first = id
		}
	}
	if err := km.SetPrimary(first); err != nil {
		return "u|chk=setup: " + err.Error()
	}
	h, err := km.Handle()
	if err != nil {
		return "u|chk=setup: " + err.Error()
	}
	kekH, err := keyset.NewHandle(aead.AES128GCMKeyTemplate())
	if err != nil {
		return "u|chk=setup: " + err.Error()
	}
	kek, err := aead.New(kekH)
	if err != nil {
		return "u|chk=setup: " + err.Error()
	}
	type wr struct {
		name  string
		write func(w keyset.Writer) error
		read  func(r keyset.Reader) (*keyset.Handle, error)
	}
	wrs := []wr{
		{"cleartext", func(w keyset.Writer) error { return insecurecleartextkeyset.Write(h, w) },
			func(r keyset.Reader) (*keyset.Handle, error) { return insecurecleartextkeyset.Read(r) }},
		{"encrypted", func(w keyset.Writer) error { return h.WriteWithAssociatedData(w, kek, []byte("ad")) },
			func(r keyset.Reader) (*keyset.Handle, error) {
				return keyset.ReadWithAssociatedData(r, kek, []byte("ad"))
			}},
	}
	for _, x := range wrs {
		for _, json := range []bool{false, true} {
			var buf bytes.Buffer
			var w keyset.Writer = keyset.NewBinaryWriter(&buf)
			if json {
				w = keyset.NewJSONWriter(&buf)
			}
			if err := x.write(w); err != nil {
				continue // refusing is fine
			}
			var r keyset.Reader = keyset.NewBinaryReader(&buf)
			if json {
				r = keyset.NewJSONReader(&buf)
			}
			n := buf.Len()
			h2, err := x.read(r)
			if err != nil {
				return fmt.Sprintf("u|chk=%s writer (json=%v) reported success for a handle with an unserializable key, wrote %d bytes, and the matching reader fails: %v", x.name, json, n, err)
			}
			if h2.Len() != h.Len() {
				return fmt.Sprintf("u|chk=%s writer (json=%v) reported success but the keyset read back has %d keys, want %d", x.name, json, h2.Len(), h.Len())
			}
			for i := 0; i < h.Len(); i++ {
				e1, err1 := h.Entry(i)
				e2, err2 := h2.Entry(i)
				if err1 != nil || err2 != nil || !e2.Key().Equal(e1.Key()) {
					return fmt.Sprintf("u|chk=%s writer (json=%v) reported success but key %d read back is not Equal to the key written", x.name, json, i)
				}
			}
		}
	}
	return "u|chk=ok"
}
