// Package c12: keys, parameters and keysets survive serialisation unchanged.
//
// Case lines ('|' separated; byte strings in hex, "-" = empty):
//
//	K|tag|url|material|prefix|id|value|schema|puburl|pubschema
//	    a key serialisation (KeyData + prefix + id requirement) produced by
//	    Tink's serializer (tag gen) or derived from one (prefix changed,
//	    big integers re-encoded non-canonically, wire-level noise added).
//	    Run: NewKeySerialization -> ParseKey -> SerializeKey -> ParseKey ->
//	    Equal -> SerializeKey (byte-identical), parameters round trip, public key.
//	P|tag|url|prefix|value|schema
//	    a key template.  Run: ParseParameters -> SerializeParameters -> ... .
//	W|tag|message name|schema|bytes
//	    arbitrary bytes for proto.Unmarshal into that message type; the
//	    canonical re-encoding (unknown fields dropped) and text are compared.
//	H|tag|kek kind|kek key|ad|tape|primary id|entries|schemas|puburls
//	    a keyset: entries ';' separated id~status~prefix~material~url~value;
//	    schemas url=schema;...; puburls privateurl=publicurl~fieldnumber;...
//	    Run: cleartext / encrypted / public-only, binary and JSON, written and
//	    read back; same keys, ids, statuses, primary, order; primitives of the
//	    original and the reread handle interoperate.
//	T|tag|K or E|json text
//	    the JSON text of a Keyset / EncryptedKeyset through the JSON reader (jsontext.go);
//	    the model parses the text itself.
//
// Observation: what the model must reproduce from the line alone (serialised
// bytes, field text, handle shape).  The verdict of the direct checks (which
// need no model) is kept aside by run and returned by check.
package c12

import (
	"bytes"
	"fmt"
	"reflect"
	"strconv"
	"strings"
	"sync"

	"github.com/tink-crypto/tink-go/v2/internal/protoserialization"
	"github.com/tink-crypto/tink-go/v2/key"
	"github.com/tink-crypto/tink-go/v2/verifharness/hx"
	"google.golang.org/protobuf/proto"

	tinkpb "github.com/tink-crypto/tink-go/v2/proto/tink_go_proto"
)

func init() {
	hx.Register("C12", &hx.Prop{Gen: gen, Run: run, Check: check, Class: class})
}

func atoiU32(s string) uint32 {
	v, err := strconv.ParseUint(s, 10, 32)
	if err != nil {
		panic("bad number " + s)
	}
	return uint32(v)
}

// The run functions return "<observation>|chk=<ok or what failed>".  The
// observation (what the model must reproduce) is returned by run; the verdict
// of the direct checks is kept for check, which the driver calls right after
// run on the same line.
var (
	verdictMu sync.Mutex
	verdicts  = map[string]string{}
)

func run(in string) string {
	f := strings.Split(in, "|")
	var r string
	switch f[0] {
	case "K":
		r = runKey(f)
	case "P":
		r = runParams(f)
	case "W":
		r = runWire(f)
	case "H":
		r = runHandle(f)
	case "M":
		r = runManager(f)
	case "N":
		r = runFromParameters(f)
	case "U":
		r = runUnserializable(f)
	case "T":
		r = runJSONText(f)
	case "GENFAIL":
		r = "genfail|chk=" + f[1]
	default:
		panic("unknown case kind " + f[0])
	}
	obs, verdict := r, "ok"
	if i := strings.LastIndex(r, "|chk="); i >= 0 {
		obs, verdict = r[:i], r[i+5:]
	}
	verdictMu.Lock()
	verdicts[in] = verdict
	verdictMu.Unlock()
	return obs
}

func check(in, obs string) string {
	if strings.HasPrefix(obs, "PANIC") {
		return obs
	}
	verdictMu.Lock()
	v, ok := verdicts[in]
	delete(verdicts, in)
	verdictMu.Unlock()
	if !ok {
		// not run in this process: run the direct checks now
		run(in)
		verdictMu.Lock()
		v = verdicts[in]
		delete(verdicts, in)
		verdictMu.Unlock()
	}
	if v != "ok" {
		return v
	}
	return ""
}

func class(in, obs string) string {
	f := strings.Split(in, "|")
	res := "ok"
	if strings.HasPrefix(obs, "err") {
		res = "err"
	}
	switch f[0] {
	case "K":
		idc := "id-other"
		switch f[5] {
		case "0", "1", "2147483648", "4294967295":
			idc = "id" + f[5]
		}
		return "K/" + f[1] + "/" + msgNameOfURL(f[2])[len("google.crypto.tink."):] + "/p" + f[4] + "/" + idc + "/" + fmt.Sprint(len(f[6])/128) + "/" + res
	case "P":
		return "P/" + f[1] + "/" + msgNameOfURL(f[2])[len("google.crypto.tink."):] + "/p" + f[3] + "/" + fmt.Sprint(len(f[4])/16) + "/" + res
	case "W":
		return "W/" + f[1] + "/" + f[2][len("google.crypto.tink."):] + "/" + res
	case "U":
		return "U/" + f[1] + "/" + f[2]
	case "T": // JSON text layer: one class per (message, family, outcome)
		return "T/" + f[2] + "/" + f[1] + "/" + res
	case "H", "M", "N":
		n := len(strings.Split(f[7], ";"))
		fam := ""
		if es := strings.Split(f[7], ";"); len(es) > 0 {
			fam = familyOf(strings.Split(es[0], "~")[4])
		}
		return f[0] + "/" + f[1] + "/" + f[2] + "/" + fam + "/n" + fmt.Sprint(n) + "/" + res
	}
	return ""
}

// ---- K ---------------------------------------------------------------------

func serString(s *protoserialization.KeySerialization) string {
	return fmt.Sprintf("%s|%d|%d|%d|%s", s.KeyData().GetTypeUrl(), int32(s.KeyData().GetKeyMaterialType()),
		int32(s.OutputPrefixType()), func() uint32 { id, _ := s.IDRequirement(); return id }(), hx.H(s.KeyData().GetValue()))
}

func serEqual(a, b *protoserialization.KeySerialization) bool {
	ida, _ := a.IDRequirement()
	idb, _ := b.IDRequirement()
	return a.KeyData().GetTypeUrl() == b.KeyData().GetTypeUrl() &&
		a.KeyData().GetKeyMaterialType() == b.KeyData().GetKeyMaterialType() &&
		bytes.Equal(a.KeyData().GetValue(), b.KeyData().GetValue()) &&
		a.OutputPrefixType() == b.OutputPrefixType() && ida == idb
}

type prefixer interface{ OutputPrefix() []byte }

// describeParams names the parameters type and, for JWT parameters, the KID strategy.
func describeParams(p key.Parameters) string {
	d := fmt.Sprintf("%T", p)
	if m := reflect.ValueOf(p).MethodByName("KIDStrategy"); m.IsValid() && m.Type().NumIn() == 0 && m.Type().NumOut() == 1 {
		d += fmt.Sprintf(" kid-strategy=%v", m.Call(nil)[0].Interface())
	}
	return d
}

type privateKey interface {
	PublicKey() (key.Key, error)
}

// roundTripKey runs the direct checks of the property on one key object and
// returns its serialisation, the serialisation of its public key (or nil) and
// what failed ("" = nothing).
func roundTripKey(k key.Key) (s1, ps *protoserialization.KeySerialization, fail string) {
	s1, err := protoserialization.SerializeKey(k)
	if err != nil {
		return nil, nil, "SerializeKey failed on a parsed key: " + err.Error()
	}
	k2, err := protoserialization.ParseKey(s1)
	if err != nil {
		return s1, nil, "ParseKey failed on SerializeKey output: " + err.Error()
	}
	if !k2.Equal(k) || !k.Equal(k2) {
		return s1, nil, "parse(serialize(k)) is not Equal to k"
	}
	s2, err := protoserialization.SerializeKey(k2)
	if err != nil {
		return s1, nil, "second SerializeKey failed: " + err.Error()
	}
	if !serEqual(s1, s2) {
		return s1, nil, "second serialization differs from the first"
	}
	id1, has1 := k.IDRequirement()
	id2, has2 := k2.IDRequirement()
	if id1 != id2 || has1 != has2 {
		return s1, nil, "id requirement changed by the round trip"
	}
	if a, ok := k.(prefixer); ok {
		if b, ok := k2.(prefixer); !ok || !bytes.Equal(a.OutputPrefix(), b.OutputPrefix()) {
			return s1, nil, "output prefix changed by the round trip"
		}
	}
	// parameters (a failure here does not stop the public-key part below)
	p := k.Parameters()
	paramFail := func() string {
		if !p.Equal(k2.Parameters()) || !k2.Parameters().Equal(p) {
			return "parameters of the reparsed key differ"
		}
		if p.HasIDRequirement() != has1 {
			return "Parameters.HasIDRequirement disagrees with the key"
		}
		if t1, err := protoserialization.SerializeParameters(p); err == nil {
			p2, err := protoserialization.ParseParameters(t1)
			if err != nil {
				return "ParseParameters failed on SerializeParameters output: " + err.Error()
			}
			if !p2.Equal(p) || !p.Equal(p2) {
				return "parse(serialize(parameters)) not Equal for " + describeParams(p)
			}
			t2, err := protoserialization.SerializeParameters(p2)
			if err != nil || !proto.Equal(t1, t2) || !bytes.Equal(detMarshal(t1), detMarshal(t2)) {
				return "second parameters serialization differs"
			}
		}
		return ""
	}()
	defer func() {
		if fail == "" {
			fail = paramFail
		}
	}()
	// public key
	if pk, ok := k.(privateKey); ok {
		pub, err := pk.PublicKey()
		if err != nil {
			return s1, nil, "PublicKey failed: " + err.Error()
		}
		ps, err = protoserialization.SerializeKey(pub)
		if err != nil {
			return s1, nil, "SerializeKey(public) failed: " + err.Error()
		}
		pub2, err := protoserialization.ParseKey(ps)
		if err != nil {
			return s1, ps, "ParseKey(public serialization) failed: " + err.Error()
		}
		if !pub2.Equal(pub) || !pub.Equal(pub2) {
			return s1, ps, "public key round trip not Equal"
		}
		pid, phas := pub.IDRequirement()
		if pid != id1 || phas != has1 {
			return s1, ps, "public key id requirement differs from the private key's"
		}
		pub3, err := k2.(privateKey).PublicKey()
		if err != nil || !pub3.Equal(pub) {
			return s1, ps, "public key of the reparsed private key differs"
		}
	}
	return s1, ps, ""
}

func runKey(f []string) string {
	url, mat, prefix, id, value := f[2], atoiU32(f[3]), atoiU32(f[4]), atoiU32(f[5]), hx.UH(f[6])
	kd := &tinkpb.KeyData{TypeUrl: url, Value: value, KeyMaterialType: tinkpb.KeyData_KeyMaterialType(mat)}
	s0, err := protoserialization.NewKeySerialization(kd, tinkpb.OutputPrefixType(prefix), id)
	if err != nil {
		return "err-ser|chk=ok"
	}
	k, err := protoserialization.ParseKey(s0)
	if err != nil {
		return "err|chk=ok"
	}
	s1, ps, fail := roundTripKey(k)
	if s1 == nil {
		return "ok|?|chk=" + fail
	}
	mt := msgTypeOfURL(url)
	_, text, ok := decodeCanon(mt, s1.KeyData().GetValue())
	if !ok {
		return "ok|?|chk=serialized value does not unmarshal"
	}
	out := "ok|" + serString(s1) + "|" + text
	if ps != nil && f[8] != "-" {
		out += "|PUB:" + serString(ps)
	} else {
		out += "|PUB:-"
	}
	if fail == "" && f[1] == "gen" && !serEqual(s0, s1) {
		// the line holds what Tink's own serializer produced for the generated key
		fail = "reserialization of a serializer output is not byte-identical"
	}
	if fail == "" {
		fail = "ok"
	}
	return out + "|chk=" + fail
}

// ---- P ---------------------------------------------------------------------

func runParams(f []string) string {
	url, prefix, value := f[2], atoiU32(f[3]), hx.UH(f[4])
	t0 := &tinkpb.KeyTemplate{TypeUrl: url, Value: value, OutputPrefixType: tinkpb.OutputPrefixType(prefix)}
	p, err := protoserialization.ParseParameters(t0)
	if err != nil {
		return "err|chk=ok"
	}
	t1, err := protoserialization.SerializeParameters(p)
	if err != nil {
		return "ok|?|chk=SerializeParameters failed on parsed parameters: " + err.Error()
	}
	fail := ""
	p2, err := protoserialization.ParseParameters(t1)
	switch {
	case err != nil:
		fail = "ParseParameters failed on SerializeParameters output"
	case !p2.Equal(p) || !p.Equal(p2):
		fail = "parse(serialize(parameters)) not Equal"
	default:
		t2, err := protoserialization.SerializeParameters(p2)
		if err != nil || !bytes.Equal(detMarshal(t1), detMarshal(t2)) {
			fail = "second parameters serialization differs"
		}
	}
	ft := formatTypeOfURL(url)
	_, text, ok := decodeCanon(ft, t1.GetValue())
	if !ok {
		return "ok|?|chk=serialized format does not unmarshal"
	}
	if fail == "" && f[1] == "gen" && !(t1.GetTypeUrl() == url && uint32(t1.GetOutputPrefixType()) == prefix && bytes.Equal(t1.GetValue(), value)) {
		fail = "reserialization of a parameters-serializer output is not byte-identical"
	}
	if fail == "" {
		fail = "ok"
	}
	return fmt.Sprintf("ok|%s|%d|%s|%s|chk=%s", t1.GetTypeUrl(), int32(t1.GetOutputPrefixType()), hx.H(t1.GetValue()), text, fail)
}

// ---- W ---------------------------------------------------------------------

func runWire(f []string) string {
	mt := msgTypeByName(f[2])
	if mt == nil {
		panic("unknown message " + f[2])
	}
	h, text, ok := decodeCanon(mt, hx.UH(f[4]))
	if !ok {
		return "err|chk=ok"
	}
	// decoding the canonical re-encoding must give the same message again
	h2, text2, ok2 := decodeCanon(mt, hx.UH(h))
	fail := "ok"
	if !ok2 || h2 != h || text2 != text {
		fail = "canonical re-encoding does not decode to the same message"
	}
	return "ok|" + h + "|" + text + "|chk=" + fail
}
