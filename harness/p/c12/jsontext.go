package c12

import (
	"bytes"
	"fmt"
	"strings"

	"github.com/tink-crypto/tink-go/v2/insecurecleartextkeyset"
	"github.com/tink-crypto/tink-go/v2/keyset"
	"github.com/tink-crypto/tink-go/v2/verifharness/hx"
	"github.com/tink-crypto/tink-go/v2/verifharness/p/ksjson"
	"google.golang.org/protobuf/encoding/protojson"
	"google.golang.org/protobuf/proto"

	tinkpb "github.com/tink-crypto/tink-go/v2/proto/tink_go_proto"
)

// T|<tag>|<K or E>|<json text hex>
//
//	the JSON text of a tinkpb.Keyset (K) or tinkpb.EncryptedKeyset (E) through
//	keyset.NewJSONReader(..).Read() / ReadEncrypted().  Observation: "err", or
//	"ok|<the message the reader returned, proto.Marshal deterministic, hex>".  The
//	model (coq/model/JsonKeyset.v) parses the TEXT itself and prints the message in
//	the same canonical bytes.  Direct checks: the reader agrees with protojson.Unmarshal
//	(json_io.go adds nothing); a text tagged :R (unknown / duplicate field, wrong JSON
//	type, uint32 out of range, unknown enum name, bad base64 character, syntax) is refused;
//	a text tagged :A (the dangling exponent marker protobuf-go's integer path tolerates) is read;
//	what the JSON WRITER makes of the returned message is read back as the same message;
//	and when the keyset yields a handle, insecurecleartextkeyset.Write to JSON and Read
//	give the same keyset material back.
func runJSONText(f []string) string {
	text := hx.UH(f[3])
	tagR := strings.Contains(f[1], ":R")
	tagA := strings.Contains(f[1], ":A")
	var msg, direct proto.Message
	var err, derr error
	if f[2] == "K" {
		var ks *tinkpb.Keyset
		ks, err = keyset.NewJSONReader(bytes.NewReader(text)).Read()
		d := &tinkpb.Keyset{}
		derr = protojson.Unmarshal(text, d)
		msg, direct = ks, d
	} else {
		var e *tinkpb.EncryptedKeyset
		e, err = keyset.NewJSONReader(bytes.NewReader(text)).ReadEncrypted()
		d := &tinkpb.EncryptedKeyset{}
		derr = protojson.Unmarshal(text, d)
		msg, direct = e, d
	}
	obs := "err"
	if err == nil {
		obs = "ok|" + hx.H(detMarshal(msg))
	}
	fail := func(s string) string { return obs + "|chk=" + s }
	if (err == nil) != (derr == nil) {
		return fail("the JSON reader and protojson.Unmarshal disagree about the text")
	}
	if err != nil {
		if tagA {
			return "err|chk=a text protojson reads by construction (dangling exponent marker on an integer field) was refused (" + f[1] + ")"
		}
		return "err|chk=ok"
	}
	if tagR {
		return fail("a JSON text that must be refused was read (" + f[1] + ")")
	}
	if !proto.Equal(msg, direct) {
		return fail("the JSON reader returns another message than protojson.Unmarshal")
	}
	// JSON writer, then JSON reader: the same message
	var buf bytes.Buffer
	w := keyset.NewJSONWriter(&buf)
	if f[2] == "K" {
		if werr := w.Write(msg.(*tinkpb.Keyset)); werr != nil {
			return fail("JSON writer failed on a message the reader returned: " + werr.Error())
		}
		back, rerr := keyset.NewJSONReader(bytes.NewReader(buf.Bytes())).Read()
		if rerr != nil || !proto.Equal(back, msg) {
			return fail("JSON write then read does not give the keyset message back")
		}
		// the handle, when there is one: JSON write / read of the handle gives the same keyset material
		if h, herr := insecurecleartextkeyset.Read(keyset.NewJSONReader(bytes.NewReader(text))); herr == nil {
			var hb bytes.Buffer
			if werr := insecurecleartextkeyset.Write(h, keyset.NewJSONWriter(&hb)); werr != nil {
				return fail("insecurecleartextkeyset.Write (JSON) failed on a handle read from JSON: " + werr.Error())
			}
			h2, rerr := insecurecleartextkeyset.Read(keyset.NewJSONReader(bytes.NewReader(hb.Bytes())))
			if rerr != nil {
				return fail("a handle written as JSON cannot be read back: " + rerr.Error())
			}
			if !bytes.Equal(detMarshal(insecurecleartextkeyset.KeysetMaterial(h)), detMarshal(insecurecleartextkeyset.KeysetMaterial(h2))) {
				return fail("handle -> JSON -> handle changes the keyset material")
			}
			if d := sameHandle(h, h2); d != "" {
				return fail("handle -> JSON -> handle: " + d)
			}
		}
	} else {
		if werr := w.WriteEncrypted(msg.(*tinkpb.EncryptedKeyset)); werr != nil {
			return fail("JSON writer failed on a message the reader returned: " + werr.Error())
		}
		back, rerr := keyset.NewJSONReader(bytes.NewReader(buf.Bytes())).ReadEncrypted()
		if rerr != nil || !proto.Equal(back, msg) {
			return fail("JSON write then read does not give the EncryptedKeyset message back")
		}
	}
	return obs + "|chk=ok"
}

func lineT(tag, kind, text string) string {
	return "T|" + strings.NewReplacer("|", "/").Replace(tag) + "|" + kind + "|" + hx.H([]byte(text))
}

func jtTag(fam, exp string) string {
	if exp != "" {
		return "jt-" + fam + ":" + exp
	}
	return "jt-" + fam
}

func infoOf(ks *tinkpb.Keyset) *tinkpb.KeysetInfo {
	info := &tinkpb.KeysetInfo{PrimaryKeyId: ks.GetPrimaryKeyId()}
	for _, k := range ks.GetKey() {
		info.KeyInfo = append(info.KeyInfo, &tinkpb.KeysetInfo_KeyInfo{TypeUrl: k.GetKeyData().GetTypeUrl(), Status: k.GetStatus(),
			KeyId: k.GetKeyId(), OutputPrefixType: k.GetOutputPrefixType()})
	}
	return info
}

// jsonTextLines: from the keyset of a generated H line - the text Tink's own
// writer produces, the message spelled in a random accepted style, and the
// same with one fault; cleartext and encrypted.
func jsonTextLines(r *hx.Rng, hline string) []string {
	f := strings.Split(hline, "|")
	ks := parseEntries(atoiU32(f[6]), f[7])
	if r.Chance(30) { // exotic but legal field values
		k := ks.Key[r.Intn(len(ks.Key))]
		switch r.Intn(6) {
		case 0:
			k.KeyData = nil
		case 1:
			k.Status = tinkpb.KeyStatusType(hx.PickS(r, []int32{0, 7, -1, 2147483647, -2147483648}))
		case 2:
			k.OutputPrefixType = tinkpb.OutputPrefixType(hx.PickS(r, []int32{0, 6, 99, -5}))
		case 3:
			k.KeyData.KeyMaterialType = tinkpb.KeyData_KeyMaterialType(hx.PickS(r, []int32{0, 5, -1}))
		case 4:
			k.KeyId = hx.PickS(r, []uint32{0, 1, 4294967295, 2147483648})
		default:
			k.KeyData.TypeUrl = hx.PickS(r, []string{"", "é😀", "a\"b\\c\n", "\x00"})
		}
	}
	var out []string
	var buf bytes.Buffer
	if r.Chance(35) && keyset.NewJSONWriter(&buf).Write(ks) == nil {
		out = append(out, lineT("jt-tink-writer", "K", buf.String()))
	}
	st := ksjson.RandomStyle(r)
	text, fam, exp := ksjson.Case(ksjson.Keyset(ks, r, st), r, r.Chance(60), st.Space)
	out = append(out, lineT(jtTag(fam, exp), "K", text))
	if r.Chance(40) {
		e := &tinkpb.EncryptedKeyset{EncryptedKeyset: r.Bytes(r.Intn(80))}
		if r.Chance(80) {
			e.KeysetInfo = infoOf(ks)
		}
		buf.Reset()
		if r.Chance(30) && keyset.NewJSONWriter(&buf).WriteEncrypted(e) == nil {
			out = append(out, lineT("jt-tink-writer", "E", buf.String()))
		}
		st := ksjson.RandomStyle(r)
		text, fam, exp := ksjson.Case(ksjson.Encrypted(e, r, st), r, r.Chance(60), st.Space)
		out = append(out, lineT(jtTag(fam, exp), "E", text))
	}
	return out
}

// directedJSONText: every fault family and text manipulation on fixed small
// keysets, every style dimension.
func directedJSONText() []string {
	r := hx.NewRng(20260929)
	mk := func() *tinkpb.Keyset {
		n := 1 + r.Intn(3)
		ks := &tinkpb.Keyset{PrimaryKeyId: 7}
		for i := 0; i < n; i++ {
			ks.Key = append(ks.Key, &tinkpb.Keyset_Key{KeyId: uint32(7 + 1000*i), Status: tinkpb.KeyStatusType(1 + i%3),
				OutputPrefixType: tinkpb.OutputPrefixType(1 + r.Intn(5)),
				KeyData: &tinkpb.KeyData{TypeUrl: "type.googleapis.com/google.crypto.tink." + hx.PickS(r, []string{"AesGcmKey", "HmacKey", "Unknown"}),
					Value: r.Bytes(r.Intn(40)), KeyMaterialType: tinkpb.KeyData_KeyMaterialType(1 + r.Intn(4))}})
		}
		return ks
	}
	enc := func(ks *tinkpb.Keyset) *tinkpb.EncryptedKeyset {
		return &tinkpb.EncryptedKeyset{EncryptedKeyset: r.Bytes(1 + r.Intn(60)), KeysetInfo: infoOf(ks)}
	}
	var out []string
	for _, fl := range ksjson.Faults() {
		for i := 0; i < 6; i++ {
			st := ksjson.RandomStyle(r)
			if i < 2 {
				st = ksjson.Style{}
			}
			n := ksjson.Keyset(mk(), r, st)
			if exp, ok := fl.Apply(n, r); ok {
				out = append(out, lineT(jtTag(fl.Name, exp), "K", n.Text(r, st.Space)))
			}
		}
		for i := 0; i < 3; i++ {
			st := ksjson.RandomStyle(r)
			n := ksjson.Encrypted(enc(mk()), r, st)
			if exp, ok := fl.Apply(n, r); ok {
				out = append(out, lineT(jtTag(fl.Name, exp), "E", n.Text(r, st.Space)))
			}
		}
	}
	for _, tf := range ksjson.TextFaults() {
		for i := 0; i < 4; i++ {
			kind, n := "K", ksjson.Keyset(mk(), r, ksjson.RandomStyle(r))
			if i == 3 {
				kind, n = "E", ksjson.Encrypted(enc(mk()), r, ksjson.RandomStyle(r))
			}
			t := n.Text(r, i%2 == 1)
			o := tf.F(t, r)
			if o == t && tf.Exp == "R" {
				o = t + "}"
			}
			out = append(out, lineT(jtTag(tf.Name, tf.Exp), kind, o))
		}
	}
	for dim := 0; dim < 8; dim++ {
		for v := 0; v < 5; v++ {
			st := ksjson.Style{}
			switch dim {
			case 0:
				st.Snake = v % 3
			case 1:
				st.Enum = v
			case 2:
				st.U32 = v
			case 3:
				st.B64 = v
			case 4:
				st.Shuffle = true
			case 5:
				st.Space = true
			case 6:
				st.Nulls = true
			case 7:
				st.Escape = true
			}
			ks := mk()
			out = append(out, lineT(fmt.Sprintf("jt-style%d.%d", dim, v), "K", ksjson.Keyset(ks, r, st).Text(r, st.Space)))
			if v < 2 {
				out = append(out, lineT(fmt.Sprintf("jt-style%d.%d", dim, v), "E", ksjson.Encrypted(enc(ks), r, st).Text(r, st.Space)))
			}
		}
	}
	// the dangling exponent marker on every integer / enum field of both schemas, bare and string form
	for _, d := range ksjson.DanglingTexts() {
		out = append(out, lineT(jtTag("dangling-e-field", d.Exp), d.Kind, d.Text))
	}
	// end to end: the text of Tink's own writer with the primary key id given a dangling marker
	for i := 0; i < 4; i++ {
		var buf bytes.Buffer
		ks := mk()
		if keyset.NewJSONWriter(&buf).Write(ks) == nil {
			if t := danglingPrimary(buf.String()); t != "" {
				out = append(out, lineT("jt-dangling-e-writer:A", "K", t))
			}
		}
	}
	// empty and default messages
	for _, t := range []string{`{}`, `{"key":[]}`, `{"key":null,"primaryKeyId":null}`, `{"key":[{}]}`, `{"key":[{"keyData":{}}]}`} {
		out = append(out, lineT("jt-defaults", "K", t))
	}
	for _, t := range []string{`{}`, `{"keysetInfo":{}}`, `{"keysetInfo":null,"encryptedKeyset":null}`, `{"keysetInfo":{"keyInfo":[{}]}}`, `{"encryptedKeyset":""}`} {
		out = append(out, lineT("jt-defaults", "E", t))
	}
	return out
}

// danglingPrimary rewrites  "primaryKeyId":<digits>  of a JSON text to  "primaryKeyId":<digits>e .
func danglingPrimary(t string) string {
	i := strings.Index(t, `"primaryKeyId":`)
	if i < 0 {
		return ""
	}
	j := i + len(`"primaryKeyId":`)
	for j < len(t) && t[j] == ' ' {
		j++
	}
	k := j
	for k < len(t) && t[k] >= '0' && t[k] <= '9' {
		k++
	}
	if k == j {
		return ""
	}
	return t[:k] + "e" + t[k:]
}
