package c12

import (
	"bytes"
	"fmt"
	"strings"

	"github.com/tink-crypto/tink-go/v2/aead"
	"github.com/tink-crypto/tink-go/v2/aead/aesgcm"
	aeadsubtle "github.com/tink-crypto/tink-go/v2/aead/subtle"
	"github.com/tink-crypto/tink-go/v2/insecurecleartextkeyset"
	"github.com/tink-crypto/tink-go/v2/insecuresecretdataaccess"
	"github.com/tink-crypto/tink-go/v2/internal/protoserialization"
	"github.com/tink-crypto/tink-go/v2/keyset"
	"github.com/tink-crypto/tink-go/v2/secretdata"
	"github.com/tink-crypto/tink-go/v2/tink"
	"github.com/tink-crypto/tink-go/v2/verifharness/hx"

	tinkpb "github.com/tink-crypto/tink-go/v2/proto/tink_go_proto"
)

// H|tag|kek kind|kek|ad|tape|primary|entries|schemas|puburls

func parseEntries(primary uint32, spec string) *tinkpb.Keyset {
	ks := &tinkpb.Keyset{PrimaryKeyId: primary}
	for _, es := range strings.Split(spec, ";") {
		if es == "" {
			continue
		}
		e := strings.Split(es, "~")
		ks.Key = append(ks.Key, &tinkpb.Keyset_Key{
			KeyId:            atoiU32(e[0]),
			Status:           tinkpb.KeyStatusType(atoiU32(e[1])),
			OutputPrefixType: tinkpb.OutputPrefixType(atoiU32(e[2])),
			KeyData: &tinkpb.KeyData{KeyMaterialType: tinkpb.KeyData_KeyMaterialType(atoiU32(e[3])),
				TypeUrl: e[4], Value: hx.UH(e[5])},
		})
	}
	return ks
}

func shapeOf(h *keyset.Handle) string {
	var parts []string
	for i := 0; i < h.Len(); i++ {
		e, err := h.Entry(i)
		if err != nil {
			parts = append(parts, "?")
			continue
		}
		st := map[keyset.KeyStatus]string{keyset.Enabled: "E", keyset.Disabled: "D", keyset.Destroyed: "X"}[e.KeyStatus()]
		if st == "" {
			st = "?"
		}
		p := "0"
		if e.IsPrimary() {
			p = "1"
		}
		req := "R"
		if r, has := e.Key().IDRequirement(); has {
			req = fmt.Sprint(r)
		}
		url, pt := "?", "?"
		if s, err := protoserialization.SerializeKey(e.Key()); err == nil {
			url, pt = msgNameOfURL(s.KeyData().GetTypeUrl()), fmt.Sprint(int32(s.OutputPrefixType()))
		}
		parts = append(parts, fmt.Sprintf("%d.%s.%s.%s.%s.%s", e.KeyID(), st, p, req, url, pt))
	}
	return "h[" + strings.Join(parts, ",") + "]"
}

// sameHandle: same keys, ids, statuses, primary, order.
func sameHandle(a, b *keyset.Handle) string {
	if a.Len() != b.Len() {
		return fmt.Sprintf("length %d vs %d", a.Len(), b.Len())
	}
	for i := 0; i < a.Len(); i++ {
		ea, _ := a.Entry(i)
		eb, _ := b.Entry(i)
		if ea.KeyID() != eb.KeyID() {
			return fmt.Sprintf("entry %d: id %d vs %d", i, ea.KeyID(), eb.KeyID())
		}
		if ea.KeyStatus() != eb.KeyStatus() {
			return fmt.Sprintf("entry %d: status differs", i)
		}
		if ea.IsPrimary() != eb.IsPrimary() {
			return fmt.Sprintf("entry %d: primary flag differs", i)
		}
		if !ea.Key().Equal(eb.Key()) || !eb.Key().Equal(ea.Key()) {
			return fmt.Sprintf("entry %d: keys not Equal", i)
		}
	}
	pa, erra := a.Primary()
	pb, errb := b.Primary()
	if erra != nil || errb != nil || pa.KeyID() != pb.KeyID() {
		return "primary differs"
	}
	return ""
}

func makeKEK(kind string, kb []byte) (tink.AEAD, error) {
	switch kind {
	case "gcm":
		return aeadsubtle.NewAESGCM(kb)
	case "gcmsiv":
		return aeadsubtle.NewAESGCMSIV(kb)
	case "xchacha":
		return aeadsubtle.NewXChaCha20Poly1305(kb)
	case "chacha":
		return aeadsubtle.NewChaCha20Poly1305(kb)
	case "keyset":
		// a Tink keyset AEAD (TINK prefix) over an AES-GCM key with these bytes
		params, err := aesgcm.NewParameters(aesgcm.ParametersOpts{KeySizeInBytes: len(kb), IVSizeInBytes: 12, TagSizeInBytes: 16, Variant: aesgcm.VariantTink})
		if err != nil {
			return nil, err
		}
		k, err := aesgcm.NewKey(secretdata.NewBytesFromData(kb, insecuresecretdataaccess.Token{}), 0x01020304, params)
		if err != nil {
			return nil, err
		}
		km := keyset.NewManager()
		id, err := km.AddKey(k)
		if err != nil {
			return nil, err
		}
		if err := km.SetPrimary(id); err != nil {
			return nil, err
		}
		h, err := km.Handle()
		if err != nil {
			return nil, err
		}
		return aead.New(h)
	}
	return nil, fmt.Errorf("unknown kek kind %s", kind)
}

type rw struct {
	name string
	w    func(*bytes.Buffer) keyset.Writer
	r    func(*bytes.Buffer) keyset.Reader
}

var rws = []rw{
	{"binary", func(b *bytes.Buffer) keyset.Writer { return keyset.NewBinaryWriter(b) }, func(b *bytes.Buffer) keyset.Reader { return keyset.NewBinaryReader(b) }},
	{"json", func(b *bytes.Buffer) keyset.Writer { return keyset.NewJSONWriter(b) }, func(b *bytes.Buffer) keyset.Reader { return keyset.NewJSONReader(b) }},
}

func runHandle(f []string) string {
	ks := parseEntries(atoiU32(f[6]), f[7])
	h0, err := insecurecleartextkeyset.Read(&keyset.MemReaderWriter{Keyset: ks})
	if err != nil {
		return "err|chk=ok"
	}
	if strings.HasPrefix(f[1], "prefix5-") {
		// WITH_ID_REQUIREMENT on a key type whose parser does not know it
		return handleBattery(f, ks, h0, []string{"a key under OutputPrefixType WITH_ID_REQUIREMENT was accepted for " + ks.Key[0].KeyData.TypeUrl})
	}
	return handleBattery(f, ks, h0, nil)
}

// handleBattery writes h0 (the handle of keyset ks, however it was built) and
// reads it back through every writer / reader pair, in cleartext, encrypted
// and public-only form.
func handleBattery(f []string, ks *tinkpb.Keyset, h0 *keyset.Handle, fails []string) string {
	kekKind, kekBytes, ad, tapeBytes := f[2], hx.UH(f[3]), hx.UH(f[4]), hx.UH(f[5])
	fam := ""
	if len(ks.Key) > 0 {
		fam = familyOf(ks.Key[0].KeyData.TypeUrl)
	}
	fail := func(s string) { fails = append(fails, s) }
	var b1, e1, pb1 string = "-", "-", "-"

	// --- encrypted first: under the tape the IV is a function of the line ---
	kek, err := makeKEK(kekKind, kekBytes)
	if err != nil {
		panic(err)
	}
	for _, x := range rws {
		buf := &bytes.Buffer{}
		var werr error
		if x.name == "binary" {
			hx.WithTape(&hx.Tape{Bulk: append([]byte(nil), tapeBytes...)}, func() {
				werr = h0.WriteWithAssociatedData(x.w(buf), kek, ad)
			})
		} else {
			werr = h0.WriteWithAssociatedData(x.w(buf), kek, ad)
		}
		if werr != nil {
			fail("encrypted " + x.name + " write failed: " + werr.Error())
			continue
		}
		if x.name == "binary" && kekKind == "gcm" {
			e1 = hx.H(buf.Bytes())
		}
		data := append([]byte(nil), buf.Bytes()...)
		h, err := keyset.ReadWithAssociatedData(x.r(bytes.NewBuffer(data)), kek, ad)
		if err != nil {
			fail("encrypted " + x.name + " read back failed: " + err.Error())
			continue
		}
		if d := sameHandle(h0, h); d != "" {
			fail("encrypted " + x.name + " round trip: " + d)
		}
		if x.name == "json" {
			if d := interop(fam, h0, h); d != "" {
				fail("encrypted json reread handle does not interoperate: " + d)
			}
		}
		if len(ad) == 0 {
			// Write / Read are the empty-associated-data forms
			if h, err := keyset.Read(x.r(bytes.NewBuffer(data)), kek); err != nil || sameHandle(h0, h) != "" {
				fail("keyset.Read of WriteWithAssociatedData(ad=empty) output differs")
			}
		}
	}
	// --- cleartext ---
	for _, x := range rws {
		buf := &bytes.Buffer{}
		if err := insecurecleartextkeyset.Write(h0, x.w(buf)); err != nil {
			fail("cleartext " + x.name + " write failed: " + err.Error())
			continue
		}
		if x.name == "binary" {
			b1 = hx.H(buf.Bytes())
		}
		h, err := insecurecleartextkeyset.Read(x.r(bytes.NewBuffer(buf.Bytes())))
		if err != nil {
			fail("cleartext " + x.name + " read back failed: " + err.Error())
			continue
		}
		if d := sameHandle(h0, h); d != "" {
			fail("cleartext " + x.name + " round trip: " + d)
		}
		if got := hx.H(detMarshal(insecurecleartextkeyset.KeysetMaterial(h))); x.name == "json" && b1 != "-" && got != b1 {
			fail("keyset reread from JSON serializes to different bytes than the original")
		}
		if x.name == "binary" {
			if d := interop(fam, h0, h); d != "" {
				fail("cleartext binary reread handle does not interoperate: " + d)
			}
		}
	}
	// --- public-only ---
	allPrivate := true
	for _, k := range ks.Key {
		if k.KeyData.KeyMaterialType != tinkpb.KeyData_ASYMMETRIC_PRIVATE || msgTypeOfURL(k.KeyData.TypeUrl) == nil {
			allPrivate = false
		}
	}
	hp, perr := h0.Public()
	if allPrivate && perr != nil {
		fail("Public() failed on an all-private keyset: " + perr.Error())
	}
	if !allPrivate && perr == nil {
		fail("Public() succeeded on a keyset with non-private keys")
	}
	if perr == nil {
		if hp.Len() != h0.Len() {
			fail("Public() changed the number of keys")
		} else {
			for i := 0; i < h0.Len(); i++ {
				e0, _ := h0.Entry(i)
				ep, _ := hp.Entry(i)
				if e0.KeyID() != ep.KeyID() || e0.KeyStatus() != ep.KeyStatus() || e0.IsPrimary() != ep.IsPrimary() {
					fail(fmt.Sprintf("Public() changed id/status/primary of entry %d", i))
				}
				want, err := e0.Key().(privateKey).PublicKey()
				if err != nil || !want.Equal(ep.Key()) {
					fail(fmt.Sprintf("Public() entry %d is not the private key's public key", i))
				}
			}
		}
		for _, x := range rws {
			buf := &bytes.Buffer{}
			if err := hp.WriteWithNoSecrets(x.w(buf)); err != nil {
				fail("public " + x.name + " write failed: " + err.Error())
				continue
			}
			if x.name == "binary" && pubModelled(f[9], ks) {
				pb1 = hx.H(buf.Bytes())
			}
			h, err := keyset.ReadWithNoSecrets(x.r(bytes.NewBuffer(buf.Bytes())))
			if err != nil {
				fail("public " + x.name + " read back failed: " + err.Error())
				continue
			}
			if d := sameHandle(hp, h); d != "" {
				fail("public " + x.name + " round trip: " + d)
			}
			if x.name == "binary" {
				if d := interopPublic(fam, h0, h); d != "" {
					fail("reread public handle does not interoperate with the private handle: " + d)
				}
			}
		}
	}
	c := "ok"
	if len(fails) > 0 {
		c = strings.Join(fails, "; ")
	}
	return "ok|" + shapeOf(h0) + "|" + b1 + "|" + e1 + "|" + pb1 + "|chk=" + c
}

// pubModelled: the model derives a public key from the public_key field of the
// private-key message; the line lists the types that have one (composite
// ML-DSA keys do not: their public key is assembled from two nested KeyData).
func pubModelled(puburls string, ks *tinkpb.Keyset) bool {
	for _, k := range ks.Key {
		if !strings.Contains(";"+puburls, ";"+k.KeyData.TypeUrl+"=") {
			return false
		}
	}
	return true
}
