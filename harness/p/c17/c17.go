// Package c17: keyset derivation is a deterministic standard function of (keyset, salt).
//
// case line:  C17|<entry>;<entry>;...|<salt hex>
//
//	entry = id,status,primary,hash,ikm hex,prf salt hex,type,variant
//	  status  E/D/X; primary 0/1 (exactly one, ENABLED: the keyset is a valid handle)
//	  hash    sha1 sha224 sha256 sha384 sha512 (HKDF-PRF of the deriver key)
//	  type    gcm:<ks> xchacha siv:<ks> hmac:<ks> hkdfprf:<ks> hmacprf:<ks> ed25519 sgcm:<ks>  (derived key)
//	  variant T C L R  (of the derived key parameters; R for the types without prefix)
//
// observation:  new-err | derive-err | <key>;<key>;...
//
//	key = id.status.primary.prefix.req.type.material hex.public hex.params-preserved
//
// The model (coq/model/Derive.v) computes the same string from the case line
// with HKDF transcribed from RFC 5869 over the stdlib's HMAC.
package c17

import (
	"bytes"
	"crypto/hmac"
	"crypto/sha1"
	"crypto/sha256"
	"crypto/sha512"
	"fmt"
	"hash"
	"io"
	"strconv"
	"strings"

	"github.com/tink-crypto/tink-go/v2/aead"
	"github.com/tink-crypto/tink-go/v2/aead/aesgcm"
	"github.com/tink-crypto/tink-go/v2/aead/xchacha20poly1305"
	"github.com/tink-crypto/tink-go/v2/daead"
	"github.com/tink-crypto/tink-go/v2/daead/aessiv"
	"github.com/tink-crypto/tink-go/v2/insecurecleartextkeyset"
	"github.com/tink-crypto/tink-go/v2/insecuresecretdataaccess"
	"github.com/tink-crypto/tink-go/v2/internal/internalapi"
	"github.com/tink-crypto/tink-go/v2/internal/protoserialization"
	"github.com/tink-crypto/tink-go/v2/key"
	"github.com/tink-crypto/tink-go/v2/keyderivation"
	"github.com/tink-crypto/tink-go/v2/keyderivation/prfbasedkeyderivation"
	"github.com/tink-crypto/tink-go/v2/keyset"
	"github.com/tink-crypto/tink-go/v2/mac"
	tinkhmac "github.com/tink-crypto/tink-go/v2/mac/hmac"
	"github.com/tink-crypto/tink-go/v2/prf"
	"github.com/tink-crypto/tink-go/v2/prf/hkdfprf"
	"github.com/tink-crypto/tink-go/v2/prf/hmacprf"
	"github.com/tink-crypto/tink-go/v2/secretdata"
	"github.com/tink-crypto/tink-go/v2/signature"
	"github.com/tink-crypto/tink-go/v2/signature/ed25519"
	"github.com/tink-crypto/tink-go/v2/streamingaead"
	"github.com/tink-crypto/tink-go/v2/streamingaead/aesgcmhkdf"
	"github.com/tink-crypto/tink-go/v2/verifharness/hx"

	tinkpb "github.com/tink-crypto/tink-go/v2/proto/tink_go_proto"
)

type entry struct {
	id            uint32
	status        string
	prim          bool
	hash          string
	ikm, prfSalt  []byte
	typ, variant  string
	derivedParams key.Parameters
}

func atoi(s string) int { v, _ := strconv.Atoi(s); return v }

func pick[T any](v string, t, c, l, r T) T {
	switch v {
	case "T":
		return t
	case "C":
		return c
	case "L":
		return l
	}
	return r
}

func derivedParams(typ, v string) (key.Parameters, error) {
	f := strings.Split(typ, ":")
	a := func(i int) int {
		if i < len(f) {
			return atoi(f[i])
		}
		return 0
	}
	switch f[0] {
	case "gcm":
		return aesgcm.NewParameters(aesgcm.ParametersOpts{KeySizeInBytes: a(1), IVSizeInBytes: 12, TagSizeInBytes: 16,
			Variant: pick(v, aesgcm.VariantTink, aesgcm.VariantCrunchy, aesgcm.VariantCrunchy, aesgcm.VariantNoPrefix)})
	case "xchacha":
		return xchacha20poly1305.NewParameters(pick(v, xchacha20poly1305.VariantTink, xchacha20poly1305.VariantCrunchy, xchacha20poly1305.VariantCrunchy, xchacha20poly1305.VariantNoPrefix))
	case "siv":
		return aessiv.NewParameters(a(1), pick(v, aessiv.VariantTink, aessiv.VariantCrunchy, aessiv.VariantCrunchy, aessiv.VariantNoPrefix))
	case "hmac":
		return tinkhmac.NewParameters(tinkhmac.ParametersOpts{KeySizeInBytes: a(1), TagSizeInBytes: 16, HashType: tinkhmac.SHA256,
			Variant: pick(v, tinkhmac.VariantTink, tinkhmac.VariantCrunchy, tinkhmac.VariantLegacy, tinkhmac.VariantNoPrefix)})
	case "hkdfprf":
		return hkdfprf.NewParameters(a(1), hkdfprf.SHA256, []byte("derived-salt"))
	case "hmacprf":
		return hmacprf.NewParameters(a(1), hmacprf.SHA512)
	case "ed25519":
		p, err := ed25519.NewParameters(pick(v, ed25519.VariantTink, ed25519.VariantCrunchy, ed25519.VariantLegacy, ed25519.VariantNoPrefix))
		return &p, err
	case "sgcm":
		return aesgcmhkdf.NewParameters(aesgcmhkdf.ParametersOpts{KeySizeInBytes: a(1), DerivedKeySizeInBytes: 16, HKDFHashType: aesgcmhkdf.SHA256, SegmentSizeInBytes: 128})
	}
	return nil, fmt.Errorf("unknown derived type %q", typ)
}

func parse(in string) ([]*entry, []byte, error) {
	f := strings.Split(in, "|")
	if len(f) != 3 {
		return nil, nil, fmt.Errorf("bad case")
	}
	var es []*entry
	for _, s := range strings.Split(f[1], ";") {
		g := strings.Split(s, ",")
		if len(g) != 8 {
			return nil, nil, fmt.Errorf("bad entry %q", s)
		}
		id, _ := strconv.ParseUint(g[0], 10, 32)
		es = append(es, &entry{id: uint32(id), status: g[1], prim: g[2] == "1", hash: g[3], ikm: hx.UH(g[4]), prfSalt: hx.UH(g[5]), typ: g[6], variant: g[7]})
	}
	return es, hx.UH(f[2]), nil
}

// deriverHandle builds the deriver keyset of the case as a keyset handle.
func deriverHandle(es []*entry) (*keyset.Handle, error) {
	km := keyset.NewManager()
	for _, e := range es {
		ht := map[string]hkdfprf.HashType{"sha1": hkdfprf.SHA1, "sha224": hkdfprf.SHA224, "sha256": hkdfprf.SHA256, "sha384": hkdfprf.SHA384, "sha512": hkdfprf.SHA512}[e.hash]
		var salt []byte
		if len(e.prfSalt) > 0 {
			salt = e.prfSalt
		}
		pp, err := hkdfprf.NewParameters(len(e.ikm), ht, salt)
		if err != nil {
			return nil, err
		}
		pk, err := hkdfprf.NewKey(secretdata.NewBytesFromData(e.ikm, insecuresecretdataaccess.Token{}), pp)
		if err != nil {
			return nil, err
		}
		dp, err := derivedParams(e.typ, e.variant)
		if err != nil {
			return nil, err
		}
		e.derivedParams = dp
		params, err := prfbasedkeyderivation.NewParameters(pp, dp)
		if err != nil {
			return nil, err
		}
		req := uint32(0)
		if params.HasIDRequirement() {
			req = e.id
		}
		k, err := prfbasedkeyderivation.NewKey(params, pk, req)
		if err != nil {
			return nil, err
		}
		st := map[string]keyset.KeyStatus{"E": keyset.Enabled, "D": keyset.Disabled, "X": keyset.Destroyed}[e.status]
		opts := []keyset.KeyOpts{keyset.WithFixedID(e.id), keyset.WithStatus(st)}
		if e.prim {
			opts = append(opts, keyset.AsPrimary())
		}
		if _, err := km.AddKeyWithOpts(k, internalapi.Token{}, opts...); err != nil {
			return nil, err
		}
	}
	return km.Handle()
}

func typeOf(k key.Key) string {
	switch p := k.Parameters().(type) {
	case *aesgcm.Parameters:
		return "gcm:" + strconv.Itoa(p.KeySizeInBytes())
	case *xchacha20poly1305.Parameters:
		return "xchacha"
	case *aessiv.Parameters:
		return "siv:" + strconv.Itoa(p.KeySizeInBytes())
	case *tinkhmac.Parameters:
		return "hmac:" + strconv.Itoa(p.KeySizeInBytes())
	case *hkdfprf.Parameters:
		return "hkdfprf:" + strconv.Itoa(p.KeySizeInBytes())
	case *hmacprf.Parameters:
		return "hmacprf:" + strconv.Itoa(p.KeySizeInBytes())
	case *ed25519.Parameters:
		return "ed25519"
	case *aesgcmhkdf.Parameters:
		return "sgcm:" + strconv.Itoa(p.KeySizeInBytes())
	}
	return fmt.Sprintf("?%T", k.Parameters())
}

func material(k key.Key) (string, string) {
	tok := insecuresecretdataaccess.Token{}
	switch x := k.(type) {
	case *ed25519.PrivateKey:
		pk, _ := x.PublicKey()
		return hx.H(x.PrivateKeyBytes().Data(tok)), hx.H(pk.(*ed25519.PublicKey).KeyBytes())
	case interface{ KeyBytes() secretdata.Bytes }:
		return hx.H(x.KeyBytes().Data(tok)), "-"
	}
	return fmt.Sprintf("?%T", k), "-"
}

func shape(h *keyset.Handle, want map[uint32]key.Parameters) string {
	var out []string
	for i := 0; i < h.Len(); i++ {
		e, err := h.Entry(i)
		if err != nil {
			out = append(out, "?")
			continue
		}
		st := map[keyset.KeyStatus]string{keyset.Enabled: "E", keyset.Disabled: "D", keyset.Destroyed: "X"}[e.KeyStatus()]
		if st == "" {
			st = "?"
		}
		p := "0"
		if e.IsPrimary() {
			p = "1"
		}
		pt := "?"
		if ser, err := protoserialization.SerializeKey(e.Key()); err == nil {
			pt = map[tinkpb.OutputPrefixType]string{tinkpb.OutputPrefixType_TINK: "T", tinkpb.OutputPrefixType_CRUNCHY: "C",
				tinkpb.OutputPrefixType_LEGACY: "L", tinkpb.OutputPrefixType_RAW: "R"}[ser.OutputPrefixType()]
		}
		req := "-"
		if r, has := e.Key().IDRequirement(); has {
			req = strconv.FormatUint(uint64(r), 10)
		}
		m, pub := material(e.Key())
		same := "0"
		if w, ok := want[e.KeyID()]; ok && w.Equal(e.Key().Parameters()) {
			same = "1"
		}
		out = append(out, fmt.Sprintf("%d.%s.%s.%s.%s.%s.%s.%s.%s", e.KeyID(), st, p, pt, req, typeOf(e.Key()), m, pub, same))
	}
	return strings.Join(out, ";")
}

// deriveObs runs keyderivation.New + DeriveKeyset on the case and returns
// the observation and the derived handle.
func deriveObs(es []*entry, salt []byte) (string, *keyset.Handle) {
	h, err := deriverHandle(es)
	if err != nil {
		return "BADCASE " + err.Error(), nil
	}
	var obs string
	var dh *keyset.Handle
	// derivation must not depend on crypto/rand: run it under a tape and look at the log
	t := &hx.Tape{}
	hx.WithTape(t, func() {
		kd, err := keyderivation.New(h)
		if err != nil {
			obs = "new-err"
			return
		}
		dh, err = kd.DeriveKeyset(salt)
		if err != nil {
			obs = "derive-err"
			dh = nil
			return
		}
	})
	if obs != "" {
		return obs, nil
	}
	if len(t.Log) != 0 {
		return fmt.Sprintf("DREW-RANDOMNESS %d reads", len(t.Log)), dh
	}
	want := map[uint32]key.Parameters{}
	for _, e := range es {
		want[e.id] = e.derivedParams
	}
	return shape(dh, want), dh
}

// runHistory: several DeriveKeyset calls on ONE deriver, the salts passed
// through ONE reused buffer that is overwritten in place between the calls
// (case line C17H|entries|salt;salt;...).  Each result must be the function of
// (keyset, salt) that a single call computes.
func runHistory(in string) string {
	f := strings.Split(in, "|")
	es, _, err := parse("C17|" + f[1] + "|-")
	if err != nil {
		return "BADCASE " + err.Error()
	}
	h, err := deriverHandle(es)
	if err != nil {
		return "BADCASE " + err.Error()
	}
	want := map[uint32]key.Parameters{}
	for _, e := range es {
		want[e.id] = e.derivedParams
	}
	var out []string
	t := &hx.Tape{}
	hx.WithTape(t, func() {
		kd, err := keyderivation.New(h)
		if err != nil {
			out = append(out, "new-err")
			return
		}
		buf := make([]byte, 1024)
		for _, sh := range strings.Split(f[2], ";") {
			salt := hx.UH(sh)
			n := copy(buf, salt)
			dh, err := kd.DeriveKeyset(buf[:n])
			if err != nil {
				out = append(out, "derive-err")
				continue
			}
			out = append(out, shape(dh, want))
		}
	})
	if len(t.Log) != 0 {
		return fmt.Sprintf("DREW-RANDOMNESS %d reads", len(t.Log))
	}
	return strings.Join(out, " ## ")
}

func run(in string) string {
	if strings.HasPrefix(in, "C17H|") {
		return runHistory(in)
	}
	if strings.HasPrefix(in, "C17Z|") {
		in = "C17|" + in[5:]
	}
	es, salt, err := parse(in)
	if err != nil {
		return "BADCASE " + err.Error()
	}
	obs, _ := deriveObs(es, salt)
	return obs
}

// ------------------------------------------------------ direct property oracle

func hashOf(name string) func() hash.Hash {
	switch name {
	case "sha1":
		return sha1.New
	case "sha224":
		return sha256.New224
	case "sha256":
		return sha256.New
	case "sha384":
		return sha512.New384
	}
	return sha512.New
}

// hkdfRef: RFC 5869 written directly over crypto/hmac (independent of x/crypto/hkdf).
func hkdfRef(hn string, ikm, salt, info []byte, n int) []byte {
	h := hashOf(hn)
	if len(salt) == 0 {
		salt = make([]byte, h().Size())
	}
	ex := hmac.New(h, salt)
	ex.Write(ikm)
	prk := ex.Sum(nil)
	var okm, t []byte
	for c := byte(1); len(okm) < n; c++ {
		m := hmac.New(h, prk)
		m.Write(t)
		m.Write(info)
		m.Write([]byte{c})
		t = m.Sum(nil)
		okm = append(okm, t...)
	}
	return okm[:n]
}

func consumption(typ string) int {
	f := strings.Split(typ, ":")
	switch f[0] {
	case "xchacha", "ed25519":
		return 32
	}
	return atoi(f[1])
}

func hasPrefix(typ string) bool {
	switch strings.Split(typ, ":")[0] {
	case "hkdfprf", "hmacprf", "sgcm":
		return false
	}
	return true
}

// usable: the derived key works as an ordinary key of its type.
func usable(k key.Key) string {
	km := keyset.NewManager()
	id, err := km.AddKey(k)
	if err != nil {
		return "AddKey: " + err.Error()
	}
	if err := km.SetPrimary(id); err != nil {
		return err.Error()
	}
	h, err := km.Handle()
	if err != nil {
		return err.Error()
	}
	// a derived keyset can be written and read back like any other
	buf := &bytes.Buffer{}
	if err := insecurecleartextkeyset.Write(h, keyset.NewBinaryWriter(buf)); err != nil {
		return "serialise: " + err.Error()
	}
	h2, err := insecurecleartextkeyset.Read(keyset.NewBinaryReader(buf))
	if err != nil {
		return "parse: " + err.Error()
	}
	e2, err := h2.Primary()
	if err != nil || !e2.Key().Equal(k) {
		return "derived key does not survive serialisation"
	}
	msg, ad := []byte("derived keys are ordinary keys"), []byte("ad")
	switch k.(type) {
	case *aesgcm.Key, *xchacha20poly1305.Key:
		a, err := aead.New(h)
		if err != nil {
			return err.Error()
		}
		ct, err := a.Encrypt(msg, ad)
		if err != nil {
			return err.Error()
		}
		pt, err := a.Decrypt(ct, ad)
		if err != nil || !bytes.Equal(pt, msg) {
			return "AEAD round trip failed"
		}
	case *aessiv.Key:
		d, err := daead.New(h)
		if err != nil {
			return err.Error()
		}
		ct, err := d.EncryptDeterministically(msg, ad)
		if err != nil {
			return err.Error()
		}
		pt, err := d.DecryptDeterministically(ct, ad)
		if err != nil || !bytes.Equal(pt, msg) {
			return "DAEAD round trip failed"
		}
	case *tinkhmac.Key:
		m, err := mac.New(h)
		if err != nil {
			return err.Error()
		}
		tag, err := m.ComputeMAC(msg)
		if err != nil {
			return err.Error()
		}
		if err := m.VerifyMAC(tag, msg); err != nil {
			return "MAC round trip failed"
		}
	case *hkdfprf.Key, *hmacprf.Key:
		ps, err := prf.NewPRFSet(h)
		if err != nil {
			return err.Error()
		}
		o1, err := ps.ComputePrimaryPRF(msg, 16)
		if err != nil {
			return err.Error()
		}
		o2, _ := ps.ComputePrimaryPRF(msg, 16)
		if !bytes.Equal(o1, o2) || len(o1) != 16 {
			return "PRF not a function"
		}
	case *ed25519.PrivateKey:
		s, err := signature.NewSigner(h)
		if err != nil {
			return err.Error()
		}
		pub, err := h.Public()
		if err != nil {
			return err.Error()
		}
		v, err := signature.NewVerifier(pub)
		if err != nil {
			return err.Error()
		}
		sig, err := s.Sign(msg)
		if err != nil {
			return err.Error()
		}
		if err := v.Verify(sig, msg); err != nil {
			return "signature round trip failed"
		}
	case *aesgcmhkdf.Key:
		sa, err := streamingaead.New(h)
		if err != nil {
			return err.Error()
		}
		var ct bytes.Buffer
		w, err := sa.NewEncryptingWriter(&ct, ad)
		if err != nil {
			return err.Error()
		}
		long := bytes.Repeat(msg, 12)
		w.Write(long)
		if err := w.Close(); err != nil {
			return err.Error()
		}
		r, err := sa.NewDecryptingReader(bytes.NewReader(ct.Bytes()), ad)
		if err != nil {
			return err.Error()
		}
		pt, err := io.ReadAll(r)
		if err != nil || !bytes.Equal(pt, long) {
			return "streaming round trip failed"
		}
	default:
		return fmt.Sprintf("unexpected derived key type %T", k)
	}
	return ""
}

// zMarker: the literal clause "different PRF keys give different keys" fails on these inputs
// (recorded in known_findings.json): PRF keys that differ only by zero-padding of the HKDF
// salt (absent = HashLen zero bytes; s = s||00 below the block size) derive the same keyset.
const zMarker = "prf salt zero-padding identity: different PRF keys (salt absent vs HashLen zeros, s vs s||00) derive the same keyset"

func check(in, obs string) string {
	if strings.HasPrefix(in, "C17Z|") {
		// dedicated witness case: the ordinary checks first, then the known finding
		if r := checkOrdinary("C17|"+in[5:], obs); r != "" {
			return r
		}
		// checkOrdinary has just confirmed on the real code that zero-padding every paddable
		// PRF salt leaves the derived material unchanged; report it when there was one
		if es, _, err := parse("C17|" + in[5:]); err == nil && !strings.HasPrefix(obs, "new-err") && !strings.HasPrefix(obs, "derive-err") {
			for _, e := range es {
				if len(e.prfSalt) < hashOf(e.hash)().BlockSize() {
					return zMarker
				}
			}
		}
		return ""
	}
	return checkOrdinary(in, obs)
}

func checkOrdinary(in, obs string) string {
	if strings.HasPrefix(in, "C17H|") {
		// each element of a history must equal what a fresh deriver computes for that salt
		f := strings.Split(in, "|")
		parts := strings.Split(obs, " ## ")
		salts := strings.Split(f[2], ";")
		if strings.HasPrefix(obs, "PANIC") || strings.HasPrefix(obs, "BADCASE") || strings.HasPrefix(obs, "DREW-RANDOMNESS") {
			return obs
		}
		if len(parts) == 1 && parts[0] == "new-err" {
			return ""
		}
		if len(parts) != len(salts) {
			return "history length mismatch"
		}
		for i, sh := range salts {
			single := run("C17|" + f[1] + "|" + sh)
			if single != parts[i] {
				return fmt.Sprintf("call %d of a history on one deriver (salt passed in a reused buffer) differs from a single derivation with that salt", i)
			}
		}
		return ""
	}
	if strings.HasPrefix(obs, "PANIC") || strings.HasPrefix(obs, "BADCASE") || strings.HasPrefix(obs, "DREW-RANDOMNESS") {
		return obs
	}
	es, salt, err := parse(in)
	if err != nil {
		return err.Error()
	}
	var en []*entry
	supported := true
	for _, e := range es {
		if e.status == "E" {
			en = append(en, e)
			if (e.hash != "sha256" && e.hash != "sha512") || len(e.ikm) < 32 {
				supported = false
			}
		}
	}
	if obs == "new-err" {
		if supported {
			return "keyderivation.New failed on a keyset of supported deriver keys"
		}
		return ""
	}
	if !supported {
		return "keyderivation.New accepted an unsupported PRF (hash outside SHA-256/512 or key < 32 bytes)"
	}
	if obs == "derive-err" {
		return "DeriveKeyset failed on a valid deriver keyset"
	}
	ks := strings.Split(obs, ";")
	if len(ks) != len(en) {
		return fmt.Sprintf("derived keyset has %d keys for %d enabled deriver keys", len(ks), len(en))
	}
	for i, s := range ks {
		g := strings.Split(s, ".")
		if len(g) != 9 {
			return "malformed derived key " + s
		}
		e := en[i]
		p := "0"
		if e.prim {
			p = "1"
		}
		if g[0] != strconv.FormatUint(uint64(e.id), 10) {
			return fmt.Sprintf("derived key %d has id %s, deriver key has %d", i, g[0], e.id)
		}
		if g[1] != "E" {
			return fmt.Sprintf("derived key %s is not ENABLED", g[0])
		}
		if g[2] != p {
			return fmt.Sprintf("derived key %s: primary flag %s, deriver key %s", g[0], g[2], p)
		}
		wantPT, wantReq := "R", "-"
		if hasPrefix(e.typ) && e.variant != "R" {
			wantPT, wantReq = e.variant, g[0]
		}
		if g[3] != wantPT || g[4] != wantReq {
			return fmt.Sprintf("derived key %s: prefix type %s / id requirement %s, want %s / %s", g[0], g[3], g[4], wantPT, wantReq)
		}
		if g[5] != e.typ || g[8] != "1" {
			return fmt.Sprintf("derived key %s: type/parameters %s differ from the deriver key's derived-key parameters %s", g[0], g[5], e.typ)
		}
		want := hx.H(hkdfRef(e.hash, e.ikm, e.prfSalt, salt, consumption(e.typ)))
		if g[6] != want {
			return fmt.Sprintf("derived key %s: material %s is not the leading %d bytes of HKDF-%s(key, prf salt, info=salt) = %s", g[0], g[6], consumption(e.typ), e.hash, want)
		}
	}
	// determinism, salt and key separation, usability: derive again
	obs2, dh := deriveObs(es, salt)
	if obs2 != obs {
		return "a second DeriveKeyset with the same salt gave a different keyset"
	}
	if dh != nil {
		for i := 0; i < dh.Len(); i++ {
			e, err := dh.Entry(i)
			if err != nil {
				return err.Error()
			}
			if v := usable(e.Key()); v != "" {
				return fmt.Sprintf("derived key %d (%s) is not usable: %s", e.KeyID(), typeOf(e.Key()), v)
			}
		}
	}
	salt2 := append(append([]byte(nil), salt...), 0)
	obs3, _ := deriveObs(es, salt2)
	if strings.Contains(obs3, "err") {
		return "DeriveKeyset failed for a second salt"
	}
	ks3 := strings.Split(obs3, ";")
	for i := range ks {
		if i < len(ks3) && strings.Split(ks[i], ".")[6] == strings.Split(ks3[i], ".")[6] {
			return "different salts gave the same derived key material"
		}
	}
	// a different PRF key gives a different derived key
	es4, _, _ := parse(in)
	for _, e := range es4 {
		e.ikm[0] ^= 1
	}
	obs4, _ := deriveObs(es4, salt)
	ks4 := strings.Split(obs4, ";")
	for i := range ks {
		if i < len(ks4) && len(strings.Split(ks4[i], ".")) == 9 && strings.Split(ks[i], ".")[6] == strings.Split(ks4[i], ".")[6] {
			return "different PRF keys gave the same derived key material"
		}
	}
	// The literal clause "different PRF keys give different keys" stops at the identities of HKDF /
	// HMAC that C17_prf_key_separation_refuted_nil_salt / _zero_padded_salt state about the model:
	// an absent PRF salt and HashLen zero bytes, and a PRF salt and the same salt followed by a zero
	// byte (below the block size), are the same Extract key.  Confirm the witnesses on the real code.
	es5, _, _ := parse(in)
	changed := false
	for _, e := range es5 {
		h := hashOf(e.hash)()
		if len(e.prfSalt) == 0 {
			e.prfSalt = make([]byte, h.Size())
			changed = true
		} else if len(e.prfSalt) < h.BlockSize() {
			e.prfSalt = append(append([]byte(nil), e.prfSalt...), 0)
			changed = true
		}
	}
	if changed {
		obs5, _ := deriveObs(es5, salt)
		ks5 := strings.Split(obs5, ";")
		if len(ks5) != len(ks) {
			return "zero-padding the PRF salts changed the shape of the derived keyset"
		}
		for i := range ks {
			a, b := strings.Split(ks[i], "."), strings.Split(ks5[i], ".")
			if len(b) != 9 || a[6] != b[6] {
				return "a PRF salt and its zero-padded form (absent = HashLen zeros; s = s||00) derived different key material: the model's HKDF identity does not hold of the code"
			}
		}
	}
	return ""
}

func class(in, obs string) string {
	if strings.HasPrefix(in, "C17H|") {
		f := strings.Split(in, "|")
		return fmt.Sprintf("history:%d:%d", strings.Count(f[1], ";")+1, strings.Count(f[2], ";")+1)
	}
	if strings.HasPrefix(obs, "PANIC") || strings.HasPrefix(obs, "BADCASE") {
		return ""
	}
	es, salt, err := parse(in)
	if err != nil {
		return ""
	}
	types := map[string]bool{}
	st := ""
	for _, e := range es {
		types[strings.Split(e.typ, ":")[0]+e.variant+e.hash[3:]] = true
		st += e.status
	}
	var ts []string
	for t := range types {
		ts = append(ts, t)
	}
	if len(ts) > 2 {
		ts = ts[:0]
		ts = append(ts, "mixed")
	} else if len(ts) == 2 && ts[0] > ts[1] {
		ts[0], ts[1] = ts[1], ts[0]
	}
	o := "ok"
	if strings.HasSuffix(obs, "err") {
		o = obs
	}
	sl := "s0"
	if len(salt) > 0 {
		sl = "s+"
	}
	return fmt.Sprintf("%s:%s:%s:%s", strings.Join(ts, "+"), st, o, sl)
}

func init() {
	hx.Register("C17", &hx.Prop{Gen: gen, Run: run, Check: check, Class: class})
}
