package c17

import (
	"fmt"
	"strings"

	"github.com/tink-crypto/tink-go/v2/verifharness/hx"
)

type tv struct {
	typ      string
	variants []string
}

var derivable = []tv{
	{"gcm:16", []string{"T", "C", "R"}}, {"gcm:32", []string{"T", "C", "R"}},
	{"xchacha", []string{"T", "C", "R"}},
	{"siv:64", []string{"T", "C", "R"}},
	{"hmac:16", []string{"T", "C", "L", "R"}}, {"hmac:32", []string{"T", "C", "L", "R"}}, {"hmac:64", []string{"T", "R"}}, {"hmac:100", []string{"T", "L"}}, {"hmac:21", []string{"C", "R"}},
	{"hkdfprf:32", []string{"R"}}, {"hkdfprf:65", []string{"R"}},
	{"hmacprf:16", []string{"R"}}, {"hmacprf:32", []string{"R"}}, {"hmacprf:64", []string{"R"}},
	{"ed25519", []string{"T", "C", "L", "R"}},
	{"sgcm:16", []string{"R"}}, {"sgcm:32", []string{"R"}},
}

func gen(r *hx.Rng, n int, tier string) []string {
	var lines []string
	for c := 0; c < n; c++ {
		k := 1 + r.Intn(5)
		if r.Chance(10) {
			k = 6 + r.Intn(5)
		}
		same := r.Chance(65)
		base := hx.PickS(r, derivable)
		ids := map[uint32]bool{}
		prim := r.Intn(k)
		var es []string
		for i := 0; i < k; i++ {
			var id uint32
			for {
				if r.Chance(30) {
					id = hx.PickS(r, []uint32{0, 1, 2, 255, 256, 65536, 16777216, 2147483648, 4294967295, 305419896})
				} else {
					id = uint32(r.U64())
				}
				if !ids[id] {
					break
				}
			}
			ids[id] = true
			st := hx.PickS(r, []string{"E", "E", "E", "D", "X"})
			p := "0"
			if i == prim {
				st, p = "E", "1"
			}
			hash := hx.PickS(r, []string{"sha256", "sha256", "sha512"})
			if r.Chance(2) {
				hash = hx.PickS(r, []string{"sha1", "sha224", "sha384"})
			}
			ikmLen := hx.PickS(r, []int{32, 32, 32, 33, 48, 64, 100, 129})
			if r.Chance(2) {
				ikmLen = 16 + r.Intn(16)
			}
			ikm := r.Bytes(ikmLen)
			var ps []byte
			switch x := r.Intn(100); {
			case x < 35:
			case x < 70:
				ps = r.Bytes(1 + r.Intn(40))
			case x < 80:
				ps = make([]byte, map[string]int{"sha1": 20, "sha224": 28, "sha256": 32, "sha384": 48, "sha512": 64}[hash]) // explicit zeros = absent salt
			case x < 90:
				ps = r.Bytes(64 + r.Intn(3)) // around the SHA-256 block size
			default:
				ps = r.Bytes(128 + r.Intn(40)) // longer than any block: HMAC hashes the key first
			}
			t := base
			if !same {
				t = hx.PickS(r, derivable)
			}
			v := hx.PickS(r, t.variants)
			es = append(es, fmt.Sprintf("%d,%s,%s,%s,%s,%s,%s,%s", id, st, p, hash, hx.H(ikm), hx.H(ps), t.typ, v))
		}
		var salt []byte
		switch x := r.Intn(100); {
		case x < 12:
		case x < 70:
			salt = r.Bytes(1 + r.Intn(32))
		case x < 85:
			salt = r.Bytes(33 + r.Intn(100))
		case x < 93:
			salt = make([]byte, 1+r.Intn(20))
		default:
			salt = r.Bytes(200 + r.Intn(300))
		}
		lines = append(lines, "C17|"+strings.Join(es, ";")+"|"+hx.H(salt))
		if c%6 == 0 {
			// a history on one deriver: same-length salts (in-place overwrite), a repeat, other lengths
			n := 1 + r.Intn(24)
			var ss []string
			first := r.Bytes(n)
			ss = append(ss, hx.H(first))
			for j := 0; j < 2+r.Intn(4); j++ {
				switch r.Intn(4) {
				case 0:
					ss = append(ss, hx.H(first))
				case 1:
					ss = append(ss, hx.H(r.Bytes(r.Intn(40))))
				default:
					ss = append(ss, hx.H(r.Bytes(n)))
				}
			}
			lines = append(lines, "C17H|"+strings.Join(es, ";")+"|"+strings.Join(ss, ";"))
		}
	}
	// three dedicated witness cases of the recorded finding (PRF salts equal up to zero padding
	// derive the same keyset): ordinary cases under the tag C17Z, reported as KNOWN-FINDING
	z := 0
	for _, l := range lines {
		if z < 3 && strings.HasPrefix(l, "C17|") {
			lines = append(lines, "C17Z|"+l[4:])
			z++
		}
	}
	return lines
}
