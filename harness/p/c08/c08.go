// Package c08: deterministic AEAD (AES-SIV) and AES-KWP against the real code.
package c08

import (
	"bytes"
	"crypto/aes"
	"encoding/binary"
	"fmt"
	"strconv"
	"strings"

	"github.com/tink-crypto/tink-go/v2/daead"
	"github.com/tink-crypto/tink-go/v2/daead/aessiv"
	dsubtle "github.com/tink-crypto/tink-go/v2/daead/subtle"
	"github.com/tink-crypto/tink-go/v2/insecurecleartextkeyset"
	"github.com/tink-crypto/tink-go/v2/insecuresecretdataaccess"
	"github.com/tink-crypto/tink-go/v2/internal/internalapi"
	"github.com/tink-crypto/tink-go/v2/keyset"
	ksubtle "github.com/tink-crypto/tink-go/v2/kwp/subtle"
	"github.com/tink-crypto/tink-go/v2/secretdata"
	"github.com/tink-crypto/tink-go/v2/tink"
	"github.com/tink-crypto/tink-go/v2/verifharness/hx"
	"google.golang.org/protobuf/proto"

	sivpb "github.com/tink-crypto/tink-go/v2/proto/aes_siv_go_proto"
	tinkpb "github.com/tink-crypto/tink-go/v2/proto/tink_go_proto"
)

// Case lines
//
//	C08|siv|<api>|<variant>|<id>|<key>|<pt>|<ad>|<mut>
//	  api     sub   daead/subtle.NewAESSIV (no prefix whatever the variant says)
//	          key   aessiv.NewParameters + NewKey + NewDeterministicAEAD
//	          fac   keyset.Manager.AddKey + daead.New(handle)
//	          ks    cleartext proto keyset read + daead.New(handle)
//	          tmpl  keyset.NewHandle(AESSIVKeyTemplate with the variant) with the
//	                key id and key bytes served from the randomness tape + daead.New
//	  variant T (TINK) C (CRUNCHY) R (RAW / no prefix); id decimal uint32
//	  mut     applied to ct = Encrypt(pt, ad):
//	          flip:<pos>:<mask>  ct[pos] ^= mask          cut:<n>  ct[:n]
//	          ext:<hex>          ct || hex                ad:<hex> other associated data
//	          raw:<hex>          decrypt hex itself       swap:<pt2>:<ad2> decrypt Encrypt(pt2,ad2) under ad
//	observation  E:<hex>|D:<ok:hex / err>|M:<ok:hex / err>   or  newerr  (constructor refused)
//	             "|NONDET" appended when a second, fresh primitive encrypts differently
//
//	C08|sivks|<v,id,key;...>|<primary index>|<pt>|<ad>|<j>|<mut>
//	  a keyset of several AES-SIV keys (cleartext proto keyset read + daead.New(handle)); key j ALONE
//	  (aessiv.NewDeterministicAEAD) produces ctj = Encrypt(pt, ad); mut (flip cut ext) is applied to ctj
//	observation  E:<keyset Encrypt(pt,ad)>|D:<keyset Decrypt of it>|X:<keyset Decrypt(ctj)>|M:<keyset Decrypt(mut ctj)>
//
//	C08|kwp|<kek>|<data>|<mut>       mut: flip cut ext raw as above, applied to Wrap(data)
//	observation  W:<hex / err>|U:<ok:hex / err / skip>|M:<ok:hex / err / skip>  or newerr
//
//	C08|katsiv|<key k1||k2>|<ad1,ad2,...>|<pt>|<expected>   RFC 5297 vector; the
//	C08|katkwp|<kek>|<data>|<expected>                      observation is <expected> itself
//	   (no tink code runs: these lines pin the RFC transcriptions of the model to the RFC text)

func okOrErr(b []byte, err error) string {
	if err != nil {
		return "err"
	}
	return "ok:" + hx.H(b)
}

func sivVariant(v string) aessiv.Variant {
	switch v {
	case "T":
		return aessiv.VariantTink
	case "C":
		return aessiv.VariantCrunchy
	}
	return aessiv.VariantNoPrefix
}

func sivPrefixType(v string) tinkpb.OutputPrefixType {
	switch v {
	case "T":
		return tinkpb.OutputPrefixType_TINK
	case "C":
		return tinkpb.OutputPrefixType_CRUNCHY
	}
	return tinkpb.OutputPrefixType_RAW
}

func sivKey(v string, id uint32, key []byte) (*aessiv.Key, error) {
	params, err := aessiv.NewParameters(len(key), sivVariant(v))
	if err != nil {
		return nil, err
	}
	if v == "R" {
		id = 0
	}
	return aessiv.NewKey(secretdata.NewBytesFromData(key, insecuresecretdataaccess.Token{}), id, params)
}

// sivPrimitive builds the primitive through the API named in the case.
func sivPrimitive(api, v string, id uint32, key []byte) (tink.DeterministicAEAD, error) {
	switch api {
	case "sub":
		// the caller's key buffer is overwritten after construction
		kb := bytes.Clone(key)
		defer hx.Scribble(kb)
		return dsubtle.NewAESSIV(kb)
	case "key":
		k, err := sivKey(v, id, key)
		if err != nil {
			return nil, err
		}
		return aessiv.NewDeterministicAEAD(k, internalapi.Token{})
	case "fac":
		k, err := sivKey(v, id, key)
		if err != nil {
			return nil, err
		}
		var d tink.DeterministicAEAD
		tape := &hx.Tape{IDs: []uint32{id, id ^ 0x5a5a5a5a, id + 1}}
		hx.WithTape(tape, func() {
			km := keyset.NewManager()
			var kid uint32
			if kid, err = km.AddKey(k); err != nil {
				return
			}
			if err = km.SetPrimary(kid); err != nil {
				return
			}
			var h *keyset.Handle
			if h, err = km.Handle(); err != nil {
				return
			}
			d, err = daead.New(h)
		})
		return d, err
	case "ks":
		kv, _ := proto.Marshal(&sivpb.AesSivKey{Version: 0, KeyValue: key})
		ks := &tinkpb.Keyset{PrimaryKeyId: id, Key: []*tinkpb.Keyset_Key{{KeyId: id, Status: tinkpb.KeyStatusType_ENABLED,
			OutputPrefixType: sivPrefixType(v),
			KeyData:          &tinkpb.KeyData{TypeUrl: "type.googleapis.com/google.crypto.tink.AesSivKey", Value: kv, KeyMaterialType: tinkpb.KeyData_SYMMETRIC}}}}
		h, err := insecurecleartextkeyset.Read(&keyset.MemReaderWriter{Keyset: ks})
		if err != nil {
			return nil, err
		}
		return daead.New(h)
	case "tmpl":
		var d tink.DeterministicAEAD
		var err error
		tape := &hx.Tape{IDs: []uint32{id}, Bulk: bytes.Clone(key)}
		hx.WithTape(tape, func() {
			t := daead.AESSIVKeyTemplate()
			t.OutputPrefixType = sivPrefixType(v)
			var h *keyset.Handle
			if h, err = keyset.NewHandle(t); err != nil {
				return
			}
			d, err = daead.New(h)
		})
		return d, err
	}
	return nil, fmt.Errorf("unknown api")
}

type mutation struct {
	kind string
	a, b []byte
	n, m int
}

func parseMut(s string) mutation {
	f := strings.Split(s, ":")
	mu := mutation{kind: f[0]}
	switch f[0] {
	case "flip":
		mu.n, _ = strconv.Atoi(f[1])
		mu.m, _ = strconv.Atoi(f[2])
	case "cut":
		mu.n, _ = strconv.Atoi(f[1])
	case "ext", "ad", "raw":
		mu.a = hx.UH(f[1])
	case "swap":
		mu.a, mu.b = hx.UH(f[1]), hx.UH(f[2])
	}
	return mu
}

// apply returns the mutated byte string (flip, cut, ext, raw).
func (mu mutation) apply(ct []byte) []byte {
	c := bytes.Clone(ct)
	switch mu.kind {
	case "flip":
		if mu.n < len(c) {
			c[mu.n] ^= byte(mu.m)
		}
	case "cut":
		if mu.n < len(c) {
			c = c[:mu.n]
		}
	case "ext":
		c = append(c, mu.a...)
	case "raw":
		c = bytes.Clone(mu.a)
	}
	return c
}

func runSIV(f []string) string {
	api, v := f[2], f[3]
	id64, _ := strconv.ParseUint(f[4], 10, 32)
	id := uint32(id64)
	key, pt, ad := hx.UH(f[5]), hx.UH(f[6]), hx.UH(f[7])
	mu := parseMut(f[8])
	d, err := sivPrimitive(api, v, id, key)
	if err != nil {
		return "newerr"
	}
	ptIn, adIn := bytes.Clone(pt), bytes.Clone(ad)
	ct, err := d.EncryptDeterministically(ptIn, adIn)
	if err != nil {
		return "E:err"
	}
	out := "E:" + hx.H(ct)
	out += "|D:" + okOrErr(d.DecryptDeterministically(bytes.Clone(ct), bytes.Clone(ad)))
	switch mu.kind {
	case "ad":
		out += "|M:" + okOrErr(d.DecryptDeterministically(bytes.Clone(ct), mu.a))
	case "swap":
		ct2, err := d.EncryptDeterministically(mu.a, mu.b)
		if err != nil {
			out += "|M:encerr"
		} else {
			out += "|M:" + okOrErr(d.DecryptDeterministically(ct2, bytes.Clone(ad)))
		}
	default:
		out += "|M:" + okOrErr(d.DecryptDeterministically(mu.apply(ct), bytes.Clone(ad)))
	}
	// determinism: a second, freshly built primitive and a repeated call
	d2, err := sivPrimitive(api, v, id, key)
	if err != nil {
		return out + "|NONDET"
	}
	ctA, errA := d2.EncryptDeterministically(bytes.Clone(pt), bytes.Clone(ad))
	ctB, errB := d.EncryptDeterministically(bytes.Clone(pt), bytes.Clone(ad))
	if errA != nil || errB != nil || !bytes.Equal(ctA, ct) || !bytes.Equal(ctB, ct) {
		out += "|NONDET"
	}
	if !bytes.Equal(ptIn, pt) || !bytes.Equal(adIn, ad) {
		out += "|INPUT-MODIFIED"
	}
	return out
}

func runKWP(f []string) string {
	kek, data := hx.UH(f[2]), hx.UH(f[3])
	mu := parseMut(f[4])
	kekBuf := bytes.Clone(kek)
	k, err := ksubtle.NewKWP(kekBuf)
	hx.Scribble(kekBuf)
	if err != nil {
		return "newerr"
	}
	in := bytes.Clone(data)
	w, err := k.Wrap(in)
	out := ""
	if err != nil {
		out = "W:err|U:skip"
		if mu.kind == "raw" {
			return out + "|M:" + okOrErr(k.Unwrap(bytes.Clone(mu.a)))
		}
		return out + "|M:skip"
	}
	out = "W:" + hx.H(w) + "|U:" + okOrErr(k.Unwrap(bytes.Clone(w)))
	out += "|M:" + okOrErr(k.Unwrap(mu.apply(w)))
	w2, err := k.Wrap(bytes.Clone(data))
	if err != nil || !bytes.Equal(w, w2) {
		out += "|NONDET"
	}
	if !bytes.Equal(in, data) {
		out += "|INPUT-MODIFIED"
	}
	return out
}

type ksEntry struct {
	v   string
	id  uint32
	key []byte
}

func parseKS(s string) []ksEntry {
	var es []ksEntry
	for _, e := range strings.Split(s, ";") {
		p := strings.Split(e, ",")
		id, _ := strconv.ParseUint(p[1], 10, 32)
		es = append(es, ksEntry{p[0], uint32(id), hx.UH(p[2])})
	}
	return es
}

func runSIVKS(f []string) string {
	es := parseKS(f[2])
	pi, _ := strconv.Atoi(f[3])
	pt, ad := hx.UH(f[4]), hx.UH(f[5])
	j, _ := strconv.Atoi(f[6])
	mu := parseMut(f[7])
	ks := &tinkpb.Keyset{PrimaryKeyId: es[pi].id}
	for _, e := range es {
		kv, _ := proto.Marshal(&sivpb.AesSivKey{Version: 0, KeyValue: e.key})
		ks.Key = append(ks.Key, &tinkpb.Keyset_Key{KeyId: e.id, Status: tinkpb.KeyStatusType_ENABLED, OutputPrefixType: sivPrefixType(e.v),
			KeyData: &tinkpb.KeyData{TypeUrl: "type.googleapis.com/google.crypto.tink.AesSivKey", Value: kv, KeyMaterialType: tinkpb.KeyData_SYMMETRIC}})
	}
	h, err := insecurecleartextkeyset.Read(&keyset.MemReaderWriter{Keyset: ks})
	if err != nil {
		return "newerr"
	}
	d, err := daead.New(h)
	if err != nil {
		return "newerr"
	}
	kj, err := sivKey(es[j].v, es[j].id, es[j].key)
	if err != nil {
		return "newerr"
	}
	dj, err := aessiv.NewDeterministicAEAD(kj, internalapi.Token{})
	if err != nil {
		return "newerr"
	}
	ct, err := d.EncryptDeterministically(bytes.Clone(pt), bytes.Clone(ad))
	if err != nil {
		return "E:err"
	}
	ctj, err := dj.EncryptDeterministically(bytes.Clone(pt), bytes.Clone(ad))
	if err != nil {
		return "E:err"
	}
	out := "E:" + hx.H(ct)
	out += "|D:" + okOrErr(d.DecryptDeterministically(bytes.Clone(ct), bytes.Clone(ad)))
	out += "|X:" + okOrErr(d.DecryptDeterministically(bytes.Clone(ctj), bytes.Clone(ad)))
	out += "|M:" + okOrErr(d.DecryptDeterministically(mu.apply(ctj), bytes.Clone(ad)))
	return out
}

func c08Run(in string) string {
	f := strings.Split(in, "|")
	switch f[1] {
	case "siv":
		return runSIV(f)
	case "sivks":
		return runSIVKS(f)
	case "kwp":
		return runKWP(f)
	case "katsiv":
		return f[5]
	case "katkwp":
		return f[4]
	}
	return "badcase"
}

// ---- direct property oracle (no model) ----

func prefixOf(api, v string, id uint32) []byte {
	if api == "sub" || v == "R" {
		return nil
	}
	p := make([]byte, 5)
	if v == "T" {
		p[0] = 1
	}
	binary.BigEndian.PutUint32(p[1:], id)
	return p
}

func c08Check(in, obs string) string {
	if strings.HasPrefix(obs, "PANIC") {
		return obs
	}
	if strings.Contains(obs, "NONDET") {
		return "encryption / wrapping is not a function of its inputs (second call or fresh primitive differs)"
	}
	if strings.Contains(obs, "INPUT-MODIFIED") {
		return "caller's input buffer modified"
	}
	f := strings.Split(in, "|")
	o := strings.Split(obs, "|")
	switch f[1] {
	case "sivks":
		// written from the property: the keyset primitive inverts its own encryption and decrypts what
		// ANY of its keys produced; a modified ciphertext is rejected (a flip / cut / extension of an
		// AES-SIV ciphertext decrypts under no key of the keyset except with negligible probability)
		want := "ok:" + f[4]
		if len(o) != 4 {
			return "keyset primitive could not be built or did not encrypt: " + obs
		}
		if o[1] != "D:"+want {
			return "the keyset primitive does not decrypt its own ciphertext: " + o[1]
		}
		if o[2] != "X:"+want {
			return fmt.Sprintf("the keyset primitive does not decrypt the ciphertext of its key %s: %s", f[6], o[2])
		}
		if o[3] != "M:err" {
			return "the keyset primitive accepted a modified ciphertext: " + o[3]
		}
		return ""
	case "siv":
		key, pt, ad := hx.UH(f[5]), hx.UH(f[6]), hx.UH(f[7])
		if obs == "newerr" {
			if len(key) == 64 {
				return "constructor refused a 64-byte key"
			}
			return ""
		}
		if len(key) != 64 {
			return fmt.Sprintf("constructor accepted a %d-byte key", len(key))
		}
		if len(o) < 3 || !strings.HasPrefix(o[0], "E:") || o[0] == "E:err" {
			return "encryption failed"
		}
		id64, _ := strconv.ParseUint(f[4], 10, 32)
		pre := prefixOf(f[2], f[3], uint32(id64))
		ct := hx.UH(o[0][2:])
		if len(ct) != len(pre)+16+len(pt) {
			return fmt.Sprintf("ciphertext length %d, want prefix %d + 16 + %d", len(ct), len(pre), len(pt))
		}
		if !bytes.Equal(ct[:len(pre)], pre) {
			return "ciphertext does not start with the output prefix"
		}
		if o[1] != "D:ok:"+hx.H(pt) {
			return "decryption does not invert encryption"
		}
		mu := parseMut(f[8])
		rejected := o[2] == "M:err"
		switch mu.kind {
		case "flip":
			if mu.n < len(ct) && mu.m%256 != 0 && !rejected {
				return "modified ciphertext accepted"
			}
		case "cut":
			if mu.n < len(ct) && !rejected {
				return "truncated ciphertext accepted"
			}
		case "ext":
			if len(mu.a) > 0 && !rejected {
				return "extended ciphertext accepted"
			}
		case "ad":
			if !bytes.Equal(mu.a, ad) && !rejected {
				return "ciphertext accepted under other associated data"
			}
		case "raw":
			if !bytes.Equal(mu.a, ct) && !rejected {
				return "foreign ciphertext accepted"
			}
		case "swap":
			if bytes.Equal(mu.b, ad) {
				if o[2] != "M:ok:"+hx.H(mu.a) {
					return "valid ciphertext of another plaintext not decrypted to it"
				}
			} else if !rejected {
				return "ciphertext accepted under other associated data"
			}
		}
	case "kwp":
		kek, data := hx.UH(f[2]), hx.UH(f[3])
		if obs == "newerr" {
			if len(kek) == 16 || len(kek) == 32 {
				return "NewKWP refused a valid key size"
			}
			return ""
		}
		if len(kek) != 16 && len(kek) != 32 {
			return "NewKWP accepted an invalid key size"
		}
		if len(o) < 3 {
			return "malformed observation"
		}
		mu := parseMut(f[4])
		inRange := len(data) >= 16 && len(data) <= 8192
		if !inRange {
			if o[0] != "W:err" {
				return "Wrap accepted a key of a size outside 16..8192"
			}
			if mu.kind == "raw" {
				// a reference wrapping (see Gen) of a key of 9..8192 bytes must unwrap to it;
				// anything else must be rejected
				want := "M:err"
				if d, ok := refUnwrap(kek, mu.a); ok {
					want = "M:ok:" + hx.H(d)
				}
				if o[2] != want {
					return "Unwrap of a foreign wrapping: got " + o[2][:min(len(o[2]), 12)] + " want " + want[:min(len(want), 12)]
				}
			}
			return ""
		}
		if o[0] == "W:err" {
			return "Wrap refused a key of a size inside 16..8192"
		}
		w := hx.UH(o[0][2:])
		if len(w) != 8*((len(data)+7)/8)+8 {
			return fmt.Sprintf("wrapping of %d bytes has %d bytes", len(data), len(w))
		}
		if !bytes.Equal(w, refWrap(kek, data)) {
			return "wrapping differs from RFC 5649 computed with crypto/aes"
		}
		if o[1] != "U:ok:"+hx.H(data) {
			return "Unwrap does not invert Wrap"
		}
		rejected := o[2] == "M:err"
		switch mu.kind {
		case "flip":
			if mu.n < len(w) && mu.m%256 != 0 && !rejected {
				return "corrupted wrapping accepted"
			}
		case "cut":
			if mu.n < len(w) && !rejected {
				return "truncated wrapping accepted"
			}
		case "ext":
			if len(mu.a) > 0 && !rejected {
				return "extended wrapping accepted"
			}
		case "raw":
			want := "M:err"
			if d, ok := refUnwrap(kek, mu.a); ok {
				want = "M:ok:" + hx.H(d)
			}
			if o[2] != want {
				return "Unwrap of a crafted wrapping: got " + o[2][:min(len(o[2]), 12)] + " want " + want[:min(len(want), 12)]
			}
		}
	}
	return ""
}

// refWrap: RFC 5649 key wrap with padding for more than 8 bytes, written from
// the RFC over crypto/aes only (used by Gen to make foreign wrappings and by
// Check as the stdlib comparison).
func refWrap(kek, data []byte) []byte {
	c, err := aes.NewCipher(kek)
	if err != nil {
		return nil
	}
	p := append(bytes.Clone(data), make([]byte, (8-len(data)%8)%8)...)
	n := len(p) / 8
	a := make([]byte, 8)
	binary.BigEndian.PutUint32(a, 0xA65959A6)
	binary.BigEndian.PutUint32(a[4:], uint32(len(data)))
	r := make([][]byte, n+1)
	for i := 1; i <= n; i++ {
		r[i] = bytes.Clone(p[8*(i-1) : 8*i])
	}
	b := make([]byte, 16)
	for j := 0; j <= 5; j++ {
		for i := 1; i <= n; i++ {
			copy(b, a)
			copy(b[8:], r[i])
			c.Encrypt(b, b)
			t := uint64(n*j + i)
			binary.BigEndian.PutUint64(a, binary.BigEndian.Uint64(b[:8])^t)
			copy(r[i], b[8:])
		}
	}
	out := bytes.Clone(a)
	for i := 1; i <= n; i++ {
		out = append(out, r[i]...)
	}
	return out
}

// refW applies RFC 3394's W to an 8-byte integrity register and a payload
// whose length is a multiple of 8 (crypto/aes only).
func refW(kek, aiv, body []byte) []byte {
	c, err := aes.NewCipher(kek)
	if err != nil {
		return nil
	}
	n := len(body) / 8
	a := bytes.Clone(aiv)
	r := bytes.Clone(body)
	b := make([]byte, 16)
	for j := 0; j <= 5; j++ {
		for i := 1; i <= n; i++ {
			copy(b, a)
			copy(b[8:], r[8*(i-1):8*i])
			c.Encrypt(b, b)
			binary.BigEndian.PutUint64(a, binary.BigEndian.Uint64(b[:8])^uint64(n*j+i))
			copy(r[8*(i-1):8*i], b[8:])
		}
	}
	return append(a, r...)
}

// refUnwrap: RFC 3394 W^-1 followed by the RFC 5649 checks, restricted to the
// window 24..8200 bytes the property fixes (crypto/aes only).
func refUnwrap(kek, w []byte) ([]byte, bool) {
	if len(w) < 24 || len(w) > 8200 || len(w)%8 != 0 {
		return nil, false
	}
	c, err := aes.NewCipher(kek)
	if err != nil {
		return nil, false
	}
	n := len(w)/8 - 1
	a := bytes.Clone(w[:8])
	r := bytes.Clone(w[8:])
	b := make([]byte, 16)
	for j := 5; j >= 0; j-- {
		for i := n; i >= 1; i-- {
			binary.BigEndian.PutUint64(b, binary.BigEndian.Uint64(a)^uint64(n*j+i))
			copy(b[8:], r[8*(i-1):8*i])
			c.Decrypt(b, b)
			copy(a, b[:8])
			copy(r[8*(i-1):8*i], b[8:])
		}
	}
	if binary.BigEndian.Uint32(a) != 0xA65959A6 {
		return nil, false
	}
	mli := uint64(binary.BigEndian.Uint32(a[4:]))
	if 8*((mli+7)/8) != uint64(len(r)) {
		return nil, false
	}
	for _, x := range r[mli:] {
		if x != 0 {
			return nil, false
		}
	}
	return r[:mli], true
}

// ---- generator ----

func lenClass(n int) string {
	switch {
	case n == 0:
		return "0"
	case n < 16:
		return "<16"
	case n == 16:
		return "16"
	case n < 32:
		return "17-31"
	case n%16 == 0:
		return "k*16"
	default:
		return ">32"
	}
}

func c08Class(in, obs string) string {
	if strings.HasPrefix(obs, "PANIC") {
		return ""
	}
	f := strings.Split(in, "|")
	o := strings.Split(obs, "|")
	res := o[len(o)-1]
	if strings.HasPrefix(res, "M:ok") {
		res = "acc"
	} else if res == "M:err" {
		res = "rej"
	}
	switch f[1] {
	case "sivks":
		es := parseKS(f[2])
		raws := 0
		for _, e := range es {
			if e.v == "R" {
				raws++
			}
		}
		j, _ := strconv.Atoi(f[6])
		return fmt.Sprintf("sivks/%dkeys/%draw/ct-of-%s-key/%s/%s", len(es), raws, es[j].v, strings.SplitN(f[7], ":", 2)[0], res)
	case "siv":
		mk := strings.SplitN(f[8], ":", 2)[0]
		return fmt.Sprintf("siv/%s/%s/pt%d/ad%s/%s/%s", f[2], f[3], len(hx.UH(f[6])), lenClass(len(hx.UH(f[7]))), mk, res)
	case "kwp":
		mk := strings.SplitN(f[4], ":", 2)[0]
		n := len(hx.UH(f[3]))
		nc := strconv.Itoa(n)
		if n > 80 {
			nc = fmt.Sprintf(">80r%d", n%8)
		}
		return fmt.Sprintf("kwp/kek%d/%s/%s/%s", len(hx.UH(f[2])), nc, mk, res)
	}
	return f[1]
}

func sivMut(r *hx.Rng, ctLen, preLen int, pt, ad []byte) string {
	switch x := r.Intn(100); {
	case x < 30:
		pos := r.Intn(ctLen)
		if r.Chance(30) && ctLen >= preLen+16 {
			// the two SIV bits the CTR mask clears, and the prefix
			pos = preLen + hx.PickS(r, []int{8, 12, 0, 15})
		}
		if r.Chance(15) && preLen > 0 {
			pos = r.Intn(preLen)
		}
		mask := 1 << r.Intn(8)
		if (pos == preLen+8 || pos == preLen+12) && r.Chance(70) {
			mask = 0x80
		}
		return fmt.Sprintf("flip:%d:%d", pos, mask)
	case x < 48:
		// truncations around the prefix and the 16-byte SIV, and by a few bytes
		n := hx.PickS(r, []int{0, 1, 4, 5, 6, 15, 16, 17, 20, 21, ctLen - 1, ctLen - 2, ctLen - 16})
		if n < 0 || n >= ctLen {
			n = ctLen - 1
		}
		return fmt.Sprintf("cut:%d", n)
	case x < 58:
		return "ext:" + hx.H(r.Bytes(1+r.Intn(17)))
	case x < 78:
		a := bytes.Clone(ad)
		switch {
		case len(a) == 0 || r.Chance(25):
			a = append(a, byte(r.Intn(256)))
		case r.Chance(30):
			a = a[:len(a)-1]
		default:
			a[r.Intn(len(a))] ^= byte(1 << r.Intn(8))
		}
		return "ad:" + hx.H(a)
	case x < 88:
		n := hx.PickS(r, []int{0, 1, 5, 15, 16, 17, 21, 32, ctLen})
		return "raw:" + hx.H(r.Bytes(n))
	default:
		pt2 := r.Bytes(hx.PickS(r, []int{0, 1, 15, 16, 17, len(pt), len(pt) + 1}))
		ad2 := bytes.Clone(ad)
		if r.Chance(40) {
			ad2 = r.Bytes(r.Intn(20))
		}
		return "swap:" + hx.H(pt2) + ":" + hx.H(ad2)
	}
}

func sivLine(r *hx.Rng, api, v string, keyLen, ptLen, adLen int) string {
	id := uint32(r.U64())
	if r.Chance(20) {
		id = hx.PickS(r, []uint32{0, 1, 0xffffffff, 0x80000000, 0x01020304})
	}
	if v == "R" && api != "ks" && api != "tmpl" && api != "fac" {
		id = 0
	}
	key := r.Bytes(keyLen)
	pt, ad := r.Bytes(ptLen), r.Bytes(adLen)
	pre := 5
	if api == "sub" || v == "R" {
		pre = 0
	}
	mut := sivMut(r, pre+16+ptLen, pre, pt, ad)
	return fmt.Sprintf("C08|siv|%s|%s|%d|%s|%s|%s|%s", api, v, id, hx.H(key), hx.H(pt), hx.H(ad), mut)
}

// kwpCraft makes W(aiv || body) whose plaintext is structurally wrong in one
// place (padding byte, length field, prefix constant): the checks behind
// invertW that random corruption never reaches.
func sivksLine(r *hx.Rng, coincide bool) string {
	nk := 2 + r.Intn(3)
	var es []ksEntry
	used := map[uint32]bool{}
	for i := 0; i < nk; i++ {
		v := hx.PickS(r, []string{"R", "R", "T", "C"})
		if i < 2 && r.Chance(70) {
			v = "R"
		}
		id := uint32(r.U64())
		for used[id] || id == 0 {
			id = uint32(r.U64())
		}
		used[id] = true
		es = append(es, ksEntry{v, id, r.Bytes(64)})
	}
	pt, ad := r.Bytes(r.Intn(40)), r.Bytes(r.Intn(20))
	j := r.Intn(nk)
	if coincide {
		// key 0 RAW, key 1 TINK with the id the RAW ciphertext spells: search a plaintext whose RAW
		// ciphertext starts with 0x01 (the per-key primitive computes it)
		es[0].v, es[1].v, j = "R", "T", 0
		k0, err := sivKey("R", 0, es[0].key)
		if err == nil {
			if d0, err := aessiv.NewDeterministicAEAD(k0, internalapi.Token{}); err == nil {
				for try := 0; try < 4000; try++ {
					pt = r.Bytes(8 + r.Intn(24))
					ct, err := d0.EncryptDeterministically(pt, ad)
					if err == nil && ct[0] == 1 {
						es[1].id = binary.BigEndian.Uint32(ct[1:5])
						break
					}
				}
			}
		}
	}
	var parts []string
	for _, e := range es {
		parts = append(parts, fmt.Sprintf("%s,%d,%s", e.v, e.id, hx.H(e.key)))
	}
	ctLen := 16 + len(pt)
	if es[j].v != "R" {
		ctLen += 5
	}
	mu := hx.PickS(r, []string{fmt.Sprintf("flip:%d:%d", r.Intn(ctLen), 1<<uint(r.Intn(8))), fmt.Sprintf("cut:%d", r.Intn(ctLen)), "ext:" + hx.H(r.Bytes(1+r.Intn(4)))})
	return fmt.Sprintf("C08|sivks|%s|%d|%s|%s|%d|%s", strings.Join(parts, ";"), r.Intn(nk), hx.H(pt), hx.H(ad), j, mu)
}

func kwpCraft(r *hx.Rng, kek, data []byte) string {
	n := len(data)
	pad := (8 - n%8) % 8
	body := append(bytes.Clone(data), make([]byte, pad)...)
	aiv := make([]byte, 8)
	binary.BigEndian.PutUint32(aiv, 0xA65959A6)
	mli := uint32(n)
	switch k := r.Intn(9); {
	case k == 0 && pad > 0:
		body[n+r.Intn(pad)] = byte(1 + r.Intn(255))
	case k == 1 && pad > 0:
		mli = uint32(n + 1 + r.Intn(pad)) // still a valid wrapping: of data || 0...
	case k == 2:
		d := 1 + r.Intn(7)
		if (n-d+7)/8 == (n+7)/8 {
			mli = uint32(n - d) // padding region now covers data bytes
			if r.Chance(30) {
				for i := n - d; i < n; i++ {
					body[i] = 0 // ... which makes it the wrapping of a shorter key
				}
			}
		} else {
			mli = uint32(n - d)
		}
	case k == 3:
		mli = uint32(n + 8)
	case k == 4:
		binary.BigEndian.PutUint32(aiv, hx.PickS(r, []uint32{0xA65959A7, 0xA6595900, 0x265959A6, 0}))
	case k == 5:
		mli = hx.PickS(r, []uint32{0, 0xffffffff, 0xfffffff8, 0x80000000 + uint32(n), 1 << 16})
	case k == 6:
		body[len(body)-1] ^= 0x80
	case k == 7:
		// one or more whole blocks of zero "padding": length field too small by >= 8
		m := n - 8 - r.Intn(8)
		if r.Chance(30) {
			m = r.Intn(n - 8)
		}
		mli = uint32(m)
		for i := m; i < len(body); i++ {
			body[i] = 0
		}
	}
	binary.BigEndian.PutUint32(aiv[4:], mli)
	return "raw:" + hx.H(refW(kek, aiv, body))
}

func kwpMut(r *hx.Rng, kek []byte, wLen int) string {
	switch x := r.Intn(100); {
	case x < 40:
		pos := r.Intn(wLen)
		if r.Chance(30) {
			pos = hx.PickS(r, []int{0, 3, 4, 7, 8, wLen - 1, wLen - 8})
		}
		return fmt.Sprintf("flip:%d:%d", pos, 1<<r.Intn(8))
	case x < 60:
		n := hx.PickS(r, []int{0, 8, 16, 23, wLen - 1, wLen - 8, wLen - 7, wLen - 16})
		if n < 0 || n >= wLen {
			n = wLen - 1
		}
		return fmt.Sprintf("cut:%d", n)
	case x < 80:
		k := hx.PickS(r, []int{1, 7, 8, 9, 16})
		b := make([]byte, k)
		if r.Bool() {
			b = r.Bytes(k)
		}
		return "ext:" + hx.H(b)
	default:
		n := hx.PickS(r, []int{0, 8, 16, 23, 24, 25, 32, wLen, 8200, 8208})
		return "raw:" + hx.H(r.Bytes(n))
	}
}

func kwpLine(r *hx.Rng, kekLen, n int) string {
	kek := r.Bytes(kekLen)
	data := r.Bytes(n)
	w := 8*((n+7)/8) + 8
	mut := kwpMut(r, kek, w)
	if (kekLen == 16 || kekLen == 32) && n >= 16 && n <= 8192 && r.Chance(35) {
		mut = kwpCraft(r, kek, data)
	}
	if n < 16 || n > 8192 {
		// Wrap refuses; feed Unwrap an RFC 5649 wrapping made with crypto/aes
		// (sizes 9..15 are wrappings Unwrap's size window admits), or a damaged one
		mut = "raw:" + hx.H(r.Bytes(hx.PickS(r, []int{16, 24, 8208})))
		if kekLen == 16 || kekLen == 32 {
			if n > 8 {
				fw := refWrap(kek, data)
				if r.Chance(25) {
					fw[r.Intn(len(fw))] ^= 1
				}
				mut = "raw:" + hx.H(fw)
			}
		}
	}
	return fmt.Sprintf("C08|kwp|%s|%s|%s", hx.H(kek), hx.H(data), mut)
}

func c08Gen(r *hx.Rng, n int, tier string) []string {
	var lines []string
	apis := []string{"sub", "key", "fac", "ks", "tmpl"}
	vars := []string{"T", "C", "R"}
	edge := []int{0, 1, 15, 16, 17, 31, 32, 33, 47, 48, 63, 64, 65}
	// every plaintext length 0..48 against the edge AD lengths, and every AD
	// length 0..48 against the edge plaintext lengths
	for p := 0; p <= 48; p++ {
		for _, a := range edge[:10] {
			lines = append(lines, sivLine(r, hx.PickS(r, apis), hx.PickS(r, vars), 64, p, a))
		}
	}
	for a := 0; a <= 48; a++ {
		for _, p := range edge[:10] {
			lines = append(lines, sivLine(r, hx.PickS(r, apis), hx.PickS(r, vars), 64, p, a))
		}
	}
	// every api x variant at least once on both S2V branches
	for _, api := range apis {
		for _, v := range vars {
			for _, p := range []int{0, 7, 16, 40} {
				lines = append(lines, sivLine(r, api, v, 64, p, r.Intn(40)))
			}
		}
	}
	// keysets of several AES-SIV keys with different material: at least two RAW keys in most of them (a
	// RAW ciphertext must be tried against every RAW key), the ciphertext of each key decrypted through
	// the keyset primitive; and the prefix coincidence: a RAW ciphertext that begins with the output
	// prefix of a TINK key of the same keyset (the prefixed key is tried first and fails)
	for c := 0; c < 60; c++ {
		lines = append(lines, sivksLine(r, c%4 == 3))
	}
	// keys RFC 5297 does not single out but a "hardening" check might: equal halves (K1 = K2), all zero, all
	// 0xff, one half zero - the property quantifies over ALL 64-byte keys (seeded change C08f)
	for _, api := range apis {
		for i, k := range [][]byte{make([]byte, 64), bytes.Repeat([]byte{0xff}, 64), append(bytes.Repeat([]byte{7}, 32), bytes.Repeat([]byte{7}, 32)...),
			func() []byte { h := r.Bytes(32); return append(append([]byte{}, h...), h...) }(), append(make([]byte, 32), r.Bytes(32)...), append(r.Bytes(32), make([]byte, 32)...)} {
			l := sivLine(r, api, vars[i%3], 64, []int{0, 5, 16, 33, 40, 17}[i], i)
			f := strings.Split(l, "|")
			f[5] = hx.H(k)
			lines = append(lines, strings.Join(f, "|"))
		}
	}
	// wrong key sizes (32 and 48 pass the parameter check, the primitive refuses)
	for _, kl := range []int{0, 16, 32, 48, 63, 65, 128} {
		for _, api := range []string{"sub", "key", "fac", "ks"} {
			lines = append(lines, sivLine(r, api, hx.PickS(r, vars), kl, r.Intn(40), r.Intn(20)))
		}
	}
	// KWP: every size 16..80 with both KEK sizes
	for sz := 16; sz <= 80; sz++ {
		lines = append(lines, kwpLine(r, 16, sz), kwpLine(r, 32, sz))
	}
	// refused sizes and foreign wrappings of 9..15-byte keys, limits
	for _, sz := range []int{0, 1, 7, 8, 9, 10, 11, 12, 13, 14, 15, 8193, 8200} {
		lines = append(lines, kwpLine(r, hx.PickS(r, []int{16, 32}), sz))
	}
	// NewKWP's KEK-size rule: only 16 and 32 (AES-192 keys, neighbours and multiples are refused)
	for _, kl := range []int{0, 1, 8, 15, 17, 24, 24, 31, 33, 48, 64, 128} {
		lines = append(lines, kwpLine(r, kl, 16+r.Intn(40)))
	}
	// every error kind of Unwrap under an accepted KEK: sizes around the window, not a multiple of 8
	for _, wl := range []int{0, 8, 16, 23, 24, 25, 31, 32, 8192, 8199, 8200, 8201, 8208} {
		kek := r.Bytes(hx.PickS(r, []int{16, 32}))
		lines = append(lines, fmt.Sprintf("C08|kwp|%s|%s|raw:%s", hx.H(kek), hx.H(r.Bytes(8)), hx.H(r.Bytes(wl))))
	}
	lines = append(lines, kwpLine(r, 16, 8192), kwpLine(r, 32, 8191), kwpLine(r, 32, 8185))
	// the random part: larger and random sizes
	for c := 0; c < n; c++ {
		if c%3 != 2 {
			p := r.Intn(200)
			if r.Chance(25) {
				p = 16 * r.Intn(40)
			}
			if r.Chance(10) {
				p = 200 + r.Intn(4000)
			}
			a := r.Intn(100)
			if r.Chance(10) {
				a = r.Intn(2000)
			}
			lines = append(lines, sivLine(r, hx.PickS(r, apis), hx.PickS(r, vars), 64, p, a))
		} else {
			// log-uniform sizes up to 8192
			sz := 16 + r.Intn(1<<(4+r.Intn(10)))
			if sz > 8192 {
				sz = 8192 - r.Intn(64)
			}
			if tier == "quick" && sz > 2048 && r.Chance(70) {
				sz = 81 + r.Intn(400)
			}
			lines = append(lines, kwpLine(r, hx.PickS(r, []int{16, 32}), sz))
		}
	}
	return lines
}

func init() {
	hx.Register("C08", &hx.Prop{Gen: c08Gen, Run: c08Run, Check: c08Check, Class: c08Class})
}
