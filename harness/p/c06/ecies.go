package c06

import (
	"bytes"
	"crypto/elliptic"
	"fmt"
	"strconv"
	"strings"

	"github.com/tink-crypto/tink-go/v2/aead/aesctrhmac"
	"github.com/tink-crypto/tink-go/v2/aead/aesgcm"
	"github.com/tink-crypto/tink-go/v2/aead/xchacha20poly1305"
	"github.com/tink-crypto/tink-go/v2/daead/aessiv"
	"github.com/tink-crypto/tink-go/v2/hybrid/ecies"
	"github.com/tink-crypto/tink-go/v2/insecuresecretdataaccess"
	"github.com/tink-crypto/tink-go/v2/internal/internalapi"
	"github.com/tink-crypto/tink-go/v2/key"
	"github.com/tink-crypto/tink-go/v2/secretdata"
	"github.com/tink-crypto/tink-go/v2/tink"
	"github.com/tink-crypto/tink-go/v2/verifharness/hx"
)

var eciesCurves = map[string]ecies.CurveType{"p256": ecies.NISTP256, "p384": ecies.NISTP384, "p521": ecies.NISTP521, "x25519": ecies.X25519}
var eciesHashes = map[string]ecies.HashType{"sha1": ecies.SHA1, "sha224": ecies.SHA224, "sha256": ecies.SHA256, "sha384": ecies.SHA384, "sha512": ecies.SHA512}
var eciesFormats = map[string]ecies.PointFormat{"c": ecies.CompressedPointFormat, "u": ecies.UncompressedPointFormat, "l": ecies.LegacyUncompressedPointFormat, "n": ecies.UnspecifiedPointFormat}
var eciesVariants = map[string]ecies.Variant{"T": ecies.VariantTink, "C": ecies.VariantCrunchy, "N": ecies.VariantNoPrefix}

var (
	eciesCurveNames  = []string{"p256", "p384", "p521"}
	eciesHashNames   = []string{"sha1", "sha224", "sha256", "sha384", "sha512"}
	eciesFormatNames = []string{"c", "u", "l"}
	eciesDEMNames    = []string{"g128", "g256", "siv", "ctr128", "ctr256"}
	fieldSize        = map[string]int{"p256": 32, "p384": 48, "p521": 66}
	demIVSize        = map[string]int{"g128": 12, "g256": 12, "siv": 0, "ctr128": 16, "ctr256": 16, "xchacha": 24}
	demOverhead      = map[string]int{"g128": 28, "g256": 28, "siv": 16, "ctr128": 32, "ctr256": 48}
)

func must[T any](v T, err error) T {
	if err != nil {
		panic(err)
	}
	return v
}

func demParams(name string) key.Parameters {
	switch name {
	case "g128":
		return must(aesgcm.NewParameters(aesgcm.ParametersOpts{KeySizeInBytes: 16, IVSizeInBytes: 12, TagSizeInBytes: 16, Variant: aesgcm.VariantNoPrefix}))
	case "g256":
		return must(aesgcm.NewParameters(aesgcm.ParametersOpts{KeySizeInBytes: 32, IVSizeInBytes: 12, TagSizeInBytes: 16, Variant: aesgcm.VariantNoPrefix}))
	case "siv":
		return must(aessiv.NewParameters(64, aessiv.VariantNoPrefix))
	case "xchacha":
		return must(xchacha20poly1305.NewParameters(xchacha20poly1305.VariantNoPrefix))
	case "ctr128":
		return must(aesctrhmac.NewParameters(aesctrhmac.ParametersOpts{AESKeySizeInBytes: 16, HMACKeySizeInBytes: 32, IVSizeInBytes: 16, HashType: aesctrhmac.SHA256, TagSizeInBytes: 16, Variant: aesctrhmac.VariantNoPrefix}))
	case "ctr256":
		return must(aesctrhmac.NewParameters(aesctrhmac.ParametersOpts{AESKeySizeInBytes: 32, HMACKeySizeInBytes: 32, IVSizeInBytes: 16, HashType: aesctrhmac.SHA256, TagSizeInBytes: 32, Variant: aesctrhmac.VariantNoPrefix}))
	}
	panic("dem " + name)
}

func encodingSize(curve, format string) int {
	switch format {
	case "c":
		return fieldSize[curve] + 1
	case "u":
		return 2*fieldSize[curve] + 1
	case "l":
		return 2 * fieldSize[curve]
	}
	return 0
}

func eciesParams(suite string, salt []byte) (*ecies.Parameters, error) {
	s := strings.Split(suite, ".")
	if len(s) != 5 {
		return nil, fmt.Errorf("suite")
	}
	return ecies.NewParameters(ecies.ParametersOpts{
		CurveType: eciesCurves[s[0]], HashType: eciesHashes[s[1]], NISTCurvePointFormat: eciesFormats[s[2]],
		DEMParameters: demParams(s[3]), Salt: salt, Variant: eciesVariants[s[4]],
	})
}

type eciesPrims struct {
	priv *ecies.PrivateKey
	pub  *ecies.PublicKey
	enc  tink.HybridEncrypt
	dec  tink.HybridDecrypt
}

func eciesSetup(suite string, salt []byte, id uint32, sk []byte) (*eciesPrims, string) {
	params, err := eciesParams(suite, salt)
	if err != nil {
		return nil, "nokey"
	}
	priv, err := ecies.NewPrivateKey(secretdata.NewBytesFromData(sk, insecuresecretdataaccess.Token{}), id, params)
	if err != nil {
		return nil, "nokey"
	}
	pk, _ := priv.PublicKey()
	pub := pk.(*ecies.PublicKey)
	enc, err := ecies.NewHybridEncrypt(pub, internalapi.Token{})
	if err != nil {
		return nil, "noprim"
	}
	dec, err := ecies.NewHybridDecrypt(priv, internalapi.Token{})
	if err != nil {
		return nil, "noprim"
	}
	return &eciesPrims{priv, pub, enc, dec}, ""
}

func runECIES(f []string) string {
	if len(f) != 16 {
		return "badline"
	}
	suite := f[2]
	id64, _ := strconv.ParseUint(f[3], 10, 32)
	id := uint32(id64)
	sk, salt, info, pt, tc := hx.UH(f[4]), hx.UH(f[5]), hx.UH(f[6]), hx.UH(f[7]), hx.UH(f[8])
	p, fail := eciesSetup(suite, salt, id, sk)
	if p == nil {
		return fail
	}
	s := strings.Split(suite, ".")
	var sb strings.Builder
	sb.WriteString("pk=" + hx.H(p.pub.PublicKeyBytes()))
	sb.WriteString("|d=" + res(p.dec.Decrypt(tc, info)))
	sb.WriteString("|re=" + hx.H(tc))
	if f[11] == "?" {
		sb.WriteString("|mc=?|md=skip")
	} else {
		mc := hx.UH(f[11])
		sb.WriteString("|mc=" + hx.H(mc) + "|md=" + res(p.dec.Decrypt(mc, info)))
	}
	if f[12] == "?" {
		sb.WriteString("|fe=skip")
	} else {
		var fc []byte
		var err error
		hx.WithTape(&hx.Tape{Bulk: hx.UH(f[12])}, func() { fc, err = p.enc.Encrypt(pt, info) })
		if err != nil {
			sb.WriteString("|fe=err")
		} else {
			sb.WriteString("|fe=" + hx.H(fc) + "|fd=" + res(p.dec.Decrypt(fc, info)))
		}
	}
	sb.WriteString("|rt=" + factoryRoundTrip(p.priv, id, pt, info, len(p.priv.OutputPrefix())+encodingSize(s[0], s[2])+len(pt)+demOverhead[s[3]]))
	sb.WriteString("|mu=")
	for i, sp := range splitMuts(f[15]) {
		if i > 0 {
			sb.WriteString(",")
		}
		c2, i2, k2 := applyMut(sp, tc, info, sk)
		d := p.dec
		if !bytes.Equal(k2, sk) {
			p2, _ := eciesSetup(suite, salt, id, k2)
			if p2 == nil {
				sb.WriteString("nokey")
				continue
			}
			d = p2.dec
		}
		sb.WriteString(res(d.Decrypt(c2, i2)))
	}
	return sb.String()
}

func ellipticCurve(name string) elliptic.Curve {
	switch name {
	case "p256":
		return elliptic.P256()
	case "p384":
		return elliptic.P384()
	}
	return elliptic.P521()
}

func eciesSuites(r *hx.Rng) []string {
	var es []string
	for _, c := range eciesCurveNames {
		for _, h := range eciesHashNames {
			for _, f := range eciesFormatNames {
				for _, d := range eciesDEMNames {
					es = append(es, c+"."+h+"."+f+"."+d+"."+hx.PickS(r, varNames))
				}
			}
		}
	}
	// parameter sets that exist but have no primitive
	es = append(es, "x25519.sha256.n.g128.N", "x25519.sha512.n.ctr256.T", "p256.sha256.u.xchacha.T", "p384.sha384.c.xchacha.N")
	for i := len(es) - 1; i > 0; i-- {
		j := r.Intn(i + 1)
		es[i], es[j] = es[j], es[i]
	}
	return es
}

func genECIES(r *hx.Rng, suite string) string {
	s := strings.Split(suite, ".")
	curve, format, dem, v := s[0], s[2], s[3], s[4]
	id := randID(r, v)
	info := r.Bytes(hx.PickS(r, infoLens))
	pt := r.Bytes(hx.PickS(r, ptLens))
	salt := r.Bytes(hx.PickS(r, []int{0, 0, 1, 8, 16, 20, 32, 64, 100}))
	if curve == "x25519" || dem == "xchacha" {
		sk := hpkeValidSK(r, curve)
		return fmt.Sprintf("C06|E|%s|%d|%s|%s|%s|%s|-|-|-|?|?|?|?|-", suite, id, hx.H(sk), hx.H(salt), hx.H(info), hx.H(pt))
	}
	if r.Chance(3) {
		sk := hpkeInvalidSK(r, curve)
		return fmt.Sprintf("C06|E|%s|%d|%s|%s|%s|%s|-|-|-|?|?|?|?|-", suite, id, hx.H(sk), hx.H(salt), hx.H(info), hx.H(pt))
	}
	sk := validScalar(r, curve)
	p, fail := eciesSetup(suite, salt, id, sk)
	if p == nil {
		panic("ecies setup failed for a valid key: " + fail + " " + suite)
	}
	var tc, fc []byte
	var err error
	hx.WithTape(&hx.Tape{Bulk: r.Bytes(256)}, func() { tc, err = p.enc.Encrypt(pt, info) })
	if err != nil {
		panic(err)
	}
	eph := validScalar(r, curve)
	iv := r.Bytes(demIVSize[dem])
	// tape for the fresh encryption inside Run and what it yields
	ft := r.Bytes(3*scalarLen[curve] + 32)
	t := &hx.Tape{Bulk: append([]byte{}, ft...)}
	fephB, _, _, err := elliptic.GenerateKey(ellipticCurve(curve), t)
	if err != nil {
		panic(err)
	}
	fiv := ft[t.NBulk : t.NBulk+demIVSize[dem]]
	_ = fc
	np := len(p.priv.OutputPrefix())
	nh := encodingSize(curve, format)
	otherHeader := func() []byte {
		if format != "c" && r.Chance(35) { // -P: same ECDH x coordinate, other KEM bytes
			h := tc[np : np+nh]
			if format == "l" {
				return negY(curve, append([]byte{4}, h...))[1:]
			}
			return negY(curve, h)
		}
		// the encoding of another valid point: taken from another Tink encryption
		var c2 []byte
		hx.WithTape(&hx.Tape{Bulk: r.Bytes(256)}, func() { c2, _ = p.enc.Encrypt(nil, nil) })
		if len(c2) < np+nh {
			return nil
		}
		return c2[np : np+nh]
	}
	// one ECIES line in six carries the negated private key n-d: ECIES does not bind the
	// recipient public key, the DEM key depends on the ECDH x coordinate only, so Decrypt
	// accepts (known finding "ecies negated private key accepted"; theorem
	// C06_ecies_other_private_key_same_dh_decrypts).  Not on every line: a line reported
	// under a known finding is left out of the correspondence count.
	var negKey []byte
	if r.Chance(17) {
		negKey = negScalar(curve, sk)
	}
	muts := genMuts(r, tc, info, np, nh, func() []byte { return validScalar(r, curve) }, otherHeader, negKey)
	return fmt.Sprintf("C06|E|%s|%d|%s|%s|%s|%s|%s|%s|%s|!|%s|%s|%s|%s", suite, id, hx.H(sk), hx.H(salt), hx.H(info), hx.H(pt),
		hx.H(tc), hx.H(eph), hx.H(iv), hx.H(ft), hx.H(fephB), hx.H(fiv), muts)
}
