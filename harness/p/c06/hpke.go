package c06

import (
	"bytes"
	"fmt"
	"strconv"
	"strings"

	"github.com/tink-crypto/tink-go/v2/hybrid"
	"github.com/tink-crypto/tink-go/v2/hybrid/hpke"
	"github.com/tink-crypto/tink-go/v2/insecuresecretdataaccess"
	"github.com/tink-crypto/tink-go/v2/internal/internalapi"
	"github.com/tink-crypto/tink-go/v2/key"
	"github.com/tink-crypto/tink-go/v2/keyset"
	"github.com/tink-crypto/tink-go/v2/secretdata"
	"github.com/tink-crypto/tink-go/v2/tink"
	"github.com/tink-crypto/tink-go/v2/verifharness/hx"
)

var hpkeKEMs = map[string]hpke.KEMID{
	"p256": hpke.DHKEM_P256_HKDF_SHA256, "p384": hpke.DHKEM_P384_HKDF_SHA384, "p521": hpke.DHKEM_P521_HKDF_SHA512,
	"x25519": hpke.DHKEM_X25519_HKDF_SHA256, "mlkem768": hpke.ML_KEM768, "mlkem1024": hpke.ML_KEM1024, "xwing": hpke.X_WING,
}
var hpkeKDFs = map[string]hpke.KDFID{"sha256": hpke.HKDFSHA256, "sha384": hpke.HKDFSHA384, "sha512": hpke.HKDFSHA512}
var hpkeAEADs = map[string]hpke.AEADID{"a128": hpke.AES128GCM, "a256": hpke.AES256GCM, "chacha": hpke.ChaCha20Poly1305}
var hpkeVariants = map[string]hpke.Variant{"T": hpke.VariantTink, "C": hpke.VariantCrunchy, "N": hpke.VariantNoPrefix}

var hpkeNenc = map[string]int{"p256": 65, "p384": 97, "p521": 133, "x25519": 32, "mlkem768": 1088, "mlkem1024": 1568, "xwing": 1120}

func hpkeParams(suite string) (*hpke.Parameters, error) {
	s := strings.Split(suite, ".")
	if len(s) != 4 {
		return nil, fmt.Errorf("suite")
	}
	return hpke.NewParameters(hpke.ParametersOpts{KEMID: hpkeKEMs[s[0]], KDFID: hpkeKDFs[s[1]], AEADID: hpkeAEADs[s[2]], Variant: hpkeVariants[s[3]]})
}

func hpkePriv(suite string, id uint32, sk []byte) (*hpke.PrivateKey, error) {
	params, err := hpkeParams(suite)
	if err != nil {
		return nil, err
	}
	return hpke.NewPrivateKey(secretdata.NewBytesFromData(sk, insecuresecretdataaccess.Token{}), id, params)
}

// single-key keyset handle around a private key (the public API path)
func handleOf(k key.Key, id uint32) (*keyset.Handle, error) {
	km := keyset.NewManager()
	kid, err := km.AddKey(k)
	if err != nil {
		return nil, err
	}
	if err := km.SetPrimary(kid); err != nil {
		return nil, err
	}
	return km.Handle()
}

// fresh round trip through hybrid.NewHybridEncrypt / NewHybridDecrypt on a
// one-key keyset; also checks the ciphertext length
func factoryRoundTrip(priv key.Key, id uint32, pt, info []byte, wantLen int) string {
	h, err := handleOf(priv, id)
	if err != nil {
		return "FAIL:handle"
	}
	ph, err := h.Public()
	if err != nil {
		return "FAIL:public"
	}
	e, err := hybrid.NewHybridEncrypt(ph)
	if err != nil {
		return "FAIL:newenc"
	}
	d, err := hybrid.NewHybridDecrypt(h)
	if err != nil {
		return "FAIL:newdec"
	}
	c, err := e.Encrypt(pt, info)
	if err != nil {
		return "FAIL:encrypt"
	}
	if wantLen >= 0 && len(c) != wantLen {
		return fmt.Sprintf("FAIL:len%d/%d", len(c), wantLen)
	}
	p, err := d.Decrypt(c, info)
	if err != nil {
		return "FAIL:decrypt"
	}
	if !bytes.Equal(p, pt) {
		return "FAIL:plaintext"
	}
	return "ok"
}

type hpkePrims struct {
	priv *hpke.PrivateKey
	pub  *hpke.PublicKey
	enc  tink.HybridEncrypt
	dec  tink.HybridDecrypt
}

func hpkeSetup(suite string, id uint32, sk []byte) (*hpkePrims, string) {
	priv, err := hpkePriv(suite, id, sk)
	if err != nil {
		return nil, "nokey"
	}
	pk, _ := priv.PublicKey()
	pub := pk.(*hpke.PublicKey)
	enc, err := hpke.NewHybridEncrypt(pub, internalapi.Token{})
	if err != nil {
		return nil, "noprim"
	}
	dec, err := hpke.NewHybridDecrypt(priv, internalapi.Token{})
	if err != nil {
		return nil, "noprim"
	}
	return &hpkePrims{priv, pub, enc, dec}, ""
}

func runHPKE(f []string) string {
	if len(f) != 13 {
		return "badline"
	}
	suite := f[2]
	id64, _ := strconv.ParseUint(f[3], 10, 32)
	id := uint32(id64)
	sk, info, pt, tc := hx.UH(f[4]), hx.UH(f[5]), hx.UH(f[6]), hx.UH(f[7])
	p, fail := hpkeSetup(suite, id, sk)
	if p == nil {
		return fail
	}
	var sb strings.Builder
	sb.WriteString("pk=" + hx.H(p.pub.PublicKeyBytes()))
	sb.WriteString("|d=" + res(p.dec.Decrypt(tc, info)))
	sb.WriteString("|re=" + hx.H(tc))
	if f[9] == "?" {
		sb.WriteString("|mc=?|md=skip")
	} else {
		mc := hx.UH(f[9])
		sb.WriteString("|mc=" + hx.H(mc) + "|md=" + res(p.dec.Decrypt(mc, info)))
	}
	if f[10] == "?" {
		sb.WriteString("|fe=skip")
	} else {
		var fc []byte
		var err error
		hx.WithTape(&hx.Tape{Bulk: hx.UH(f[10])}, func() { fc, err = p.enc.Encrypt(pt, info) })
		if err != nil {
			sb.WriteString("|fe=err")
		} else {
			sb.WriteString("|fe=" + hx.H(fc) + "|fd=" + res(p.dec.Decrypt(fc, info)))
		}
	}
	kem := strings.Split(suite, ".")[0]
	sb.WriteString("|rt=" + factoryRoundTrip(p.priv, id, pt, info, len(p.priv.OutputPrefix())+hpkeNenc[kem]+len(pt)+16))
	sb.WriteString("|mu=")
	for i, sp := range splitMuts(f[12]) {
		if i > 0 {
			sb.WriteString(",")
		}
		c2, i2, k2 := applyMut(sp, tc, info, sk)
		d := p.dec
		if !bytes.Equal(k2, sk) {
			p2, _ := hpkeSetup(suite, id, k2)
			if p2 == nil {
				sb.WriteString("nokey")
				continue
			}
			d = p2.dec
		}
		sb.WriteString(res(d.Decrypt(c2, i2)))
	}
	return sb.String()
}

// runVector: RFC 9180 test vector line; Tink contributes the public key it
// derives from skRm, the rest are the RFC's constants (the model recomputes all).
func runVector(f []string) string {
	if len(f) != 11 {
		return "badline"
	}
	p, fail := hpkeSetup(f[2]+".N", 0, hx.UH(f[5]))
	if p == nil {
		return fail
	}
	return "pk=" + hx.H(p.pub.PublicKeyBytes()) + "|enc=" + f[7] + "|ss=" + f[8] + "|ss2=" + f[8] + "|key=" + f[9] + "|bn=" + f[10]
}
