// Package c06 is the harness of property C06: hybrid encryption (HPKE as in
// RFC 9180 base mode, ECIES-AEAD-HKDF) round-trips, binds the context info
// and interoperates with an independent implementation (the extracted Coq
// model over stdlib oracles).
//
// A case line is self-contained.  Fields are separated by '|':
//
//	C06|H|<kem>.<kdf>.<aead>.<variant>|<id>|<sk>|<info>|<pt>|<tc>|<eph>|<mc>|<ft>|<feph>|<muts>
//	C06|E|<curve>.<hash>.<format>.<dem>.<variant>|<id>|<sk>|<salt>|<info>|<pt>|<tc>|<eph>|<iv>|<mc>|<ft>|<feph>|<fiv>|<muts>
//
//	id    key id (decimal); sk recipient private key bytes; info, pt hex
//	tc    a ciphertext Tink's Encrypt produced for (pk, pt, info) at generation time
//	eph   ephemeral secret for the model's own encryption (DHKEM/ECIES: private
//	      scalar; ML-KEM: the KEM ciphertext standing in for the coins - the
//	      stdlib has no derandomised encapsulation; X-Wing: ekX || ML-KEM ct)
//	iv    DEM IV for the model's own ECIES encryption
//	mc    the model's ciphertext for (pk, eph[, iv], pt, info), computed by the
//	      extracted model at generation time ("?" = not available)
//	ft    randomness tape for a fresh Tink encryption inside Run, feph/fiv the
//	      ephemeral scalar / IV that tape yields ("?" = suite not deterministic)
//	muts  ';'-separated mutations of (tc, info, sk):  f<i>.<xx> xor byte i,
//	      t<n> truncate to n, a<hex> append, P<hex> prepend, d<n> drop n leading
//	      bytes, r<off>.<hex> overwrite at off, i<hex> other info, k<hex> other
//	      private key, n<hex> the negated private key n-d (NIST curves), z empty
//	      ciphertext
//
// Observation (both sides print the same canonical string):
//
//	pk=<hex>|d=<res>|re=<hex>|mc=<hex>|md=<res>|fe=<hex>|rt=ok|mu=<res>,<res>,...
//
// d: Decrypt(tc, info); re: the ciphertext recomputed from (sk, enc parsed out
// of tc, info, pt) - Tink side: tc itself; mc/md: the model's ciphertext and
// what Decrypt makes of it; fe: fresh Encrypt under the tape ft - model side:
// its own encryption with feph; rt: fresh round trip through the keyset
// factory; mu: Decrypt of every mutant.  <res> is ok:<hex> or err.
// "nokey" / "noprim" when the key / the primitive cannot be created.
//
// RFC 9180 test vectors (corpus):
//
//	C06|V|<kem>.<kdf>.<aead>|<skEm>|<pkRm>|<skRm>|<info>|<enc>|<shared_secret>|<key>|<base_nonce>
//
// observation pk=<public key Tink derives from skRm>|enc|ss|ss2|key|bn with the
// constants of the RFC; the model computes all of them from (skEm, pkRm, skRm, info).
package c06

import (
	"bytes"
	"fmt"
	"strconv"
	"strings"

	"github.com/tink-crypto/tink-go/v2/verifharness/hx"
)

func init() {
	hx.Register("C06", &hx.Prop{Gen: gen, Run: run, Check: check, Class: class})
}

func res(p []byte, err error) string {
	if err != nil {
		return "err"
	}
	return "ok:" + hx.H(p)
}

// mutation applied to (ciphertext, info, private key); returns the kind letter
func applyMut(spec string, ct, info, sk []byte) ([]byte, []byte, []byte) {
	ct = append([]byte{}, ct...)
	if spec == "" {
		return ct, info, sk
	}
	arg := spec[1:]
	switch spec[0] {
	case 'f':
		p := strings.SplitN(arg, ".", 2)
		i, _ := strconv.Atoi(p[0])
		m, _ := strconv.ParseUint(p[1], 16, 8)
		if i < len(ct) {
			ct[i] ^= byte(m)
		}
	case 't':
		n, _ := strconv.Atoi(arg)
		if n < len(ct) {
			ct = ct[:n]
		}
	case 'a':
		ct = append(ct, hx.UH(arg)...)
	case 'P':
		ct = append(append([]byte{}, hx.UH(arg)...), ct...)
	case 'd':
		n, _ := strconv.Atoi(arg)
		if n > len(ct) {
			n = len(ct)
		}
		ct = ct[n:]
	case 'r':
		p := strings.SplitN(arg, ".", 2)
		off, _ := strconv.Atoi(p[0])
		b := hx.UH(p[1])
		for i := range b {
			if off+i < len(ct) {
				ct[off+i] = b[i]
			}
		}
	case 'i':
		info = hx.UH(arg)
	case 'k', 'n':
		sk = hx.UH(arg)
	case 'z':
		ct = []byte{}
	}
	return ct, info, sk
}

func splitMuts(s string) []string {
	if s == "" || s == "-" {
		return nil
	}
	return strings.Split(s, ";")
}

func run(in string) string {
	f := strings.Split(in, "|")
	if len(f) < 3 || f[0] != "C06" {
		return "badline"
	}
	switch f[1] {
	case "H":
		return runHPKE(f)
	case "E":
		return runECIES(f)
	case "V":
		return runVector(f)
	}
	return "badline"
}

// parsed view of an observation
func obsMap(obs string) map[string]string {
	m := map[string]string{}
	for _, p := range strings.Split(obs, "|") {
		if i := strings.IndexByte(p, '='); i > 0 {
			m[p[:i]] = p[i+1:]
		}
	}
	return m
}

// check is the direct property oracle (needs no model): round trip, every
// effective mutation rejected, fresh round trip fine, never a panic.
func check(in, obs string) string {
	if strings.HasPrefix(obs, "PANIC") {
		return "panic: " + obs
	}
	f := strings.Split(in, "|")
	if obs == "nokey" || obs == "noprim" || obs == "badline" {
		return ""
	}
	if f[1] == "V" {
		if m := obsMap(obs); m["pk"] != f[4] {
			return "RFC 9180 vector: public key of skRm is " + short(m["pk"]) + ", RFC says " + short(f[4])
		}
		return ""
	}
	var sk, info, pt, tc []byte
	var muts []string
	switch f[1] {
	case "H":
		sk, info, pt, tc = hx.UH(f[4]), hx.UH(f[5]), hx.UH(f[6]), hx.UH(f[7])
		muts = splitMuts(f[12])
	case "E":
		sk, info, pt, tc = hx.UH(f[4]), hx.UH(f[6]), hx.UH(f[7]), hx.UH(f[8])
		muts = splitMuts(f[15])
	}
	m := obsMap(obs)
	want := "ok:" + hx.H(pt)
	if m["d"] != want {
		return fmt.Sprintf("round trip: Decrypt(Encrypt(pt,info),info) = %s, plaintext %s (%s)", short(m["d"]), short(hx.H(pt)), f[2])
	}
	if m["md"] != "skip" && m["md"] != want {
		return fmt.Sprintf("interop: Decrypt of the independent implementation's ciphertext = %s, plaintext %s (%s)", short(m["md"]), short(hx.H(pt)), f[2])
	}
	if m["rt"] != "ok" {
		return fmt.Sprintf("fresh round trip through the keyset factory: %s (%s)", m["rt"], f[2])
	}
	if fd, ok := m["fd"]; ok && fd != want {
		return fmt.Sprintf("round trip of a fresh encryption under the tape: %s (%s)", short(fd), f[2])
	}
	rs := strings.Split(m["mu"], ",")
	known := ""
	for i, sp := range muts {
		if i >= len(rs) {
			return "mutation results missing"
		}
		c2, i2, k2 := applyMut(sp, tc, info, sk)
		changed := !bytes.Equal(c2, tc) || !bytes.Equal(i2, info) || !bytes.Equal(k2, sk)
		if changed && rs[i] != "err" {
			// ECIES-AEAD-HKDF under the negated private key n-d (and nothing else changed):
			// the DEM key is HKDF(kem || x(d*P)) and x((n-d)*P) = x(d*P), the recipient
			// public key is not bound - recorded finding, reported under its marker.  Any
			// other accepted foreign key, or another plaintext, is a plain violation.
			if f[1] == "E" && sp[0] == 'n' && rs[i] == want && bytes.Equal(c2, tc) && bytes.Equal(i2, info) &&
				bytes.Equal(k2, negScalar(strings.Split(f[2], ".")[0], sk)) {
				known = fmt.Sprintf("ecies negated private key accepted: Decrypt with n-d returns the plaintext (%s)", f[2])
				continue
			}
			return fmt.Sprintf("mutation %c accepted: Decrypt = %s (%s, mutation %s)", sp[0], short(rs[i]), f[2], short(sp))
		}
		if !changed && rs[i] != want {
			return fmt.Sprintf("identity mutation not accepted (%s)", f[2])
		}
	}
	return known
}

func short(s string) string {
	if len(s) > 40 {
		return s[:40] + "..."
	}
	return s
}

func lenClass(n int) string {
	switch {
	case n == 0:
		return "0"
	case n < 16:
		return "s"
	case n < 64:
		return "m"
	}
	return "l"
}

func class(in, obs string) string {
	f := strings.Split(in, "|")
	if len(f) < 8 {
		return ""
	}
	if obs == "nokey" || obs == "noprim" {
		return f[1] + ":" + f[2] + ":" + obs
	}
	if f[1] == "V" {
		return "V:" + f[2]
	}
	var info, pt []byte
	var muts []string
	switch f[1] {
	case "H":
		info, pt, muts = hx.UH(f[5]), hx.UH(f[6]), splitMuts(f[12])
	case "E":
		info, pt, muts = hx.UH(f[6]), hx.UH(f[7]), splitMuts(f[15])
	default:
		return ""
	}
	_ = muts
	return f[1] + ":" + f[2] + ":p" + lenClass(len(pt)) + ":i" + lenClass(len(info))
}
