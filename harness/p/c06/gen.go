package c06

import (
	"bytes"
	"crypto/ecdh"
	"crypto/elliptic"
	"crypto/mlkem"
	"fmt"
	"math/big"
	"os"
	"os/exec"
	"path/filepath"
	"strings"

	"github.com/tink-crypto/tink-go/v2/verifharness/hx"
)

var (
	kemNames  = []string{"p256", "p384", "p521", "x25519", "mlkem768", "mlkem1024", "xwing"}
	kdfNames  = []string{"sha256", "sha384", "sha512"}
	aeadNames = []string{"a128", "a256", "chacha"}
	varNames  = []string{"T", "C", "N"}
	ptLens    = []int{0, 0, 1, 7, 15, 16, 17, 31, 32, 33, 48, 64, 100, 255, 256, 500}
	infoLens  = []int{0, 0, 0, 1, 5, 16, 31, 32, 33, 64, 100, 300}
)

func ecdhCurve(name string) ecdh.Curve {
	switch name {
	case "p256":
		return ecdh.P256()
	case "p384":
		return ecdh.P384()
	case "p521":
		return ecdh.P521()
	case "x25519":
		return ecdh.X25519()
	}
	return nil
}

var scalarLen = map[string]int{"p256": 32, "p384": 48, "p521": 66, "x25519": 32}

// a valid private scalar drawn from the rng
func validScalar(r *hx.Rng, curve string) []byte {
	c, n := ecdhCurve(curve), scalarLen[curve]
	for {
		b := r.Bytes(n)
		if n == 66 {
			b[0] &= 1
		}
		if _, err := c.NewPrivateKey(b); err == nil {
			return b
		}
	}
}

func pubOfScalar(curve string, sk []byte) []byte {
	k, err := ecdhCurve(curve).NewPrivateKey(sk)
	if err != nil {
		panic(err)
	}
	return k.PublicKey().Bytes()
}

// negY returns the uncompressed encoding of -P for the uncompressed point P:
// a valid point with the same x coordinate (hence the same ECDH output).
func negY(curve string, pt []byte) []byte {
	var c elliptic.Curve
	switch curve {
	case "p256":
		c = elliptic.P256()
	case "p384":
		c = elliptic.P384()
	default:
		c = elliptic.P521()
	}
	n := (len(pt) - 1) / 2
	y := new(big.Int).SetBytes(pt[1+n:])
	y.Sub(c.Params().P, y)
	out := append([]byte{}, pt[:1+n]...)
	return append(out, y.FillBytes(make([]byte, n))...)
}

// negScalar returns n - sk (big endian, same width) for a private scalar of a
// NIST curve: another private key (public key -Q) with the same ECDH x coordinate.
func negScalar(curve string, sk []byte) []byte {
	var c elliptic.Curve
	switch curve {
	case "p256":
		c = elliptic.P256()
	case "p384":
		c = elliptic.P384()
	case "p521":
		c = elliptic.P521()
	default:
		return nil
	}
	d := new(big.Int).SetBytes(sk)
	if d.Sign() == 0 || d.Cmp(c.Params().N) >= 0 {
		return nil
	}
	return new(big.Int).Sub(c.Params().N, d).FillBytes(make([]byte, len(sk)))
}

// X25519 public values of small order (X25519 rejects them: all-zero output)
var x25519LowOrder = []string{
	"0000000000000000000000000000000000000000000000000000000000000000",
	"0100000000000000000000000000000000000000000000000000000000000000",
	"e0eb7a7c3b41b8ae1656e3faf19fc46ada098deb9c32b1fd866205165f49b800",
	"5f9c95bca3508c24b1d0b1559c83ef5b04445cc4581c8e86d8224eddd09f1157",
	"ecffffffffffffffffffffffffffffffffffffffffffffffffffffffffffff7f",
}

func hpkeValidSK(r *hx.Rng, kem string) []byte {
	switch kem {
	case "mlkem768", "mlkem1024":
		return r.Bytes(64)
	case "xwing":
		return r.Bytes(32)
	}
	return validScalar(r, kem)
}

func hpkeInvalidSK(r *hx.Rng, kem string) []byte {
	n := map[string]int{"p256": 32, "p384": 48, "p521": 66, "x25519": 32, "mlkem768": 64, "mlkem1024": 64, "xwing": 32}[kem]
	switch r.Intn(4) {
	case 0:
		return r.Bytes(n - 1)
	case 1:
		return r.Bytes(n + 1)
	case 2:
		if kem == "p256" || kem == "p384" || kem == "p521" {
			return make([]byte, n) // zero scalar
		}
		return []byte{}
	default:
		if kem == "p256" || kem == "p384" || kem == "p521" {
			return bytes.Repeat([]byte{0xff}, n) // >= group order
		}
		return r.Bytes(n / 2)
	}
}

func randID(r *hx.Rng, v string) uint32 {
	if v == "N" {
		return 0
	}
	switch r.Intn(8) {
	case 0:
		return 0
	case 1:
		return 0xffffffff
	case 2:
		return uint32(r.Intn(256))
	}
	return uint32(r.U64())
}

// mutations of a ciphertext with layout prefix(np) || header(nh) || payload
//
// Every line carries one directed mutation per binding clause of the property
// (encapsulated key / KEM bytes, context info, payload, tag, prefix when there
// is one, another private key of the same KEM family; negKey, when given, is
// the negated private key n-d), followed by random ones.
func genMuts(r *hx.Rng, tc, info []byte, np, nh int, otherSK func() []byte, otherHeader func() []byte, negKey []byte) string {
	n := len(tc)
	var ms []string
	flip := func(lo, hi int) {
		if hi > n {
			hi = n
		}
		if hi > lo {
			ms = append(ms, fmt.Sprintf("f%d.%02x", lo+r.Intn(hi-lo), 1<<uint(r.Intn(8))))
		}
	}
	cuts := []int{0, 1, np - 1, np, np + 1, np + nh - 1, np + nh, np + nh + 1, np + nh + 15, np + nh + 16, n - 17, n - 16, n - 1}
	// always: the most significant bit of the last byte of the encapsulated key (for X25519
	// and X-Wing the bit the Diffie-Hellman function itself ignores), and of its first byte
	if nh > 0 && np+nh <= n {
		ms = append(ms, fmt.Sprintf("f%d.80", np+nh-1), fmt.Sprintf("f%d.80", np))
	}
	// directed: info, payload, tag, prefix, other private key
	{
		i2 := append(append([]byte{}, info...), byte(r.Intn(256)))
		if len(info) > 0 && r.Bool() {
			i2 = append([]byte{}, info...)
			i2[r.Intn(len(i2))] ^= byte(1 << uint(r.Intn(8)))
		}
		ms = append(ms, "i"+hx.H(i2))
	}
	flip(np+nh, n-16)
	flip(n-16, n)
	if np > 0 {
		p := append([]byte{}, tc[:np]...)
		if r.Bool() {
			p[0] ^= 1
		} else {
			p[1+r.Intn(4)] ^= byte(1 + r.Intn(255))
		}
		ms = append(ms, "r0."+hx.H(p))
	}
	if otherSK != nil {
		ms = append(ms, "k"+hx.H(otherSK()))
	}
	if negKey != nil {
		ms = append(ms, "n"+hx.H(negKey))
	}
	k := len(ms) + 3 + r.Intn(3)
	for len(ms) < k {
		switch r.Intn(14) {
		case 0:
			flip(0, np) // prefix
		case 1:
			flip(np, np+nh) // encapsulated key
		case 2:
			flip(np+nh, n-16) // payload
		case 3:
			flip(n-16, n) // tag
		case 4, 5:
			c := cuts[r.Intn(len(cuts))]
			if c >= 0 && c < n {
				ms = append(ms, fmt.Sprintf("t%d", c))
			}
		case 6:
			ms = append(ms, "a"+hx.H(r.Bytes(1+r.Intn(3))))
		case 7:
			if np == 0 {
				ms = append(ms, "P"+hx.H(append([]byte{byte(r.Intn(2))}, r.Bytes(4)...)))
			} else {
				ms = append(ms, fmt.Sprintf("d%d", np))
			}
		case 8:
			if np > 0 { // other key id / other start byte, rest untouched
				p := append([]byte{}, tc[:np]...)
				if r.Bool() {
					p[0] ^= 1
				} else {
					p[1+r.Intn(4)] ^= byte(1 + r.Intn(255))
				}
				ms = append(ms, "r0."+hx.H(p))
			}
		case 9, 10:
			var i2 []byte
			switch r.Intn(4) {
			case 0:
				i2 = append(append([]byte{}, info...), byte(r.Intn(256)))
			case 1:
				if len(info) > 0 {
					i2 = info[:len(info)-1]
				} else {
					i2 = []byte{0}
				}
			case 2:
				if len(info) > 0 {
					i2 = append([]byte{}, info...)
					i2[r.Intn(len(i2))] ^= byte(1 << uint(r.Intn(8)))
				} else {
					i2 = r.Bytes(16)
				}
			default:
				i2 = r.Bytes(r.Intn(40))
				if bytes.Equal(i2, info) {
					i2 = append(i2, 1)
				}
			}
			ms = append(ms, "i"+hx.H(i2))
		case 11:
			if otherSK != nil {
				ms = append(ms, "k"+hx.H(otherSK()))
			}
		case 12:
			if otherHeader != nil {
				if h := otherHeader(); h != nil && !bytes.Equal(h, tc[np:np+nh]) {
					ms = append(ms, fmt.Sprintf("r%d.%s", np, hx.H(h)))
				}
			}
		case 13:
			if r.Chance(30) {
				ms = append(ms, "z")
			}
		}
	}
	return strings.Join(ms, ";")
}

func genHPKE(r *hx.Rng, suite string) string {
	s := strings.Split(suite, ".")
	kem, v := s[0], s[3]
	id := randID(r, v)
	info := r.Bytes(hx.PickS(r, infoLens))
	pt := r.Bytes(hx.PickS(r, ptLens))
	if r.Chance(3) {
		sk := hpkeInvalidSK(r, kem)
		return fmt.Sprintf("C06|H|%s|%d|%s|%s|%s|-|-|?|?|?|-", suite, id, hx.H(sk), hx.H(info), hx.H(pt))
	}
	sk := hpkeValidSK(r, kem)
	p, fail := hpkeSetup(suite, id, sk)
	if p == nil {
		panic("hpke setup failed for a valid key: " + fail + " " + suite)
	}
	pk := p.pub.PublicKeyBytes()
	// Tink's own encryption, under a tape
	var tc []byte
	var err error
	hx.WithTape(&hx.Tape{Bulk: r.Bytes(256)}, func() { tc, err = p.enc.Encrypt(pt, info) })
	if err != nil {
		panic(err)
	}
	// ephemeral material for the model's encryption; tape for the fresh deterministic encryption
	var eph []byte
	ft, feph := "?", "?"
	mlct := func(which string, ek []byte) []byte {
		if r.Chance(25) { // any string of the right length is a (implicitly rejected) ML-KEM ciphertext
			if which == "mlkem1024" {
				return r.Bytes(1568)
			}
			return r.Bytes(1088)
		}
		if which == "mlkem1024" {
			k, err := mlkem.NewEncapsulationKey1024(ek)
			if err != nil {
				panic(err)
			}
			_, ct := k.Encapsulate()
			return ct
		}
		k, err := mlkem.NewEncapsulationKey768(ek)
		if err != nil {
			panic(err)
		}
		_, ct := k.Encapsulate()
		return ct
	}
	var otherHeader func() []byte
	switch kem {
	case "mlkem768", "mlkem1024":
		eph = mlct(kem, pk)
		otherHeader = func() []byte { return mlct(kem, pk) }
	case "xwing":
		eph = append(r.Bytes(32), mlct("mlkem768", pk[:1184])...)
		otherHeader = func() []byte {
			if r.Chance(30) { // genuine ML-KEM part, small-order X25519 part
				return append(append([]byte{}, tc[len(p.priv.OutputPrefix()):len(p.priv.OutputPrefix())+1088]...), hx.UH(hx.PickS(r, x25519LowOrder))...)
			}
			return append(mlct("mlkem768", pk[:1184]), pubOfScalar("x25519", r.Bytes(32))...)
		}
	case "x25519":
		eph = r.Bytes(32)
		t := r.Bytes(64)
		ft, feph = hx.H(t), hx.H(t[:32])
		otherHeader = func() []byte {
			if r.Chance(40) {
				return hx.UH(hx.PickS(r, x25519LowOrder))
			}
			return pubOfScalar("x25519", r.Bytes(32))
		}
	default:
		eph = validScalar(r, kem)
		// constant-byte tape: the scalar drawn by ecdh.GenerateKey does not depend
		// on whether randutil.MaybeReadByte consumed a byte
		t := bytes.Repeat([]byte{byte(1 + r.Intn(254))}, 512)
		k, err := ecdhCurve(kem).GenerateKey(&hx.Tape{Bulk: append([]byte{}, t...)})
		if err == nil {
			ft, feph = hx.H(t), hx.H(k.Bytes())
		}
		otherHeader = func() []byte {
			np := len(p.priv.OutputPrefix())
			switch r.Intn(4) {
			case 0: // -enc: same ECDH x coordinate, another encapsulated key
				return negY(kem, tc[np:np+hpkeNenc[kem]])
			case 1: // not on the curve
				b := append([]byte{4}, r.Bytes(hpkeNenc[kem]-1)...)
				if kem == "p521" {
					b[1] &= 1
					b[1+66] &= 1
				}
				return b
			}
			return pubOfScalar(kem, validScalar(r, kem))
		}
	}
	// DHKEM over a NIST curve: the negated private key has the same ECDH x coordinate but
	// another public key, which is part of the KEM context: must be rejected
	muts := genMuts(r, tc, info, len(p.priv.OutputPrefix()), hpkeNenc[kem], func() []byte { return hpkeValidSK(r, kem) }, otherHeader, negScalar(kem, sk))
	return fmt.Sprintf("C06|H|%s|%d|%s|%s|%s|%s|%s|!|%s|%s|%s", suite, id, hx.H(sk), hx.H(info), hx.H(pt), hx.H(tc), hx.H(eph), ft, feph, muts)
}

// fillModelCiphertexts asks the extracted model (built next to this binary)
// for its own encryption of every line whose mc field is "!".
func fillModelCiphertexts(lines []string) []string {
	idx := func(l string) int {
		if strings.HasPrefix(l, "C06|H|") {
			return 9
		}
		return 11
	}
	set := func(l string, v string) string {
		f := strings.Split(l, "|")
		f[idx(l)] = v
		return strings.Join(f, "|")
	}
	var req []int
	for i, l := range lines {
		f := strings.Split(l, "|")
		if len(f) > idx(l) && f[idx(l)] == "!" {
			req = append(req, i)
		}
	}
	if len(req) == 0 {
		return lines
	}
	fail := func() []string {
		for _, i := range req {
			lines[i] = set(lines[i], "?")
		}
		return lines
	}
	exe, err := os.Executable()
	if err != nil {
		return fail()
	}
	dir := filepath.Dir(exe)
	model, oracle := filepath.Join(dir, "model_c06"), filepath.Join(dir, "oracle")
	if os.Getenv("C06_MODEL") != "" {
		model = os.Getenv("C06_MODEL")
	}
	if os.Getenv("C06_ORACLE") != "" {
		oracle = os.Getenv("C06_ORACLE")
	}
	if _, err := os.Stat(model); err != nil {
		return fail()
	}
	tmp, err := os.CreateTemp("", "c06req")
	if err != nil {
		return fail()
	}
	defer os.Remove(tmp.Name())
	for _, i := range req {
		fmt.Fprintln(tmp, lines[i])
	}
	tmp.Close()
	out, err := exec.Command(model, tmp.Name(), oracle).Output()
	if err != nil {
		return fail()
	}
	rs := strings.Split(strings.TrimRight(string(out), "\n"), "\n")
	if len(rs) != len(req) {
		return fail()
	}
	for j, i := range req {
		if strings.HasPrefix(rs[j], "mc=") && !strings.ContainsAny(rs[j][3:], "|? ") {
			lines[i] = set(lines[i], rs[j][3:])
		} else {
			lines[i] = set(lines[i], "?")
		}
	}
	return lines
}

func gen(r *hx.Rng, n int, tier string) []string {
	var hs []string
	for _, k := range kemNames {
		for _, d := range kdfNames {
			for _, a := range aeadNames {
				for _, v := range varNames {
					hs = append(hs, k+"."+d+"."+a+"."+v)
				}
			}
		}
	}
	// shuffle so that any prefix of the run spreads over the suites
	for i := len(hs) - 1; i > 0; i-- {
		j := r.Intn(i + 1)
		hs[i], hs[j] = hs[j], hs[i]
	}
	es := eciesSuites(r)
	var lines []string
	hi, ei := 0, 0
	for i := 0; i < n; i++ {
		if i%5 < 3 || len(es) == 0 {
			lines = append(lines, genHPKE(r, hs[hi%len(hs)]))
			hi++
		} else {
			lines = append(lines, genECIES(r, es[ei%len(es)]))
			ei++
		}
	}
	return fillModelCiphertexts(lines)
}
