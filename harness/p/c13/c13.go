// Package c13: secret key material leaves a handle only via insecure or
// encrypted paths (property C13).
//
// Case line:  S|<bin>|<bin2 or ->|<kek>|<ad>|<tape>|<label>
//
//	bin   a serialized Keyset (valid keys from the C14 key bank, every position
//	      and material label of the secret key)
//	bin2  the same keyset with other key bytes (same metadata), or "-"
//	kek   AES-GCM key-encryption key, ad associated data
//	tape  bytes served to crypto/rand (the IVs of the two encrypted writes)
//
// Writer-history case line (one *keyset.BinaryWriter and one *keyset.JSONWriter
// used for several writes over a buffer that is Reset() in between):
//
//	W|<kek>|<ad>|<tape>|<ops>|<bin1>|<bin2>|<bin3>|<label>
//
//	ops   2-4 of C<i> (insecurecleartextkeyset.Write of handle i), E<i> (Handle.Write),
//	      A<i> (Handle.WriteWithAssociatedData), N<i> (Handle.WriteWithNoSecrets), e.g. C1,E2,A2,N3
//	Observation: W|c:<ok|err>,..|o:<ok:hex|err>;...  (bytes the shared binary writer emitted per write)
//
// Observation ("U" when the keyset holds the one key type whose parser the
// shared model does not transcribe, the PRF-based deriver):
//
//	c:<ok|err>            insecurecleartextkeyset.Read
//	n: rn: rj:            keyset.NewHandleWithNoSecrets, ReadWithNoSecrets (binary, JSON)
//	w:<ok:hex|err>        Handle.WriteWithNoSecrets (binary writer)
//	info:<...>            Handle.KeysetInfo(), canonical
//	same:<1|0|->          KeysetInfo()/String() of bin2's handle equal to bin's
//	enc:<hex>             Handle.WriteWithAssociatedData through the binary writer
//	jenc:<hex> jinfo:<..> the same through the JSON writer (ciphertext, keyset info)
//	rd:<ok=|ok!|err>      reading enc back with the same kek/ad (= : same KeysetInfo)
//	wk: wa:               reading enc with another kek / other associated data
package c13

import (
	"bytes"
	"encoding/base64"
	"encoding/json"
	"fmt"
	"sort"
	"strings"

	"github.com/tink-crypto/tink-go/v2/insecurecleartextkeyset"
	"github.com/tink-crypto/tink-go/v2/keyset"
	"github.com/tink-crypto/tink-go/v2/verifharness/hx"
	"github.com/tink-crypto/tink-go/v2/verifharness/p/c14"
	"google.golang.org/protobuf/encoding/protowire"
	"google.golang.org/protobuf/proto"

	cmacpb "github.com/tink-crypto/tink-go/v2/proto/aes_cmac_go_proto"
	cmacprfpb "github.com/tink-crypto/tink-go/v2/proto/aes_cmac_prf_go_proto"
	ctrhmacpb "github.com/tink-crypto/tink-go/v2/proto/aes_ctr_hmac_aead_go_proto"
	ctrhmacstreampb "github.com/tink-crypto/tink-go/v2/proto/aes_ctr_hmac_streaming_go_proto"
	gcmpb "github.com/tink-crypto/tink-go/v2/proto/aes_gcm_go_proto"
	gcmhkdfpb "github.com/tink-crypto/tink-go/v2/proto/aes_gcm_hkdf_streaming_go_proto"
	gcmsivpb "github.com/tink-crypto/tink-go/v2/proto/aes_gcm_siv_go_proto"
	sivpb "github.com/tink-crypto/tink-go/v2/proto/aes_siv_go_proto"
	chachapb "github.com/tink-crypto/tink-go/v2/proto/chacha20_poly1305_go_proto"
	comppb "github.com/tink-crypto/tink-go/v2/proto/composite_ml_dsa_go_proto"
	hkdfprfpb "github.com/tink-crypto/tink-go/v2/proto/hkdf_prf_go_proto"
	hmacpb "github.com/tink-crypto/tink-go/v2/proto/hmac_go_proto"
	hmacprfpb "github.com/tink-crypto/tink-go/v2/proto/hmac_prf_go_proto"
	jwthmacpb "github.com/tink-crypto/tink-go/v2/proto/jwt_hmac_go_proto"
	tinkpb "github.com/tink-crypto/tink-go/v2/proto/tink_go_proto"
	xaesgcmpb "github.com/tink-crypto/tink-go/v2/proto/x_aes_gcm_go_proto"
	xchachapb "github.com/tink-crypto/tink-go/v2/proto/xchacha20_poly1305_go_proto"
)

const tp = c14.TypePrefix

// unmodelled5: the registered key types whose parser model/Untrusted.v does
// not transcribe (unmodelled_urls of coq/model/UntrustedConsts.v); every
// other registered type (37) and every unregistered URL is in C13's scope.
var unmodelled5 = map[string]bool{ // one left: its nested key TEMPLATE goes through every parameters parser
	tp + "PrfBasedDeriverKey": true,
}

// inScope: a registered key type whose parser the model transcribes.
func inScope(url string) bool {
	return (c14.Modelled(url) || c14.Unmodelled(url)) && !unmodelled5[url]
}

func anyUnmodelled5(ks *tinkpb.Keyset) bool {
	for _, k := range ks.GetKey() {
		if unmodelled5[k.GetKeyData().GetTypeUrl()] {
			return true
		}
	}
	return false
}

func okErr(err error) string {
	if err != nil {
		return "err"
	}
	return "ok"
}

// infoStr: the canonical text of a KeysetInfo message.
func infoStr(i *tinkpb.KeysetInfo) string {
	var sb strings.Builder
	fmt.Fprintf(&sb, "%d;", i.GetPrimaryKeyId())
	for _, k := range i.GetKeyInfo() {
		fmt.Fprintf(&sb, "[%s,%d,%d,%d]", hx.H([]byte(k.GetTypeUrl())), int32(k.GetStatus()), k.GetKeyId(), int32(k.GetOutputPrefixType()))
	}
	return sb.String()
}

type res struct {
	ks                 *tinkpb.Keyset
	h, h2              *keyset.Handle
	c, n, rn, rj       string
	w                  string
	wOut               []byte
	info, same         string
	str, str2          string
	enc, jenc          []byte // binary writer output; ciphertext inside the JSON writer output
	jraw               []byte
	jinfo              string
	jsonShapeViolation string
	rd, wk, wa         string
	rdH                *keyset.Handle
	u                  bool
	importViolation    string
}

// noSecretsHandle: a handle returned by a no-secrets reader can always be
// written by WriteWithNoSecrets and holds no key whose serializer writes
// symmetric, private or unknown material.
func (r *res) noSecretsHandle(h *keyset.Handle, err error, api string) {
	if err != nil || h == nil || r.importViolation != "" {
		return
	}
	var wb bytes.Buffer
	if werr := h.WriteWithNoSecrets(keyset.NewBinaryWriter(&wb)); werr != nil {
		r.importViolation = "nosecrets-import: " + api + " returned a handle that WriteWithNoSecrets refuses to write: " + werr.Error()
		return
	}
	for _, k := range insecurecleartextkeyset.KeysetMaterial(h).GetKey() {
		if m := k.GetKeyData().GetKeyMaterialType(); !freeOfSecrets(m) {
			r.importViolation = fmt.Sprintf("nosecrets-import: %s returned a handle holding a key (%s) whose serializer writes material type %v", api, k.GetKeyData().GetTypeUrl(), m)
			return
		}
	}
}

func flip(b []byte) []byte {
	c := append([]byte(nil), b...)
	c[len(c)-1] ^= 1
	return c
}

func execute(in string) *res {
	f := strings.Split(in, "|")
	bin, kek, ad, tape := hx.UH(f[1]), hx.UH(f[3]), hx.UH(f[4]), hx.UH(f[5])
	r := &res{same: "-", w: "-", rd: "-", wk: "-", wa: "-"}
	ks := &tinkpb.Keyset{}
	if err := proto.Unmarshal(bin, ks); err != nil {
		panic("C13 case with undecodable keyset")
	}
	r.ks = ks
	r.u = anyUnmodelled5(ks)
	h, err := insecurecleartextkeyset.Read(keyset.NewBinaryReader(bytes.NewReader(bin)))
	r.c, r.h = okErr(err), h
	hn, err := keyset.NewHandleWithNoSecrets(proto.Clone(ks).(*tinkpb.Keyset))
	r.n = okErr(err)
	r.noSecretsHandle(hn, err, "NewHandleWithNoSecrets")
	hn, err = keyset.ReadWithNoSecrets(keyset.NewBinaryReader(bytes.NewReader(bin)))
	r.rn = okErr(err)
	r.noSecretsHandle(hn, err, "ReadWithNoSecrets(binary)")
	hn, err = keyset.ReadWithNoSecrets(keyset.NewJSONReader(strings.NewReader(c14.JSONKeyset(ks))))
	r.rj = okErr(err)
	r.noSecretsHandle(hn, err, "ReadWithNoSecrets(json)")
	if r.c != "ok" {
		return r
	}
	var wb bytes.Buffer
	if err := h.WriteWithNoSecrets(keyset.NewBinaryWriter(&wb)); err != nil {
		r.w = "err"
	} else {
		r.w, r.wOut = "ok:"+hx.H(wb.Bytes()), wb.Bytes()
	}
	r.info = infoStr(h.KeysetInfo())
	r.str = h.String()
	if f[2] != "-" {
		h2, err := insecurecleartextkeyset.Read(keyset.NewBinaryReader(bytes.NewReader(hx.UH(f[2]))))
		if err != nil {
			r.same = "0"
		} else {
			r.h2, r.str2 = h2, h2.String()
			if infoStr(h2.KeysetInfo()) == r.info && r.str2 == r.str {
				r.same = "1"
			} else {
				r.same = "0"
			}
		}
	}
	a, err := c14.KekAEAD(kek)
	if err != nil {
		panic(err)
	}
	hx.WithTape(&hx.Tape{Bulk: tape}, func() {
		var eb, jb bytes.Buffer
		if err := h.WriteWithAssociatedData(keyset.NewBinaryWriter(&eb), a, ad); err == nil {
			r.enc = eb.Bytes()
		}
		if err := h.WriteWithAssociatedData(keyset.NewJSONWriter(&jb), a, ad); err == nil {
			r.jraw = jb.Bytes()
		}
	})
	if r.jraw != nil {
		var m map[string]json.RawMessage
		if json.Unmarshal(r.jraw, &m) != nil {
			r.jsonShapeViolation = "JSON writer output is not a JSON object"
		} else {
			for k := range m {
				if k != "encryptedKeyset" && k != "keysetInfo" {
					r.jsonShapeViolation = "JSON encrypted keyset has field " + k
				}
			}
			var s string
			if json.Unmarshal(m["encryptedKeyset"], &s) == nil {
				r.jenc, _ = base64.StdEncoding.DecodeString(s)
			}
			var info struct {
				PrimaryKeyId uint32                       `json:"primaryKeyId"`
				KeyInfo      []map[string]json.RawMessage `json:"keyInfo"`
			}
			var im map[string]json.RawMessage
			json.Unmarshal(m["keysetInfo"], &im)
			for k := range im {
				if k != "primaryKeyId" && k != "keyInfo" {
					r.jsonShapeViolation = "keysetInfo has field " + k
				}
			}
			json.Unmarshal(m["keysetInfo"], &info)
			for _, ki := range info.KeyInfo {
				for k := range ki {
					if k != "typeUrl" && k != "status" && k != "keyId" && k != "outputPrefixType" {
						r.jsonShapeViolation = "keyInfo has field " + k
					}
				}
			}
			// the JSON reader of the library maps the text back to the message
			ek, err := keyset.NewJSONReader(bytes.NewReader(r.jraw)).ReadEncrypted()
			if err == nil {
				r.jinfo = infoStr(ek.GetKeysetInfo())
				if !bytes.Equal(ek.GetEncryptedKeyset(), r.jenc) {
					r.jsonShapeViolation = "encryptedKeyset field mismatch"
				}
			} else {
				r.jsonShapeViolation = "JSON writer output not readable by the JSON reader"
			}
		}
	}
	if r.enc != nil {
		rh, err := keyset.ReadWithAssociatedData(keyset.NewBinaryReader(bytes.NewReader(r.enc)), a, ad)
		switch {
		case err != nil:
			r.rd = "err"
		case infoStr(rh.KeysetInfo()) == r.info:
			r.rd, r.rdH = "ok=", rh
		default:
			r.rd, r.rdH = "ok!", rh
		}
		a2, _ := c14.KekAEAD(flip(kek))
		_, err = keyset.ReadWithAssociatedData(keyset.NewBinaryReader(bytes.NewReader(r.enc)), a2, ad)
		r.wk = okErr(err)
		_, err = keyset.ReadWithAssociatedData(keyset.NewBinaryReader(bytes.NewReader(r.enc)), a, append(append([]byte(nil), ad...), 1))
		r.wa = okErr(err)
	}
	return r
}

func c13Run(in string) string {
	if strings.HasPrefix(in, "W|") {
		return runW(in).obs
	}
	r := execute(in)
	if r.u {
		return "U"
	}
	if r.c != "ok" {
		return fmt.Sprintf("c:%s|n:%s|rn:%s|rj:%s", r.c, r.n, r.rn, r.rj)
	}
	return fmt.Sprintf("c:%s|n:%s|rn:%s|rj:%s|w:%s|info:%s|same:%s|enc:%s|jenc:%s|jinfo:%s|rd:%s|wk:%s|wa:%s",
		r.c, r.n, r.rn, r.rj, r.w, r.info, r.same, hx.H(r.enc), hx.H(r.jenc), r.jinfo, r.rd, r.wk, r.wa)
}

// ---------------------------------------------------------------------------
// direct check
// ---------------------------------------------------------------------------

// trueMaterial: the material a key of this type holds, whatever its label.
func trueMaterial(url string, label tinkpb.KeyData_KeyMaterialType) tinkpb.KeyData_KeyMaterialType {
	return trueMaterialOf(url, nil, label)
}

// trueMaterialOf also looks INTO a composite ML-DSA public key: its classical
// slot holds the key data of another key type, and if that is a private key
// type the "public" key carries private key material (finding
// composite_public_key_carries_private_key: the parser accepts it).
func trueMaterialOf(url string, value []byte, label tinkpb.KeyData_KeyMaterialType) tinkpb.KeyData_KeyMaterialType {
	if url == tp+"CompositeMlDsaPublicKey" && value != nil {
		v := &comppb.CompositeMlDsaPublicKey{}
		if proto.Unmarshal(value, v) == nil {
			for _, kd := range []*tinkpb.KeyData{v.GetClassicalPublicKey(), v.GetMlDsaPublicKey()} {
				if strings.HasSuffix(kd.GetTypeUrl(), "PrivateKey") {
					return tinkpb.KeyData_ASYMMETRIC_PRIVATE
				}
			}
		}
	}
	if !c14.Modelled(url) && !c14.Unmodelled(url) {
		return label // no parser: the fallback key keeps the KeyData as it came
	}
	switch {
	case strings.HasSuffix(url, "PublicKey"):
		return tinkpb.KeyData_ASYMMETRIC_PUBLIC
	case strings.HasSuffix(url, "PrivateKey"):
		return tinkpb.KeyData_ASYMMETRIC_PRIVATE
	}
	return tinkpb.KeyData_SYMMETRIC
}

func freeOfSecrets(m tinkpb.KeyData_KeyMaterialType) bool {
	return m == tinkpb.KeyData_ASYMMETRIC_PUBLIC || m == tinkpb.KeyData_REMOTE
}

func urlish(w []byte) bool {
	for _, c := range w {
		if !(c >= 'a' && c <= 'z' || c >= 'A' && c <= 'Z' || c >= '0' && c <= '9' || c == '.' || c == '/' || c == '_' || c == '-') {
			return false
		}
	}
	return true
}

// leaks: some 8-byte window of a key value occurs in out (raw, or inside a
// base64 / hex rendering of it).
func leaks(out []byte, values [][]byte) string { return leaksExcept(out, values, nil) }

// leaksExcept: as leaks, ignoring windows that also occur in allowed (what the
// output legitimately holds, e.g. the public part a private key shares with
// the public key being written).
func leaksExcept(out []byte, values [][]byte, allowed []byte) string {
	forms := [][]byte{out}
	// every maximal base64-alphabet run, decoded
	run := []byte{}
	flush := func() {
		if len(run) >= 8 {
			for _, enc := range []*base64.Encoding{base64.StdEncoding, base64.RawStdEncoding, base64.URLEncoding, base64.RawURLEncoding} {
				if d, err := enc.DecodeString(string(run)); err == nil {
					forms = append(forms, d)
				}
			}
			if len(run)%2 == 0 {
				if d := tryHex(run); d != nil {
					forms = append(forms, d)
				}
			}
		}
		run = run[:0]
	}
	for _, c := range out {
		if c >= 'a' && c <= 'z' || c >= 'A' && c <= 'Z' || c >= '0' && c <= '9' || c == '+' || c == '/' || c == '-' || c == '_' || c == '=' {
			run = append(run, c)
		} else {
			flush()
		}
	}
	flush()
	for _, v := range values {
		mask := urlMask(v)
		for i := 0; i+8 <= len(v); i++ {
			w := v[i : i+8]
			masked := 0
			for j := i; j < i+8; j++ {
				if mask[j] {
					masked++
				}
			}
			if masked >= 4 || urlish(w) {
				continue // type URLs of nested key templates are metadata, not key material
			}
			if allowed != nil && bytes.Contains(allowed, w) {
				continue
			}
			for _, f := range forms {
				if bytes.Contains(f, w) {
					return fmt.Sprintf("window %x of a key value", w)
				}
			}
		}
	}
	return ""
}

// urlMask marks the bytes of v that belong to an embedded type URL string
// (with its two bytes of tag and length).
func urlMask(v []byte) []bool {
	mask := make([]bool, len(v))
	pat := []byte("type.googleapis.com/")
	for off := 0; ; {
		i := bytes.Index(v[off:], pat)
		if i < 0 {
			break
		}
		s := off + i
		e := s + len(pat)
		for e < len(v) && urlish(v[e:e+1]) {
			e++
		}
		for j := max(0, s-2); j < e; j++ {
			mask[j] = true
		}
		off = e
	}
	return mask
}

func tryHex(b []byte) []byte {
	out := make([]byte, len(b)/2)
	for i := range out {
		hi, lo := hexv(b[2*i]), hexv(b[2*i+1])
		if hi < 0 || lo < 0 {
			return nil
		}
		out[i] = byte(hi<<4 | lo)
	}
	return out
}
func hexv(c byte) int {
	switch {
	case c >= '0' && c <= '9':
		return int(c - '0')
	case c >= 'a' && c <= 'f':
		return int(c-'a') + 10
	case c >= 'A' && c <= 'F':
		return int(c-'A') + 10
	}
	return -1
}

func c13Check(in, obs string) string {
	if strings.HasPrefix(obs, "PANIC") {
		return obs
	}
	if strings.HasPrefix(in, "W|") {
		return checkW(in)
	}
	r := execute(in)
	labelSecret, trueSecret := false, false
	var values [][]byte
	for _, k := range r.ks.GetKey() {
		kd := k.GetKeyData()
		if !freeOfSecrets(kd.GetKeyMaterialType()) {
			labelSecret = true
		}
		if !freeOfSecrets(trueMaterialOf(kd.GetTypeUrl(), kd.GetValue(), kd.GetKeyMaterialType())) {
			trueSecret = true
		}
		values = append(values, kd.GetValue())
	}
	// the no-secrets import APIs: judged by the label AND by what the keys hold
	if r.importViolation != "" {
		return r.importViolation
	}
	for name, o := range map[string]string{"NewHandleWithNoSecrets": r.n, "ReadWithNoSecrets(binary)": r.rn, "ReadWithNoSecrets(json)": r.rj} {
		if labelSecret && o == "ok" {
			return "nosecrets-material: " + name + " returned a handle for a keyset whose key material type is not ASYMMETRIC_PUBLIC or REMOTE"
		}
		if trueSecret && o == "ok" {
			return "nosecrets-import: " + name + " returned a handle for a keyset holding symmetric or private key material (by key type) labelled public/remote"
		}
		if !labelSecret && !trueSecret && r.c == "ok" && o != "ok" {
			return name + " fails on a public/remote-only keyset that the cleartext reader accepts"
		}
	}
	if r.c != "ok" {
		return ""
	}
	// the no-secrets export
	if trueSecret && r.w != "err" {
		return "WriteWithNoSecrets wrote a keyset holding symmetric or private key material"
	}
	if !trueSecret && r.w == "err" {
		return "WriteWithNoSecrets refuses a keyset of public/remote keys"
	}
	// KeysetInfo / String hold no key bytes and do not depend on them
	infoBytes, _ := proto.Marshal(r.h.KeysetInfo())
	if l := leaks(infoBytes, values); l != "" {
		return "KeysetInfo() contains " + l
	}
	if l := leaks([]byte(r.str), values); l != "" {
		return "String() contains " + l
	}
	if r.same == "0" {
		return "KeysetInfo()/String() differ between keysets that differ only in key bytes"
	}
	// the encrypted form
	if r.enc == nil || r.jraw == nil {
		return "writing the encrypted keyset failed"
	}
	if l := leaks(r.enc, values); l != "" {
		return "binary encrypted keyset contains " + l
	}
	if l := leaks(r.jraw, values); l != "" {
		return "JSON encrypted keyset contains " + l
	}
	if r.jsonShapeViolation != "" {
		return r.jsonShapeViolation
	}
	// binary form: exactly one field, number 2
	b := r.enc
	num, typ, n := protowire.ConsumeTag(b)
	if n < 0 || num != 2 || typ != protowire.BytesType {
		return "binary encrypted keyset does not start with the ciphertext field"
	}
	_, m := protowire.ConsumeBytes(b[n:])
	if m < 0 || n+m != len(b) {
		return "binary encrypted keyset carries more than the ciphertext field"
	}
	if r.jinfo != r.info {
		return "keyset info beside the JSON ciphertext is not the handle's KeysetInfo"
	}
	if r.rd == "err" {
		return "the encrypted keyset cannot be read back with the same key and associated data"
	}
	if r.rd == "ok!" {
		return "the keyset read back differs in its metadata"
	}
	if r.rdH != nil {
		for i := 0; i < r.h.Len(); i++ {
			e1, _ := r.h.Entry(i)
			e2, err := r.rdH.Entry(i)
			if err != nil || !e1.Key().Equal(e2.Key()) {
				return fmt.Sprintf("key %d read back differs from the key written", i)
			}
		}
	}
	if r.wk != "err" {
		return "wrong-kek: the encrypted keyset is readable with another key-encryption key"
	}
	if r.wa != "err" {
		return "wrong-ad: the encrypted keyset is readable with other associated data"
	}
	return ""
}

func c13Class(in, obs string) string {
	f := strings.Split(in, "|")
	label := f[len(f)-1]
	o := "U"
	if strings.HasPrefix(in, "W|") {
		ops := f[4]
		st := "ok"
		if strings.Contains(obs, "err") {
			st = "haserr"
		}
		return "W:" + ops + ":" + st
	}
	if obs != "U" {
		p := strings.Split(obs, "|")
		o = strings.Join(p[:min(5, len(p))], "")
		if i := strings.Index(o, "w:ok:"); i >= 0 {
			o = o[:i] + "w:ok"
		}
	}
	return label + ":" + o
}

// ---------------------------------------------------------------------------
// writer history: one writer object, several writes
// ---------------------------------------------------------------------------

type wres struct {
	obs           string
	ks            []*tinkpb.Keyset
	ops           []string
	sharedB       [][]byte // nil = the write returned an error
	freshB        [][]byte
	sharedJ       [][]byte
	freshJ        [][]byte
	readable      bool
	kek, ad, tape []byte
}

// history runs the writes in order and returns what each emitted (nil = error).
// shared: ONE writer over ONE buffer, Reset() between writes; otherwise a
// fresh buffer and a fresh writer per write.
func history(hs []*keyset.Handle, ops []string, a interface {
	Encrypt(pt, ad []byte) ([]byte, error)
	Decrypt(ct, ad []byte) ([]byte, error)
}, ad, tape []byte, shared, js bool) [][]byte {
	out := make([][]byte, len(ops))
	hx.WithTape(&hx.Tape{Bulk: tape}, func() {
		buf := &bytes.Buffer{}
		mk := func(b *bytes.Buffer) keyset.Writer {
			if js {
				return keyset.NewJSONWriter(b)
			}
			return keyset.NewBinaryWriter(b)
		}
		w := mk(buf)
		for i, o := range ops {
			if shared {
				buf.Reset()
			} else {
				buf = &bytes.Buffer{}
				w = mk(buf)
			}
			h := hs[int(o[1]-'1')]
			var err error
			switch o[0] {
			case 'C':
				err = insecurecleartextkeyset.Write(h, w)
			case 'E':
				err = h.Write(w, a)
			case 'A':
				err = h.WriteWithAssociatedData(w, a, ad)
			case 'N':
				err = h.WriteWithNoSecrets(w)
			}
			if err == nil {
				out[i] = append([]byte{}, buf.Bytes()...)
			}
		}
	})
	return out
}

func runW(in string) *wres {
	f := strings.Split(in, "|")
	r := &wres{kek: hx.UH(f[1]), ad: hx.UH(f[2]), tape: hx.UH(f[3]), ops: strings.Split(f[4], ",")}
	var hs []*keyset.Handle
	var cs []string
	r.readable = true
	for _, b := range f[5:8] {
		bin := hx.UH(b)
		ks := &tinkpb.Keyset{}
		if err := proto.Unmarshal(bin, ks); err != nil {
			panic("C13 W case with undecodable keyset")
		}
		r.ks = append(r.ks, ks)
		h, err := insecurecleartextkeyset.Read(keyset.NewBinaryReader(bytes.NewReader(bin)))
		cs = append(cs, okErr(err))
		if err != nil {
			r.readable = false
		}
		hs = append(hs, h)
	}
	r.obs = "W|c:" + strings.Join(cs, ",")
	if !r.readable {
		return r
	}
	a, err := c14.KekAEAD(r.kek)
	if err != nil {
		panic(err)
	}
	r.sharedB = history(hs, r.ops, a, r.ad, r.tape, true, false)
	r.freshB = history(hs, r.ops, a, r.ad, r.tape, false, false)
	r.sharedJ = history(hs, r.ops, a, r.ad, r.tape, true, true)
	r.freshJ = history(hs, r.ops, a, r.ad, r.tape, false, true)
	var outs []string
	for _, b := range r.sharedB {
		if b == nil {
			outs = append(outs, "err")
		} else {
			outs = append(outs, "ok:"+hx.H(b))
		}
	}
	r.obs += "|o:" + strings.Join(outs, ";")
	return r
}

// checkW: what a write emits through a writer that was used before is
// byte-identical to what a fresh writer emits for it, and no encrypted or
// no-secrets output holds key bytes of any handle of the history.
func checkW(in string) string {
	r := runW(in)
	if !r.readable {
		return ""
	}
	var all, secret [][]byte
	for _, ks := range r.ks {
		for _, k := range ks.GetKey() {
			kd := k.GetKeyData()
			all = append(all, kd.GetValue())
			if !freeOfSecrets(trueMaterial(kd.GetTypeUrl(), kd.GetKeyMaterialType())) {
				secret = append(secret, kd.GetValue())
			}
		}
	}
	for i, o := range r.ops {
		for _, form := range []struct {
			name          string
			shared, fresh []byte
		}{{"binary", r.sharedB[i], r.freshB[i]}, {"JSON", r.sharedJ[i], r.freshJ[i]}} {
			if (form.shared == nil) != (form.fresh == nil) {
				return fmt.Sprintf("writer-history: write %d (%s, %s writer) fails or succeeds depending on what the writer wrote before", i, o, form.name)
			}
			if !bytes.Equal(form.shared, form.fresh) {
				return fmt.Sprintf("writer-history: write %d (%s) through a %s writer used before emits %d bytes, a fresh writer %d: output depends on earlier writes", i, o, form.name, len(form.shared), len(form.fresh))
			}
			if form.shared == nil {
				continue
			}
			switch o[0] {
			case 'E', 'A':
				if l := leaks(form.shared, all); l != "" {
					return fmt.Sprintf("writer-history: encrypted write %d (%s, %s) contains %s of the history", i, o, form.name, l)
				}
			case 'N':
				own, _ := proto.Marshal(r.ks[int(o[1]-'1')])
				if l := leaksExcept(form.shared, secret, own); l != "" {
					return fmt.Sprintf("writer-history: no-secrets write %d (%s, %s) contains %s of a secret key of the history", i, o, form.name, l)
				}
			}
		}
		if b := r.sharedB[i]; b != nil && (o[0] == 'E' || o[0] == 'A') {
			num, typ, n := protowire.ConsumeTag(b)
			if n < 0 || num != 2 || typ != protowire.BytesType {
				return "writer-history: binary encrypted keyset does not start with the ciphertext field"
			}
			_, m := protowire.ConsumeBytes(b[n:])
			if m < 0 || n+m != len(b) {
				return "writer-history: binary encrypted keyset carries more than the ciphertext field"
			}
		}
		if o[0] == 'N' && r.sharedB[i] != nil {
			// a no-secrets write that succeeds wrote a keyset without secret material
			ks := &tinkpb.Keyset{}
			if proto.Unmarshal(r.sharedB[i], ks) != nil {
				return "writer-history: WriteWithNoSecrets output is not a keyset"
			}
			for _, k := range ks.GetKey() {
				if !freeOfSecrets(k.GetKeyData().GetKeyMaterialType()) {
					return "writer-history: WriteWithNoSecrets output holds a key that is not public or remote"
				}
			}
		}
	}
	return ""
}

// genKeyset: a valid keyset of nk keys of the transcribed key types; secret =
// some key is symmetric or private, otherwise public/remote only.
func genKeyset(r *hx.Rng, ids []uint64, secret bool) *c14.MKeyset {
	nk := 1 + r.Intn(3)
	ks := &c14.MKeyset{}
	sp := r.Intn(nk)
	for i := 0; i < nk; i++ {
		st := hx.PickS(r, []uint64{1, 1, 1, 2, 3})
		var k c14.MKey
		switch {
		case secret && i == sp:
			k = fromBank(secPoolMod[r.Intn(len(secPoolMod))], ids[i], st)
		case r.Chance(25):
			k = remoteKey(r, ids[i], st)
		default:
			k = fromBank(pubPoolMod[r.Intn(len(pubPoolMod))], ids[i], st)
		}
		ks.Keys = append(ks.Keys, k)
	}
	p := r.Intn(nk)
	ks.Keys[p].Status = 1
	ks.Primary = ks.Keys[p].ID
	return ks
}

func genW(r *hx.Rng) string {
	ids := []uint64{1, 2, 3, 5, 7, 0x7fffffff, 0xffffffff, 65541, 9, 11}
	perm := append([]uint64(nil), ids...)
	for i := len(perm) - 1; i > 0; i-- {
		j := r.Intn(i + 1)
		perm[i], perm[j] = perm[j], perm[i]
	}
	k1 := genKeyset(r, perm[0:3], true)
	k2 := genKeyset(r, perm[3:6], r.Chance(70))
	k3 := genKeyset(r, perm[6:9], false)
	n := 2 + r.Intn(3)
	var ops []string
	for i := 0; i < n; i++ {
		switch {
		case i == 0 && r.Chance(60):
			ops = append(ops, "C1") // an earlier cleartext write of the secret handle
		default:
			ops = append(ops, hx.PickS(r, []string{"C1", "C2", "E1", "E2", "A2", "A1", "N3", "N3", "N1", "E3", "A3"}))
		}
	}
	kek := r.Bytes(hx.PickS(r, []int{16, 32}))
	ad := r.Bytes(hx.PickS(r, []int{0, 7, 16, 33}))
	tape := r.Bytes(48)
	return fmt.Sprintf("W|%s|%s|%s|%s|%s|%s|%s|history-%d", hx.H(kek), hx.H(ad), hx.H(tape), strings.Join(ops, ","),
		hx.H(k1.Marshal()), hx.H(k2.Marshal()), hx.H(k3.Marshal()), n)
}

// ---------------------------------------------------------------------------
// generator
// ---------------------------------------------------------------------------

var pubPool, secPool, pubPoolMod, secPoolMod, privPoolMod []c14.BankKey

func init() {
	for _, b := range c14.Bank() {
		m := b.Key.GetKeyData().GetKeyMaterialType()
		in := inScope(b.Key.GetKeyData().GetTypeUrl())
		if m == tinkpb.KeyData_ASYMMETRIC_PUBLIC {
			pubPool = append(pubPool, b)
			if in {
				pubPoolMod = append(pubPoolMod, b)
			}
		} else {
			secPool = append(secPool, b)
			if in {
				secPoolMod = append(secPoolMod, b)
			}
			if in && m == tinkpb.KeyData_ASYMMETRIC_PRIVATE {
				privPoolMod = append(privPoolMod, b)
			}
		}
	}
	hx.Register("C13", &hx.Prop{Gen: c13Gen, Run: c13Run, Check: c13Check, Class: c13Class})
}

func fromBank(b c14.BankKey, id, status uint64) c14.MKey {
	kd := b.Key.GetKeyData()
	return c14.MKey{URL: kd.GetTypeUrl(), Value: append([]byte(nil), kd.GetValue()...), Mat: uint64(kd.GetKeyMaterialType()),
		Status: status, ID: id, Prefix: uint64(b.Key.GetOutputPrefixType())}
}

func remoteKey(r *hx.Rng, id, status uint64) c14.MKey {
	return c14.MKey{URL: hx.PickS(r, []string{tp + "KmsAeadKey", tp + "KmsEnvelopeAeadKey", "type.googleapis.com/example.RemoteKey"}),
		Value: r.Bytes(12 + r.Intn(30)), Mat: 4, Status: status, ID: id, Prefix: hx.PickS(r, []uint64{1, 3})}
}

func mm(m proto.Message) []byte {
	b, err := proto.Marshal(m)
	if err != nil {
		panic(err)
	}
	return b
}

// rekey replaces the secret bytes of a symmetric key by others of the same
// length (same parameters, same metadata).
func rekey(r *hx.Rng, k *c14.MKey) bool {
	switch strings.TrimPrefix(k.URL, tp) {
	case "HmacKey":
		v := &hmacpb.HmacKey{}
		proto.Unmarshal(k.Value, v)
		v.KeyValue = r.Bytes(len(v.KeyValue))
		k.Value = mm(v)
	case "AesCmacKey":
		v := &cmacpb.AesCmacKey{}
		proto.Unmarshal(k.Value, v)
		v.KeyValue = r.Bytes(len(v.KeyValue))
		k.Value = mm(v)
	case "AesGcmKey":
		v := &gcmpb.AesGcmKey{}
		proto.Unmarshal(k.Value, v)
		v.KeyValue = r.Bytes(len(v.KeyValue))
		k.Value = mm(v)
	case "AesGcmSivKey":
		v := &gcmsivpb.AesGcmSivKey{}
		proto.Unmarshal(k.Value, v)
		v.KeyValue = r.Bytes(len(v.KeyValue))
		k.Value = mm(v)
	case "AesSivKey":
		v := &sivpb.AesSivKey{}
		proto.Unmarshal(k.Value, v)
		v.KeyValue = r.Bytes(len(v.KeyValue))
		k.Value = mm(v)
	case "AesCtrHmacAeadKey":
		v := &ctrhmacpb.AesCtrHmacAeadKey{}
		proto.Unmarshal(k.Value, v)
		v.AesCtrKey.KeyValue = r.Bytes(len(v.AesCtrKey.KeyValue))
		v.HmacKey.KeyValue = r.Bytes(len(v.HmacKey.KeyValue))
		k.Value = mm(v)
	case "HkdfPrfKey":
		v := &hkdfprfpb.HkdfPrfKey{}
		proto.Unmarshal(k.Value, v)
		v.KeyValue = r.Bytes(len(v.KeyValue))
		k.Value = mm(v)
	case "HmacPrfKey":
		v := &hmacprfpb.HmacPrfKey{}
		proto.Unmarshal(k.Value, v)
		v.KeyValue = r.Bytes(len(v.KeyValue))
		k.Value = mm(v)
	case "AesCmacPrfKey":
		v := &cmacprfpb.AesCmacPrfKey{}
		proto.Unmarshal(k.Value, v)
		v.KeyValue = r.Bytes(len(v.KeyValue))
		k.Value = mm(v)
	case "ChaCha20Poly1305Key":
		v := &chachapb.ChaCha20Poly1305Key{}
		proto.Unmarshal(k.Value, v)
		v.KeyValue = r.Bytes(len(v.KeyValue))
		k.Value = mm(v)
	case "XChaCha20Poly1305Key":
		v := &xchachapb.XChaCha20Poly1305Key{}
		proto.Unmarshal(k.Value, v)
		v.KeyValue = r.Bytes(len(v.KeyValue))
		k.Value = mm(v)
	case "XAesGcmKey":
		v := &xaesgcmpb.XAesGcmKey{}
		proto.Unmarshal(k.Value, v)
		v.KeyValue = r.Bytes(len(v.KeyValue))
		k.Value = mm(v)
	case "AesGcmHkdfStreamingKey":
		v := &gcmhkdfpb.AesGcmHkdfStreamingKey{}
		proto.Unmarshal(k.Value, v)
		v.KeyValue = r.Bytes(len(v.KeyValue))
		k.Value = mm(v)
	case "AesCtrHmacStreamingKey":
		v := &ctrhmacstreampb.AesCtrHmacStreamingKey{}
		proto.Unmarshal(k.Value, v)
		v.KeyValue = r.Bytes(len(v.KeyValue))
		k.Value = mm(v)
	case "JwtHmacKey":
		v := &jwthmacpb.JwtHmacKey{}
		proto.Unmarshal(k.Value, v)
		v.KeyValue = r.Bytes(len(v.KeyValue))
		k.Value = mm(v)
	case "KmsAeadKey", "KmsEnvelopeAeadKey":
		k.Value = r.Bytes(len(k.Value))
	default:
		if strings.HasPrefix(k.URL, "type.googleapis.com/example.") {
			k.Value = r.Bytes(len(k.Value))
			return true
		}
		return false
	}
	return true
}

func pick(r *hx.Rng, all, mod []c14.BankKey, modPct int) c14.BankKey {
	if r.Chance(modPct) && len(mod) > 0 {
		return mod[r.Intn(len(mod))]
	}
	return all[r.Intn(len(all))]
}

func c13Gen(r *hx.Rng, n int, tier string) []string {
	var lines []string
	ids := []uint64{1, 2, 3, 5, 7, 0x7fffffff, 0xffffffff, 65541, 9, 11}
	for len(lines) < n {
		if r.Chance(12) {
			lines = append(lines, genW(r))
			continue
		}
		modPct := 85
		nk := 1 + r.Intn(5)
		perm := append([]uint64(nil), ids...)
		for i := len(perm) - 1; i > 0; i-- {
			j := r.Intn(i + 1)
			perm[i], perm[j] = perm[j], perm[i]
		}
		ks := &c14.MKeyset{}
		scen := hx.PickS(r, []string{"public", "public", "one-secret", "one-secret", "one-secret", "one-private", "one-private", "mislabel", "mislabel", "all-secret", "public-relabel"})
		secretPos := r.Intn(nk)
		kinds := make([]string, nk)
		for i := 0; i < nk; i++ {
			st := hx.PickS(r, []uint64{1, 1, 1, 2, 3})
			var k c14.MKey
			isSecret := scen == "all-secret" || ((scen == "one-secret" || scen == "one-private" || scen == "mislabel") && i == secretPos)
			switch {
			case isSecret && scen == "one-private":
				// a private key of any modelled kind (ECDSA, Ed25519, RSA, ECIES, HPKE, JWT, SLH-DSA) at this position
				k = fromBank(privPoolMod[r.Intn(len(privPoolMod))], perm[i], st)
				kinds[i] = "V"
			case isSecret:
				k = fromBank(pick(r, secPool, secPoolMod, modPct), perm[i], st)
				kinds[i] = "S"
			case r.Chance(30):
				k = remoteKey(r, perm[i], st)
				kinds[i] = "R"
			default:
				k = fromBank(pick(r, pubPool, pubPoolMod, modPct), perm[i], st)
				kinds[i] = "P"
			}
			if isSecret && scen == "mislabel" {
				k.Mat = hx.PickS(r, []uint64{0, 1, 2, 3, 4, 5, 6, 99, 1<<32 + 3, 1<<32 + 4})
			}
			if !isSecret && scen == "public-relabel" && i == secretPos {
				k.Mat = hx.PickS(r, []uint64{0, 1, 2, 4, 5, 7, 1<<32 + 3})
			}
			if r.Chance(10) && k.Prefix == 1 {
				k.Prefix = hx.PickS(r, []uint64{2, 4}) // LEGACY / CRUNCHY
			}
			if r.Chance(35) && (strings.HasSuffix(k.URL, ".MlDsaPublicKey") || strings.HasSuffix(k.URL, ".MlDsaPrivateKey")) {
				k.Prefix = 5 // WITH_ID_REQUIREMENT: ML-DSA variant NoPrefixWithPrehashID (readable since /repo 4b80d2c)
			}
			if r.Chance(2) {
				k.Prefix = 5 // on any other type: the key's parser (or the fallback key) refuses it
			}
			if r.Chance(30) && strings.HasSuffix(k.URL, "StreamingKey") {
				k.Prefix = hx.PickS(r, []uint64{1, 2, 4}) // ignored by the parser, written back as RAW
			}
			ks.Keys = append(ks.Keys, k)
		}
		p := r.Intn(nk)
		ks.Keys[p].Status = 1
		ks.Primary = ks.Keys[p].ID
		bin := ks.Marshal()
		bin2 := "-"
		if r.Chance(60) {
			ks2 := *ks
			ks2.Keys = append([]c14.MKey(nil), ks.Keys...)
			changed := false
			for i := range ks2.Keys {
				if rekey(r, &ks2.Keys[i]) {
					changed = true
				}
			}
			if changed {
				bin2 = hx.H(ks2.Marshal())
			}
		}
		kek := r.Bytes(hx.PickS(r, []int{16, 32}))
		ad := r.Bytes(hx.PickS(r, []int{0, 0, 7, 16, 33}))
		tape := r.Bytes(24)
		sort.Strings(kinds[:0])
		label := fmt.Sprintf("%s-%d@%d-%s", scen, nk, secretPos, strings.Join(kinds, ""))
		lines = append(lines, fmt.Sprintf("S|%s|%s|%s|%s|%s|%s", hx.H(bin), bin2, hx.H(kek), hx.H(ad), hx.H(tape), label))
	}
	return lines
}
