package c07

import (
	"bytes"
	"fmt"
	"strconv"
	"strings"

	"github.com/tink-crypto/tink-go/v2/verifharness/hx"
)

// ---------------------------------------------------------------- generators

func joinInts(xs []int) string {
	if len(xs) == 0 {
		return "-"
	}
	s := make([]string, len(xs))
	for i, x := range xs {
		s[i] = strconv.Itoa(x)
	}
	return strings.Join(s, ",")
}

func optStr(k int) string {
	if k < 0 {
		return "-"
	}
	return strconv.Itoa(k)
}

// ptLen picks a plaintext length around the segment boundaries (first = room
// in the first segment, full = room in the others).
func ptLen(r *hx.Rng, first, full int) int {
	// now and then more than 256 segments, so that the second counter byte of the nonce is used
	if full <= 2 && r.Chance(3) || full <= 30 && r.Chance(1) {
		return first + (255+r.Intn(40))*full + r.Intn(full+1)
	}
	switch r.Intn(12) {
	case 0:
		return 0
	case 1:
		return 1
	case 2:
		return max(first-1, 0)
	case 3:
		return first
	case 4:
		return first + 1
	case 5:
		return first + full - 1
	case 6:
		return first + full
	case 7:
		return first + full + 1
	case 8:
		return first + r.Intn(4)*full
	case 9:
		return first + r.Intn(4)*full + 1
	default:
		return r.Intn(first + 4*full + 3)
	}
}

// partition cuts pt into Write arguments (zero-length ones included).
func partition(r *hx.Rng, pt []byte, first, full int) [][]byte {
	var out [][]byte
	style := r.Intn(6)
	for len(pt) > 0 {
		var n int
		switch style {
		case 0:
			n = len(pt)
		case 1:
			n = 1
		case 2: // aligned with the segment boundaries
			n = full
			if len(out) == 0 {
				n = first
			}
		case 3: // one off the boundaries
			n = full + 1 - 2*r.Intn(2)
		default:
			n = r.Intn(2*full + 2)
		}
		if n < 0 {
			n = 0
		}
		if n > len(pt) {
			n = len(pt)
		}
		if n == 0 && style != 4 && style != 5 {
			n = 1
		}
		out = append(out, pt[:n])
		pt = pt[n:]
		if r.Chance(12) {
			out = append(out, nil)
		}
	}
	if r.Chance(20) {
		out = append(out, nil)
	}
	if r.Chance(10) {
		out = append([][]byte{nil}, out...)
	}
	return out
}

func opsOf(r *hx.Rng, chunks [][]byte) string {
	var ops []string
	for _, c := range chunks {
		ops = append(ops, "w"+hx.H(c))
	}
	switch {
	case r.Chance(4): // never closed
	case r.Chance(8): // calls after Close
		ops = append(ops, "c", "w"+hx.H(r.Bytes(1+r.Intn(3))), "c")
	default:
		ops = append(ops, "c")
	}
	return strings.Join(ops, ";")
}

func readSizes(r *hx.Rng, full int) ([]int, int) {
	cands := []int{0, 1, 1, 2, 3, max(full-1, 1), full, full + 1, 2 * full, 2*full + 1, 100, 1000}
	var sizes []int
	for i, n := 0, r.Intn(14); i < n; i++ {
		sizes = append(sizes, r.Pick(cands))
	}
	return sizes, r.Pick([]int{1, 2, full, full + 1, 64, 4096})
}

func srcMode(r *hx.Rng) string {
	var ch []int
	for i, n := 0, r.Intn(5); i < n; i++ {
		ch = append(ch, 1+r.Intn(9))
	}
	s := "0:"
	if r.Bool() {
		s = "1:"
	}
	if len(ch) == 0 {
		return s
	}
	return s + joinInts(ch)
}

// mutation of a stream whose segment boundaries are bnd[0] < ... < bnd[k]
// (bnd[0] = end of header / 0, bnd[k] = total length); returns mut string and kind.
func mutate(r *hx.Rng, total int, bnd []int) (string, string) {
	nseg := len(bnd) - 1
	switch r.Intn(11) {
	case 0: // truncate anywhere
		if total == 0 {
			return "a" + hx.H(r.Bytes(1+r.Intn(3))), "append"
		}
		return fmt.Sprintf("t%d", r.Intn(total)), "trunc"
	case 1: // truncate on a segment boundary
		i := r.Intn(nseg)
		if bnd[i] == total {
			return "a00", "append"
		}
		return fmt.Sprintf("t%d", bnd[i]), "truncseg"
	case 2, 3: // alter a byte
		if total == 0 {
			return "a" + hx.H(r.Bytes(1)), "append"
		}
		return fmt.Sprintf("x%d.%d", r.Intn(total), 1+r.Intn(255)), "flip"
	case 4:
		return "a" + hx.H(r.Bytes(1+r.Intn(6))), "append"
	case 5: // drop a segment
		i := r.Intn(nseg)
		if bnd[i] == bnd[i+1] {
			return "a01", "append"
		}
		return fmt.Sprintf("d%d.%d", bnd[i], bnd[i+1]), "dropseg"
	case 6: // duplicate a segment
		i := r.Intn(nseg)
		if bnd[i] == bnd[i+1] {
			return "a02", "append"
		}
		return fmt.Sprintf("u%d.%d", bnd[i], bnd[i+1]), "dupseg"
	case 7: // swap two adjacent segments
		if nseg < 2 {
			return "a03", "append"
		}
		i := r.Intn(nseg - 1)
		return fmt.Sprintf("s%d.%d.%d", bnd[i], bnd[i+1], bnd[i+2]), "swapseg"
	case 8: // truncate just before / after a boundary
		i := r.Intn(nseg + 1)
		k := bnd[i] + 1 - 2*r.Intn(2)
		if k < 0 || k >= total {
			return "a04", "append"
		}
		return fmt.Sprintf("t%d", k), "trunc"
	case 9: // drop the last byte / first byte
		if total == 0 {
			return "a05", "append"
		}
		if r.Bool() {
			return fmt.Sprintf("t%d", total-1), "trunc"
		}
		return "d0.1", "dropbyte"
	default: // alter the tag / last bytes of a segment
		i := r.Intn(nseg)
		if bnd[i+1] == 0 {
			return "a06", "append"
		}
		return fmt.Sprintf("x%d.%d", bnd[i+1]-1, 1<<r.Intn(8)), "fliptag"
	}
}

func bounds(start int, segs [][]byte) []int {
	b := []int{start}
	for _, s := range segs {
		b = append(b, b[len(b)-1]+len(s))
	}
	return b
}

type toyParams struct {
	ns       int
	prefix   []byte
	seg, off int
	bad      string // "" | "nonce" | "off"
}

func genToyParams(r *hx.Rng) toyParams {
	p := toyParams{}
	p.prefix = r.Bytes(r.Intn(9))
	p.ns = len(p.prefix) + 5 + r.Pick([]int{0, 0, 0, 1, 4})
	p.seg = 1 + r.Intn(20)
	switch r.Intn(5) {
	case 0:
		p.off = 0
	case 1:
		p.off = p.seg - 1
	default:
		p.off = r.Intn(p.seg)
	}
	if r.Chance(2) {
		p.ns = len(p.prefix) + r.Intn(5)
		p.bad = "nonce"
	} else if r.Chance(2) {
		p.off = p.seg + 1 + r.Intn(3)
		p.bad = "off"
	}
	return p
}

func genTW(r *hx.Rng) string {
	p := genToyParams(r)
	first, full := max(p.seg-p.off, 1), p.seg
	pt := r.Bytes(ptLen(r, first, full))
	chunks := partition(r, pt, first, full)
	fail := -1
	if r.Chance(20) {
		total := 0
		if p.bad == "" {
			for _, s := range toyEncodeSegs(p.ns, p.prefix, p.seg, p.off, pt) {
				total += len(s)
			}
		}
		fail = r.Intn(total + 3)
	}
	dst := "0"
	if r.Bool() {
		dst = "1"
	}
	return fmt.Sprintf("C07|TW|%d|%s|%d|%d|%s|%s|%s", p.ns, hx.H(p.prefix), p.seg, p.off, dst, optStr(fail), opsOf(r, chunks))
}

func genTR(r *hx.Rng) string {
	p := genToyParams(r)
	first, full := max(p.seg-p.off, 1), p.seg
	pt := r.Bytes(ptLen(r, first, full))
	kind := "honest"
	var ct []byte
	rprefix := p.prefix
	if p.bad != "" {
		ct = r.Bytes(r.Intn(40))
		kind = "badparams"
	} else {
		segs := toyEncodeSegs(p.ns, p.prefix, p.seg, p.off, pt)
		honest := bytes.Join(segs, nil)
		ct = honest
		switch {
		case r.Chance(40):
		case r.Chance(8) && len(p.prefix) > 0: // read under another nonce prefix (another session)
			rprefix = append([]byte{}, p.prefix...)
			rprefix[r.Intn(len(rprefix))] ^= byte(1 + r.Intn(255))
			kind = "otherprefix"
		case r.Chance(5):
			ct = r.Bytes(r.Intn(3 * (full + 4)))
			kind = "garbage"
		default:
			var mut string
			mut, kind = mutate(r, len(honest), bounds(0, segs))
			ct = applyMut(honest, mut)
		}
		if kind != "otherprefix" && bytes.Equal(ct, honest) {
			kind = "honest"
		}
	}
	fail := -1
	if r.Chance(15) {
		fail = r.Intn(len(ct) + 1)
	}
	dst := "0"
	if r.Bool() {
		dst = "1"
	}
	sizes, drain := readSizes(r, full)
	return fmt.Sprintf("C07|TR|%d|%s|%d|%d|%s|%s|%s|%s|%s|%s|%s|%d", p.ns, hx.H(rprefix), p.seg+4, p.off, dst,
		optStr(fail), srcMode(r), kind, hx.H(pt), hx.H(ct), joinInts(sizes), drain)
}

var hashes = []string{"SHA1", "SHA256", "SHA512"}

func digestSize(h string) int {
	switch h {
	case "SHA1":
		return 20
	case "SHA256":
		return 32
	}
	return 64
}

func (k keySpec) String() string {
	st := "D"
	if k.enabled {
		st = "E"
	}
	pr := "-"
	if k.primary {
		pr = "P"
	}
	if k.kind == "G" {
		return fmt.Sprintf("%s%s:G,%s,%s,%d,%d,%d", st, pr, k.hkdf, hx.H(k.mainKey), k.dk, k.seg, k.off)
	}
	return fmt.Sprintf("%s%s:H,%s,%s,%d,%s,%d,%d,%d", st, pr, k.hkdf, hx.H(k.mainKey), k.dk, k.taghash, k.tag, k.seg, k.off)
}

func keysStr(ks []keySpec) string {
	s := make([]string, len(ks))
	for i, k := range ks {
		s[i] = k.String()
	}
	return strings.Join(s, ";")
}

func (k keySpec) hdr() int { return 1 + k.dk + 7 }

func genKey(r *hx.Rng, route string) keySpec {
	k := keySpec{enabled: true}
	k.kind = hx.PickS(r, []string{"G", "H"})
	k.hkdf = hx.PickS(r, hashes)
	k.dk = r.Pick([]int{16, 32})
	if route == "KS" {
		k.mainKey = r.Bytes(max(k.dk, r.Pick([]int{16, 32})))
	} else {
		k.mainKey = r.Bytes(k.dk + r.Pick([]int{0, 0, 1, 8, 16}))
		k.off = r.Pick([]int{0, 0, 1, 5, 13})
	}
	k.tag = 16
	if k.kind == "H" {
		k.taghash = hx.PickS(r, hashes)
		k.tag = 10 + r.Intn(digestSize(k.taghash)-9)
	}
	k.seg = k.off + k.hdr() + k.tag + 1 + r.Pick([]int{0, 1, 2, 7, 16, 40})
	return k
}

// hdrMutate tampers with one field of the header len || salt || nonce prefix.
func hdrMutate(r *hx.Rng, pk keySpec) (string, string) {
	mask := 1 + r.Intn(255)
	switch r.Intn(8) {
	case 0:
		return fmt.Sprintf("x0.%d", mask), "hdrlen"
	case 1: // the header length of the other derived-key size (24 <-> 40)
		return "x0.48", "hdrlenother"
	case 2:
		return fmt.Sprintf("x%d.%d", 1+r.Intn(pk.dk), mask), "hdrsalt"
	case 3:
		return fmt.Sprintf("x%d.%d", 1+pk.dk+r.Intn(7), mask), "hdrprefix"
	case 4: // first / last byte of salt and prefix
		return fmt.Sprintf("x%d.%d", r.Pick([]int{1, pk.dk, pk.dk + 1, pk.dk + 7}), 1<<r.Intn(8)), "hdredge"
	case 5:
		return fmt.Sprintf("t%d", r.Intn(pk.hdr())), "hdrtrunc"
	case 6: // one header byte removed: everything after it shifts
		i := r.Intn(pk.hdr())
		return fmt.Sprintf("d%d.%d", i, i+1), "hdrdrop"
	default: // one header byte doubled
		i := r.Intn(pk.hdr())
		return fmt.Sprintf("u%d.%d", i, i+1), "hdrdup"
	}
}

func genK(r *hx.Rng) string {
	route := "KS"
	if r.Chance(40) {
		route = "SU"
	}
	// directed: keyset whose first key is a decoy with the parameters of the
	// encrypting key (it gets past the header and probes the first segment), the
	// stream manipulated in the header / read with other associated data, the
	// source returning io.EOF together with its last bytes
	decoy := route == "KS" && r.Chance(12)
	var ekeys []keySpec
	nk := 1
	if route == "KS" {
		nk = 1 + r.Intn(3)
	}
	for i := 0; i < nk; i++ {
		ekeys = append(ekeys, genKey(r, route))
	}
	pi := r.Intn(nk)
	ekeys[pi].primary = true
	for i := range ekeys {
		if i != pi && r.Chance(25) {
			ekeys[i].enabled = false
		}
	}
	pk := ekeys[pi]
	kind := "honest"
	if route == "SU" && r.Chance(6) { // invalid constructor arguments
		switch r.Intn(4) {
		case 0:
			ekeys[0].seg = ekeys[0].off + ekeys[0].hdr() + ekeys[0].tag - r.Intn(3)
		case 1:
			ekeys[0].dk = 24
		case 2:
			ekeys[0].mainKey = ekeys[0].mainKey[:ekeys[0].dk-1]
		default:
			if ekeys[0].kind == "H" {
				ekeys[0].tag = r.Pick([]int{9, digestSize(ekeys[0].taghash) + 1})
			} else {
				ekeys[0].seg = ekeys[0].off + ekeys[0].hdr() + 16
			}
		}
		kind = "badkey"
	}
	dkeys := "="
	if kind == "honest" && (decoy || r.Chance(35)) {
		var ds []keySpec
		sel := r.Intn(4)
		if decoy {
			sel = 1
		}
		switch sel {
		case 0: // same keys, reversed, other primary
			for i := len(ekeys) - 1; i >= 0; i-- {
				k := ekeys[i]
				k.primary = false
				k.enabled = true
				ds = append(ds, k)
			}
			ds[0].primary = true
		case 1: // decoys first: same parameters, other key material; then the key
			d1 := pk
			d1.mainKey = r.Bytes(len(pk.mainKey))
			d1.primary = route == "KS"
			d2 := genKey(r, route)
			ds = []keySpec{d1, d2, pk}
			ds[2].primary = false
			if route == "SU" {
				ds = []keySpec{pk}
			}
		case 2: // the key is missing / disabled
			if route == "KS" {
				d1 := genKey(r, route)
				d1.primary = true
				d2 := pk
				d2.primary, d2.enabled = false, false
				ds = []keySpec{d1, d2}
			} else {
				d1 := pk
				d1.mainKey = r.Bytes(len(pk.mainKey))
				ds = []keySpec{d1}
			}
			kind = "nokey"
		default: // the key alone
			ds = []keySpec{pk}
			ds[0].primary = true
		}
		dkeys = keysStr(ds)
	}
	tape := r.Bytes(pk.dk + 7)
	aad := r.Bytes(r.Pick([]int{0, 0, 1, 5, 20}))
	full := pk.seg - pk.tag
	first := full - pk.off - pk.hdr()
	if kind == "badkey" {
		full, first = 10, 5
	}
	pt := r.Bytes(ptLen(r, max(first, 1), max(full, 1)))
	chunks := partition(r, pt, max(first, 1), max(full, 1))
	ops := opsOf(r, chunks)
	mut, raad := "-", aad
	wfail, rfail := -1, -1
	if kind == "honest" {
		segs := splitSegs(full, pk.off+pk.hdr(), pt)
		cs := make([][]byte, len(segs))
		total := pk.hdr()
		for i, s := range segs {
			cs[i] = make([]byte, len(s)+pk.tag)
			total += len(cs[i])
		}
		switch {
		case !decoy && r.Chance(38), decoy && r.Chance(15):
		case r.Chance(12), decoy && r.Chance(35):
			raad = append(append([]byte{}, aad...), 1)
			if len(aad) > 0 && r.Bool() {
				raad = append([]byte{}, aad...)
				raad[r.Intn(len(raad))] ^= 0x80
			}
			kind = "otheraad"
		case r.Chance(10):
			wfail = r.Intn(total + 2)
			kind = "wfail"
		case r.Chance(10):
			rfail = r.Intn(total + 1)
			kind = "rfail"
		case decoy || r.Chance(14): // header manipulation, every field
			mut, kind = hdrMutate(r, pk)
		default:
			mut, kind = mutate(r, total, bounds(pk.hdr(), cs))
		}
	}
	sizes, drain := readSizes(r, max(full, 1))
	sm := srcMode(r)
	if decoy {
		sm = "1" + sm[1:]
	}
	return fmt.Sprintf("C07|K|%s|%s|%s|%s|%s|%s|%s|%s|%s|%s|%s|%s|%s|%d", route, keysStr(ekeys), dkeys, hx.H(tape),
		hx.H(aad), ops, optStr(wfail), mut, kind, hx.H(raad), sm, optStr(rfail), joinInts(sizes), drain)
}

func gen(r *hx.Rng, n int, tier string) []string {
	out := make([]string, 0, n)
	for i := 0; i < n; i++ {
		switch x := r.Intn(100); {
		case x < 30:
			out = append(out, genTW(r))
		case x < 62:
			out = append(out, genTR(r))
		default:
			out = append(out, genK(r))
		}
	}
	return out
}

// ---------------------------------------------------------------- direct checks

// writePlain returns the concatenation of the Write arguments before the first
// Close and whether the history contains a Close.
func writePlain(ops string) ([]byte, bool) {
	var pt []byte
	for _, op := range strings.Split(ops, ";") {
		if op == "c" {
			return pt, true
		}
		if op != "" {
			pt = append(pt, hx.UH(op[1:])...)
		}
	}
	return pt, false
}

// readOutcome: bytes delivered up to the first non-nil result, and that result.
func readOutcome(rs []string) (data []byte, term string) {
	for _, x := range rs {
		if x == "panic" {
			return data, "panic"
		}
		if strings.HasPrefix(x, "+") {
			return data, "pending"
		}
		f := strings.Split(x, ":")
		data = append(data, hx.UH(f[0])...)
		if f[1] != "nil" {
			return data, f[1]
		}
	}
	return data, "pending"
}

func checkWrites(res []string, ops string, closed bool) string {
	i := 0
	for _, op := range strings.Split(ops, ";") {
		if op == "" {
			continue
		}
		if i >= len(res) {
			return "missing result"
		}
		if op == "c" {
			if res[i] != "c:ok" {
				return "Close failed without an I/O fault: " + res[i]
			}
			return ""
		}
		want := fmt.Sprintf("w:%d:ok", len(hx.UH(op[1:])))
		if res[i] != want {
			return "Write returned " + res[i] + ", want " + want
		}
		i++
	}
	return ""
}

// uptoClose keeps the results up to and including the first Close.
func uptoClose(res []string) []string {
	for i, x := range res {
		if strings.HasPrefix(x, "c:") {
			return res[:i+1]
		}
	}
	return res
}

func hasErr(res []string) bool {
	for _, x := range res {
		if strings.HasSuffix(x, "err") {
			return true
		}
	}
	return false
}

func checkRead(rs []string, pt []byte, clean bool) string {
	data, term := readOutcome(rs)
	if term == "pending" {
		return "reader did not terminate"
	}
	if term == "panic" {
		return "reader panicked"
	}
	if clean {
		if term != "eof" {
			return "round trip ended with an error"
		}
		if !bytes.Equal(data, pt) {
			return "round trip returned " + hx.H(data) + ", want " + hx.H(pt)
		}
		return ""
	}
	if term == "eof" {
		return "manipulated/faulty stream ended in a clean EOF"
	}
	if !bytes.HasPrefix(pt, data) {
		return "bytes returned before the error (" + hx.H(data) + ") are not a prefix of the plaintext"
	}
	return ""
}

func check(in, obs string) string {
	if strings.HasPrefix(obs, "PANIC") {
		return obs
	}
	f := strings.Split(in, "|")
	switch f[1] {
	case "TW":
		ns, prefix, seg, off, fail := atoi(f[2]), hx.UH(f[3]), atoi(f[4]), atoi(f[5]), optInt(f[7])
		if ns-len(prefix) < 5 || off >= seg {
			return ""
		}
		o := strings.Split(obs, "|out:")
		res := strings.Split(o[0], ";")[1:]
		out := hx.UH(o[1])
		pt, closed := writePlain(f[8])
		if !closed {
			return ""
		}
		honest := bytes.Join(toyEncodeSegs(ns, prefix, seg, off, pt), nil)
		if fail < 0 || fail >= len(honest) {
			if v := checkWrites(res, f[8], closed); v != "" {
				return v
			}
			if !bytes.Equal(out, honest) {
				return "writer output differs from the documented format: " + hx.H(out)
			}
			if dec, ok := toyDecodeAll(ns, prefix, seg, off, out); !ok || !bytes.Equal(dec, pt) {
				return "independent decoder does not recover the plaintext"
			}
			return ""
		}
		if !hasErr(uptoClose(res)) {
			return "persistent I/O failure of the underlying writer did not surface"
		}
		if !bytes.Equal(out, honest[:fail]) {
			return "bytes written before the failure are not a prefix of the stream"
		}
		return ""
	case "TR":
		if strings.HasPrefix(obs, "new:err") || f[9] == "badparams" {
			return ""
		}
		rs := strings.Split(obs, ";")[1:]
		fail := optInt(f[7])
		return checkRead(rs, hx.UH(f[10]), f[9] == "honest" && fail < 0)
	case "K":
		if obs == "k:err" {
			if f[10] != "badkey" {
				return "valid key rejected"
			}
			return ""
		}
		if f[10] == "badkey" {
			return "invalid key parameters accepted"
		}
		o := strings.Split(obs, "|")
		wres := strings.Split(strings.TrimPrefix(o[1], "W:"), ";")
		ct := hx.UH(strings.TrimPrefix(o[2], "ct:"))
		rres := strings.Split(strings.TrimPrefix(o[3], "R:"), ";")
		pt, closed := writePlain(f[7])
		wfail, rfail := optInt(f[8]), optInt(f[13])
		complete := closed && !hasErr(uptoClose(wres))
		if wfail < 0 {
			if wres[0] != "new:ok" {
				return "NewEncryptingWriter failed"
			}
			if v := checkWrites(wres[1:], f[7], closed); v != "" {
				return v
			}
		}
		if !closed {
			return ""
		}
		if rres[0] != "new:ok" {
			// subtle constructors read the header eagerly: an error is fine unless clean
			if f[10] == "honest" && complete {
				return "NewDecryptingReader failed on an honest stream"
			}
			return ""
		}
		clean := complete && rfail < 0 && bytes.Equal(hx.UH(f[11]), hx.UH(f[6])) && f[10] != "nokey" &&
			bytes.Equal(applyMut(ct, f[9]), ct)
		if wfail >= 0 {
			var pk keySpec
			for _, k := range parseKeys(f[3]) {
				if k.primary {
					pk = k
				}
			}
			want := pk.hdr()
			for _, s := range splitSegs(pk.seg-pk.tag, pk.off+pk.hdr(), pt) {
				want += len(s) + pk.tag
			}
			if wfail < want && complete {
				return "persistent I/O failure of the underlying writer did not surface"
			}
		}
		return checkRead(rres[1:], pt, clean)
	}
	return ""
}

func lenClass(n, first, full int) string {
	switch {
	case n == 0:
		return "0"
	case n < first:
		return "<1"
	case n == first:
		return "=1"
	case full > 0 && (n-first)%full == 0:
		return "=k"
	case n < first+full:
		return "<2"
	}
	return ">2"
}

func class(in, obs string) string {
	f := strings.Split(in, "|")
	switch f[1] {
	case "TW":
		seg, off := atoi(f[4]), atoi(f[5])
		pt, closed := writePlain(f[8])
		nz := strings.Count(f[8], "w-")
		return fmt.Sprintf("TW/dst%s/fail%v/len%s/w%d/z%v/close%v/off%v", f[6], f[7] != "-", lenClass(len(pt), seg-off, seg),
			min(strings.Count(f[8], "w"), 4), nz > 0, closed, off > 0)
	case "TR":
		seg, off := atoi(f[4])-4, atoi(f[5])
		return fmt.Sprintf("TR/%s/dst%s/fail%v/len%s/off%v/ewd%s", f[9], f[6], f[7] != "-", lenClass(len(hx.UH(f[10])), seg-off, seg), off > 0, f[8][:1])
	case "K":
		ks := parseKeys(f[3])
		var pk keySpec
		for _, k := range ks {
			if k.primary {
				pk = k
			}
		}
		pt, _ := writePlain(f[7])
		full := pk.seg - pk.tag
		return fmt.Sprintf("K/%s/%s%d/%s/nk%d/dk%v/len%s/off%v", f[2], pk.kind, pk.dk, f[10], len(ks), f[4] != "=",
			lenClass(len(pt), full-pk.off-pk.hdr(), full), pk.off > 0)
	}
	return ""
}
