// Package c07 runs the real tink-go streaming AEAD code on cases of property
// C07 (chunking independence, manipulation detection, I/O fault surfacing).
//
// Three kinds of case line (fields separated by '|', byte strings in hex, "-" = empty):
//
//	C07|TW|<nonceSize>|<prefix>|<ptSeg>|<off>|<dst 0/1>|<sinkFail or ->|<ops>
//	    the REAL noncebased.Writer over the toy segment cipher; ops ';'-separated:
//	    w<hex> = Write, c = Close.
//	    observation: new:ok|err ; w:<n>:ok|err ; c:ok|err ; ...  | out:<bytes the sink received>
//	C07|TR|<nonceSize>|<prefix>|<ctSeg>|<off>|<dst 0/1>|<srcFail or ->|<srcmode>|<kind>|<pt>|<ct>|<sizes>|<drain>
//	    the REAL noncebased.Reader over the toy segment cipher reading <ct> from a
//	    source with short reads (<srcmode> = eofWithData:chunk,chunk,...; Go side only)
//	    that fails at byte srcFail.  Read sizes as listed, then Read(drain) until
//	    the first EOF/error, then two more calls (observed as +<bytes> only).
//	    observation: new:ok|err ; <bytes>:nil|eof|err ; ...
//	C07|K|<route KS/SU>|<ekeys>|<dkeys>|<tape>|<aad>|<ops>|<sinkFail>|<mut>|<kind>|<raad>|<srcmode>|<srcFail>|<sizes>|<drain>
//	    real keys: KS = streamingaead.New(handle) (keyset level, decrypt_reader.go),
//	    SU = streamingaead/subtle constructors (first-segment offset allowed).
//	    keys ';'-separated  <E|D><P|->:G,<hkdf>,<mainkey>,<dk>,<seg>,<off>
//	                        <E|D><P|->:H,<hkdf>,<mainkey>,<dk>,<taghash>,<tag>,<seg>,<off>
//	    dkeys "=" = same as ekeys.  tape = bytes served by crypto/rand (salt, nonce prefix).
//	    mut = byte-level edits of the produced ciphertext (see applyMut).
//	    observation: k:ok|err | W:new:..;w:..;c:.. | ct:<hex> | R:new:..;<bytes>:nil;...
package c07

import (
	"bytes"
	"errors"
	"fmt"
	"io"
	"strconv"
	"strings"

	"github.com/tink-crypto/tink-go/v2/insecuresecretdataaccess"
	"github.com/tink-crypto/tink-go/v2/key"
	"github.com/tink-crypto/tink-go/v2/keyset"
	"github.com/tink-crypto/tink-go/v2/secretdata"
	"github.com/tink-crypto/tink-go/v2/streamingaead"
	"github.com/tink-crypto/tink-go/v2/streamingaead/aesctrhmac"
	"github.com/tink-crypto/tink-go/v2/streamingaead/aesgcmhkdf"
	"github.com/tink-crypto/tink-go/v2/streamingaead/subtle"
	"github.com/tink-crypto/tink-go/v2/streamingaead/subtle/noncebased"
	"github.com/tink-crypto/tink-go/v2/tink"
	"github.com/tink-crypto/tink-go/v2/verifharness/hx"
)

func init() {
	hx.Register("C07", &hx.Prop{Gen: gen, Run: run, Check: check, Class: class})
}

// ---------------------------------------------------------------- toy cipher

func toyKB(nonce []byte) byte {
	s := uint32(7)
	for _, b := range nonce {
		s += uint32(b)
	}
	return byte(s)
}

// toySum is FNV-1a (32 bit) over nonce || s.
func toySum(nonce, s []byte) uint32 {
	h := uint32(2166136261)
	for _, b := range nonce {
		h = (h ^ uint32(b)) * 16777619
	}
	for _, b := range s {
		h = (h ^ uint32(b)) * 16777619
	}
	return h
}

func toySeal(dst, segment, nonce []byte) []byte {
	kb := toyKB(nonce)
	sum := toySum(nonce, segment)
	out := dst[:0]
	for _, b := range segment {
		out = append(out, b^kb)
	}
	return append(out, byte(sum>>24), byte(sum>>16), byte(sum>>8), byte(sum))
}

var errToy = errors.New("toy: bad segment")

func toyOpen(dst, segment, nonce []byte) ([]byte, error) {
	if len(segment) < 4 {
		return nil, errToy
	}
	kb := toyKB(nonce)
	n := len(segment) - 4
	out := make([]byte, 0, n)
	if cap(dst) >= n {
		out = dst[:0]
	}
	for _, b := range segment[:n] {
		out = append(out, b^kb)
	}
	sum := toySum(nonce, out)
	t := segment[n:]
	if t[0] != byte(sum>>24) || t[1] != byte(sum>>16) || t[2] != byte(sum>>8) || t[3] != byte(sum) {
		return nil, errToy
	}
	return out, nil
}

type toyEnc struct{}

func (toyEnc) EncryptSegment(segment, nonce []byte) ([]byte, error) {
	return toySeal(nil, segment, nonce), nil
}

type toyEncDst struct{ toyEnc }

func (toyEncDst) EncryptSegmentWithDst(dst, segment, nonce []byte) ([]byte, error) {
	if len(dst) != 0 {
		return nil, errors.New("dst must be empty")
	}
	return toySeal(dst, segment, nonce), nil
}

type toyDec struct{}

func (toyDec) DecryptSegment(segment, nonce []byte) ([]byte, error) {
	return toyOpen(nil, segment, nonce)
}

type toyDecDst struct{ toyDec }

func (toyDecDst) DecryptSegmentWithDst(dst, segment, nonce []byte) ([]byte, error) {
	if len(dst) != 0 {
		return nil, errors.New("dst must be empty")
	}
	return toyOpen(dst, segment, nonce)
}

// The harness's own implementation of the documented format (used by Gen to
// build inputs and by Check as the independent decoder): nonce = prefix ||
// be32(i) || last || zero padding; first segment shorter by off.
func fmtNonce(ns int, prefix []byte, i uint32, last bool) []byte {
	n := make([]byte, ns)
	copy(n, prefix)
	o := len(prefix)
	n[o], n[o+1], n[o+2], n[o+3] = byte(i>>24), byte(i>>16), byte(i>>8), byte(i)
	if last {
		n[o+4] = 1
	}
	return n
}

// splitSegs cuts pt into plaintext segments (first has room seg-off).
func splitSegs(seg, off int, pt []byte) [][]byte {
	var out [][]byte
	lim := seg - off
	for len(pt) > lim {
		out = append(out, pt[:lim])
		pt = pt[lim:]
		lim = seg
	}
	return append(out, pt)
}

func toyEncodeSegs(ns int, prefix []byte, seg, off int, pt []byte) [][]byte {
	var out [][]byte
	ss := splitSegs(seg, off, pt)
	for i, s := range ss {
		out = append(out, toySeal(nil, s, fmtNonce(ns, prefix, uint32(i), i == len(ss)-1)))
	}
	return out
}

// toyDecodeAll: independent decoder of a complete toy stream (ctSeg = seg+4).
func toyDecodeAll(ns int, prefix []byte, seg, off int, ct []byte) ([]byte, bool) {
	var pt []byte
	lim := seg - off + 4
	for i := uint32(0); ; i++ {
		last := len(ct) <= lim
		c := ct
		if !last {
			c = ct[:lim]
		}
		s, err := toyOpen(nil, c, fmtNonce(ns, prefix, i, last))
		if err != nil {
			return pt, false
		}
		pt = append(pt, s...)
		if last {
			return pt, true
		}
		ct = ct[lim:]
		lim = seg + 4
	}
}

// ---------------------------------------------------------------- I/O ends

var errSink = errors.New("sink: persistent write failure")
var errSrc = errors.New("source: persistent read failure")

// sinkW accepts bytes until fail bytes in total (fail < 0: never fails).
type sinkW struct {
	buf  []byte
	fail int
}

func (s *sinkW) Write(p []byte) (int, error) {
	if s.fail >= 0 && len(s.buf)+len(p) > s.fail {
		n := s.fail - len(s.buf)
		if n < 0 {
			n = 0
		}
		s.buf = append(s.buf, p[:n]...)
		return n, errSink
	}
	s.buf = append(s.buf, p...)
	return len(p), nil
}

// srcR delivers data in short reads (chunk pattern), fails persistently once
// fail bytes were delivered (fail < 0: never), optionally returns io.EOF
// together with the final bytes.
type srcR struct {
	data        []byte
	pos         int
	fail        int
	chunks      []int
	ci          int
	eofWithData bool
}

func (s *srcR) Read(p []byte) (int, error) {
	if len(p) == 0 {
		return 0, nil
	}
	if s.fail >= 0 && s.pos >= s.fail {
		return 0, errSrc
	}
	if s.pos >= len(s.data) {
		return 0, io.EOF
	}
	n := len(p)
	if len(s.chunks) > 0 {
		c := s.chunks[s.ci%len(s.chunks)]
		s.ci++
		if c >= 1 && c < n {
			n = c
		}
	}
	if r := len(s.data) - s.pos; r < n {
		n = r
	}
	if s.fail >= 0 && s.fail-s.pos < n {
		n = s.fail - s.pos
	}
	copy(p, s.data[s.pos:s.pos+n])
	s.pos += n
	if s.eofWithData && s.pos == len(s.data) && s.fail < 0 {
		return n, io.EOF
	}
	return n, nil
}

func parseSrcMode(s string) (bool, []int) {
	f := strings.SplitN(s, ":", 2)
	var ch []int
	if len(f) == 2 && f[1] != "" {
		for _, x := range strings.Split(f[1], ",") {
			ch = append(ch, atoi(x))
		}
	}
	return f[0] == "1", ch
}

// ---------------------------------------------------------------- helpers

func atoi(s string) int {
	v, err := strconv.Atoi(s)
	if err != nil {
		panic("bad int " + s)
	}
	return v
}

func optInt(s string) int {
	if s == "-" || s == "" {
		return -1
	}
	return atoi(s)
}

func cls(err error) string {
	switch {
	case err == nil:
		return "nil"
	case err == io.EOF:
		return "eof"
	}
	return "err"
}

func okerr(err error) string {
	if err == nil {
		return "ok"
	}
	return "err"
}

func guarded(f func() string) (res string) {
	defer func() {
		if recover() != nil {
			res = "panic"
		}
	}()
	return f()
}

func ints(s string) []int {
	var out []int
	if s == "" || s == "-" {
		return out
	}
	for _, x := range strings.Split(s, ",") {
		out = append(out, atoi(x))
	}
	return out
}

// runWriteOps drives a WriteCloser with the op list; returns per-op results.
func runWriteOps(w io.WriteCloser, ops string) []string {
	var out []string
	for _, op := range strings.Split(ops, ";") {
		if op == "" {
			continue
		}
		var res string
		if op == "c" {
			res = guarded(func() string { return "c:" + okerr(w.Close()) })
		} else {
			data := append([]byte{}, hx.UH(op[1:])...)
			res = guarded(func() string {
				n, err := w.Write(data)
				return fmt.Sprintf("w:%d:%s", n, okerr(err))
			})
		}
		out = append(out, res)
		if res == "panic" {
			break
		}
	}
	return out
}

const maxDrain = 20000

// runReads drives a Reader: listed sizes until the first non-nil error, then
// Read(drain) until one, then two more calls.
func runReads(r io.Reader, sizes []int, drain int) []string {
	var out []string
	one := func(n int) (string, bool) {
		buf := make([]byte, n)
		for i := range buf {
			buf[i] = 0xAA
		}
		terminal := false
		res := guarded(func() string {
			k, err := r.Read(buf)
			if err != nil {
				terminal = true
			}
			return hx.H(buf[:k]) + ":" + cls(err)
		})
		return res, terminal || res == "panic"
	}
	term := false
	for _, n := range sizes {
		res, t := one(n)
		out = append(out, res)
		if res == "panic" {
			return out
		}
		if t {
			term = true
			break
		}
	}
	for i := 0; !term && i < maxDrain; i++ {
		res, t := one(drain)
		out = append(out, res)
		if res == "panic" {
			return out
		}
		term = t
	}
	if term {
		// two calls after the first error/EOF: only whether bytes are still
		// handed out is observed (err vs EOF after an error is not part of the property)
		for i := 0; i < 2; i++ {
			res, _ := one(drain)
			if res == "panic" {
				return append(out, res)
			}
			out = append(out, "+"+res[:strings.Index(res, ":")])
		}
	}
	return out
}

// applyMut: byte-level edits, ';'-separated, indices clamped to the current length:
// t<k> truncate to k bytes; x<i>.<mask> xor byte i; a<hex> append; d<a>.<b> delete
// [a,b); u<a>.<b> duplicate [a,b) after b; s<a>.<b>.<c> swap [a,b) and [b,c).
func applyMut(ct []byte, mut string) []byte {
	ct = append([]byte{}, ct...)
	if mut == "-" || mut == "" {
		return ct
	}
	cl := func(i int) int {
		if i < 0 {
			return 0
		}
		if i > len(ct) {
			return len(ct)
		}
		return i
	}
	for _, m := range strings.Split(mut, ";") {
		if m == "" {
			continue
		}
		a := strings.Split(m[1:], ".")
		switch m[0] {
		case 't':
			ct = ct[:cl(atoi(a[0]))]
		case 'x':
			if i := atoi(a[0]); i >= 0 && i < len(ct) {
				ct[i] ^= byte(atoi(a[1]))
			}
		case 'a':
			ct = append(ct, hx.UH(m[1:])...)
		case 'd':
			lo, hi := cl(atoi(a[0])), cl(atoi(a[1]))
			if lo <= hi {
				ct = append(append([]byte{}, ct[:lo]...), ct[hi:]...)
			}
		case 'u':
			lo, hi := cl(atoi(a[0])), cl(atoi(a[1]))
			if lo <= hi {
				n := append([]byte{}, ct[:hi]...)
				n = append(n, ct[lo:hi]...)
				ct = append(n, ct[hi:]...)
			}
		case 's':
			lo, mid, hi := cl(atoi(a[0])), cl(atoi(a[1])), cl(atoi(a[2]))
			if lo <= mid && mid <= hi {
				n := append([]byte{}, ct[:lo]...)
				n = append(n, ct[mid:hi]...)
				n = append(n, ct[lo:mid]...)
				ct = append(n, ct[hi:]...)
			}
		}
	}
	return ct
}

// ---------------------------------------------------------------- Run

func run(in string) string {
	f := strings.Split(in, "|")
	switch f[1] {
	case "TW":
		return runTW(f)
	case "TR":
		return runTR(f)
	case "K":
		return runK(f)
	}
	panic("unknown kind")
}

func runTW(f []string) string {
	ns, prefix, seg, off, dst, fail := atoi(f[2]), hx.UH(f[3]), atoi(f[4]), atoi(f[5]), f[6] == "1", optInt(f[7])
	sink := &sinkW{fail: fail}
	var enc noncebased.SegmentEncrypter = toyEnc{}
	if dst {
		enc = toyEncDst{}
	}
	w, err := noncebased.NewWriter(noncebased.WriterParams{W: sink, SegmentEncrypter: enc, NonceSize: ns,
		NoncePrefix: prefix, PlaintextSegmentSize: seg, FirstCiphertextSegmentOffset: off})
	if err != nil {
		return "new:err|out:-"
	}
	out := append([]string{"new:ok"}, runWriteOps(w, f[8])...)
	return strings.Join(out, ";") + "|out:" + hx.H(sink.buf)
}

func runTR(f []string) string {
	ns, prefix, ctseg, off, dst, fail := atoi(f[2]), hx.UH(f[3]), atoi(f[4]), atoi(f[5]), f[6] == "1", optInt(f[7])
	ewd, chunks := parseSrcMode(f[8])
	src := &srcR{data: hx.UH(f[11]), fail: fail, chunks: chunks, eofWithData: ewd}
	var dec noncebased.SegmentDecrypter = toyDec{}
	if dst {
		dec = toyDecDst{}
	}
	r, err := noncebased.NewReader(noncebased.ReaderParams{R: src, SegmentDecrypter: dec, NonceSize: ns,
		NoncePrefix: prefix, CiphertextSegmentSize: ctseg, FirstCiphertextSegmentOffset: off})
	if err != nil {
		return "new:err"
	}
	out := append([]string{"new:ok"}, runReads(r, ints(f[12]), atoi(f[13]))...)
	return strings.Join(out, ";")
}

// ------------------------------------------------------------- real keys

type keySpec struct {
	enabled, primary bool
	kind             string // G or H
	hkdf, taghash    string
	mainKey          []byte
	dk, tag, seg     int
	off              int
}

func parseKeys(s string) []keySpec {
	var out []keySpec
	for _, ks := range strings.Split(s, ";") {
		if ks == "" {
			continue
		}
		hd := strings.SplitN(ks, ":", 2)
		a := strings.Split(hd[1], ",")
		k := keySpec{enabled: hd[0][0] == 'E', primary: hd[0][1] == 'P', kind: a[0], hkdf: a[1], mainKey: hx.UH(a[2]), dk: atoi(a[3])}
		if a[0] == "G" {
			k.tag, k.seg, k.off = 16, atoi(a[4]), atoi(a[5])
		} else {
			k.taghash, k.tag, k.seg, k.off = a[4], atoi(a[5]), atoi(a[6]), atoi(a[7])
		}
		out = append(out, k)
	}
	return out
}

func (k keySpec) subtlePrimitive() (tink.StreamingAEAD, error) {
	// the constructors get a private copy of the key, overwritten after construction
	mk := bytes.Clone(k.mainKey)
	defer hx.Scribble(mk)
	if k.kind == "G" {
		return subtle.NewAESGCMHKDF(mk, k.hkdf, k.dk, k.seg, k.off)
	}
	return subtle.NewAESCTRHMAC(mk, k.hkdf, k.dk, k.taghash, k.tag, k.seg, k.off)
}

func gcmHash(s string) aesgcmhkdf.HashType {
	switch s {
	case "SHA1":
		return aesgcmhkdf.SHA1
	case "SHA256":
		return aesgcmhkdf.SHA256
	case "SHA512":
		return aesgcmhkdf.SHA512
	}
	return aesgcmhkdf.HashTypeUnknown
}

func ctrHash(s string) aesctrhmac.HashType {
	switch s {
	case "SHA1":
		return aesctrhmac.SHA1
	case "SHA256":
		return aesctrhmac.SHA256
	case "SHA512":
		return aesctrhmac.SHA512
	}
	return aesctrhmac.UnknownHashType
}

func (k keySpec) tinkKey() (key.Key, error) {
	kb := secretdata.NewBytesFromData(k.mainKey, insecuresecretdataaccess.Token{})
	if k.kind == "G" {
		p, err := aesgcmhkdf.NewParameters(aesgcmhkdf.ParametersOpts{KeySizeInBytes: len(k.mainKey),
			DerivedKeySizeInBytes: k.dk, HKDFHashType: gcmHash(k.hkdf), SegmentSizeInBytes: int32(k.seg)})
		if err != nil {
			return nil, err
		}
		return aesgcmhkdf.NewKey(p, kb)
	}
	p, err := aesctrhmac.NewParameters(aesctrhmac.ParametersOpts{KeySizeInBytes: len(k.mainKey),
		DerivedKeySizeInBytes: k.dk, HkdfHashType: ctrHash(k.hkdf), HmacHashType: ctrHash(k.taghash),
		HmacTagSizeInBytes: k.tag, SegmentSizeInBytes: int32(k.seg)})
	if err != nil {
		return nil, err
	}
	return aesctrhmac.NewKey(p, kb)
}

// keysetPrimitive builds a keyset handle (ids from the operating system's
// randomness: they do not influence streaming AEAD) and wraps it.
func keysetPrimitive(keys []keySpec) (tink.StreamingAEAD, error) {
	km := keyset.NewManager()
	var disable []uint32
	for _, k := range keys {
		tk, err := k.tinkKey()
		if err != nil {
			return nil, err
		}
		id, err := km.AddKey(tk)
		if err != nil {
			return nil, err
		}
		if k.primary {
			if err := km.SetPrimary(id); err != nil {
				return nil, err
			}
		}
		if !k.enabled {
			disable = append(disable, id)
		}
	}
	for _, id := range disable {
		if err := km.Disable(id); err != nil {
			return nil, err
		}
	}
	h, err := km.Handle()
	if err != nil {
		return nil, err
	}
	return streamingaead.New(h)
}

func buildPrimitive(route string, keys []keySpec) (tink.StreamingAEAD, error) {
	if route == "SU" {
		return keys[0].subtlePrimitive()
	}
	return keysetPrimitive(keys)
}

func runK(f []string) string {
	route := f[2]
	ekeys := parseKeys(f[3])
	dkeys := ekeys
	if f[4] != "=" {
		dkeys = parseKeys(f[4])
	}
	tape, aad, ops, wfail, mut, raad := hx.UH(f[5]), hx.UH(f[6]), f[7], optInt(f[8]), f[9], hx.UH(f[11])
	ewd, chunks := parseSrcMode(f[12])
	rfail, sizes, drain := optInt(f[13]), ints(f[14]), atoi(f[15])

	enc, err := buildPrimitive(route, ekeys)
	if err != nil {
		return "k:err"
	}
	dec := enc
	if f[4] != "=" {
		if dec, err = buildPrimitive(route, dkeys); err != nil {
			return "k:err"
		}
	}
	sink := &sinkW{fail: wfail}
	var wout []string
	hx.WithTape(&hx.Tape{Bulk: tape}, func() {
		w, err := enc.NewEncryptingWriter(sink, append([]byte{}, aad...))
		if err != nil {
			wout = []string{"new:err"}
			return
		}
		wout = append([]string{"new:ok"}, runWriteOps(w, ops)...)
	})
	ct := append([]byte{}, sink.buf...)
	src := &srcR{data: applyMut(ct, mut), fail: rfail, chunks: chunks, eofWithData: ewd}
	var rout []string
	r, err := dec.NewDecryptingReader(src, append([]byte{}, raad...))
	if err != nil {
		rout = []string{"new:err"}
	} else {
		rout = append([]string{"new:ok"}, runReads(r, sizes, drain)...)
	}
	return "k:ok|W:" + strings.Join(wout, ";") + "|ct:" + hx.H(ct) + "|R:" + strings.Join(rout, ";")
}
