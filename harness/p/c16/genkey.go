package c16

// "Generated key" cases: the key is CREATED by Tink (keyset.Manager.
// AddNewKeyFromParameters -> keygenregistry -> signature/slhdsa createPrivateKey),
// not imported.  The three seeds and the key id come from the hx tape, so the
// case line determines the key.
//
//	C16|gk|set|T/N|id|skSeed|skPrf|pkSeed|mode|tag
//
// mode "full": observation hex(private key bytes)|hex(public key bytes)|key id;
// the model derives the same from the seeds (Slhdsa.keygen of the NAMED set).
// mode "proj": observation seeds-prefix|len(sk)|len(pk)|pk == sk[2n:]|root ok|key id
// where "root ok" compares PK.root with the root the internal deterministic key
// generation of the NAMED set (the harness's own name -> set table) derives from
// the same seeds; the model needs no hashing for it (used for the s sets, whose
// model key generation costs 275k-420k oracle calls).
//
// Direct check (both modes): sk = skSeed || skPrf || pkSeed || root, pk = pkSeed
// || root, Table 2 lengths, root = root of the named set; for the f sets (and the
// s sets in the thorough tier) the generated key also signs through the Tink
// signer and the signature is accepted by the Tink verifier of the public handle
// and by the internal Verify of the named set, and a modified one is rejected.

import (
	"bytes"
	"fmt"
	"strconv"
	"strings"

	"github.com/tink-crypto/tink-go/v2/insecuresecretdataaccess"
	"github.com/tink-crypto/tink-go/v2/keyset"
	"github.com/tink-crypto/tink-go/v2/signature"
	tslh "github.com/tink-crypto/tink-go/v2/signature/slhdsa"
	"github.com/tink-crypto/tink-go/v2/verifharness/hx"
)

type genKey struct {
	h        *keyset.Handle
	kid      uint32
	sk, pk   []byte
	prefix   []byte
	err      string
	idDrawn  int
	bulkRead int
}

// generate runs Tink's key creation for (set, variant) with the seeds and the id on the tape
func generate(p *pset, v string, id uint32, skSeed, skPrf, pkSeed []byte) *genKey {
	g := &genKey{}
	t := &hx.Tape{IDs: []uint32{id}, Bulk: append(append(append([]byte{}, skSeed...), skPrf...), pkSeed...)}
	hx.WithTape(t, func() {
		km := keyset.NewManager()
		kid, err := km.AddNewKeyFromParameters(tinkParams(p, v))
		if err != nil {
			g.err = "create"
			return
		}
		if km.SetPrimary(kid) != nil {
			g.err = "primary"
			return
		}
		h, err := km.Handle()
		if err != nil {
			g.err = "handle"
			return
		}
		e, err := h.Primary()
		if err != nil {
			g.err = "entry"
			return
		}
		priv, ok := e.Key().(*tslh.PrivateKey)
		if !ok {
			g.err = "keytype"
			return
		}
		pub, err := priv.PublicKey()
		if err != nil {
			g.err = "public"
			return
		}
		g.h, g.kid = h, kid
		g.sk = priv.PrivateKeyBytes().Data(insecuresecretdataaccess.Token{})
		g.pk = pub.(*tslh.PublicKey).KeyBytes()
		g.prefix = priv.OutputPrefix()
	})
	g.idDrawn, g.bulkRead = t.NIDs, t.NBulk
	return g
}

func gkFields(in string) (p *pset, v string, id uint32, skSeed, skPrf, pkSeed []byte, mode string) {
	f := strings.Split(in, "|")
	p = setByName(f[2])
	x, _ := strconv.ParseUint(f[4], 10, 32)
	return p, f[3], uint32(x), hx.UH(f[5]), hx.UH(f[6]), hx.UH(f[7]), f[8]
}

func runGK(in string) string {
	p, v, id, skSeed, skPrf, pkSeed, mode := gkFields(in)
	g := generate(p, v, id, skSeed, skPrf, pkSeed)
	if g.err != "" {
		return "err:" + g.err
	}
	if mode == "full" {
		return fmt.Sprintf("%s|%s|%d", hx.H(g.sk), hx.H(g.pk), g.kid)
	}
	n := p.n
	pre := g.sk
	if len(pre) > 3*n {
		pre = pre[:3*n]
	}
	want := keygenWith(p, skSeed, skPrf, pkSeed)
	return fmt.Sprintf("%s|%d|%d|%t|%t|%d", hx.H(pre), len(g.sk), len(g.pk),
		len(g.sk) == 4*n && bytes.Equal(g.pk, g.sk[2*n:]), bytes.Equal(g.sk, want), g.kid)
}

func checkGK(in, obs string) string {
	p, v, id, skSeed, skPrf, pkSeed, _ := gkFields(in)
	n := p.n
	if strings.HasPrefix(obs, "err:") {
		return "Tink key creation failed: " + obs
	}
	g := generate(p, v, id, skSeed, skPrf, pkSeed)
	if g.err != "" {
		return "Tink key creation failed: " + g.err
	}
	if g.kid != id {
		return fmt.Sprintf("key id %d, tape gave %d", g.kid, id)
	}
	if g.bulkRead != 3*n {
		return fmt.Sprintf("key creation read %d random bytes, FIPS 205 slh_keygen reads 3n = %d", g.bulkRead, 3*n)
	}
	seeds := append(append(append([]byte{}, skSeed...), skPrf...), pkSeed...)
	if len(g.sk) != 4*n || len(g.pk) != 2*n {
		return fmt.Sprintf("generated key sizes %d/%d, Table 2 says %d/%d", len(g.sk), len(g.pk), 4*n, 2*n)
	}
	if !bytes.Equal(g.sk[:3*n], seeds) {
		return "generated private key does not start with SK.seed || SK.prf || PK.seed"
	}
	if !bytes.Equal(g.pk, g.sk[2*n:]) {
		return "generated public key is not PK.seed || PK.root of the private key"
	}
	want := keygenWith(p, skSeed, skPrf, pkSeed) // internal deterministic key generation of the NAMED set
	if !bytes.Equal(g.sk[3*n:], want[3*n:]) {
		return "PK.root of the generated " + p.name + " key is not the " + p.name + " root of its seeds (SK.seed, PK.seed)"
	}
	wantPre := []byte{}
	if v == "T" {
		wantPre = []byte{1, byte(id >> 24), byte(id >> 16), byte(id >> 8), byte(id)}
	}
	if !bytes.Equal(g.prefix, wantPre) {
		return "output prefix of the generated key"
	}
	if !strings.HasSuffix(in, "-sign") {
		return "" // the s sets sign (about a second each in Go) in the thorough tier only
	}
	// the generated key signs and its signatures verify
	x := lineHash(in)
	msg := []byte(fmt.Sprintf("generated key %s %s %x", p.name, v, x))
	var sig []byte
	var serr error
	hx.WithTape(&hx.Tape{}, func() {
		s, err := signature.NewSigner(g.h)
		if err != nil {
			serr = err
			return
		}
		sig, serr = s.Sign(msg)
	})
	if serr != nil {
		return "generated key does not sign: " + serr.Error()
	}
	if len(sig) != len(wantPre)+p.sigLen || !bytes.Equal(sig[:len(wantPre)], wantPre) {
		return "signature of the generated key: wrong size or prefix"
	}
	pubH, err := g.h.Public()
	if err != nil {
		return "public handle: " + err.Error()
	}
	vf, err := signature.NewVerifier(pubH)
	if err != nil {
		return "verifier of the generated key: " + err.Error()
	}
	if vf.Verify(sig, msg) != nil {
		return "signature of the Tink-generated " + p.name + " key rejected by the Tink verifier of its own public key"
	}
	raw := sig[len(wantPre):]
	if r := verifyWith(p, g.pk, msg, nil, raw); r != "ok" {
		return "signature of the Tink-generated " + p.name + " key rejected by the internal " + p.name + " Verify: " + r
	}
	bad := append([]byte{}, sig...)
	bad[len(wantPre)+int(x%uint64(p.sigLen))] ^= byte(1 << ((x >> 32) % 8))
	if vf.Verify(bad, msg) == nil {
		return "modified signature of the generated key accepted"
	}
	return ""
}

func gkLine(r *hx.Rng, p *pset, v string, mode string, sign bool) string {
	tag := fmt.Sprintf("+generated-%s-%s", v, mode)
	if sign {
		tag += "-sign"
	}
	return fmt.Sprintf("C16|gk|%s|%s|%d|%s|%s|%s|%s|%s", p.name, v, uint32(r.U64()),
		hx.H(r.Bytes(p.n)), hx.H(r.Bytes(p.n)), hx.H(r.Bytes(p.n)), mode, tag)
}
