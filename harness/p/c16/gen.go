package c16

import (
	"fmt"
	"strings"
	"sync"

	"github.com/tink-crypto/tink-go/v2/verifharness/hx"
)

// The model answers every hash call through the stdlib oracle (about 50 µs
// each), so cases are budgeted by their approximate number of hash calls:
// budget = n * callsPerCase.  Cheap classes (wrong lengths, bad keys, context
// too long, wrong prefix) cost nothing and are always generated.
const callsPerCase = 2500

type base struct {
	p        *pset
	sk, pk   []byte
	msg, ctx []byte
	sig      []byte // genuine signature of (msg, ctx) made by the internal API
	// an over-long context (256+k bytes) and a genuine signature for the pair it
	// aliases when the length byte wraps: context ctxLong[:k], message ctxLong[k:]||msg
	ctxLong  []byte
	aliasSig []byte
	addrnd   []byte
}

func msgOf(r *hx.Rng) []byte {
	return r.Bytes(hx.PickS(r, []int{0, 1, 2, 7, 16, 31, 32, 33, 55, 56, 64, 65, 100, 127, 128, 129, 200, 300}))
}

func ctxOf(r *hx.Rng) []byte {
	if r.Chance(50) {
		return nil
	}
	return r.Bytes(hx.PickS(r, []int{1, 2, 8, 32, 100, 254, 255}))
}

// newBase draws a key pair, message and context; the genuine signature is
// filled in by finish (SignDeterministic needs no randomness, so the twelve
// base signatures of a run are computed concurrently).
func newBase(r *hx.Rng, p *pset) *base {
	sk := keygenWith(p, r.Bytes(p.n), r.Bytes(p.n), r.Bytes(p.n))
	return &base{p: p, sk: sk, pk: sk[2*p.n:], msg: msgOf(r), ctx: ctxOf(r), addrnd: r.Bytes(p.n), ctxLong: r.Bytes(256 + r.Intn(40))}
}

func (b *base) finish() {
	sig, ok := signWith(b.p, b.sk, b.msg, b.ctx, "d")
	if !ok {
		panic("base signature")
	}
	b.sig = sig
	if !b.p.fast {
		return // the s sets sign slowly; the alias case runs on the six f sets
	}
	k := len(b.ctxLong) - 256
	alias, ok := signWith(b.p, b.sk, append(append([]byte{}, b.ctxLong[k:]...), b.msg...), b.ctxLong[:k], "d")
	if !ok {
		panic("alias signature")
	}
	b.aliasSig = alias
}

func flip(r *hx.Rng, b []byte, lo, hi int) []byte {
	c := append([]byte{}, b...)
	if hi > len(c) {
		hi = len(c)
	}
	if hi <= lo {
		return c
	}
	c[lo+r.Intn(hi-lo)] ^= byte(1 << r.Intn(8))
	return c
}

func vfLine(b *base, pk, msg, ctx, sig []byte, tag string) string {
	return fmt.Sprintf("C16|vf|%s|%s|%s|%s|%s|%s", b.p.name, hx.H(pk), hx.H(msg), hx.H(ctx), hx.H(sig), tag)
}

// expensive (full verification) mutations of a genuine signature
var mutKinds = []string{"sig-R", "sig-fors-sk", "sig-fors-auth", "sig-ht-wots0", "sig-ht-wotsJ", "sig-ht-auth", "sig-last",
	"msg-flip", "msg-append", "msg-trunc", "ctx", "pk-seed", "pk-root", "sig-swap-chunks", "other-key"}

func mutate(r *hx.Rng, b *base, kind string) string {
	p := b.p
	n := p.n
	sl := len(b.sig)
	// layout: R (n) ‖ FORS k × (sk n ‖ auth a·n) ‖ HT d × (WOTS len·n ‖ auth hp·n)
	switch kind {
	case "sig-R":
		return vfLine(b, b.pk, b.msg, b.ctx, flip(r, b.sig, 0, n), "-"+kind)
	case "sig-fors-sk":
		return vfLine(b, b.pk, b.msg, b.ctx, flip(r, b.sig, n, 2*n), "-"+kind)
	case "sig-fors-auth":
		return vfLine(b, b.pk, b.msg, b.ctx, flip(r, b.sig, 2*n, 4*n), "-"+kind)
	case "sig-ht-wots0", "sig-ht-wotsJ", "sig-ht-auth":
		lay := layoutOf(p)
		switch kind {
		case "sig-ht-wots0":
			return vfLine(b, b.pk, b.msg, b.ctx, flip(r, b.sig, lay.ht, lay.ht+lay.wots), "-"+kind)
		case "sig-ht-wotsJ":
			j := r.Intn(lay.d)
			o := lay.ht + j*lay.xmss
			return vfLine(b, b.pk, b.msg, b.ctx, flip(r, b.sig, o, o+lay.wots), fmt.Sprintf("-%s", kind))
		default:
			j := r.Intn(lay.d)
			o := lay.ht + j*lay.xmss + lay.wots
			return vfLine(b, b.pk, b.msg, b.ctx, flip(r, b.sig, o, o+lay.xmss-lay.wots), "-"+kind)
		}
	case "sig-last":
		return vfLine(b, b.pk, b.msg, b.ctx, flip(r, b.sig, sl-1, sl), "-"+kind)
	case "msg-flip":
		if len(b.msg) == 0 {
			return vfLine(b, b.pk, []byte{0}, b.ctx, b.sig, "-msg-append")
		}
		return vfLine(b, b.pk, flip(r, b.msg, 0, len(b.msg)), b.ctx, b.sig, "-"+kind)
	case "msg-append":
		return vfLine(b, b.pk, append(append([]byte{}, b.msg...), byte(r.Intn(256))), b.ctx, b.sig, "-"+kind)
	case "msg-trunc":
		if len(b.msg) == 0 {
			return vfLine(b, b.pk, []byte{0}, b.ctx, b.sig, "-msg-append")
		}
		return vfLine(b, b.pk, b.msg[:len(b.msg)-1], b.ctx, b.sig, "-"+kind)
	case "ctx":
		c := append(append([]byte{}, b.ctx...), 1)
		if len(c) > 255 {
			c = c[:10]
		}
		return vfLine(b, b.pk, b.msg, c, b.sig, "-"+kind)
	case "pk-seed":
		return vfLine(b, flip(r, b.pk, 0, n), b.msg, b.ctx, b.sig, "-"+kind)
	case "pk-root":
		return vfLine(b, flip(r, b.pk, n, 2*n), b.msg, b.ctx, b.sig, "-"+kind)
	case "sig-swap-chunks":
		c := append([]byte{}, b.sig...)
		i := r.Intn(sl/n - 1)
		for k := 0; k < n; k++ {
			c[i*n+k], c[(i+1)*n+k] = c[(i+1)*n+k], c[i*n+k]
		}
		return vfLine(b, b.pk, b.msg, b.ctx, c, "-"+kind)
	case "other-key":
		// a well-formed key of the same set that did not sign; only f sets (cheap keygen)
		return vfLine(b, append(append([]byte{}, b.pk[:n]...), r.Bytes(n)...), b.msg, b.ctx, b.sig, "-"+kind)
	}
	panic("mutation kind")
}

type layout struct{ ht, wots, xmss, d int }

func layoutOf(p *pset) layout {
	// n, (k, a, d, hp, len) per table
	type t struct{ k, a, d, hp, ln int }
	tab := map[string]t{"128s": {14, 12, 7, 9, 35}, "128f": {33, 6, 22, 3, 35}, "192s": {17, 14, 7, 9, 51},
		"192f": {33, 8, 22, 3, 51}, "256s": {22, 14, 8, 8, 67}, "256f": {35, 9, 17, 4, 67}}
	x := tab[p.name[strings.Index(p.name, "-")+1:]]
	return layout{ht: (1 + x.k*(1+x.a)) * p.n, wots: x.ln * p.n, xmss: (x.ln + x.hp) * p.n, d: x.d}
}

// free cases: decided before any hashing
func cheap(r *hx.Rng, b *base) []string {
	p := b.p
	out := []string{
		vfLine(b, b.pk, b.msg, b.ctx, b.sig[:len(b.sig)-1], "-len-1"),
		vfLine(b, b.pk, b.msg, b.ctx, append(append([]byte{}, b.sig...), 0), "-len+1"),
		vfLine(b, b.pk, b.msg, b.ctx, b.sig[:len(b.sig)-p.n], "-len-n"),
		vfLine(b, b.pk, b.msg, b.ctx, append(append([]byte{}, b.sig...), r.Bytes(p.n)...), "-len+n"),
		vfLine(b, b.pk, b.msg, b.ctx, nil, "-empty"),
		vfLine(b, b.pk, b.msg, b.ctx, b.sig[:r.Intn(len(b.sig))], "-prefix"),
		vfLine(b, b.pk[:2*p.n-1], b.msg, b.ctx, b.sig, "-pklen-1"),
		vfLine(b, append(append([]byte{}, b.pk...), 0), b.msg, b.ctx, b.sig, "-pklen+1"),
		vfLine(b, nil, b.msg, b.ctx, b.sig, "-pkempty"),
		vfLine(b, b.pk, b.msg, r.Bytes(256), b.sig, "-ctx256"),

		fmt.Sprintf("C16|sg|%s|%s|%s|%s|d|-ctx256", p.name, hx.H(b.sk), hx.H(b.msg), hx.H(r.Bytes(256+r.Intn(3)))),
		fmt.Sprintf("C16|sg|%s|%s|%s|-|d|-sklen", p.name, hx.H(b.sk[:len(b.sk)-1-r.Intn(3)]), hx.H(b.msg)),
		fmt.Sprintf("C16|sg|%s|%s|%s|-|%s|-sklen", p.name, hx.H(append(append([]byte{}, b.sk...), 7)), hx.H(b.msg), hx.H(b.addrnd)),
	}
	if b.aliasSig != nil {
		out = append(out, vfLine(b, b.pk, b.msg, b.ctxLong, b.aliasSig, "-ctxalias"))
	}
	// another parameter set's signature size under this key
	for _, q := range sets {
		if q.n == p.n && q.fast != p.fast && q.hash == p.hash {
			out = append(out, vfLine(b, b.pk, b.msg, b.ctx, r.Bytes(q.sigLen), "-len-of-"+q.name))
		}
	}
	return out
}

// Tink-API verify cases that cost nothing: wrong / missing prefix, wrong key length
func cheapTink(r *hx.Rng, b *base, id uint32) []string {
	p := b.p
	pre := []byte{1, byte(id >> 24), byte(id >> 16), byte(id >> 8), byte(id)}
	good := append(append([]byte{}, pre...), b.sig...)
	tv := func(v string, pk, msg, sig []byte, tag string) string {
		return fmt.Sprintf("C16|tv|%s|%s|%d|%s|%s|%s|%s", p.name, v, id, hx.H(pk), hx.H(msg), hx.H(sig), tag)
	}
	badpre := append([]byte{}, good...)
	badpre[r.Intn(5)] ^= byte(1 << r.Intn(8))
	return []string{
		tv("T", b.pk, b.msg, badpre, "-prefix-flip"),
		tv("T", b.pk, b.msg, b.sig, "?no-prefix-on-tink-key"),
		tv("N", b.pk, b.msg, good, "-prefix-on-raw-key"),
		tv("T", b.pk, b.msg, good[:4], "-short"),
		tv("T", b.pk, b.msg, nil, "-empty"),
		tv("T", b.pk[:len(b.pk)-1], b.msg, good, "-pklen-1"),
		tv("N", append(append([]byte{}, b.pk...), 0), b.msg, b.sig, "-pklen+1"),
		tv("T", b.pk, b.msg, good[:len(good)-1], "-len-1"),
		// wrong lengths through the Tink verifier, both variants (C16_wrong_length_rejected_by_tink_verify)
		tv("T", b.pk, b.msg, append(append([]byte{}, good...), 0), "-len+1"),
		tv("N", b.pk, b.msg, b.sig[:len(b.sig)-1], "-len-1"),
		tv("N", b.pk, b.msg, append(append([]byte{}, b.sig...), byte(r.Intn(256))), "-len+1"),
		tv("T", b.pk, b.msg, good[:5+p.n], "-only-prefix-and-R"),
	}
}

// keyVerifierPrefixCases: the verifier of a TINK key used directly must insist on the 5-byte output
// prefix itself: the bare FIPS 205 signature, the signature behind another id / the CRUNCHY start byte /
// a flipped prefix bit, and a doubled prefix are rejected (all without running SLH-DSA verification on a
// correct implementation); a NO_PREFIX key rejects the prefixed signature; the
// genuine prefixed signature (and the bare one under the NO_PREFIX key) is accepted.
func keyVerifierPrefixCases(r *hx.Rng, b *base, sig0 []byte, id uint32) []string {
	p := b.p
	pre := []byte{1, byte(id >> 24), byte(id >> 16), byte(id >> 8), byte(id)}
	good := append(append([]byte{}, pre...), sig0...)
	tk := func(v string, sig []byte, tag string) string {
		return fmt.Sprintf("C16|tk|%s|%s|%d|%s|%s|%s|%s", p.name, v, id, hx.H(b.pk), hx.H(b.msg), hx.H(sig), tag)
	}
	other := append([]byte{1, byte(id >> 24), byte(id >> 16), byte(id >> 8), byte(id) ^ 1}, sig0...)
	crunchy := append([]byte{0, byte(id >> 24), byte(id >> 16), byte(id >> 8), byte(id)}, sig0...)
	flip := append([]byte{}, good...)
	flip[r.Intn(5)] ^= byte(1 << r.Intn(8))
	return []string{
		tk("T", good, "+valid"),
		tk("N", sig0, "+valid-raw"),
		tk("T", sig0, "-bare-signature-on-tink-key"),
		tk("T", other, "-other-id"),
		tk("T", crunchy, "-crunchy-start-byte"),
		tk("T", flip, "-prefix-flip"),
		tk("T", append(append([]byte{}, pre...), good...), "-doubled-prefix"),
		tk("T", sig0[5:], "-bare-signature-cut-by-5"),
		tk("N", good, "-prefix-on-raw-key"),
		tk("T", good[:5], "-only-prefix"),
		tk("T", nil, "-empty"),
	}
}

func kgLine(r *hx.Rng, p *pset, tag string) string {
	return fmt.Sprintf("C16|kg|%s|%s|%s|%s|%s", p.name, hx.H(r.Bytes(p.n)), hx.H(r.Bytes(p.n)), hx.H(r.Bytes(p.n)), tag)
}

func sgLine(r *hx.Rng, p *pset, det bool) string {
	sk := keygenWith(p, r.Bytes(p.n), r.Bytes(p.n), r.Bytes(p.n))
	rnd := "d"
	tag := "+det"
	if !det {
		rnd = hx.H(r.Bytes(p.n))
		tag = "+rnd"
	}
	return fmt.Sprintf("C16|sg|%s|%s|%s|%s|%s|%s", p.name, hx.H(sk), hx.H(msgOf(r)), hx.H(ctxOf(r)), rnd, tag)
}

func gen(r *hx.Rng, n int, tier string) []string {
	budget := n * callsPerCase
	var out []string
	spend := func(c int) bool {
		if budget < c {
			return false
		}
		budget -= c
		return true
	}
	var fast, small []*pset
	for _, p := range sets {
		if p.fast {
			fast = append(fast, p)
		} else {
			small = append(small, p)
		}
	}
	bases := map[string]*base{}
	// A. every parameter set: a genuine Tink signature verified by the model,
	// the free rejection classes, and one (thorough: three) full-cost modifications
	var wg sync.WaitGroup
	for _, p := range sets {
		b := newBase(r, p)
		bases[p.name] = b
		wg.Add(1)
		go func() { defer wg.Done(); b.finish() }()
	}
	wg.Wait()
	for _, p := range sets {
		b := bases[p.name]
		out = append(out, cheap(r, b)...)
		// two free Tink-verifier rejections (prefix / length classes) per set
		ct := cheapTink(r, b, uint32(r.U64()))
		out = append(out, ct[r.Intn(len(ct))], ct[8+r.Intn(len(ct)-8)])
		// the key's own verifier (no keyset wrapper in front of it): the whole prefix family, every set
		// (built from a genuine signature over the EMPTY context, the one the Tink verifier passes on: the
		// base signature when the base context is empty, a fresh one for the fast sets otherwise; a slow set
		// whose base context is not empty sits out this run - fourth audit E1)
		sig0 := b.sig
		if len(b.ctx) != 0 {
			sig0 = nil
			if p.fast {
				sig0 = signTinkMsg(b)
			}
		}
		if sig0 != nil {
			out = append(out, keyVerifierPrefixCases(r, b, sig0, uint32(r.U64()))...)
		}
		if spend(p.cVf) {
			out = append(out, vfLine(b, b.pk, b.msg, b.ctx, b.sig, "+valid"))
		}
		nmut := 1
		if tier == "thorough" {
			nmut = 3
		}
		for i := 0; i < nmut; i++ {
			if spend(p.cVf) {
				out = append(out, mutate(r, b, hx.PickS(r, mutKinds)))
			}
		}
	}
	// B. keys CREATED by Tink (keyset.Manager.AddNewKeyFromParameters) for every
	// parameter set and both variants, seeds and key id on the tape: the direct
	// check recomputes PK.root with the internal key generation of the NAMED set
	// and (f sets; s sets in the thorough tier) signs and verifies with the
	// generated key.  For the f sets one variant (thorough: both) is also derived
	// by the model from the seeds ("full": public keys from secret seeds, byte
	// for byte); the s sets cost 275k-420k model calls and are "full" only when
	// the thorough budget allows.
	for _, p := range sets {
		fullV := hx.PickS(r, []string{"T", "N"})
		for _, v := range []string{"T", "N"} {
			mode := "proj"
			if (p.fast && (v == fullV || tier == "thorough") || !p.fast && tier == "thorough" && v == fullV) && spend(p.cKg) {
				mode = "full"
			}
			out = append(out, gkLine(r, p, v, mode, p.fast || tier == "thorough"))
		}
	}
	// C. signing compared byte for byte (the corpus holds the SHA2-128f known answer)
	{
		p := setByName("SHAKE-128f")
		if spend(p.cSg) {
			out = append(out, sgLine(r, p, r.Chance(60)))
		}
	}
	// D. through the Tink API (keyset handle, signature.NewSigner / NewVerifier)
	{
		p := hx.PickS(r, sets)
		b := bases[p.name]
		id := uint32(r.U64())
		out = append(out, cheapTink(r, b, id)...)
		pre := []byte{1, byte(id >> 24), byte(id >> 16), byte(id >> 8), byte(id)}
		if spend(p.cVf) {
			out = append(out, fmt.Sprintf("C16|tv|%s|T|%d|%s|%s|%s|%s", p.name, id, hx.H(b.pk), hx.H(b.msg), hx.H(append(pre, signTinkMsg(b)...)), "+tink-valid-T"))
		}
		q := hx.PickS(r, []*pset{setByName("SHAKE-128f"), setByName("SHA2-128f")})
		if (tier == "thorough" || r.Chance(50)) && spend(q.cSg) {
			qb := bases[q.name]
			v := hx.PickS(r, []string{"T", "N"})
			out = append(out, fmt.Sprintf("C16|ts|%s|%s|%d|%s|%s|%s|+tink-sign", q.name, v, id, hx.H(qb.sk), hx.H(msgOf(r)), hx.H(r.Bytes(q.n))))
		}
	}
	// E. one big case that still fits the budget: a larger f set signs
	// deterministically, or an s set derives its public key from the seeds
	{
		type big struct {
			p  *pset
			kg bool
		}
		var opts []big
		for _, p := range fast {
			if p.n > 16 {
				opts = append(opts, big{p, false})
			}
		}
		for _, p := range small {
			opts = append(opts, big{p, true})
		}
		for i := len(opts) - 1; i > 0; i-- {
			j := r.Intn(i + 1)
			opts[i], opts[j] = opts[j], opts[i]
		}
		for _, o := range opts {
			if tier != "thorough" && (o.kg && o.p.cKg > 350000 || !o.kg && o.p.cSg > 350000) {
				continue // the two 192s key generations (≈ 420k calls) are thorough-tier only
			}
			if o.kg && spend(o.p.cKg) {
				out = append(out, kgLine(r, o.p, "+kg"))
				break
			}
			if !o.kg && spend(o.p.cSg) {
				out = append(out, sgLine(r, o.p, true))
				break
			}
		}
	}
	// G. the rest of the budget (quick: at most 40k calls of it): more of everything,
	// s-set signing when it fits (thorough tier)
	if tier != "thorough" && budget > 40000 {
		budget = 40000
	}
	for round := 0; budget > 0 && round < 100000; round++ {
		p := hx.PickS(r, sets)
		b := bases[p.name]
		switch k := r.Intn(10); {
		case k < 5:
			if spend(p.cVf) {
				if r.Chance(15) {
					b = newBase(r, p)
					b.finish()
					bases[p.name] = b
					out = append(out, vfLine(b, b.pk, b.msg, b.ctx, b.sig, "+valid"))
				} else {
					out = append(out, mutate(r, b, hx.PickS(r, mutKinds)))
				}
			}
		case k < 7:
			if spend(p.cKg) {
				out = append(out, kgLine(r, p, "+kg"))
			}
		case k < 9:
			if spend(p.cSg) {
				out = append(out, sgLine(r, p, r.Chance(60)))
			}
		default:
			id := uint32(r.U64())
			out = append(out, cheapTink(r, b, id)[r.Intn(8)])
			if p.fast && spend(p.cSg) {
				out = append(out, fmt.Sprintf("C16|ts|%s|%s|%d|%s|%s|%s|+tink-sign", p.name, hx.PickS(r, []string{"T", "N"}), id, hx.H(b.sk), hx.H(msgOf(r)), hx.H(r.Bytes(p.n))))
			}
		}
		if budget < 2000 {
			break
		}
	}
	return out
}

// a genuine signature over b.msg with the empty context (what the Tink API signs)
func signTinkMsg(b *base) []byte {
	sig, ok := signWith(b.p, b.sk, b.msg, nil, "d")
	if !ok {
		panic("sign")
	}
	return sig
}
