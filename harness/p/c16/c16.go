// Package c16 is the harness of property C16 (SLH-DSA keys and signatures
// conform to FIPS 205 on every input): it runs the real tink-go code, through
// the internal API (internal/signature/slhdsa) and through the public one
// (signature/slhdsa keys in a keyset handle + signature.NewSigner /
// NewVerifier), on self-contained case lines; the extracted Coq model over
// the stdlib hash oracle is the independent reference.
//
// case lines (hex, "-" = empty):
//
//	C16|kg|set|skSeed|skPrf|pkSeed|tag        KeyGen with the three seeds on the tape  -> hex(SecretKey.Encode())
//	C16|tk|set|T/N|id|pk|msg|sig|tag          the key's own verifier (slhdsa.NewVerifier, no keyset wrapper) -> ok | rej | badkey
//	C16|sg|set|sk|msg|ctx|addrnd|tag          Sign (addrnd on the tape) / SignDeterministic (addrnd "d") -> hex(sig) | err
//	C16|vf|set|pk|msg|ctx|sig|tag             Verify -> ok | rej | badkey
//	C16|ts|set|T/N|id|sk|msg|addrnd|tag       Tink signer from a keyset handle -> hex(prefix‖sig) | err
//	C16|tv|set|T/N|id|pk|msg|sig|tag          Tink verifier from a keyset handle -> ok | rej | badkey
//	C16|gk|set|T/N|id|skSeed|skPrf|pkSeed|mode|tag   key CREATED by Tink (AddNewKeyFromParameters), see genkey.go
//
// tag = "<expectation><mutation label>"; expectation '+' (must be accepted),
// '-' (must be rejected) or '?'; the tag is not read by Run or by the model.
package c16

import (
	"crypto/sha256"
	"encoding/binary"
	"fmt"
	"strconv"
	"strings"

	"github.com/tink-crypto/tink-go/v2/insecuresecretdataaccess"
	"github.com/tink-crypto/tink-go/v2/internal/internalapi"
	islh "github.com/tink-crypto/tink-go/v2/internal/signature/slhdsa"
	"github.com/tink-crypto/tink-go/v2/keyset"
	"github.com/tink-crypto/tink-go/v2/secretdata"
	"github.com/tink-crypto/tink-go/v2/signature"
	tslh "github.com/tink-crypto/tink-go/v2/signature/slhdsa"
	"github.com/tink-crypto/tink-go/v2/verifharness/hx"
)

type pset struct {
	name    string
	n       int
	sigLen  int
	fast    bool
	keygen  func() []byte
	decSK   func([]byte) (*islh.SecretKey, error)
	decPK   func([]byte) (*islh.PublicKey, error)
	hash    tslh.HashType
	keySize int
	sigType tslh.SignatureType
	// rough number of hash calls of the model: keygen, sign, verify (budgeting only)
	cKg, cSg, cVf int
}

type internalParams interface {
	KeyGen() (*islh.SecretKey, *islh.PublicKey)
	DecodeSecretKey([]byte) (*islh.SecretKey, error)
	DecodePublicKey([]byte) (*islh.PublicKey, error)
	PublicKeyLength() int
}

func mk(name string, p internalParams, sigLen int, fast bool, hash tslh.HashType, st tslh.SignatureType, cKg, cSg, cVf int) *pset {
	return &pset{name: name, n: p.PublicKeyLength() / 2, sigLen: sigLen, fast: fast,
		keygen:  func() []byte { sk, _ := p.KeyGen(); return sk.Encode() },
		decSK:   p.DecodeSecretKey,
		decPK:   p.DecodePublicKey,
		hash:    hash,
		keySize: 2 * p.PublicKeyLength(), sigType: st, cKg: cKg, cSg: cSg, cVf: cVf}
}

var sets = []*pset{
	mk("SHA2-128s", islh.SLH_DSA_SHA2_128s, 7856, false, tslh.SHA2, tslh.SmallSignature, 288000, 2200000, 2100),
	mk("SHAKE-128s", islh.SLH_DSA_SHAKE_128s, 7856, false, tslh.SHAKE, tslh.SmallSignature, 288000, 2200000, 2100),
	mk("SHA2-128f", islh.SLH_DSA_SHA2_128f, 17088, true, tslh.SHA2, tslh.FastSigning, 4500, 105000, 6200),
	mk("SHAKE-128f", islh.SLH_DSA_SHAKE_128f, 17088, true, tslh.SHAKE, tslh.FastSigning, 4500, 105000, 6200),
	mk("SHA2-192s", islh.SLH_DSA_SHA2_192s, 16224, false, tslh.SHA2, tslh.SmallSignature, 419000, 3800000, 3000),
	mk("SHAKE-192s", islh.SLH_DSA_SHAKE_192s, 16224, false, tslh.SHAKE, tslh.SmallSignature, 419000, 3800000, 3000),
	mk("SHA2-192f", islh.SLH_DSA_SHA2_192f, 35664, true, tslh.SHA2, tslh.FastSigning, 6600, 170000, 8900),
	mk("SHAKE-192f", islh.SLH_DSA_SHAKE_192f, 35664, true, tslh.SHAKE, tslh.FastSigning, 6600, 170000, 8900),
	mk("SHA2-256s", islh.SLH_DSA_SHA2_256s, 29792, false, tslh.SHA2, tslh.SmallSignature, 275000, 3300000, 4400),
	mk("SHAKE-256s", islh.SLH_DSA_SHAKE_256s, 29792, false, tslh.SHAKE, tslh.SmallSignature, 275000, 3300000, 4400),
	mk("SHA2-256f", islh.SLH_DSA_SHA2_256f, 49856, true, tslh.SHA2, tslh.FastSigning, 17200, 346000, 9000),
	mk("SHAKE-256f", islh.SLH_DSA_SHAKE_256f, 49856, true, tslh.SHAKE, tslh.FastSigning, 17200, 346000, 9000),
}

func setByName(s string) *pset {
	for _, p := range sets {
		if p.name == s {
			return p
		}
	}
	panic("unknown parameter set " + s)
}

// ---- running the real code -------------------------------------------------

func keygenWith(p *pset, skSeed, skPrf, pkSeed []byte) []byte {
	var out []byte
	t := &hx.Tape{Bulk: append(append(append([]byte{}, skSeed...), skPrf...), pkSeed...)}
	hx.WithTape(t, func() { out = p.keygen() })
	return out
}

func signWith(p *pset, sk, msg, ctx []byte, rnd string) ([]byte, bool) {
	k, err := p.decSK(sk)
	if err != nil {
		return nil, false
	}
	var sig []byte
	if rnd == "d" {
		sig, err = k.SignDeterministic(msg, ctx)
	} else {
		hx.WithTape(&hx.Tape{Bulk: hx.UH(rnd)}, func() { sig, err = k.Sign(msg, ctx) })
	}
	return sig, err == nil
}

func verifyWith(p *pset, pk, msg, ctx, sig []byte) string {
	k, err := p.decPK(pk)
	if err != nil {
		return "badkey"
	}
	if k.Verify(msg, sig, ctx) != nil {
		return "rej"
	}
	return "ok"
}

func tinkParams(p *pset, v string) *tslh.Parameters {
	variant := tslh.VariantNoPrefix
	if v == "T" {
		variant = tslh.VariantTink
	}
	params, err := tslh.NewParameters(p.hash, p.keySize, p.sigType, variant)
	if err != nil {
		panic(err)
	}
	return params
}

func idReq(v string, id uint32) uint32 {
	if v == "T" {
		return id
	}
	return 0
}

func tinkSign(p *pset, v string, id uint32, sk, msg []byte, rnd []byte) ([]byte, bool) {
	key, err := tslh.NewPrivateKey(secretdata.NewBytesFromData(sk, insecuresecretdataaccess.Token{}), idReq(v, id), tinkParams(p, v))
	if err != nil {
		return nil, false
	}
	var sig []byte
	ok := false
	hx.WithTape(&hx.Tape{IDs: []uint32{id}, Bulk: rnd}, func() {
		km := keyset.NewManager()
		kid, err := km.AddKey(key)
		if err != nil {
			return
		}
		if km.SetPrimary(kid) != nil {
			return
		}
		h, err := km.Handle()
		if err != nil {
			return
		}
		s, err := signature.NewSigner(h)
		if err != nil {
			return
		}
		sig, err = s.Sign(msg)
		ok = err == nil
	})
	return sig, ok
}

func tinkVerify(p *pset, v string, id uint32, pk, msg, sig []byte) string {
	key, err := tslh.NewPublicKey(pk, idReq(v, id), tinkParams(p, v))
	if err != nil {
		return "badkey"
	}
	res := "rej"
	hx.WithTape(&hx.Tape{IDs: []uint32{id}}, func() {
		km := keyset.NewManager()
		kid, err := km.AddKey(key)
		if err != nil {
			res = "badkey"
			return
		}
		if km.SetPrimary(kid) != nil {
			res = "badkey"
			return
		}
		h, err := km.Handle()
		if err != nil {
			res = "badkey"
			return
		}
		vf, err := signature.NewVerifier(h)
		if err != nil {
			res = "badkey"
			return
		}
		if vf.Verify(sig, msg) == nil {
			res = "ok"
		}
	})
	return res
}

// keyVerify: the verifier of the key itself, which has to check the output prefix on its own (the
// keyset wrapper only hands it signatures that already start with the prefix)
func keyVerify(p *pset, v string, id uint32, pk, msg, sig []byte) string {
	key, err := tslh.NewPublicKey(pk, idReq(v, id), tinkParams(p, v))
	if err != nil {
		return "badkey"
	}
	vf, err := tslh.NewVerifier(key, internalapi.Token{})
	if err != nil {
		return "badkey"
	}
	if vf.Verify(sig, msg) == nil {
		return "ok"
	}
	return "rej"
}

func sigOut(sig []byte, ok bool) string {
	if !ok {
		return "err"
	}
	return hx.H(sig)
}

func run(in string) string {
	f := strings.Split(in, "|")
	p := setByName(f[2])
	switch f[1] {
	case "gk":
		return runGK(in)
	case "kg":
		return hx.H(keygenWith(p, hx.UH(f[3]), hx.UH(f[4]), hx.UH(f[5])))
	case "sg":
		return sigOut(signWith(p, hx.UH(f[3]), hx.UH(f[4]), hx.UH(f[5]), f[6]))
	case "vf":
		return verifyWith(p, hx.UH(f[3]), hx.UH(f[4]), hx.UH(f[5]), hx.UH(f[6]))
	case "ts":
		id, _ := strconv.ParseUint(f[4], 10, 32)
		return sigOut(tinkSign(p, f[3], uint32(id), hx.UH(f[5]), hx.UH(f[6]), hx.UH(f[7])))
	case "tv":
		id, _ := strconv.ParseUint(f[4], 10, 32)
		return tinkVerify(p, f[3], uint32(id), hx.UH(f[5]), hx.UH(f[6]), hx.UH(f[7]))
	case "tk":
		id, _ := strconv.ParseUint(f[4], 10, 32)
		return keyVerify(p, f[3], uint32(id), hx.UH(f[5]), hx.UH(f[6]), hx.UH(f[7]))
	}
	panic("bad case line")
}

// ---- direct property oracle (no model) -------------------------------------
// Tink verifies its own signatures; one modified byte of signature or
// message, a wrong length, or another key is rejected; keygen returns its
// seeds; the expectation tag of generated verify cases is met.

func lineHash(in string) uint64 {
	h := sha256.Sum256([]byte(in))
	return binary.BigEndian.Uint64(h[:8])
}

func selfCheck(tag string, in string, verify func(msg, sig []byte) string, msg, sig []byte, sigLen int) string {
	if len(sig) != sigLen {
		return fmt.Sprintf("%s: signature has %d bytes, FIPS 205 size is %d", tag, len(sig), sigLen)
	}
	if r := verify(msg, sig); r != "ok" {
		return tag + ": own signature not accepted: " + r
	}
	x := lineHash(in)
	pos := int(x % uint64(len(sig)))
	bad := append([]byte{}, sig...)
	bad[pos] ^= byte(1 << ((x >> 32) % 8))
	if r := verify(msg, bad); r == "ok" {
		return fmt.Sprintf("%s: signature with byte %d modified accepted", tag, pos)
	}
	if r := verify(append(append([]byte{}, msg...), 0), sig); r == "ok" {
		return tag + ": signature accepted for an extended message"
	}
	if r := verify(msg, sig[:len(sig)-1]); r == "ok" {
		return tag + ": truncated signature accepted"
	}
	return ""
}

func check(in, obs string) string {
	if strings.HasPrefix(obs, "PANIC") {
		return obs
	}
	f := strings.Split(in, "|")
	p := setByName(f[2])
	tag := f[len(f)-1]
	switch f[1] {
	case "gk":
		return checkGK(in, obs)
	case "kg":
		sk := hx.UH(obs)
		want := append(append(append([]byte{}, hx.UH(f[3])...), hx.UH(f[4])...), hx.UH(f[5])...)
		if len(sk) != 4*p.n || string(sk[:3*p.n]) != string(want) {
			return "keygen: encoded secret key does not start with the three seeds / has the wrong size"
		}
	case "sg":
		if obs == "err" {
			if strings.HasPrefix(tag, "+") {
				return "sign failed on valid input"
			}
			return ""
		}
		if strings.HasPrefix(tag, "-") {
			return "sign succeeded on invalid input"
		}
		if i := strings.Index(tag, "kat-sign:"); i >= 0 {
			// known-answer test: sha256 of the expected deterministic signature
			h := sha256.Sum256(hx.UH(obs))
			if hx.H(h[:]) != tag[i+len("kat-sign:"):] {
				return "deterministic signature differs from the reference implementation's known answer"
			}
		}
		sk := hx.UH(f[3])
		pk := sk[2*p.n:]
		ctx := hx.UH(f[5])
		return selfCheck("sign", in, func(m, s []byte) string { return verifyWith(p, pk, m, ctx, s) }, hx.UH(f[4]), hx.UH(obs), p.sigLen)
	case "ts":
		if obs == "err" {
			if strings.HasPrefix(tag, "+") {
				return "tink sign failed on valid input"
			}
			return ""
		}
		id, _ := strconv.ParseUint(f[4], 10, 32)
		sk := hx.UH(f[5])
		pk := sk[2*p.n:]
		pl := 0
		if f[3] == "T" {
			pl = 5
		}
		return selfCheck("tink sign", in, func(m, s []byte) string { return tinkVerify(p, f[3], uint32(id), pk, m, s) }, hx.UH(f[6]), hx.UH(obs), p.sigLen+pl)
	case "vf", "tv", "tk":
		if strings.HasPrefix(tag, "+") && obs != "ok" {
			return "genuine signature not accepted: " + obs + " (" + tag + ")"
		}
		if strings.HasPrefix(tag, "-") && obs == "ok" {
			return "modified input accepted (" + tag + ")"
		}
	}
	return ""
}

func class(in, obs string) string {
	f := strings.Split(in, "|")
	o := obs
	if len(o) > 6 {
		o = "bytes"
	}
	return f[1] + "/" + f[2] + "/" + f[len(f)-1] + "/" + o
}

func init() {
	hx.Register("C16", &hx.Prop{Gen: gen, Run: run, Check: check, Class: class})
}
