package c04

// Cases W: one crypto/hmac object (the hash.Hash that internal/mac/hmac, prf/subtle
// and x/crypto/hkdf all drive) used through Write / Sum(in) / Reset in an arbitrary
// order.  The model side is crypto/hmac AS CODED (coq/model/HmacCode.v: pads by copy
// and xor loop, long keys hashed with the outer hash, the marshaled-state shortcut of
// Reset); the theorem C04_crypto_hmac_as_coded_is_rfc2104 says what every Sum returns.
//
//   C04|W|<hash>|<key hex>|<op;op;...>      op = w<hex> Write, s<hex> Sum(in), r Reset
//   observation: ok|<sum>,<sum>,...          one per Sum (hex of in || tag)
//
// The direct check computes RFC 2104 by hand over the bare hash function:
// H((K0 xor opad) || H((K0 xor ipad) || data written since New / the last Reset)).

import (
	"bytes"
	stdhmac "crypto/hmac"
	"fmt"
	"strings"

	"github.com/tink-crypto/tink-go/v2/verifharness/hx"
)

func runHmacObj(f []string) string {
	hf := stdHash(f[2])
	if hf == nil {
		return "BADCASE"
	}
	m := stdhmac.New(hf, hx.UH(f[3]))
	var sums []string
	for _, op := range strings.Split(f[4], ";") {
		if op == "" {
			continue
		}
		switch op[0] {
		case 'w':
			m.Write(hx.UH(op[1:]))
		case 's':
			in := hx.UH(op[1:])
			sums = append(sums, hx.H(m.Sum(append([]byte(nil), in...))))
		case 'r':
			m.Reset()
		}
	}
	return "ok|" + strings.Join(sums, ",")
}

func rfc2104(alg string, key, data []byte) []byte {
	hf := stdHash(alg)
	h := hf()
	b := h.BlockSize()
	k0 := make([]byte, b)
	if len(key) > b {
		h.Write(key)
		copy(k0, h.Sum(nil))
	} else {
		copy(k0, key)
	}
	ip, op := make([]byte, b), make([]byte, b)
	for i := range k0 {
		ip[i], op[i] = k0[i]^0x36, k0[i]^0x5c
	}
	in := hf()
	in.Write(ip)
	in.Write(data)
	out := hf()
	out.Write(op)
	out.Write(in.Sum(nil))
	return out.Sum(nil)
}

func checkHmacObj(f []string, obs string) string {
	if !strings.HasPrefix(obs, "ok|") {
		return "crypto/hmac object: " + obs
	}
	got := strings.Split(obs[3:], ",")
	if obs == "ok|" {
		got = nil
	}
	key := hx.UH(f[3])
	var data []byte
	i := 0
	for _, op := range strings.Split(f[4], ";") {
		if op == "" {
			continue
		}
		switch op[0] {
		case 'w':
			data = append(data, hx.UH(op[1:])...)
		case 'r':
			data = nil
		case 's':
			want := append(append([]byte(nil), hx.UH(op[1:])...), rfc2104(f[2], key, data)...)
			if i >= len(got) || !bytes.Equal(hx.UH(got[i]), want) {
				return fmt.Sprintf("Sum number %d is not in || RFC 2104 HMAC of the %d bytes written since New/Reset", i, len(data))
			}
			i++
		}
	}
	if i != len(got) {
		return "number of Sum results differs from the operations"
	}
	return ""
}

func classHmacObj(f []string, obs string) string {
	b := 64
	if f[2] == "SHA384" || f[2] == "SHA512" {
		b = 128
	}
	kl := len(hx.UH(f[3]))
	kc := "k<"
	switch {
	case kl == 0:
		kc = "k0"
	case kl == b:
		kc = "k="
	case kl > b:
		kc = "k>"
	}
	var pat []byte
	for _, op := range strings.Split(f[4], ";") {
		if op != "" && len(pat) < 7 {
			pat = append(pat, op[0])
		}
	}
	return fmt.Sprintf("W:%s:%s:%s", f[2], kc, string(pat))
}

func genHmacObj(r *hx.Rng) string {
	h := hx.PickS(r, hashes)
	b := 64
	if h == "SHA384" || h == "SHA512" {
		b = 128
	}
	key := r.Bytes(r.Pick([]int{0, 1, 16, 32, b - 1, b, b + 1, 2 * b, r.Intn(300)}))
	var ops []string
	n := 1 + r.Intn(8)
	for i := 0; i < n; i++ {
		switch x := r.Intn(10); {
		case x < 5:
			ops = append(ops, "w"+hx.H(r.Bytes(r.Pick([]int{0, 1, b - 1, b, b + 1, r.Intn(3 * b)}))))
		case x < 8:
			in := []byte{}
			if r.Chance(30) {
				in = r.Bytes(1 + r.Intn(20))
			}
			ops = append(ops, "s"+hx.H(in))
		default:
			ops = append(ops, "r")
		}
	}
	ops = append(ops, "s-")
	return fmt.Sprintf("C04|W|%s|%s|%s", h, hx.H(key), strings.Join(ops, ";"))
}
