package c04

// Directed long messages.  The random generator's message lengths stop around a few hundred bytes;
// an implementation that processes the non-final AES-CMAC blocks in bulk (CBC over a fixed buffer of
// 16 or 64 blocks) or a hash that buffers several blocks goes wrong only beyond that.  These cases
// put AES-CMAC on every route (mac/subtle, internal/mac/aescmac, aescmac.NewMAC, mac.New,
// mac.NewWithConfig through the adapter) and HMAC on messages of many hash blocks, at lengths around
// the multiples of 16 and 64 blocks, for LEGACY keys too (MAC input = message || 0x00: the window
// shifts by one byte).  The model computes the same lengths (AES block / hash from the oracle).

import (
	"fmt"

	"github.com/tink-crypto/tink-go/v2/verifharness/hx"
)

var longLensQuick = []int{256, 257, 272, 273, 288, 300, 528, 1040, 1041, 1057, 2065, 4100}
var longLensThorough = []int{255, 256, 257, 272, 273, 288, 300, 512, 528, 1024, 1040, 1041, 1056, 1057, 2048, 2065, 4096, 4100, 8197, 65536}

func longLens(tier string) []int {
	if tier == "thorough" {
		return longLensThorough
	}
	return longLensQuick
}

func genLong(r *hx.Rng, tier string) []string {
	var lines []string
	emit := func(path string, s keySpec, msg []byte) {
		framed := path != "S" && path != "I"
		lines = append(lines, fmt.Sprintf("C04|%s|%s|%s|%d|%s|%d|%s|%s|", path, s.alg, hx.H(s.kb), s.tag, s.variant, s.id,
			hx.H(msg), genMuts(r, msg, s.tag, &s, framed)))
	}
	for i, n := range longLens(tier) {
		msg := r.Bytes(n)
		// raw routes
		emit("S", keySpec{"CMAC", r.Bytes(r.Pick([]int{16, 24, 32})), 10 + r.Intn(7), "R", 0}, msg)
		emit("I", keySpec{"CMAC", r.Bytes(r.Pick([]int{16, 24, 32})), 16, "R", 0}, msg)
		// key-object routes: LEGACY (input = msg || 0x00) and one other variant each
		for j, path := range []string{"K", "F", "A"} {
			ks := 32
			if path == "A" && (i+j)%2 == 0 {
				ks = 16
			}
			emit(path, keySpec{"CMAC", r.Bytes(ks), 10 + r.Intn(7), "L", uint32(r.U64())}, msg)
			v := hx.PickS(r, []string{"T", "C", "R"})
			id := uint32(r.U64())
			if v == "R" {
				id = 0
			}
			// one byte shorter: with the LEGACY suffix of the case above both windows are hit
			emit(path, keySpec{"CMAC", r.Bytes(ks), 16, v, id}, msg[:n-1+(i+j)%2])
		}
	}
	// HMAC over many hash blocks (every hash once per length)
	hl := []int{1000, 4097}
	if tier == "thorough" {
		hl = []int{1000, 4097, 65536, 1 << 20}
	}
	for i, n := range hl {
		msg := r.Bytes(n)
		for j, alg := range hashes {
			if n >= 65536 && j != (i%len(hashes)) && alg != "SHA256" {
				continue // the very long ones: SHA-256 and one more hash
			}
			path := []string{"S", "K", "F", "A", "I"}[(i+j)%5]
			s := keySpec{alg, r.Bytes(r.Pick([]int{16, 32, blockSz[alg], blockSz[alg] + 1})), 10 + r.Intn(digest[alg]-9), "R", 0}
			if n > 1<<18 {
				// 1 MiB: the extracted model and its OCaml glue append lists non-tail-recursively
				// (LEGACY suffix, message mutations) and overflow the 8 MiB stack there; the raw
				// route with tag mutations only stays within it
				lines = append(lines, fmt.Sprintf("C04|S|%s|%s|%d|R|0|%s|=;f3;t1;z|", alg, hx.H(s.kb), s.tag, hx.H(msg)))
				continue
			}
			if path != "S" && path != "I" {
				s.variant, s.id = hx.PickS(r, []string{"T", "L"}), uint32(r.U64())
			}
			emit(path, s, msg)
		}
	}
	return lines
}
