// Package c04 runs the real tink-go MAC code on cases of property C04
// (MAC tags are the standard HMAC / AES-CMAC values and only those verify).
package c04

import (
	"bytes"
	"crypto/aes"
	stdhmac "crypto/hmac"
	"crypto/sha1"
	"crypto/sha256"
	"crypto/sha512"
	"fmt"
	"hash"
	"math/big"
	"strconv"
	"strings"

	"github.com/tink-crypto/tink-go/v2/insecuresecretdataaccess"
	"github.com/tink-crypto/tink-go/v2/internal/internalapi"
	icmac "github.com/tink-crypto/tink-go/v2/internal/mac/aescmac"
	ihmac "github.com/tink-crypto/tink-go/v2/internal/mac/hmac"
	"github.com/tink-crypto/tink-go/v2/internal/registryconfig/legacyprimitive"
	"github.com/tink-crypto/tink-go/v2/key"
	"github.com/tink-crypto/tink-go/v2/keyset"
	"github.com/tink-crypto/tink-go/v2/mac"
	maccmac "github.com/tink-crypto/tink-go/v2/mac/aescmac"
	machmac "github.com/tink-crypto/tink-go/v2/mac/hmac"
	macsubtle "github.com/tink-crypto/tink-go/v2/mac/subtle"
	"github.com/tink-crypto/tink-go/v2/secretdata"
	"github.com/tink-crypto/tink-go/v2/tink"
	"github.com/tink-crypto/tink-go/v2/verifharness/hx"
)

// case line (single key):
//   C04|<path>|<alg>|<key hex>|<tag size>|<variant>|<id>|<msg hex>|<muts>|<extra>
//     path    S mac/subtle (raw)          K per-key constructor hmac.NewMAC / aescmac.NewMAC
//             F mac.New(handle)           A mac.NewWithConfig with a config returning a legacy
//             I internal/mac/{hmac,aescmac} (multi-part data / full 16-byte CMAC)   (raw) primitive
//     alg     SHA1 SHA224 SHA256 SHA384 SHA512 CMAC, or any other name (unknown hash)
//     variant T C L R   (TINK CRUNCHY LEGACY NO_PREFIX); id decimal uint32
//     muts    ';' separated mutations applied to the computed tag before VerifyMAC:
//             =  f<bit>  t<n> (drop last n)  h<n> (drop first n)  e<hex> (append)
//             p<hex> (prepend)  x<hex> (this tag instead)  z (empty tag)  m<hex> (other message)  a<hex> (message||hex)
//             mutations joined by '+' are applied left to right (f3+f3 restores the tag)
//     extra   path I with HMAC: ',' separated split points of the message into parts
// case line (a crypto/hmac object, hmacobj.go):  C04|W|<hash>|<key hex>|<op;op;...>
// case line (several keys through mac.New):
//   C04|M|<k;k;...>|<primary index>|<use index>|<msg hex>|<muts>
//     k = alg,keyhex,tag,variant,id ; the tag that is mutated and verified by
//     the keyset primitive is the one key <use index> computes on its own.
// observation:  rej<stage>  (1 NewParameters, 2 NewKey, 3 constructor, 4 factory)
//           or  ok|<tag hex>|<accept bits, one per mutation>|d<1 if two computations agree>
//           M:  ok|<primary tag>|<tag of key use>|<bits>|d1

var tok = insecuresecretdataaccess.Token{}

func hashType(name string) machmac.HashType {
	switch name {
	case "SHA1":
		return machmac.SHA1
	case "SHA224":
		return machmac.SHA224
	case "SHA256":
		return machmac.SHA256
	case "SHA384":
		return machmac.SHA384
	case "SHA512":
		return machmac.SHA512
	}
	return machmac.UnknownHashType
}

func hvariant(v string) machmac.Variant {
	switch v {
	case "T":
		return machmac.VariantTink
	case "C":
		return machmac.VariantCrunchy
	case "L":
		return machmac.VariantLegacy
	}
	return machmac.VariantNoPrefix
}

func cvariant(v string) maccmac.Variant {
	switch v {
	case "T":
		return maccmac.VariantTink
	case "C":
		return maccmac.VariantCrunchy
	case "L":
		return maccmac.VariantLegacy
	}
	return maccmac.VariantNoPrefix
}

// mkKey goes through NewParameters and NewKey; stage 1 / 2 on rejection.
func mkKey(alg string, kb []byte, tag int, variant string, id uint32) (key.Key, int) {
	if alg == "CMAC" {
		p, err := maccmac.NewParameters(maccmac.ParametersOpts{KeySizeInBytes: len(kb), TagSizeInBytes: tag, Variant: cvariant(variant)})
		if err != nil {
			return nil, 1
		}
		k, err := maccmac.NewKey(secretdata.NewBytesFromData(kb, tok), p, id)
		if err != nil {
			return nil, 2
		}
		return k, 0
	}
	p, err := machmac.NewParameters(machmac.ParametersOpts{KeySizeInBytes: len(kb), TagSizeInBytes: tag, HashType: hashType(alg), Variant: hvariant(variant)})
	if err != nil {
		return nil, 1
	}
	k, err := machmac.NewKey(secretdata.NewBytesFromData(kb, tok), p, id)
	if err != nil {
		return nil, 2
	}
	return k, 0
}

// rawMAC hands a private copy of the key to the constructor and overwrites it afterwards.
func rawMAC(alg string, kb0 []byte, tag int) (tink.MAC, error) {
	kb := bytes.Clone(kb0)
	defer hx.Scribble(kb)
	if alg == "CMAC" {
		return macsubtle.NewAESCMAC(kb, uint32(tag))
	}
	return macsubtle.NewHMAC(alg, kb, uint32(tag))
}

// legacyCfg is a keyset.Config that answers every MAC key with a *raw*
// primitive marked as legacy, which makes mac.NewWithConfig wrap it in its
// fullMACAdapter (the route taken by key types served by key managers).
type legacyCfg struct{}

func (legacyCfg) PrimitiveFromKey(k key.Key, _ internalapi.Token) (any, error) {
	switch kk := k.(type) {
	case *machmac.Key:
		p := kk.Parameters().(*machmac.Parameters)
		raw, err := macsubtle.NewHMAC(p.HashType().String(), kk.KeyBytes().Data(tok), uint32(p.CryptographicTagSizeInBytes()))
		if err != nil {
			return nil, err
		}
		return legacyprimitive.New(raw), nil
	case *maccmac.Key:
		p := kk.Parameters().(*maccmac.Parameters)
		raw, err := macsubtle.NewAESCMAC(kk.KeyBytes().Data(tok), uint32(p.CryptographicTagSizeInBytes()))
		if err != nil {
			return nil, err
		}
		return legacyprimitive.New(raw), nil
	}
	return nil, fmt.Errorf("unsupported key")
}

// partsMAC adapts internal/mac/hmac's variadic API, feeding the message in parts.
type partsMAC struct {
	h      *ihmac.HMAC
	splits []int
}

func (p partsMAC) parts(data []byte) [][]byte {
	var out [][]byte
	prev := 0
	for _, s := range p.splits {
		if s < prev || s > len(data) {
			continue
		}
		out = append(out, data[prev:s])
		prev = s
	}
	return append(out, data[prev:])
}
func (p partsMAC) ComputeMAC(data []byte) ([]byte, error) { return p.h.ComputeMAC(p.parts(data)...) }
func (p partsMAC) VerifyMAC(m, data []byte) error          { return p.h.VerifyMAC(m, p.parts(data)...) }

// fullCMAC computes with internal/mac/aescmac directly (full 16 bytes) and
// verifies with the subtle primitive of tag size 16.
type fullCMAC struct {
	c *icmac.CMAC
	v tink.MAC
}

func (f fullCMAC) ComputeMAC(data []byte) ([]byte, error) { return f.c.Compute(data), nil }
func (f fullCMAC) VerifyMAC(m, data []byte) error          { return f.v.VerifyMAC(m, data) }

func handleOf(keys []key.Key, primary int) (*keyset.Handle, error) {
	km := keyset.NewManager()
	var ids []uint32
	for _, k := range keys {
		id, err := km.AddKey(k)
		if err != nil {
			return nil, err
		}
		ids = append(ids, id)
	}
	if err := km.SetPrimary(ids[primary]); err != nil {
		return nil, err
	}
	return km.Handle()
}

// build returns the primitive for a single-key case, or the rejecting stage.
func build(path, alg string, kb []byte, tag int, variant string, id uint32, extra string) (tink.MAC, int) {
	switch path {
	case "S":
		m, err := rawMAC(alg, kb, tag)
		if err != nil {
			return nil, 3
		}
		return m, 0
	case "I":
		if alg == "CMAC" {
			c, err := icmac.New(kb)
			if err != nil {
				return nil, 3
			}
			v, err := macsubtle.NewAESCMAC(kb, 16)
			if err != nil {
				return nil, 3
			}
			return fullCMAC{c, v}, 0
		}
		h, err := ihmac.New(alg, kb, uint32(tag))
		if err != nil {
			return nil, 3
		}
		var sp []int
		for _, s := range strings.Split(extra, ",") {
			if s != "" {
				v, _ := strconv.Atoi(s)
				sp = append(sp, v)
			}
		}
		return partsMAC{h, sp}, 0
	}
	k, st := mkKey(alg, kb, tag, variant, id)
	if st != 0 {
		return nil, st
	}
	switch path {
	case "K":
		var m tink.MAC
		var err error
		if ck, ok := k.(*maccmac.Key); ok {
			m, err = maccmac.NewMAC(ck, internalapi.Token{})
		} else {
			m, err = machmac.NewMAC(k.(*machmac.Key), internalapi.Token{})
		}
		if err != nil {
			return nil, 3
		}
		return m, 0
	case "F", "A":
		h, err := handleOf([]key.Key{k}, 0)
		if err != nil {
			return nil, 4
		}
		var m tink.MAC
		if path == "F" {
			m, err = mac.New(h)
		} else {
			m, err = mac.NewWithConfig(h, legacyCfg{})
		}
		if err != nil {
			return nil, 4
		}
		return m, 0
	}
	panic("bad path " + path)
}

// mutate applies one mutation to (tag, msg).
func mutate(mu string, tag, msg []byte) ([]byte, []byte) {
	t := append([]byte(nil), tag...)
	m := append([]byte(nil), msg...)
	if i := strings.IndexByte(mu, '+'); i >= 0 { // chain: left to right
		t, m = mutate(mu[:i], t, m)
		return mutate(mu[i+1:], t, m)
	}
	if mu == "=" || mu == "" {
		return t, m
	}
	arg := mu[1:]
	switch mu[0] {
	case 'f':
		n, _ := strconv.Atoi(arg)
		if len(t) > 0 {
			n %= 8 * len(t)
			t[n/8] ^= 1 << uint(n%8)
		}
	case 't':
		n, _ := strconv.Atoi(arg)
		if n > len(t) {
			n = len(t)
		}
		t = t[:len(t)-n]
	case 'h':
		n, _ := strconv.Atoi(arg)
		if n > len(t) {
			n = len(t)
		}
		t = t[n:]
	case 'e':
		t = append(t, hx.UH(arg)...)
	case 'p':
		t = append(hx.UH(arg), t...)
	case 'x':
		t = hx.UH(arg)
	case 'z':
		t = []byte{}
	case 'm':
		m = hx.UH(arg)
	case 'a':
		m = append(m, hx.UH(arg)...)
	default:
		panic("bad mutation " + mu)
	}
	return t, m
}

func verifyBits(p tink.MAC, tag, msg []byte, muts string) string {
	var sb strings.Builder
	for _, mu := range strings.Split(muts, ";") {
		if mu == "" {
			continue
		}
		t, m := mutate(mu, tag, msg)
		if p.VerifyMAC(t, m) == nil {
			sb.WriteByte('1')
		} else {
			sb.WriteByte('0')
		}
	}
	return sb.String()
}

type keySpec struct {
	alg     string
	kb      []byte
	tag     int
	variant string
	id      uint32
}

func parseKeys(s string) []keySpec {
	var out []keySpec
	for _, ks := range strings.Split(s, ";") {
		f := strings.Split(ks, ",")
		tag, _ := strconv.Atoi(f[2])
		id, _ := strconv.ParseUint(f[4], 10, 32)
		out = append(out, keySpec{f[0], hx.UH(f[1]), tag, f[3], uint32(id)})
	}
	return out
}

func run(in string) string {
	f := strings.Split(in, "|")
	if f[1] == "M" {
		return runSet(f)
	}
	if f[1] == "W" {
		return runHmacObj(f)
	}
	path, alg := f[1], f[2]
	kb := hx.UH(f[3])
	tag, _ := strconv.Atoi(f[4])
	id64, _ := strconv.ParseUint(f[6], 10, 32)
	msg := hx.UH(f[7])
	extra := ""
	if len(f) > 9 {
		extra = f[9]
	}
	var p tink.MAC
	var st int
	tape := &hx.Tape{IDs: []uint32{0x7f000001, 0x7f000002, 0x7f000003}}
	hx.WithTape(tape, func() { p, st = build(path, alg, kb, tag, f[5], uint32(id64), extra) })
	if st != 0 {
		return "rej" + strconv.Itoa(st)
	}
	m0 := append([]byte(nil), msg...)
	t1, err := p.ComputeMAC(m0)
	if err != nil {
		return "compute-error"
	}
	t2, err := p.ComputeMAC(append([]byte(nil), msg...))
	det := "d1"
	if err != nil || !bytes.Equal(t1, t2) || !bytes.Equal(m0, msg) {
		det = "d0"
	}
	return "ok|" + hx.H(t1) + "|" + verifyBits(p, t1, msg, f[8]) + "|" + det
}

func runSet(f []string) string {
	specs := parseKeys(f[2])
	primary, _ := strconv.Atoi(f[3])
	use, _ := strconv.Atoi(f[4])
	msg := hx.UH(f[5])
	var keys []key.Key
	for _, s := range specs {
		k, st := mkKey(s.alg, s.kb, s.tag, s.variant, s.id)
		if st != 0 {
			return "rej" + strconv.Itoa(st)
		}
		keys = append(keys, k)
	}
	var p tink.MAC
	var err error
	var ids []uint32
	for i := range specs {
		ids = append(ids, 0x7f000001+uint32(i))
	}
	hx.WithTape(&hx.Tape{IDs: ids}, func() {
		var h *keyset.Handle
		h, err = handleOf(keys, primary)
		if err == nil {
			p, err = mac.New(h)
		}
	})
	if err != nil {
		return "rej4"
	}
	t1, err := p.ComputeMAC(append([]byte(nil), msg...))
	if err != nil {
		return "compute-error"
	}
	t2, _ := p.ComputeMAC(append([]byte(nil), msg...))
	det := "d1"
	if !bytes.Equal(t1, t2) {
		det = "d0"
	}
	// the tag of key `use`, computed by that key's own primitive
	s := specs[use]
	single, st := build("K", s.alg, s.kb, s.tag, s.variant, s.id, "")
	if st != 0 {
		return "rej3"
	}
	alt, err := single.ComputeMAC(append([]byte(nil), msg...))
	if err != nil {
		return "compute-error"
	}
	return "ok|" + hx.H(t1) + "|" + hx.H(alt) + "|" + verifyBits(p, alt, msg, f[6]) + "|" + det
}

// ---------------------------------------------------------------------------
// Direct property oracle: nothing of tink-go is used below.  HMAC from the
// standard library, AES-CMAC re-implemented from RFC 4493 over math/big.

func stdHash(alg string) func() hash.Hash {
	switch alg {
	case "SHA1":
		return sha1.New
	case "SHA224":
		return sha256.New224
	case "SHA256":
		return sha256.New
	case "SHA384":
		return sha512.New384
	case "SHA512":
		return sha512.New
	}
	return nil
}

func refCMAC(kb, msg []byte) []byte {
	bc, err := aes.NewCipher(kb)
	if err != nil {
		return nil
	}
	enc := func(b []byte) []byte { o := make([]byte, 16); bc.Encrypt(o, b); return o }
	dbl := func(b []byte) []byte {
		x := new(big.Int).SetBytes(b)
		msb := x.Bit(127)
		x.Lsh(x, 1)
		x.And(x, new(big.Int).Sub(new(big.Int).Lsh(big.NewInt(1), 128), big.NewInt(1)))
		if msb == 1 {
			x.Xor(x, big.NewInt(0x87))
		}
		return x.FillBytes(make([]byte, 16))
	}
	xor := func(a, b []byte) []byte {
		o := make([]byte, 16)
		for i := range o {
			o[i] = a[i] ^ b[i]
		}
		return o
	}
	k1 := dbl(enc(make([]byte, 16)))
	k2 := dbl(k1)
	n := (len(msg) + 15) / 16
	var last []byte
	if n == 0 {
		n = 1
		last = xor(append([]byte{0x80}, make([]byte, 15)...), k2)
	} else if len(msg)%16 == 0 {
		last = xor(msg[16*(n-1):], k1)
	} else {
		p := append(append([]byte(nil), msg[16*(n-1):]...), 0x80)
		p = append(p, make([]byte, 16-len(p))...)
		last = xor(p, k2)
	}
	x := make([]byte, 16)
	for i := 0; i < n-1; i++ {
		x = enc(xor(x, msg[16*i:16*i+16]))
	}
	return enc(xor(x, last))
}

func refPrefix(variant string, id uint32) []byte {
	switch variant {
	case "T":
		return []byte{1, byte(id >> 24), byte(id >> 16), byte(id >> 8), byte(id)}
	case "C", "L":
		return []byte{0, byte(id >> 24), byte(id >> 16), byte(id >> 8), byte(id)}
	}
	return nil
}

// refTag is the tag the property demands; framed=false for raw paths (S, I).
func refTag(s keySpec, framed bool, msg []byte) []byte {
	m := append([]byte(nil), msg...)
	var pfx []byte
	if framed {
		pfx = refPrefix(s.variant, s.id)
		if s.variant == "L" {
			m = append(m, 0)
		}
	}
	var full []byte
	if s.alg == "CMAC" {
		full = refCMAC(s.kb, m)
	} else {
		h := stdhmac.New(stdHash(s.alg), s.kb)
		h.Write(m)
		full = h.Sum(nil)
	}
	return append(pfx, full[:s.tag]...)
}

// refStage restates the documented acceptance rules (0 = accepted).
func refStage(path string, s keySpec) int {
	tagOK, keyOK := false, false
	if s.alg == "CMAC" {
		tagOK = s.tag >= 10 && s.tag <= 16
	} else if h := stdHash(s.alg); h != nil {
		tagOK = s.tag >= 10 && s.tag <= h().Size()
	}
	switch {
	case s.alg != "CMAC":
		keyOK = len(s.kb) >= 16 && stdHash(s.alg) != nil
	case path == "S" || path == "I":
		keyOK = len(s.kb) == 16 || len(s.kb) == 24 || len(s.kb) == 32
	default:
		keyOK = len(s.kb) == 16 || len(s.kb) == 32
	}
	if path == "I" && s.alg == "CMAC" {
		tagOK = true
	}
	if path == "S" || path == "I" {
		if !tagOK || !keyOK {
			return 3
		}
		return 0
	}
	if !tagOK || !keyOK {
		return 1
	}
	if s.variant == "R" && s.id != 0 {
		return 2
	}
	if s.alg == "CMAC" && len(s.kb) != 32 && path != "A" {
		if path == "K" {
			return 3
		}
		return 4
	}
	return 0
}

func check(in, obs string) string {
	if strings.HasPrefix(obs, "PANIC") || obs == "compute-error" {
		return obs
	}
	f := strings.Split(in, "|")
	o := strings.Split(obs, "|")
	if f[1] == "M" {
		return checkSet(f, o)
	}
	if f[1] == "W" {
		return checkHmacObj(f, obs)
	}
	tag, _ := strconv.Atoi(f[4])
	id64, _ := strconv.ParseUint(f[6], 10, 32)
	s := keySpec{f[2], hx.UH(f[3]), tag, f[5], uint32(id64)}
	if f[1] == "I" && s.alg == "CMAC" {
		s.tag = 16
	}
	msg := hx.UH(f[7])
	want := refStage(f[1], s)
	if strings.HasPrefix(obs, "rej") {
		if want == 0 {
			return "valid configuration rejected: " + obs
		}
		if obs != "rej"+strconv.Itoa(want) {
			return fmt.Sprintf("rejected at stage %s, documented rules say stage %d", obs, want)
		}
		return ""
	}
	if want != 0 {
		return fmt.Sprintf("configuration accepted although the documented rules reject it at stage %d", want)
	}
	if len(o) != 4 {
		return "malformed observation"
	}
	framed := f[1] != "S" && f[1] != "I"
	ref := refTag(s, framed, msg)
	if got := hx.UH(o[1]); !bytes.Equal(got, ref) {
		return fmt.Sprintf("ComputeMAC differs from the standard value: got %s want %s", o[1], hx.H(ref))
	}
	if o[3] != "d1" {
		return "ComputeMAC is not deterministic (or modified its input)"
	}
	wrapped := f[1] == "F" || f[1] == "A"
	i := 0
	for _, mu := range strings.Split(f[8], ";") {
		if mu == "" {
			continue
		}
		t, m := mutate(mu, ref, msg)
		exp := bytes.Equal(t, refTag(s, framed, m))
		if wrapped && len(t) <= 5 {
			exp = false
		}
		if i >= len(o[2]) {
			return "missing verify result"
		}
		if got := o[2][i] == '1'; got != exp {
			if got {
				return fmt.Sprintf("VerifyMAC accepted a tag that is not ComputeMAC(message): mutation %s", mu)
			}
			return fmt.Sprintf("VerifyMAC rejected the genuine tag: mutation %s", mu)
		}
		i++
	}
	return ""
}

func checkSet(f, o []string) string {
	specs := parseKeys(f[2])
	primary, _ := strconv.Atoi(f[3])
	use, _ := strconv.Atoi(f[4])
	msg := hx.UH(f[5])
	want := 0
	for _, s := range specs {
		if st := refStage("F", s); st != 0 && want == 0 {
			want = st
		}
	}
	if strings.HasPrefix(o[0], "rej") {
		if want == 0 {
			return "valid keyset rejected: " + o[0]
		}
		return ""
	}
	if want != 0 {
		return "invalid keyset accepted"
	}
	if len(o) != 5 {
		return "malformed observation"
	}
	if ref := refTag(specs[primary], true, msg); !bytes.Equal(hx.UH(o[1]), ref) {
		return fmt.Sprintf("ComputeMAC differs from the primary key's standard value: got %s want %s", o[1], hx.H(ref))
	}
	alt := refTag(specs[use], true, msg)
	if !bytes.Equal(hx.UH(o[2]), alt) {
		return "per-key ComputeMAC differs from the standard value"
	}
	if o[4] != "d1" {
		return "ComputeMAC is not deterministic"
	}
	i := 0
	for _, mu := range strings.Split(f[6], ";") {
		if mu == "" {
			continue
		}
		t, m := mutate(mu, alt, msg)
		exp := false
		for _, s := range specs {
			if bytes.Equal(t, refTag(s, true, m)) {
				exp = true
			}
		}
		if len(t) <= 5 {
			exp = false
		}
		if got := o[3][i] == '1'; got != exp {
			if got {
				return fmt.Sprintf("keyset VerifyMAC accepted a tag no key computes: mutation %s", mu)
			}
			return fmt.Sprintf("keyset VerifyMAC rejected a genuine tag of key %d: mutation %s", use, mu)
		}
		i++
	}
	return ""
}

// ---------------------------------------------------------------------------
// generator

var hashes = []string{"SHA1", "SHA224", "SHA256", "SHA384", "SHA512"}
var digest = map[string]int{"SHA1": 20, "SHA224": 28, "SHA256": 32, "SHA384": 48, "SHA512": 64}
var blockSz = map[string]int{"SHA1": 64, "SHA224": 64, "SHA256": 64, "SHA384": 128, "SHA512": 128}

func genKeySpec(r *hx.Rng, path string, allowInvalid bool) keySpec {
	var s keySpec
	if r.Chance(40) {
		s.alg = "CMAC"
	} else {
		s.alg = hx.PickS(r, hashes)
	}
	inv := allowInvalid && r.Chance(12)
	if s.alg == "CMAC" {
		ks := 32
		if path == "S" || path == "I" {
			ks = r.Pick([]int{16, 24, 32, 32})
		} else if path == "A" {
			ks = r.Pick([]int{16, 32})
		} else if allowInvalid && r.Chance(8) {
			ks = 16 // valid parameters, rejected by NewMAC / mac.New
		}
		s.tag = 10 + r.Intn(7)
		if r.Chance(30) {
			s.tag = 16
		}
		if inv {
			switch r.Intn(4) {
			case 0:
				ks = r.Pick([]int{0, 15, 17, 24, 31, 33, 48, 64})
			case 1:
				s.tag = r.Pick([]int{0, 1, 9})
			case 2:
				s.tag = r.Pick([]int{17, 18, 32})
			case 3:
				ks = r.Pick([]int{15, 33})
				s.tag = r.Pick([]int{9, 17})
			}
		}
		s.kb = r.Bytes(ks)
	} else {
		b, d := blockSz[s.alg], digest[s.alg]
		ks := r.Pick([]int{16, 17, 20, 32, 48, b - 1, b, b + 1, 2*b - 1, 2 * b, 2*b + 1, 16 + r.Intn(240)})
		s.tag = r.Pick([]int{10, 11, 16, d - 1, d, 10 + r.Intn(d-9)})
		if inv {
			switch r.Intn(4) {
			case 0:
				ks = r.Pick([]int{0, 1, 8, 15})
			case 1:
				s.tag = r.Pick([]int{0, 1, 9})
			case 2:
				s.tag = d + 1 + r.Intn(3)
			case 3:
				s.alg = hx.PickS(r, []string{"SHA3_256", "SHA-256", "sha256", "MD5"})
			}
		}
		s.kb = r.Bytes(ks)
	}
	s.variant = hx.PickS(r, []string{"T", "C", "L", "R"})
	if s.variant == "R" {
		s.id = 0
		if allowInvalid && r.Chance(10) {
			s.id = 1 + uint32(r.Intn(5))
		}
	} else if r.Chance(30) {
		s.id = hx.PickS(r, []uint32{0, 1, 255, 256, 0x01000000, 0x7fffffff, 0x80000000, 0xffffffff, 0x00010203})
	} else {
		s.id = uint32(r.U64())
	}
	return s
}

func genMsg(r *hx.Rng, alg string) []byte {
	var n int
	if alg == "CMAC" {
		n = r.Pick([]int{0, 1, 2, 15, 16, 17, 31, 32, 33, 47, 48, 49, 63, 64, 65, 16 * (1 + r.Intn(12)), 16*(1+r.Intn(12)) - 1, r.Intn(200)})
	} else {
		b := blockSz[alg]
		if b == 0 {
			b = 64
		}
		n = r.Pick([]int{0, 1, 2, 55, 56, 63, 64, 65, 111, 112, 119, 120, b - 1, b, b + 1, 2 * b, 2*b + 1, 3 * b, r.Intn(400)})
	}
	m := r.Bytes(n)
	if n > 0 && r.Chance(15) {
		m[n-1] = 0 // messages ending in 0x00 (LEGACY suffix confusion)
	}
	return m
}

// refPrefixOf: the output prefix the variant and id of s spell out (5 bytes or none).
func refPrefixOf(s keySpec) []byte {
	switch s.variant {
	case "T":
		return []byte{1, byte(s.id >> 24), byte(s.id >> 16), byte(s.id >> 8), byte(s.id)}
	case "C", "L":
		return []byte{0, byte(s.id >> 24), byte(s.id >> 16), byte(s.id >> 8), byte(s.id)}
	}
	return nil
}

func genMuts(r *hx.Rng, msg []byte, tagLen int, s *keySpec, framed bool) string {
	muts := []string{"="}
	// bytes in front of a genuine tag (a prefix search that is not anchored at the start accepts them)
	muts = append(muts, "p"+hx.H(r.Bytes(1+r.Intn(6))))
	if framed && s != nil {
		// ... also a copy of the key's own prefix in front of the genuine tag
		if pre := refPrefixOf(*s); len(pre) > 0 && r.Chance(50) {
			muts = append(muts, "p"+hx.H(pre))
		}
	}
	k := 3 + r.Intn(5)
	for i := 0; i < k; i++ {
		switch r.Intn(17) {
		case 12:
			b := strconv.Itoa(r.Intn(8 * (tagLen + 5)))
			muts = append(muts, "f"+b+"+f"+b)
		case 13, 14, 15, 16:
			// accepting mutations need the right tag, taken from the independent reference
			if s == nil || refStage("K", *s) != 0 {
				muts = append(muts, "m"+hx.H(msg))
				break
			}
			switch r.Intn(4) {
			case 0:
				o := r.Bytes(r.Intn(40))
				muts = append(muts, "m"+hx.H(o)+"+x"+hx.H(refTag(*s, framed, o)))
			case 1:
				o := append(append([]byte(nil), msg...), 0)
				muts = append(muts, "a00+x"+hx.H(refTag(*s, framed, o)))
			case 2:
				t := refTag(*s, framed, msg)
				n := 1 + r.Intn(len(t))
				muts = append(muts, "t"+strconv.Itoa(n)+"+e"+hx.H(t[len(t)-n:]))
			case 3:
				t := refTag(*s, framed, msg)
				muts = append(muts, "x"+hx.H(t))
			}
		case 0:
			muts = append(muts, "f"+strconv.Itoa(r.Intn(8*(tagLen+5))))
		case 1:
			muts = append(muts, "f"+strconv.Itoa(r.Pick([]int{0, 7, 8, 39, 40, 8*(tagLen+5) - 1, 8*tagLen - 1})))
		case 2:
			muts = append(muts, "t"+strconv.Itoa(r.Pick([]int{1, 1, 2, 5, tagLen, tagLen + 4, tagLen + 5})))
		case 3:
			muts = append(muts, "h"+strconv.Itoa(r.Pick([]int{1, 4, 5, 6})))
		case 4:
			muts = append(muts, "e"+hx.H(r.Bytes(1+r.Intn(3))))
		case 5:
			muts = append(muts, "e00")
		case 6:
			muts = append(muts, "x"+hx.H(r.Bytes(r.Pick([]int{1, 4, 5, 6, 10, tagLen, tagLen + 5}))))
		case 7:
			muts = append(muts, "z")
		case 8:
			muts = append(muts, "m"+hx.H(r.Bytes(r.Intn(40))))
		case 9:
			if len(msg) > 0 {
				o := append([]byte(nil), msg...)
				o[r.Intn(len(o))] ^= 1 << uint(r.Intn(8))
				muts = append(muts, "m"+hx.H(o))
			} else {
				muts = append(muts, "m00")
			}
		case 10:
			muts = append(muts, "a00")
		case 11:
			if len(msg) > 0 {
				muts = append(muts, "m"+hx.H(msg[:len(msg)-1]))
			} else {
				muts = append(muts, "a"+hx.H(r.Bytes(1)))
			}
		}
	}
	return strings.Join(muts, ";")
}

func specStr(s keySpec) string {
	return fmt.Sprintf("%s,%s,%d,%s,%d", s.alg, hx.H(s.kb), s.tag, s.variant, s.id)
}

func gen(r *hx.Rng, n int, tier string) []string {
	var lines []string
	// the minimum key and tag sizes of the subtle / internal constructors themselves (key objects
	// have their own checks in front of them, so only these routes reach those comparisons)
	for _, path := range []string{"S", "I"} {
		for _, alg := range []string{"SHA256", "SHA512"} {
			for _, kt := range [][2]int{{15, 16}, {16, 16}, {16, 9}, {16, 10}} {
				lines = append(lines, fmt.Sprintf("C04|%s|%s|%s|%d|R|0|%s|=;f3;t1|", path, alg, hx.H(r.Bytes(kt[0])), kt[1], hx.H(r.Bytes(7))))
			}
		}
	}
	lines = append(lines, genLong(r, tier)...) // directed long messages (long.go)
	for c := 0; c < n; c++ {
		x := r.Intn(100)
		if r.Chance(5) { // a crypto/hmac object under an arbitrary Write/Sum/Reset sequence (hmacobj.go)
			lines = append(lines, genHmacObj(r))
			continue
		}
		var path string
		switch {
		case x < 18:
			path = "S"
		case x < 42:
			path = "K"
		case x < 70:
			path = "F"
		case x < 84:
			path = "A"
		case x < 90:
			path = "I"
		default:
			path = "M"
		}
		if path == "M" {
			k := 2 + r.Intn(3)
			var specs []string
			var ss []keySpec
			seen := map[uint32]bool{}
			for len(ss) < k {
				s := genKeySpec(r, "F", false)
				if len(ss) > 0 && r.Chance(30) {
					// same key material as key 0 under another tag size / variant:
					// a truncated tag of one may be a genuine tag of the other
					s.alg, s.kb = ss[0].alg, ss[0].kb
					if s.alg == "CMAC" {
						s.tag = 10 + r.Intn(7)
					} else {
						s.tag = 10 + r.Intn(digest[s.alg]-9)
					}
					if r.Chance(60) {
						s.variant, s.id = "R", 0
					}
				}
				if s.variant != "R" {
					if r.Chance(35) && len(ss) > 0 {
						s.id = ss[0].id + uint32(r.Intn(3)) // neighbouring ids
					}
					if s.id>>24 == 0x7f {
						s.id ^= 0x40000000 // keep clear of the ids the tape hands to NO_PREFIX keys
					}
					if seen[s.id] {
						continue
					}
					seen[s.id] = true
				}
				ss = append(ss, s)
				specs = append(specs, specStr(s))
			}
			use := r.Intn(k)
			msg := genMsg(r, ss[use].alg)
			lines = append(lines, fmt.Sprintf("C04|M|%s|%d|%d|%s|%s", strings.Join(specs, ";"), r.Intn(k), use, hx.H(msg), genMuts(r, msg, ss[use].tag, &ss[use], true)))
			continue
		}
		s := genKeySpec(r, path, true)
		msg := genMsg(r, s.alg)
		extra := ""
		if path == "I" {
			if s.alg == "CMAC" {
				s.tag = 16
			} else {
				var sp []string
				for i, p := 0, 0; i < r.Intn(4); i++ {
					p += r.Intn(len(msg) + 1 - p)
					sp = append(sp, strconv.Itoa(p))
				}
				extra = strings.Join(sp, ",")
			}
		}
		tl := s.tag
		lines = append(lines, fmt.Sprintf("C04|%s|%s|%s|%d|%s|%d|%s|%s|%s", path, s.alg, hx.H(s.kb), s.tag, s.variant, s.id, hx.H(msg), genMuts(r, msg, tl, &s, path != "S" && path != "I"), extra))
	}
	return lines
}

func class(in, obs string) string {
	if strings.HasPrefix(obs, "PANIC") {
		return ""
	}
	f := strings.Split(in, "|")
	if f[1] == "W" {
		return classHmacObj(f, obs)
	}
	if f[1] == "M" {
		o := strings.Split(obs, "|")
		if len(o) != 5 {
			return "M:" + obs
		}
		specs := parseKeys(f[2])
		var sig []string
		for _, s := range specs {
			a := "H"
			if s.alg == "CMAC" {
				a = "C"
			}
			sig = append(sig, a+s.variant)
		}
		return "M:" + strings.Join(sig, "") + ":" + f[4] + ":" + o[3]
	}
	if strings.HasPrefix(obs, "rej") {
		return f[1] + ":" + f[2] + ":" + obs
	}
	o := strings.Split(obs, "|")
	if len(o) != 4 {
		return ""
	}
	ml := len(hx.UH(f[7]))
	b := 16
	if f[2] != "CMAC" {
		b = blockSz[f[2]]
	}
	lc := fmt.Sprintf("%d+%d", min(ml/b, 3), sgn(ml%b, b))
	kl := len(hx.UH(f[3]))
	kc := "s"
	if f[2] != "CMAC" && kl > b {
		kc = "l"
	} else if f[2] != "CMAC" && kl == b {
		kc = "b"
	} else if f[2] == "CMAC" {
		kc = strconv.Itoa(kl)
	}
	var kinds []byte
	for _, mu := range strings.Split(f[8], ";") {
		if mu != "" {
			kinds = append(kinds, mu[0])
		}
	}
	_ = kinds
	return strings.Join([]string{f[1], f[2], f[5], kc, f[4], lc, o[2]}, ":")
}

func sgn(r, b int) int {
	switch {
	case r == 0:
		return 0
	case r == 1:
		return 1
	case r == b-1:
		return 3
	}
	return 2
}

func init() {
	hx.Register("C04", &hx.Prop{Gen: gen, Run: run, Check: check, Class: class})
}
