// Package c02 is the harness of property C02: AEAD never releases plaintext
// for a ciphertext it did not produce; no input makes Decrypt panic.
package c02

import (
	"bytes"
	"fmt"
	"os"
	"strconv"
	"strings"
	"syscall"

	"github.com/tink-crypto/tink-go/v2/tink"
	"github.com/tink-crypto/tink-go/v2/verifharness/hx"
	"github.com/tink-crypto/tink-go/v2/verifharness/p/c01"
)

// case line:  C02|<scheme>|<route>|<variant>|<id>|<params>|<key>|<kind>|<c>|<ad>|<p0>
//   key description as in C01 (c01.Spec); c, ad = what Decrypt is called with;
//   kind = how c/ad were derived from a valid (c0, ad0) for plaintext p0:
//     valid | adnil            unmodified (adnil: empty AD passed as nil)      -> must decrypt to p0
//     xtmpl | ncdek.<how>      envelope over an AES-CTR-HMAC data key built with ANOTHER template of that
//                              type / around another protobuf encoding of the data key  -> must decrypt to p0
//     flip.<bit> | cut.<n> | front.<n> | ext.<n> | ins.<pos> | pfx.<how> |
//     ad.<how> | otherkey | rand | hdr.<how> (envelope length header)          -> must be rejected
//     huge.<len>               c = <len> zero bytes (lazily mapped), starting with the
//                              key's prefix; c/ad/p0 fields are "-"
//     bigad.<k>                DIRECT case without a model computation (AES-CTR-HMAC only): the c
//                              field is the IV; p0 is encrypted with an all-zero AD of 2^k bytes
//                              (k = 29: 512 MiB, where a 32-bit bit-length field wraps), then
//                              (prefix || AD || iv || ct || tag, empty AD) is presented; observation
//                              ctl=<Decrypt of the genuine pair>|shift=<Decrypt of the shifted pair>
//                              (an accepted shifted pair is rendered ok(<n> bytes), not in hex)
// observation: ok:<plaintext> | err | PANIC   (a panic is caught here so that
//   the model, which predicts panics of the standard library on over-long
//   inputs, can be compared; Check reports every panic as a violation).

func parse(line string) (*c01.Spec, string, []byte, []byte, []byte, error) {
	f := strings.Split(line, "|")
	if len(f) != 11 {
		return nil, "", nil, nil, nil, fmt.Errorf("fields")
	}
	s, err := c01.ParseSpec(f[1:7])
	if err != nil {
		return nil, "", nil, nil, nil, err
	}
	return s, f[7], hx.UH(f[8]), hx.UH(f[9]), hx.UH(f[10]), nil
}

func hugeBuf(n int, prefix []byte) ([]byte, error) {
	b, err := syscall.Mmap(-1, 0, n, syscall.PROT_READ|syscall.PROT_WRITE, syscall.MAP_ANON|syscall.MAP_PRIVATE|syscall.MAP_NORESERVE)
	if err != nil {
		return nil, err
	}
	copy(b, prefix)
	return b, nil
}

func decrypt(a tink.AEAD, c, ad []byte) (obs string) {
	defer func() {
		if e := recover(); e != nil {
			obs = "PANIC"
		}
	}()
	return c01.Res(a.Decrypt(c, ad))
}

var bigZero []byte

// zeroAD returns n zero bytes (one lazily backed allocation shared by all cases of a run).
func zeroAD(n int) []byte {
	if len(bigZero) < n {
		bigZero = make([]byte, n)
	}
	return bigZero[:n]
}

// runBigAD: the MAC input of encrypt-then-MAC is ad || iv || ct || be64(8*len(ad)); if the bit
// length were encoded in fewer than 64 bits (or wrapped), moving a 2^k-byte AD in front of the
// ciphertext body and presenting an empty AD would give the same MAC input.
func runBigAD(s *c01.Spec, a tink.AEAD, k int, iv, p0 []byte) (obs string) {
	defer func() {
		if e := recover(); e != nil {
			obs = "PANIC"
		}
	}()
	ad := zeroAD(1 << uint(k))
	var ct []byte
	var err error
	hx.WithTape(&hx.Tape{Bulk: append([]byte{}, iv...)}, func() { ct, err = a.Encrypt(p0, ad) })
	if err != nil {
		return "enc-err"
	}
	ctl := c01.Res(a.Decrypt(ct, ad))
	pl := len(s.Prefix())
	shifted := make([]byte, 0, len(ct)+len(ad))
	shifted = append(append(append(shifted, ct[:pl]...), ad...), ct[pl:]...)
	shift := "err"
	if pt, err := a.Decrypt(shifted, nil); err == nil {
		shift = fmt.Sprintf("ok(%d bytes)", len(pt))
	}
	return "ctl=" + ctl + "|shift=" + shift
}

func run(line string) string {
	s, kind, c, ad, p0, err := parse(line)
	if err != nil {
		return "bad-line"
	}
	a, err := s.Build()
	if err != nil {
		return "nokey"
	}
	if strings.HasPrefix(kind, "bigad.") {
		k, _ := strconv.Atoi(kind[6:])
		if s.Scheme != "etm" || k < 0 || k > 30 {
			return "bad-line"
		}
		return runBigAD(s, a, k, c, p0)
	}
	if strings.HasPrefix(kind, "huge.") {
		n, _ := strconv.Atoi(kind[5:])
		b, err := hugeBuf(n, s.Prefix())
		if err != nil {
			return "nomem"
		}
		defer syscall.Munmap(b)
		return decrypt(a, b, nil)
	}
	if kind == "adnil" {
		ad = nil
	}
	return decrypt(a, c, ad)
}

// check is the direct oracle: only the unmodified pair decrypts, to p0;
// everything else is an error; nothing panics.
func check(line, obs string) string {
	_, kind, c, _, p0, err := parse(line)
	if err != nil {
		return "bad line"
	}
	if strings.HasPrefix(obs, "PANIC") {
		if strings.HasPrefix(kind, "huge.") {
			return "Decrypt panicked on a " + kind[5:] + "-byte ciphertext (stdlib size limit not checked before Open)"
		}
		return "Decrypt panicked on a " + fmt.Sprint(len(c)) + "-byte ciphertext, kind " + kind
	}
	if obs == "nokey" || obs == "bad-line" || obs == "nomem" {
		return "harness: " + obs
	}
	if strings.HasPrefix(kind, "bigad.") {
		want := "ctl=ok:" + hx.H(p0) + "|shift=err"
		if obs == want {
			return ""
		}
		if strings.Contains(obs, "shift=ok") {
			return "AES-CTR-HMAC: plaintext released for (prefix || AD || iv || ct || tag, empty AD) where AD = 2^" + kind[6:] + " zero bytes was the associated data at Encrypt: the AD bit length in the MAC input is not a full 64-bit field: " + obs
		}
		return "AES-CTR-HMAC with a 2^" + kind[6:] + "-byte associated data: " + obs + ", want " + want
	}
	if kind == "valid" || kind == "adnil" || kind == "xtmpl" || strings.HasPrefix(kind, "ncdek.") {
		if obs != "ok:"+hx.H(p0) {
			return "a valid ciphertext is not decrypted to its plaintext: " + obs
		}
		return ""
	}
	if obs != "err" {
		return "plaintext released for a ciphertext Encrypt did not produce (" + kind + "): " + obs
	}
	return ""
}

func class(line, obs string) string {
	s, kind, c, _, _, err := parse(line)
	if err != nil {
		return ""
	}
	k := kind
	if i := strings.Index(k, "."); i >= 0 {
		k = k[:i]
	}
	sch := s.Scheme
	if sch == "env" {
		sch = "env:" + s.DEK + ":" + s.KEK.Scheme
	}
	if sch == "ks" {
		sch = "ks"
		for i, e := range s.Keys {
			st := "d"
			if s.Enabled[i] {
				st = "e"
			}
			sch += ":" + e.Scheme + e.Variant + st
		}
	}
	return fmt.Sprintf("%s/%s/%s/%s/%s", sch, s.Route, s.Variant, k, c01.LenClass(len(c)))
}

// validCiphertext produces (c0) for (spec, iv, pt, ad): with the standard
// library alone where a reference exists, else with Tink under the tape.
func validCiphertext(s *c01.Spec, iv, pt, ad []byte) []byte {
	if c, ok := s.Independent(iv, pt, ad); ok {
		return c
	}
	a, err := s.Build()
	if err != nil {
		panic(err)
	}
	var c []byte
	hx.WithTape(&hx.Tape{Bulk: append([]byte{}, iv...)}, func() { c, err = a.Encrypt(pt, ad) })
	if err != nil {
		panic(err)
	}
	return c
}

type mut struct {
	kind  string
	c, ad []byte
}

func clone(b []byte) []byte { return append([]byte{}, b...) }

func flip(c []byte, bit int) []byte {
	d := clone(c)
	d[bit/8] ^= 1 << (bit % 8)
	return d
}

// mutations of (c0, ad0); exhaustive = every bit, every cut point.
func mutations(r *hx.Rng, s *c01.Spec, c0, ad0 []byte, exhaustive bool, k int) []mut {
	var out []mut
	add := func(kind string, c, ad []byte) {
		if bytes.Equal(c, c0) && bytes.Equal(ad, ad0) {
			return
		}
		out = append(out, mut{kind, c, ad})
	}
	pl := len(s.Prefix())
	if exhaustive {
		for b := 0; b < 8*len(c0); b++ {
			add("flip."+strconv.Itoa(b), flip(c0, b), ad0)
		}
		for n := 0; n < len(c0); n++ {
			add("cut."+strconv.Itoa(n), clone(c0[:n]), ad0)
		}
		for n := 1; n < len(c0); n++ {
			add("front."+strconv.Itoa(n), clone(c0[n:]), ad0)
		}
		for n := 1; n <= 3; n++ {
			add("ext."+strconv.Itoa(n), append(clone(c0), r.Bytes(n)...), ad0)
		}
		for b := 0; b < 8*len(ad0); b++ {
			add("ad.flip", c0, flip(ad0, b))
		}
	}
	// the whole AD moved into the ciphertext (behind the prefix), presented with an empty AD: the MAC
	// input ad || payload would be the same string were it not for the AD length that is authenticated
	if len(ad0) > 0 && len(c0) >= pl {
		add("ad.shiftall", append(clone(c0[:pl]), append(clone(ad0), c0[pl:]...)...), nil)
	}
	// the whole tag must be compared: one flip in the last four bytes, one anywhere in the tag,
	// one in the first byte after the prefix (the IV), for every base
	if n := len(c0); n >= s.TagLen() && s.TagLen() >= 4 {
		add("flip.tagend", flip(c0, 8*(n-4)+r.Intn(32)), ad0)
		add("flip.tag", flip(c0, 8*(n-s.TagLen())+r.Intn(8*s.TagLen())), ad0)
		if n > pl {
			add("flip.iv", flip(c0, 8*pl+r.Intn(8)), ad0)
		}
	}
	for i := 0; i < k; i++ {
		switch r.Intn(12) {
		case 0, 1, 2:
			if len(c0) > 0 {
				b := r.Intn(8 * len(c0))
				// favour the boundaries: prefix, iv, last block, tag
				if r.Chance(40) {
					edges := []int{0, pl - 1, pl, pl + s.IVLen() - 1, pl + s.IVLen(), len(c0) - s.TagLen() - 1, len(c0) - s.TagLen(), len(c0) - 1}
					if e := hx.PickS(r, edges); e >= 0 && e < len(c0) {
						b = 8*e + r.Intn(8)
					}
				}
				add("flip."+strconv.Itoa(b), flip(c0, b), ad0)
			}
		case 3:
			n := r.Intn(len(c0) + 1)
			if r.Chance(50) {
				n = len(c0) - 1 - r.Intn(min(len(c0), s.TagLen()+2))
			}
			if n >= 0 && n < len(c0) {
				add("cut."+strconv.Itoa(n), clone(c0[:n]), ad0)
			}
		case 4:
			if len(c0) > 1 {
				n := 1 + r.Intn(len(c0)-1)
				add("front."+strconv.Itoa(n), clone(c0[n:]), ad0)
			}
		case 5:
			n := 1 + r.Intn(33)
			add("ext."+strconv.Itoa(n), append(clone(c0), r.Bytes(n)...), ad0)
		case 6:
			pos := r.Intn(len(c0) + 1)
			d := append(clone(c0[:pos]), byte(r.U64()))
			add("ins."+strconv.Itoa(pos), append(d, c0[pos:]...), ad0)
		case 7:
			// prefix manipulations
			switch {
			case pl == 5 && r.Chance(30):
				d := clone(c0)
				d[0] ^= 1 // TINK <-> CRUNCHY start byte
				add("pfx.start", d, ad0)
			case pl == 5 && r.Chance(40):
				d := clone(c0)
				d[1+r.Intn(4)] ^= byte(1 + r.Intn(255)) // another key id
				add("pfx.id", d, ad0)
			case pl == 5 && r.Chance(50):
				add("pfx.strip", clone(c0[5:]), ad0)
			case pl == 5:
				d := clone(c0)
				d[0] = byte(2 + r.Intn(254))
				add("pfx.other", d, ad0)
			default:
				add("pfx.add", append([]byte{byte(r.Intn(2)), 1, 2, 3, 4}, c0...), ad0)
			}
		case 8, 9:
			switch {
			case len(ad0) > 0 && r.Chance(40):
				add("ad.flip", c0, flip(ad0, r.Intn(8*len(ad0))))
			case len(ad0) > 0 && r.Chance(40):
				add("ad.cut", c0, clone(ad0[:r.Intn(len(ad0))]))
			case r.Chance(50):
				add("ad.ext", c0, append(clone(ad0), byte(r.U64())))
			default:
				add("ad.other", c0, r.Bytes(c01.PickLen(r, 40)))
			}
		case 10:
			// the AD moved into the ciphertext or vice versa (length-suffix confusions)
			if len(ad0) > 0 {
				add("ad.shift", append(clone(c0[:pl]), append(clone(ad0[len(ad0)-1:]), c0[pl:]...)...), clone(ad0[:len(ad0)-1]))
			} else {
				add("ad.zero", c0, []byte{0})
			}
		default:
			d := clone(c0)
			if len(d) > 0 {
				i := r.Intn(len(d))
				d[i] = byte(r.U64())
			}
			add("byte", d, ad0)
		}
	}
	return out
}

// BigADLogs: log2 of the AD sizes of the bigad cases.  2^29 bytes costs three HMAC-SHA-256 passes
// over 512 MiB per route; set VERIF_C02_NO_BIGAD=1 to drop that size on a small machine.
func BigADLogs(tier string) []int {
	if os.Getenv("VERIF_C02_NO_BIGAD") != "" {
		return []int{5, 13}
	}
	return []int{5, 13, 29}
}

func line(s *c01.Spec, kind string, c, ad, p0 []byte) string {
	return fmt.Sprintf("C02|%s|%s|%s|%s|%s", s, kind, hx.H(c), hx.H(ad), hx.H(p0))
}

// ksLegacyCases: keysets containing a key type that has ONLY a key manager — the KMS envelope
// AEAD key (KmsEnvelopeAeadKey, key-encryption AEAD served by the harness KMS client) — which
// aead.New wraps in fullAEADPrimitiveAdapter: that adapter strips len(prefix) bytes WITHOUT
// comparing them and with an unchecked slice expression, so the prefix-map lookup of
// wrappedAead.Decrypt is the only prefix check and the only length guard.  The envelope key has a
// TINK / CRUNCHY / LEGACY prefix and is the primary or a non-primary key; presented are: the valid
// ciphertext, EVERY single-bit flip of the five prefix bytes, another key's prefix, a garbage
// prefix, the prefix stripped, and ALL lengths 0..5 (cuts and random bytes) — never a panic, never
// a plaintext.  Model: AeadKeyset.ks_dec with pr_legacy = true (C02_keyset_decrypt_total).
func ksLegacyCases(r *hx.Rng) []string {
	var out []string
	plain := func(variant string, id uint32) *c01.Spec {
		k := c01.RandSpec(r)
		for k.Scheme == "env" || k.Scheme == "xaes" {
			k = c01.RandSpec(r)
		}
		k.Route, k.Variant, k.ID = "H", variant, id
		return k
	}
	for _, v := range []string{"T", "C", "L"} {
		for _, envPrimary := range []bool{true, false} {
			id := uint32(r.U64()) | 1
			kek := plain(v, id)
			dek := hx.PickS(r, c01.DEKNames)
			e := &c01.Spec{Scheme: "env", Route: "E", Variant: v, ID: id, Key: kek.Key, DEK: dek, KEK: kek,
				Params: dek + "~" + kek.Scheme + "~" + kek.Route + "~" + kek.Params}
			if r.Chance(30) {
				e = c01.PadEnv(kek, dek, c01.PadMin(kek, dek)+r.Intn(50))
			}
			o1 := plain(hx.PickS(r, []string{"T", "C"}), id^(1<<uint(r.Intn(32))))
			if o1.ID == 0 {
				o1.ID = 2
			}
			ks := &c01.Spec{Scheme: "ks", Route: "H", Variant: "R", Params: "-", Keys: []*c01.Spec{e, o1}, Enabled: []bool{true, true}}
			if r.Chance(50) {
				ks.Keys = append(ks.Keys, plain("R", 0x7fffffff&uint32(r.U64())|4))
				ks.Enabled = append(ks.Enabled, true)
			}
			if r.Chance(50) {
				ks.Keys[0], ks.Keys[1] = ks.Keys[1], ks.Keys[0]
			}
			ks.ID = o1.ID
			if envPrimary {
				ks.ID = e.ID
			}
			pt, ad := r.Bytes(c01.PickLen(r, 40)), r.Bytes(c01.PickLen(r, 20))
			raw, ok := e.Independent(r.Bytes(e.IVLen()), pt, ad)
			if !ok {
				continue
			}
			pre := e.Prefix()
			c0 := append(clone(pre), raw...)
			out = append(out, line(ks, "valid", c0, ad, pt))
			pt1 := r.Bytes(c01.PickLen(r, 40))
			out = append(out, line(ks, "valid", validCiphertext(o1, r.Bytes(o1.IVLen()), pt1, ad), ad, pt1))
			for b := 0; b < 40; b++ {
				out = append(out, line(ks, "pfx.flip."+strconv.Itoa(b), flip(c0, b), ad, nil))
			}
			out = append(out, line(ks, "pfx.swap", append(clone(o1.Prefix()), raw...), ad, nil))
			g := r.Bytes(5)
			for bytes.Equal(g, pre) {
				g = r.Bytes(5)
			}
			out = append(out, line(ks, "pfx.garbage", append(g, raw...), ad, nil))
			out = append(out, line(ks, "pfx.strip", clone(raw), ad, nil))
			for n := 0; n <= 5; n++ {
				out = append(out, line(ks, "short."+strconv.Itoa(n), clone(c0[:n]), ad, nil))
				out = append(out, line(ks, "short."+strconv.Itoa(n), r.Bytes(n), ad, nil))
				out = append(out, line(ks, "short."+strconv.Itoa(n), clone(o1.Prefix()[:n]), ad, nil))
			}
		}
	}
	return out
}

func gen(r *hx.Rng, n int, tier string) []string {
	var out []string
	// ciphertexts above the size limit of x/crypto's Open, which panics there: Decrypt must
	// return an error (directed, cheap: the buffer is mapped lazily and the size check
	// precedes any access).  The exact-boundary cases are in corpus/C02.txt.
	for _, sc := range []string{"chacha", "xchacha"} {
		for _, v := range []string{"R", "T"} {
			s := &c01.Spec{Scheme: sc, Route: "H", Variant: v, ID: 0x01020304, Params: "-", Key: r.Bytes(32)}
			if v == "R" {
				s.Route = "S"
			}
			out = append(out, line(s, fmt.Sprintf("huge.%d", (1<<38)-48+s.IVLen()+len(s.Prefix())+1+r.Intn(1<<20)), nil, nil, nil))
		}
	}
	// AES-CTR-HMAC with a huge associated data (direct cases, no model computation): the 64-bit
	// bit-length field of the MAC input must not wrap or be narrower — AD of 2^5 / 2^13 / 2^29
	// bytes (8-, 16-, 32-bit fields wrap there), key-based route and subtle.EncryptThenAuthenticate
	for _, k := range BigADLogs(tier) {
		for _, route := range []string{"K", "S", "H"} {
			if k > 13 && (route == "H" || (route == "S" && tier == "quick")) {
				// 2^29 bytes: key-based route in every tier (3 s, 0.5 GiB resident); the subtle route copies
				// ad || payload before the MAC (8 s, 2 GiB resident) and runs in the thorough tier only —
				// its length encoding is exercised at 2^5 and 2^13 bytes in the quick tier
				continue
			}
			s := c01.RandSpec(r)
			for s.Scheme != "etm" {
				s = c01.RandSpec(r)
			}
			s.Route = route
			if route == "S" {
				s.Variant = "R"
			} else if k > 13 {
				s.Variant = "T"
			}
			if s.ID == 0 {
				s.ID = 7
			}
			if k > 13 {
				// the fastest hash the key type offers, so that the three 512 MiB MAC passes stay cheap
				s.Hash, s.TagSize = "sha256", 16
				s.Params = fmt.Sprintf("%d.%d.%s.%d", s.IVSize, s.TagSize, s.Hash, s.AESLen)
			}
			out = append(out, line(s, "bigad."+strconv.Itoa(k), r.Bytes(s.IVLen()), nil, r.Bytes(1+r.Intn(20))))
		}
	}
	// KMS envelope with an encrypted DEK of a chosen size (key-encryption scheme "pad"): at the
	// least size that fits and at 4095 / 4096 bytes the stdlib-framed envelope must decrypt (and its
	// mutants, and the cuts right behind the encrypted DEK, must not); above the documented
	// maximum (4097, 4100) Decrypt must reject it
	for i, dek := range c01.DEKNames {
		k := c01.RandSpec(r)
		for k.Scheme == "env" || (k.Scheme == "etm" && i%2 == 1) {
			k = c01.RandSpec(r)
		}
		m := c01.PadMin(k, dek)
		for _, n := range []int{m, c01.MaxEncryptedDEK - 1, c01.MaxEncryptedDEK, c01.MaxEncryptedDEK + 1, c01.MaxEncryptedDEK + 4} {
			s := c01.PadEnv(k, dek, n)
			pt := r.Bytes(r.Intn(3) * r.Intn(20))
			ad := r.Bytes(c01.PickLen(r, 20))
			c0, ok := s.Independent(r.Bytes(s.IVLen()), pt, ad)
			if !ok {
				continue
			}
			if n > c01.MaxEncryptedDEK {
				out = append(out, line(s, "dek.toolong", c0, ad, nil))
				continue
			}
			out = append(out, line(s, "valid", c0, ad, pt))
			for _, cut := range []int{4 + n - 1, 4 + n, 4 + n + 1} {
				out = append(out, line(s, "cut."+strconv.Itoa(cut), clone(c0[:cut]), ad, nil))
			}
			for _, mu := range mutations(r, s, c0, ad, false, 3) {
				out = append(out, line(s, mu.kind, mu.c, mu.ad, nil))
			}
		}
	}
	// the envelope AEAD consults only the TYPE of its data-key template (fourth audit A1): an envelope built
	// with one AES-CTR-HMAC template is decrypted by an envelope AEAD constructed with another (kind xtmpl),
	// and a data key in any other protobuf encoding of the same message is as good (kind ncdek.<how>); the
	// modifications of those envelopes are still rejected
	etm := c01.EtmDEKNames()
	for i := 0; i < 3*len(etm); i++ {
		a, b := etm[i%len(etm)], etm[(i+1+r.Intn(len(etm)-1))%len(etm)]
		k := c01.RandSpec(r)
		for k.Scheme == "env" {
			k = c01.RandSpec(r)
		}
		sA, sB := c01.EnvOver(k, a), c01.EnvOver(k, b)
		pt, ad := r.Bytes(r.Intn(3)*r.Intn(20)), r.Bytes(c01.PickLen(r, 20))
		kind := "xtmpl"
		if i%3 != 0 {
			if i%3 == 2 {
				// every data-key type, not only AES-CTR-HMAC
				a = c01.DEKNames[(i/3)%len(c01.DEKNames)]
				sA = c01.EnvOver(k, a)
			}
			sB = c01.EnvOver(k, a)
			sA.DEKEncoding = c01.NonCanonicalHows[(i/3+i)%len(c01.NonCanonicalHows)]
			kind = "ncdek." + sA.DEKEncoding
		}
		c0, ok := sA.Independent(r.Bytes(sA.IVLen()), pt, ad)
		if !ok {
			continue
		}
		out = append(out, line(sB, kind, c0, ad, pt))
		if i%3 == 2 {
			// ... and an envelope around bytes that are NOT a key of the type (version 1): rejected
			sBad := c01.EnvOver(k, a)
			sBad.DEKEncoding = "ver1"
			if cb, ok := sBad.Independent(r.Bytes(sBad.IVLen()), pt, ad); ok {
				out = append(out, line(sB, "baddek.ver1", cb, ad, nil))
			}
		}
		for _, mu := range mutations(r, sB, c0, ad, false, 1) {
			out = append(out, line(sB, mu.kind, mu.c, mu.ad, nil))
		}
	}
	out = append(out, ksLegacyCases(r)...)
	// keyset level (aead.New over several keys, prefix map + RAW fallback): ciphertexts of
	// every key of the keyset, mutated prefixes, ciphertexts of disabled keys
	nks := n / 100
	for i := 0; i < nks; i++ {
		ks := c01.RandKeyset(r)
		for j, k := range ks.Keys {
			pt := r.Bytes(c01.PickLen(r, 80))
			ad := r.Bytes(c01.PickLen(r, 20))
			c0 := validCiphertext(k, r.Bytes(k.IVLen()), pt, ad)
			if !ks.Enabled[j] {
				out = append(out, line(ks, "disabled", c0, ad, nil))
				continue
			}
			out = append(out, line(ks, "valid", c0, ad, pt))
			for _, m := range mutations(r, k, c0, ad, false, 2) {
				out = append(out, line(ks, m.kind, m.c, m.ad, nil))
			}
			// a RAW key's ciphertext that happens to start with the prefix of another key of
			// the keyset (the IV is chosen so): the RAW fallback must still decrypt it
			if len(k.Prefix()) == 0 && k.Scheme != "env" {
				for _, o := range ks.Keys {
					if len(o.Prefix()) == 5 {
						iv := append(clone(o.Prefix()), r.Bytes(k.IVLen()-5)...)
						out = append(out, line(ks, "valid", validCiphertext(k, iv, pt, ad), ad, pt))
						break
					}
				}
			}
			// the body of one key behind the prefix of another
			o := ks.Keys[r.Intn(len(ks.Keys))]
			if !bytes.Equal(o.Prefix(), k.Prefix()) {
				out = append(out, line(ks, "pfx.swap", append(clone(o.Prefix()), c0[len(k.Prefix()):]...), ad, nil))
			}
		}
		out = append(out, line(ks, "rand", r.Bytes(r.Intn(40)), nil, nil))
	}
	// a few bases per run get EVERY single-bit flip and EVERY cut point (schemes in rotation)
	exhaustiveLeft := 3
	if tier != "quick" {
		exhaustiveLeft = 60
	}
	rot := r.Intn(len(c01.Schemes))
	for len(out) < n {
		s := c01.RandSpec(r)
		pt := r.Bytes(c01.PickLen(r, 200))
		var ad []byte
		if !r.Chance(25) {
			ad = r.Bytes(c01.PickLen(r, 64))
		}
		exhaustive := false
		if exhaustiveLeft > 0 {
			for s.Scheme != c01.Schemes[(rot+exhaustiveLeft)%len(c01.Schemes)] {
				s = c01.RandSpec(r)
			}
			exhaustive = true
			exhaustiveLeft--
			pt = r.Bytes(r.Intn(4))
			if len(ad) > 4 {
				ad = ad[:r.Intn(4)]
			}
		}
		iv := r.Bytes(s.IVLen())
		c0 := validCiphertext(s, iv, pt, ad)
		out = append(out, line(s, "valid", c0, ad, pt))
		if len(ad) == 0 {
			out = append(out, line(s, "adnil", c0, ad, pt))
		}
		for _, m := range mutations(r, s, c0, ad, exhaustive, 4) {
			out = append(out, line(s, m.kind, m.c, m.ad, nil))
		}
		// every length below and just above the minimum: cuts of the valid ciphertext and
		// arbitrary bytes behind the right prefix
		if s.Scheme != "env" && r.Chance(12) {
			lim := len(s.Prefix()) + s.IVLen() + s.TagLen() + 1
			for n := 0; n <= lim && n < len(c0); n++ {
				out = append(out, line(s, "cut."+strconv.Itoa(n), clone(c0[:n]), ad, nil))
			}
			for n := 0; n <= lim-len(s.Prefix()); n++ {
				out = append(out, line(s, "rand", append(clone(s.Prefix()), r.Bytes(n)...), ad, nil))
			}
		}
		// another key, same prefix
		if r.Chance(30) {
			o := *s
			o.Key = r.Bytes(len(s.Key))
			if o.Scheme == "env" {
				k := *s.KEK
				k.Key = o.Key
				if k.Scheme == "pad" {
					in := *k.Inner
					in.Key = o.Key
					k.Inner = &in
				}
				o.KEK = &k
			}
			out = append(out, line(s, "otherkey", validCiphertext(&o, iv, pt, ad), ad, nil))
		}
		// arbitrary short strings, bare and behind the key's prefix
		if r.Chance(50) {
			x := r.Bytes(r.Intn(65))
			if r.Chance(50) {
				x = append(clone(s.Prefix()), x...)
			}
			out = append(out, line(s, "rand", x, ad, nil))
		}
		// envelope: the length header
		if s.Scheme == "env" && len(c0) > 4 {
			for _, h := range [][]byte{{0, 0, 0, 0}, {0, 0, 0x10, 0x01}, {0xff, 0xff, 0xff, 0xff}, {0x80, 0, 0, c0[3]}, {c0[0], c0[1], c0[2], c0[3] + 1}, {c0[0], c0[1], c0[2], c0[3] - 1}} {
				if r.Chance(40) {
					d := append(clone(h), c0[4:]...)
					out = append(out, line(s, "hdr", d, ad, nil))
				}
			}
			if r.Chance(30) {
				out = append(out, line(s, "hdr.short", clone(c0[:r.Intn(5)]), ad, nil))
			}
			// cuts around the end of the encrypted DEK, and headers claiming exactly / slightly
			// more than what follows (the bound is len(ciphertext)-4)
			l := int(c0[2])<<8 | int(c0[3])
			if r.Chance(50) {
				for _, n := range []int{l, l + 1, l + 2, l + 3, l + 4, l + 5} {
					if n < len(c0) && r.Chance(60) {
						out = append(out, line(s, "cut."+strconv.Itoa(n), clone(c0[:n]), ad, nil))
					}
				}
				short := clone(c0[:min(len(c0), 4+l+r.Intn(3))])
				for d := -1; d <= 5; d++ {
					if v := len(short) - 4 + d; v > 0 && v < 65536 && r.Chance(60) {
						x := clone(short)
						x[2], x[3] = byte(v>>8), byte(v)
						out = append(out, line(s, "hdr.claim", x, ad, nil))
					}
				}
			}
		}
	}
	return out
}

func init() {
	hx.Register("C02", &hx.Prop{Gen: gen, Run: run, Check: check, Class: class})
}
