// Command c04 runs the real tink-go code on cases of property C04.
package main

import (
	"github.com/tink-crypto/tink-go/v2/verifharness/hx"
	_ "github.com/tink-crypto/tink-go/v2/verifharness/p/c04"
)

func main() { hx.CLI("C04") }
