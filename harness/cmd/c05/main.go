// Command c05 runs the real tink-go code on cases of property C05.
package main

import (
	"github.com/tink-crypto/tink-go/v2/verifharness/hx"
	_ "github.com/tink-crypto/tink-go/v2/verifharness/p/c05"
)

func main() { hx.CLI("C05") }
