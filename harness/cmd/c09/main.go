// Command c09 runs the real tink-go code on cases of property C09.
package main

import (
	"github.com/tink-crypto/tink-go/v2/verifharness/hx"
	_ "github.com/tink-crypto/tink-go/v2/verifharness/p/c09"
)

func main() { hx.CLI("C09") }
