// Command c01 runs the real tink-go code on cases of property C01.
package main

import (
	"github.com/tink-crypto/tink-go/v2/verifharness/hx"
	_ "github.com/tink-crypto/tink-go/v2/verifharness/p/c01"
)

func main() { hx.CLI("C01") }
