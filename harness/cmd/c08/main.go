// Command c08 runs the real tink-go code on cases of property C08.
package main

import (
	"github.com/tink-crypto/tink-go/v2/verifharness/hx"
	_ "github.com/tink-crypto/tink-go/v2/verifharness/p/c08"
)

func main() { hx.CLI("C08") }
