// Command c07 runs the real tink-go code on cases of property C07.
package main

import (
	"github.com/tink-crypto/tink-go/v2/verifharness/hx"
	_ "github.com/tink-crypto/tink-go/v2/verifharness/p/c07"
)

func main() { hx.CLI("C07") }
