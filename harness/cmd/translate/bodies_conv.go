package main

import (
	"go/ast"
	"go/types"
)

// Which concrete library types are ever converted to an interface value (assignment, argument,
// result, composite-literal field, explicit conversion)?  Only those - and the exported types of the
// public packages, which a user may convert himself - can be behind a call through an interface.
var ifaceConverted = map[string]bool{}

func markConv(dst, src types.Type) {
	if dst == nil || src == nil || !types.IsInterface(dst) || types.IsInterface(src) {
		return
	}
	if pt, ok := src.(*types.Pointer); ok {
		src = pt.Elem()
	}
	if n, ok := src.(*types.Named); ok {
		ifaceConverted[namedKey(n)] = true
	}
}

func markIfaceConversions(p *pkgInfo) {
	typeOf := func(e ast.Expr) types.Type {
		if tv, ok := p.info.Types[e]; ok {
			return tv.Type
		}
		if id, ok := e.(*ast.Ident); ok {
			if o := p.info.ObjectOf(id); o != nil {
				return o.Type()
			}
		}
		return nil
	}
	for _, file := range p.files {
		var sigs []*types.Signature
		var stack []ast.Node
		ast.Inspect(file, func(n ast.Node) bool {
			if n == nil {
				top := stack[len(stack)-1]
				stack = stack[:len(stack)-1]
				switch top.(type) {
				case *ast.FuncDecl, *ast.FuncLit:
					sigs = sigs[:len(sigs)-1]
				}
				return true
			}
			stack = append(stack, n)
			switch n := n.(type) {
			case *ast.FuncDecl:
				var s *types.Signature
				if o, ok := p.info.Defs[n.Name].(*types.Func); ok {
					s, _ = o.Type().(*types.Signature)
				}
				sigs = append(sigs, s)
			case *ast.FuncLit:
				s, _ := typeOf(n).(*types.Signature)
				sigs = append(sigs, s)
			case *ast.AssignStmt:
				if len(n.Lhs) == len(n.Rhs) {
					for i := range n.Lhs {
						markConv(typeOf(n.Lhs[i]), typeOf(n.Rhs[i]))
					}
				}
			case *ast.ValueSpec:
				if n.Type != nil {
					for _, v := range n.Values {
						markConv(typeOf(n.Type), typeOf(v))
					}
				}
			case *ast.ReturnStmt:
				if len(sigs) > 0 && sigs[len(sigs)-1] != nil {
					s := sigs[len(sigs)-1]
					if len(n.Results) == s.Results().Len() {
						for i, r := range n.Results {
							markConv(s.Results().At(i).Type(), typeOf(r))
						}
					}
				}
			case *ast.CallExpr:
				if tv, ok := p.info.Types[n.Fun]; ok && tv.IsType() {
					if len(n.Args) == 1 {
						markConv(tv.Type, typeOf(n.Args[0]))
					}
					return true
				}
				s, _ := typeOf(n.Fun).(*types.Signature)
				if s == nil {
					return true
				}
				np := s.Params().Len()
				for ai, a := range n.Args {
					pi := ai
					var pt types.Type
					if s.Variadic() && ai >= np-1 {
						pi = np - 1
						pt = s.Params().At(pi).Type()
						if sl, ok := pt.(*types.Slice); ok && !n.Ellipsis.IsValid() {
							pt = sl.Elem()
						}
					} else if pi < np {
						pt = s.Params().At(pi).Type()
					}
					markConv(pt, typeOf(a))
				}
			case *ast.CompositeLit:
				t := typeOf(n)
				if t == nil {
					return true
				}
				if pt, ok := t.Underlying().(*types.Pointer); ok {
					t = pt.Elem()
				}
				switch u := t.Underlying().(type) {
				case *types.Struct:
					for i, el := range n.Elts {
						if kv, ok := el.(*ast.KeyValueExpr); ok {
							if id, ok := kv.Key.(*ast.Ident); ok {
								for j := 0; j < u.NumFields(); j++ {
									if u.Field(j).Name() == id.Name {
										markConv(u.Field(j).Type(), typeOf(kv.Value))
									}
								}
							}
						} else if i < u.NumFields() {
							markConv(u.Field(i).Type(), typeOf(el))
						}
					}
				case *types.Slice:
					for _, el := range n.Elts {
						if kv, ok := el.(*ast.KeyValueExpr); ok {
							el = kv.Value
						}
						markConv(u.Elem(), typeOf(el))
					}
				case *types.Array:
					for _, el := range n.Elts {
						if kv, ok := el.(*ast.KeyValueExpr); ok {
							el = kv.Value
						}
						markConv(u.Elem(), typeOf(el))
					}
				case *types.Map:
					for _, el := range n.Elts {
						if kv, ok := el.(*ast.KeyValueExpr); ok {
							markConv(u.Elem(), typeOf(kv.Value))
						}
					}
				}
			case *ast.SendStmt:
				if ch, ok := typeOf(n.Chan).Underlying().(*types.Chan); ok {
					markConv(ch.Elem(), typeOf(n.Value))
				}
			}
			return true
		})
	}
}
