// Command translate regenerates coq/gen/*.v from the repository source.
package main

import (
	"flag"
	"fmt"
	"os"
)

func main() {
	repo := flag.String("repo", "/repo", "repository root")
	out := flag.String("out", "", "output directory")
	flag.Parse()
	if err := os.MkdirAll(*out, 0o755); err != nil {
		fmt.Fprintln(os.Stderr, err)
		os.Exit(2)
	}
	if err := run(*repo, *out); err != nil {
		fmt.Fprintln(os.Stderr, "translate:", err)
		os.Exit(1)
	}
}
