package main

func run(repo, out string) error { return nil }
