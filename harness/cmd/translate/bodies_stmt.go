package main

import (
	"go/ast"
	"go/token"
	"go/types"
)

func (t *bodyTr) block(list []ast.Stmt) {
	for _, s := range list {
		t.stmt(s)
	}
}

// assignTo stores the value in register v (rel: it is a slice or an object built here) into lhs.
func (t *bodyTr) assignTo(lhs ast.Expr, v int, rel bool, define bool) {
	lhs = unparen(lhs)
	ln := t.line(lhs)
	esc := func() {
		if rel && v >= 0 {
			t.emit(&node{op: "escape", v: v, pos: -1, why: "ret", line: ln})
		}
	}
	store := func(x int) {
		if (!rel || v < 0) && x >= 0 && isObjLike(t.typeOf(lhs)) {
			// an object that is not followed (an immutable one somebody else built) is stored INTO x: nothing
			// escapes, but x is modified - which counts against the immutability of x's type
			t.store(x, t.objTmpMake(lhs), lhs)
			return
		}
		if !rel || v < 0 {
			return
		}
		if x >= 0 {
			t.store(x, v, lhs)
		} else {
			esc()
		}
	}
	write := func(x int) {
		if x < 0 {
			x = t.tmpOpaque(lhs)
		}
		t.emit(&node{op: "write", v: x, pos: -1, why: "mut", line: ln})
	}
	// assigning a struct VALUE that holds byte arrays inline overwrites those arrays in place
	inlineWrite := func(x int) {
		if hasInlineBytes(t.typeOf(lhs), 0) {
			write(x)
		}
	}
	switch l := lhs.(type) {
	case *ast.Ident:
		if l.Name == "_" {
			return
		}
		o, ok := t.p.info.ObjectOf(l).(*types.Var)
		if !ok {
			return
		}
		if o.Pkg() != nil && o.Parent() == o.Pkg().Scope() {
			esc() // a package-level variable
			return
		}
		switch kindOf(o.Type()) {
		case kNone:
			if isIfaceVar(o) {
				// a local interface variable: it gets a register once it holds something that reaches bytes
				_, has := t.regOf[t.find(o)]
				if (rel && v >= 0) || has {
					t.assignObjVar(o, v, rel, lhs)
				}
				return
			}
			esc()
		case kArr:
			r := t.reg(o)
			if define {
				t.emit(&node{op: "make", r: r, pos: -1, line: ln})
			} else {
				t.emit(&node{op: "write", v: r, pos: -1, why: "mut", line: ln})
			}
		default:
			if isObjLike(o.Type()) {
				t.assignObjVar(o, v, rel, lhs)
				return
			}
			r := t.reg(o)
			if v >= 0 {
				t.emit(&node{op: "alias", r: r, v: v, pos: -1, line: ln})
			} else {
				t.emit(&node{op: "opaque", r: r, pos: -1, line: ln})
			}
		}
	case *ast.IndexExpr:
		t.walk(l.Index)
		if isByteElem(t.typeOf(l.X)) {
			x := t.eval(l.X)
			if x < 0 {
				x = t.tmpOpaque(lhs)
			}
			t.emit(&node{op: "set", v: x, pos: -1, why: "mut", line: ln})
			return
		}
		switch kindOf(t.typeOf(lhs)) {
		case kNone:
			t.walk(l.X)
			esc()
		case kArr:
			write(t.eval(l.X))
		default:
			x := t.eval(l.X)
			inlineWrite(x)
			store(x)
		}
	case *ast.SelectorExpr:
		switch kindOf(t.typeOf(lhs)) {
		case kNone:
			t.walk(l.X)
			esc()
		case kArr:
			write(t.eval(l.X))
		default:
			if _, ok := t.p.info.Selections[l]; ok {
				x := t.eval(l.X)
				inlineWrite(x)
				store(x)
			} else {
				esc() // pkg.Var
			}
		}
	case *ast.StarExpr:
		if isBytePtr(t.typeOf(l.X)) { // *q = b with q a *byte
			x := t.eval(l.X)
			if x < 0 {
				x = t.tmpOpaque(lhs)
			}
			t.emit(&node{op: "set", v: x, pos: -1, why: "mut", line: ln})
			return
		}
		if isByteElem(t.typeOf(lhs)) && kindOf(t.typeOf(lhs)) == kSlice {
			t.derefAssign = true
		}
		switch kindOf(t.typeOf(lhs)) {
		case kNone:
			t.walk(l.X)
			esc()
		case kArr:
			write(t.eval(l.X))
		default:
			x := t.eval(l.X)
			inlineWrite(x)
			store(x)
		}
	}
}

// relType: does a value of this type matter when it is stored, returned or passed on?  Byte slices always;
// objects unless they are immutable objects somebody else built.
func (t *bodyTr) relType(typ types.Type, tracked bool) bool {
	switch k := kindOf(typ); {
	case typ == nil || k == kNone || k == kArr:
		return false
	case isObjLike(typ):
		return tracked || !immutableType(typ)
	}
	return true
}

// assignObjVar: an object variable receives the object in register v (rel = false: an immutable object the
// function was handed - not followed as a value, but its byte fields are not the function's memory).
// The register of the variable's may-alias class is only reset when no other variable can alias it.
func (t *bodyTr) assignObjVar(o types.Object, v int, rel bool, at ast.Node) {
	R := t.classReg(o)
	if v == R {
		return
	}
	if !rel || v < 0 {
		v = t.objTmpOpaque(at)
	}
	// binding a variable is not a store into the object: the class may from now on ALSO denote v
	t.bind(R, v, at)
}

// hasInlineBytes: a struct value (not a pointer) with a byte array somewhere inside it
func hasInlineBytes(t types.Type, d int) bool {
	if t == nil || d > 4 {
		return false
	}
	switch u := t.Underlying().(type) {
	case *types.Array:
		return kindOf(u) == kArr || hasInlineBytes(u.Elem(), d+1)
	case *types.Struct:
		for i := 0; i < u.NumFields(); i++ {
			if hasInlineBytes(u.Field(i).Type(), d+1) {
				return true
			}
		}
	}
	return false
}

func (t *bodyTr) retOrEscape(i int, v int, at ast.Node) {
	if v < 0 {
		return
	}
	declNone := i >= len(t.results) || kindOf(t.results[i].Type()) == kNone
	if declNone && !t.strict && i < len(t.results) && isIfaceT(t.results[i].Type()) {
		// an internal helper that returns an interface value holding byte memory (the reader hkdf.New gives):
		// a result like any other; its callers account for what it holds
		t.resTrk[i] = true
		t.emit(&node{op: "ret", v: v, pos: i, line: t.line(at)})
		return
	}
	switch {
	case declNone:
		t.emit(&node{op: "escape", v: v, pos: -1, why: "ret", line: t.line(at)})
	case t.strict && !t.viewOK:
		t.emit(&node{op: "escape", v: v, pos: i, why: "ret", line: t.line(at)})
	default:
		t.emit(&node{op: "ret", v: v, pos: i, line: t.line(at)})
	}
}

func (t *bodyTr) stmt(s ast.Stmt) {
	if t.untr != "" || s == nil {
		return
	}
	switch s := s.(type) {
	case *ast.EmptyStmt:
	case *ast.BlockStmt:
		t.block(s.List)
	case *ast.ExprStmt:
		t.walk(s.X)
	case *ast.DeclStmt:
		gd, ok := s.Decl.(*ast.GenDecl)
		if !ok || gd.Tok != token.VAR {
			return
		}
		for _, sp := range gd.Specs {
			vs := sp.(*ast.ValueSpec)
			switch {
			case len(vs.Values) == 0:
				for _, nm := range vs.Names {
					if o := t.p.info.Defs[nm]; o != nil && kindOf(o.Type()) != kNone {
						if isObjLike(o.Type()) {
							t.classReg(o)
							continue
						}
						t.emit(&node{op: "make", r: t.reg(o), pos: -1, line: t.line(nm)})
					}
				}
			case len(vs.Values) == len(vs.Names):
				for i, nm := range vs.Names {
					v, rel := t.relVal(vs.Values[i])
					t.assignTo(nm, v, rel, true)
				}
			default:
				t.tupleAssign(identExprs(vs.Names), vs.Values[0], true)
			}
		}
	case *ast.AssignStmt:
		t.assign(s)
	case *ast.IncDecStmt:
		if st, ok := unparen(s.X).(*ast.StarExpr); ok && isBytePtr(t.typeOf(st.X)) {
			t.assignTo(st, -1, false, false)
			return
		}
		if ix, ok := unparen(s.X).(*ast.IndexExpr); ok && isByteElem(t.typeOf(ix.X)) {
			t.walk(ix.Index)
			x := t.eval(ix.X)
			if x < 0 {
				x = t.tmpOpaque(s)
			}
			t.emit(&node{op: "set", v: x, pos: -1, why: "mut", line: t.line(s)})
			return
		}
		t.walk(s.X)
	case *ast.ReturnStmt:
		t.ret(s)
	case *ast.IfStmt:
		t.stmt(s.Init)
		t.walk(s.Cond)
		a := t.sub(func() { t.block(s.Body.List) })
		b := t.sub(func() { t.stmt(s.Else) })
		t.emit(&node{op: "if", kids: []*node{a, b}, pos: -1})
	case *ast.ForStmt:
		t.stmt(s.Init)
		t.ctx = append(t.ctx, "loop")
		body := t.sub(func() {
			t.walk(s.Cond)
			t.block(s.Body.List)
		})
		// `continue` skips to the post statement: it runs at the start of the next iteration instead
		post := t.sub(func() { t.stmt(s.Post) })
		t.ctx = t.ctx[:len(t.ctx)-1]
		loopBody := nSeq([]*node{{op: "if", kids: []*node{post, nSeq(nil)}, pos: -1}, body})
		t.emit(&node{op: "loop", kids: []*node{loopBody}, pos: -1})
		t.emit(&node{op: "if", kids: []*node{post, nSeq(nil)}, pos: -1})
	case *ast.RangeStmt:
		xr := -1
		if kindOf(t.typeOf(s.X)) != kNone {
			xr = t.eval(s.X)
		} else {
			t.walk(s.X)
		}
		t.ctx = append(t.ctx, "loop")
		body := t.sub(func() {
			if s.Value != nil {
				if id, ok := s.Value.(*ast.Ident); ok && id.Name != "_" {
					if o := t.p.info.ObjectOf(id); o != nil {
						switch k := kindOf(o.Type()); {
						case k == kArr:
							t.emit(&node{op: "make", r: t.reg(o), pos: -1, line: t.line(s)})
						case isObjLike(o.Type()):
							rel := !immutableType(o.Type()) || t.trackedExpr(s.X)
							t.assignObjVar(o, xr, rel, s)
						case k == kSlice || k == kObj:
							if xr >= 0 {
								t.emit(&node{op: "alias", r: t.reg(o), v: xr, pos: -1, line: t.line(s)})
							} else {
								t.emit(&node{op: "opaque", r: t.reg(o), pos: -1, line: t.line(s)})
							}
						}
					}
				} else if !ok && kindOf(t.typeOf(s.Value)) != kNone {
					t.fail("range assigns byte data to a non-variable (line %d)", t.line(s))
				}
			}
			t.block(s.Body.List)
		})
		t.ctx = t.ctx[:len(t.ctx)-1]
		t.emit(&node{op: "loop", kids: []*node{body}, pos: -1})
	case *ast.SwitchStmt:
		t.stmt(s.Init)
		t.walk(s.Tag)
		t.switchBody(s.Body, nil)
	case *ast.TypeSwitchStmt:
		t.stmt(s.Init)
		switch a := s.Assign.(type) {
		case *ast.ExprStmt:
			t.walk(a.X)
		case *ast.AssignStmt:
			for _, r := range a.Rhs {
				t.walk(r)
			}
		}
		t.switchBody(s.Body, func(cc *ast.CaseClause) {
			if o := t.p.info.Implicits[cc]; o != nil && kindOf(o.Type()) != kNone {
				t.emit(&node{op: "opaque", r: t.reg(o), pos: -1, line: t.line(cc)})
			}
		})
	case *ast.BranchStmt:
		if s.Label != nil || (s.Tok != token.BREAK && s.Tok != token.CONTINUE) {
			t.fail("goto, fallthrough or labelled break/continue (line %d)", t.line(s))
			return
		}
		if len(t.ctx) == 0 {
			t.fail("break outside a loop (line %d)", t.line(s))
			return
		}
		if s.Tok == token.BREAK && t.ctx[len(t.ctx)-1] == "switch" {
			t.fail("break inside a switch (line %d)", t.line(s))
			return
		}
		inLoop := false
		for _, c := range t.ctx {
			if c == "loop" {
				inLoop = true
			}
		}
		if !inLoop {
			t.fail("continue outside a loop (line %d)", t.line(s))
			return
		}
		t.emit(&node{op: "jump", pos: -1, line: t.line(s)})
	case *ast.DeferStmt, *ast.GoStmt:
		var call *ast.CallExpr
		if d, ok := s.(*ast.DeferStmt); ok {
			call = d.Call
		} else {
			call = s.(*ast.GoStmt).Call
		}
		n := t.sub(func() { t.doCall(call) })
		if n.count() > 0 {
			t.fail("deferred or concurrent call with byte arguments (line %d)", t.line(s))
		}
	case *ast.LabeledStmt:
		t.fail("labelled statement (line %d)", t.line(s))
	case *ast.SendStmt:
		if kindOf(t.typeOf(s.Value)) != kNone {
			t.fail("sends byte data on a channel (line %d)", t.line(s))
		}
		t.walk(s.Value)
	case *ast.SelectStmt:
		t.fail("select statement (line %d)", t.line(s))
	default:
		t.fail("statement %T (line %d)", s, t.line(s))
	}
}

func identExprs(ids []*ast.Ident) []ast.Expr {
	var es []ast.Expr
	for _, id := range ids {
		es = append(es, id)
	}
	return es
}

func (t *bodyTr) switchBody(body *ast.BlockStmt, pre func(*ast.CaseClause)) {
	t.ctx = append(t.ctx, "switch")
	var alts []*node
	hasDefault := false
	for _, c := range body.List {
		cc := c.(*ast.CaseClause)
		if cc.List == nil {
			hasDefault = true
		}
		alts = append(alts, t.sub(func() {
			for _, e := range cc.List {
				if tv, ok := t.p.info.Types[e]; !ok || !tv.IsType() {
					t.walk(e)
				}
			}
			if pre != nil {
				pre(cc)
			}
			t.block(cc.Body)
		}))
	}
	t.ctx = t.ctx[:len(t.ctx)-1]
	if !hasDefault {
		alts = append(alts, nSeq(nil))
	}
	cur := alts[len(alts)-1]
	for i := len(alts) - 2; i >= 0; i-- {
		cur = &node{op: "if", kids: []*node{alts[i], cur}, pos: -1}
	}
	t.emit(cur)
}

func (t *bodyTr) tupleAssign(lhs []ast.Expr, rhs ast.Expr, define bool) {
	switch r := unparen(rhs).(type) {
	case *ast.CallExpr:
		regs := t.doCall(r)
		rts := t.resultTypes(r)
		for i, l := range lhs {
			v := -1
			var rt types.Type
			if i < len(regs) && i < len(rts) {
				v, rt = regs[i], rts[i]
			}
			t.assignTo(l, v, t.relType(rt, t.trackedCallRes(r, i)) || (isIfaceT(rt) && v >= 0), define)
		}
	case *ast.TypeAssertExpr:
		t.walk(r.X)
		v := -1
		if kindOf(t.typeOf(r.Type)) != kNone {
			v = t.tmpOpaque(r)
		}
		t.assignTo(lhs[0], v, kindOf(t.typeOf(r.Type)) == kSlice, define)
	case *ast.IndexExpr:
		v, rel := t.relVal(r)
		t.assignTo(lhs[0], v, rel, define)
	default:
		if kindOf(t.typeOf(lhs[0])) != kNone {
			t.fail("multi-value assignment of byte data from %T (line %d)", r, t.line(rhs))
		}
		t.walk(rhs)
	}
}

func (t *bodyTr) assign(s *ast.AssignStmt) {
	define := s.Tok == token.DEFINE
	if s.Tok != token.ASSIGN && s.Tok != token.DEFINE {
		// x op= y
		for _, r := range s.Rhs {
			t.walk(r)
		}
		if st, ok := unparen(s.Lhs[0]).(*ast.StarExpr); ok && isBytePtr(t.typeOf(st.X)) {
			t.assignTo(st, -1, false, false)
		} else if ix, ok := unparen(s.Lhs[0]).(*ast.IndexExpr); ok && isByteElem(t.typeOf(ix.X)) {
			t.walk(ix.Index)
			x := t.eval(ix.X)
			if x < 0 {
				x = t.tmpOpaque(s)
			}
			t.emit(&node{op: "set", v: x, pos: -1, why: "mut", line: t.line(s)})
		} else {
			t.walk(s.Lhs[0])
		}
		return
	}
	if len(s.Lhs) == len(s.Rhs) {
		// closure definition: name := func(..) {..}
		if define && len(s.Lhs) == 1 {
			if lit, ok := unparen(s.Rhs[0]).(*ast.FuncLit); ok {
				if id, ok := s.Lhs[0].(*ast.Ident); ok {
					if o := t.p.info.Defs[id]; o != nil {
						t.closures[o] = lit
						return
					}
				}
			}
		}
		n := len(s.Lhs)
		vals := make([]int, n)
		rels := make([]bool, n)
		for i, r := range s.Rhs {
			vals[i], rels[i] = t.relVal(r)
			if n > 1 && vals[i] >= 0 {
				tmp := t.newReg("")
				t.emit(&node{op: "alias", r: tmp, v: vals[i], pos: -1, line: t.line(s)})
				vals[i] = tmp
			}
		}
		for i, l := range s.Lhs {
			t.assignTo(l, vals[i], rels[i], define)
		}
		return
	}
	if len(s.Rhs) == 1 {
		t.tupleAssign(s.Lhs, s.Rhs[0], define)
		return
	}
	t.fail("assignment shape (line %d)", t.line(s))
}

func (t *bodyTr) ret(s *ast.ReturnStmt) {
	if t.inClos > 0 {
		t.fail("return inside a closure (line %d)", t.line(s))
		return
	}
	n := len(t.results)
	switch {
	case len(s.Results) == 0:
		for i, rv := range t.results {
			if t.relType(rv.Type(), t.tracked[t.find(rv)]) {
				if rv.Name() == "" || rv.Name() == "_" {
					continue
				}
				if isObjLike(rv.Type()) {
					t.resTrk[i] = true
				}
				t.retOrEscape(i, t.reg(rv), s)
			}
		}
	case len(s.Results) == 1 && n > 1:
		if c, ok := unparen(s.Results[0]).(*ast.CallExpr); ok {
			regs := t.doCall(c)
			rts := t.resultTypes(c)
			for i := 0; i < n && i < len(regs) && i < len(rts); i++ {
				if t.relType(rts[i], t.trackedCallRes(c, i)) {
					if isObjLike(rts[i]) {
						t.resTrk[i] = true
					}
					t.retOrEscape(i, regs[i], s)
				}
			}
		} else {
			t.fail("multi-valued result that is not a call (line %d)", t.line(s))
		}
	default:
		for i, e := range s.Results {
			in := t.stripIface(e)
			v, rel := t.relVal(e)
			if rel {
				if isObjLike(t.typeOf(in)) && i < n && isObjLike(t.results[i].Type()) {
					t.resTrk[i] = true
				}
				t.retOrEscape(i, v, s)
			}
		}
	}
	t.emit(&node{op: "return", pos: -1, line: t.line(s)})
}
