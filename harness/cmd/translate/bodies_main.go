package main

import (
	"fmt"
	"go/ast"
	"go/types"
	"os"
	"path/filepath"
	"sort"
	"strings"
)

type fnDecl struct {
	p          *pkgInfo
	rel        string
	fd         *ast.FuncDecl
	fn         *types.Func
	key        string
	name       string // as printed: "(*T).M" or "F"
	strict     bool
	tr         *bodyTr
	wflags     []bool
	kflags     []bool
	excReg     map[int]excPerm // parameter index -> what an API function may do with it, and why
	viewWhy    string
	helperOnly bool // takes no byte-carrying type itself, only interface values
	isLit      bool
	diag       []string
}

// ---- documented exceptions of the API discipline -------------------------------------------------

func perStreamType(p *pkgInfo, rel string, nt *types.Named) bool {
	if nt == nil || (rel == "keyset" && nt.Obj().Name() == "Handle") {
		return false
	}
	ms := types.NewMethodSet(types.NewPointer(nt))
	for _, mn := range []string{"Write", "Read", "Close"} {
		if ms.Lookup(nt.Obj().Pkg(), mn) != nil {
			return true
		}
	}
	return false
}

func recvNamed(sig *types.Signature) *types.Named {
	if sig.Recv() == nil {
		return nil
	}
	t := sig.Recv().Type()
	if pt, ok := t.(*types.Pointer); ok {
		t = pt.Elem()
	}
	nt, _ := t.(*types.Named)
	return nt
}

type excPerm struct {
	w, k bool
	why  string
}

// EXPLICIT EXCEPTION LIST: every entry names the function, the parameter (callee parameter index; receiver = 0
// for methods; -1 = the result may be a view), what the function may do with it (write through it / keep it),
// and why.  Nothing is exempted by a naming rule or by the shape of a type.
type excSpec struct {
	param int
	w, k  bool
	why   string
}

const whyWithDst = "implements noncebased's segment...WithDst interface: by that contract the result is written into / appended to the caller-supplied dst and returned as a view of it"
const whyStreamSelf = "the receiver is the state of ONE stream (an io.Writer / io.Reader handed to one caller): the method fills its own plaintext / ciphertext buffers and stores re-slices of them back into itself; nothing here is a key, handle or primitive shared between callers"
const whyReadP = "io.Reader contract: Read fills the caller's buffer p for the duration of the call (it may write it, it may not keep it)"
const whyMemRW = "keyset.MemReaderWriter is the in-memory keyset.Reader/Writer: holding the keyset object it was given and handing the same object back is what it is for"

var docExceptions = map[string][]excSpec{
	"(streamingaead/subtle.aesGCMHKDFSegmentEncrypter).EncryptSegmentWithDst": {{1, true, false, whyWithDst}, {-1, false, false, whyWithDst}},
	"(streamingaead/subtle.aesGCMHKDFSegmentDecrypter).DecryptSegmentWithDst": {{1, true, false, whyWithDst}, {-1, false, false, whyWithDst}},
	"(streamingaead/subtle.aesCTRHMACSegmentEncrypter).EncryptSegmentWithDst": {{1, true, false, whyWithDst}, {-1, false, false, whyWithDst}},
	"(streamingaead/subtle.aesCTRHMACSegmentDecrypter).DecryptSegmentWithDst": {{1, true, false, whyWithDst}, {-1, false, false, whyWithDst}},
	"(*streamingaead/subtle/noncebased.Writer).Write":                         {{0, true, true, whyStreamSelf}},
	"(*streamingaead/subtle/noncebased.Writer).Close":                         {{0, true, true, whyStreamSelf}},
	"(*streamingaead/subtle/noncebased.Reader).Read":                          {{0, true, true, whyStreamSelf}, {1, true, false, whyReadP}},
	"(*streamingaead.unreader).Read":                                          {{0, true, true, whyStreamSelf}, {1, true, false, whyReadP}},
	"(*keyset.MemReaderWriter).Read":                                          {{0, false, true, whyMemRW}, {-1, false, false, whyMemRW}},
	"(*keyset.MemReaderWriter).ReadEncrypted":                                 {{0, false, true, whyMemRW}, {-1, false, false, whyMemRW}},
	"(*keyset.MemReaderWriter).Write":                                         {{0, false, true, whyMemRW}, {1, false, true, whyMemRW}},
	"(*keyset.MemReaderWriter).WriteEncrypted":                                {{0, false, true, whyMemRW}, {1, false, true, whyMemRW}},
}

func (d *fnDecl) exceptions() {
	d.excReg = map[int]excPerm{}
	for _, e := range docExceptions[shortKey(d.key)] {
		if e.param < 0 {
			d.viewWhy = e.why
			continue
		}
		d.excReg[e.param] = excPerm{e.w, e.k, e.why}
	}
}

// ---- one function ----------------------------------------------------------------------------------

func translateBody(d *fnDecl) *bodyTr {
	t := &bodyTr{p: d.p, fd: d.fd, fn: d.fn, strict: d.strict, viewOK: d.viewWhy != "", regOf: map[types.Object]int{},
		closures: map[types.Object]*ast.FuncLit{}, tracked: map[types.Object]bool{},
		parent: map[types.Object]types.Object{}, clsSize: map[types.Object]int{}, isParam: map[types.Object]bool{},
		objRegs: map[int]bool{}, classRegs: map[int]bool{}, closures0: map[types.Object]*ast.FuncLit{}, paramType: map[int]types.Type{}}
	sig := d.fn.Type().(*types.Signature)
	if (sig.TypeParams().Len() > 0 || sig.RecvTypeParams().Len() > 0) && d.strict {
		// an internal generic helper is translated with its type parameters standing for types that carry
		// no bytes (every call site is checked to instantiate it that way); an exported one is not
		t.fail("generic API function")
		return t
	}
	if errs := typeErrors[d.p]; len(errs) > 0 {
		t.fail("the package has %d type errors (first: %s)", len(errs), errs[0])
		return t
	}
	checkCut := func(tt types.Type) {
		kindOf(tt)
		if cutoffTypes[tt] {
			t.fail("the type %s is nested too deep to decide whether it reaches byte memory", tt.String())
		}
	}
	if sig.Recv() != nil {
		checkCut(sig.Recv().Type())
	}
	for i := 0; i < sig.Params().Len(); i++ {
		checkCut(sig.Params().At(i).Type())
	}
	for i := 0; i < sig.Results().Len(); i++ {
		checkCut(sig.Results().At(i).Type())
	}
	if t.untr != "" {
		return t
	}
	var entry []*node
	t.cur = &entry
	addParam := func(nm *ast.Ident, typ types.Type) {
		k := kindOf(typ)
		if k == kNone && !d.strict && typ != nil && types.IsInterface(typ) && typ.String() != "error" && nm != nil && nm.Name != "_" {
			// an internal helper: follow what is done with an interface-typed parameter too
			r := t.newReg(nm.Name)
			if o := d.p.info.Defs[nm]; o != nil {
				t.regOf[o] = r
			}
			t.paramReg = append(t.paramReg, r)
			return
		}
		if k == kNone {
			t.paramReg = append(t.paramReg, -1)
			return
		}
		name := "_"
		var o types.Object
		if nm != nil {
			name = nm.Name
			o = d.p.info.Defs[nm]
		}
		r := t.newReg(name)
		if o != nil {
			t.regOf[o] = r
			t.isParam[o] = true
		}
		if isObjLike(typ) {
			t.objRegs[r] = true
		}
		t.paramType[r] = typ
		t.paramReg = append(t.paramReg, r)
		if k == kArr {
			t.emit(&node{op: "make", r: r, pos: -1}) // passed by value: the function's own copy
		}
	}
	if d.fd.Recv != nil && len(d.fd.Recv.List) == 1 {
		f := d.fd.Recv.List[0]
		var nm *ast.Ident
		if len(f.Names) == 1 {
			nm = f.Names[0]
		}
		addParam(nm, sig.Recv().Type())
	}
	for _, f := range d.fd.Type.Params.List {
		typ := d.p.info.Types[f.Type].Type
		if _, ok := f.Type.(*ast.Ellipsis); ok && typ != nil {
			if _, isSl := typ.(*types.Slice); !isSl {
				typ = types.NewSlice(typ)
			}
		}
		if len(f.Names) == 0 {
			addParam(nil, typ)
		}
		for _, nm := range f.Names {
			addParam(nm, typ)
		}
	}
	t.np = len(t.regNames)
	for i := 0; i < sig.Results().Len(); i++ {
		t.results = append(t.results, sig.Results().At(i))
	}
	t.resTrk = make([]bool, len(t.results))
	var namedRes []types.Object
	if d.fd.Type.Results != nil {
		for _, f := range d.fd.Type.Results.List {
			for _, nm := range f.Names {
				if o := d.p.info.Defs[nm]; o != nil && nm.Name != "_" && kindOf(o.Type()) != kNone {
					namedRes = append(namedRes, o)
				}
			}
		}
		// the signature's result variables are the same objects as the named results
		idx := 0
		for _, f := range d.fd.Type.Results.List {
			if len(f.Names) == 0 {
				idx++
				continue
			}
			for _, nm := range f.Names {
				if o, ok := d.p.info.Defs[nm].(*types.Var); ok && idx < len(t.results) {
					t.results[idx] = o
				}
				idx++
			}
		}
	}
	// closure definitions, then the may-alias classes of the object variables
	ast.Inspect(d.fd.Body, func(n ast.Node) bool {
		if as, ok := n.(*ast.AssignStmt); ok && len(as.Lhs) == 1 && len(as.Rhs) == 1 {
			if lit, ok := unparen(as.Rhs[0]).(*ast.FuncLit); ok {
				if id, ok := as.Lhs[0].(*ast.Ident); ok {
					if o := d.p.info.Defs[id]; o != nil {
						t.closures0[o] = lit
					}
				}
			}
		}
		return true
	})
	t.computeClasses()
	for i := 0; i < 4; i++ {
		// objects of whitelisted types are followed only when they were built here, which is known after
		// the classes are: iterate
		t.tracked = map[types.Object]bool{}
		t.computeTracked()
		before := len(t.parent)
		t.computeClasses()
		if len(t.parent) == before {
			break
		}
	}
	// a class with several members is allocated once, on entry: its register is only ever lowered
	var roots []types.Object
	seenRoot := map[types.Object]bool{}
	for o := range t.parent {
		r := t.find(o)
		if !seenRoot[r] && !t.isParam[r] {
			seenRoot[r] = true
			roots = append(roots, r)
		}
	}
	sort.Slice(roots, func(i, j int) bool { return roots[i].Pos() < roots[j].Pos() })
	for _, r := range roots {
		t.classReg(r)
	}
	for _, o := range namedRes {
		if !isObjLike(o.Type()) {
			t.emit(&node{op: "make", r: t.reg(o), pos: -1})
		} else {
			t.classReg(o)
		}
	}
	t.computeTracked()
	t.block(d.fd.Body.List)
	if t.addrSlice && t.derefAssign {
		t.fail("takes the address of a byte-slice variable and assigns through a pointer to a slice")
	}
	var pre []*node
	for _, r := range t.entryMakes {
		pre = append(pre, &node{op: "make", r: r, pos: -1})
	}
	t.body = nSeq(append(pre, entry...))
	return t
}

// summarize runs the root-set analysis on a translated body.
// Returns the summary, the write flags, the keep flags and the diagnostics.
func summarize(d *fnDecl, t *bodyTr) (*summary, []bool, []bool, []string) {
	sig := d.fn.Type().(*types.Signature)
	nparams := len(t.paramReg)
	s := &summary{key: d.key, nparams: nparams, mut: make([]bool, nparams), keep: make([]bool, nparams), stores: make([]uint64, nparams),
		res: make([]resInfo, sig.Results().Len()), ifaceTr: !d.strict, paramReg: t.paramReg}
	if t.untr != "" {
		s.untr = t.untr
		return s, nil, nil, nil
	}
	nregs := len(t.regNames)
	a := &analyzer{np: t.np, mut: make([]bool, t.np), keep: make([]bool, t.np), stored: make([]bool, t.np), links: make([]uint64, t.np)}
	allowW, allowK := make([]bool, t.np), make([]bool, t.np)
	if d.strict {
		a.strictW, a.strictK = make([]bool, t.np), make([]bool, t.np)
		for i := range a.strictW {
			a.strictW[i], a.strictK[i] = true, true
		}
		for pi, e := range d.excReg {
			if pi < len(t.paramReg) && t.paramReg[pi] >= 0 {
				r := t.paramReg[pi]
				if e.w {
					allowW[r], a.strictW[r] = true, false
				}
				if e.k {
					allowK[r], a.strictK[r] = true, false
				}
			}
		}
	}
	for round := 0; round < 8; round++ {
		oldK := append([]bool(nil), a.keep...)
		a.resRoots = make([]uint64, sig.Results().Len())
		a.resSeen = make([]bool, sig.Results().Len())
		a.links = make([]uint64, t.np)
		a.diag = nil
		st := make(astate, nregs)
		for i := range st {
			if i < t.np && i < 61 {
				st[i] = 1<<uint(i) | sharedBit
			} else {
				st[i] = opaqueBit | sharedBit
			}
		}
		a.run(t.body, st)
		same := true
		for i := range oldK {
			if oldK[i] != a.keep[i] {
				same = false
			}
		}
		if same {
			break
		}
	}
	// registers -> callee parameter indices
	regToParam := map[int]int{}
	for pi, r := range t.paramReg {
		if r >= 0 {
			regToParam[r] = pi
		}
	}
	toParams := func(rs uint64) uint64 {
		var out uint64
		for r := 0; r < t.np && r < 61; r++ {
			if rs&(1<<uint(r)) != 0 {
				out |= 1 << uint(regToParam[r])
			}
		}
		return out | rs&opaqueBit
	}
	wflags, kflags := make([]bool, nregs), make([]bool, nregs)
	for r := 0; r < t.np; r++ {
		pi := regToParam[r]
		s.mut[pi], s.keep[pi] = a.mut[r], a.keep[r]
		s.stores[pi] = toParams(a.links[r])
		if d.strict {
			// an exception is recorded (and the flag set) only where the body makes use of it
			wflags[r], kflags[r] = allowW[r] && a.mut[r], allowK[r] && a.keep[r]
		} else {
			wflags[r], kflags[r] = a.mut[r], a.keep[r]
		}
		// a type through whose values some function writes or stores is not immutable
		if a.mut[r] || a.stored[r] {
			if tk := typeNameKey(t.paramType[r]); tk != "" && immutableCand[tk] {
				if _, done := mutableType[tk]; !done {
					mutableType[tk] = shortKey(d.key)
					whitelistChanged = true
				}
			}
		}
	}
	for i := range s.res {
		k := kindOf(sig.Results().At(i).Type())
		s.res[i].kind = k
		if k != kSlice && k != kObj && !(isIfaceT(sig.Results().At(i).Type()) && a.resSeen[i]) {
			continue
		}
		s.res[i].seen = a.resSeen[i]
		s.res[i].tracked = t.resTrk[i]
		s.res[i].roots = toParams(a.resRoots[i])
		// a type one of whose values hands out (a view of) what it holds is not encapsulated: not immutable
		for r := 0; r < t.np && r < 61; r++ {
			if a.resRoots[i]&(1<<uint(r)) != 0 {
				if tk := typeNameKey(t.paramType[r]); tk != "" && immutableCand[tk] {
					if _, done := mutableType[tk]; !done {
						mutableType[tk] = shortKey(d.key) + " (hands out what the object holds)"
						whitelistChanged = true
					}
				}
			}
		}
	}
	return s, wflags, kflags, a.diag
}

var whitelistChanged bool

// ---- the whole library -----------------------------------------------------------------------------

func considered(sig *types.Signature) bool {
	if sig.Recv() != nil && kindOf(sig.Recv().Type()) != kNone {
		return true
	}
	for i := 0; i < sig.Params().Len(); i++ {
		if kindOf(sig.Params().At(i).Type()) != kNone {
			return true
		}
	}
	for i := 0; i < sig.Results().Len(); i++ {
		if k := kindOf(sig.Results().At(i).Type()); k == kSlice || k == kObj {
			return true
		}
	}
	return false
}

func hasIfaceParam(sig *types.Signature) bool {
	for i := 0; i < sig.Params().Len(); i++ {
		t := sig.Params().At(i).Type()
		if types.IsInterface(t) && t.String() != "error" {
			return true
		}
	}
	return false
}

var relOfPkg = map[*pkgInfo]string{}

// what the scan did not look at
type scanStat struct {
	scanned int
	skipped []string // package directories with non-test Go files under the directories goPackages skips
	failed  []string // package directories that could not be loaded
}

var scanStats scanStat

func skippedPackages(root string) []string {
	seen := map[string]bool{}
	for _, d := range goPackages(root) {
		seen[d] = true
	}
	var out []string
	filepath.Walk(root, func(p string, fi os.FileInfo, err error) error {
		if err != nil || !fi.IsDir() {
			return nil
		}
		if fi.Name() == ".git" {
			return filepath.SkipDir
		}
		if seen[p] {
			return nil
		}
		ms, _ := filepath.Glob(filepath.Join(p, "*.go"))
		for _, m := range ms {
			if !strings.HasSuffix(m, "_test.go") {
				rel, _ := filepath.Rel(root, p)
				out = append(out, rel)
				break
			}
		}
		return nil
	})
	sort.Strings(out)
	return out
}

func scanBodies(root string) []*fnDecl {
	var decls []*fnDecl
	var pkgsSeen []*pkgInfo
	scanStats = scanStat{}
	scanStats.skipped = skippedPackages(root)
	for _, dir := range goPackages(root) {
		p, e := loadPkg(dir)
		if e != nil || p == nil || p.pkg == nil {
			rel, _ := filepath.Rel(root, dir)
			scanStats.failed = append(scanStats.failed, rel)
			continue
		}
		scanStats.scanned++
		rel, _ := filepath.Rel(root, dir)
		full := libPrefix
		if rel != "." {
			full += "/" + filepath.ToSlash(rel)
		}
		localPath[p.pkg] = full
		pkgsSeen = append(pkgsSeen, p)
		relOfPkg[p] = rel
		internalPkg := strings.HasPrefix(rel, "internal/") || strings.Contains(rel, "/internal/") || rel == "internal"
		for _, file := range p.files {
			for _, dd := range file.Decls {
				fd, ok := dd.(*ast.FuncDecl)
				if !ok || fd.Body == nil {
					continue
				}
				fn, ok := p.info.Defs[fd.Name].(*types.Func)
				if !ok {
					continue
				}
				sig := fn.Type().(*types.Signature)
				name := fd.Name.Name
				if fd.Recv != nil && len(fd.Recv.List) == 1 {
					name = "(" + types.ExprString(fd.Recv.List[0].Type) + ")." + name
				}
				d := &fnDecl{p: p, rel: rel, fd: fd, fn: fn, name: name, strict: fd.Name.IsExported() && !internalPkg}
				decls = append(decls, d)
				_ = sig
			}
		}
	}
	// keys need localPath complete
	relOf := map[*pkgInfo]string{}
	for _, d := range decls {
		relOf[d.p] = d.rel
	}
	for _, p := range pkgsSeen {
		markIfaceConversions(p)
		collectFuncValues(p)
		registerTypeCandidates(p, relOfPkg[p])
		if os.Getenv("C19_DEBUG") != "" && len(typeErrors[p]) > 0 {
			fmt.Fprintf(os.Stderr, "TYPEERR %s: %d errors, first: %s\n", relOfPkg[p], len(typeErrors[p]), typeErrors[p][0])
		}
	}
	// function literals that capture no byte variable are functions of their own (internal helpers)
	for _, l := range litDecls {
		fd := &ast.FuncDecl{Name: ast.NewIdent(l.fn.Name()), Type: l.lit.Type, Body: l.lit.Body}
		decls = append(decls, &fnDecl{p: l.p, rel: relOf[l.p], fd: fd, fn: l.fn, name: l.fn.Name(), strict: false, isLit: true})
	}
	var out []*fnDecl
	for _, d := range decls {
		sig := d.fn.Type().(*types.Signature)
		d.key = funcKey(d.fn)
		if nt := recvNamed(sig); nt != nil {
			tk := namedKey(nt)
			if typeMethods[tk] == nil {
				typeMethods[tk] = map[string]*types.Func{}
			}
			typeMethods[tk][d.fd.Name.Name] = d.fn
			internalPkg := strings.HasPrefix(d.rel, "internal/") || strings.Contains(d.rel, "/internal/") || d.rel == "internal"
			if nt.Obj().Exported() && !internalPkg {
				publicType[tk] = true
			}
		}
		if !considered(sig) {
			// an internal helper that is handed objects as interface values (e.g. a proto.Message built by
			// its caller) is translated too, so that its callers need not assume it keeps them
			if d.strict || !hasIfaceParam(sig) {
				continue
			}
			d.helperOnly = true
		}
		d.exceptions()
		out = append(out, d)
	}
	sort.Slice(out, func(i, j int) bool {
		if out[i].rel != out[j].rel {
			return out[i].rel < out[j].rel
		}
		if out[i].name != out[j].name {
			return out[i].name < out[j].name
		}
		return out[i].fd.Pos() < out[j].fd.Pos()
	})
	for _, d := range out {
		np := d.fn.Type().(*types.Signature).Params().Len()
		if d.fn.Type().(*types.Signature).Recv() != nil {
			np++
		}
		summaries[d.key] = &summary{key: d.key, nparams: np, mut: make([]bool, np), keep: make([]bool, np),
			res: make([]resInfo, d.fn.Type().(*types.Signature).Results().Len()), ifaceTr: !d.strict}
	}
	for round := 0; round < 30; round++ {
		changed := 0
		whitelistChanged = false
		for _, d := range out {
			if summaries[d.key].untr != "" {
				continue // once untranslated, always
			}
			t := translateBody(d)
			s, wf, kf, diag := summarize(d, t)
			d.tr, d.wflags, d.kflags, d.diag = t, wf, kf, diag
			if !s.equal(summaries[d.key]) {
				summaries[d.key] = s
				changed++
			}
		}
		if os.Getenv("C19_DEBUG") != "" {
			fmt.Fprintf(os.Stderr, "bodies: round %d, %d summaries changed\n", round, changed)
		}
		if changed == 0 && !whitelistChanged {
			break
		}
	}
	return out
}

func coqStr(s string) string { return "\"" + strings.ReplaceAll(s, "\"", "'") + "\"" }

// tableIndex: position of a translated function in the emitted table (for call records)
var tableIndex = map[string]int{}
var tableDecl = map[string]*fnDecl{}

func flagList(fs []bool) string {
	var fl []string
	for _, f := range fs {
		if f {
			fl = append(fl, "T")
		} else {
			fl = append(fl, "F")
		}
	}
	return strings.Join(fl, "; ")
}

func bodiesV(decls []*fnDecl) string {
	var b strings.Builder
	b.WriteString("(* C19: the slice-relevant behaviour of the BODY of every function of the library's non-test packages\n" +
		"   that takes, keeps or returns byte memory, as a program of model/HeapProg.v (see\n" +
		"   harness/cmd/translate/bodies_*.go).  Entry: package, function, API? (exported function of a\n" +
		"   non-internal package), number of registers, number of parameter registers, the parameters the function may\n" +
		"   WRITE THROUGH and those it may KEEP (API: none except the documented exceptions; internal helper: the\n" +
		"   inferred contract, which every call site must meet with slices the caller owns - checked in Coq on the call\n" +
		"   records SCall), the registers that stand for objects (one per may-alias class, computed by the translator; never copied into another object register), the named\n" +
		"   types of the object parameters, the body. *)\n")
	b.WriteString("From Coq Require Import List String.\nFrom Tink Require Import Heap HeapProg.\nImport ListNotations.\nOpen Scope string_scope.\n")
	b.WriteString("Record fn_body := mkBody { fb_pkg : string; fb_fn : string; fb_api : bool; fb_nregs : nat; fb_np : nat;\n" +
		"  fb_wflags : list bool; fb_kflags : list bool; fb_objs : list nat; fb_classes : list nat; fb_ptypes : list (nat * string); fb_prog : stmt }.\n")
	b.WriteString("Definition T := true.\nDefinition F := false.\n")
	nTr, nUn, nInstr, nApi, nCalls, nFail := 0, 0, 0, 0, 0, 0
	var untr [][3]string
	var exc [][3]string
	tableIndex = map[string]int{}
	tableDecl = map[string]*fnDecl{}
	for _, d := range decls {
		if d.tr != nil && d.tr.untr == "" {
			tableIndex[d.key] = len(tableIndex)
			tableDecl[d.key] = d
		}
	}
	b.WriteString("Definition c19_bodies : list fn_body := [")
	first := true
	for _, d := range decls {
		if d.tr == nil || d.tr.untr != "" {
			nUn++
			why := "not translated"
			if d.tr != nil {
				why = d.tr.untr
			}
			untr = append(untr, [3]string{d.rel, d.name, why})
			continue
		}
		nTr++
		if d.strict {
			nApi++
		}
		nInstr += d.tr.body.count()
		nCalls += d.tr.body.calls()
		if d.tr.body.canFail() {
			nFail++
		}
		if !first {
			b.WriteString(";")
		}
		first = false
		api := "false"
		if d.strict {
			api = "true"
		}
		var nm []string
		for r, n := range d.tr.regNames {
			if n != "" {
				nm = append(nm, fmt.Sprintf("%d=%s", r, n))
			}
		}
		var objs []int
		for r := range d.tr.objRegs {
			objs = append(objs, r)
		}
		sort.Ints(objs)
		var pts []string
		for r := 0; r < d.tr.np; r++ {
			if tk := typeNameKey(d.tr.paramType[r]); tk != "" && isObjLike(d.tr.paramType[r]) {
				pts = append(pts, fmt.Sprintf("(%d, %s)", r, coqStr(shortKey(tk))))
			}
		}
		fmt.Fprintf(&b, "\n  (* #%d, line %d; registers: %s *)", tableIndex[d.key], d.p.fset.Position(d.fd.Pos()).Line, strings.ReplaceAll(strings.Join(nm, " "), "*)", "* )"))
		fmt.Fprintf(&b, "\n  mkBody %s %s %s %d %d [%s] [%s] [%s] [%s] [%s]\n    (", coqStr(d.rel), coqStr(d.name), api, len(d.wflags), d.tr.np,
			flagList(d.wflags), flagList(d.kflags), joinInts(objs), joinInts(d.tr.entryMakes), strings.Join(pts, "; "))
		d.tr.body.coq(&b)
		b.WriteString(")")
		if d.strict {
			var pis []int
			for pi := range d.excReg {
				pis = append(pis, pi)
			}
			sort.Ints(pis)
			for _, pi := range pis {
				if pi < len(d.tr.paramReg) && d.tr.paramReg[pi] >= 0 {
					r := d.tr.paramReg[pi]
					if d.wflags[r] || d.kflags[r] {
						what := "may be written"
						if d.wflags[r] && d.kflags[r] {
							what = "may be written and kept"
						} else if d.kflags[r] {
							what = "may be kept"
						}
						exc = append(exc, [3]string{d.rel, d.name, fmt.Sprintf("register %d (%s) %s: %s", r, d.tr.regNames[r], what, d.excReg[pi].why)})
					}
				}
			}
			if d.viewWhy != "" {
				exc = append(exc, [3]string{d.rel, d.name, "returns a view: " + d.viewWhy})
			}
		}
	}
	b.WriteString("].\n")
	list3 := func(name string, l [][3]string) {
		fmt.Fprintf(&b, "Definition %s : list (string * string * string) := [", name)
		for i, u := range l {
			if i > 0 {
				b.WriteString(";")
			}
			fmt.Fprintf(&b, "\n  (%s, %s, %s)", coqStr(u[0]), coqStr(u[1]), coqStr(u[2]))
		}
		b.WriteString("].\n")
	}
	b.WriteString("(* functions whose body is outside the translated subset: NOT covered by the body-level theorem *)\n")
	list3("c19_body_untranslated", untr)
	b.WriteString("(* API functions documented to write into / keep / return a view of memory they do not own *)\n")
	list3("c19_body_exceptions", exc)
	b.WriteString("(* WHITELIST: an object of one of these types that the function was handed may be stored, returned or passed on\n" +
		"   as a whole without counting as an escape of caller memory (its byte fields, when selected, are still memory the\n" +
		"   function does not own).  The list is INFERRED by the translator (a library struct type whose byte-reaching fields\n" +
		"   are all unexported leaves it as soon as some translated function writes through, stores anything into, or hands\n" +
		"   out a view of a parameter or receiver of that type).  Re-checked in Coq on the table: only that no entry has a\n" +
		"   WRITE flag on a parameter of such a type (immutable_types_are_not_written). *)\n")
	b.WriteString("Definition c19_immutable_types : list (string * string) := [")
	for i, u := range immutableList() {
		if i > 0 {
			b.WriteString(";")
		}
		fmt.Fprintf(&b, "\n  (%s, %s)", coqStr(u[0]), coqStr(u[1]))
	}
	b.WriteString("].\n")
	nHelp, nLit := 0, 0
	for _, d := range decls {
		if d.isLit {
			nLit++
		} else if d.helperOnly {
			nHelp++
		}
	}
	b.WriteString("(* considered = functions and methods with a byte-carrying parameter, receiver or result (the definition of\n" +
		"   the property), plus internal helpers that only take interface values (translated so that callers need not\n" +
		"   assume they keep what they are handed), plus function literals that capture no byte variable *)\n")
	b.WriteString("(* packages: scanned; not scanned (generated protobuf code, test utilities, fake KMS, internalapi, docs - the\n" +
		"   directories harness/cmd/translate/alias.go goPackages skips); failed to load *)\n")
	nProto := 0
	var other []string
	for _, d := range scanStats.skipped {
		if strings.HasPrefix(d, "proto/") || d == "proto" {
			nProto++
		} else {
			other = append(other, coqStr(d))
		}
	}
	fmt.Fprintf(&b, "Definition c19_packages_scanned : nat := %d.\n", scanStats.scanned)
	fmt.Fprintf(&b, "Definition c19_packages_skipped_generated_proto : nat := %d.\n", nProto)
	fmt.Fprintf(&b, "Definition c19_packages_skipped_other : list string := [%s].\n", strings.Join(other, "; "))
	var failed []string
	for _, d := range scanStats.failed {
		failed = append(failed, coqStr(d))
	}
	fmt.Fprintf(&b, "Definition c19_packages_failed_to_load : list string := [%s].\n", strings.Join(failed, "; "))
	var uj []string
	for k := range unjoined {
		uj = append(uj, coqStr(k))
	}
	sort.Strings(uj)
	b.WriteString("(* untranslated library methods that implement a standard-library interface method: calls through that\n" +
		"   interface are judged, for them, by the trusted call table alone *)\n")
	fmt.Fprintf(&b, "Definition c19_unjoined_implementers : list string := [%s].\n", strings.Join(uj, "; "))
	fmt.Fprintf(&b, "Definition c19_bodies_helpers_with_interface_parameters : nat := %d.\n", nHelp)
	fmt.Fprintf(&b, "Definition c19_bodies_function_literals : nat := %d.\n", nLit)
	fmt.Fprintf(&b, "Definition c19_bodies_considered : nat := %d.\n", len(decls))
	fmt.Fprintf(&b, "Definition c19_bodies_translated : nat := %d.\n", nTr)
	fmt.Fprintf(&b, "Definition c19_bodies_api : nat := %d.\n", nApi)
	fmt.Fprintf(&b, "Definition c19_bodies_instructions : nat := %d.\n", nInstr)
	fmt.Fprintf(&b, "Definition c19_bodies_call_records : nat := %d.\n", nCalls)
	b.WriteString("(* entries with at least one statement on which the ownership analysis can fail (a write, an append, a store, an escape) *)\n")
	fmt.Fprintf(&b, "Definition c19_bodies_that_can_fail : nat := %d.\n", nFail)
	return b.String()
}

// debugBodies prints the places the Go-side analysis expects Coq to reject, and the reasons of
// untranslated functions (development aid; the judgement is Coq's).
func debugBodies(decls []*fnDecl) {
	reasons := map[string]int{}
	for _, d := range decls {
		if d.tr == nil || d.tr.untr != "" {
			r := "?"
			if d.tr != nil {
				r = d.tr.untr
			}
			if i := strings.Index(r, " (line"); i > 0 {
				r = r[:i]
			}
			reasons[r]++
			continue
		}
		for _, g := range d.diag {
			fmt.Fprintf(os.Stderr, "DIAG %s %s: %s\n", d.rel, d.name, g)
		}
	}
	var rs []string
	for r, n := range reasons {
		rs = append(rs, fmt.Sprintf("%5d %s", n, r))
	}
	sort.Sort(sort.Reverse(sort.StringSlice(rs)))
	for _, r := range rs {
		fmt.Fprintln(os.Stderr, "UNTR", r)
	}
}

func debugSummaries(pat string) {
	var ks []string
	for k := range summaries {
		if strings.Contains(k, pat) {
			ks = append(ks, k)
		}
	}
	sort.Strings(ks)
	for _, k := range ks {
		s := summaries[k]
		fmt.Fprintf(os.Stderr, "SUM %s mut=%v keep=%v res=%v untr=%q\n", shortKey(k), s.mut, s.keep, s.res, s.untr)
	}
}

func debugMutable() {
	var ks []string
	for k, v := range mutableType {
		ks = append(ks, shortKey(k)+" <- "+v)
	}
	sort.Strings(ks)
	for _, k := range ks {
		fmt.Fprintln(os.Stderr, "MUTABLE", k)
	}
}
