package main

import (
	"fmt"
	"go/ast"
	"go/token"
	"go/types"
	"path/filepath"
	"sort"
	"strings"
)

// C18: write footprints.  For every struct type of the library that offers a
// primitive operation (a method with one of the names below) and is not a
// per-stream object (has no Write/Read/Close method), every method's writes
// through the receiver are collected: assignments and inc/dec whose target is
// rooted at the receiver, append/copy into receiver fields, calls of mutating
// methods on receiver fields of stateful standard-library types, and writes to
// package-level variables.

var primitiveMethods = map[string]bool{
	"Encrypt": true, "Decrypt": true, "EncryptDeterministically": true, "DecryptDeterministically": true,
	"ComputeMAC": true, "VerifyMAC": true, "Sign": true, "Verify": true, "ComputePRF": true, "ComputePrimaryPRF": true,
	"DeriveKeyset": true, "NewEncryptingWriter": true, "NewDecryptingReader": true,
	"SignAndEncode": true, "VerifyAndDecode": true, "ComputeMACAndEncode": true, "VerifyMACAndDecode": true,
	"Wrap": true, "Unwrap": true, "Compute": true, "XOREndAndCompute": true, "DeriveKey": true,
	"Encapsulate": true, "Decapsulate": true, "Seal": true, "Open": true, "Primitive": true,
	"ComputePrehash": true, "SignPrehash": true, "EncryptWithContext": true, "DecryptWithContext": true,
}

var mutatingStdMethods = map[string]bool{
	"Write": true, "Reset": true, "Sum": false, "XORKeyStream": true, "Read": true,
	"Set": true, "SetBytes": true, "Add": true, "Sub": true, "Mul": true, "Mod": true, "Exp": true, "SetInt64": true,
	"WriteString": true, "WriteByte": true, "Truncate": true, "Grow": true, "Store": false, "Lock": false, "Unlock": false,
}

type footprint struct {
	pkg, typ, method string
	writes           []string
}

func rootedAtRecv(info *types.Info, e ast.Expr, recv types.Object) bool {
	for {
		switch x := e.(type) {
		case *ast.ParenExpr:
			e = x.X
		case *ast.SelectorExpr:
			e = x.X
		case *ast.IndexExpr:
			e = x.X
		case *ast.SliceExpr:
			e = x.X
		case *ast.StarExpr:
			e = x.X
		case *ast.UnaryExpr:
			if x.Op != token.AND {
				return false
			}
			e = x.X
		case *ast.Ident:
			o := info.Uses[x]
			return o != nil && o == recv
		default:
			return false
		}
	}
}

func isPkgVar(info *types.Info, e ast.Expr, pkg *types.Package) bool {
	for {
		switch x := e.(type) {
		case *ast.ParenExpr:
			e = x.X
		case *ast.SelectorExpr:
			e = x.X
		case *ast.IndexExpr:
			e = x.X
		case *ast.Ident:
			o, ok := info.Uses[x].(*types.Var)
			return ok && o.Pkg() == pkg && o.Parent() == pkg.Scope()
		default:
			return false
		}
	}
}

func scanFootprints(root string) (fps []footprint, err error) {
	for _, dir := range goPackages(root) {
		p, e := loadPkg(dir)
		if e != nil || p == nil || p.pkg == nil {
			continue
		}
		rel, _ := filepath.Rel(root, dir)
		// collect methods per receiver type
		type meth struct {
			decl *ast.FuncDecl
			recv types.Object
		}
		byType := map[string][]meth{}
		for _, file := range p.files {
			for _, d := range file.Decls {
				fd, ok := d.(*ast.FuncDecl)
				if !ok || fd.Body == nil || fd.Recv == nil || len(fd.Recv.List) != 1 {
					continue
				}
				t := p.info.Types[fd.Recv.List[0].Type].Type
				if t == nil {
					continue
				}
				if pt, ok := t.(*types.Pointer); ok {
					t = pt.Elem()
				}
				nt, ok := t.(*types.Named)
				if !ok {
					continue
				}
				if _, isStruct := nt.Underlying().(*types.Struct); !isStruct {
					continue
				}
				var recv types.Object
				if len(fd.Recv.List[0].Names) == 1 {
					recv = p.info.Defs[fd.Recv.List[0].Names[0]]
				}
				byType[nt.Obj().Name()] = append(byType[nt.Obj().Name()], meth{fd, recv})
			}
		}
		// summaries of package-level functions and methods: which parameters (by
		// index, receiver excluded) they write through (x[i] = …, x.f = …, *x = …,
		// copy(x, …), or passing x on to a function that does); fixpoint per package
		writesParam := map[types.Object]map[int]bool{}
		type fnInfo struct {
			decl   *ast.FuncDecl
			params []types.Object
		}
		var fns []fnInfo
		for _, file := range p.files {
			for _, d := range file.Decls {
				fd, ok := d.(*ast.FuncDecl)
				if !ok || fd.Body == nil {
					continue
				}
				var ps []types.Object
				for _, fl := range fd.Type.Params.List {
					for _, n := range fl.Names {
						ps = append(ps, p.info.Defs[n])
					}
				}
				fns = append(fns, fnInfo{fd, ps})
			}
		}
		for changed := true; changed; {
			changed = false
			for _, fi := range fns {
				obj := p.info.Defs[fi.decl.Name]
				if obj == nil {
					continue
				}
				mark := func(i int) {
					if writesParam[obj] == nil {
						writesParam[obj] = map[int]bool{}
					}
					if !writesParam[obj][i] {
						writesParam[obj][i] = true
						changed = true
					}
				}
				idx := func(e ast.Expr) int {
					for i, po := range fi.params {
						if po != nil && rootedAtRecv(p.info, e, po) {
							return i
						}
					}
					return -1
				}
				ast.Inspect(fi.decl.Body, func(n ast.Node) bool {
					switch n := n.(type) {
					case *ast.AssignStmt:
						if n.Tok == token.DEFINE {
							return true
						}
						for _, l := range n.Lhs {
							if _, isIdent := l.(*ast.Ident); isIdent {
								continue
							}
							if i := idx(l); i >= 0 {
								mark(i)
							}
						}
					case *ast.IncDecStmt:
						if _, isIdent := n.X.(*ast.Ident); !isIdent {
							if i := idx(n.X); i >= 0 {
								mark(i)
							}
						}
					case *ast.CallExpr:
						if id, ok := n.Fun.(*ast.Ident); ok && id.Name == "copy" && len(n.Args) == 2 {
							if i := idx(n.Args[0]); i >= 0 {
								mark(i)
							}
						}
						var callee types.Object
						switch f := n.Fun.(type) {
						case *ast.Ident:
							callee = p.info.Uses[f]
						case *ast.SelectorExpr:
							if sel, ok := p.info.Selections[f]; ok {
								callee = sel.Obj()
							}
						}
						if callee != nil && writesParam[callee] != nil {
							for ai, a := range n.Args {
								if writesParam[callee][ai] {
									if i := idx(a); i >= 0 {
										mark(i)
									}
								}
							}
						}
					}
					return true
				})
			}
		}
		var tnames []string
		for tn := range byType {
			tnames = append(tnames, tn)
		}
		sort.Strings(tnames)
		for _, tn := range tnames {
			ms := byType[tn]
			isPrim, perStream := false, false
			// handles, keyset entries, key objects and parameters objects are shared between
			// goroutines just like primitives
			if rel == "keyset" && (tn == "Handle" || tn == "Entry") {
				isPrim = true
			}
			for _, m := range ms {
				n := m.decl.Name.Name
				if primitiveMethods[n] || n == "IDRequirement" || n == "HasIDRequirement" {
					isPrim = true
				}
				if n == "Write" || n == "Read" || n == "Close" {
					perStream = true
				}
			}
			if rel == "keyset" && tn == "Handle" {
				perStream = false // Handle.Write serialises the keyset; a Handle is not a stream
			}
			if !isPrim || perStream {
				continue
			}
			for _, m := range ms {
				var writes []string
				add := func(n ast.Node, what string) {
					writes = append(writes, fmt.Sprintf("%s (line %d)", what, p.fset.Position(n.Pos()).Line))
				}
				if m.recv != nil {
					ast.Inspect(m.decl.Body, func(n ast.Node) bool {
						switch n := n.(type) {
						case *ast.FuncLit:
							return true
						case *ast.AssignStmt:
							if n.Tok == token.DEFINE {
								return true
							}
							for _, l := range n.Lhs {
								if _, isIdent := l.(*ast.Ident); isIdent {
									if isPkgVar(p.info, l, p.pkg) {
										add(n, "package variable "+types.ExprString(l))
									}
									continue
								}
								if rootedAtRecv(p.info, l, m.recv) {
									add(n, types.ExprString(l)+" = …")
								} else if isPkgVar(p.info, l, p.pkg) {
									add(n, "package variable "+types.ExprString(l))
								}
							}
						case *ast.IncDecStmt:
							if rootedAtRecv(p.info, n.X, m.recv) {
								if _, isIdent := n.X.(*ast.Ident); !isIdent {
									add(n, types.ExprString(n.X)+n.Tok.String())
								}
							}
						case *ast.CallExpr:
							if id, ok := n.Fun.(*ast.Ident); ok && id.Name == "copy" && len(n.Args) == 2 {
								if _, isB := p.info.Uses[id].(*types.Builtin); isB && rootedAtRecv(p.info, n.Args[0], m.recv) {
									if _, isIdent := n.Args[0].(*ast.Ident); !isIdent {
										add(n, "copy("+types.ExprString(n.Args[0])+", …)")
									}
								}
							}
							{
								var callee types.Object
								switch f := n.Fun.(type) {
								case *ast.Ident:
									callee = p.info.Uses[f]
								case *ast.SelectorExpr:
									if sel, ok := p.info.Selections[f]; ok {
										callee = sel.Obj()
									}
								}
								if callee != nil && writesParam[callee] != nil {
									for ai, a := range n.Args {
										if !writesParam[callee][ai] || !rootedAtRecv(p.info, a, m.recv) {
											continue
										}
										// only reference-typed arguments share memory with the receiver
										switch p.info.Types[a].Type.Underlying().(type) {
										case *types.Pointer, *types.Slice, *types.Map:
											add(n, "passes "+types.ExprString(a)+" to "+callee.Name()+", which writes through it")
										}
									}
								}
							}
							if sel, ok := n.Fun.(*ast.SelectorExpr); ok {
								if _, isIdent := sel.X.(*ast.Ident); !isIdent && rootedAtRecv(p.info, sel.X, m.recv) && mutatingStdMethods[sel.Sel.Name] {
									// a mutating method on a field: only for standard-library / x/crypto types
									if s, ok := p.info.Selections[sel]; ok {
										if fn, ok := s.Obj().(*types.Func); ok && fn.Pkg() != nil && !strings.Contains(fn.Pkg().Path(), "tink-crypto") {
											add(n, types.ExprString(sel.X)+"."+sel.Sel.Name+"(…)")
										}
									}
								}
							}
						}
						return true
					})
				}
				fps = append(fps, footprint{rel, tn, m.decl.Name.Name, writes})
			}
		}
	}
	sort.Slice(fps, func(i, j int) bool {
		a, b := fps[i], fps[j]
		if a.pkg != b.pkg {
			return a.pkg < b.pkg
		}
		if a.typ != b.typ {
			return a.typ < b.typ
		}
		return a.method < b.method
	})
	return
}

func footprintsV(fps []footprint) string {
	var b strings.Builder
	b.WriteString("(* C18: per-method write footprints (writes through the receiver or to package\n   variables) of every library type that offers a primitive operation and is not a\n   per-stream object; see harness/cmd/translate/footprint.go. *)\n")
	b.WriteString("From Coq Require Import List String.\nImport ListNotations.\nOpen Scope string_scope.\n")
	b.WriteString("Record method_footprint := mkFP { fp_pkg : string; fp_type : string; fp_method : string; fp_writes : list string }.\n")
	b.WriteString("Definition c18_footprints : list method_footprint := [")
	for i, f := range fps {
		if i > 0 {
			b.WriteString(";")
		}
		var ws []string
		for _, w := range f.writes {
			ws = append(ws, "\""+strings.ReplaceAll(w, "\"", "'")+"\"")
		}
		fmt.Fprintf(&b, "\n  mkFP \"%s\" \"%s\" \"%s\" [%s]", f.pkg, f.typ, f.method, strings.Join(ws, "; "))
	}
	b.WriteString("].\n")
	return b.String()
}
