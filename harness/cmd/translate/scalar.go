package main

import (
	"fmt"
	"go/ast"
	"go/constant"
	"go/importer"
	"go/parser"
	"go/token"
	"go/types"
	"os"
	"path/filepath"
	"sort"
	"strings"
)

// pkgInfo is one type-checked package.
type pkgInfo struct {
	fset  *token.FileSet
	files []*ast.File
	info  *types.Info
	pkg   *types.Package
}

var (
	gFset = token.NewFileSet()
	gImp  = importer.ForCompiler(gFset, "source", nil)
)

var pkgCache = map[string]*pkgInfo{}

// type errors reported while checking a package (tasks that need complete type information consult this)
var typeErrors = map[*pkgInfo][]string{}

func loadPkg(dir string) (*pkgInfo, error) {
	if p, ok := pkgCache[dir]; ok {
		return p, nil
	}
	p, err := loadPkgUncached(dir)
	if err == nil {
		pkgCache[dir] = p
	}
	return p, err
}

func loadPkgUncached(dir string) (*pkgInfo, error) {
	fset := gFset
	pkgs, err := parser.ParseDir(fset, dir, func(fi os.FileInfo) bool {
		n := fi.Name()
		return !strings.HasSuffix(n, "_test.go") && !strings.HasPrefix(n, "verif_")
	}, parser.ParseComments)
	if err != nil {
		return nil, err
	}
	for _, p := range pkgs {
		var files []*ast.File
		var names []string
		for fn := range p.Files {
			names = append(names, fn)
		}
		sort.Strings(names)
		for _, fn := range names {
			files = append(files, p.Files[fn])
		}
		info := &types.Info{Types: map[ast.Expr]types.TypeAndValue{}, Defs: map[*ast.Ident]types.Object{},
			Uses: map[*ast.Ident]types.Object{}, Selections: map[*ast.SelectorExpr]*types.Selection{}, Implicits: map[ast.Node]types.Object{}}
		var terrs []string
		conf := types.Config{Importer: gImp, Error: func(e error) { terrs = append(terrs, e.Error()) }}
		tp, _ := conf.Check(filepath.Base(dir), fset, files, info)
		pi := &pkgInfo{fset, files, info, tp}
		typeErrors[pi] = terrs
		return pi, nil
	}
	return nil, fmt.Errorf("no package in %s", dir)
}

// ---- integer types -------------------------------------------------------

type ity struct {
	bits   int
	signed bool
}

func intType(t types.Type) (ity, bool) {
	b, ok := t.Underlying().(*types.Basic)
	if !ok {
		return ity{}, false
	}
	switch b.Kind() {
	case types.Uint8:
		return ity{8, false}, true
	case types.Uint16:
		return ity{16, false}, true
	case types.Uint32:
		return ity{32, false}, true
	case types.Uint64, types.Uint, types.Uintptr:
		return ity{64, false}, true
	case types.Int8:
		return ity{8, true}, true
	case types.Int16:
		return ity{16, true}, true
	case types.Int32:
		return ity{32, true}, true
	case types.Int64, types.Int:
		return ity{64, true}, true
	case types.UntypedInt, types.UntypedRune:
		return ity{0, true}, true // unbounded (constant)
	}
	return ity{}, false
}

func (t ity) wrap(s string) string {
	if t.bits == 0 {
		return s
	}
	if t.signed {
		return fmt.Sprintf("(wraps %d %s)", t.bits, s)
	}
	return fmt.Sprintf("(wrapu %d %s)", t.bits, s)
}

func zlit(v constant.Value) string {
	s := v.ExactString()
	if strings.HasPrefix(s, "-") {
		return "(" + s + ")"
	}
	return s
}

// ---- scalar function translation -----------------------------------------

type untranslatable struct{ why string }

func (u untranslatable) Error() string { return u.why }

func bail(format string, a ...any) { panic(untranslatable{fmt.Sprintf(format, a...)}) }

type fnTr struct {
	p        *pkgInfo
	prefix   string          // name prefix of generated definitions
	canPanic map[string]bool // generated name -> may panic
	names    map[types.Object]string
	tmp      int
	calls    map[string]bool // generated names this function calls
}

type bindT struct{ name, call string }

func (f *fnTr) fresh() string { f.tmp++; return fmt.Sprintf("tmp%d_", f.tmp) }

func coqIdent(s string) string {
	switch s {
	case "len", "in", "at", "as", "end", "fun", "fix", "let", "match", "return", "with", "Type", "Set", "Prop", "mod", "using", "where", "exists", "forall", "if", "then", "else", "for", "cofix":
		return s + "_"
	}
	return s
}

// expr translates an integer- or bool-valued expression; binds collects the
// calls to possibly-panicking functions that must be evaluated first.
func (f *fnTr) expr(e ast.Expr, binds *[]bindT) string {
	tv, ok := f.p.info.Types[e]
	if ok && tv.Value != nil {
		switch tv.Value.Kind() {
		case constant.Int:
			return zlit(tv.Value)
		case constant.Bool:
			if constant.BoolVal(tv.Value) {
				return "true"
			}
			return "false"
		}
	}
	switch e := e.(type) {
	case *ast.ParenExpr:
		return f.expr(e.X, binds)
	case *ast.Ident:
		if e.Name == "true" || e.Name == "false" {
			return e.Name
		}
		return coqIdent(e.Name)
	case *ast.UnaryExpr:
		x := f.expr(e.X, binds)
		t, isInt := intType(tv.Type)
		switch e.Op {
		case token.SUB:
			if !isInt {
				bail("unary - on non-integer")
			}
			return t.wrap("(- " + x + ")")
		case token.XOR:
			if !isInt {
				bail("unary ^ on non-integer")
			}
			return t.wrap("(Z.lnot " + x + ")")
		case token.NOT:
			return "(negb " + x + ")"
		case token.ADD:
			return x
		}
		bail("unary operator %s", e.Op)
	case *ast.BinaryExpr:
		x := f.expr(e.X, binds)
		y := f.expr(e.Y, binds)
		switch e.Op {
		case token.LAND:
			return "(andb " + x + " " + y + ")"
		case token.LOR:
			return "(orb " + x + " " + y + ")"
		case token.EQL, token.NEQ, token.LSS, token.LEQ, token.GTR, token.GEQ:
			if _, ok := intType(f.p.info.Types[e.X].Type); !ok {
				if b, isb := f.p.info.Types[e.X].Type.Underlying().(*types.Basic); isb && b.Info()&types.IsBoolean != 0 {
					if e.Op == token.EQL {
						return "(Bool.eqb " + x + " " + y + ")"
					}
					if e.Op == token.NEQ {
						return "(negb (Bool.eqb " + x + " " + y + "))"
					}
				}
				bail("comparison of non-integers")
			}
			switch e.Op {
			case token.EQL:
				return "(" + x + " =? " + y + ")"
			case token.NEQ:
				return "(negb (" + x + " =? " + y + "))"
			case token.LSS:
				return "(" + x + " <? " + y + ")"
			case token.LEQ:
				return "(" + x + " <=? " + y + ")"
			case token.GTR:
				return "(" + y + " <? " + x + ")"
			case token.GEQ:
				return "(" + y + " <=? " + x + ")"
			}
		}
		t, isInt := intType(tv.Type)
		if !isInt {
			bail("binary %s on non-integer type %s", e.Op, tv.Type)
		}
		switch e.Op {
		case token.ADD:
			return t.wrap("(" + x + " + " + y + ")")
		case token.SUB:
			return t.wrap("(" + x + " - " + y + ")")
		case token.MUL:
			return t.wrap("(" + x + " * " + y + ")")
		case token.QUO:
			if t.signed {
				return t.wrap("(Z.quot " + x + " " + y + ")")
			}
			return "(" + x + " / " + y + ")"
		case token.REM:
			if t.signed {
				return "(Z.rem " + x + " " + y + ")"
			}
			return "(" + x + " mod " + y + ")"
		case token.AND:
			return "(Z.land " + x + " " + y + ")"
		case token.OR:
			return "(Z.lor " + x + " " + y + ")"
		case token.XOR:
			return "(Z.lxor " + x + " " + y + ")"
		case token.AND_NOT:
			return "(Z.ldiff " + x + " " + y + ")"
		case token.SHL:
			return t.wrap("(Z.shiftl " + x + " " + y + ")")
		case token.SHR:
			return "(Z.shiftr " + x + " " + y + ")"
		}
		bail("binary operator %s", e.Op)
	case *ast.CallExpr:
		// conversion?
		if ftv, ok := f.p.info.Types[e.Fun]; ok && ftv.IsType() {
			if len(e.Args) != 1 {
				bail("conversion arity")
			}
			t, isInt := intType(ftv.Type)
			if !isInt {
				bail("conversion to non-integer type %s", ftv.Type)
			}
			if _, ok := intType(f.p.info.Types[e.Args[0]].Type); !ok {
				bail("conversion from non-integer")
			}
			return t.wrap(f.expr(e.Args[0], binds))
		}
		name, args := f.callee(e, binds)
		f.calls[name] = true
		call := "(" + name + " " + strings.Join(args, " ") + ")"
		if len(args) == 0 {
			call = name
		}
		if f.canPanic[name] {
			t := f.fresh()
			*binds = append(*binds, bindT{t, call})
			return t
		}
		return call
	}
	bail("expression %T", e)
	return ""
}

func (f *fnTr) callee(e *ast.CallExpr, binds *[]bindT) (string, []string) {
	var args []string
	var obj types.Object
	switch fun := e.Fun.(type) {
	case *ast.Ident:
		obj = f.p.info.Uses[fun]
		if b, ok := obj.(*types.Builtin); ok {
			switch b.Name() {
			case "max", "min":
				if len(e.Args) != 2 {
					bail("builtin %s arity", b.Name())
				}
				x, y := f.expr(e.Args[0], binds), f.expr(e.Args[1], binds)
				return "Z." + b.Name(), []string{x, y}
			}
			bail("builtin %s", b.Name())
		}
	case *ast.SelectorExpr:
		if sel, ok := f.p.info.Selections[fun]; ok { // method call
			obj = sel.Obj()
			if _, isInt := intType(sel.Recv()); !isInt {
				bail("method on non-integer receiver %s", sel.Recv())
			}
			args = append(args, f.expr(fun.X, binds))
		} else {
			obj = f.p.info.Uses[fun.Sel] // qualified identifier pkg.F
		}
	default:
		bail("call of %T", e.Fun)
	}
	fn, ok := obj.(*types.Func)
	if !ok {
		bail("call target is not a function")
	}
	for _, a := range e.Args {
		args = append(args, f.expr(a, binds))
	}
	return genName(fn), args
}

// genName is the Gallina name of a Go function: <pkg>_<recv>_<name>.
func genName(fn *types.Func) string {
	sig := fn.Type().(*types.Signature)
	pk := ""
	if fn.Pkg() != nil {
		pk = fn.Pkg().Name() + "_"
	}
	if r := sig.Recv(); r != nil {
		t := r.Type()
		if p, ok := t.(*types.Pointer); ok {
			t = p.Elem()
		}
		if n, ok := t.(*types.Named); ok {
			return pk + n.Obj().Name() + "_" + fn.Name()
		}
	}
	return pk + fn.Name()
}

func wrapBinds(binds []bindT, body string, panicky bool) string {
	for i := len(binds) - 1; i >= 0; i-- {
		b := binds[i]
		body = fmt.Sprintf("match %s with None => None | Some %s =>\n  %s end", b.call, b.name, body)
	}
	return body
}

// desugarSwitch rewrites `switch [tag] { case a, b: ...; default: ... }` (no init, no
// fallthrough, no break, side-effect-free tag) into the if/else-if chain Go defines it to be:
// cases are tried in source order, `default` is taken when none matches wherever it stands.
func desugarSwitch(s *ast.SwitchStmt) ast.Stmt {
	if s.Init != nil {
		bail("switch with init statement")
	}
	if s.Tag != nil {
		switch s.Tag.(type) {
		case *ast.Ident, *ast.SelectorExpr, *ast.BasicLit:
		default:
			bail("switch on a compound expression")
		}
	}
	var deflt []ast.Stmt
	hasDefault := false
	type arm struct {
		cond ast.Expr
		body []ast.Stmt
	}
	var arms []arm
	for _, c := range s.Body.List {
		cc := c.(*ast.CaseClause)
		for _, st := range cc.Body {
			ast.Inspect(st, func(n ast.Node) bool {
				if b, ok := n.(*ast.BranchStmt); ok && (b.Tok == token.FALLTHROUGH || b.Tok == token.BREAK) {
					bail("switch with %s", b.Tok)
				}
				return true
			})
		}
		if cc.List == nil {
			deflt, hasDefault = cc.Body, true
			continue
		}
		var cond ast.Expr
		for _, e := range cc.List {
			var one ast.Expr = e
			if s.Tag != nil {
				one = &ast.BinaryExpr{X: s.Tag, Op: token.EQL, Y: e}
			}
			if cond == nil {
				cond = one
			} else {
				cond = &ast.BinaryExpr{X: cond, Op: token.LOR, Y: one}
			}
		}
		arms = append(arms, arm{cond, cc.Body})
	}
	var tail ast.Stmt
	if hasDefault {
		tail = &ast.BlockStmt{List: deflt}
	}
	for i := len(arms) - 1; i >= 0; i-- {
		tail = &ast.IfStmt{Cond: arms[i].cond, Body: &ast.BlockStmt{List: arms[i].body}, Else: tail}
	}
	if tail == nil {
		return &ast.BlockStmt{}
	}
	return tail
}

// assigned collects the variables assigned (not declared) in a block.
func assignedVars(stmts []ast.Stmt, acc map[string]bool) {
	for _, s := range stmts {
		switch s := s.(type) {
		case *ast.AssignStmt:
			if s.Tok != token.DEFINE {
				for _, l := range s.Lhs {
					if id, ok := l.(*ast.Ident); ok && id.Name != "_" {
						acc[id.Name] = true
					}
				}
			}
		case *ast.IncDecStmt:
			if id, ok := s.X.(*ast.Ident); ok {
				acc[id.Name] = true
			}
		case *ast.IfStmt:
			assignedVars(s.Body.List, acc)
			if s.Else != nil {
				switch el := s.Else.(type) {
				case *ast.BlockStmt:
					assignedVars(el.List, acc)
				case *ast.IfStmt:
					assignedVars([]ast.Stmt{el}, acc)
				}
			}
		case *ast.BlockStmt:
			assignedVars(s.List, acc)
		case *ast.SwitchStmt:
			assignedVars([]ast.Stmt{desugarSwitch(s)}, acc)
		}
	}
}

func terminates(stmts []ast.Stmt) bool {
	if len(stmts) == 0 {
		return false
	}
	switch s := stmts[len(stmts)-1].(type) {
	case *ast.ReturnStmt:
		return true
	case *ast.ExprStmt:
		if c, ok := s.X.(*ast.CallExpr); ok {
			if id, ok := c.Fun.(*ast.Ident); ok && id.Name == "panic" {
				return true
			}
		}
	case *ast.IfStmt:
		if s.Else == nil {
			return false
		}
		switch el := s.Else.(type) {
		case *ast.BlockStmt:
			return terminates(s.Body.List) && terminates(el.List)
		case *ast.IfStmt:
			return terminates(s.Body.List) && terminates([]ast.Stmt{el})
		}
	case *ast.BlockStmt:
		return terminates(s.List)
	case *ast.SwitchStmt:
		return terminates([]ast.Stmt{desugarSwitch(s)})
	}
	return false
}

// block translates a statement list into a term.  cont is the term to use
// when the list falls through (nil = falling through is an error).
func (f *fnTr) block(stmts []ast.Stmt, panicky bool, cont func() string) string {
	if len(stmts) == 0 {
		if cont == nil {
			bail("function body falls through without return")
		}
		return cont()
	}
	rest := func() string { return f.block(stmts[1:], panicky, cont) }
	ret := func(v string) string {
		if panicky {
			return "Some " + v
		}
		return v
	}
	switch s := stmts[0].(type) {
	case *ast.DeclStmt:
		gd, ok := s.Decl.(*ast.GenDecl)
		if !ok {
			bail("declaration")
		}
		if gd.Tok == token.CONST {
			return rest()
		}
		if gd.Tok == token.VAR {
			out := ""
			var close []string
			for _, sp := range gd.Specs {
				vs := sp.(*ast.ValueSpec)
				for i, n := range vs.Names {
					if _, ok := intType(f.p.info.Defs[n].Type()); !ok {
						bail("var of non-integer type")
					}
					val := "0"
					var binds []bindT
					if i < len(vs.Values) {
						val = f.expr(vs.Values[i], &binds)
					}
					if len(binds) > 0 {
						bail("panicking call in var initialiser")
					}
					out += fmt.Sprintf("let %s := %s in\n  ", coqIdent(n.Name), val)
					close = append(close, "")
				}
			}
			return out + rest()
		}
		bail("declaration kind")
	case *ast.AssignStmt:
		var binds []bindT
		if len(s.Lhs) > 1 && len(s.Rhs) == 1 { // multi-value call
			call, ok := s.Rhs[0].(*ast.CallExpr)
			if !ok {
				bail("tuple assignment from non-call")
			}
			name, args := f.callee(call, &binds)
			f.calls[name] = true
			var pats []string
			for _, l := range s.Lhs {
				id, ok := l.(*ast.Ident)
				if !ok {
					bail("assignment target")
				}
				if id.Name == "_" {
					pats = append(pats, "_")
				} else {
					pats = append(pats, coqIdent(id.Name))
				}
			}
			callS := "(" + name + " " + strings.Join(args, " ") + ")"
			pat := "(" + strings.Join(pats, ", ") + ")"
			var body string
			if f.canPanic[name] {
				body = fmt.Sprintf("match %s with None => None | Some %s =>\n  %s end", callS, pat, rest())
			} else {
				body = fmt.Sprintf("let '%s := %s in\n  %s", pat, callS, rest())
			}
			return wrapBinds(binds, body, panicky)
		}
		if len(s.Lhs) != len(s.Rhs) {
			bail("assignment shape")
		}
		out := ""
		var vals []string
		for i := range s.Lhs {
			rhs := s.Rhs[i]
			v := f.expr(rhs, &binds)
			if s.Tok != token.DEFINE && s.Tok != token.ASSIGN {
				// op-assignment x op= e
				lt, isInt := intType(f.p.info.Types[s.Lhs[i]].Type)
				if !isInt {
					bail("op-assign on non-integer")
				}
				l := f.expr(s.Lhs[i], &binds)
				switch s.Tok {
				case token.ADD_ASSIGN:
					v = lt.wrap("(" + l + " + " + v + ")")
				case token.SUB_ASSIGN:
					v = lt.wrap("(" + l + " - " + v + ")")
				case token.MUL_ASSIGN:
					v = lt.wrap("(" + l + " * " + v + ")")
				case token.OR_ASSIGN:
					v = "(Z.lor " + l + " " + v + ")"
				case token.AND_ASSIGN:
					v = "(Z.land " + l + " " + v + ")"
				case token.XOR_ASSIGN:
					v = "(Z.lxor " + l + " " + v + ")"
				case token.SHL_ASSIGN:
					v = lt.wrap("(Z.shiftl " + l + " " + v + ")")
				case token.SHR_ASSIGN:
					v = "(Z.shiftr " + l + " " + v + ")"
				default:
					bail("assignment operator %s", s.Tok)
				}
			}
			vals = append(vals, v)
		}
		if len(s.Lhs) > 1 { // parallel assignment: evaluate all, then bind
			for i := range vals {
				out += fmt.Sprintf("let par%d_ := %s in\n  ", i, vals[i])
			}
			for i, l := range s.Lhs {
				id, ok := l.(*ast.Ident)
				if !ok {
					bail("assignment target")
				}
				if id.Name != "_" {
					out += fmt.Sprintf("let %s := par%d_ in\n  ", coqIdent(id.Name), i)
				}
			}
		} else {
			id, ok := s.Lhs[0].(*ast.Ident)
			if !ok {
				bail("assignment target %T", s.Lhs[0])
			}
			if id.Name != "_" {
				out += fmt.Sprintf("let %s := %s in\n  ", coqIdent(id.Name), vals[0])
			}
		}
		return wrapBinds(binds, out+rest(), panicky)
	case *ast.IncDecStmt:
		id, ok := s.X.(*ast.Ident)
		if !ok {
			bail("inc/dec target")
		}
		t, _ := intType(f.p.info.Types[s.X].Type)
		op := "+"
		if s.Tok == token.DEC {
			op = "-"
		}
		n := coqIdent(id.Name)
		return fmt.Sprintf("let %s := %s in\n  %s", n, t.wrap("("+n+" "+op+" 1)"), rest())
	case *ast.ReturnStmt:
		var binds []bindT
		var vs []string
		if len(s.Results) == 1 {
			if call, ok := s.Results[0].(*ast.CallExpr); ok {
				// return f(...) where f returns a tuple or may panic: pass through
				if ftv, ok := f.p.info.Types[call.Fun]; !(ok && ftv.IsType()) {
					name, args := f.callee(call, &binds)
					f.calls[name] = true
					callS := "(" + name + " " + strings.Join(args, " ") + ")"
					if f.canPanic[name] {
						return wrapBinds(binds, callS, panicky)
					}
					return wrapBinds(binds, ret(callS), panicky)
				}
			}
		}
		for _, r := range s.Results {
			vs = append(vs, f.expr(r, &binds))
		}
		v := strings.Join(vs, ", ")
		if len(vs) != 1 {
			v = "(" + v + ")"
		}
		return wrapBinds(binds, ret(v), panicky)
	case *ast.ExprStmt:
		if c, ok := s.X.(*ast.CallExpr); ok {
			if id, ok := c.Fun.(*ast.Ident); ok && id.Name == "panic" {
				if !panicky {
					bail("internal: panic in function not marked panicking")
				}
				return "None"
			}
		}
		bail("expression statement")
	case *ast.BlockStmt:
		return f.block(append(append([]ast.Stmt{}, s.List...), stmts[1:]...), panicky, cont)
	case *ast.SwitchStmt:
		return f.block(append([]ast.Stmt{desugarSwitch(s)}, stmts[1:]...), panicky, cont)
	case *ast.IfStmt:
		if s.Init != nil {
			bail("if with init statement")
		}
		var binds []bindT
		c := f.expr(s.Cond, &binds)
		var elseList []ast.Stmt
		if s.Else != nil {
			switch el := s.Else.(type) {
			case *ast.BlockStmt:
				elseList = el.List
			case *ast.IfStmt:
				elseList = []ast.Stmt{el}
			}
		}
		thenT, elseT := terminates(s.Body.List), terminates(elseList)
		switch {
		case thenT && (elseT || s.Else == nil):
			var el string
			if s.Else == nil {
				el = rest()
			} else {
				el = f.block(elseList, panicky, nil)
			}
			return wrapBinds(binds, fmt.Sprintf("if %s then\n  %s\n  else\n  %s", c, f.block(s.Body.List, panicky, nil), el), panicky)
		case thenT && !elseT:
			// then returns, else falls through into rest
			return wrapBinds(binds, fmt.Sprintf("if %s then\n  %s\n  else\n  %s", c, f.block(s.Body.List, panicky, nil),
				f.block(append(append([]ast.Stmt{}, elseList...), stmts[1:]...), panicky, cont)), panicky)
		case !thenT && elseT:
			return wrapBinds(binds, fmt.Sprintf("if %s then\n  %s\n  else\n  %s", c,
				f.block(append(append([]ast.Stmt{}, s.Body.List...), stmts[1:]...), panicky, cont),
				f.block(elseList, panicky, nil)), panicky)
		default:
			// both fall through: join on the assigned variables
			acc := map[string]bool{}
			assignedVars(s.Body.List, acc)
			assignedVars(elseList, acc)
			var vars []string
			for v := range acc {
				vars = append(vars, coqIdent(v))
			}
			sort.Strings(vars)
			if len(vars) == 0 {
				return rest()
			}
			tuple := strings.Join(vars, ", ")
			if len(vars) > 1 {
				tuple = "(" + tuple + ")"
			}
			join := func() string { return ret(tuple) }
			thenS := f.block(s.Body.List, panicky, join)
			elseS := f.block(elseList, panicky, join)
			if panicky {
				return wrapBinds(binds, fmt.Sprintf("match (if %s then\n  %s\n  else\n  %s) with None => None | Some %s =>\n  %s end", c, thenS, elseS, tuple, rest()), panicky)
			}
			pat := tuple
			if len(vars) > 1 {
				pat = "'" + tuple
			}
			return wrapBinds(binds, fmt.Sprintf("let %s := (if %s then\n  %s\n  else\n  %s) in\n  %s", pat, c, thenS, elseS, rest()), panicky)
		}
	}
	bail("statement %T", stmts[0])
	return ""
}

func hasPanic(n ast.Node) bool {
	found := false
	ast.Inspect(n, func(n ast.Node) bool {
		if c, ok := n.(*ast.CallExpr); ok {
			if id, ok := c.Fun.(*ast.Ident); ok && id.Name == "panic" {
				found = true
			}
		}
		return true
	})
	return found
}

type scalarFn struct {
	name   string // generated name
	decl   *ast.FuncDecl
	p      *pkgInfo
	def    string
	calls  map[string]bool
	failed string
}

// translateScalars translates the named functions of the packages given.
// want maps generated names to true; order of output is topological.
func translateScalars(pkgs []*pkgInfo, want map[string]bool) (defs []string, untr []string, order []string) {
	fns := map[string]*scalarFn{}
	for _, p := range pkgs {
		for _, file := range p.files {
			for _, d := range file.Decls {
				fd, ok := d.(*ast.FuncDecl)
				if !ok || fd.Body == nil {
					continue
				}
				obj, _ := p.info.Defs[fd.Name].(*types.Func)
				if obj == nil {
					continue
				}
				n := genName(obj)
				if want[n] {
					fns[n] = &scalarFn{name: n, decl: fd, p: p}
				}
			}
		}
	}
	var missing []string
	for n := range want {
		if fns[n] == nil {
			missing = append(missing, n+": not found in source")
		}
	}
	sort.Strings(missing)
	untr = append(untr, missing...)
	// panic analysis: fixpoint over direct panics and callee names (textual)
	canPanic := map[string]bool{}
	for n, f := range fns {
		if hasPanic(f.decl.Body) {
			canPanic[n] = true
		}
	}
	calls := func(f *scalarFn) map[string]bool {
		res := map[string]bool{}
		ast.Inspect(f.decl.Body, func(n ast.Node) bool {
			c, ok := n.(*ast.CallExpr)
			if !ok {
				return true
			}
			var obj types.Object
			switch fun := c.Fun.(type) {
			case *ast.Ident:
				obj = f.p.info.Uses[fun]
			case *ast.SelectorExpr:
				if sel, ok := f.p.info.Selections[fun]; ok {
					obj = sel.Obj()
				} else {
					obj = f.p.info.Uses[fun.Sel]
				}
			}
			if fn, ok := obj.(*types.Func); ok {
				res[genName(fn)] = true
			}
			return true
		})
		return res
	}
	cg := map[string]map[string]bool{}
	for n, f := range fns {
		cg[n] = calls(f)
	}
	for changed := true; changed; {
		changed = false
		for n := range fns {
			if canPanic[n] {
				continue
			}
			for c := range cg[n] {
				if canPanic[c] {
					canPanic[n] = true
					changed = true
				}
			}
		}
	}
	names := make([]string, 0, len(fns))
	for n := range fns {
		names = append(names, n)
	}
	sort.Strings(names)
	for _, n := range names {
		f := fns[n]
		func() {
			defer func() {
				if r := recover(); r != nil {
					if u, ok := r.(untranslatable); ok {
						f.failed = u.why
						return
					}
					panic(r)
				}
			}()
			tr := &fnTr{p: f.p, canPanic: canPanic, calls: map[string]bool{}}
			var params []string
			if f.decl.Recv != nil {
				for _, fl := range f.decl.Recv.List {
					if _, ok := intType(f.p.info.Types[fl.Type].Type); !ok {
						bail("receiver of non-integer type")
					}
					for _, nm := range fl.Names {
						params = append(params, coqIdent(nm.Name))
					}
					if len(fl.Names) == 0 {
						params = append(params, "_recv")
					}
				}
			}
			for _, fl := range f.decl.Type.Params.List {
				if _, ok := intType(f.p.info.Types[fl.Type].Type); !ok {
					bail("parameter of non-integer type %s", f.p.info.Types[fl.Type].Type)
				}
				for _, nm := range fl.Names {
					params = append(params, coqIdent(nm.Name))
				}
			}
			if f.decl.Type.Results != nil {
				for _, fl := range f.decl.Type.Results.List {
					t := f.p.info.Types[fl.Type].Type
					if _, ok := intType(t); !ok {
						if b, isb := t.Underlying().(*types.Basic); !(isb && b.Info()&types.IsBoolean != 0) {
							bail("result of non-integer type %s", t)
						}
					}
					if len(fl.Names) > 0 {
						bail("named results")
					}
				}
			}
			body := tr.block(f.decl.Body.List, canPanic[n], nil)
			ps := ""
			for _, p := range params {
				ps += " (" + p + " : Z)"
			}
			pos := f.p.fset.Position(f.decl.Pos())
			f.def = fmt.Sprintf("(* %s:%d %s *)\nDefinition %s%s :=\n  %s.\n", filepath.Base(pos.Filename), pos.Line, f.decl.Name.Name, n, ps, body)
			f.calls = tr.calls
		}()
	}
	// a function whose callee failed or is absent fails too
	for changed := true; changed; {
		changed = false
		for _, n := range names {
			f := fns[n]
			if f.failed != "" {
				continue
			}
			for c := range f.calls {
				if strings.HasPrefix(c, "Z.") {
					continue
				}
				if g := fns[c]; g == nil || g.failed != "" {
					f.failed = "calls untranslated function " + c
					changed = true
					break
				}
			}
		}
	}
	// topological order
	done := map[string]bool{}
	var visit func(n string)
	visit = func(n string) {
		if done[n] {
			return
		}
		done[n] = true
		f := fns[n]
		if f == nil || f.failed != "" {
			return
		}
		var cs []string
		for c := range f.calls {
			cs = append(cs, c)
		}
		sort.Strings(cs)
		for _, c := range cs {
			visit(c)
		}
		defs = append(defs, f.def)
		order = append(order, n)
	}
	for _, n := range names {
		visit(n)
	}
	for _, n := range names {
		if fns[n].failed != "" {
			untr = append(untr, n+": "+fns[n].failed)
		}
	}
	return
}

// constants and tables ------------------------------------------------------

func constValue(p *pkgInfo, name string) (string, bool) {
	obj := p.pkg.Scope().Lookup(name)
	c, ok := obj.(*types.Const)
	if !ok || c.Val().Kind() != constant.Int {
		return "", false
	}
	return zlit(c.Val()), true
}

// tableValues returns the elements of a package-level array/slice variable
// initialised by a composite literal of integer constants.
func tableValues(p *pkgInfo, name string) ([]string, bool) {
	for _, file := range p.files {
		for _, d := range file.Decls {
			gd, ok := d.(*ast.GenDecl)
			if !ok || gd.Tok != token.VAR {
				continue
			}
			for _, sp := range gd.Specs {
				vs := sp.(*ast.ValueSpec)
				for i, n := range vs.Names {
					if n.Name != name || i >= len(vs.Values) {
						continue
					}
					cl, ok := vs.Values[i].(*ast.CompositeLit)
					if !ok {
						return nil, false
					}
					var out []string
					for _, el := range cl.Elts {
						tv := p.info.Types[el]
						if tv.Value == nil || tv.Value.Kind() != constant.Int {
							return nil, false
						}
						out = append(out, zlit(tv.Value))
					}
					return out, true
				}
			}
		}
	}
	return nil, false
}

// callOptsValues returns the constant fields of the struct literal passed as the only
// argument of the call that initialises package-level variable `name`
// (e.g. MLDSA44 = newParams(paramsOpts{tau: 39, ...})), in source order.
func callOptsValues(p *pkgInfo, name string) (fn string, fields [][2]string, ok bool) {
	for _, file := range p.files {
		for _, d := range file.Decls {
			gd, isGen := d.(*ast.GenDecl)
			if !isGen || gd.Tok != token.VAR {
				continue
			}
			for _, sp := range gd.Specs {
				vs := sp.(*ast.ValueSpec)
				for i, n := range vs.Names {
					if n.Name != name || i >= len(vs.Values) {
						continue
					}
					call, isCall := vs.Values[i].(*ast.CallExpr)
					if !isCall || len(call.Args) != 1 {
						return "", nil, false
					}
					cl, isLit := call.Args[0].(*ast.CompositeLit)
					if !isLit {
						return "", nil, false
					}
					for _, e := range cl.Elts {
						kv, isKV := e.(*ast.KeyValueExpr)
						if !isKV {
							return "", nil, false
						}
						tv, has := p.info.Types[kv.Value]
						if !has || tv.Value == nil || tv.Value.Kind() != constant.Int {
							return "", nil, false
						}
						fields = append(fields, [2]string{types.ExprString(kv.Key), zlit(tv.Value)})
					}
					return types.ExprString(call.Fun), fields, true
				}
			}
		}
	}
	return "", nil, false
}
