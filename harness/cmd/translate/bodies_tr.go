package main

import (
	"fmt"
	"go/ast"
	"go/token"
	"go/types"
	"path/filepath"
	"sort"
	"strings"
)

// ---- summaries ---------------------------------------------------------------------------------

type resInfo struct {
	kind    bkind
	tracked bool   // (kObj) the returned object was built by the callee: what it reaches is in roots
	roots   uint64 // bits = callee parameter indices (receiver = 0 for methods); opaqueBit
	seen    bool
}

type summary struct {
	key       string
	nparams   int
	mut, keep []bool
	stores    []uint64 // per parameter p: the parameters (bits, and opaqueBit) the callee stores INTO the object p
	paramReg  []int    // parameter index -> register in the callee's body (-1: reaches no bytes)
	res       []resInfo
	untr      string
	ifaceTr   bool // interface-typed parameters have registers (internal helpers): mut/keep speak for them too
}

func (s *summary) equal(o *summary) bool {
	if s.untr != o.untr || len(s.mut) != len(o.mut) || len(s.res) != len(o.res) {
		return false
	}
	for i := range s.mut {
		if s.mut[i] != o.mut[i] || s.keep[i] != o.keep[i] {
			return false
		}
		if i < len(s.stores) && i < len(o.stores) && s.stores[i] != o.stores[i] {
			return false
		}
	}
	if len(s.stores) != len(o.stores) {
		return false
	}
	for i := range s.res {
		if s.res[i] != o.res[i] {
			return false
		}
	}
	return true
}

var summaries = map[string]*summary{}

// the library's named types and their declared methods (for resolving calls through interfaces)
var typeMethods = map[string]map[string]*types.Func{}
var implCache = map[string][]string{}
var unjoined = map[string]bool{}
var publicType = map[string]bool{}

func namedKey(n *types.Named) string {
	if n.Obj().Pkg() == nil {
		return n.Obj().Name()
	}
	return pkgPathOf(n.Obj().Pkg()) + "." + n.Obj().Name()
}

// typeEq: identity of types up to the fact that the same library package may have been type-checked twice
// (once directly, once through an import).
func typeEq(a, b types.Type, d int) bool {
	if d > 6 {
		return true
	}
	if na, ok := a.(*types.Named); ok {
		nb, ok := b.(*types.Named)
		return ok && namedKey(na) == namedKey(nb)
	}
	if _, ok := b.(*types.Named); ok {
		return false
	}
	switch x := a.(type) {
	case *types.Basic:
		y, ok := b.(*types.Basic)
		return ok && x.Kind() == y.Kind()
	case *types.Slice:
		y, ok := b.(*types.Slice)
		return ok && typeEq(x.Elem(), y.Elem(), d+1)
	case *types.Array:
		y, ok := b.(*types.Array)
		return ok && x.Len() == y.Len() && typeEq(x.Elem(), y.Elem(), d+1)
	case *types.Pointer:
		y, ok := b.(*types.Pointer)
		return ok && typeEq(x.Elem(), y.Elem(), d+1)
	case *types.Map:
		y, ok := b.(*types.Map)
		return ok && typeEq(x.Key(), y.Key(), d+1) && typeEq(x.Elem(), y.Elem(), d+1)
	case *types.Signature:
		y, ok := b.(*types.Signature)
		return ok && sigMatch(x, y, d+1)
	case *types.Interface:
		y, ok := b.(*types.Interface)
		return ok && x.NumMethods() == y.NumMethods()
	}
	return types.Identical(a, b)
}

func sigMatch(a, b *types.Signature, d int) bool {
	if a.Params().Len() != b.Params().Len() || a.Results().Len() != b.Results().Len() || a.Variadic() != b.Variadic() {
		return false
	}
	for i := 0; i < a.Params().Len(); i++ {
		if !typeEq(a.Params().At(i).Type(), b.Params().At(i).Type(), d) {
			return false
		}
	}
	for i := 0; i < a.Results().Len(); i++ {
		if !typeEq(a.Results().At(i).Type(), b.Results().At(i).Type(), d) {
			return false
		}
	}
	return true
}

// implementers: keys of method mname of every library type whose declared methods satisfy the interface.
func implementers(recv types.Type, mname string) []string {
	iface, ok := recv.Underlying().(*types.Interface)
	if !ok {
		return nil
	}
	ck := types.TypeString(recv, func(p *types.Package) string { return pkgPathOf(p) }) + "#" + mname
	if l, ok := implCache[ck]; ok {
		return l
	}
	var keys []string
	for tk, ms := range typeMethods {
		good := ifaceConverted[tk] || publicType[tk]
		for i := 0; i < iface.NumMethods() && good; i++ {
			im := iface.Method(i)
			cm := ms[im.Name()]
			if cm == nil || !sigMatch(im.Type().(*types.Signature), cm.Type().(*types.Signature), 0) {
				good = false
			}
		}
		if good && ms[mname] != nil {
			keys = append(keys, funcKey(ms[mname]))
		}
	}
	sort.Strings(keys)
	implCache[ck] = keys
	return keys
}

// packages type-checked directly by loadPkg carry the directory base name as path: map them back
var localPath = map[*types.Package]string{}

func pkgPathOf(p *types.Package) string {
	if p == nil {
		return ""
	}
	if s, ok := localPath[p]; ok {
		return s
	}
	return p.Path()
}

// funcKey names a library function the same way whether it is seen in its own package or through an import.
func funcKey(fn *types.Func) string {
	fn = fn.Origin()
	path := pkgPathOf(fn.Pkg())
	if sig, ok := fn.Type().(*types.Signature); ok && sig.Recv() != nil {
		t := sig.Recv().Type()
		ptr := ""
		if pt, ok := t.(*types.Pointer); ok {
			t, ptr = pt.Elem(), "*"
		}
		name := "?"
		if n, ok := t.(*types.Named); ok {
			name = n.Obj().Name()
			if n.Obj().Pkg() != nil {
				path = pkgPathOf(n.Obj().Pkg())
			}
		}
		return "(" + ptr + path + "." + name + ")." + fn.Name()
	}
	return path + "." + fn.Name()
}

// ---- translation of one function ---------------------------------------------------------------

type bodyTr struct {
	p                      *pkgInfo
	fd                     *ast.FuncDecl
	fn                     *types.Func
	strict                 bool
	viewOK                 bool
	regOf                  map[types.Object]int
	regNames               []string
	paramReg               []int // callee parameter index (receiver first for methods) -> register, -1 if it reaches no bytes
	np                     int
	cur                    *[]*node
	untr                   string
	closures               map[types.Object]*ast.FuncLit
	tracked                map[types.Object]bool
	ctx                    []string
	inClos                 int
	results                []*types.Var
	resTrk                 []bool
	addrSlice, derefAssign bool
	entryMakes             []int                         // class registers of local objects: made on entry
	paramType              map[int]types.Type            // parameter register -> declared type
	parent                 map[types.Object]types.Object // may-alias classes of object variables (union-find)
	clsSize                map[types.Object]int
	isParam                map[types.Object]bool
	objRegs                map[int]bool
	classRegs              map[int]bool // object registers that stand for a class of variables (not temporaries)
	closures0              map[types.Object]*ast.FuncLit
	body                   *node
}

func (t *bodyTr) fail(format string, args ...interface{}) {
	if t.untr == "" {
		t.untr = fmt.Sprintf(format, args...)
	}
}

func (t *bodyTr) line(n ast.Node) int { return t.p.fset.Position(n.Pos()).Line }

func (t *bodyTr) newReg(name string) int {
	t.regNames = append(t.regNames, name)
	return len(t.regNames) - 1
}

func (t *bodyTr) reg(o types.Object) int {
	if v, ok := o.(*types.Var); ok && isObjLike(v.Type()) && !v.IsField() {
		return t.classReg(o)
	}
	if r, ok := t.regOf[o]; ok {
		return r
	}
	r := t.newReg(o.Name())
	t.regOf[o] = r
	return r
}

func (t *bodyTr) emit(n *node) { *t.cur = append(*t.cur, n) }

func (t *bodyTr) sub(f func()) *node {
	save := t.cur
	var l []*node
	t.cur = &l
	f()
	t.cur = save
	return nSeq(l)
}

func (t *bodyTr) tmpMake(at ast.Node) int {
	r := t.newReg("")
	t.emit(&node{op: "make", r: r, pos: -1, line: t.line(at)})
	return r
}

func (t *bodyTr) tmpOpaque(at ast.Node) int {
	r := t.newReg("")
	t.emit(&node{op: "opaque", r: r, pos: -1, line: t.line(at)})
	return r
}

func (t *bodyTr) typeOf(e ast.Expr) types.Type {
	if tv, ok := t.p.info.Types[e]; ok && tv.Type != nil {
		return tv.Type
	}
	if id, ok := e.(*ast.Ident); ok {
		if o := t.p.info.ObjectOf(id); o != nil {
			return o.Type()
		}
	}
	return nil
}

func unparen(e ast.Expr) ast.Expr {
	for {
		p, ok := e.(*ast.ParenExpr)
		if !ok {
			return e
		}
		e = p.X
	}
}

// stripIface: T(x) with T an interface type -> x
func (t *bodyTr) stripIface(e ast.Expr) ast.Expr {
	e = unparen(e)
	if c, ok := e.(*ast.CallExpr); ok && len(c.Args) == 1 {
		if tv, ok := t.p.info.Types[c.Fun]; ok && tv.IsType() && types.IsInterface(tv.Type) {
			return t.stripIface(c.Args[0])
		}
	}
	return e
}

// refObject: a value that refers to (rather than contains) objects: pointer to struct, slice / map of objects
func refObject(t types.Type) bool {
	if t == nil || kindOf(t) != kObj {
		return false
	}
	switch u := t.Underlying().(type) {
	case *types.Pointer, *types.Slice, *types.Map:
		return true
	case *types.Struct:
		// a struct VALUE that holds slices or pointers was possibly copied from an object this function
		// was handed (e.g. a secretdata.Bytes): its slices are that object's memory
		for i := 0; i < u.NumFields(); i++ {
			ft := u.Field(i).Type()
			if k := kindOf(ft); k == kSlice || (k == kObj && refObject(ft)) {
				return true
			}
		}
	case *types.Array:
		return refObject(u.Elem())
	}
	return false
}

// ---- tracked objects: struct values built in this function ---------------------------------------

func (t *bodyTr) calleeOf(call *ast.CallExpr) (fn *types.Func, recv ast.Expr, iface types.Type) {
	fun := unparen(call.Fun)
	if ix, ok := fun.(*ast.IndexExpr); ok {
		if _, isSig := t.typeOf(ix.X).(*types.Signature); isSig {
			fun = unparen(ix.X)
		}
	}
	switch f := fun.(type) {
	case *ast.Ident:
		if o, ok := t.p.info.Uses[f].(*types.Func); ok {
			return o, nil, nil
		}
	case *ast.SelectorExpr:
		if sel, ok := t.p.info.Selections[f]; ok {
			if sel.Kind() == types.MethodVal {
				if o, ok := sel.Obj().(*types.Func); ok {
					if types.IsInterface(sel.Recv()) {
						return o, f.X, sel.Recv()
					}
					return o, f.X, nil
				}
			}
		} else if o, ok := t.p.info.Uses[f.Sel].(*types.Func); ok {
			return o, nil, nil
		}
	}
	return nil, nil, nil
}

func isLibPkg(p *types.Package) bool {
	if p == nil {
		return false
	}
	path := pkgPathOf(p)
	return strings.HasPrefix(path, libPrefix) && !strings.HasPrefix(path, libPrefix+"/proto/")
}

func (t *bodyTr) trackedCallRes(call *ast.CallExpr, i int) bool {
	fun := unparen(call.Fun)
	if tv, ok := t.p.info.Types[fun]; ok && tv.IsType() {
		if len(call.Args) == 1 {
			return t.trackedExpr(call.Args[0])
		}
		return false
	}
	if id, ok := fun.(*ast.Ident); ok {
		if b, ok := t.p.info.Uses[id].(*types.Builtin); ok {
			switch b.Name() {
			case "new", "make":
				return true
			case "append":
				return len(call.Args) > 0 && t.trackedExpr(call.Args[0])
			}
			return false
		}
	}
	fn, _, iface := t.calleeOf(call)
	if fn == nil {
		return false
	}
	if iface != nil && isLibPkg(fn.Pkg()) {
		any := false
		for _, k := range implementers(iface, fn.Name()) {
			if s := summaries[k]; s != nil && i < len(s.res) && s.res[i].tracked {
				any = true
			}
		}
		return any
	}
	if s := summaries[funcKey(fn)]; s != nil && i < len(s.res) {
		return s.res[i].tracked
	}
	return false
}

func (t *bodyTr) trackedExpr(e ast.Expr) bool {
	switch e := unparen(e).(type) {
	case *ast.TypeAssertExpr:
		if c, ok := unparen(e.X).(*ast.CallExpr); ok {
			if fn, _, _ := t.calleeOf(c); fn != nil && fn.FullName() == "google.golang.org/protobuf/proto.Clone" {
				return true
			}
		}
		return false
	case *ast.CompositeLit:
		return true
	case *ast.UnaryExpr:
		if e.Op == token.AND {
			return t.trackedExpr(e.X)
		}
	case *ast.StarExpr:
		return t.trackedExpr(e.X)
	case *ast.CallExpr:
		return t.trackedCallRes(e, 0)
	case *ast.Ident:
		if e.Name == "nil" {
			return true
		}
		if o := t.p.info.ObjectOf(e); o != nil {
			return t.tracked[t.find(o)]
		}
	case *ast.SelectorExpr:
		if sel, ok := t.p.info.Selections[e]; ok && sel.Kind() == types.FieldVal {
			return !immutableType(t.typeOf(e)) && !types.IsInterface(t.typeOf(e)) && t.trackedExpr(e.X)
		}
	case *ast.IndexExpr:
		return !immutableType(t.typeOf(e)) && t.trackedExpr(e.X)
	case *ast.SliceExpr:
		return t.trackedExpr(e.X)
	}
	return false
}

// computeTracked: a local variable of object kind is tracked when every value assigned to it is.
func (t *bodyTr) computeTracked() {
	type asg struct {
		o    types.Object
		e    ast.Expr
		call *ast.CallExpr
		idx  int
		no   bool
	}
	var asgs []asg
	local := func(id *ast.Ident) types.Object {
		if id == nil || id.Name == "_" {
			return nil
		}
		o := t.p.info.ObjectOf(id)
		if v, ok := o.(*types.Var); ok && isObjLike(v.Type()) && !v.IsField() && v.Pkg() != nil && v.Parent() != v.Pkg().Scope() {
			return o
		}
		return nil
	}
	ast.Inspect(t.fd.Body, func(n ast.Node) bool {
		switch n := n.(type) {
		case *ast.AssignStmt:
			if len(n.Lhs) == len(n.Rhs) {
				for i, l := range n.Lhs {
					if id, ok := l.(*ast.Ident); ok {
						if o := local(id); o != nil {
							asgs = append(asgs, asg{o: o, e: n.Rhs[i]})
						}
					}
				}
			} else if len(n.Rhs) == 1 {
				for i, l := range n.Lhs {
					id, ok := l.(*ast.Ident)
					if !ok {
						continue
					}
					o := local(id)
					if o == nil {
						continue
					}
					switch r := unparen(n.Rhs[0]).(type) {
					case *ast.CallExpr:
						asgs = append(asgs, asg{o: o, call: r, idx: i})
					case *ast.IndexExpr:
						asgs = append(asgs, asg{o: o, e: r.X})
					default:
						asgs = append(asgs, asg{o: o, no: true})
					}
				}
			}
		case *ast.ValueSpec:
			for i, id := range n.Names {
				o := local(id)
				if o == nil {
					continue
				}
				if len(n.Values) == len(n.Names) {
					asgs = append(asgs, asg{o: o, e: n.Values[i]})
				} else if len(n.Values) == 1 {
					if c, ok := unparen(n.Values[0]).(*ast.CallExpr); ok {
						asgs = append(asgs, asg{o: o, call: c, idx: i})
					} else {
						asgs = append(asgs, asg{o: o, no: true})
					}
				}
			}
		case *ast.RangeStmt:
			if id, ok := n.Value.(*ast.Ident); ok {
				if o := local(id); o != nil {
					if immutableType(o.Type()) {
						asgs = append(asgs, asg{o: o, no: true})
					} else {
						asgs = append(asgs, asg{o: o, e: n.X})
					}
				}
			}
		}
		return true
	})
	for id, o := range t.p.info.Defs {
		if o == nil || id.Pos() < t.fd.Body.Pos() || id.Pos() > t.fd.Body.End() {
			continue
		}
		if local(id) != nil {
			t.tracked[t.find(o)] = true
		}
	}
	for _, rv := range t.results {
		if rv.Name() != "" && rv.Name() != "_" && isObjLike(rv.Type()) {
			t.tracked[t.find(rv)] = true
		}
	}
	for changed := true; changed; {
		changed = false
		for _, a := range asgs {
			if !t.tracked[t.find(a.o)] {
				continue
			}
			ok := !a.no
			if ok && a.call != nil {
				ok = t.trackedCallRes(a.call, a.idx)
			} else if ok {
				ok = t.trackedExpr(t.stripIface(a.e))
			}
			if !ok {
				t.tracked[t.find(a.o)] = false
				changed = true
			}
		}
	}
}

// ---- expressions ---------------------------------------------------------------------------------

// eval returns the register that shows the byte memory e denotes (-1: e reaches none), emitting
// the effects of evaluating e.
// evalBase: the register through which the bytes of a field / element / slice of x are reached
func (t *bodyTr) evalBase(x ast.Expr) int {
	if isObjLike(t.typeOf(x)) {
		return t.evalObj(x)
	}
	return t.eval(x)
}

func (t *bodyTr) eval(e ast.Expr) int {
	if isObjLike(t.typeOf(e)) {
		if id, ok := e.(*ast.Ident); !ok || id.Name != "nil" {
			return t.evalObj(e)
		}
	}
	switch e := e.(type) {
	case *ast.ParenExpr:
		return t.eval(e.X)
	case *ast.Ident:
		o := t.p.info.ObjectOf(e)
		switch o := o.(type) {
		case *types.Nil:
			return t.tmpMake(e)
		case *types.Var:
			if r, ok := t.regOf[o]; ok {
				return r
			}
			if kindOf(o.Type()) == kNone {
				if t.closures[o] != nil {
					t.fail("closure %s used as a value", o.Name())
				}
				return -1
			}
			if r, ok := t.regOf[o]; ok {
				return r
			}
			if o.Pkg() != nil && o.Parent() == o.Pkg().Scope() {
				return t.tmpOpaque(e) // package-level variable
			}
			return t.reg(o)
		}
		return -1
	case *ast.SliceExpr:
		for _, ix := range []ast.Expr{e.Low, e.High, e.Max} {
			if ix != nil {
				t.walk(ix)
			}
		}
		if kindOf(t.typeOf(e)) == kNone {
			t.walk(e.X)
			return -1
		}
		base := t.evalBase(e.X)
		if base < 0 {
			return t.tmpOpaque(e)
		}
		r := t.newReg("")
		t.emit(&node{op: "sub", r: r, v: base, pos: -1, line: t.line(e)})
		return r
	case *ast.IndexExpr:
		t.walk(e.Index)
		if kindOf(t.typeOf(e)) == kNone {
			t.walk(e.X)
			return -1
		}
		base := t.evalBase(e.X)
		if base < 0 {
			return t.tmpOpaque(e)
		}
		return base
	case *ast.SelectorExpr:
		if kindOf(t.typeOf(e)) == kNone {
			t.walk(e.X)
			return -1
		}
		if sel, ok := t.p.info.Selections[e]; ok && sel.Kind() == types.FieldVal {
			base := t.evalBase(e.X)
			if base < 0 {
				return t.tmpOpaque(e)
			}
			return base
		}
		return t.tmpOpaque(e) // pkg.Var
	case *ast.StarExpr:
		base := t.evalBase(e.X)
		if kindOf(t.typeOf(e)) == kNone {
			return -1
		}
		if base < 0 {
			return t.tmpOpaque(e)
		}
		return base
	case *ast.UnaryExpr:
		if e.Op == token.AND {
			if isBytePtr(t.typeOf(e)) {
				return t.addrOfByte(e)
			}
			return t.eval(e.X)
		}
		if e.Op == token.ARROW && kindOf(t.typeOf(e)) != kNone {
			t.fail("receives byte data from a channel")
		}
		t.walk(e.X)
		return -1
	case *ast.CompositeLit:
		return t.composite(e)
	case *ast.CallExpr:
		rs := t.doCall(e)
		if len(rs) > 0 {
			return rs[0]
		}
		return -1
	case *ast.TypeAssertExpr:
		t.walk(e.X)
		if kindOf(t.typeOf(e)) != kNone {
			return t.tmpOpaque(e)
		}
		return -1
	case *ast.KeyValueExpr:
		return t.eval(e.Value)
	case *ast.BinaryExpr:
		t.walk(e.X)
		t.walk(e.Y)
		return -1
	case *ast.FuncLit:
		t.checkLit(e)
		return -1
	}
	return -1
}

func isBytePtr(t types.Type) bool {
	if t == nil {
		return false
	}
	pt, ok := t.Underlying().(*types.Pointer)
	if !ok {
		return false
	}
	b, ok := pt.Elem().Underlying().(*types.Basic)
	return ok && b.Kind() == types.Uint8
}

// addrOfByte: &x with x of type byte: a one-element view of the memory x lives in
func (t *bodyTr) addrOfByte(e *ast.UnaryExpr) int {
	x := unparen(e.X)
	base := -1
	switch x := x.(type) {
	case *ast.IndexExpr: // &s[i]
		t.walk(x.Index)
		base = t.evalBase(x.X)
	case *ast.SelectorExpr: // &obj.field
		if sel, ok := t.p.info.Selections[x]; ok && sel.Kind() == types.FieldVal {
			base = t.evalBase(x.X)
		}
	case *ast.StarExpr: // &*q
		return t.eval(x.X)
	case *ast.Ident: // &b with b a byte variable: the function's own memory unless b is a package-level variable
		if o, ok := t.p.info.ObjectOf(x).(*types.Var); ok && !(o.Pkg() != nil && o.Parent() == o.Pkg().Scope()) {
			return t.tmpMake(e)
		}
	}
	if base < 0 {
		return t.tmpOpaque(e)
	}
	r := t.newReg("")
	t.emit(&node{op: "sub", r: r, v: base, pos: -1, line: t.line(e)})
	return r
}

// walk evaluates an expression for its effects only.
func (t *bodyTr) walk(e ast.Expr) {
	if e == nil {
		return
	}
	ast.Inspect(e, func(n ast.Node) bool {
		switch n := n.(type) {
		case *ast.CallExpr:
			t.doCall(n)
			return false
		case *ast.FuncLit:
			t.checkLit(n)
			return false
		case *ast.CompositeLit:
			t.composite(n)
			return false
		case *ast.Ident:
			if o, ok := t.p.info.Uses[n].(*types.Var); ok && t.closures[o] != nil {
				t.fail("closure %s used as a value", o.Name())
			}
		case *ast.SelectorExpr:
			// a bound method value x.M (not called here): whoever gets it holds x
			if sel, ok := t.p.info.Selections[n]; ok && sel.Kind() == types.MethodVal {
				if v, rel := t.relVal(n.X); rel {
					t.emit(&node{op: "escape", v: v, pos: -1, why: "ret", line: t.line(n)})
				}
				return false
			}
		}
		return true
	})
}

// capturesBytes: does the literal use a byte-carrying variable declared outside of it?
func capturesBytes(p *pkgInfo, lit *ast.FuncLit) bool {
	bad := false
	ast.Inspect(lit, func(n ast.Node) bool {
		if id, ok := n.(*ast.Ident); ok {
			if o, ok := p.info.ObjectOf(id).(*types.Var); ok && !o.IsField() && kindOf(o.Type()) != kNone {
				if o.Pkg() != nil && o.Parent() == o.Pkg().Scope() {
					return true
				}
				if o.Pos() < lit.Pos() || o.Pos() > lit.End() {
					bad = true
				}
			}
		}
		return true
	})
	return bad
}

// checkLit: a function literal that is not inlined must not touch byte variables of the enclosing
// function (a literal without such captures is translated as a function of its own).
func (t *bodyTr) checkLit(lit *ast.FuncLit) {
	if capturesBytes(t.p, lit) {
		t.fail("function literal (line %d) uses byte-carrying variables of the enclosing function", t.line(lit))
	}
}

// relVal evaluates a value that is about to be stored, returned or passed on:
// register (-1 if irrelevant), and whether it is relevant (a slice, or an object built here).
func (t *bodyTr) relVal(e ast.Expr) (int, bool) {
	in := t.stripIface(e)
	typ := t.typeOf(in)
	k := kindOf(typ)
	if k == kNone {
		if r := t.ifaceParamReg(in); r >= 0 {
			return r, true // an interface value that may carry byte memory: whatever it carries counts
		}
		// an external constructor whose interface-typed result holds some of its arguments (hkdf.New)
		if c, ok := in.(*ast.CallExpr); ok && isIfaceT(t.typeOf(in)) {
			if tv, isConv := t.p.info.Types[unparen(c.Fun)]; !isConv || !tv.IsType() {
				if rs := t.doCall(c); len(rs) > 0 && rs[0] >= 0 {
					return rs[0], true
				}
				return -1, false
			}
		}
	}
	if k == kNone || k == kArr {
		t.walk(e)
		return -1, false
	}
	if isObjLike(typ) {
		// an object built here is followed; an object the function was handed counts like a byte slice it
		// was handed, unless its type is whitelisted as immutable
		rel := t.trackedExpr(in) || !immutableType(typ)
		v := t.evalObj(in)
		return v, rel && v >= 0
	}
	v := t.eval(in)
	return v, v >= 0
}

// ifaceParamReg: the register of an interface-typed parameter (internal helpers only), else -1
func (t *bodyTr) ifaceParamReg(e ast.Expr) int {
	if id, ok := unparen(e).(*ast.Ident); ok {
		if o, ok := t.p.info.ObjectOf(id).(*types.Var); ok && kindOf(o.Type()) == kNone {
			if r, ok := t.regOf[t.find(o)]; ok {
				return r
			}
		}
	}
	return -1
}

func (t *bodyTr) composite(e *ast.CompositeLit) int {
	typ := t.typeOf(e)
	k := kindOf(typ)
	if isByteElem(typ) && k != kNone {
		for _, el := range e.Elts {
			t.walk(el)
		}
		return t.tmpMake(e)
	}
	// the new object belongs to the class of the objects it refers to (if any)
	T := -1
	if k != kNone {
		for _, o := range t.refRoots(e) {
			if !t.isParam[t.find(o)] {
				T = t.classReg(o) // the class of the local objects it refers to
				break
			}
		}
		if T < 0 {
			T = t.objTmpMake(e)
		}
	}
	for _, el := range e.Elts {
		val := el
		if kv, ok := el.(*ast.KeyValueExpr); ok {
			t.walk(kv.Key)
			val = kv.Value
		}
		v, rel := t.relVal(val)
		if !rel {
			continue
		}
		switch {
		case T < 0:
			// an object that cannot be followed further holds byte memory: it escapes
			t.emit(&node{op: "escape", v: v, pos: -1, why: "ret", line: t.line(e)})
		default:
			t.store(T, v, e)
		}
	}
	return T
}

// ---- calls -----------------------------------------------------------------------------------------

func (t *bodyTr) resultKinds(call *ast.CallExpr) []bkind {
	switch rt := t.typeOf(call).(type) {
	case nil:
		return nil
	case *types.Tuple:
		ks := make([]bkind, rt.Len())
		for i := range ks {
			ks[i] = kindOf(rt.At(i).Type())
		}
		return ks
	default:
		return []bkind{kindOf(rt)}
	}
}

func (t *bodyTr) conv(call *ast.CallExpr, T types.Type) int {
	if len(call.Args) != 1 {
		return -1
	}
	arg := call.Args[0]
	if at := t.typeOf(arg); at != nil && (at.String() == "unsafe.Pointer" || T.String() == "unsafe.Pointer") {
		t.fail("unsafe.Pointer conversion (line %d)", t.line(call))
	}
	switch kindOf(T) {
	case kSlice:
		if kindOf(t.typeOf(arg)) == kNone {
			t.walk(arg)
			return t.tmpMake(call)
		}
		return t.eval(arg)
	case kArr:
		t.walk(arg)
		return t.tmpMake(call)
	case kObj:
		return t.eval(arg)
	}
	t.walk(arg)
	return -1
}

func (t *bodyTr) builtin(name string, call *ast.CallExpr) []int {
	ln := t.line(call)
	switch name {
	case "append":
		typ := t.typeOf(call)
		if isByteElem(typ) {
			v := t.eval(call.Args[0])
			for _, a := range call.Args[1:] {
				t.walk(a)
			}
			if v < 0 {
				v = t.tmpOpaque(call)
			}
			r := t.newReg("")
			t.emit(&node{op: "append", r: r, v: v, pos: -1, line: ln})
			return []int{r}
		}
		if kindOf(typ) == kNone {
			for _, a := range call.Args {
				t.walk(a)
			}
			return []int{-1}
		}
		// a container of slices / objects: the result belongs to the class of the container appended to
		R := t.evalObj(call.Args[0])
		for _, a := range call.Args[1:] {
			if call.Ellipsis.IsValid() {
				if v := t.eval(a); v >= 0 {
					t.store(R, v, call)
				}
			} else if v, rel := t.relVal(a); rel {
				t.store(R, v, call)
			}
		}
		return []int{R}
	case "copy":
		d, s := call.Args[0], call.Args[1]
		if isByteElem(t.typeOf(d)) {
			dv := t.eval(d)
			sv := -1
			if kindOf(t.typeOf(s)) != kNone {
				sv = t.eval(s)
			} else {
				t.walk(s)
			}
			if dv < 0 {
				dv = t.tmpOpaque(call)
			}
			if sv < 0 {
				t.emit(&node{op: "write", v: dv, pos: -1, why: "mut", line: ln})
			} else {
				t.emit(&node{op: "copy", r: dv, v: sv, pos: -1, why: "mut", line: ln})
			}
		} else if kindOf(t.typeOf(d)) != kNone {
			dv, sv := t.eval(d), t.eval(s)
			if dv >= 0 && sv >= 0 {
				t.store(dv, sv, call)
			} else if sv >= 0 {
				t.emit(&node{op: "escape", v: sv, pos: -1, why: "ret", line: ln})
			}
		} else {
			t.walk(d)
			t.walk(s)
		}
		return []int{-1}
	case "make", "new":
		for _, a := range call.Args[1:] {
			t.walk(a)
		}
		if kindOf(t.typeOf(call)) == kNone {
			return []int{-1}
		}
		if isObjLike(t.typeOf(call)) {
			return []int{t.objTmpMake(call)}
		}
		return []int{t.tmpMake(call)}
	case "panic":
		// panic(v): whoever recovers gets v
		for _, a := range call.Args {
			if v, rel := t.relVal(a); rel {
				t.emit(&node{op: "escape", v: v, pos: -1, why: "ret", line: ln})
			}
		}
		return []int{-1}
	case "clear":
		if isByteElem(t.typeOf(call.Args[0])) {
			v := t.eval(call.Args[0])
			if v < 0 {
				v = t.tmpOpaque(call)
			}
			t.emit(&node{op: "write", v: v, pos: -1, why: "mut", line: ln})
			return nil
		}
	}
	for _, a := range call.Args {
		t.walk(a)
	}
	return []int{-1}
}

func hasReturn(b *ast.BlockStmt) bool {
	found := false
	ast.Inspect(b, func(n ast.Node) bool {
		switch n.(type) {
		case *ast.ReturnStmt:
			found = true
		case *ast.FuncLit:
			return false
		}
		return true
	})
	return found
}

func (t *bodyTr) inline(lit *ast.FuncLit, call *ast.CallExpr) []int {
	nres := 0
	if lit.Type.Results != nil {
		nres = lit.Type.Results.NumFields()
	}
	out := make([]int, nres)
	for i := range out {
		out[i] = -1
	}
	if t.inClos > 2 || hasReturn(lit.Body) || call.Ellipsis.IsValid() {
		t.fail("closure (line %d) with return statements or nested too deep", t.line(lit))
		return out
	}
	ai := 0
	for _, fl := range lit.Type.Params.List {
		for _, nm := range fl.Names {
			if ai >= len(call.Args) {
				break
			}
			arg := call.Args[ai]
			ai++
			o := t.p.info.Defs[nm]
			if o == nil || kindOf(o.Type()) == kNone {
				t.walk(arg)
				continue
			}
			if isObjLike(o.Type()) {
				v, rel := t.relVal(arg)
				t.assignObjVar(o, v, rel, call)
				continue
			}
			r := t.reg(o)
			if kindOf(o.Type()) == kArr {
				t.walk(arg)
				t.emit(&node{op: "make", r: r, pos: -1, line: t.line(call)})
				continue
			}
			v := t.eval(arg)
			if v < 0 {
				t.emit(&node{op: "opaque", r: r, pos: -1, line: t.line(call)})
			} else {
				t.emit(&node{op: "alias", r: r, v: v, pos: -1, line: t.line(call)})
			}
		}
	}
	t.inClos++
	saveCtx := t.ctx
	t.ctx = nil
	t.block(lit.Body.List)
	t.ctx = saveCtx
	t.inClos--
	return out
}

func firstArgTuple(t *bodyTr, call *ast.CallExpr) (*types.Tuple, bool) {
	if len(call.Args) != 1 {
		return nil, false
	}
	tup, ok := t.typeOf(call.Args[0]).(*types.Tuple)
	return tup, ok
}

// argument registers per callee parameter index
func (t *bodyTr) callArgs(call *ast.CallExpr, sig *types.Signature, recv ast.Expr) [][]int {
	base := 0
	if sig.Recv() != nil {
		base = 1
	}
	np := sig.Params().Len()
	regs := make([][]int, base+np)
	if recv != nil && base == 1 {
		rk := kindOf(sig.Recv().Type())
		if rk == kSlice || rk == kObj {
			if v := t.eval(recv); v >= 0 {
				regs[0] = []int{v}
			}
		} else if r := t.ifaceParamReg(recv); r >= 0 {
			regs[0] = []int{r}
		} else {
			t.walk(recv)
		}
	}
	pidx := func(ai int) int {
		if sig.Variadic() && ai >= np-1 {
			return np - 1
		}
		return ai
	}
	if tup, isTuple := firstArgTuple(t, call); isTuple && tup.Len() > 1 {
		// f(g()) with a multi-valued g: the results of g are the arguments of f
		if inner, ok := unparen(call.Args[0]).(*ast.CallExpr); ok {
			rs := t.doCall(inner)
			for i, r := range rs {
				if pi := pidx(i); r >= 0 && pi < np {
					regs[base+pi] = append(regs[base+pi], r)
				}
			}
			return regs
		}
		t.fail("multi-valued argument that is not a call (line %d)", t.line(call))
		return regs
	}
	for ai, a := range call.Args {
		pi := pidx(ai)
		if pi >= np {
			t.walk(a)
			continue
		}
		pt := sig.Params().At(pi).Type()
		pk := kindOf(pt)
		in := t.stripIface(a)
		if tv, ok := t.p.info.Types[in]; ok && tv.IsNil() && (pk == kSlice || pk == kObj) {
			regs[base+pi] = append(regs[base+pi], t.tmpMake(a)) // nil: nothing to share
			continue
		}
		at := t.typeOf(in)
		ak := kindOf(at)
		if r := t.ifaceParamReg(in); r >= 0 && ak == kNone {
			regs[base+pi] = append(regs[base+pi], r)
			continue
		}
		if pk == kArr || ak == kNone || ak == kArr {
			t.walk(a)
			continue
		}
		if pk == kNone && isObjLike(at) && !t.trackedExpr(in) && immutableType(at) {
			t.walk(a) // an immutable object somebody else built, passed on as an interface value
			continue
		}
		if v := t.eval(in); v >= 0 {
			regs[base+pi] = append(regs[base+pi], v)
		}
	}
	return regs
}

// applyEffects: what the callee(s) may do with the arguments, as instructions of the caller
func (t *bodyTr) applyEffects(call *ast.CallExpr, args [][]int, mut, keep []bool, stores []uint64) {
	ln := t.line(call)
	for i := range args {
		for _, v := range args[i] {
			if i < len(mut) && mut[i] {
				t.emit(&node{op: "write", v: v, pos: -1, why: "mut", line: ln})
			}
			if i < len(keep) && keep[i] {
				t.emit(&node{op: "escape", v: v, pos: -1, why: "ret", line: ln})
			}
		}
	}
	// the callee stores (what it reaches through) argument q into the object argument i
	for i := range args {
		if i >= len(stores) || stores[i] == 0 {
			continue
		}
		for _, x := range args[i] {
			if stores[i]&opaqueBit != 0 {
				t.store(x, t.objTmpOpaque(call), call)
			}
			for q := 0; q < len(args) && q < 62; q++ {
				if stores[i]&(1<<uint(q)) != 0 && q != i {
					for _, v := range args[q] {
						t.store(x, v, call)
					}
				}
			}
		}
	}
}

// resultReg: the register holding result i of a call, given what the callee(s) may return
func (t *bodyTr) resultReg(call *ast.CallExpr, typ types.Type, res resInfo, args [][]int) int {
	ln := t.line(call)
	var vs []int
	opq := res.roots&opaqueBit != 0
	for p := 0; p < len(args) && p < 62; p++ {
		if res.roots&(1<<uint(p)) != 0 {
			if len(args[p]) == 0 {
				opq = true
			}
			vs = append(vs, args[p]...)
		}
	}
	if typ == nil || isObjLike(typ) { // typ == nil: an interface value treated as an object
		if !res.tracked {
			return t.objTmpOpaque(call)
		}
		if len(vs) == 0 && !opq {
			return t.objTmpMake(call)
		}
		return t.objResult(call, vs, opq)
	}
	r := t.newReg("")
	switch {
	case !res.seen || res.roots == 0:
		t.emit(&node{op: "make", r: r, pos: -1, line: ln})
	case opq || len(vs) == 0:
		t.emit(&node{op: "opaque", r: r, pos: -1, line: ln})
	default:
		t.emit(&node{op: "phi", r: r, vs: vs, pos: -1, line: ln})
	}
	return r
}

func (t *bodyTr) resultTypes(call *ast.CallExpr) []types.Type {
	switch rt := t.typeOf(call).(type) {
	case nil:
		return nil
	case *types.Tuple:
		ts := make([]types.Type, rt.Len())
		for i := range ts {
			ts[i] = rt.At(i).Type()
		}
		return ts
	default:
		return []types.Type{rt}
	}
}

func (t *bodyTr) doCall(call *ast.CallExpr) []int {
	fun := unparen(call.Fun)
	ln := t.line(call)
	if tv, ok := t.p.info.Types[fun]; ok && tv.IsType() {
		return []int{t.conv(call, tv.Type)}
	}
	if sel, ok := fun.(*ast.SelectorExpr); ok {
		if b, ok := t.p.info.Uses[sel.Sel].(*types.Builtin); ok {
			// unsafe.String / unsafe.Slice / unsafe.SliceData / unsafe.Add ...: memory the analysis cannot follow
			t.fail("uses unsafe.%s (line %d)", b.Name(), ln)
			n := 1
			if tup, ok := t.typeOf(call).(*types.Tuple); ok {
				n = tup.Len()
			}
			out := make([]int, n)
			for i := range out {
				out[i] = -1
			}
			return out
		}
	}
	if id, ok := fun.(*ast.Ident); ok {
		if b, ok := t.p.info.Uses[id].(*types.Builtin); ok {
			return t.builtin(b.Name(), call)
		}
		if o, ok := t.p.info.Uses[id].(*types.Var); ok {
			if lit := t.closures[o]; lit != nil {
				return t.inline(lit, call)
			}
		}
	}
	rk := t.resultKinds(call)
	out := make([]int, len(rk))
	for i := range out {
		out[i] = -1
	}
	fn, recv, iface := t.calleeOf(call)
	if fn == nil {
		// call through a function value
		bc := false
		for _, a := range call.Args {
			if k := kindOf(t.typeOf(t.stripIface(a))); k == kSlice || k == kObj {
				bc = true
			}
		}
		for _, k := range rk {
			if k == kSlice || k == kObj {
				bc = true
			}
		}
		if _, isLit := fun.(*ast.FuncLit); !isLit && bc {
			if csig, ok := t.typeOf(call.Fun).Underlying().(*types.Signature); ok {
				if res, ok := t.dynamicCall(call, csig, rk); ok {
					return res
				}
			}
		}
		if lit, ok := fun.(*ast.FuncLit); ok {
			t.checkLit(lit)
		} else {
			t.walk(fun)
		}
		for _, a := range call.Args {
			t.walk(a)
		}
		if bc {
			t.fail("call through a function value with byte arguments or results (line %d)", ln)
		}
		return out
	}
	if fn.Pkg() != nil && fn.Pkg().Path() == "unsafe" {
		t.fail("uses package unsafe (line %d)", ln)
		return out
	}
	sig, _ := fn.Type().(*types.Signature)
	if sig == nil {
		t.fail("callee without signature (line %d)", ln)
		return out
	}
	if osig, ok := fn.Origin().Type().(*types.Signature); ok && isLibPkg(fn.Pkg()) && (osig.TypeParams().Len() > 0 || osig.RecvTypeParams().Len() > 0) {
		if isig, ok := t.typeOf(call.Fun).(*types.Signature); ok {
			same := isig.Params().Len() == osig.Params().Len() && isig.Results().Len() == osig.Results().Len()
			for i := 0; same && i < isig.Params().Len(); i++ {
				same = kindOf(isig.Params().At(i).Type()) == kindOf(osig.Params().At(i).Type())
			}
			for i := 0; same && i < isig.Results().Len(); i++ {
				same = kindOf(isig.Results().At(i).Type()) == kindOf(osig.Results().At(i).Type())
			}
			if !same {
				t.fail("generic callee %s instantiated with a byte-carrying type (line %d)", fn.Name(), ln)
				return out
			}
			sig = osig
		}
	}
	args := t.callArgs(call, sig, recv)
	for i, k := range rk {
		if k == kArr {
			out[i] = t.tmpMake(call)
		}
	}
	anyArg := false
	for _, a := range args {
		if len(a) > 0 {
			anyArg = true
		}
	}
	rts := t.resultTypes(call)
	setRes := func(i int, roots uint64, seen, tracked bool) {
		if i >= len(rk) {
			return
		}
		if rk[i] == kNone && isIfaceT(rts[i]) && seen && roots != 0 {
			// an interface value that holds some of the arguments (e.g. a reader over them)
			out[i] = t.resultReg(call, nil, resInfo{roots: roots, seen: seen, tracked: true}, args)
			return
		}
		if rk[i] != kSlice && rk[i] != kObj {
			return
		}
		out[i] = t.resultReg(call, rts[i], resInfo{roots: roots, seen: seen, tracked: tracked}, args)
	}
	if isLibPkg(fn.Pkg()) {
		var sms []*summary
		if iface != nil {
			keys := implementers(iface, fn.Name())
			for _, k := range keys {
				if s := summaries[k]; s != nil && s.untr == "" {
					sms = append(sms, s)
				} else if s != nil && (anyArg || hasRefKind(rk)) {
					t.fail("calls %s through an interface; that implementation is untranslated", shortKey(k))
					return out
				}
			}
			if len(keys) == 0 && (anyArg || hasRefKind(rk)) {
				t.fail("no implementation of interface method %s found in the library (line %d)", fn.FullName(), ln)
				return out
			}
		} else if s := summaries[funcKey(fn)]; s != nil {
			if s.untr != "" {
				if anyArg || hasRefKind(rk) {
					t.fail("calls %s, which is untranslated", shortKey(funcKey(fn)))
				}
				return out
			}
			sms = append(sms, s)
		} else if considered(sig) && (anyArg || hasRefKind(rk)) {
			t.fail("calls %s, a library function outside the scanned packages", shortKey(funcKey(fn)))
			return out
		}
		n := len(args)
		mut, keep := make([]bool, n), make([]bool, n)
		stores := make([]uint64, n)
		res := make([]resInfo, len(rk))
		var keys []string
		for _, s := range sms {
			keys = append(keys, s.key)
			for i := 0; i < n && i < len(s.mut); i++ {
				mut[i] = mut[i] || s.mut[i]
				keep[i] = keep[i] || s.keep[i]
				if i < len(s.stores) {
					stores[i] |= s.stores[i]
				}
			}
			for i := 0; i < len(rk) && i < len(s.res); i++ {
				res[i].roots |= s.res[i].roots
				res[i].seen = res[i].seen || s.res[i].seen
				res[i].tracked = res[i].tracked || s.res[i].tracked
			}
		}
		// a byte value handed to an interface-typed parameter of a library function cannot be followed,
		// unless every possible callee is an internal helper whose summary speaks for such parameters
		followed := len(sms) > 0
		for _, s := range sms {
			if !s.ifaceTr {
				followed = false
			}
		}
		eff := t.sub(func() {
			t.applyEffects(call, args, mut, keep, stores)
			base := 0
			if sig.Recv() != nil {
				base = 1
			}
			for pi := 0; pi < sig.Params().Len(); pi++ {
				pt := sig.Params().At(pi).Type()
				if sig.Variadic() && pi == sig.Params().Len()-1 {
					if sl, ok := pt.(*types.Slice); ok {
						pt = sl.Elem()
					}
				}
				if kindOf(pt) == kNone && !followed {
					for _, v := range args[base+pi] {
						t.emit(&node{op: "escape", v: v, pos: -1, why: "ret", line: ln})
					}
				}
			}
		})
		t.emit(&node{op: "call", callees: keys, cargs: args, kids: []*node{eff}, pos: -1, line: ln})
		for i := range rk {
			setRes(i, res[i].roots, res[i].seen, res[i].tracked)
		}
		return out
	}
	// a callee outside the library
	key := fn.FullName()
	eff, ok := extLookup(fn)
	if !ok {
		sliceArg := false
		for i, a := range args {
			if len(a) > 0 && !(i == 0 && sig.Recv() != nil) {
				sliceArg = true
			}
		}
		sliceRes := false
		for _, k := range rk {
			if k == kSlice {
				sliceRes = true
			}
		}
		if sliceArg || sliceRes {
			t.fail("unknown callee %s", key)
			return out
		}
		for i, k := range rk {
			if k == kObj {
				out[i] = t.objTmpOpaque(call)
			}
		}
		return out
	}
	first := func(i int) int {
		if i < len(args) && len(args[i]) > 0 {
			return args[i][0]
		}
		return -1
	}
	// A method of a STANDARD-LIBRARY interface (io.Writer, io.Reader ...) may be implemented by a library type:
	// the call then also does what those implementations do (their summaries, joined); likewise a standard
	// function that calls such a method on one of its arguments (io.ReadFull, io.Copy: `m` entries of the table).
	join := func(recvT types.Type, method string, remap func(calleeParam int) []int, np int) {
		keys := implementers(recvT, method)
		mut, keep := make([]bool, np), make([]bool, np)
		stores := make([]uint64, np)
		cargs := make([][]int, np)
		for i := range cargs {
			cargs[i] = remap(i)
		}
		var libKeys []string
		for _, k := range keys {
			sm := summaries[k]
			if sm == nil {
				continue
			}
			if sm.untr != "" {
				// an untranslated library implementation of a STANDARD-LIBRARY interface method: for it the
				// call is judged by the trusted table alone; the pair is listed in the emitted table
				unjoined[shortKey(k)+" as "+method] = true
				continue
			}
			libKeys = append(libKeys, k)
			for i := 0; i < np && i < len(sm.mut); i++ {
				mut[i] = mut[i] || sm.mut[i]
				keep[i] = keep[i] || sm.keep[i]
				if i < len(sm.stores) {
					stores[i] |= sm.stores[i]
				}
			}
		}
		if len(libKeys) > 0 {
			// What such an implementation does to ITS OWN receiver memory (a stream object filling its buffers)
			// is not attributed to the object at hand, which need not be one of them (the reader hkdf.New gives,
			// a bytes.Buffer ...); what it does to the ARGUMENTS is.  If it stores an argument into its receiver
			// and the receiver has no register here, the argument escapes.
			mut[0], keep[0] = false, false
			if len(cargs[0]) == 0 && stores[0] != 0 {
				for q := 1; q < np && q < 61; q++ {
					if stores[0]&(1<<uint(q)) != 0 {
						keep[q] = true
					}
				}
				stores[0] = 0
			}
			libEff := t.sub(func() { t.applyEffects(call, cargs, mut, keep, stores) })
			rec := append([][]int{nil}, cargs[1:]...) // the record speaks for the arguments, not for the receiver
			t.emit(&node{op: "call", callees: libKeys, cargs: rec, kids: []*node{libEff}, pos: -1, line: ln})
		}
	}
	if iface != nil {
		join(iface, fn.Name(), func(i int) []int {
			if i < len(args) {
				return args[i]
			}
			return nil
		}, len(args))
	}
	for _, m := range eff.calls {
		// m = {argument holding the interface value, method, parameter of the method, argument it receives}
		m := m
		if m.iarg >= sig.Params().Len() {
			continue
		}
		base := 0
		if sig.Recv() != nil {
			base = 1
		}
		pt := sig.Params().At(m.iarg).Type()
		if !types.IsInterface(pt) {
			continue
		}
		join(pt, m.method, func(i int) []int {
			switch i {
			case 0:
				if base+m.iarg < len(args) {
					return args[base+m.iarg]
				}
			case m.param:
				if base+m.target < len(args) {
					return args[base+m.target]
				}
			}
			return nil
		}, m.param+1)
	}
	for _, w := range eff.writes {
		if w < len(args) {
			for _, v := range args[w] {
				t.emit(&node{op: "write", v: v, pos: -1, why: "mut", line: ln})
			}
		}
	}
	for _, w := range eff.keeps {
		if w < len(args) {
			for _, v := range args[w] {
				t.emit(&node{op: "escape", v: v, pos: -1, why: "ret", line: ln})
			}
		}
	}
	if len(rk) > 0 && (rk[0] == kSlice || rk[0] == kObj) && isObjLike(rts[0]) {
		switch eff.res {
		case "opaque":
			out[0] = t.objTmpOpaque(call)
		case "", "fresh":
			out[0] = t.objTmpMake(call)
		default: // a view of some argument(s): possibly the argument object itself
			var vs []int
			for i, a := range args {
				if eff.res == "any" || eff.res == fmt.Sprint(i) {
					vs = append(vs, a...)
				}
			}
			out[0] = t.objResult(call, vs, len(vs) == 0)
		}
	} else if len(rk) > 0 && (rk[0] == kSlice || rk[0] == kObj) {
		r := t.newReg("")
		out[0] = r
		switch {
		case eff.app >= 0:
			v := first(eff.app)
			if v < 0 {
				v = t.tmpOpaque(call)
			}
			t.emit(&node{op: "append", r: r, v: v, pos: -1, why: "mut", line: ln})
		case key == "bytes.Clone" || key == "slices.Clone":
			if v := first(0); v >= 0 {
				t.emit(&node{op: "clone", r: r, v: v, pos: -1, line: ln})
			} else {
				t.emit(&node{op: "make", r: r, pos: -1, line: ln})
			}
		case key == "slices.Concat":
			var vs []int
			if len(args) > 0 {
				vs = args[0]
			}
			t.emit(&node{op: "concat", r: r, vs: vs, pos: -1, line: ln})
		case eff.res == "opaque":
			t.emit(&node{op: "opaque", r: r, pos: -1, line: ln})
		case eff.res == "any":
			var vs []int
			for _, a := range args {
				vs = append(vs, a...)
			}
			if len(vs) == 0 {
				t.emit(&node{op: "make", r: r, pos: -1, line: ln})
			} else {
				t.emit(&node{op: "phi", r: r, vs: vs, pos: -1, line: ln})
			}
		case eff.res == "" || eff.res == "fresh":
			t.emit(&node{op: "make", r: r, pos: -1, line: ln})
		default:
			var i int
			fmt.Sscan(eff.res, &i)
			if v := first(i); v >= 0 {
				t.emit(&node{op: "alias", r: r, v: v, pos: -1, line: ln})
			} else {
				t.emit(&node{op: "opaque", r: r, pos: -1, line: ln})
			}
		}
	}
	if len(eff.holds) > 0 && len(rk) > 0 && rk[0] == kNone {
		T := t.objTmpMake(call)
		for _, h := range eff.holds {
			if h < len(args) {
				for _, v := range args[h] {
					t.store(T, v, call)
				}
			}
		}
		out[0] = T
	}
	for i := 1; i < len(rk); i++ {
		switch {
		case rk[i] == kSlice && !isObjLike(rts[i]) && i == 1 && eff.res1 == "fresh":
			out[i] = t.tmpMake(call)
		case rk[i] == kSlice && !isObjLike(rts[i]):
			// the table speaks for the first result (and, where it says so, the second) only
			t.fail("external callee %s has a byte-slice result at position %d", key, i)
		case rk[i] == kSlice || rk[i] == kObj:
			out[i] = t.objTmpOpaque(call)
		}
	}
	return out
}

func hasRefKind(ks []bkind) bool {
	for _, k := range ks {
		if k == kSlice || k == kObj {
			return true
		}
	}
	return false
}

func shortKey(k string) string { return strings.ReplaceAll(k, libPrefix+"/", "") }

// ---- calls through function values ------------------------------------------------------------------

// every named function or method that is used as a VALUE somewhere in the library (closed world: a
// function-typed field or variable of the library can only hold one of these, or a function literal)
var funcValues []*types.Func
var funcLitSigs []*types.Signature

type litDecl struct {
	p   *pkgInfo
	lit *ast.FuncLit
	fn  *types.Func
}

var litDecls []litDecl

func collectFuncValues(p *pkgInfo) {
	for _, file := range p.files {
		called := map[ast.Expr]bool{}
		ast.Inspect(file, func(n ast.Node) bool {
			switch n := n.(type) {
			case *ast.CallExpr:
				called[unparen(n.Fun)] = true
			case *ast.FuncLit:
				if !called[n] {
					if sg, ok := p.info.Types[n].Type.(*types.Signature); ok {
						if capturesBytes(p, n) {
							funcLitSigs = append(funcLitSigs, sg)
						} else {
							pos := p.fset.Position(n.Pos())
							name := fmt.Sprintf("func@%s:%d", filepath.Base(pos.Filename), pos.Line)
							f := types.NewFunc(n.Pos(), p.pkg, name, sg)
							funcValues = append(funcValues, f)
							litDecls = append(litDecls, litDecl{p, n, f})
						}
					}
				}
			case *ast.SelectorExpr:
				if called[n] {
					return true
				}
				if sel, ok := p.info.Selections[n]; ok {
					if sel.Kind() == types.MethodVal {
						if f, ok := sel.Obj().(*types.Func); ok {
							funcValues = append(funcValues, f)
						}
					}
				} else if f, ok := p.info.Uses[n.Sel].(*types.Func); ok {
					funcValues = append(funcValues, f)
				}
				return true
			case *ast.Ident:
				if called[n] {
					return true
				}
				if f, ok := p.info.Uses[n].(*types.Func); ok {
					funcValues = append(funcValues, f)
				}
			}
			return true
		})
	}
}

// extAsSummary: the trusted table entry of an external callee in summary form
func extAsSummary(fn *types.Func, eff extEff) *summary {
	sig := fn.Type().(*types.Signature)
	n := sig.Params().Len()
	if sig.Recv() != nil {
		n++
	}
	s := &summary{nparams: n, mut: make([]bool, n), keep: make([]bool, n), res: make([]resInfo, sig.Results().Len()), ifaceTr: true}
	for _, w := range eff.writes {
		if w < n {
			s.mut[w] = true
		}
	}
	for _, w := range eff.keeps {
		if w < n {
			s.keep[w] = true
		}
	}
	for i := range s.res {
		s.res[i].kind = kindOf(sig.Results().At(i).Type())
		s.res[i].seen = true
	}
	if len(s.res) > 0 {
		switch {
		case eff.app >= 0 && eff.app < n:
			s.mut[eff.app] = true
			s.res[0].roots = 1 << uint(eff.app)
		case eff.res == "opaque":
			s.res[0].roots = opaqueBit
		case eff.res == "any":
			for i := 0; i < n && i < 62; i++ {
				s.res[0].roots |= 1 << uint(i)
			}
		case eff.res == "" || eff.res == "fresh":
		default:
			var i int
			fmt.Sscan(eff.res, &i)
			s.res[0].roots = 1 << uint(i)
		}
	}
	return s
}

func (t *bodyTr) dynamicCall(call *ast.CallExpr, csig *types.Signature, rk []bkind) ([]int, bool) {
	ln := t.line(call)
	for _, ls := range funcLitSigs {
		if sigMatch(csig, ls, 0) {
			return nil, false // a function literal may flow here
		}
	}
	seen := map[string]bool{}
	var sms []*summary
	var shifts []int
	for _, f := range funcValues {
		fs, ok := f.Type().(*types.Signature)
		if !ok || !sigMatch(csig, fs, 0) {
			continue
		}
		k := funcKey(f)
		if seen[k] {
			continue
		}
		seen[k] = true
		shift := 0
		if fs.Recv() != nil {
			shift = 1
		}
		if isLibPkg(f.Pkg()) {
			s := summaries[k]
			if s == nil {
				continue // touches no byte memory
			}
			if s.untr != "" {
				t.fail("calls through a function value that may be %s, which is untranslated", shortKey(k))
				return nil, true
			}
			sms, shifts = append(sms, s), append(shifts, shift)
		} else {
			eff, ok := extLookup(f)
			if !ok {
				t.fail("calls through a function value that may be the unknown callee %s", f.FullName())
				return nil, true
			}
			sms, shifts = append(sms, extAsSummary(f, eff)), append(shifts, shift)
		}
	}
	if len(seen) == 0 {
		return nil, false
	}
	t.walk(call.Fun)
	args := t.callArgs(call, csig, nil)
	out := make([]int, len(rk))
	for i, k := range rk {
		out[i] = -1
		if k == kArr {
			out[i] = t.tmpMake(call)
		}
	}
	n := len(args)
	mut, keep := make([]bool, n), make([]bool, n)
	stores := make([]uint64, n)
	res := make([]resInfo, len(rk))
	var keys []string
	unshift := func(roots uint64, sh int) uint64 {
		if sh == 0 {
			return roots
		}
		r2 := roots & opaqueBit
		if roots&1 != 0 {
			r2 |= opaqueBit // the bound receiver
		}
		return r2 | (roots&^opaqueBit)>>1
	}
	for j, s := range sms {
		sh := shifts[j]
		keys = append(keys, s.key)
		for i := 0; i < n && i+sh < len(s.mut); i++ {
			mut[i] = mut[i] || s.mut[i+sh]
			keep[i] = keep[i] || s.keep[i+sh]
			if i+sh < len(s.stores) {
				stores[i] |= unshift(s.stores[i+sh], sh)
			}
		}
		for i := 0; i < len(rk) && i < len(s.res); i++ {
			roots := s.res[i].roots
			if sh == 1 {
				r2 := roots & opaqueBit
				if roots&1 != 0 {
					r2 |= opaqueBit // a view of the bound receiver
				}
				r2 |= (roots &^ opaqueBit) >> 1
				roots = r2
			}
			res[i].roots |= roots
			res[i].seen = res[i].seen || s.res[i].seen
			res[i].tracked = res[i].tracked || s.res[i].tracked
		}
	}
	eff := t.sub(func() { t.applyEffects(call, args, mut, keep, stores) })
	t.emit(&node{op: "call", callees: keys, shifts: shifts, cargs: args, kids: []*node{eff}, pos: -1, line: ln})
	rts := t.resultTypes(call)
	for i := range rk {
		if rk[i] != kSlice && rk[i] != kObj {
			continue
		}
		out[i] = t.resultReg(call, rts[i], res[i], args)
	}
	return out, true
}
