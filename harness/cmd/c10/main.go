// Command c10 runs the real tink-go code on cases of property C10.
package main

import (
	"github.com/tink-crypto/tink-go/v2/verifharness/hx"
	_ "github.com/tink-crypto/tink-go/v2/verifharness/p/c10"
)

func main() { hx.CLI("C10") }
