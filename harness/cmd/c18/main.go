// Command c18 runs the real tink-go code on cases of property C18.
package main

import (
	"github.com/tink-crypto/tink-go/v2/verifharness/hx"
	_ "github.com/tink-crypto/tink-go/v2/verifharness/p/c18"
)

func main() { hx.CLI("C18") }
