package main

import (
	"fmt"

	"github.com/tink-crypto/tink-go/v2/internal/protoserialization"
	"github.com/tink-crypto/tink-go/v2/jwt/jwtecdsa"
	"github.com/tink-crypto/tink-go/v2/jwt/jwthmac"
	"github.com/tink-crypto/tink-go/v2/jwt/jwtmldsa"
	"github.com/tink-crypto/tink-go/v2/jwt/jwtrsassapkcs1"
	"github.com/tink-crypto/tink-go/v2/jwt/jwtrsassapss"
	"github.com/tink-crypto/tink-go/v2/key"
)

func try(name string, p key.Parameters, err error) {
	if err != nil {
		fmt.Println(name, "NewParameters error:", err)
		return
	}
	t, err := protoserialization.SerializeParameters(p)
	if err != nil {
		fmt.Println(name, "SerializeParameters error:", err)
		return
	}
	p2, err := protoserialization.ParseParameters(t)
	if err != nil {
		fmt.Println(name, "ParseParameters error:", err)
		return
	}
	fmt.Println(name, "template prefix", t.OutputPrefixType, "Equal:", p2.Equal(p), p.Equal(p2))
}

func main() {
	p1, err := jwtecdsa.NewParameters(jwtecdsa.CustomKID, jwtecdsa.ES256)
	try("jwtecdsa", p1, err)
	p2, err := jwthmac.NewParameters(32, jwthmac.CustomKID, jwthmac.HS256)
	try("jwthmac", p2, err)
	p3, err := jwtmldsa.NewParameters(jwtmldsa.CustomKID, jwtmldsa.MLDSA65)
	try("jwtmldsa", p3, err)
	p4, err := jwtrsassapkcs1.NewParameters(jwtrsassapkcs1.ParametersOpts{ModulusSizeInBits: 2048, PublicExponent: 65537, Algorithm: jwtrsassapkcs1.RS256, KidStrategy: jwtrsassapkcs1.CustomKID})
	try("jwtrsassapkcs1", p4, err)
	p5, err := jwtrsassapss.NewParameters(jwtrsassapss.ParametersOpts{ModulusSizeInBits: 2048, PublicExponent: 65537, Algorithm: jwtrsassapss.PS256, KidStrategy: jwtrsassapss.CustomKID})
	try("jwtrsassapss", p5, err)
}
