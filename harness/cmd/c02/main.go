// Command c02 runs the real tink-go code on cases of property C02.
package main

import (
	"github.com/tink-crypto/tink-go/v2/verifharness/hx"
	_ "github.com/tink-crypto/tink-go/v2/verifharness/p/c02"
)

func main() { hx.CLI("C02") }
