// Command gen runs the real tink-go code (from /repo's working tree) on
// generated cases of one property and writes inputs and observations.
package main

import (
	"flag"
	"fmt"
	"os"

	"github.com/tink-crypto/tink-go/v2/verifharness/hx"
	_ "github.com/tink-crypto/tink-go/v2/verifharness/props"
)

func main() {
	prop := flag.String("prop", "", "property id")
	seed := flag.Uint64("seed", 1, "seed")
	n := flag.Int("n", 100, "number of generated cases")
	tier := flag.String("tier", "quick", "tier")
	out := flag.String("out", "", "output directory")
	corpus := flag.String("corpus", "", "corpus file of case lines run first")
	single := flag.String("case", "", "run exactly this case line")
	flag.Parse()
	if err := hx.Main(*prop, *seed, *n, *tier, *out, *corpus, *single); err != nil {
		fmt.Fprintln(os.Stderr, err)
		os.Exit(2)
	}
}
