// c08carry: one-off search for AES-SIV inputs whose synthetic IV ends in ff, ffff, ffffff, so that
// the CTR counter carries across 1, 2 and 3 bytes within a short message.  Prints C08 corpus
// lines.  Independent RFC 5297 S2V over crypto/aes (stdlib only).
package main

import (
	"crypto/aes"
	"crypto/cipher"
	"encoding/binary"
	"encoding/hex"
	"fmt"
)

func dbl(b [16]byte) [16]byte {
	var o [16]byte
	c := b[0] >> 7
	for i := 0; i < 15; i++ {
		o[i] = b[i]<<1 | b[i+1]>>7
	}
	o[15] = b[15] << 1
	if c == 1 {
		o[15] ^= 0x87
	}
	return o
}

type cmac struct {
	c      cipher.Block
	k1, k2 [16]byte
}

func newCMAC(key []byte) *cmac {
	c, _ := aes.NewCipher(key)
	var l [16]byte
	c.Encrypt(l[:], l[:])
	m := &cmac{c: c}
	m.k1 = dbl(l)
	m.k2 = dbl(m.k1)
	return m
}

func (m *cmac) sum(msg []byte) [16]byte {
	var x [16]byte
	n := (len(msg) + 15) / 16
	if n == 0 {
		n = 1
	}
	for i := 0; i < n-1; i++ {
		for j := 0; j < 16; j++ {
			x[j] ^= msg[16*i+j]
		}
		m.c.Encrypt(x[:], x[:])
	}
	last := msg[16*(n-1):]
	var lb [16]byte
	if len(last) == 16 {
		copy(lb[:], last)
		for j := 0; j < 16; j++ {
			lb[j] ^= m.k1[j]
		}
	} else {
		copy(lb[:], last)
		lb[len(last)] = 0x80
		for j := 0; j < 16; j++ {
			lb[j] ^= m.k2[j]
		}
	}
	for j := 0; j < 16; j++ {
		x[j] ^= lb[j]
	}
	m.c.Encrypt(x[:], x[:])
	return x
}

func s2v(m *cmac, ad, pt []byte) [16]byte {
	var zero [16]byte
	d := m.sum(zero[:])
	d = dbl(d)
	a := m.sum(ad)
	for j := 0; j < 16; j++ {
		d[j] ^= a[j]
	}
	var t []byte
	if len(pt) >= 16 {
		t = append([]byte{}, pt...)
		for j := 0; j < 16; j++ {
			t[len(t)-16+j] ^= d[j]
		}
	} else {
		d = dbl(d)
		var p [16]byte
		copy(p[:], pt)
		p[len(pt)] = 0x80
		for j := 0; j < 16; j++ {
			p[j] ^= d[j]
		}
		t = p[:]
	}
	return m.sum(t)
}

func main() {
	key := make([]byte, 64)
	for i := range key {
		key[i] = byte(0x40 + i)
	}
	m := newCMAC(key[:32])
	pt := make([]byte, 70) // 5 counter blocks
	for i := range pt {
		pt[i] = byte(i*7 + 1)
	}
	ad := make([]byte, 8)
	found := map[int]int{}
	want := map[int]int{1: 3, 2: 3, 3: 2}
	for ctr := uint64(0); ; ctr++ {
		binary.BigEndian.PutUint64(ad, ctr)
		v := s2v(m, ad, pt)
		k := 0
		// the counter must wrap within the 5 blocks: low bytes >= ..fc
		switch {
		case v[13] == 0xff && v[14] == 0xff && v[15] >= 0xfc:
			k = 3
		case v[14] == 0xff && v[15] >= 0xfc:
			k = 2
		case v[15] >= 0xfc:
			k = 1
		}
		if k > 0 && found[k] < want[k] {
			found[k]++
			fmt.Printf("# synthetic IV %s: the CTR counter carries across %d byte(s) inside the message\n", hex.EncodeToString(v[:]), k)
			for _, api := range []string{"sub", "key"} {
				fmt.Printf("C08|siv|%s|R|0|%s|%s|%s|flip:0:1\n", api, hex.EncodeToString(key), hex.EncodeToString(pt), hex.EncodeToString(ad))
			}
		}
		if found[1] >= want[1] && found[2] >= want[2] && found[3] >= want[3] {
			break
		}
	}
}
