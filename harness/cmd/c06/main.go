// Command c06 runs the real tink-go code on cases of property C06.
package main

import (
	"github.com/tink-crypto/tink-go/v2/verifharness/hx"
	_ "github.com/tink-crypto/tink-go/v2/verifharness/p/c06"
)

func main() { hx.CLI("C06") }
