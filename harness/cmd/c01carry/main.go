// c01carry: one-off search for AES-GCM-SIV (RFC 8452) inputs whose tag makes the 32-bit
// little-endian CTR counter carry across 1, 2, 3 bytes and WRAP modulo 2^32 inside a short
// message.  Uses the library only to find inputs; prints C01 corpus lines
// (C01|siv|S|R|0|-|key|iv|iv2|pt|ad with iv = iv2 = the nonce found).
package main

import (
	"encoding/hex"
	"fmt"
	"os"
	"sync"
	"time"

	aeadsubtle "github.com/tink-crypto/tink-go/v2/aead/subtle"
)

func main() {
	key := make([]byte, 32)
	for i := range key {
		key[i] = byte(0x21 + 3*i)
	}
	pt := make([]byte, 70)
	for i := range pt {
		pt[i] = byte(i*5 + 2)
	}
	ad := []byte("carry")
	want := map[int]int{1: 2, 2: 2, 3: 2, 4: 1}
	var mu sync.Mutex
	found := map[int]int{}
	deadline := time.Now().Add(12 * time.Minute)
	done := func() bool {
		mu.Lock()
		defer mu.Unlock()
		for k, w := range want {
			if found[k] < w {
				return false
			}
		}
		return true
	}
	var wg sync.WaitGroup
	for g := 0; g < 16; g++ {
		wg.Add(1)
		go func() {
			defer wg.Done()
			a, err := aeadsubtle.NewAESGCMSIV(key)
			if err != nil {
				panic(err)
			}
			for n := 0; ; n++ {
				if n%4096 == 0 && (done() || time.Now().After(deadline)) {
					return
				}
				ct, err := a.Encrypt(pt, ad)
				if err != nil {
					panic(err)
				}
				tag := ct[len(ct)-16:]
				if tag[0] < 0xfc {
					continue
				}
				k := 1
				if tag[1] == 0xff {
					k = 2
					if tag[2] == 0xff {
						k = 3
						if tag[3] == 0xff {
							k = 4
						}
					}
				}
				mu.Lock()
				if found[k] < want[k] {
					found[k]++
					what := fmt.Sprintf("carries across %d byte(s)", k)
					if k == 4 {
						what = "WRAPS modulo 2^32"
					}
					fmt.Printf("# tag %s: the little-endian 32-bit counter %s inside the message\n", hex.EncodeToString(tag), what)
					nonce := hex.EncodeToString(ct[:12])
					fmt.Printf("C01|siv|S|R|0|-|%s|%s|%s|%s|%s\n", hex.EncodeToString(key), nonce, nonce, hex.EncodeToString(pt), hex.EncodeToString(ad))
					os.Stdout.Sync()
				}
				mu.Unlock()
			}
		}()
	}
	wg.Wait()
}
