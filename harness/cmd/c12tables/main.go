// Command c12tables regenerates coq/model/SerialTables.v: every enum map of
// the per-type protoserialization.go files of tink-go (functions whose body
// is one switch over an enum returning constants) as a plain association
// list, plus, per key type URL, which pair of maps translates OutputPrefixType
// <-> variant.  Development-time tool of property C12 (the lead's translator
// is meant to take this over); stdlib only (go/parser + go/types with the
// source importer).  Run from inside the repository:
//
//	cd /repo && GOFLAGS=-mod=mod GOPROXY=off /path/to/c12tables -repo /repo > SerialTables.v
package main

import (
	"flag"
	"fmt"
	"go/ast"
	"go/constant"
	"go/importer"
	"go/parser"
	"go/token"
	"go/types"
	"os"
	"path/filepath"
	"sort"
	"strings"
)

type table struct {
	name    string // coq name
	fn      string
	pkg     string
	entries [][2]string
	comment []string
}

func main() {
	repo := flag.String("repo", "/repo", "tink-go tree")
	flag.Parse()
	files, _ := filepath.Glob(filepath.Join(*repo, "*/*/protoserialization.go"))
	sort.Strings(files)
	var out strings.Builder
	out.WriteString("(* Enum maps of tink-go's */*/protoserialization.go as association lists\n   (key = the switch tag's constant value, value = the returned constant).\n   Produced by harness/cmd/c12tables from the Go switch statements; plain data,\n   meant to be regenerated.  Every proof about these tables\n   (proofs/SerialTablesProofs.v) is by computation, so it re-checks when a\n   table changes. *)\nFrom Coq Require Import List NArith.\nImport ListNotations.\nOpen Scope N_scope.\n\n")
	type pkgrec struct {
		name       string
		urls       []string
		urlNames   []string
		toProto    string
		fromProto  string
		fromProto2 string
		customKID  string
		tables     []string
	}
	var pkgs []pkgrec
	var allpairs []string
	for _, f := range files {
		dir := filepath.Dir(f)
		rel, _ := filepath.Rel(*repo, dir)
		if rel == "internal/protoserialization" {
			continue
		}
		cname := strings.ReplaceAll(rel, "/", "_")
		fset := token.NewFileSet()
		parsed, err := parser.ParseDir(fset, dir, func(fi os.FileInfo) bool {
			return !strings.HasSuffix(fi.Name(), "_test.go")
		}, 0)
		if err != nil {
			panic(err)
		}
		var afiles []*ast.File
		var target *ast.File
		for _, p := range parsed {
			if strings.HasSuffix(p.Name, "_test") {
				continue
			}
			var names []string
			for n := range p.Files {
				names = append(names, n)
			}
			sort.Strings(names)
			for _, n := range names {
				afiles = append(afiles, p.Files[n])
				if filepath.Base(n) == "protoserialization.go" {
					target = p.Files[n]
				}
			}
		}
		info := &types.Info{Types: map[ast.Expr]types.TypeAndValue{}, Defs: map[*ast.Ident]types.Object{}, Uses: map[*ast.Ident]types.Object{}}
		conf := types.Config{Importer: importer.ForCompiler(fset, "source", nil), Error: func(error) {}}
		tp, _ := conf.Check(rel, fset, afiles, info)
		rec := pkgrec{name: cname}
		// type URLs: string constants of the package
		if tp != nil {
			sc := tp.Scope()
			for _, n := range sc.Names() {
				if c, ok := sc.Lookup(n).(*types.Const); ok && n == "CustomKID" && c.Val().Kind() == constant.Int {
					rec.customKID = c.Val().ExactString()
				}
				if c, ok := sc.Lookup(n).(*types.Const); ok && c.Val().Kind() == constant.String {
					s := constant.StringVal(c.Val())
					if strings.HasPrefix(s, "type.googleapis.com/") {
						rec.urls = append(rec.urls, s)
						rec.urlNames = append(rec.urlNames, n)
					}
				}
			}
		}
		cval := func(e ast.Expr) (string, string, bool) {
			tv, ok := info.Types[e]
			if !ok || tv.Value == nil || tv.Value.Kind() != constant.Int {
				return "", "", false
			}
			return tv.Value.ExactString(), types.ExprString(e), true
		}
		for _, d := range target.Decls {
			fd, ok := d.(*ast.FuncDecl)
			if !ok || fd.Recv != nil || fd.Body == nil || len(fd.Body.List) == 0 {
				continue
			}
			sw, ok := fd.Body.List[0].(*ast.SwitchStmt)
			if !ok || sw.Tag == nil || sw.Init != nil {
				continue
			}
			// one table, or two when a case body is `if flag { return A }; return B`
			tabs := map[string]*table{}
			get := func(suffix string) *table {
				if t, ok := tabs[suffix]; ok {
					return t
				}
				t := &table{name: cname + "_" + fd.Name.Name + suffix, fn: fd.Name.Name, pkg: rel}
				tabs[suffix] = t
				return t
			}
			okAll := true
			split := false
			type ent struct {
				keys            [][2]string
				val, valT, valF [2]string
				cond            bool
			}
			var ents []ent
			for _, cc := range sw.Body.List {
				c := cc.(*ast.CaseClause)
				if c.List == nil {
					continue // default: not part of the map
				}
				var e ent
				for _, k := range c.List {
					v, s, ok := cval(k)
					if !ok {
						okAll = false
					}
					e.keys = append(e.keys, [2]string{v, s})
				}
				switch len(c.Body) {
				case 1:
					r, ok := c.Body[0].(*ast.ReturnStmt)
					if !ok || len(r.Results) == 0 {
						okAll = false
						break
					}
					v, s, ok2 := cval(r.Results[0])
					if !ok2 {
						okAll = false
					}
					e.val = [2]string{v, s}
				case 2:
					ifs, ok1 := c.Body[0].(*ast.IfStmt)
					r2, ok2 := c.Body[1].(*ast.ReturnStmt)
					if !ok1 || !ok2 || ifs.Else != nil || len(ifs.Body.List) != 1 {
						okAll = false
						break
					}
					r1, ok3 := ifs.Body.List[0].(*ast.ReturnStmt)
					if !ok3 {
						okAll = false
						break
					}
					v1, s1, o1 := cval(r1.Results[0])
					v2, s2, o2 := cval(r2.Results[0])
					if !o1 || !o2 {
						okAll = false
					}
					e.cond, e.valT, e.valF = true, [2]string{v1, s1}, [2]string{v2, s2}
					split = true
				default:
					okAll = false
				}
				ents = append(ents, e)
			}
			if !okAll || len(ents) == 0 {
				continue
			}
			sufs := []string{""}
			if split {
				sufs = []string{"_true", "_false"}
			}
			for _, suf := range sufs {
				t := get(suf)
				for _, e := range ents {
					val := e.val
					if e.cond {
						if suf == "_true" {
							val = e.valT
						} else {
							val = e.valF
						}
					}
					for _, k := range e.keys {
						t.entries = append(t.entries, [2]string{k[0], val[0]})
						t.comment = append(t.comment, k[1]+" -> "+val[1])
					}
				}
				fmt.Fprintf(&out, "(* %s/protoserialization.go func %s%s:\n", rel, fd.Name.Name, strings.ReplaceAll(suf, "_", " second argument "))
				for _, c := range t.comment {
					fmt.Fprintf(&out, "     %s\n", c)
				}
				out.WriteString("*)\n")
				fmt.Fprintf(&out, "Definition %s : list (N * N) := [", t.name)
				for i, e := range t.entries {
					if i > 0 {
						out.WriteString("; ")
					}
					fmt.Fprintf(&out, "(%s, %s)", e[0], e[1])
				}
				out.WriteString("].\n\n")
				rec.tables = append(rec.tables, t.name)
			}
		}
		// which pair maps prefix <-> variant / KID strategy
		for _, t := range rec.tables {
			base := strings.TrimPrefix(t, cname+"_")
			switch base {
			case "protoOutputPrefixTypeFromVariant", "outputPrefixTypeFromKIDStrategy":
				rec.toProto = t
			case "variantFromProto", "protoOutputPrefixTypeToVariant", "kidStrategyFromOutputPrefixType_false":
				rec.fromProto = t
			case "kidStrategyFromOutputPrefixType_true":
				rec.fromProto2 = t
			}
		}
		pkgs = append(pkgs, rec)
	}
	// enum-map pairs (Go enum -> proto enum, proto enum -> Go enum) by function
	// name, listed for the round-trip lemmas; the flag marks OutputPrefixType maps
	namePairs := [][2]string{
		{"protoOutputPrefixTypeFromVariant", "variantFromProto"},
		{"protoOutputPrefixTypeFromVariant", "protoOutputPrefixTypeToVariant"},
		{"hashTypeToProto", "hashTypeFromProto"}, {"protoHashTypeFromHashType", "hashTypeFromProto"},
		{"protoHashValueFromHashType", "hashTypeFromProto"}, {"toProtoHashType", "fromProtoHashType"},
		{"protoSlhDsaHashTypeFromHashType", "hashTypeFromProto"},
		{"protoSlhDsaSignatureTypeFromSignatureType", "signatureTypeFromProto"},
		{"protoCurveFromCurveType", "curveTypeFromProto"},
		{"protoEcPointFormatFromPointFormat", "pointFormatFromProtoPointFormat"},
		{"protoEcdsaSignatureEncodingFromSignatureEncoding", "signatureEncodingFromProto"},
		{"serializeKEMID", "parseKEMID"}, {"serializeAEADID", "parseAEADID"}, {"serializedKDFID", "parseKDFID"},
		{"algorithmToProto", "algorithmFromProto"},
		{"protoMlDsaInstanceFromInstance", "instanceFromProto"},
		{"protoCompositeMlDsaClassicalAlgorithmFromCompositeMlDsaClassicalAlgorithm", "classicalAlgorithmFromProto"},
	}
	paired := map[string]bool{}
	for _, p := range pkgs {
		has := map[string]bool{}
		for _, t := range p.tables {
			has[t] = true
		}
		for _, np := range namePairs {
			a, b := p.name+"_"+np[0], p.name+"_"+np[1]
			if has[a] && has[b] {
				flag := "false"
				if strings.Contains(np[0], "OutputPrefixType") {
					flag = "true"
				}
				allpairs = append(allpairs, fmt.Sprintf("(%s, %s, %s)", flag, a, b))
				paired[a], paired[b] = true, true
			}
		}
	}
	out.WriteString("(* (is it an OutputPrefixType map?, Go enum -> proto enum, proto enum -> Go enum), paired by function name *)\n")
	out.WriteString("Definition enum_map_pairs : list (bool * list (N * N) * list (N * N)) := [\n  " + strings.Join(allpairs, ";\n  ") + "].\n\n")
	out.WriteString("(* tables that are not one half of a pair above (size tables, the JWT KID-strategy maps) *)\n")
	var unp []string
	for _, p := range pkgs {
		for _, t := range p.tables {
			if !paired[t] {
				unp = append(unp, t)
			}
		}
	}
	out.WriteString("Definition unpaired_tables : list (list (N * N)) := [\n  " + strings.Join(unp, ";\n  ") + "].\n\n")
	out.WriteString("(* ---- per key type URL: (url as bytes, (kind, (custom, (variant -> prefix map, (prefix -> variant map, prefix -> variant map when a custom kid is present))))).\n   kind 0: the maps are used.  Types without variants compare the prefix with RAW (3)\n   directly (PRFs: raw_only maps) or copy it from the derived key template (key\n   derivation: identity maps).  kind 1: the key parser never looks at the prefix\n   and the serializer always emits RAW with id 0 (streaming AEADs).  kind 2: JWT\n   types, whose KID strategy also depends on the presence of a custom kid;\n   custom = the constant CustomKID of the package. ---- *)\n")
	out.WriteString("Definition raw_only_to : list (N * N) := [(0, 3)].\nDefinition raw_only_from : list (N * N) := [(3, 0)].\n")
	out.WriteString("Definition prefix_identity : list (N * N) := [(1, 1); (2, 2); (3, 3); (4, 4)].\n\n")
	out.WriteString("Definition prefix_maps : list (list N * (N * (N * (list (N * N) * (list (N * N) * list (N * N)))))) := [\n")
	first := true
	for _, p := range pkgs {
		to, from, from2, kind, custom := p.toProto, p.fromProto, p.fromProto, "0", "0"
		if p.fromProto2 != "" {
			from2, kind, custom = p.fromProto2, "2", p.customKID
		}
		if to == "" || from == "" {
			src, _ := os.ReadFile(filepath.Join(*repo, strings.Replace(p.name, "_", "/", 1), "protoserialization.go"))
			switch {
			case strings.Contains(string(src), "keySerialization.OutputPrefixType() != tinkpb.OutputPrefixType_RAW"):
				to, from, from2 = "raw_only_to", "raw_only_from", "raw_only_from"
			case strings.Contains(string(src), "derivedKeyTemplate.GetOutputPrefixType()"):
				to, from, from2 = "prefix_identity", "prefix_identity", "prefix_identity"
			default:
				to, from, from2, kind = "raw_only_to", "raw_only_from", "raw_only_from", "1"
			}
		}
		for i, u := range p.urls {
			if !first {
				out.WriteString(";\n")
			}
			first = false
			var bs []string
			for _, ch := range []byte(u) {
				bs = append(bs, fmt.Sprint(ch))
			}
			fmt.Fprintf(&out, "  (* %s %s = %q *)\n  ([%s], (%s, (%s, (%s, (%s, %s)))))", p.name, p.urlNames[i], u, strings.Join(bs, ";"), kind, custom, to, from, from2)
		}
	}
	out.WriteString("].\n\n")
	out.WriteString("(* JWT: (CustomKID constant, KID strategy -> prefix, prefix -> strategy without / with a custom kid) *)\n")
	out.WriteString("Definition jwt_custom_kid_maps : list (N * list (N * N) * list (N * N) * list (N * N)) := [")
	first = true
	for _, p := range pkgs {
		if p.fromProto2 != "" {
			if !first {
				out.WriteString("; ")
			}
			first = false
			fmt.Fprintf(&out, "\n  (%s, %s, %s, %s)", p.customKID, p.toProto, p.fromProto, p.fromProto2)
		}
	}
	out.WriteString("].\n\n")
	out.WriteString("(* every table, by name order, for the generic lemmas *)\nDefinition all_tables : list (list (N * N)) := [")
	first = true
	for _, p := range pkgs {
		for _, t := range p.tables {
			if !first {
				out.WriteString("; ")
			}
			first = false
			out.WriteString("\n  " + t)
		}
	}
	out.WriteString("].\n")
	fmt.Print(out.String())
}
