// Command c17 runs the real tink-go code on cases of property C17.
package main

import (
	"github.com/tink-crypto/tink-go/v2/verifharness/hx"
	_ "github.com/tink-crypto/tink-go/v2/verifharness/p/c17"
)

func main() { hx.CLI("C17") }
