// Command c19 runs the real tink-go code on cases of property C19.
package main

import (
	"github.com/tink-crypto/tink-go/v2/verifharness/hx"
	_ "github.com/tink-crypto/tink-go/v2/verifharness/p/c19"
)

func main() { hx.CLI("C19") }
