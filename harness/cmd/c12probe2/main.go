// c12probe2: does a handle holding an ML-DSA key of variant
// NoPrefixWithPrehashID (OutputPrefixType WITH_ID_REQUIREMENT = 5) survive
// insecurecleartextkeyset.Write / Read?
package main

import (
	"bytes"
	"fmt"

	"github.com/tink-crypto/tink-go/v2/aead/subtle"
	"github.com/tink-crypto/tink-go/v2/insecurecleartextkeyset"
	"github.com/tink-crypto/tink-go/v2/keyset"
	"github.com/tink-crypto/tink-go/v2/signature"
	"github.com/tink-crypto/tink-go/v2/signature/mldsa"
)

func main() {
	for _, v := range []mldsa.Variant{mldsa.VariantTink, mldsa.VariantNoPrefix, mldsa.VariantNoPrefixWithPrehashID} {
		p, err := mldsa.NewParameters(mldsa.MLDSA65, v)
		if err != nil {
			fmt.Println(v, "NewParameters:", err)
			continue
		}
		km := keyset.NewManager()
		id, err := km.AddNewKeyFromParameters(p)
		if err != nil {
			fmt.Println(v, "AddNewKeyFromParameters:", err)
			continue
		}
		if err := km.SetPrimary(id); err != nil {
			fmt.Println(v, "SetPrimary:", err)
			continue
		}
		h, err := km.Handle()
		if err != nil {
			fmt.Println(v, "Handle:", err)
			continue
		}
		if _, err := signature.NewSigner(h); err != nil {
			fmt.Println(v, "NewSigner on the original handle:", err)
		} else {
			fmt.Println(v, "NewSigner on the original handle: ok")
		}
		buf := &bytes.Buffer{}
		if err := insecurecleartextkeyset.Write(h, keyset.NewBinaryWriter(buf)); err != nil {
			fmt.Println(v, "Write:", err)
			continue
		}
		fmt.Println(v, "Write: ok,", buf.Len(), "bytes")
		h2, err := insecurecleartextkeyset.Read(keyset.NewBinaryReader(bytes.NewBuffer(buf.Bytes())))
		if err != nil {
			fmt.Println(v, "Read of the bytes just written FAILS:", err)
		} else {
			e, _ := h2.Entry(0)
			e0, _ := h.Entry(0)
			fmt.Println(v, "Read: ok, key Equal:", e.Key().Equal(e0.Key()))
		}
		// JSON writer/reader and the encrypted form go through the same Validate
		jbuf := &bytes.Buffer{}
		if err := insecurecleartextkeyset.Write(h, keyset.NewJSONWriter(jbuf)); err != nil {
			fmt.Println(v, "JSON Write:", err)
		} else if _, err := insecurecleartextkeyset.Read(keyset.NewJSONReader(bytes.NewBuffer(jbuf.Bytes()))); err != nil {
			fmt.Println(v, "JSON Read of the bytes just written FAILS:", err)
		} else {
			fmt.Println(v, "JSON Read: ok")
		}
		kek, err := subtle.NewAESGCM(make([]byte, 16))
		if err != nil {
			panic(err)
		}
		ebuf := &bytes.Buffer{}
		if err := h.WriteWithAssociatedData(keyset.NewBinaryWriter(ebuf), kek, []byte("ad")); err != nil {
			fmt.Println(v, "WriteWithAssociatedData:", err)
		} else if _, err := keyset.ReadWithAssociatedData(keyset.NewBinaryReader(bytes.NewBuffer(ebuf.Bytes())), kek, []byte("ad")); err != nil {
			fmt.Println(v, "ReadWithAssociatedData of the bytes just written FAILS:", err)
		} else {
			fmt.Println(v, "encrypted Read: ok")
		}
		hp, err := h.Public()
		if err != nil {
			fmt.Println(v, "Public:", err)
			continue
		}
		pbuf := &bytes.Buffer{}
		if err := hp.WriteWithNoSecrets(keyset.NewBinaryWriter(pbuf)); err != nil {
			fmt.Println(v, "WriteWithNoSecrets:", err)
			continue
		}
		if _, err := keyset.ReadWithNoSecrets(keyset.NewBinaryReader(bytes.NewBuffer(pbuf.Bytes()))); err != nil {
			fmt.Println(v, "ReadWithNoSecrets of the bytes just written FAILS:", err)
		} else {
			fmt.Println(v, "public Read: ok")
		}
	}
}
