// Command c14 runs the real tink-go code on cases of property C14.
package main

import (
	"github.com/tink-crypto/tink-go/v2/verifharness/hx"
	_ "github.com/tink-crypto/tink-go/v2/verifharness/p/c14"
)

func main() { hx.CLI("C14") }
