// Command c15 runs the real tink-go code on cases of property C15.
package main

import (
	"github.com/tink-crypto/tink-go/v2/verifharness/hx"
	_ "github.com/tink-crypto/tink-go/v2/verifharness/p/c15"
)

func main() { hx.CLI("C15") }
