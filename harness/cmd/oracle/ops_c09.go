package main

import (
	"math"
	"strconv"
)

// C09 (JSON text layer): the float64 view of one JSON number literal, from
// strconv only.  Reply "<int64(f)>x<hex of the shortest decimal text of f>",
// the text being "-" (empty) when f is an integer below 2^53 in magnitude;
// ERR when ParseFloat reports an error (value out of range).  The model asks
// only for literals it does not decide itself (coq/model/Json.v lit_class =
// NCOracle): values that are not integers, integers of magnitude 2^53 and up
// below the overflow bound, and literals outside the digit budget of the model's
// exact decisions: an integer part of more than 800 digits, or a non-zero
// mantissa with an exponent of magnitude >= 10000 (there strconv does not read
// the literal's true value, and the model follows it).  Integers below 2^53 in ANY spelling (1700003600.0, 17000036e2,
// 1.7000036E+9), zeros, underflows and overflows never come here (the OCaml
// handler fails if they do).  int64(f) for |f| >= 2^63 is whatever this
// platform's conversion yields: the harness computes it the same way.
func init() {
	ops["json_num"] = func(a []string) string { // literal
		f, err := strconv.ParseFloat(string(uh(a[0])), 64)
		if err != nil {
			return "ERR"
		}
		repr := "-"
		if !(f == math.Trunc(f) && math.Abs(f) < 1<<53) {
			repr = hx([]byte(strconv.FormatFloat(f, 'g', -1, 64)))
		}
		return strconv.FormatInt(int64(f), 10) + "x" + repr
	}
}
