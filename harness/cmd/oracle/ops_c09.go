package main

import (
	"math"
	"strconv"
)

// C09 (JSON text layer): the float64 view of one JSON number literal, from
// strconv only.  Reply "<int64(f)>x<hex of the shortest decimal text of f>",
// the text being "-" (empty) when f is an integer below 2^53 in magnitude;
// ERR when ParseFloat reports an error (value out of range).  The model asks
// only for literals that its own exact path (integer literal of magnitude
// below 2^53) does not cover.
func init() {
	ops["json_num"] = func(a []string) string { // literal
		f, err := strconv.ParseFloat(string(uh(a[0])), 64)
		if err != nil {
			return "ERR"
		}
		repr := "-"
		if !(f == math.Trunc(f) && math.Abs(f) < 1<<53) {
			repr = hx([]byte(strconv.FormatFloat(f, 'g', -1, 64)))
		}
		return strconv.FormatInt(int64(f), 10) + "x" + repr
	}
}
