package main

import (
	"crypto"
	"crypto/ecdh"
	"crypto/rand"
	"crypto/rsa"
	"math/big"
	"strconv"
)

// C14: what the key parsers of tink-go ask of the standard library
// (crypto/ecdh, crypto/rsa only; nothing from tink-go).

func c14Curve(n string) ecdh.Curve {
	switch n {
	case "p256":
		return ecdh.P256()
	case "p384":
		return ecdh.P384()
	case "p521":
		return ecdh.P521()
	case "x25519":
		return ecdh.X25519()
	}
	panic("curve " + n)
}

func c14RSAKey(a []string) *rsa.PrivateKey {
	e, err := strconv.Atoi(a[1])
	if err != nil {
		panic(err)
	}
	return &rsa.PrivateKey{
		PublicKey: rsa.PublicKey{N: new(big.Int).SetBytes(uh(a[0])), E: e},
		D:         new(big.Int).SetBytes(uh(a[2])),
		Primes:    []*big.Int{new(big.Int).SetBytes(uh(a[3])), new(big.Int).SetBytes(uh(a[4]))},
	}
}

func init() {
	// "c14_ecdh_point curve point": curve.NewPublicKey(point) succeeds
	ops["c14_ecdh_point"] = func(a []string) string {
		if _, err := c14Curve(a[0]).NewPublicKey(uh(a[1])); err != nil {
			return "00"
		}
		return "01"
	}
	// "c14_ecdh_pub curve priv": curve.NewPrivateKey(priv).PublicKey().Bytes()
	ops["c14_ecdh_pub"] = func(a []string) string {
		sk, err := c14Curve(a[0]).NewPrivateKey(uh(a[1]))
		if err != nil {
			return "ERR"
		}
		return hx(sk.PublicKey().Bytes())
	}
	// "c14_rsa_crt n e d p q" (e decimal): Validate() succeeds; after
	// Precompute() the reply is "dp,dq,qinv" (big.Int.Bytes() each)
	ops["c14_rsa_crt"] = func(a []string) string {
		k := c14RSAKey(a)
		if err := k.Validate(); err != nil {
			return "ERR"
		}
		k.Precompute()
		return hx(k.Precomputed.Dp.Bytes()) + "," + hx(k.Precomputed.Dq.Bytes()) + "," + hx(k.Precomputed.Qinv.Bytes())
	}
	// "c14_rsa_selfcheck <pkcs1|pss> hash salt n e d p q": a signature over
	// "Tink and Wycheproof." made with the key verifies under (n, e)
	ops["c14_rsa_selfcheck"] = func(a []string) string {
		hf, hid := hashByName(a[1])
		salt, err := strconv.Atoi(a[2])
		if err != nil {
			panic(err)
		}
		k := c14RSAKey(a[3:])
		if k.Validate() != nil {
			return "00"
		}
		k.Precompute()
		h := hf()
		h.Write([]byte("Tink and Wycheproof."))
		digest := h.Sum(nil)
		var hidc crypto.Hash = hid
		if a[0] == "pss" {
			sig, err := rsa.SignPSS(rand.Reader, k, hidc, digest, &rsa.PSSOptions{SaltLength: salt})
			if err != nil {
				return "00"
			}
			if rsa.VerifyPSS(&k.PublicKey, hidc, digest, sig, &rsa.PSSOptions{SaltLength: salt}) != nil {
				return "00"
			}
			return "01"
		}
		sig, err := rsa.SignPKCS1v15(rand.Reader, k, hidc, digest)
		if err != nil {
			return "00"
		}
		if rsa.VerifyPKCS1v15(&k.PublicKey, hidc, digest, sig) != nil {
			return "00"
		}
		return "01"
	}
}
