// Command oracle answers requests for standard algorithms from the Go
// standard library and x/crypto only; it imports nothing from tink-go - with
// ONE exception, ops_c14mldsa.go ("c14_mldsa_pub": the public key of an ML-DSA
// seed, for which the standard library has no implementation; used by the
// C13/C14 models of the ML-DSA private-key parsers only, and listed as trusted
// in their manifests).
package main

import (
	"bufio"
	"fmt"
	"os"
	"strings"
)

var ops = map[string]func(args []string) string{}

func main() {
	r := bufio.NewReaderSize(os.Stdin, 1<<20)
	w := bufio.NewWriter(os.Stdout)
	for {
		line, err := r.ReadString('\n')
		if err != nil {
			return
		}
		f := strings.Fields(line)
		res := "ERR"
		if len(f) > 0 {
			if op := ops[f[0]]; op != nil {
				res = safe(op, f[1:])
			}
		}
		fmt.Fprintln(w, res)
		w.Flush()
	}
}

func safe(op func([]string) string, a []string) (res string) {
	defer func() {
		if recover() != nil {
			res = "ERR"
		}
	}()
	return op(a)
}
