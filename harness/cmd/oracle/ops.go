package main

import (
	"crypto"
	"crypto/aes"
	"crypto/cipher"
	"crypto/ecdh"
	"crypto/ecdsa"
	"crypto/ed25519"
	"crypto/elliptic"
	"crypto/hkdf"
	"crypto/hmac"
	"crypto/mlkem"
	"crypto/rsa"
	"crypto/sha1"
	"crypto/sha256"
	"crypto/sha3"
	"crypto/sha512"
	"encoding/hex"
	"hash"
	"math/big"
	"strconv"

	"golang.org/x/crypto/chacha20poly1305"
)

func uh(s string) []byte {
	if s == "-" {
		return []byte{}
	}
	b, err := hex.DecodeString(s)
	if err != nil {
		panic(err)
	}
	return b
}
func hx(b []byte) string {
	if len(b) == 0 {
		return "-"
	}
	return hex.EncodeToString(b)
}

func hashByName(n string) (func() hash.Hash, crypto.Hash) {
	switch n {
	case "sha1":
		return sha1.New, crypto.SHA1
	case "sha224":
		return sha256.New224, crypto.SHA224
	case "sha256":
		return sha256.New, crypto.SHA256
	case "sha384":
		return sha512.New384, crypto.SHA384
	case "sha512":
		return sha512.New, crypto.SHA512
	case "sha3_256":
		return func() hash.Hash { return sha3.New256() }, crypto.SHA3_256
	case "sha3_512":
		return func() hash.Hash { return sha3.New512() }, crypto.SHA3_512
	}
	panic("hash " + n)
}

func curveByName(n string) (elliptic.Curve, ecdh.Curve) {
	switch n {
	case "p256":
		return elliptic.P256(), ecdh.P256()
	case "p384":
		return elliptic.P384(), ecdh.P384()
	case "p521":
		return elliptic.P521(), ecdh.P521()
	}
	panic("curve " + n)
}

func aead(kind string, key []byte, nonceSize int) cipher.AEAD {
	switch kind {
	case "gcm":
		b, err := aes.NewCipher(key)
		if err != nil {
			panic(err)
		}
		a, err := cipher.NewGCMWithNonceSize(b, nonceSize)
		if err != nil {
			panic(err)
		}
		return a
	case "chacha":
		a, err := chacha20poly1305.New(key)
		if err != nil {
			panic(err)
		}
		return a
	case "xchacha":
		a, err := chacha20poly1305.NewX(key)
		if err != nil {
			panic(err)
		}
		return a
	}
	panic("aead " + kind)
}

func init() {
	// block ciphers
	ops["aes_enc"] = func(a []string) string {
		b, err := aes.NewCipher(uh(a[0]))
		if err != nil {
			panic(err)
		}
		out := make([]byte, 16)
		b.Encrypt(out, uh(a[1]))
		return hx(out)
	}
	ops["aes_dec"] = func(a []string) string {
		b, err := aes.NewCipher(uh(a[0]))
		if err != nil {
			panic(err)
		}
		out := make([]byte, 16)
		b.Decrypt(out, uh(a[1]))
		return hx(out)
	}
	// hashes: "hash <name> <msg>"
	ops["hash"] = func(a []string) string {
		h, _ := hashByName(a[0])
		x := h()
		x.Write(uh(a[1]))
		return hx(x.Sum(nil))
	}
	ops["shake128"] = func(a []string) string {
		n, _ := strconv.Atoi(a[1])
		return hx(sha3.SumSHAKE128(uh(a[0]), n))
	}
	ops["shake256"] = func(a []string) string {
		n, _ := strconv.Atoi(a[1])
		return hx(sha3.SumSHAKE256(uh(a[0]), n))
	}
	// reference HMAC / HKDF (used to cross-check the Gallina transcriptions)
	ops["hmac"] = func(a []string) string {
		h, _ := hashByName(a[0])
		m := hmac.New(h, uh(a[1]))
		m.Write(uh(a[2]))
		return hx(m.Sum(nil))
	}
	ops["hkdf"] = func(a []string) string { // hkdf hash ikm salt info len
		h, _ := hashByName(a[0])
		n, _ := strconv.Atoi(a[4])
		out, err := hkdf.Key(h, uh(a[1]), uh(a[2]), string(uh(a[3])), n)
		if err != nil {
			panic(err)
		}
		return hx(out)
	}
	// AEADs: "<kind>_seal key nonce ad pt", "<kind>_open key nonce ad ct"
	for _, kind := range []string{"gcm", "chacha", "xchacha"} {
		kind := kind
		ops[kind+"_seal"] = func(a []string) string {
			n := uh(a[1])
			return hx(aead(kind, uh(a[0]), len(n)).Seal(nil, n, uh(a[3]), uh(a[2])))
		}
		ops[kind+"_open"] = func(a []string) string {
			n := uh(a[1])
			pt, err := aead(kind, uh(a[0]), len(n)).Open(nil, n, uh(a[3]), uh(a[2]))
			if err != nil {
				return "ERR"
			}
			return "ok" + hx(pt)
		}
	}
	// ECDH: "ecdh curve priv pub(uncompressed)" ; "x25519 priv pub"
	ops["ecdh"] = func(a []string) string {
		_, c := curveByName(a[0])
		sk, err := c.NewPrivateKey(uh(a[1]))
		if err != nil {
			panic(err)
		}
		pk, err := c.NewPublicKey(uh(a[2]))
		if err != nil {
			return "ERR"
		}
		ss, err := sk.ECDH(pk)
		if err != nil {
			return "ERR"
		}
		return hx(ss)
	}
	ops["ecdh_pub"] = func(a []string) string {
		_, c := curveByName(a[0])
		sk, err := c.NewPrivateKey(uh(a[1]))
		if err != nil {
			panic(err)
		}
		return hx(sk.PublicKey().Bytes())
	}
	ops["x25519"] = func(a []string) string {
		sk, err := ecdh.X25519().NewPrivateKey(uh(a[0]))
		if err != nil {
			panic(err)
		}
		pk, err := ecdh.X25519().NewPublicKey(uh(a[1]))
		if err != nil {
			return "ERR"
		}
		ss, err := sk.ECDH(pk)
		if err != nil {
			return "ERR"
		}
		return hx(ss)
	}
	ops["x25519_pub"] = func(a []string) string {
		sk, err := ecdh.X25519().NewPrivateKey(uh(a[0]))
		if err != nil {
			panic(err)
		}
		return hx(sk.PublicKey().Bytes())
	}
	// point decompression / on-curve: "ec_oncurve curve x y"
	ops["ec_oncurve"] = func(a []string) string {
		_, c := curveByName(a[0])
		p := append([]byte{4}, append(uh(a[1]), uh(a[2])...)...)
		if _, err := c.NewPublicKey(p); err != nil {
			return "00"
		}
		return "01"
	}
	ops["ec_decompress"] = func(a []string) string { // compressed point -> uncompressed
		ec, _ := curveByName(a[0])
		x, y := elliptic.UnmarshalCompressed(ec, uh(a[1]))
		if x == nil {
			return "ERR"
		}
		return hx(elliptic.Marshal(ec, x, y))
	}
	// raw signature verification
	ops["ecdsa_verify"] = func(a []string) string { // curve pub(uncompressed) digest r s
		ec, _ := curveByName(a[0])
		p := uh(a[1])
		n := (len(p) - 1) / 2
		pk := &ecdsa.PublicKey{Curve: ec, X: new(big.Int).SetBytes(p[1 : 1+n]), Y: new(big.Int).SetBytes(p[1+n:])}
		if ecdsa.Verify(pk, uh(a[2]), new(big.Int).SetBytes(uh(a[3])), new(big.Int).SetBytes(uh(a[4]))) {
			return "01"
		}
		return "00"
	}
	ops["ed25519_verify"] = func(a []string) string { // pub msg sig
		if ed25519.Verify(ed25519.PublicKey(uh(a[0])), uh(a[1]), uh(a[2])) {
			return "01"
		}
		return "00"
	}
	ops["rsa_pkcs1_verify"] = func(a []string) string { // n e hash digest sig
		_, ch := hashByName(a[2])
		e, _ := strconv.Atoi(a[1])
		pk := &rsa.PublicKey{N: new(big.Int).SetBytes(uh(a[0])), E: e}
		if rsa.VerifyPKCS1v15(pk, ch, uh(a[3]), uh(a[4])) == nil {
			return "01"
		}
		return "00"
	}
	ops["rsa_pss_verify"] = func(a []string) string { // n e hash mgfhash(=hash) saltlen digest sig
		_, ch := hashByName(a[2])
		e, _ := strconv.Atoi(a[1])
		sl, _ := strconv.Atoi(a[3])
		pk := &rsa.PublicKey{N: new(big.Int).SetBytes(uh(a[0])), E: e}
		if rsa.VerifyPSS(pk, ch, uh(a[4]), uh(a[5]), &rsa.PSSOptions{SaltLength: sl, Hash: ch}) == nil {
			return "01"
		}
		return "00"
	}
	// ML-KEM decapsulation from seed: "mlkem768_decap seed ct"
	ops["mlkem768_decap"] = func(a []string) string {
		dk, err := mlkem.NewDecapsulationKey768(uh(a[0]))
		if err != nil {
			panic(err)
		}
		ss, err := dk.Decapsulate(uh(a[1]))
		if err != nil {
			return "ERR"
		}
		return hx(ss)
	}
	ops["mlkem1024_decap"] = func(a []string) string {
		dk, err := mlkem.NewDecapsulationKey1024(uh(a[0]))
		if err != nil {
			panic(err)
		}
		ss, err := dk.Decapsulate(uh(a[1]))
		if err != nil {
			return "ERR"
		}
		return hx(ss)
	}
	ops["mlkem768_pub"] = func(a []string) string {
		dk, err := mlkem.NewDecapsulationKey768(uh(a[0]))
		if err != nil {
			panic(err)
		}
		return hx(dk.EncapsulationKey().Bytes())
	}
}
