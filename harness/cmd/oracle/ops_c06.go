package main

// Stdlib-only oracle operations added for property C06 (hybrid encryption):
// the ML-KEM-1024 public key of a seed, and AES-SIV (RFC 5297) written
// directly from the RFC over crypto/aes (the standard library has no SIV mode).

import (
	"crypto/aes"
	"crypto/cipher"
	"crypto/mlkem"
	"crypto/subtle"
)

func c06Dbl(b []byte) []byte {
	out := make([]byte, 16)
	for i := 0; i < 15; i++ {
		out[i] = b[i]<<1 | b[i+1]>>7
	}
	out[15] = b[15] << 1
	if b[0]&0x80 != 0 {
		out[15] ^= 0x87
	}
	return out
}

func c06Xor(a, b []byte) []byte {
	out := make([]byte, len(a))
	for i := range a {
		out[i] = a[i] ^ b[i]
	}
	return out
}

// RFC 4493
func c06CMAC(blk cipher.Block, msg []byte) []byte {
	l := make([]byte, 16)
	blk.Encrypt(l, l)
	k1 := c06Dbl(l)
	k2 := c06Dbl(k1)
	n := (len(msg) + 15) / 16
	var last []byte
	if n == 0 {
		n = 1
	}
	if len(msg) > 0 && len(msg)%16 == 0 {
		last = c06Xor(msg[16*(n-1):], k1)
	} else {
		p := make([]byte, 16)
		copy(p, msg[16*(n-1):])
		p[len(msg)-16*(n-1)] = 0x80
		last = c06Xor(p, k2)
	}
	x := make([]byte, 16)
	for i := 0; i < n-1; i++ {
		x = c06Xor(x, msg[16*i:16*i+16])
		blk.Encrypt(x, x)
	}
	x = c06Xor(x, last)
	blk.Encrypt(x, x)
	return x
}

// RFC 5297 S2V with one associated-data string
func c06S2V(blk cipher.Block, ad, pt []byte) []byte {
	d := c06CMAC(blk, make([]byte, 16))
	d = c06Xor(c06Dbl(d), c06CMAC(blk, ad))
	var t []byte
	if len(pt) >= 16 {
		t = append([]byte{}, pt...)
		copy(t[len(t)-16:], c06Xor(t[len(t)-16:], d))
	} else {
		p := make([]byte, 16)
		copy(p, pt)
		p[len(pt)] = 0x80
		t = c06Xor(c06Dbl(d), p)
	}
	return c06CMAC(blk, t)
}

func c06SIVCtr(k2, v, in []byte) []byte {
	q := append([]byte{}, v...)
	q[8] &= 0x7f
	q[12] &= 0x7f
	b, err := aes.NewCipher(k2)
	if err != nil {
		panic(err)
	}
	out := make([]byte, len(in))
	cipher.NewCTR(b, q).XORKeyStream(out, in)
	return out
}

func init() {
	ops["mlkem1024_pub"] = func(a []string) string {
		dk, err := mlkem.NewDecapsulationKey1024(uh(a[0]))
		if err != nil {
			panic(err)
		}
		return hx(dk.EncapsulationKey().Bytes())
	}
	// "c06_siv_seal key ad pt", "c06_siv_open key ad ct" (key = K1 || K2)
	ops["c06_siv_seal"] = func(a []string) string {
		k := uh(a[0])
		b, err := aes.NewCipher(k[:len(k)/2])
		if err != nil {
			panic(err)
		}
		pt := uh(a[2])
		v := c06S2V(b, uh(a[1]), pt)
		return hx(append(v, c06SIVCtr(k[len(k)/2:], v, pt)...))
	}
	ops["c06_siv_open"] = func(a []string) string {
		k := uh(a[0])
		b, err := aes.NewCipher(k[:len(k)/2])
		if err != nil {
			panic(err)
		}
		ct := uh(a[2])
		if len(ct) < 16 {
			return "ERR"
		}
		pt := c06SIVCtr(k[len(k)/2:], ct[:16], ct[16:])
		if subtle.ConstantTimeCompare(c06S2V(b, uh(a[1]), pt), ct[:16]) != 1 {
			return "ERR"
		}
		return "ok" + hx(pt)
	}
}
