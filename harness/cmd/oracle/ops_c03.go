package main

import (
	"crypto/rsa"
	"math/big"
	"strconv"

	"github.com/tink-crypto/tink-go/v2/verifharness/p/c03/pssref"
)

// C03: RSASSA-PSS verification with a strictly enforced salt length (RFC 8017
// transcription in p/c03/pssref, stdlib only); crypto/rsa reads SaltLength 0
// as "auto-detect", so rsa_pss_verify cannot decide sLen = 0.
func init() {
	ops["rsa_pss_verify_strict"] = func(a []string) string { // n e hash saltlen digest sig
		h, _ := hashByName(a[2])
		e, _ := strconv.Atoi(a[1])
		sl, _ := strconv.Atoi(a[3])
		if pssref.Verify(new(big.Int).SetBytes(uh(a[0])), e, h, sl, uh(a[4]), uh(a[5])) {
			return "01"
		}
		return "00"
	}
	// The "core" of the RSA verifications for the model's std_pkcs1 / std_pss:
	// the signature is read as the INTEGER it denotes (leading zero bytes
	// stripped or added up to the modulus length), so that the fixed-length
	// rule is decided by the model alone (Sig.std_pkcs1 / std_pss), not here.
	normalize := func(n *big.Int, sig []byte) []byte {
		k := (n.BitLen() + 7) / 8
		s := new(big.Int).SetBytes(sig)
		if s.BitLen() > 8*k {
			return nil
		}
		return s.FillBytes(make([]byte, k))
	}
	ops["rsa_pkcs1_core"] = func(a []string) string { // n e hash digest sig
		_, ch := hashByName(a[2])
		e, _ := strconv.Atoi(a[1])
		n := new(big.Int).SetBytes(uh(a[0]))
		sig := normalize(n, uh(a[4]))
		if sig != nil && rsa.VerifyPKCS1v15(&rsa.PublicKey{N: n, E: e}, ch, uh(a[3]), sig) == nil {
			return "01"
		}
		return "00"
	}
	ops["rsa_pss_core_strict"] = func(a []string) string { // n e hash saltlen digest sig
		h, _ := hashByName(a[2])
		e, _ := strconv.Atoi(a[1])
		sl, _ := strconv.Atoi(a[3])
		n := new(big.Int).SetBytes(uh(a[0]))
		sig := normalize(n, uh(a[5]))
		if sig != nil && pssref.Verify(n, e, h, sl, uh(a[4]), sig) {
			return "01"
		}
		return "00"
	}
	// RSAEP / RSAVP1 core of RFC 8017 for the Coq transcription model/Rsa8017.v:
	// "rsa_ep n e s" = s^e mod n as minimal big-endian bytes (math/big only).
	ops["rsa_ep"] = func(a []string) string { // n e s
		e, _ := strconv.Atoi(a[1])
		n := new(big.Int).SetBytes(uh(a[0]))
		if n.Sign() == 0 {
			return "ERR"
		}
		return hx(new(big.Int).Exp(new(big.Int).SetBytes(uh(a[2])), big.NewInt(int64(e)), n).Bytes())
	}
}
