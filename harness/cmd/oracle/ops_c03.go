package main

import (
	"math/big"
	"strconv"

	"github.com/tink-crypto/tink-go/v2/verifharness/p/c03/pssref"
)

// C03: RSASSA-PSS verification with a strictly enforced salt length (RFC 8017
// transcription in p/c03/pssref, stdlib only); crypto/rsa reads SaltLength 0
// as "auto-detect", so rsa_pss_verify cannot decide sLen = 0.
func init() {
	ops["rsa_pss_verify_strict"] = func(a []string) string { // n e hash saltlen digest sig
		h, _ := hashByName(a[2])
		e, _ := strconv.Atoi(a[1])
		sl, _ := strconv.Atoi(a[3])
		if pssref.Verify(new(big.Int).SetBytes(uh(a[0])), e, h, sl, uh(a[4]), uh(a[5])) {
			return "01"
		}
		return "00"
	}
}
