package main

import (
	"github.com/tink-crypto/tink-go/v2/internal/signature/mldsa"
)

// C14 / C13: the ONE oracle answer that does not come from the Go standard
// library (which has no ML-DSA): the encoded public key of a 32-byte seed,
// computed by the library's own key generation.  The parsers of
// MlDsaPrivateKey / JwtMlDsaPrivateKey compare it with the public key the
// message carries; in the model it is the field mldsa_pub of the stdlib record
// (an arbitrary function in every theorem).  The key generation itself is the
// subject of property C10, not of C13/C14: it is trusted here.
//
//	"c14_mldsa_pub inst seed": inst = proto MlDsaInstance (1 = ML-DSA-65, 2 = ML-DSA-87, 3 = ML-DSA-44)
func init() {
	ops["c14_mldsa_pub"] = func(a []string) string {
		seed := uh(a[1])
		if len(seed) != mldsa.SecretKeySeedSize {
			return "ERR"
		}
		var s [mldsa.SecretKeySeedSize]byte
		copy(s[:], seed)
		switch a[0] {
		case "3":
			pk, _ := mldsa.MLDSA44.KeyGenFromSeed(s)
			return hx(pk.Encode())
		case "1":
			pk, _ := mldsa.MLDSA65.KeyGenFromSeed(s)
			return hx(pk.Encode())
		case "2":
			pk, _ := mldsa.MLDSA87.KeyGenFromSeed(s)
			return hx(pk.Encode())
		}
		return "ERR"
	}
}
