package main

import (
	"crypto/aes"
	"crypto/cipher"
	"crypto/hkdf"
	"strconv"
)

func init() {
	// RFC 5869 halves: "hkdf_extract hash ikm salt", "hkdf_expand hash prk info len"
	ops["hkdf_extract"] = func(a []string) string {
		h, _ := hashByName(a[0])
		out, err := hkdf.Extract(h, uh(a[1]), uh(a[2]))
		if err != nil {
			panic(err)
		}
		return hx(out)
	}
	ops["hkdf_expand"] = func(a []string) string {
		h, _ := hashByName(a[0])
		n, _ := strconv.Atoi(a[3])
		out, err := hkdf.Expand(h, uh(a[1]), string(uh(a[2])), n)
		if err != nil {
			return "ERR"
		}
		return hx(out)
	}
	// AES-CTR with a full 16-byte big-endian counter block: "aes_ctr key iv16 data"
	ops["aes_ctr"] = func(a []string) string {
		b, err := aes.NewCipher(uh(a[0]))
		if err != nil {
			panic(err)
		}
		d := uh(a[2])
		out := make([]byte, len(d))
		cipher.NewCTR(b, uh(a[1])).XORKeyStream(out, d)
		return hx(out)
	}
}
