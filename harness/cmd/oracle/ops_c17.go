package main

import "crypto/ed25519"

// C17: Ed25519 public key of a 32-byte seed (crypto/ed25519 only).
func init() {
	ops["ed25519_pub"] = func(a []string) string { // seed
		return hx(ed25519.NewKeyFromSeed(uh(a[0])).Public().(ed25519.PublicKey))
	}
}
