// Command c12 runs the real tink-go code on cases of property C12.
package main

import (
	"github.com/tink-crypto/tink-go/v2/verifharness/hx"
	_ "github.com/tink-crypto/tink-go/v2/verifharness/p/c12"
)

func main() { hx.CLI("C12") }
