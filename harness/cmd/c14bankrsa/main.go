// Command c14bankrsa prints the bank entry (harness/p/c14/bank.go) of an RSA-SSA-PKCS1
// private key whose primes have different byte lengths (p 129 bytes, q 127
// bytes, modulus 2048 bits), built with the public constructor
// rsassapkcs1.NewPrivateKey from P, Q, D and serialized by the library.
// The primes are those of harness/p/c12/rsapool.go "unbalanced-p+2" (2048).
package main

import (
	"encoding/hex"
	"fmt"
	"math/big"
	"os"

	"github.com/tink-crypto/tink-go/v2/insecuresecretdataaccess"
	"github.com/tink-crypto/tink-go/v2/internal/protoserialization"
	"github.com/tink-crypto/tink-go/v2/secretdata"
	"github.com/tink-crypto/tink-go/v2/signature/rsassapkcs1"
	"google.golang.org/protobuf/proto"

	tinkpb "github.com/tink-crypto/tink-go/v2/proto/tink_go_proto"
)

func main() {
	p, _ := new(big.Int).SetString(os.Args[1], 16)
	q, _ := new(big.Int).SetString(os.Args[2], 16)
	one := big.NewInt(1)
	n := new(big.Int).Mul(p, q)
	phi := new(big.Int).Mul(new(big.Int).Sub(p, one), new(big.Int).Sub(q, one))
	d := new(big.Int).ModInverse(big.NewInt(65537), phi)
	const id = 0x51a2b3c4
	params, err := rsassapkcs1.NewParameters(n.BitLen(), rsassapkcs1.SHA256, 65537, rsassapkcs1.VariantTink)
	if err != nil {
		panic(err)
	}
	pub, err := rsassapkcs1.NewPublicKey(n.Bytes(), id, params)
	if err != nil {
		panic(err)
	}
	sec := func(v *big.Int) secretdata.Bytes {
		return secretdata.NewBytesFromData(v.Bytes(), insecuresecretdataaccess.Token{})
	}
	priv, err := rsassapkcs1.NewPrivateKey(pub, rsassapkcs1.PrivateKeyValues{P: sec(p), Q: sec(q), D: sec(d)})
	if err != nil {
		panic(err)
	}
	ser, err := protoserialization.SerializeKey(priv)
	if err != nil {
		panic(err)
	}
	kk := &tinkpb.Keyset_Key{KeyData: ser.KeyData(), Status: tinkpb.KeyStatusType_ENABLED, KeyId: id, OutputPrefixType: ser.OutputPrefixType()}
	b, err := proto.Marshal(kk)
	if err != nil {
		panic(err)
	}
	fmt.Printf("\t{\"RSAPKCS1_2048_UNBALANCED\", \"sign\", %q},\n", hex.EncodeToString(b))
	pubKey, _ := priv.PublicKey()
	ser2, err := protoserialization.SerializeKey(pubKey)
	if err != nil {
		panic(err)
	}
	kk2 := &tinkpb.Keyset_Key{KeyData: ser2.KeyData(), Status: tinkpb.KeyStatusType_ENABLED, KeyId: id, OutputPrefixType: ser2.OutputPrefixType()}
	b2, _ := proto.Marshal(kk2)
	fmt.Printf("\t{\"RSAPKCS1_2048_UNBALANCED/pub\", \"verify\", %q},\n", hex.EncodeToString(b2))
}
