// Command c03 runs the real tink-go code on cases of property C03.
package main

import (
	"github.com/tink-crypto/tink-go/v2/verifharness/hx"
	_ "github.com/tink-crypto/tink-go/v2/verifharness/p/c03"
)

func main() { hx.CLI("C03") }
