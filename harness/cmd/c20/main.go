// Command c20 runs the real tink-go code on cases of property C20.
package main

import (
	"github.com/tink-crypto/tink-go/v2/verifharness/hx"
	_ "github.com/tink-crypto/tink-go/v2/verifharness/p/c20"
)

func main() { hx.CLI("C20") }
