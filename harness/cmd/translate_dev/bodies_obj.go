package main

// Objects.  A register of object kind stands for ONE may-alias class of objects: Go copies of a
// pointer (o2 := o1, range over a slice of pointers, an object stored inside another object built
// here, a callee that returns its argument) all denote the same object, so a later store through any
// of them must be visible through all.  The classes are computed flow-insensitively (union-find over
// the function's variables - outside Coq); an object register is never copied by SAlias/SPhi - it is defined by
// SMake / SOpaque / being a parameter and only changes by SStore (which can only lower it).
//
// Objects the function was handed are NOT trusted to be fresh: storing or returning one is an escape
// like that of a byte slice - unless its type is in the emitted whitelist of immutable types
// (c19_immutable_types): library struct types all of whose byte-reaching fields are unexported and
// through whose values no translated function writes or stores (checked again in Coq on the table).

import (
	"go/ast"
	"go/token"
	"go/types"
	"sort"
)

// isObjLike: a value through which byte slices can be REACHED and REPLACED (struct, pointer to struct,
// container of slices or of objects, pointer to a slice) - as opposed to raw byte memory
func isObjLike(t types.Type) bool {
	k := kindOf(t)
	return k == kObj || (k == kSlice && !isByteElem(t))
}

// isRefType: copying the value shares the object (pointer, slice, map), as opposed to a struct / array value
func isRefType(t types.Type) bool {
	if t == nil || !isObjLike(t) {
		return false
	}
	switch t.Underlying().(type) {
	case *types.Pointer, *types.Slice, *types.Map:
		return true
	}
	return false
}

// ---- immutable types ------------------------------------------------------------------------------

// candidates: named struct types declared in the scanned packages whose byte-reaching fields are all
// unexported; mutableType: a translated function writes through, or stores into, a parameter or
// receiver of that type (recomputed in every round of the global fixpoint, only grows)
var immutableCand = map[string]bool{}
var mutableType = map[string]string{} // type -> first function found mutating it

// trusted: standard-library object types that cannot be modified through their API
var trustedImmutable = map[string]string{
	"crypto/ecdh.PrivateKey":  "standard library: no mutating method, Bytes() copies",
	"crypto/ecdh.PublicKey":   "standard library: no mutating method, Bytes() copies",
	"crypto/rsa.PublicKey":    "standard library: holds *big.Int and int only",
	"crypto/rsa.PrivateKey":   "standard library: holds *big.Int values only",
	"crypto/ecdsa.PublicKey":  "standard library: holds *big.Int values only",
	"crypto/ecdsa.PrivateKey": "standard library: holds *big.Int values only",
}

func typeNameKey(t types.Type) string {
	if t == nil {
		return ""
	}
	if pt, ok := t.Underlying().(*types.Pointer); ok {
		if _, named := t.(*types.Named); !named {
			t = pt.Elem()
		}
	}
	if pt, ok := t.(*types.Pointer); ok {
		t = pt.Elem()
	}
	if n, ok := t.(*types.Named); ok {
		return namedKey(n)
	}
	return ""
}

func immutableType(t types.Type) bool {
	k := typeNameKey(t)
	if k == "" {
		return false
	}
	if _, ok := trustedImmutable[k]; ok {
		return true
	}
	_, mut := mutableType[k]
	return immutableCand[k] && !mut
}

func registerTypeCandidates(p *pkgInfo, rel string) {
	if p.pkg == nil {
		return
	}
	sc := p.pkg.Scope()
	for _, name := range sc.Names() {
		tn, ok := sc.Lookup(name).(*types.TypeName)
		if !ok {
			continue
		}
		nt, ok := tn.Type().(*types.Named)
		if !ok {
			continue
		}
		st, ok := nt.Underlying().(*types.Struct)
		if !ok || kindOf(nt) != kObj {
			continue
		}
		good := !perStreamType(p, rel, nt)
		for i := 0; i < st.NumFields() && good; i++ {
			f := st.Field(i)
			if kindOf(f.Type()) != kNone && (f.Exported() || f.Embedded()) {
				good = false
			}
		}
		if good {
			immutableCand[namedKey(nt)] = true
		}
	}
}

func immutableList() [][2]string {
	var out [][2]string
	for k := range immutableCand {
		if _, mut := mutableType[k]; !mut {
			out = append(out, [2]string{shortKey(k), "library struct type: every byte-reaching field is unexported, and no translated function writes through or stores into a parameter or receiver of this type"})
		}
	}
	for k, why := range trustedImmutable {
		out = append(out, [2]string{k, "TRUSTED: " + why})
	}
	sort.Slice(out, func(i, j int) bool { return out[i][0] < out[j][0] })
	return out
}

// ---- may-alias classes ----------------------------------------------------------------------------

func (t *bodyTr) find(o types.Object) types.Object {
	for {
		p, ok := t.parent[o]
		if !ok || p == o {
			return o
		}
		o = p
	}
}

func (t *bodyTr) union(a, b types.Object) {
	if a == nil || b == nil {
		return
	}
	ra, rb := t.find(a), t.find(b)
	if ra == rb {
		return
	}
	// keep a parameter as representative
	if t.isParam[rb] && !t.isParam[ra] {
		ra, rb = rb, ra
	}
	if t.isParam[ra] && t.isParam[rb] {
		// two objects of the caller: both registers are shared (never private), so a store through either
		// needs an owned value anyway; they keep their own registers
		return
	}
	t.parent[rb] = ra
	t.clsSize[ra] = t.size(ra) + t.size(rb)
}

func (t *bodyTr) size(root types.Object) int {
	if n, ok := t.clsSize[root]; ok {
		return n
	}
	return 1
}

func (t *bodyTr) objVar(id *ast.Ident) types.Object {
	if id == nil || id.Name == "_" {
		return nil
	}
	v, ok := t.p.info.ObjectOf(id).(*types.Var)
	if !ok || v.IsField() || !(isObjLike(v.Type()) || isIfaceVar(v)) {
		return nil
	}
	if v.Pkg() != nil && v.Parent() == v.Pkg().Scope() {
		return nil // package-level variable
	}
	return v
}

// isIfaceVar: a variable of a (non-error) interface type: it may come to hold an object that reaches bytes
// (a *bytes.Reader as io.Reader, the reader hkdf.New returns): it takes part in the may-alias classes and
// gets a register the first time it receives such a value
func isIfaceVar(v *types.Var) bool {
	t := v.Type()
	return t != nil && types.IsInterface(t) && t.String() != "error" && kindOf(t) == kNone
}

// refRoots: the variables whose object the value of e may refer to (empty if e is not a reference)
func (t *bodyTr) refRoots(e ast.Expr) []types.Object {
	rs := t.refRoots0(e)
	if len(rs) > 0 && immutableType(t.typeOf(unparen(e))) {
		// an object of a whitelisted type that somebody else built is not followed as a value
		var out []types.Object
		for _, o := range rs {
			if t.tracked[t.find(o)] {
				out = append(out, o)
			}
		}
		return out
	}
	return rs
}

func (t *bodyTr) refRoots0(e ast.Expr) []types.Object {
	switch e := unparen(e).(type) {
	case *ast.Ident:
		if o := t.objVar(e); o != nil {
			return []types.Object{o}
		}
	case *ast.StarExpr:
		return t.refRoots(e.X)
	case *ast.UnaryExpr:
		if e.Op == token.AND {
			return t.refRoots(e.X)
		}
	case *ast.SelectorExpr:
		if sel, ok := t.p.info.Selections[e]; ok && sel.Kind() == types.FieldVal {
			return t.refRoots(e.X)
		}
	case *ast.IndexExpr:
		return t.refRoots(e.X)
	case *ast.SliceExpr:
		return t.refRoots(e.X)
	case *ast.CompositeLit:
		var out []types.Object
		for _, el := range e.Elts {
			if kv, ok := el.(*ast.KeyValueExpr); ok {
				el = kv.Value
			}
			el = t.stripIface(el)
			if tt := t.typeOf(el); isRefType(tt) || refObject(tt) || isAddrOf(el) {
				out = append(out, t.refRoots(el)...)
			}
		}
		return out
	case *ast.CallExpr:
		fun := unparen(e.Fun)
		if tv, ok := t.p.info.Types[fun]; ok && tv.IsType() && len(e.Args) == 1 {
			return t.refRoots(e.Args[0])
		}
		if id, ok := fun.(*ast.Ident); ok {
			if b, ok := t.p.info.Uses[id].(*types.Builtin); ok {
				if b.Name() == "append" {
					var out []types.Object
					for _, a := range e.Args {
						out = append(out, t.refRoots(a)...)
					}
					return out
				}
				return nil
			}
		}
		// a library callee may return (an object holding) those of its reference arguments that its summary names
		fn, recv, iface := t.calleeOf(e)
		if fn != nil && isLibPkg(fn.Pkg()) {
			var roots uint64
			var sms []*summary
			if iface != nil {
				for _, k := range implementers(iface, fn.Name()) {
					if s := summaries[k]; s != nil {
						sms = append(sms, s)
					}
				}
			} else if s := summaries[funcKey(fn)]; s != nil {
				sms = append(sms, s)
			}
			for _, s := range sms {
				for _, r := range s.res {
					roots |= r.roots
				}
				for _, st := range s.stores {
					if st != 0 {
						roots |= ^uint64(0) // the callee links its arguments: be coarse
					}
				}
			}
			sig, _ := fn.Type().(*types.Signature)
			base := 0
			var out []types.Object
			if sig != nil && sig.Recv() != nil {
				base = 1
				if recv != nil && roots&1 != 0 {
					out = append(out, t.refRoots(recv)...)
				}
			}
			for ai, a := range e.Args {
				pi := ai
				if sig != nil && sig.Variadic() && ai >= sig.Params().Len()-1 {
					pi = sig.Params().Len() - 1
				}
				if base+pi < 62 && roots&(1<<uint(base+pi)) == 0 {
					continue
				}
				a = t.stripIface(a)
				if tt := t.typeOf(a); isRefType(tt) || refObject(tt) || isAddrOf(a) {
					out = append(out, t.refRoots(a)...)
				}
			}
			return out
		}
		// a callee outside the library whose result may be a view of (or hold) its arguments: generated proto
		// getters (kd := key.GetKeyData()), slices.Clip, bytes.NewReader ...
		if fn != nil {
			if eff, ok := extLookup(fn); ok && ((eff.res != "" && eff.res != "fresh" && eff.res != "opaque") || len(eff.holds) > 0) {
				var out []types.Object
				if recv != nil {
					out = append(out, t.refRoots(recv)...)
				}
				for _, a := range e.Args {
					out = append(out, t.refRoots(t.stripIface(a))...)
				}
				return out
			}
		}
	}
	return nil
}

func isBuiltin(o types.Object) bool { _, ok := o.(*types.Builtin); return ok }

func isIfaceT(t types.Type) bool {
	return t != nil && types.IsInterface(t) && t.String() != "error"
}

func isAddrOf(e ast.Expr) bool {
	u, ok := unparen(e).(*ast.UnaryExpr)
	return ok && u.Op == token.AND
}

func (t *bodyTr) unifyAll(os []types.Object) {
	for i := 1; i < len(os); i++ {
		t.union(os[0], os[i])
	}
}

// computeClasses: flow-insensitive unification of every variable pair between which a REFERENCE flows.
func (t *bodyTr) computeClasses() {
	flow := func(lhs ast.Expr, rhs ast.Expr) {
		rhs = t.stripIface(rhs)
		rt := t.typeOf(rhs)
		if !(isRefType(rt) || refObject(rt) || isAddrOf(rhs) || (rt != nil && types.IsInterface(rt))) {
			return
		}
		rs := t.refRoots(rhs)
		ls := t.refRoots(lhs)
		t.unifyAll(append(ls, rs...))
	}
	ast.Inspect(t.fd.Body, func(n ast.Node) bool {
		switch n := n.(type) {
		case *ast.AssignStmt:
			if len(n.Lhs) == len(n.Rhs) {
				for i := range n.Lhs {
					flow(n.Lhs[i], n.Rhs[i])
				}
			} else if len(n.Rhs) == 1 {
				rs := t.refRoots(n.Rhs[0])
				for _, l := range n.Lhs {
					if isRefType(t.typeOf(l)) || refObject(t.typeOf(l)) || isIfaceT(t.typeOf(l)) {
						t.unifyAll(append(t.refRoots(l), rs...))
					}
				}
			}
		case *ast.ValueSpec:
			if len(n.Values) == len(n.Names) {
				for i, nm := range n.Names {
					flow(nm, n.Values[i])
				}
			} else if len(n.Values) == 1 {
				rs := t.refRoots(n.Values[0])
				for _, nm := range n.Names {
					if isRefType(t.typeOf(nm)) || refObject(t.typeOf(nm)) || isIfaceT(t.typeOf(nm)) {
						t.unifyAll(append(t.refRoots(nm), rs...))
					}
				}
			}
		case *ast.RangeStmt:
			if n.Value != nil && (isRefType(t.typeOf(n.Value)) || refObject(t.typeOf(n.Value))) {
				t.unifyAll(append(t.refRoots(n.Value), t.refRoots(n.X)...))
			}
		case *ast.CompositeLit:
			t.unifyAll(t.refRoots(n))
		case *ast.CallExpr:
			// the objects a call's result may be (or hold) are one class, also when the result is used anonymously
			if id, ok := unparen(n.Fun).(*ast.Ident); !ok || t.p.info.Uses[id] == nil || !isBuiltin(t.p.info.Uses[id]) {
				t.unifyAll(t.refRoots(n))
			}
			// append(a, b) links a and b even when the result is dropped; a closure call binds its parameters
			if id, ok := unparen(n.Fun).(*ast.Ident); ok {
				if b, ok := t.p.info.Uses[id].(*types.Builtin); ok && b.Name() == "append" {
					t.unifyAll(t.refRoots(n))
				}
				if b, ok := t.p.info.Uses[id].(*types.Builtin); ok && b.Name() == "copy" && len(n.Args) == 2 {
					t.unifyAll(append(t.refRoots(n.Args[0]), t.refRoots(n.Args[1])...))
				}
				if v, ok := t.p.info.Uses[id].(*types.Var); ok {
					if lit := t.closures0[v]; lit != nil {
						ai := 0
						for _, fl := range lit.Type.Params.List {
							for _, nm := range fl.Names {
								if ai < len(n.Args) && isRefType(t.typeOf(nm)) {
									t.unifyAll(append(t.refRoots(nm), t.refRoots(n.Args[ai])...))
								}
								ai++
							}
						}
					}
				}
			}
		}
		return true
	})
}

// objReg: the register of the class of variable o
func (t *bodyTr) classReg(o types.Object) int {
	root := t.find(o)
	if r, ok := t.regOf[root]; ok {
		return r
	}
	r := t.newReg(root.Name())
	t.regOf[root] = r
	t.objRegs[r] = true
	t.classRegs[r] = true
	// allocated ONCE, on entry: the register of a class is never reset afterwards, only lowered
	t.entryMakes = append(t.entryMakes, r)
	return r
}

// bind: the class register R also denotes the object in the TEMPORARY register v from now on
func (t *bodyTr) bind(R, v int, at ast.Node) {
	if R == v || R < 0 || v < 0 {
		return
	}
	if t.classRegs[v] || v < t.np {
		t.fail("an object variable is bound to a live object of another may-alias class (line %d)", t.line(at))
		return
	}
	t.objRegs[v] = true // a temporary used as an object (e.g. the register of a nil literal)
	t.emit(&node{op: "bind", r: R, v: v, pos: -1, line: t.line(at)})
}

// objResult: the register of an object-valued call result that may BE one of the argument objects vs, or a new
// object holding them (opq: or memory that is not ours).  If one of them is an object of a local class the
// result belongs to that class (the arguments were unified before); a result over a single parameter object
// is that parameter's register; otherwise it is a new object holding the byte slices, or unowned memory.
func (t *bodyTr) objResult(call ast.Node, vs []int, opq bool) int {
	var objs []int
	local := -1
	for _, v := range vs {
		if t.objRegs[v] {
			objs = append(objs, v)
			if local < 0 && t.classRegs[v] && v >= t.np {
				local = v
			}
		}
	}
	switch {
	case local >= 0:
		if opq {
			t.store(local, t.objTmpOpaque(call), call)
		}
		for _, v := range vs {
			if v != local {
				t.store(local, v, call)
			}
		}
		return local
	case len(objs) == 1 && len(vs) == 1 && !opq && (objs[0] < t.np || t.classRegs[objs[0]]):
		return objs[0]
	case opq:
		return t.objTmpOpaque(call)
	}
	for _, v := range objs {
		if v < t.np || t.classRegs[v] {
			return t.objTmpOpaque(call) // several of the caller's objects: not followed
		}
	}
	T := t.objTmpMake(call)
	for _, v := range vs {
		if t.objRegs[v] {
			t.bind(T, v, call)
		} else {
			t.store(T, v, call)
		}
	}
	return T
}

func (t *bodyTr) singleton(o types.Object) bool {
	root := t.find(o)
	return t.size(root) <= 1 && !t.isParam[root]
}

func (t *bodyTr) objTmpMake(at ast.Node) int {
	r := t.tmpMake(at)
	t.objRegs[r] = true
	return r
}

func (t *bodyTr) objTmpOpaque(at ast.Node) int {
	r := t.tmpOpaque(at)
	t.objRegs[r] = true
	return r
}

func (t *bodyTr) store(x, v int, at ast.Node) {
	if x == v || x < 0 || v < 0 {
		return
	}
	op := "store"
	if t.objRegs[v] {
		op = "storeobj" // an object goes into x: its own register is dead afterwards
	}
	t.emit(&node{op: op, r: x, v: v, pos: -1, why: "ret", line: t.line(at)})
}

// evalObj: the object register an expression of object-like type denotes
func (t *bodyTr) evalObj(e ast.Expr) int {
	switch e := e.(type) {
	case *ast.ParenExpr:
		return t.evalObj(e.X)
	case *ast.Ident:
		switch o := t.p.info.ObjectOf(e).(type) {
		case *types.Nil:
			return t.objTmpMake(e)
		case *types.Var:
			if ov := t.objVar(e); ov != nil {
				return t.classReg(ov)
			}
			if r, ok := t.regOf[o]; ok {
				return r
			}
			return t.objTmpOpaque(e) // package-level variable
		}
		return t.objTmpOpaque(e)
	case *ast.StarExpr:
		return t.evalObj(e.X)
	case *ast.UnaryExpr:
		if e.Op == token.AND {
			if isObjLike(t.typeOf(e.X)) {
				return t.evalObj(e.X)
			}
			// &b with b a byte-slice variable: a new pointer object that shows b.  (A later `*p = x` would
			// change b behind the register's back: such a function is reported untranslated.)
			t.addrSlice = true
			T := t.objTmpMake(e)
			t.store(T, t.eval(e.X), e)
			return T
		}
		if e.Op == token.ARROW {
			t.fail("receives byte data from a channel")
		}
		t.walk(e.X)
		return t.objTmpOpaque(e)
	case *ast.SelectorExpr:
		if sel, ok := t.p.info.Selections[e]; ok && sel.Kind() == types.FieldVal {
			if !isObjLike(t.typeOf(e.X)) {
				t.walk(e.X)
				return t.objTmpOpaque(e)
			}
			base := t.evalObj(e.X)
			if immutableType(t.typeOf(e)) || types.IsInterface(t.typeOf(e)) {
				// an object of a whitelisted type is not followed when it is stored: what sits in this
				// field may be an object the function was handed
				return t.objTmpOpaque(e)
			}
			return base
		}
		return t.objTmpOpaque(e) // pkg.Var
	case *ast.IndexExpr:
		t.walk(e.Index)
		if !isObjLike(t.typeOf(e.X)) {
			t.walk(e.X)
			return t.objTmpOpaque(e)
		}
		base := t.evalObj(e.X)
		if immutableType(t.typeOf(e)) {
			return t.objTmpOpaque(e)
		}
		return base
	case *ast.SliceExpr:
		for _, ix := range []ast.Expr{e.Low, e.High, e.Max} {
			if ix != nil {
				t.walk(ix)
			}
		}
		return t.evalObj(e.X)
	case *ast.CompositeLit:
		return t.composite(e)
	case *ast.CallExpr:
		rs := t.doCall(e)
		if len(rs) > 0 && rs[0] >= 0 {
			return rs[0]
		}
		return t.objTmpOpaque(e)
	case *ast.TypeAssertExpr:
		// proto.Clone(m).(*T): a deep copy (trusted like the rest of the call table)
		if c, ok := unparen(e.X).(*ast.CallExpr); ok {
			if fn, _, _ := t.calleeOf(c); fn != nil && fn.FullName() == "google.golang.org/protobuf/proto.Clone" {
				for _, a := range c.Args {
					t.walk(a)
				}
				return t.objTmpMake(e)
			}
		}
		t.walk(e.X)
		return t.objTmpOpaque(e)
	case *ast.KeyValueExpr:
		return t.evalObj(e.Value)
	}
	t.walk(e)
	return t.objTmpOpaque(e)
}
