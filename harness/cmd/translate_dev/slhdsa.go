package main

import (
	"fmt"
	"go/ast"
	"go/constant"
	"go/token"
	"path/filepath"
	"strings"
)

// structLit returns the constant integer fields of a package-level variable
// initialised by a keyed composite literal.
func structLit(p *pkgInfo, name string) (map[string]string, bool) {
	for _, file := range p.files {
		for _, d := range file.Decls {
			gd, ok := d.(*ast.GenDecl)
			if !ok || gd.Tok != token.VAR {
				continue
			}
			for _, sp := range gd.Specs {
				vs := sp.(*ast.ValueSpec)
				for i, n := range vs.Names {
					if n.Name != name || i >= len(vs.Values) {
						continue
					}
					cl, ok := vs.Values[i].(*ast.CompositeLit)
					if !ok {
						return nil, false
					}
					out := map[string]string{}
					for _, el := range cl.Elts {
						kv, ok := el.(*ast.KeyValueExpr)
						if !ok {
							return nil, false
						}
						k, ok := kv.Key.(*ast.Ident)
						if !ok {
							return nil, false
						}
						tv := p.info.Types[kv.Value]
						if tv.Value == nil || tv.Value.Kind() != constant.Int {
							return nil, false
						}
						out[k.Name] = tv.Value.ExactString()
					}
					return out, true
				}
			}
		}
	}
	return nil, false
}

// callArgs returns the identifier arguments of a package-level variable
// initialised by a call f(a, b, ...).
func callArgs(p *pkgInfo, name, fn string) ([]string, bool) {
	for _, file := range p.files {
		for _, d := range file.Decls {
			gd, ok := d.(*ast.GenDecl)
			if !ok || gd.Tok != token.VAR {
				continue
			}
			for _, sp := range gd.Specs {
				vs := sp.(*ast.ValueSpec)
				for i, n := range vs.Names {
					if n.Name != name || i >= len(vs.Values) {
						continue
					}
					c, ok := vs.Values[i].(*ast.CallExpr)
					if !ok {
						return nil, false
					}
					if id, ok := c.Fun.(*ast.Ident); !ok || id.Name != fn {
						return nil, false
					}
					var out []string
					for _, a := range c.Args {
						id, ok := a.(*ast.Ident)
						if !ok {
							return nil, false
						}
						out = append(out, id.Name)
					}
					return out, true
				}
			}
		}
	}
	return nil, false
}

func taskSlhdsa(repo string, write func(name, body string) error) error {
	p, err := loadPkg(filepath.Join(repo, "internal/signature/slhdsa"))
	if err != nil {
		return err
	}
	var b strings.Builder
	b.WriteString("(* The parameter tables of internal/signature/slhdsa/slhdsa.go (param128s ... param256f:\n   n h d hp a k lgw m) and the twelve named parameter sets (table x hash family),\n   read from the composite literals and newParams calls of the Go source. *)\n")
	b.WriteString("From Coq Require Import String List.\nImport ListNotations.\nFrom Tink Require Import SlhdsaBase SlhdsaHash.\n\n")
	var untr []string
	tables := []string{"param128s", "param128f", "param192s", "param192f", "param256s", "param256f"}
	for _, t := range tables {
		f, ok := structLit(p, t)
		if !ok {
			untr = append(untr, "slhdsa table "+t+": not a keyed literal of constants")
			continue
		}
		var vals []string
		for _, k := range []string{"n", "h", "d", "hp", "a", "k", "lgw", "m"} {
			v, ok := f[k]
			if !ok {
				untr = append(untr, "slhdsa table "+t+": field "+k+" missing")
				v = "0"
			}
			vals = append(vals, v)
		}
		fmt.Fprintf(&b, "Definition %s := mkParams %s.\n", t, strings.Join(vals, " "))
	}
	b.WriteString("\n")
	fam := map[string]string{"hashParamShake": "HShake", "hashParamSha2C1": "HSha2C1", "hashParamSha2C35": "HSha2C35"}
	sets := []string{"SLH_DSA_SHA2_128s", "SLH_DSA_SHAKE_128s", "SLH_DSA_SHA2_128f", "SLH_DSA_SHAKE_128f",
		"SLH_DSA_SHA2_192s", "SLH_DSA_SHAKE_192s", "SLH_DSA_SHA2_192f", "SLH_DSA_SHAKE_192f",
		"SLH_DSA_SHA2_256s", "SLH_DSA_SHAKE_256s", "SLH_DSA_SHA2_256f", "SLH_DSA_SHAKE_256f"}
	for _, s := range sets {
		a, ok := callArgs(p, s, "newParams")
		if !ok || len(a) != 2 || fam[a[1]] == "" {
			untr = append(untr, "slhdsa set "+s+": not newParams(table, hash family)")
			continue
		}
		fmt.Fprintf(&b, "Definition %s := (%s, %s).\n", s, a[0], fam[a[1]])
	}
	b.WriteString("\nDefinition all_sets :=\n  (" + strings.Join(sets, " :: ") + " :: nil)%list.\n\n")
	b.WriteString(untrDef("slhdsa_untranslatable", untr))
	return write("SlhdsaParams.v", b.String())
}
