package main

import (
	"fmt"
	"go/ast"
	"go/token"
	"go/types"
	"os"
	"path/filepath"
	"sort"
	"strings"
)

// aliasSite is one place where a byte slice crosses the API boundary without a copy.
type aliasSite struct {
	pkg, fn, kind, expr string
	line                int
}

func isByteSlice(t types.Type) bool {
	if t == nil {
		return false
	}
	s, ok := t.Underlying().(*types.Slice)
	if !ok {
		return false
	}
	b, ok := s.Elem().Underlying().(*types.Basic)
	return ok && b.Kind() == types.Uint8
}

// hasByteSliceField: a struct (or pointer to struct) with a []byte field.
func hasByteSliceField(t types.Type) bool {
	if pt, ok := t.Underlying().(*types.Pointer); ok {
		t = pt.Elem()
	}
	st, ok := t.Underlying().(*types.Struct)
	if !ok {
		return false
	}
	for i := 0; i < st.NumFields(); i++ {
		if isByteSlice(st.Field(i).Type()) {
			return true
		}
	}
	return false
}

// goPackages lists directories under root holding non-test Go files of the library proper.
func goPackages(root string) []string {
	var dirs []string
	filepath.Walk(root, func(p string, fi os.FileInfo, err error) error {
		if err != nil {
			return nil
		}
		if fi.IsDir() {
			rel, _ := filepath.Rel(root, p)
			for _, skip := range []string{".git", "proto", "testutil", "testing", "kokoro", "docs", "testdata", "internal/testing", "internal/internalapi"} {
				if rel == skip || strings.HasPrefix(rel, skip+"/") {
					return filepath.SkipDir
				}
			}
			ms, _ := filepath.Glob(filepath.Join(p, "*.go"))
			for _, m := range ms {
				if !strings.HasSuffix(m, "_test.go") {
					dirs = append(dirs, p)
					break
				}
			}
		}
		return nil
	})
	sort.Strings(dirs)
	return dirs
}

// rootParam returns the parameter object an expression denotes directly:
// p, p[a:b], (p), or a local variable that was defined as one of those.
func rootParam(info *types.Info, e ast.Expr, params map[types.Object]bool, aliases map[types.Object]types.Object) types.Object {
	switch e := e.(type) {
	case *ast.ParenExpr:
		return rootParam(info, e.X, params, aliases)
	case *ast.SliceExpr:
		return rootParam(info, e.X, params, aliases)
	case *ast.SelectorExpr:
		// opts.Field where opts is a struct-typed parameter (an options struct passed by
		// value or by pointer): the byte slice inside it is still the caller's memory
		if id, ok := e.X.(*ast.Ident); ok {
			o := info.Uses[id]
			if params[o] && isByteSlice(info.Types[e].Type) {
				return o
			}
		}
	case *ast.Ident:
		o := info.Uses[e]
		if o == nil {
			o = info.Defs[e]
		}
		if params[o] {
			return o
		}
		if a, ok := aliases[o]; ok {
			return a
		}
	}
	return nil
}

func recvField(info *types.Info, e ast.Expr, recv types.Object) (string, bool) {
	switch e := e.(type) {
	case *ast.ParenExpr:
		return recvField(info, e.X, recv)
	case *ast.SliceExpr:
		return recvField(info, e.X, recv)
	case *ast.SelectorExpr:
		if id, ok := e.X.(*ast.Ident); ok && recv != nil && info.Uses[id] == recv {
			if sel, ok := info.Selections[e]; ok && sel.Kind() == types.FieldVal {
				return id.Name + "." + e.Sel.Name, true
			}
		}
	}
	return "", false
}

// siteProg is one copy site or unframed site as a program of the slice language of
// coq/model/Heap.v: nparams caller-owned slices (variables 0..nparams-1), the
// instructions, and the variable holding what the function keeps, returns or extends.
type siteProg struct {
	pkg, fn string
	line    int
	nparams int
	prog    string
	res     int
}

var siteProgs []siteProg

func scanAliasSites(root string) (sites []aliasSite, framed int, err error) {
	siteProgs = nil
	for _, dir := range goPackages(root) {
		p, e := loadPkg(dir)
		if e != nil || p == nil {
			continue
		}
		rel, _ := filepath.Rel(root, dir)
		internalPkg := strings.HasPrefix(rel, "internal/") || strings.Contains(rel, "/internal/") || rel == "internal"
		for _, file := range p.files {
			for _, d := range file.Decls {
				fd, ok := d.(*ast.FuncDecl)
				if !ok || fd.Body == nil {
					continue
				}
				params := map[types.Object]bool{}
				for _, fl := range fd.Type.Params.List {
					for _, n := range fl.Names {
						if o := p.info.Defs[n]; o != nil && (isByteSlice(o.Type()) || hasByteSliceField(o.Type())) {
							params[o] = true
						}
					}
				}
				var recv types.Object
				if fd.Recv != nil && len(fd.Recv.List) == 1 && len(fd.Recv.List[0].Names) == 1 {
					recv = p.info.Defs[fd.Recv.List[0].Names[0]]
				}
				fname := fd.Name.Name
				if fd.Recv != nil && len(fd.Recv.List) == 1 {
					fname = types.ExprString(fd.Recv.List[0].Type) + "." + fname
				}
				exported := fd.Name.IsExported() && !internalPkg
				aliases := map[types.Object]types.Object{}
				add := func(kind string, n ast.Node, e ast.Expr) {
					line := p.fset.Position(n.Pos()).Line
					sites = append(sites, aliasSite{rel, fname, kind, types.ExprString(e), line})
					switch kind {
					case "append-on-parameter":
						// r := append(param, x): r (variable 1) is what the function goes on with
						siteProgs = append(siteProgs, siteProg{rel, fname, line, 1, "[IAppend 0 [0%N] 0]", 1})
					default:
						// the parameter / the field itself (variable 0) is kept or handed out
						siteProgs = append(siteProgs, siteProg{rel, fname, line, 1, "[]", 0})
					}
				}
				addFramed := func(n *ast.CallExpr, clone bool) {
					line := p.fset.Position(n.Pos()).Line
					k := len(n.Args)
					if clone || k == 0 {
						siteProgs = append(siteProgs, siteProg{rel, fname, line, 1, "[IClone 0 0]", 1})
						return
					}
					var vs []string
					for i := 0; i < k; i++ {
						vs = append(vs, fmt.Sprint(i))
					}
					siteProgs = append(siteProgs, siteProg{rel, fname, line, k, "[IConcat [" + strings.Join(vs, "; ") + "] 0]", k})
				}
				ast.Inspect(fd.Body, func(n ast.Node) bool {
					switch n := n.(type) {
					case *ast.FuncLit:
						return false
					case *ast.AssignStmt:
						if n.Tok == token.DEFINE && len(n.Lhs) == len(n.Rhs) {
							for i, l := range n.Lhs {
								if id, ok := l.(*ast.Ident); ok {
									if rp := rootParam(p.info, n.Rhs[i], params, aliases); rp != nil {
										if o := p.info.Defs[id]; o != nil {
											aliases[o] = rp
										}
									}
								}
							}
						}
						// p = <fresh value>: from here on p no longer denotes the caller's slice
						if n.Tok == token.ASSIGN && len(n.Lhs) == len(n.Rhs) {
							for i, l := range n.Lhs {
								if id, ok := l.(*ast.Ident); ok {
									if o := p.info.Uses[id]; o != nil && params[o] && rootParam(p.info, n.Rhs[i], params, aliases) == nil {
										delete(params, o)
									}
								}
							}
						}
						// store-parameter: x.f = p  (exported API only)
						if exported && n.Tok == token.ASSIGN && len(n.Lhs) == len(n.Rhs) {
							for i, l := range n.Lhs {
								if _, ok := l.(*ast.SelectorExpr); ok && isByteSlice(p.info.Types[l].Type) {
									if rp := rootParam(p.info, n.Rhs[i], params, aliases); rp != nil {
										add("store-parameter", n, n.Rhs[i])
									}
								}
							}
						}
					case *ast.CallExpr:
						if id, ok := n.Fun.(*ast.Ident); ok && id.Name == "append" && len(n.Args) >= 1 {
							if _, isB := p.info.Uses[id].(*types.Builtin); isB {
								if rp := rootParam(p.info, n.Args[0], params, aliases); rp != nil && isByteSlice(p.info.Types[n.Args[0]].Type) {
									add("append-on-parameter", n, n.Args[0])
								}
							}
						}
						if sel, ok := n.Fun.(*ast.SelectorExpr); ok {
							if x, ok := sel.X.(*ast.Ident); ok {
								if (x.Name == "slices" && sel.Sel.Name == "Concat") || (x.Name == "bytes" && sel.Sel.Name == "Clone") || (x.Name == "slices" && sel.Sel.Name == "Clone") {
									for _, a := range n.Args {
										if rootParam(p.info, a, params, aliases) != nil {
											framed++
											addFramed(n, sel.Sel.Name == "Clone")
											break
										}
										if _, ok := recvField(p.info, a, recv); ok {
											framed++
											addFramed(n, sel.Sel.Name == "Clone")
											break
										}
									}
								}
							}
						}
					case *ast.CompositeLit:
						if !exported {
							return true
						}
						// only objects of this package's own types are "constructed and kept";
						// a literal of a foreign type (e.g. a proto passed to a parser) is transient
						if tv, ok := p.info.Types[n]; ok {
							t := tv.Type
							if pt, isP := t.(*types.Pointer); isP {
								t = pt.Elem()
							}
							nt, isN := t.(*types.Named)
							if !isN || nt.Obj().Pkg() != p.pkg {
								return true
							}
							// per-stream objects (io.Writer / io.Reader implementations) are the
							// per-call state of one stream, not keys, handles or primitives
							ms := types.NewMethodSet(types.NewPointer(nt))
							for _, mn := range []string{"Write", "Read", "Close"} {
								if ms.Lookup(p.pkg, mn) != nil {
									return true
								}
							}
						}
						for _, el := range n.Elts {
							kv, ok := el.(*ast.KeyValueExpr)
							if !ok {
								continue
							}
							if isByteSlice(p.info.Types[kv.Value].Type) {
								if rp := rootParam(p.info, kv.Value, params, aliases); rp != nil {
									add("store-parameter", kv, kv.Value)
								}
							}
						}
					case *ast.ReturnStmt:
						// return-field: exported method without parameters returning a []byte field of the receiver
						if exported && recv != nil && fd.Type.Params.NumFields() == 0 {
							for _, r := range n.Results {
								if isByteSlice(p.info.Types[r].Type) {
									if _, ok := recvField(p.info, r, recv); ok {
										add("return-field", n, r)
									}
								}
							}
						}
					}
					return true
				})
			}
		}
	}
	sort.Slice(sites, func(i, j int) bool {
		a, b := sites[i], sites[j]
		if a.pkg != b.pkg {
			return a.pkg < b.pkg
		}
		if a.fn != b.fn {
			return a.fn < b.fn
		}
		return a.line < b.line
	})
	return
}

func aliasSitesV(sites []aliasSite, framed int) string {
	var b strings.Builder
	b.WriteString("(* C19: places where a caller's byte slice is appended to, stored, or an\n   internal byte slice is handed out, WITHOUT a copy (syntactic scan of the\n   library's non-test packages; see harness/cmd/translate/alias.go). *)\n")
	b.WriteString("From Coq Require Import List String NArith.\nFrom Tink Require Import Heap.\nImport ListNotations.\nOpen Scope string_scope.\n")
	b.WriteString("Inductive alias_kind := AppendOnParameter | StoreParameter | ReturnField.\n")
	b.WriteString("Record alias_site := mkSite { s_pkg : string; s_fn : string; s_kind : alias_kind; s_expr : string }.\n")
	b.WriteString("Definition c19_unframed_sites : list alias_site := [")
	for i, s := range sites {
		if i > 0 {
			b.WriteString(";")
		}
		k := map[string]string{"append-on-parameter": "AppendOnParameter", "store-parameter": "StoreParameter", "return-field": "ReturnField"}[s.kind]
		fmt.Fprintf(&b, "\n  mkSite \"%s\" \"%s\" %s \"%s\" (* line %d *)", s.pkg, s.fn, k, strings.ReplaceAll(s.expr, "\"", "'"), s.line)
	}
	b.WriteString("].\n")
	fmt.Fprintf(&b, "Definition c19_framed_copy_sites : nat := %d. (* slices.Concat / bytes.Clone applied to a parameter or receiver field *)\n", framed)
	// every site as a program of model/Heap.v: (package, function, number of caller slices, program, variable kept/returned)
	sort.Slice(siteProgs, func(i, j int) bool {
		a, c := siteProgs[i], siteProgs[j]
		if a.pkg != c.pkg {
			return a.pkg < c.pkg
		}
		if a.fn != c.fn {
			return a.fn < c.fn
		}
		return a.line < c.line
	})
	b.WriteString("Definition c19_site_programs : list (string * string * nat * list instr * nat) := [")
	for i, sp := range siteProgs {
		if i > 0 {
			b.WriteString(";")
		}
		fmt.Fprintf(&b, "\n  (\"%s\", \"%s\", %d%%nat, %s, %d%%nat) (* line %d *)", sp.pkg, sp.fn, sp.nparams, sp.prog, sp.res, sp.line)
	}
	b.WriteString("].\n")
	return b.String()
}
