// Command translate regenerates coq/gen/*.v from the repository source.
//
// It type-checks packages with go/types (standard library only) and emits
//   - typed constants and literal tables, by name, evaluated exactly;
//   - straight-line integer functions (assignments, if/else, returns, calls
//     to other translated functions, conversions, + - * / % << >> & | ^ with
//     the wrap dictated by the static type of each subexpression);
//   - "enum maps": functions whose body is one switch returning constants.
//
// A function outside the subset is reported as untranslatable (never
// silently skipped): its name is listed in gen/Untranslatable.v.
package main

import (
	"flag"
	"fmt"
	"os"
	"strings"
)

func main() {
	repo := flag.String("repo", "/repo", "repository root")
	out := flag.String("out", "", "output directory")
	onlyF := flag.String("only", "", "comma separated task names (default: all)")
	listF := flag.Bool("tasks", false, "print task names and the directories they read, then exit")
	flag.Parse()
	if *listF {
		for t, d := range taskDirs {
			fmt.Println(t, strings.Join(d, " "))
		}
		return
	}
	only := map[string]bool{}
	for t := range taskDirs {
		if *onlyF == "" {
			only[t] = true
		}
	}
	for _, t := range strings.Split(*onlyF, ",") {
		if t != "" {
			only[t] = true
		}
	}
	if err := os.MkdirAll(*out, 0o755); err != nil {
		fmt.Fprintln(os.Stderr, err)
		os.Exit(2)
	}
	if err := run(*repo, *out, only); err != nil {
		fmt.Fprintln(os.Stderr, "translate:", err)
		os.Exit(1)
	}
}
