// Command translate regenerates coq/gen/*.v from the repository source.
//
// It type-checks packages with go/types (standard library only) and emits
//   - typed constants and literal tables, by name, evaluated exactly;
//   - straight-line integer functions (assignments, if/else, returns, calls
//     to other translated functions, conversions, + - * / % << >> & | ^ with
//     the wrap dictated by the static type of each subexpression);
//   - "enum maps": functions whose body is one switch returning constants.
// A function outside the subset is reported as untranslatable (never
// silently skipped): its name is listed in gen/Untranslatable.v.
package main

import (
	"flag"
	"fmt"
	"os"
)

func main() {
	repo := flag.String("repo", "/repo", "repository root")
	out := flag.String("out", "", "output directory")
	flag.Parse()
	if err := os.MkdirAll(*out, 0o755); err != nil {
		fmt.Fprintln(os.Stderr, err)
		os.Exit(2)
	}
	if err := run(*repo, *out); err != nil {
		fmt.Fprintln(os.Stderr, "translate:", err)
		os.Exit(1)
	}
}
