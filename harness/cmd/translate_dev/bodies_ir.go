package main

// C19, function-body level.  The slice-relevant behaviour of a Go function body as a program of
// coq/model/HeapProg.v (type stmt), and the root-set analysis that computes the inter-procedural
// summaries the translation of call sites needs.  The judgement "disciplined" is NOT made here:
// Coq's own_stmt re-checks every emitted body (coq/proofs/AliasBodiesProofs.v).

import (
	"fmt"
	"go/types"
	"strings"
)

// ---- which types can reach byte memory -------------------------------------------------------

type bkind int

const (
	kNone  bkind = iota
	kSlice       // a reference to raw byte memory: []byte, *[N]byte, [][]byte, map[..][]byte ...
	kArr         // byte memory held inline: [N]byte, [K][N]byte
	kObj         // a struct (or pointer to / collection of structs) with fields of the kinds above
)

var kindCache = map[types.Type]bkind{}

func kindOf(t types.Type) bkind {
	if t == nil {
		return kNone
	}
	if k, ok := kindCache[t]; ok {
		return k
	}
	cutoffFlag = false
	k := kindDepth(t, 0)
	kindCache[t] = k
	if cutoffFlag && k == kNone {
		// the search for byte memory was cut off before an answer was found: not known to be harmless
		cutoffTypes[t] = true
	}
	return k
}

var cutoffFlag bool
var visiting = map[types.Type]bool{}
var cutoffTypes = map[types.Type]bool{}

func kindDepth(t types.Type, d int) bkind {
	if t == nil {
		return kNone
	}
	if visiting[t] {
		return kNone // a cycle: bytes are reachable iff they are along an acyclic path
	}
	if d > 12 {
		switch t.Underlying().(type) {
		case *types.Struct, *types.Pointer, *types.Slice, *types.Array, *types.Map:
			cutoffFlag = true
		}
		return kNone
	}
	if _, named := t.(*types.Named); named {
		visiting[t] = true
		defer delete(visiting, t)
	}
	switch u := t.Underlying().(type) {
	case *types.Slice:
		if b, ok := u.Elem().Underlying().(*types.Basic); ok {
			if b.Kind() == types.Uint8 {
				return kSlice
			}
			return kNone
		}
		switch kindDepth(u.Elem(), d+1) {
		case kSlice, kArr:
			return kSlice
		case kObj:
			return kObj
		}
	case *types.Array:
		if b, ok := u.Elem().Underlying().(*types.Basic); ok {
			if b.Kind() == types.Uint8 {
				return kArr
			}
			return kNone
		}
		switch kindDepth(u.Elem(), d+1) {
		case kArr:
			return kArr
		case kSlice:
			return kSlice
		case kObj:
			return kObj
		}
	case *types.Pointer:
		if b, ok := u.Elem().Underlying().(*types.Basic); ok && b.Kind() == types.Uint8 {
			return kSlice // *byte: a one-element view of the memory it points into
		}
		switch kindDepth(u.Elem(), d+1) {
		case kArr, kSlice:
			return kSlice
		case kObj:
			return kObj
		}
	case *types.Map:
		switch kindDepth(u.Elem(), d+1) {
		case kSlice, kArr:
			return kSlice
		case kObj:
			return kObj
		}
	case *types.Struct:
		for i := 0; i < u.NumFields(); i++ {
			if kindDepth(u.Field(i).Type(), d+1) != kNone {
				return kObj
			}
		}
	}
	return kNone
}

func isByteElem(t types.Type) bool {
	if t == nil {
		return false
	}
	switch u := t.Underlying().(type) {
	case *types.Slice:
		b, ok := u.Elem().Underlying().(*types.Basic)
		return ok && b.Kind() == types.Uint8
	case *types.Array:
		b, ok := u.Elem().Underlying().(*types.Basic)
		return ok && b.Kind() == types.Uint8
	case *types.Pointer:
		if b, ok := u.Elem().Underlying().(*types.Basic); ok && b.Kind() == types.Uint8 {
			return true
		}
		if a, ok := u.Elem().Underlying().(*types.Array); ok {
			b, ok := a.Elem().Underlying().(*types.Basic)
			return ok && b.Kind() == types.Uint8
		}
	}
	return false
}

// ---- the program tree (mirror of HeapProg.stmt) ----------------------------------------------

type node struct {
	op   string // make sub alias phi opaque set write append copy concat clone store escape ret skip jump return seq if loop
	r, v int
	vs   []int
	kids []*node
	pos  int    // ret / escape-by-return: result position (-1 otherwise)
	why  string // escape/write: "mut" (written through) or "ret" (kept); for diagnostics: source line
	line int
	// op == "call": the possible library callees, the argument registers per callee parameter index, and
	// (kids[0]) the effect the translator attributes to the call
	callees []string
	shifts  []int // 1: the callee is a bound method value, its receiver is not among the arguments
	cargs   [][]int
}

func nSeq(kids []*node) *node { return &node{op: "seq", kids: kids} }

func joinInts(vs []int) string {
	var s []string
	for _, v := range vs {
		s = append(s, fmt.Sprint(v))
	}
	return strings.Join(s, "; ")
}

// coq prints a node as a term of HeapProg.stmt.
func (n *node) empty() bool {
	switch n.op {
	case "skip", "ret":
		return true
	case "seq", "if":
		for _, k := range n.kids {
			if !k.empty() {
				return false
			}
		}
		return true
	case "call":
		return len(n.records()) == 0 && n.kids[0].empty()
	}
	return false
}

func (n *node) coq(b *strings.Builder) {
	if n.empty() {
		b.WriteString("SSkip")
		return
	}
	switch n.op {
	case "make":
		fmt.Fprintf(b, "SMake %d", n.r)
	case "sub":
		fmt.Fprintf(b, "SSub %d %d", n.r, n.v)
	case "alias":
		fmt.Fprintf(b, "SAlias %d %d", n.r, n.v)
	case "phi":
		fmt.Fprintf(b, "SPhi %d [%s]", n.r, joinInts(n.vs))
	case "opaque":
		fmt.Fprintf(b, "SOpaque %d", n.r)
	case "set":
		fmt.Fprintf(b, "SSet %d", n.v)
	case "write":
		fmt.Fprintf(b, "SWrite %d", n.v)
	case "append":
		fmt.Fprintf(b, "SAppend %d %d", n.r, n.v)
	case "copy":
		fmt.Fprintf(b, "SCopy %d %d", n.r, n.v)
	case "concat":
		fmt.Fprintf(b, "SConcat %d [%s]", n.r, joinInts(n.vs))
	case "clone":
		fmt.Fprintf(b, "SClone %d %d", n.r, n.v)
	case "store":
		fmt.Fprintf(b, "SStore %d %d", n.r, n.v)
	case "bind":
		fmt.Fprintf(b, "SBind %d %d", n.r, n.v)
	case "storeobj":
		fmt.Fprintf(b, "SStoreObj %d %d", n.r, n.v)
	case "escape":
		fmt.Fprintf(b, "SEscape %d", n.v)
	case "ret", "skip":
		b.WriteString("SSkip")
	case "jump":
		b.WriteString("SJump")
	case "return":
		b.WriteString("SReturn")
	case "seq":
		var ks []*node
		for _, k := range n.kids {
			if k.empty() {
				continue
			}
			ks = append(ks, k)
		}
		if len(ks) == 0 {
			b.WriteString("SSkip")
			return
		}
		if len(ks) == 1 {
			ks[0].coq(b)
			return
		}
		b.WriteString("seq [")
		for i, k := range ks {
			if i > 0 {
				b.WriteString("; ")
			}
			k.coq(b)
		}
		b.WriteString("]")
	case "if":
		b.WriteString("SIf (")
		n.kids[0].coq(b)
		b.WriteString(") (")
		n.kids[1].coq(b)
		b.WriteString(")")
	case "loop":
		b.WriteString("SLoop (")
		n.kids[0].coq(b)
		b.WriteString(")")
	case "call":
		recs := n.records()
		for _, r := range recs {
			var as []string
			for _, a := range r.args {
				as = append(as, "["+joinInts(a)+"]")
			}
			fmt.Fprintf(b, "SCall %d [%s] (", r.idx, strings.Join(as, "; "))
		}
		n.kids[0].coq(b)
		b.WriteString(strings.Repeat(")", len(recs)))
	default:
		panic("node op " + n.op)
	}
}

// records: the call records of a call node whose callee is in the emitted table: (table index, argument
// registers per parameter REGISTER of the callee)
type callRec struct {
	idx  int
	args [][]int
}

func (n *node) records() []callRec {
	var out []callRec
	for ci, key := range n.callees {
		idx, ok := tableIndex[key]
		if !ok {
			continue
		}
		d := tableDecl[key]
		sh := 0
		if ci < len(n.shifts) {
			sh = n.shifts[ci]
		}
		args := make([][]int, d.tr.np)
		any := false
		for pi, r := range d.tr.paramReg {
			if r >= 0 && r < d.tr.np && pi-sh >= 0 && pi-sh < len(n.cargs) {
				args[r] = n.cargs[pi-sh]
				if len(args[r]) > 0 {
					any = true
				}
			}
		}
		if any {
			out = append(out, callRec{idx, args})
		}
	}
	return out
}

func (n *node) calls() int {
	c := 0
	if n.op == "call" {
		c = len(n.records())
	}
	for _, k := range n.kids {
		c += k.calls()
	}
	return c
}

func (n *node) canFail() bool {
	switch n.op {
	case "set", "write", "append", "copy", "store", "storeobj", "escape":
		return true
	}
	for _, k := range n.kids {
		if k.canFail() {
			return true
		}
	}
	return false
}

func (n *node) count() int {
	c := 0
	switch n.op {
	case "seq", "if", "loop", "call":
		for _, k := range n.kids {
			c += k.count()
		}
	case "skip", "ret":
	default:
		c = 1
	}
	return c
}

// ---- root-set analysis ------------------------------------------------------------------------
// A register's root set: which parameters (bits 0..61) its slice may live in, bit 63 = memory the
// function neither allocated nor got as a parameter.  Empty = only memory allocated in the call.

const opaqueBit = uint64(1) << 63

type astate []uint64

func (a astate) clone() astate { return append(astate(nil), a...) }

func joinState(a, b astate) astate {
	if a == nil {
		return b
	}
	if b == nil {
		return a
	}
	r := a.clone()
	for i := range r {
		r[i] |= b[i]
	}
	return r
}

func sameState(a, b astate) bool {
	if (a == nil) != (b == nil) || len(a) != len(b) {
		return false
	}
	for i := range a {
		if a[i] != b[i] {
			return false
		}
	}
	return true
}

// sharedBit: the object is not private to the function: a parameter, somebody else's object, or an object
// built here that has been handed out.  Storing into a private object needs nothing; storing into a shared
// one makes the stored value escape.
const sharedBit = uint64(1) << 62
const escapedBit = sharedBit

type analyzer struct {
	np       int      // parameter registers are 0..np-1
	mut      []bool   // parameter is written through: the caller must own it (write sense)
	keep     []bool   // parameter is kept / returned by an API function: the caller must own it (keep sense)
	stored   []bool   // something is stored INTO the parameter object
	links    []uint64 // per parameter register p: parameter registers (and opaqueBit) stored into p
	resRoots []uint64 // per result position: union of the root sets returned
	resSeen  []bool
	diag     []string // places where memory that is not the function's is written or escapes
	strictW  []bool   // (API function) parameters that may NOT be written: diagnostics only
	strictK  []bool   // (API function) parameters that may NOT be kept
}

// keepable: everything the register may show is memory allocated in the call or memory of a parameter the
// caller must own in the keep sense anyway
func (a *analyzer) keepable(rs uint64) bool {
	if rs&opaqueBit != 0 {
		return false
	}
	for p := 0; p < a.np; p++ {
		if rs&(1<<uint(p)) != 0 && !a.keep[p] {
			return false
		}
	}
	return true
}

func (a *analyzer) check(rs uint64, n *node, keep bool) {
	if rs&opaqueBit != 0 {
		a.diag = append(a.diag, fmt.Sprintf("line %d: %s through memory that is neither a parameter nor allocated here", n.line, n.op))
	}
	for p := 0; p < a.np; p++ {
		if rs&(1<<uint(p)) != 0 {
			if keep {
				a.keep[p] = true
				if a.strictK != nil && a.strictK[p] {
					a.diag = append(a.diag, fmt.Sprintf("line %d: %s (keep) on parameter register %d", n.line, n.op, p))
				}
			} else {
				a.mut[p] = true
				if a.strictW != nil && a.strictW[p] {
					a.diag = append(a.diag, fmt.Sprintf("line %d: %s (write) on parameter register %d", n.line, n.op, p))
				}
			}
		}
	}
}

// run returns the state at normal exit and the join of the states at break/continue (nil = unreachable).
func (a *analyzer) run(n *node, st astate) (astate, astate) {
	if st == nil {
		return nil, nil
	}
	get := func(v int) uint64 {
		if v < 0 || v >= len(st) {
			return opaqueBit | sharedBit
		}
		return st[v]
	}
	switch n.op {
	case "make", "concat", "clone":
		st[n.r] = 0
	case "sub", "alias":
		st[n.r] = get(n.v)
	case "phi":
		var u uint64
		for _, v := range n.vs {
			u |= get(v)
		}
		st[n.r] = u
	case "opaque":
		st[n.r] = opaqueBit | sharedBit
	case "set", "write":
		a.check(get(n.v), n, false)
	case "append":
		a.check(get(n.v), n, false)
		st[n.r] = get(n.v)
	case "copy":
		a.check(get(n.r), n, false)
	case "store", "storeobj":
		xr, vr := get(n.r), get(n.v)
		for p := 0; p < a.np; p++ {
			if xr&(1<<uint(p)) != 0 {
				a.stored[p] = true
			}
		}
		if xr&sharedBit == 0 {
			// a private object: it now also shows what v shows
		} else {
			if n.v >= 0 && n.v < len(st) {
				st[n.v] |= sharedBit // stored into somebody else's object: no longer private
			}
			if a.keepable(xr) {
				// a parameter object the caller owns: record the link for the call sites
				for p := 0; p < a.np; p++ {
					if xr&(1<<uint(p)) != 0 {
						a.links[p] |= vr &^ sharedBit
					}
				}
			}
			a.check(vr, n, true)
		}
		st[n.r] = xr | vr&^sharedBit
		if n.op == "storeobj" && n.r != n.v && n.v >= 0 && n.v < len(st) {
			st[n.v] = opaqueBit | sharedBit // the stored object register is dead: x speaks for the object now
		}
	case "bind":
		if n.r != n.v {
			st[n.r] = get(n.r) | get(n.v)
			if n.v >= 0 && n.v < len(st) {
				st[n.v] = opaqueBit | sharedBit
			}
		}
	case "escape":
		a.check(get(n.v), n, true)
		if n.pos >= 0 {
			a.resRoots[n.pos] |= get(n.v) &^ sharedBit
			a.resSeen[n.pos] = true
		}
		if n.v >= 0 && n.v < len(st) {
			st[n.v] |= sharedBit
		}
	case "ret":
		a.resRoots[n.pos] |= get(n.v) &^ sharedBit
		a.resSeen[n.pos] = true
	case "call":
		return a.run(n.kids[0], st)
	case "skip":
	case "jump":
		return nil, st
	case "return":
		return nil, nil
	case "seq":
		var jumps astate
		cur := st
		for _, k := range n.kids {
			var j astate
			cur, j = a.run(k, cur)
			jumps = joinState(jumps, j)
			if cur == nil {
				break
			}
		}
		return cur, jumps
	case "if":
		n1, j1 := a.run(n.kids[0], st.clone())
		n2, j2 := a.run(n.kids[1], st.clone())
		return joinState(n1, n2), joinState(j1, j2)
	case "loop":
		head := st.clone()
		for {
			nb, jb := a.run(n.kids[0], head.clone())
			nh := joinState(head, joinState(nb, jb))
			if sameState(nh, head) {
				break
			}
			head = nh
		}
		return head, nil
	}
	return st, nil
}
