package main

import (
	"go/types"
	"strconv"
	"strings"
)

// TRUSTED TABLE: the write behaviour of callees outside the library (standard library, x/crypto,
// protobuf runtime).  Key = types.Func.FullName().  Indices: for a method 0 = receiver and the
// arguments start at 1; for a function the arguments start at 0.
//
//	w<i>      the callee writes into argument i (within its capacity)
//	a<i>      the callee appends to argument i and returns the result (result 0)
//	k<i>      the callee keeps argument i in an object that outlives the call
//	r=fresh   result 0 is freshly allocated        r=opaque  result 0 is a view of memory nobody here owns
//	r=<i>     result 0 is a view of argument i     r=any     result 0 may be a view of any byte argument
//	(empty)   reads its arguments only; byte results per the package default
var extTable = map[string]string{
	// io
	"(io.Reader).Read":     "w1",
	"io.ReadFull":          "w1;m0.Read.1>1",
	"io.ReadAtLeast":       "w1;m0.Read.1>1",
	"(io.Writer).Write":    "",
	"(io.ReaderAt).ReadAt": "w1",
	"io.Copy":              "m0.Write.1>1", // a *bytes.Reader source hands views of its memory to dst.Write
	"io.ReadAll":           "r=fresh",
	// crypto/rand
	"crypto/rand.Read": "w0",
	// hash
	"(hash.Hash).Sum": "a1",
	// cipher
	"(crypto/cipher.AEAD).Seal":             "a1",
	"(crypto/cipher.AEAD).Open":             "a1",
	"(crypto/cipher.Stream).XORKeyStream":   "w1",
	"(crypto/cipher.Block).Encrypt":         "w1",
	"(crypto/cipher.Block).Decrypt":         "w1",
	"(crypto/cipher.BlockMode).CryptBlocks": "w1",
	"crypto/cipher.NewCTR":                  "",
	"crypto/cipher.NewGCM":                  "",
	"crypto/cipher.NewGCMWithNonceSize":     "",
	"crypto/cipher.NewGCMWithTagSize":       "",
	"crypto/cipher.NewCBCEncrypter":         "",
	"crypto/cipher.NewCBCDecrypter":         "",
	// encoding/binary
	"(encoding/binary.ByteOrder).PutUint16":          "w1",
	"(encoding/binary.ByteOrder).PutUint32":          "w1",
	"(encoding/binary.ByteOrder).PutUint64":          "w1",
	"(encoding/binary.ByteOrder).Uint16":             "",
	"(encoding/binary.ByteOrder).Uint32":             "",
	"(encoding/binary.ByteOrder).Uint64":             "",
	"(encoding/binary.bigEndian).PutUint16":          "w1",
	"(encoding/binary.bigEndian).PutUint32":          "w1",
	"(encoding/binary.bigEndian).PutUint64":          "w1",
	"(encoding/binary.littleEndian).PutUint16":       "w1",
	"(encoding/binary.littleEndian).PutUint32":       "w1",
	"(encoding/binary.littleEndian).PutUint64":       "w1",
	"(encoding/binary.bigEndian).Uint16":             "",
	"(encoding/binary.bigEndian).Uint32":             "",
	"(encoding/binary.bigEndian).Uint64":             "",
	"(encoding/binary.littleEndian).Uint16":          "",
	"(encoding/binary.littleEndian).Uint32":          "",
	"(encoding/binary.littleEndian).Uint64":          "",
	"(encoding/binary.bigEndian).AppendUint16":       "a1",
	"(encoding/binary.bigEndian).AppendUint32":       "a1",
	"(encoding/binary.bigEndian).AppendUint64":       "a1",
	"(encoding/binary.littleEndian).AppendUint16":    "a1",
	"(encoding/binary.littleEndian).AppendUint32":    "a1",
	"(encoding/binary.littleEndian).AppendUint64":    "a1",
	"(encoding/binary.AppendByteOrder).AppendUint16": "a1",
	"(encoding/binary.AppendByteOrder).AppendUint32": "a1",
	"(encoding/binary.AppendByteOrder).AppendUint64": "a1",
	"encoding/binary.PutUvarint":                     "w0",
	"encoding/binary.PutVarint":                      "w0",
	"encoding/binary.Uvarint":                        "",
	"encoding/binary.Varint":                         "",
	"encoding/binary.Write":                          "",
	// x/crypto hkdf: New = Expand(hash, Extract(hash, secret, salt), info); the returned reader keeps info
	"golang.org/x/crypto/hkdf.New":    "h3",
	"golang.org/x/crypto/hkdf.Expand": "h2",
	// slices: in-place mutators
	"slices.Sort":           "w0",
	"slices.SortFunc":       "w0",
	"slices.SortStableFunc": "w0",
	"slices.Insert":         "w0;r=any",
	"slices.Delete":         "w0;r=0",
	"slices.DeleteFunc":     "w0;r=0",
	"slices.Compact":        "w0;r=0",
	"slices.CompactFunc":    "w0;r=0",
	"slices.Replace":        "w0;r=any",
	"slices.Grow":           "r=0",
	"slices.Clip":           "r=0",
	// reflection / sync containers (no longer read-only by default)
	"reflect.TypeOf":          "",
	"(*sync.Map).Load":        "",
	"(*sync.Map).Delete":      "",
	"(*sync.Map).LoadOrStore": "k1;k2",
	"(*sync.Map).Store":       "k1;k2",
	// crypto/subtle
	"crypto/subtle.XORBytes":            "w0",
	"crypto/subtle.ConstantTimeCopy":    "w1",
	"crypto/subtle.ConstantTimeCompare": "",
	// bytes / slices
	"bytes.Clone":           "r=fresh",
	"slices.Clone":          "r=fresh",
	"slices.Concat":         "r=fresh",
	"bytes.Join":            "r=fresh",
	"bytes.Repeat":          "r=fresh",
	"bytes.Equal":           "",
	"bytes.Compare":         "",
	"bytes.HasPrefix":       "",
	"bytes.HasSuffix":       "",
	"bytes.Contains":        "",
	"bytes.NewReader":       "r=0",    // *bytes.Reader: an object that shows (reads from) its argument
	"bytes.NewBuffer":       "w0;r=0", // *bytes.Buffer takes over its argument as its buffer
	"(*bytes.Buffer).Write": "",
	"(*bytes.Buffer).Bytes": "r=0",
	"(*bytes.Buffer).Read":  "w1",
	"(*bytes.Buffer).Next":  "r=0",
	"(*bytes.Reader).Read":  "w1",
	"slices.Equal":          "",
	"slices.Reverse":        "w0",
	// math/big
	"(*math/big.Int).SetBytes":  "",
	"(*math/big.Int).Bytes":     "r=fresh",
	"(*math/big.Int).FillBytes": "w1;r=1",
	// encodings
	"encoding/hex.Encode":                        "w0",
	"encoding/hex.Decode":                        "w0",
	"(*encoding/base64.Encoding).Encode":         "w1",
	"(*encoding/base64.Encoding).Decode":         "w1",
	"(*encoding/base64.Encoding).EncodeToString": "",
	"(*encoding/base64.Encoding).DecodeString":   "r=fresh",
	// x/crypto
	"golang.org/x/crypto/curve25519.ScalarMult":     "w0",
	"golang.org/x/crypto/curve25519.ScalarBaseMult": "w0",
	// protobuf
	"google.golang.org/protobuf/proto.Marshal":                                   "r=fresh",
	"google.golang.org/protobuf/proto.Unmarshal":                                 "",
	"(google.golang.org/protobuf/proto.MarshalOptions).Marshal":                  "r=fresh",
	"(google.golang.org/protobuf/proto.UnmarshalOptions).Unmarshal":              "",
	"(*crypto/sha3.SHAKE).Write":                                                 "",
	"(*crypto/sha3.SHAKE).Read":                                                  "w1",
	"(*crypto/sha3.SHA3).Write":                                                  "",
	"(*crypto/sha3.SHA3).Sum":                                                    "a1",
	"encoding/asn1.Unmarshal":                                                    "r=0",
	"(google.golang.org/protobuf/encoding/protojson.UnmarshalOptions).Unmarshal": "",
	"google.golang.org/protobuf/encoding/protojson.Unmarshal":                    "",
	"(*crypto/mlkem.EncapsulationKey768).Encapsulate":                            "r=fresh;r1=fresh",
	"(*crypto/mlkem.EncapsulationKey1024).Encapsulate":                           "r=fresh;r1=fresh",
	"crypto/ed25519.GenerateKey":                                                 "r=fresh;r1=fresh",
	"golang.org/x/crypto/ed25519.GenerateKey":                                    "r=fresh;r1=fresh",
	// hashes with array results
	"crypto/sha256.Sum256": "",
	"crypto/sha256.Sum224": "",
	"crypto/sha512.Sum512": "",
	"crypto/sha512.Sum384": "",
	"crypto/sha1.Sum":      "",
}

// TRUSTED DEFAULT for callees without an entry: a function of one of these packages only reads its
// byte arguments - unless one of its []byte parameters has a name that suggests a destination (then an
// explicit entry is demanded) - and a byte-slice result is freshly allocated (freshPkgs) or may be a
// view of any byte argument (viewPkgs).
var freshPkgs = []string{
	"fmt", "errors", "strconv", "strings", "math", "math/big", "math/bits", "time", "log", "os",
	"unicode", "unicode/utf8", "encoding/hex", "encoding/base64", "encoding/json", "encoding/binary", "encoding/pem", "encoding/asn1",
	"crypto", "crypto/aes", "crypto/cipher", "crypto/ecdh", "crypto/ecdsa", "crypto/ed25519", "crypto/elliptic", "crypto/hmac", "crypto/md5",
	"crypto/rand", "crypto/rsa", "crypto/sha1", "crypto/sha256", "crypto/sha512", "crypto/sha3", "crypto/subtle", "crypto/x509", "crypto/mlkem", "crypto/hkdf",
	"crypto/internal/fips140/mldsa", "hash", "io",
	"golang.org/x/crypto/chacha20poly1305", "golang.org/x/crypto/chacha20", "golang.org/x/crypto/curve25519", "golang.org/x/crypto/hkdf",
	"golang.org/x/crypto/sha3", "golang.org/x/crypto/ed25519", "golang.org/x/crypto/poly1305", "golang.org/x/crypto/cryptobyte/asn1",
	"google.golang.org/protobuf/proto", "google.golang.org/protobuf/encoding/protojson", "google.golang.org/protobuf/encoding/prototext",
	"google.golang.org/protobuf/types/known/structpb", "google.golang.org/protobuf/types/known/wrapperspb", "google.golang.org/protobuf/reflect/protoreflect",
}
var viewPkgs = []string{"bytes", "slices", "maps", "bufio", "golang.org/x/crypto/cryptobyte"}

var destNames = map[string]bool{"dst": true, "out": true, "buf": true, "b": true, "p": true, "to": true, "dest": true, "output": true, "result": true, "dest_": true}

type mcall struct {
	iarg   int
	method string
	param  int // parameter index of the method (receiver = 0)
	target int // argument of the standard function that the method receives there
}

type extEff struct {
	writes, keeps []int
	app           int     // -1 = none
	res           string  // "", fresh, opaque, any, or an index
	res1          string  // result at position 1: "" (not spoken for) or fresh
	holds         []int   // h<i>: the (interface-typed) result is an object that holds argument i
	calls         []mcall // m<i>.<Method>.<p>><j>: calls Method of the interface value in argument i, handing argument j to its parameter p
}

func parseEff(s string) extEff {
	e := extEff{app: -1}
	for _, f := range strings.Split(s, ";") {
		f = strings.TrimSpace(f)
		if f == "" {
			continue
		}
		switch {
		case strings.HasPrefix(f, "r1="):
			e.res1 = f[3:]
		case strings.HasPrefix(f, "r="):
			e.res = f[2:]
		case f[0] == 'w':
			n, _ := strconv.Atoi(f[1:])
			e.writes = append(e.writes, n)
		case f[0] == 'm':
			// m0.Read.1>1
			var m mcall
			parts := strings.Split(f[1:], ".")
			if len(parts) == 3 {
				m.iarg, _ = strconv.Atoi(parts[0])
				m.method = parts[1]
				pt := strings.Split(parts[2], ">")
				if len(pt) == 2 {
					m.param, _ = strconv.Atoi(pt[0])
					m.target, _ = strconv.Atoi(pt[1])
					e.calls = append(e.calls, m)
				}
			}
		case f[0] == 'h':
			n, _ := strconv.Atoi(f[1:])
			e.holds = append(e.holds, n)
		case f[0] == 'k':
			n, _ := strconv.Atoi(f[1:])
			e.keeps = append(e.keeps, n)
		case f[0] == 'a':
			n, _ := strconv.Atoi(f[1:])
			e.app = n
		}
	}
	return e
}

const libPrefix = "github.com/tink-crypto/tink-go/v2"

func inList(l []string, s string) bool {
	for _, x := range l {
		if x == s {
			return true
		}
	}
	return false
}

// extLookup returns the effect of an external callee, or ok=false when nothing is known.
func extLookup(fn *types.Func) (extEff, bool) {
	key := fn.FullName()
	if s, ok := extTable[key]; ok {
		return parseEff(s), true
	}
	pkg := pkgPathOf(fn.Pkg())
	// generated protobuf code of the library: getters hand out views of the message
	if strings.HasPrefix(pkg, libPrefix+"/proto/") || strings.HasPrefix(pkg, "google.golang.org/protobuf/types/") {
		if strings.HasPrefix(fn.Name(), "Get") {
			return extEff{app: -1, res: "0"}, true // a view of the message it is called on
		}
		return extEff{app: -1, res: "fresh"}, true
	}
	fresh, view := inList(freshPkgs, pkg), inList(viewPkgs, pkg)
	if !fresh && !view {
		return extEff{}, false
	}
	sig := fn.Type().(*types.Signature)
	for i := 0; i < sig.Params().Len(); i++ {
		p := sig.Params().At(i)
		if kindOf(p.Type()) == kSlice && destNames[p.Name()] {
			return extEff{}, false
		}
	}
	e := extEff{app: -1, res: "fresh"}
	if view {
		e.res = "any"
	}
	return e, true
}
