package main

import (
	"fmt"
	"go/ast"
	"go/constant"
	"go/token"
	"go/types"
	"path/filepath"
	"sort"
	"strings"
)

// constSpec names one number of the Go source: either a package-level constant
// or the constant operand of a comparison `<lhs> <op> CONST` (lhs given as source text).
type constSpec struct {
	name string // Gallina name (gen_<name>)
	dir  string
	cnst string // package-level constant name, or ""
	lhs  string // comparison left operand text
	op   token.Token
}

// cmpLit finds the constant compared with `lhs` by `op` anywhere in the package;
// all occurrences must agree.
func cmpLit(p *pkgInfo, lhs string, op token.Token) (string, error) {
	vals := map[string]bool{}
	for _, f := range p.files {
		ast.Inspect(f, func(n ast.Node) bool {
			be, ok := n.(*ast.BinaryExpr)
			if !ok || be.Op != op {
				return true
			}
			if types.ExprString(be.X) != lhs {
				return true
			}
			if tv, ok := p.info.Types[be.Y]; ok && tv.Value != nil && tv.Value.Kind() == constant.Int {
				vals[tv.Value.ExactString()] = true
			}
			return true
		})
	}
	if len(vals) != 1 {
		var vs []string
		for v := range vals {
			vs = append(vs, v)
		}
		sort.Strings(vs)
		return "", fmt.Errorf("comparison %s %s CONST: %d distinct constants %v", lhs, op, len(vals), vs)
	}
	for v := range vals {
		return v, nil
	}
	return "", nil
}

var c14Consts = []constSpec{
	{name: "hmac_min_key_prim", dir: "internal/mac/hmac", cnst: "minKeySizeInBytes", lhs: "keySize", op: token.LSS},
	{name: "hmac_min_tag_prim", dir: "internal/mac/hmac", cnst: "minTagSizeInBytes", lhs: "tagSize", op: token.LSS},
	{name: "hmac_min_key_parse", dir: "mac/hmac", lhs: "opts.KeySizeInBytes", op: token.LSS},
	{name: "hmac_min_tag_parse", dir: "mac/hmac", lhs: "opts.TagSizeInBytes", op: token.LSS},
	{name: "hkdf_min_key_prim", dir: "prf/subtle", cnst: "minHKDFKeySizeInBytes"},
	{name: "hmacprf_min_key_prim", dir: "prf/subtle", cnst: "minHMACKeySizeInBytes"},
	{name: "hkdf_min_key_parse", dir: "prf/hkdfprf", lhs: "keySizeInBytes", op: token.LSS},
	{name: "hmacprf_min_key_parse", dir: "prf/hmacprf", lhs: "keySizeInBytes", op: token.LSS},
	{name: "cmac_key_prim", dir: "mac/subtle", cnst: "recommendedCMACKeySizeInBytes"},
	{name: "cmac_min_tag", dir: "mac/aescmac", lhs: "opts.TagSizeInBytes", op: token.LSS},
	{name: "cmac_max_tag", dir: "mac/aescmac", lhs: "opts.TagSizeInBytes", op: token.GTR},
	{name: "rsa_min_bits_prim", dir: "internal/signature", cnst: "rsaMinModulusSizeInBits", lhs: "m", op: token.LSS},
	{name: "rsa_exponent_prim", dir: "internal/signature", cnst: "rsaDefaultPublicExponent", lhs: "e", op: token.NEQ},
	{name: "rsa_min_bits_parse", dir: "signature/rsassapkcs1", lhs: "modulusSizeBits", op: token.LSS},
	{name: "rsa_pss_min_bits_parse", dir: "signature/rsassapss", lhs: "values.ModulusSizeBits", op: token.LSS},
	{name: "siv_key_prim", dir: "daead/subtle", cnst: "AESSIVKeySize"},
	{name: "ctrhmac_min_hmac_key", dir: "aead/aesctrhmac", lhs: "opts.HMACKeySizeInBytes", op: token.LSS},
	{name: "aesgcm_min_tag", dir: "aead/aesgcm", lhs: "opts.TagSizeInBytes", op: token.LSS},
	{name: "etm_min_tag", dir: "aead/subtle", cnst: "minTagSizeInBytes", lhs: "tagSize", op: token.LSS},
	{name: "jwt_max_clock_skew_minutes", dir: "jwt", cnst: "jwtMaxClockSkewMinutes"},
	{name: "kwp_min_wrap", dir: "kwp/subtle", cnst: "MinWrapSize"},
	{name: "kwp_max_wrap", dir: "kwp/subtle", cnst: "MaxWrapSize"},
	{name: "aesgcm_iv_size", dir: "internal/aead", cnst: "AESGCMIVSize"},
	{name: "aesgcm_tag_size", dir: "internal/aead", cnst: "AESGCMTagSize"},
	{name: "aesgcm_max_plaintext", dir: "internal/aead", cnst: "aesGCMMaxPlaintextSize"},
	{name: "aesgcmsiv_nonce_size", dir: "internal/aead", cnst: "AESGCMSIVNonceSize"},
	{name: "chacha_max_plaintext", dir: "internal/aead", cnst: "maxChaCha20Poly1305PlaintextSize"},
	{name: "chacha_max_ciphertext", dir: "internal/aead", cnst: "maxChaCha20Poly1305CiphertextSize"},
	{name: "aesctr_min_iv_size", dir: "internal/aead", cnst: "aesCTRMinIVSize"},
	{name: "stream_ctrhmac_nonce_size", dir: "streamingaead/subtle", cnst: "AESCTRHMACNonceSizeInBytes"},
	{name: "stream_ctrhmac_nonce_prefix_size", dir: "streamingaead/subtle", cnst: "AESCTRHMACNoncePrefixSizeInBytes"},
	{name: "stream_gcmhkdf_nonce_size", dir: "streamingaead/subtle", cnst: "AESGCMHKDFNonceSizeInBytes"},
	{name: "stream_gcmhkdf_nonce_prefix_size", dir: "streamingaead/subtle", cnst: "AESGCMHKDFNoncePrefixSizeInBytes"},
	{name: "stream_gcmhkdf_tag_size", dir: "streamingaead/subtle", cnst: "AESGCMHKDFTagSizeInBytes"},
	{name: "cmac_mul", dir: "internal/mac/aescmac", cnst: "mul"},
	{name: "nonraw_prefix_size", dir: "core/cryptofmt", cnst: "NonRawPrefixSize"},
	{name: "tink_start_byte", dir: "core/cryptofmt", cnst: "TinkStartByte"},
	{name: "legacy_start_byte", dir: "core/cryptofmt", cnst: "LegacyStartByte"},
}

// mapStructValues reads a package-level `name = map[K]struct{...}{ KEY: {f: v, ...}, ... }`
// whose keys and field values are integer constants; entries in source order.
func mapStructValues(p *pkgInfo, name string) (entries [][]string, ok bool) {
	for _, file := range p.files {
		for _, d := range file.Decls {
			gd, isGen := d.(*ast.GenDecl)
			if !isGen || gd.Tok != token.VAR {
				continue
			}
			for _, sp := range gd.Specs {
				vs := sp.(*ast.ValueSpec)
				for i, n := range vs.Names {
					if n.Name != name || i >= len(vs.Values) {
						continue
					}
					cl, isLit := vs.Values[i].(*ast.CompositeLit)
					if !isLit {
						return nil, false
					}
					for _, e := range cl.Elts {
						kv, isKV := e.(*ast.KeyValueExpr)
						if !isKV {
							return nil, false
						}
						ktv, has := p.info.Types[kv.Key]
						if !has || ktv.Value == nil || ktv.Value.Kind() != constant.Int {
							return nil, false
						}
						row := []string{ktv.Value.ExactString()}
						inner, isInner := kv.Value.(*ast.CompositeLit)
						if !isInner {
							return nil, false
						}
						for _, fe := range inner.Elts {
							fkv, isF := fe.(*ast.KeyValueExpr)
							if !isF {
								return nil, false
							}
							ftv, hasF := p.info.Types[fkv.Value]
							if !hasF || ftv.Value == nil || ftv.Value.Kind() != constant.Int {
								return nil, false
							}
							row = append(row, types.ExprString(fkv.Key), ftv.Value.ExactString())
						}
						entries = append(entries, row)
					}
					return entries, true
				}
			}
		}
	}
	return nil, false
}

var hpkeIDConsts = []string{"P256HKDFSHA256", "P384HKDFSHA384", "P521HKDFSHA512", "X25519HKDFSHA256", "MLKEM768", "MLKEM1024", "XWing",
	"HKDFSHA256", "HKDFSHA384", "HKDFSHA512", "AES128GCM", "AES256GCM", "ChaCha20Poly1305"}

func taskConsts(repo string, write func(name, body string) error) error {
	var b strings.Builder
	b.WriteString("(* minimum sizes and limits read from the Go source: package constants by name and the\n   constant operand of the named comparisons; tied to the hand-written constants of the\n   models by proofs/ConstsTie.v *)\n")
	b.WriteString("From Coq Require Import NArith List String.\nImport ListNotations.\nOpen Scope N_scope.\n\n")
	var untr []string
	for _, c := range c14Consts {
		p, err := loadPkg(filepath.Join(repo, c.dir))
		if err != nil || p == nil {
			untr = append(untr, c.name+": package "+c.dir+" not loaded")
			continue
		}
		var v string
		var ok bool
		if c.cnst != "" {
			v, ok = constValue(p, c.cnst)
			if !ok && c.lhs != "" {
				// the constant was renamed: fall back to the constant operand of the comparison it is used in
				if v2, err2 := cmpLit(p, c.lhs, c.op); err2 == nil {
					v, ok = v2, true
				}
			}
			if !ok {
				untr = append(untr, c.name+": constant "+c.dir+"."+c.cnst+" not found")
				continue
			}
		} else {
			v, err = cmpLit(p, c.lhs, c.op)
			if err != nil {
				untr = append(untr, c.name+": "+c.dir+": "+err.Error())
				continue
			}
		}
		src := c.cnst
		if src == "" {
			src = c.lhs + " " + c.op.String() + " _"
		}
		fmt.Fprintf(&b, "Definition gen_%s : N := %s. (* %s: %s *)\n", c.name, strings.Trim(v, "()"), c.dir, src)
	}
	// HPKE identifiers and the kemLengths table (C06)
	if hp, err := loadPkg(filepath.Join(repo, "hybrid/internal/hpke")); err != nil || hp == nil {
		untr = append(untr, "hpke: package hybrid/internal/hpke not loaded")
	} else {
		for _, c := range hpkeIDConsts {
			if v, ok := constValue(hp, c); ok {
				fmt.Fprintf(&b, "Definition gen_hpke_%s : N := %s. (* hybrid/internal/hpke: %s *)\n", c, strings.Trim(v, "()"), c)
			} else {
				untr = append(untr, "hpke constant "+c+" not found")
			}
		}
		if rows, ok := mapStructValues(hp, "kemLengths"); ok {
			var items []string
			for _, r := range rows {
				var fs []string
				for i := 1; i+1 < len(r); i += 2 {
					fs = append(fs, fmt.Sprintf("(\"%s\"%%string, %s)", r[i], r[i+1]))
				}
				items = append(items, fmt.Sprintf("(%s, [%s])", r[0], strings.Join(fs, "; ")))
			}
			fmt.Fprintf(&b, "Definition gen_hpke_kemLengths : list (N * list (string * N)) :=\n  [%s].\n", strings.Join(items, ";\n   "))
		} else {
			untr = append(untr, "hpke table kemLengths: not a literal map of constant structs")
		}
	}
	b.WriteString("\n")
	b.WriteString(untrDef("consts_untranslatable", untr))
	return write("RepoConsts.v", b.String())
}
