// Command c16 runs the real tink-go code on cases of property C16.
package main

import (
	"github.com/tink-crypto/tink-go/v2/verifharness/hx"
	_ "github.com/tink-crypto/tink-go/v2/verifharness/p/c16"
)

func main() { hx.CLI("C16") }
