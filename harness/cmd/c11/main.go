// Command c11 runs the real tink-go code on cases of property C11.
package main

import (
	"github.com/tink-crypto/tink-go/v2/verifharness/hx"
	_ "github.com/tink-crypto/tink-go/v2/verifharness/p/c11"
)

func main() { hx.CLI("C11") }
