// Command c13 runs the real tink-go code on cases of property C13.
package main

import (
	"github.com/tink-crypto/tink-go/v2/verifharness/hx"
	_ "github.com/tink-crypto/tink-go/v2/verifharness/p/c13"
)

func main() { hx.CLI("C13") }
