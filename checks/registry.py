"""Per-property configuration of the generic check flow.

 props      : Coq property file (coq/props/<id>.v)
 n          : generated cases per tier
 oracle     : model driver needs the stdlib oracle server
 reference  : True when the model output IS the independent reference the
              property compares with (a correspondence mismatch is then a
              property violation on that input, not merely a broken tie)
 gen_lemmas : names of lemmas about regenerated (gen/) definitions that count as
              obligations of this property
 technique  : deciding method (mirrors MANIFEST)
"""
PROPS = {
    'C11': dict(n={'quick': 400, 'thorough': 20000}, oracle=False, reference=False,
                corr='Manager.run (model/Manager.v) vs keyset.Manager on random operation histories'),
}
