"""Shared machinery of ./check: build steps, proof-obligation accounting,
correspondence run, search, evidence and replay writing."""
import fcntl, hashlib, json, os, re, subprocess, sys, time

V = '/verif'
COQ = f'{V}/coq'
BUILD = f'{V}/build'
HARNESS = f'{V}/harness'
ALLOWED_AXIOMS = {
    # standard-library axioms that may appear (named in DESIGN.md §5); none is expected
    'functional_extensionality_dep', 'proof_irrelevance', 'classic', 'JMeq_eq', 'eq_rect_eq',
}
GOENV = dict(os.environ, GOFLAGS='-mod=mod', GOPROXY='off')
GOENV.pop('GOTOOLCHAIN', None) if os.environ.get('GOTOOLCHAIN') == 'local' else None
GOENV.pop('GOSUMDB', None) if os.environ.get('GOSUMDB') == 'off' else None


def sh(cmd, timeout=3600, env=None, cwd=None):
    t = time.time()
    try:
        r = subprocess.run(cmd, shell=isinstance(cmd, str), capture_output=True, text=True,
                           timeout=timeout, env=env, cwd=cwd)
        return r.returncode, r.stdout + r.stderr, time.time() - t
    except subprocess.TimeoutExpired as e:
        out = (e.stdout or b'').decode(errors='replace') if isinstance(e.stdout, bytes) else (e.stdout or '')
        return 124, out + '\nTIMEOUT', time.time() - t


class Lock:
    """One build at a time in the shared coq/ and build/ trees."""
    def __enter__(self):
        os.makedirs(BUILD, exist_ok=True)
        self.f = open(f'{BUILD}/.lock', 'w')
        fcntl.flock(self.f, fcntl.LOCK_EX)
        return self
    def __exit__(self, *a):
        fcntl.flock(self.f, fcntl.LOCK_UN)
        self.f.close()


def coq_sources():
    out = []
    for d in ('lib', 'gen', 'model', 'proofs', 'props'):
        p = f'{COQ}/{d}'
        if os.path.isdir(p):
            out += sorted(f'{d}/{f}' for f in os.listdir(p) if f.endswith('.v') and not f.startswith('_'))
    return out


def write_if_changed(path, text):
    try:
        if open(path).read() == text:
            return False
    except OSError:
        pass
    os.makedirs(os.path.dirname(path), exist_ok=True)
    open(path, 'w').write(text)
    return True


def coq_makefile():
    proj = '-Q . Tink\n' + '\n'.join(coq_sources()) + '\n'
    if write_if_changed(f'{COQ}/_CoqProject', proj) or not os.path.exists(f'{COQ}/Makefile'):
        rc, out, _ = sh('coq_makefile -f _CoqProject -o Makefile', cwd=COQ)
        if rc != 0:
            raise RuntimeError('coq_makefile failed: ' + out)


def go_prepare():
    # go.sum of the harness follows the repository's
    try:
        write_if_changed(f'{HARNESS}/go.sum', open('/repo/go.sum').read())
    except OSError:
        pass


def go_build(target, tags='verif'):
    """(Re)build a harness command against /repo's current working tree."""
    go_prepare()
    os.makedirs(f'{HARNESS}/bin', exist_ok=True)
    return sh(['go', 'build', '-tags', tags, '-o', f'bin/{target}', f'./cmd/{target}'],
              timeout=1200, env=GOENV, cwd=HARNESS)


def translate():
    """Regenerate coq/gen/*.v from /repo's current source (translator)."""
    rc, out, dt = go_build('translate', tags='')
    if rc != 0:
        return rc, 'translator build failed:\n' + out, dt, []
    rc, out, dt2 = sh([f'{HARNESS}/bin/translate', '-repo', '/repo', '-out', f'{BUILD}/gen_tmp'], timeout=600, env=GOENV)
    changed = []
    if rc == 0:
        for f in sorted(os.listdir(f'{BUILD}/gen_tmp')):
            if f.endswith('.v') and write_if_changed(f'{COQ}/gen/{f}', open(f'{BUILD}/gen_tmp/{f}').read()):
                changed.append(f)
    return rc, out, dt + dt2, changed


def make_targets(targets, jobs=16, timeout=3000):
    coq_makefile()
    return sh(['make', f'-j{jobs}', '-k'] + targets, timeout=timeout, cwd=COQ)


def print_assumptions(vfile):
    """Re-run coqc on a props file; return [(theorem, 'closed' | [axioms...])]."""
    rc, out, dt = sh(['coqc', '-Q', '.', 'Tink', vfile], timeout=900, cwd=COQ)
    names = re.findall(r'^\s*Print Assumptions\s+([A-Za-z0-9_\.\']+)\s*\.', open(f'{COQ}/{vfile}').read(), re.M)
    blocks = []
    cur = None
    for line in out.split('\n'):
        if line.startswith('Closed under the global context'):
            blocks.append('closed'); cur = None
        elif line.startswith('Axioms:'):
            cur = []; blocks.append(cur)
        elif cur is not None and re.match(r'^[A-Za-z_][A-Za-z0-9_\.\']*\s*:', line):
            cur.append(line.split(':')[0].strip())
    res = []
    for i, n in enumerate(names):
        res.append((n, blocks[i] if i < len(blocks) else 'missing'))
    return rc, out, res


def theorem_statements(vfile, limit=3):
    src = open(f'{COQ}/{vfile}').read()
    ths = re.findall(r'((?:Theorem|Lemma)\s+[A-Za-z0-9_\']+[^.]*?(?:\.(?!\s)[^.]*?)*\.)\s', src, re.S)
    return [re.sub(r'\s+', ' ', t)[:600] for t in ths[:limit]]


def file_hash(paths):
    h = hashlib.sha256()
    for p in paths:
        try:
            h.update(open(p, 'rb').read())
        except OSError:
            h.update(b'?')
    return h.hexdigest()


def build_model(pid):
    """Extract and compile the OCaml model driver of a property."""
    lid = pid.lower()
    return sh([f'{V}/tools/build_model.sh', lid], timeout=1800)


def load_known():
    try:
        return json.load(open(f'{V}/known_findings.json'))
    except OSError:
        return []


def match_known(pid, desc):
    for k in load_known():
        if k.get('property') == pid and k.get('status') == 'known' and k.get('match') and k['match'] in desc:
            return k
    return None
