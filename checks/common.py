"""Shared machinery of ./check: workspaces, build steps, proof-obligation
accounting, correspondence run, evidence and replay writing."""
import fcntl, glob, hashlib, importlib.util, json, os, re, shutil, subprocess, sys, time

V = os.environ.get('VERIF_HOME') or os.path.dirname(os.path.dirname(os.path.abspath(__file__)))
REPO = os.path.abspath(os.environ.get('VERIF_REPO', '/repo'))
MAIN = REPO == '/repo'
# A workspace holds everything a run writes.  For /repo it is /verif itself
# (coq/ built in place, evidence/ and replays/ under /verif).  For another
# tree (VERIF_REPO=<scratch worktree>, used to try mutants without touching
# /repo) it is a private copy so that concurrent runs do not disturb each other.
WS = f'{V}/build/main' if MAIN else f'{V}/build/ws/' + hashlib.sha1(REPO.encode()).hexdigest()[:10]
COQ = f'{V}/coq' if MAIN else f'{WS}/coq'
OUT = V if MAIN else WS          # evidence/ and replays/ live here
BIN = f'{WS}/bin'
HARNESS = f'{V}/harness'
ALLOWED_AXIOMS = {'functional_extensionality_dep', 'proof_irrelevance', 'classic', 'JMeq_eq', 'eq_rect_eq'}
GOENV = dict(os.environ, GOFLAGS='-mod=mod', GOPROXY='off')
if GOENV.get('GOTOOLCHAIN') == 'local':
    del GOENV['GOTOOLCHAIN']
if GOENV.get('GOSUMDB') == 'off':
    del GOENV['GOSUMDB']


def _limit_mem(gb):
    def f():
        import resource
        resource.setrlimit(resource.RLIMIT_AS, (gb << 30, gb << 30))
    return f


def sh(cmd, timeout=3600, env=None, cwd=None, mem_gb=None):
    t = time.time()
    try:
        r = subprocess.run(cmd, shell=isinstance(cmd, str), capture_output=True, text=True,
                           timeout=timeout, env=env, cwd=cwd, preexec_fn=_limit_mem(mem_gb) if mem_gb else None)
        return r.returncode, r.stdout + r.stderr, time.time() - t
    except subprocess.TimeoutExpired as e:
        o = e.stdout or ''
        if isinstance(o, bytes):
            o = o.decode(errors='replace')
        return 124, o + '\nTIMEOUT', time.time() - t


class Lock:
    """One build at a time per workspace."""
    def __init__(self, name='build'):
        self.name = name
    def __enter__(self):
        os.makedirs(WS, exist_ok=True)
        self.f = open(f'{WS}/.{self.name}.lock', 'w')
        fcntl.flock(self.f, fcntl.LOCK_EX)
        return self
    def __exit__(self, *a):
        fcntl.flock(self.f, fcntl.LOCK_UN)
        self.f.close()


def load_props():
    props = {}
    for f in sorted(glob.glob(f'{V}/checks/props/c*.py')):
        pid = os.path.basename(f)[:-3].upper()
        spec = importlib.util.spec_from_file_location('prop_' + pid, f)
        m = importlib.util.module_from_spec(spec)
        try:
            spec.loader.exec_module(m)
        except Exception as e:  # a half-written config must not break the others
            print(f'warning: {f}: {e}', file=sys.stderr)
            continue
        props[pid] = m
    return props


def prepare_workspace():
    os.makedirs(BIN, exist_ok=True)
    os.makedirs(f'{OUT}/evidence', exist_ok=True)
    if not MAIN:
        os.makedirs(COQ, exist_ok=True)
        sh(['rsync', '-a', '--delete', '--exclude', 'gen/', f'{V}/coq/', f'{COQ}/'])
        os.makedirs(f'{COQ}/gen', exist_ok=True)


def coq_sources():
    out = []
    for d in ('lib', 'gen', 'model', 'proofs', 'props'):
        p = f'{COQ}/{d}'
        if os.path.isdir(p):
            out += sorted(f'{d}/{f}' for f in os.listdir(p) if f.endswith('.v') and not f.startswith('_'))
    return out


def write_if_changed(path, text):
    try:
        if open(path).read() == text:
            return False
    except OSError:
        pass
    os.makedirs(os.path.dirname(path), exist_ok=True)
    open(path, 'w').write(text)
    return True


def coq_makefile():
    proj = '-Q . Tink\n' + '\n'.join(coq_sources()) + '\n'
    if write_if_changed(f'{COQ}/_CoqProject', proj) or not os.path.exists(f'{COQ}/Makefile'):
        rc, out, _ = sh('coq_makefile -f _CoqProject -o Makefile', cwd=COQ)
        if rc != 0:
            raise RuntimeError('coq_makefile failed: ' + out)


def modfile():
    """go.mod/go.sum for the harness pointing at REPO (its current working tree)."""
    mod = open(f'{HARNESS}/go.mod').read().replace('=> /repo', '=> ' + REPO)
    write_if_changed(f'{WS}/harness.mod', mod)
    try:
        write_if_changed(f'{WS}/harness.sum', open(f'{REPO}/go.sum').read())
    except OSError:
        pass
    return f'{WS}/harness.mod'


def go_build(target, tags='verif', flags=()):
    """(Re)build a harness command against REPO's current working tree."""
    mf = modfile()
    tmp = f'{BIN}/.{target}.{os.getpid()}'
    rc, out, dt = sh(['go', 'build', '-modfile', mf, '-tags', tags] + list(flags) + ['-o', tmp, f'./cmd/{target}'],
                     timeout=1800, env=GOENV, cwd=HARNESS)
    if rc == 0:
        os.replace(tmp, f'{BIN}/{target}')
    return rc, out, dt


def _task_dirs():
    rc, out, _ = sh([f'{BIN}/translate', '-tasks'])
    d = {}
    for line in out.strip().split('\n'):
        f = line.split()
        if f:
            d[f[0]] = f[1:]
    return d


def _hash_go(dirs):
    h = hashlib.sha256()
    h.update(open(f'{BIN}/translate', 'rb').read())
    for d in dirs:
        base = os.path.join(REPO, d)
        for root, dn, fn in os.walk(base):
            dn[:] = sorted(x for x in dn if x != '.git')
            for f in sorted(fn):
                if f.endswith('.go') and not f.endswith('_test.go'):
                    p = os.path.join(root, f)
                    h.update(p.encode())
                    try:
                        h.update(open(p, 'rb').read())
                    except OSError:
                        pass
    return h.hexdigest()[:20]


# tasks implemented by a separate generator command (stdout = the generated file)
EXTERNAL_TASKS = {
    'enums': dict(cmd='c12tables', dirs=['.'], out='SerialTables.v'),
}


def translate(tasks=None):
    """Regenerate coq/gen/*.v from REPO's current source (the translator).
    Output of each task is cached by the hash of the Go files it reads."""
    rc, out, dt = go_build('translate', tags='')
    if rc != 0:
        return rc, 'translator build failed:\n' + out, dt, []
    td = _task_dirs()
    for name, ext in EXTERNAL_TASKS.items():
        td[name] = ext['dirs']
    if tasks is None:
        tasks = sorted(td)
    changed = []
    t0 = time.time()
    for task in tasks:
        if task not in td:
            return 1, f'unknown translator task {task}', 0, []
        key = _hash_go(td[task])
        cdir = f'{WS}/gen_cache/{task}-{key}'
        if not os.path.isdir(cdir):
            tmp = cdir + f'.tmp{os.getpid()}'
            shutil.rmtree(tmp, ignore_errors=True)
            os.makedirs(tmp)
            if task in EXTERNAL_TASKS:
                ext = EXTERNAL_TASKS[task]
                rc, out, _ = go_build(ext['cmd'], tags='')
                if rc == 0:
                    r = subprocess.run([f'{BIN}/{ext["cmd"]}', '-repo', REPO], cwd=REPO, env=GOENV, capture_output=True, text=True, timeout=1800)
                    rc, out = r.returncode, r.stderr
                    if rc == 0:
                        open(f'{tmp}/{ext["out"]}', 'w').write(r.stdout)
            else:
                rc, out, _ = sh([f'{BIN}/translate', '-repo', REPO, '-out', tmp, '-only', task], timeout=1800, env=GOENV)
            if rc != 0:
                return rc, out, time.time() - t0, changed
            os.rename(tmp, cdir)
        for f in sorted(os.listdir(cdir)):
            if f.endswith('.v') and write_if_changed(f'{COQ}/gen/{f}', open(f'{cdir}/{f}').read()):
                changed.append(f)
    return 0, '', dt + time.time() - t0, changed


GEN_MODULE_TASK = {'MldsaScalar': 'mldsa', 'AliasSites': 'alias', 'Footprints': 'footprints', 'RepoConsts': 'consts',
                   'SlhdsaParams': 'slhdsa', 'SerialTables': 'enums'}


def needed_gen_tasks(targets):
    """Translator tasks whose output the given .vo targets need: textual closure over the
    `Require` lines of the .v sources (coqdep cannot tell while a generated file is still absent)."""
    import re
    index = {}
    for d in ('lib', 'gen', 'model', 'proofs', 'props', 'extract'):
        for f in glob.glob(f'{COQ}/{d}/*.v'):
            index[os.path.basename(f)[:-2]] = f
    seen, stack, tasks = set(), [os.path.basename(t)[:-3] for t in targets], set()
    while stack:
        m = stack.pop()
        if m in seen:
            continue
        seen.add(m)
        if m in GEN_MODULE_TASK:
            tasks.add(GEN_MODULE_TASK[m])
            continue
        f = index.get(m)
        if not f:
            continue
        try:
            txt = open(f).read()
        except OSError:
            continue
        for line in re.findall(r'^\s*(?:From\s+Tink\s+)?Require\s+(?:Import|Export)?\s*([^.]*)\.', txt, flags=re.M):
            for w in line.split():
                w = w.split('.')[-1]
                if w in index or w in GEN_MODULE_TASK:
                    stack.append(w)
    return sorted(tasks)


def make_targets(targets, jobs=16, timeout=3000):
    coq_makefile()
    # each coqc may use at most 20 GB of address space: a runaway proof fails instead of exhausting the machine
    return sh(['make', f'-j{jobs}', '-k'] + targets, timeout=timeout, cwd=COQ, mem_gb=20)


def print_assumptions(vfile):
    """Re-run coqc on a props file; return [(theorem, 'closed' | [axioms...])]."""
    rc, out, dt = sh(['coqc', '-Q', '.', 'Tink', vfile], timeout=900, cwd=COQ)
    names = re.findall(r'^\s*Print Assumptions\s+([A-Za-z0-9_\.\']+)\s*\.', open(f'{COQ}/{vfile}').read(), re.M)
    blocks = []
    cur = None
    for line in out.split('\n'):
        if line.startswith('Closed under the global context'):
            blocks.append('closed'); cur = None
        elif line.startswith('Axioms:'):
            cur = []; blocks.append(cur)
        elif cur is not None and re.match(r'^[A-Za-z_][A-Za-z0-9_\.\']*\s*:', line):
            cur.append(line.split(':')[0].strip())
    return rc, out, [(n, blocks[i] if i < len(blocks) else 'missing') for i, n in enumerate(names)]


def theorem_statements(vfile, limit=3):
    src = open(f'{COQ}/{vfile}').read()
    src = re.sub(r'\(\*.*?\*\)', '', src, flags=re.S)
    ths = re.findall(r'(Theorem\s+[A-Za-z0-9_\']+.*?)\bProof\b', src, re.S)
    return [re.sub(r'\s+', ' ', t).strip()[:700] for t in ths[:limit]]


def extract_targets(pid):
    """.vo files the extraction file of a property requires (built before extraction)."""
    try:
        src = open(f'{COQ}/extract/Extract{pid}.v').read()
    except OSError:
        return []
    names = set()
    for m in re.finditer(r'From\s+Tink\s+Require\s+(?:Import|Export)?\s*([^.]+)\.', src):
        names.update(m.group(1).split())
    out = []
    for d in ('lib', 'gen', 'model', 'proofs'):
        for n in sorted(names):
            if os.path.exists(f'{COQ}/{d}/{n}.v'):
                out.append(f'{d}/{n}.vo')
    return out


def build_model(pid):
    """Extract and compile the OCaml model driver of a property."""
    return sh([f'{V}/tools/build_model.sh', pid.lower(), COQ, WS], timeout=1800, env=dict(os.environ, VERIF_HOME=V))


def load_known():
    try:
        return json.load(open(f'{V}/known_findings.json'))
    except OSError:
        return []


def match_known(pid, desc):
    for k in load_known():
        if k.get('property') == pid and k.get('status') == 'known' and k.get('match') and k['match'] in desc:
            return k
    return None


FORBIDDEN = re.compile(r'\b(Admitted|admit|Axiom|Axioms|Parameter|Parameters|Conjecture|Conjectures|Hypothesis|Hypotheses|Variable|Variables)\b|Unset\s+Guard\s+Checking|bypass_check|Unset\s+Positivity|Unset\s+Universe\s+Checking|native_compute|-type-in-type|Admit\s+Obligations')


def coq_deps(targets):
    """The .v files the given .vo targets depend on (transitively), from coqdep's .Makefile.d."""
    deps = {}
    try:
        txt = open(f'{COQ}/.Makefile.d').read().replace('\\\n', ' ')
    except OSError:
        return None
    for line in txt.split('\n'):
        if ':' not in line:
            continue
        lhs, rhs = line.split(':', 1)
        outs = [x for x in lhs.split() if x.endswith('.vo')]
        ins = [x for x in rhs.split() if x.endswith('.vo')]
        for o in outs:
            deps.setdefault(o, set()).update(ins)
    seen, stack = set(), list(targets)
    while stack:
        t = stack.pop()
        if t in seen:
            continue
        seen.add(t)
        stack += list(deps.get(t, ()))
    return sorted(x[:-1] for x in seen if os.path.exists(f'{COQ}/{x[:-1]}'))


def forbidden_constructs(vfiles):
    """Admitted/admit/Axiom/Parameter/... anywhere in the development (comments stripped).
    Variable/Hypothesis are allowed only inside a Section."""
    bad = []
    for vf in vfiles:
        try:
            src = open(f'{COQ}/{vf}').read()
        except OSError:
            continue
        src = re.sub(r'\(\*.*?\*\)', lambda m: ' ' * len(m.group(0)), src, flags=re.S)
        depth = 0
        for ln, line in enumerate(src.split('\n'), 1):
            if re.match(r'\s*(Section|Module\s+Type)\s', line):
                depth += 1
            if re.match(r'\s*End\s', line) and depth > 0:
                depth -= 1
            for m in FORBIDDEN.finditer(line):
                w = m.group(0)
                if re.match(r'(Variable|Variables|Hypothesis|Hypotheses)$', w):
                    if depth > 0 or not re.match(r'\s*(Variable|Variables|Hypothesis|Hypotheses)\b', line):
                        continue
                if w in ('Parameter', 'Parameters') and not re.match(r'\s*(Parameter|Parameters)\b', line):
                    continue
                if w == 'admit' and not re.search(r'(^|[.;\s(\[])admit\s*[.;)\]|]', line):
                    continue
                bad.append(f'{vf}:{ln}: {w}')
    return bad


def coqchk(pid, timeout=2400):
    """Independent re-check of props/<pid>.vo and its dependencies; returns (rc, axioms text, seconds)."""
    rc, out, dt = sh(['coqchk', '-silent', '-o', '-Q', '.', 'Tink', f'Tink.props.{pid}'], timeout=timeout, cwd=COQ)
    return rc, out[-3000:], dt
