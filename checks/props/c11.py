CFG = dict(
    n={'quick': 400, 'thorough': 20000},
    oracle=False,
    reference=False,
    corr='Manager.run (model/Manager.v) vs keyset.Manager on random operation histories',
    coq_targets=['props/C11.vo'],
)
MANIFEST = dict(
    text='Theorems in coq/props/C11.v, proved by induction over the operation list of an executable Gallina model of keyset.Manager (model/Manager.v): for every history from an empty manager or any well-formed handle and every id tape, every handle returned has distinct ids, exactly one ENABLED primary, known statuses and requirement-respecting ids; failing operations leave the keyset unchanged; the primary cannot be disabled/deleted; non-enabled keys cannot become primary (also through the internal AddKeyWithOpts with any option list in any order); earlier handles are unaffected; over whole histories Manager.Handle() from an empty manager fails iff no step was a successful SetPrimary, AddKeyWithOpts(AsPrimary) or NewManagerFromHandle (and from any reachable state a primary exists after a run iff one existed before or a step created one); every operation leaves the id, id requirement, key object and order of all entries untouched (an add appends exactly one entry, Delete removes exactly the first entry with that id), Enable/Disable change only the status of the entry they name, SetPrimary changes only primary flags; ids are never re-assigned during a manager lifetime: an id names the same key object (and id requirement) in every later state in which it occurs, also after Delete. The model is tied to the code by running the extracted model and the real Manager on the same random histories (tape-forced id collisions) and comparing every result and every handle.',
    note='Trusted: Coq kernel, ExtrOcamlBasic extraction + OCaml glue, the Go harness; the model is hand-written (tie = correspondence on the explored histories, not translation). Aliasing between handles and the manager is exercised by re-inspecting every earlier handle at the end of each history, not proved. The internal AddKeyWithOpts is in the op list with arbitrary option lists (WithStatus, WithFixedID, AsPrimary in any order).',
    technique='Coq proof by induction over operation histories (invariant) + differential run of the extracted model against keyset.Manager',
)
