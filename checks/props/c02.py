CFG = dict(
    n={'quick': 5000, 'thorough': 120000},
    oracle=True,
    reference=True,
    corr='dec of every AEAD scheme (checked-slice Gallina models over stdlib oracles) vs tink.AEAD.Decrypt on mutation streams (bit flips, cuts, extensions, prefix swaps, AD edits, other keys, arbitrary strings, envelope headers): exact accept/reject/panic prediction',
    coq_targets=['props/C02.vo', 'model/AeadFrame.vo', 'model/Ctr.vo', 'model/EtM.vo', 'model/Polyval.vo', 'model/GcmSiv.vo', 'model/Xaes.vo', 'model/Envelope.vo', 'model/AeadKeyset.vo', 'lib/XBase.vo'],
)
MANIFEST = dict(
    text='Theorems in coq/props/C02.v about the same executable Gallina models as C01, in which every Go slice expression is a checked slice with a Panic outcome: for every AEAD key type Decrypt returns a plaintext p for (c, ad) exactly when c is Encrypt(p, ad) under some IV of the right length (from the uniqueness law of the standard AEAD for AES-GCM, ChaCha20-Poly1305, XChaCha20-Poly1305 and XAES-256-GCM; proved from the model itself for AES-CTR-HMAC and AES-GCM-SIV); too-short or wrongly prefixed ciphertexts are errors; Decrypt of the model never panics except where the standard library itself panics (ChaCha20-Poly1305 Open above 2^38-48 bytes), which is characterised exactly; parseEnvelope never panics. The model is tied to the code by predicting accept/reject/panic for every mutant of valid ciphertexts and for arbitrary byte strings.',
    note='Unforgeability of a tag is cryptography, not a theorem: the theorem is the set-theoretic acceptance set. Trusted: Coq kernel, extraction + OCaml glue, Go harness, stdlib oracle. Ciphertexts too long to materialise (256 GiB) are predicted by a length-only function proved equivalent to the model.',
    technique='Coq proofs of exact acceptance sets and panic-freedom over checked-slice Gallina models + differential mutation run of the extracted model against tink-go Decrypt',
)
