CFG = dict(
    n={'quick': 1200, 'thorough': 30000},
    oracle=True,
    reference=True,
    corr='Prf.subtle_new / new_prf_set / compute_primary / compute_hkdf (model/Prf.v over the RFC 2104 / RFC 5869 transcriptions Hmac.hmac, Hkdf.hkdf and Cmac.cmac_impl; AES block and hashes from the stdlib oracle) vs prf/subtle, prf.NewPRFSet and subtle.ComputeHKDF: output bytes at every requested length, refusals, set ids and primary id',
    coq_targets=['props/C15.vo'],
)
MANIFEST = dict(text='placeholder', note='placeholder', technique='Coq proof + differential run')
