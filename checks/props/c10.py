CFG = dict(
    n={'quick': 4000, 'thorough': 60000},
    oracle=True,
    reference=True,
    translate=['mldsa'],
    corr='gen/MldsaScalar.v kernels, MldsaPoly (ntt/intt, bit packing, hint packing, sampling) and Mldsa.keyGenInternal/sign/verify/tinkSign/tinkVerify/signPrehash (model over the stdlib SHAKE oracle) vs internal/signature/mldsa (kernels through verif_export.go), signature/mldsa through keyset handles and signprehash/mldsa, ML-DSA-44/65/87',
    coq_targets=['proofs/MldsaScalarProofs2.vo', 'proofs/MldsaTableProofs.vo', 'props/C10.vo'],
)
MANIFEST = dict(
    text='TODO',
    note='TODO',
    technique='Coq proof (arithmetic over Z with explicit wrap-around for the regenerated scalar kernels; induction over lists/layers for packing, hints and the NTT) about an executable Gallina model of ML-DSA + differential run of the extracted model over a stdlib SHAKE oracle against tink-go',
)
