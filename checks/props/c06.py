CFG = dict(
    n={'quick': 600, 'thorough': 12000},
    oracle=True,
    reference=True,
    corr='Hpke/Xwing/Ecies models (extracted, over stdlib oracles) vs hybrid/hpke and hybrid/ecies primitives: decrypt, byte-for-byte recomputation of Tink ciphertexts, model-made ciphertexts decrypted by Tink, fresh deterministic encryption, mutation stream',
    coq_targets=['props/C06.vo'],
)
MANIFEST = dict(
    text='Theorems in coq/props/C06.v about executable Gallina models of Tink\'s HPKE (RFC 9180 base mode: labeled extract/expand, suite ids, key schedule, nonce, DHKEM, X-Wing combiner, ML-KEM as oracle, prefix||enc||AEAD framing) and ECIES-AEAD-HKDF (point formats, HKDF over encoded point||dh, DEM framing).',
    note='Trusted: Coq kernel, ExtrOcamlBasic extraction + OCaml glue, Go harness, stdlib oracle.',
    technique='Coq proof over an executable model with stdlib primitives as Section variables + differential run of the extracted model against the real primitives, both directions',
)
