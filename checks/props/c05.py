CFG = dict(
    translate=['consts'],
    gen_lemmas=['proofs/ConstsTieC05.v: constants regenerated from the Go source (gen/RepoConsts.v) equal the constants of the model'],
    n={'quick': 1500, 'thorough': 40000},
    oracle=False,
    reference=False,
    corr='Factory.accept_o/mac_accept_o/accept_all/produce/prf_map (model/Factory.v, over Manager.run for histories) vs the keyset factories of aead, daead, mac, signature, hybrid, jwt, streamingaead, prf on generated keysets',
    coq_targets=['proofs/ConstsTieC05.vo', 'props/C05.vo'],
)
MANIFEST = dict(
    text='Theorems in coq/props/C05.v about an executable Gallina model (model/Prefix.v, model/Factory.v) of output prefixes, internal/prefixmap and the selection loops of every keyset-primitive factory: the prefix-map lookup equals the specification candidate list (enabled keys whose 5-byte prefix equals the first 5 bytes of the input, in keyset order, then enabled RAW keys); an input is accepted by exactly the first such candidate under which it is valid, so inputs valid only under disabled, destroyed, removed or foreign keys are rejected; the logged id is the id of that key; the MAC second pass and length guard, the try-every-key rule (JWT, streaming) and the PRF id map are characterised; legacy adapters never slice out of range; the producing side uses the unique primary and the output carries its prefix; with distinct ids at most one prefixed key is a candidate. Composition with the C11 manager model: after ANY manager history the handle satisfies the premises. The model is tied to the code by running the extracted model and the real factories on generated keysets (all classes, key-type mixes incl. legacy-primitive stubs, all prefix types and statuses, ids 0 and 2^32-1, explicit protos and Manager histories) and comparing accept/reject, logged key ids, output prefix and output bytes; a direct oracle independent of the model re-derives every verdict from single-key primitives.',
    note='Trusted: Coq kernel, ExtrOcamlBasic extraction + OCaml glue, the Go harness (single-key primitives are obtained with factoryutil.PrimitiveFromKey; legacy primitives are toy stubs registered in core/registry). Validity under one key is an abstract predicate (Section variable / verdict table computed by the real single-key primitives): what a single key accepts is the subject of C01-C04, C06-C09. The model is hand-written (tie = correspondence on the explored keysets). Deviation modelled and excluded from the direct oracle: wrappedMAC.VerifyMAC refuses every tag of 5 bytes or fewer.',
    technique='Coq proof (list induction, case analysis) about a model of the prefix map and factory loops, composed with the C11 manager invariant + differential run of the extracted model against the real factories',
)
