CFG = dict(
    n={'quick': 340, 'thorough': 16000},
    oracle=True,
    reference=True,
    corr='Slhdsa.keygen/sign/verify/tink_sign/tink_verify (model/Slhdsa*.v over the stdlib hash oracle) vs internal/signature/slhdsa and signature/slhdsa through keyset handles, all twelve parameter sets',
    coq_targets=['props/C16.vo'],
)
MANIFEST = dict(
    text='TODO',
    note='TODO',
    technique='Coq proof (induction over chain length, tree height, layers) about an executable Gallina model of SLH-DSA + differential run of the extracted model over a stdlib hash oracle against tink-go',
)
