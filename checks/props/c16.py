# C16 — SLH-DSA keys and signatures conform to FIPS 205 on every input.
# n is a budget, not a case count: the model answers every hash call through
# the stdlib oracle (~50 µs), so the generator spends n * 2500 hash calls on
# the expensive classes (keygen, sign, full verification) and adds the free
# classes (wrong lengths, bad keys, long contexts, wrong prefixes) on top.
CFG = dict(
    translate=['slhdsa'],
    gen_lemmas=['gen/SlhdsaParams.v regenerated from the composite literals and newParams calls of internal/signature/slhdsa/slhdsa.go; C16_parameter_sets_wellformed and C16_derived_values are re-checked against it',
                'proofs/ConstsTieC16.v: the twelve regenerated sets (table x hash family), their public-key length 2n and the signature length verifyInternal checks equal the twelve literal rows of FIPS 205 Table 2 (model/SlhdsaFips.v: n, h, d, h\', a, k, lg_w, m, pk bytes, sig bytes, section-11 family); Table 2 is consistent with the standard\'s formulas; all twelve satisfy fips_wf'],
    n={'quick': 340, 'thorough': 8000},
    oracle=True,
    reference=True,
    corr='Slhdsa.keygen/sign/signDeterministic/verify/tink_sign/tink_verify (model/Slhdsa*.v over the stdlib hash oracle) '
         'vs internal/signature/slhdsa and signature/slhdsa through keyset handles (signature.NewSigner/NewVerifier), all twelve parameter sets',
    coq_targets=['props/C16.vo'],
    rule='cases drawn from one PRNG state (VERIF_SEED) after the corpus (12 reference-implementation known answers); '
         'distinct = distinct (operation, parameter set, mutation label, outcome) strings; the number of expensive cases is '
         'bounded by a hash-call budget, see harness/p/c16/gen.go',
    trusted=['stdlib oracle ops used: hash sha256, hash sha512, shake256, hmac sha256, hmac sha512 (Go crypto/sha256, crypto/sha512, crypto/sha3, crypto/hmac)',
             'model/SlhdsaFips.v is a hand transcription of the FIPS 205 text (Algorithms 2-20, 22, 24, Table 1, Table 2, sections 9.1 and 11); its fidelity to the printed standard is by reading'],
    assumptions=['structural theorems assume of the six hash functions only their output length (hashes_ok); '
                 'C16_twelve_sets_* derives it from the digest lengths of SHA-256/SHA-512/SHAKE256/HMAC',
                 'the FIPS 205 equalities assume fips_wf of the parameter record (proved for the twelve sets) and that the family over address records agrees pointwise with a family over 32-byte ADRS strings (hashes_agree; proved for hash.go\'s three instantiations against FIPS 205 section 11 from the SHA-256 / SHA-512 digest lengths); no premise on any input',
                 'rejection of a modified signature is proved as a reduction (premises hashes_ok, params_wf, hashes_wfb, digits_wf): two accepted signatures with the same digest selectors have equal bodies, or the LOCATED switch sig_switch, or the LOCATED collision located_collision (both booleans computed from the two signatures) is true',
                 'digest-changing modifications are reduced to the explicit target-subset event (an accepted signature has the key holder\'s body for its own (R, message), i.e. reveals the PRF secrets at all k selected FORS leaves, or switch / collision); that this event is infeasible rests on target-subset resilience of H_msg and PRF secrecy, which are not hash laws of this development; a modified PK.seed is checked by the correspondence only'],
)
MANIFEST = dict(
    text='Theorems in coq/props/C16.v about an executable Gallina model of internal/signature/slhdsa that follows the Go code '
         '(one mutable ADRS threaded through chain/WOTS+/XMSS/FORS/hypertree, uint32/uint64 wrap-around explicit, digest split with masks, '
         'key encodings, context wrapper, Tink output prefix) over ABSTRACT hash functions: for every parameter record with h = d*hp, d >= 1 '
         '(the twelve sets satisfy it by computation) and every hash family with n-byte outputs, for all seeds, messages, contexts <= 255 bytes '
         'and randomizers, Sign succeeds, the signature has the FIPS 205 size and Verify under the generated key accepts it; a signature of any '
         'other length is rejected; idx_leaf < 2^h\' and idx_tree < 2^(h-h\') for every digest; base_2^b returns the big-endian base-2^b digits '
         '(value equation, all widths <= 25 despite the wrapping uint32 accumulator); toInt/toByte are big-endian and inverse; the WOTS+ checksum '
         'digits encode sum(w-1-m_i) exactly; chain composition; WOTS+, XMSS (every leaf index), FORS (every digest) and hypertree completeness as '
         'coded, address threading included; the threaded functions equal FIPS-205-shaped ones with explicit addresses; derived len1/len2/len and '
         'key/signature sizes per set. STRETCH: model/SlhdsaFips.v transcribes FIPS 205 from the text of the standard independently of the code and of the '
         'implementation model (unbounded integers; toInt/toByte/base_2b = Alg 2-4; ADRS = 32-byte string with the Table 1 member functions as byte splices, '
         'passed by value; Alg 5-20, 22, 24 line by line with the standard\'s slices, h/d, ceilings, mod 2^(h-h/d); section 11 with ADRS^c, Trunc_n, MGF1; Table 2 '
         'as literals) and the theorems prove, for every parameter record satisfying fips_wf, every pair of agreeing hash families and ALL byte strings as '
         'inputs: signInternal = slh_sign_internal (Alg 19), verifyInternal = slh_verify_internal (Alg 20), keygen = slh_keygen_internal (Alg 18) with the '
         'section 9.1 encoding, sign/verify = slh_sign/slh_verify (Alg 22/24) around the key decodings, tink_sign/tink_verify = output prefix around those; '
         'toByte, toInt (mod 2^64), base_2b (b <= 25), len1/len2/len, every ADRS setter/getter and the 22-byte compression equal the standard\'s; hash.go\'s three '
         'instantiations equal FIPS 205 section 11; the twelve regenerated parameter sets equal the twelve literal rows of Table 2 (with pk/sig byte counts) and '
         'satisfy fips_wf, so all twelve sets as instantiated by hash.go compute FIPS 205 (C16_twelve_sets_compute_fips_205) and their key pairs are consistent '
         '(C16_twelve_sets_keypair_consistency). A signature of the wrong length is rejected by verifyInternal, verify and tink_verify; tink_verify accepts exactly '
         'prefix || s with s accepted by verify. Modified signatures (repaired after the second and third audits: BOTH events are now LOCATED booleans computed from the two given signatures; the earlier unlocated existentials were true for free -- the WOTS+ one for the holder of the chain starts, the collision one by pigeonhole under the output laws): under hashes_ok, params_wf, hashes_wfb (outputs are byte strings) and digits_wf (len1*lg_w = 8n, 1 <= lg_w <= 25, len2*lg_w <= 32; the twelve sets satisfy it), two accepted (message, signature) pairs under one key whose digests select the same FORS indices / tree / leaf have equal bodies SIG_FORS || SIG_HT, or sig_switch = true (at some hypertree layer the WOTS+ parts of their XMSS blocks lead to the same WOTS+ public key although the base-w digit strings, checksum included, of the values signed there differ), or located_collision = true (the traces (function, ADRS, input) of the two verifications contain two calls of the same function among F, H, T_l with the same ADRS on different inputs of equal length with equal outputs; C16_located_collision_meaning) -- C16_two_accepted_signatures_reduction, C16_modified_signature_reduction at verifyInternal / verify / tink_verify, C16_twelve_sets_modified_signature_reduction from stdlib-primitive laws only. C16_located_switch_is_chain_walking_both_ways is stated at the layer, address and values that the function sig_switch_find computes and at the chains that first_lt computes: chain walking in both directions (explicit step counts) or the located collision; C16_wots_digit_strings_are_an_antichain. Digest-changing modifications: for a generated key pair, ANY accepted signature sig\' is compared with genuine_sig, the signature Algorithm 19 produces for the same message and randomizer R\' = sig\'[0:n] (signInternal = genuine_sig at R = PRF_msg(...)): sig\' has the genuine body, or the located switch / collision is true of the pair (C16_accepted_signature_vs_key_holders_signature); the genuine body reveals, for every one of the k FORS indices of the digest, exactly the PRF secret of that leaf (C16_genuine_body_reveals_the_prf_secrets) -- the explicit target-subset event; C16_two_merkle_openings_cross is the Merkle fact. Examples: on the toy family one accepted pair has located_collision = true and sig_switch = false (explicit H collision, both entries in the traces), another (made with the secret seed) has sig_switch = true and located_collision = false. The model is tied to the code by running the extracted model over a stdlib hash oracle and tink-go on the '
         'same inputs for all twelve sets: public key from seeds byte-identical, deterministic/randomized/Tink-API signatures byte-identical, '
         'accept/reject of genuine, modified and wrong-length signatures, messages, contexts and keys identical; the model also accepts the '
         'reference implementation\'s known-answer signatures. Keys CREATED by Tink (keyset.Manager.AddNewKeyFromParameters, seeds and id on the tape) are '
         'checked for every set and both variants: PK.root = root of the NAMED set for the seeds (internal deterministic key generation and, for the f sets, the model), '
         'sizes per Table 2, and the generated f-set keys sign and verify through the Tink API and the internal Verify.'
         ' The key\'s OWN verifier (slhdsa.NewVerifier, without the keyset wrapper that pre-selects by prefix) is run on the whole prefix family for every parameter set (tk cases: bare FIPS 205 signature on a TINK key, other id, CRUNCHY start byte, flipped prefix bit, doubled prefix, prefixed signature on a NO_PREFIX key) against the model\'s tink_verify.',
    note='Trusted: Coq kernel, ExtrOcamlBasic extraction + OCaml glue, the Go harness and the stdlib oracle (Go crypto/sha256, sha512, sha3, hmac); '
         'the reading of the FIPS 205 text behind model/SlhdsaFips.v. '
         'The implementation model is hand-written (tie = correspondence on the explored inputs; the parameter tables are regenerated by the translator and tied to Table 2). '
         'The collision and switch conclusions are booleans computed from the two signatures (located_collision, sig_switch), not existentials. '
         'In the quick tier the s sets are covered by '
         'verification of Tink signatures and one randomly chosen s-set key generation; s-set signing is compared in the thorough tier only '
         '(about 2-4 million oracle calls each). uint32 overflow of node indices (i<<1, (i<<a)+idx) is not modelled: it cannot occur for hp, a < 32.',
    technique='Coq proof (induction over chain length, tree height, climb steps, hypertree layers; arithmetic by lia/nia) about an executable Gallina '
              'model of SLH-DSA over abstract hash functions + differential run of the extracted model over a stdlib hash oracle against tink-go',
)
