CFG = dict(
    n={'quick': 2500, 'thorough': 60000},
    oracle=False,
    reference=False,
    corr='Jwt.verify / new_raw_jwt / encode (model/Jwt.v, Base64url.v) vs jwt.NewMAC / NewVerifier / NewSigner / NewRawJWT / NewValidator / JWK export-import on generated and hand-assembled tokens',
    coq_targets=['props/C09.vo'],
)
MANIFEST = dict(
    text='TODO',
    note='TODO',
    technique='Coq proof that the executable decision procedure equals the conjunction of rules + differential run of the extracted model against the jwt package',
)
