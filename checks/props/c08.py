CFG = dict(
    translate=['consts'],
    gen_lemmas=['proofs/ConstsTieC08.v: KWP size limits regenerated from the Go source (gen/RepoConsts.v) equal the constants of the model'],
    n={'quick': 150, 'thorough': 3000},
    oracle=True,
    reference=True,
    corr='Siv.daead_encrypt/daead_decrypt (model/Siv.v over Cmac.v) vs daead.New / aessiv / daead/subtle.NewAESSIV, and Kwp.kwp_wrap/kwp_unwrap (model/Kwp.v) vs kwp/subtle, byte-equal outputs and exact accept/reject on mutated inputs; AES block operations from the stdlib oracle',
    coq_targets=['proofs/ConstsTieC08.vo', 'props/C08.vo'],
    assumptions=['AES block encryption returns 16 bytes below 256 on 16-byte inputs (hypothesis of the SIV theorems)',
                 'AES block decryption and encryption under one key are mutually inverse on 16-byte blocks and return 16 bytes (hypotheses of the KWP theorems)'],
)
MANIFEST = dict(
    text='Theorems in coq/props/C08.v about executable Gallina models written after the Go control flow of daead/subtle/aes_siv.go, daead/aessiv/daead.go, internal/mac/aescmac XOREndAndCompute (model/Siv.v, model/Cmac.v) and kwp/subtle/kwp.go (model/Kwp.v), for all keys, plaintexts, associated data and lengths: the streaming xor-end CMAC equals CMAC of (data xorend last) for every length >= 16; S2V as coded equals RFC 5297 S2V; the coded encryption equals the RFC 5297 SIV value with the output prefix; encryption is a function; decryption inverts it and accepts exactly the ciphertexts encryption produces (every other ciphertext / associated data is rejected), never panics on short input. KWP: wrappingSize n = 8*ceil(n/8)+8; W as coded equals RFC 3394 indexing t = n*j+i and RFC 5649 wrapping; Unwrap inverts Wrap for 16..8192 bytes; Unwrap accepts exactly RFC 5649 wrappings (of 9..8192-byte keys), every other input is rejected. Models are tied to the code by running the extracted models (AES from the stdlib oracle) and the real code on the same inputs: all plaintext/AD lengths 0..48, random larger, all variants and construction paths, KWP sizes 16..80 and sampled to 8192, both KEK sizes, mutated / truncated / extended / foreign inputs; RFC 5297 A.1/A.2 and RFC 5649 section 6 vectors pin the RFC transcriptions.',
    note='Trusted: Coq kernel, ExtrOcamlBasic extraction + OCaml glue, Go harness, stdlib oracle (crypto/aes). AES is a Section variable: theorems assume only that the block function returns 16 bytes (and, for KWP, that decrypt/encrypt are mutually inverse). Models are hand-written (tie = correspondence on the explored inputs). "Rejects every forgery" is the exact-acceptance theorem (accepted iff equal to what encryption produces), not a computational unforgeability claim. Unwrap also accepts RFC 5649 wrappings of 9..15-byte keys, which Wrap refuses to produce (proved and exercised; recorded as an asymmetry, not a violation). Timing behaviour (constant-time comparison) is modelled only functionally.',
    technique='Coq proof (induction over blocks / rounds, list arithmetic) about executable models + differential run of the extracted models against the real primitives with AES answered by a stdlib oracle',
)
