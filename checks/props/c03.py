CFG = dict(
    n={'quick': 1500, 'thorough': 40000},
    oracle=True,
    reference=True,
    corr='Sig.ecdsa_verify / ed25519_verify / pkcs1_verify / pss_verify, DER.der_decode / der_encode, Sig.p1363_* (model over stdlib oracles) vs tink-go Sign/Verify and the ECDSA codecs on fresh signatures, their mutations and re-encodings',
    coq_targets=['props/C03.vo'],
)
MANIFEST = dict(
    text='placeholder',
    note='placeholder',
    technique='Coq proof (canonical uniqueness of the DER and P1363 codecs, exact acceptance set of the verifiers, no panic) + differential run of the extracted model with stdlib oracles against tink-go',
)
