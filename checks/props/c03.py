CFG = dict(
    n={'quick': 1500, 'thorough': 20000},
    oracle=True,
    reference=True,
    corr='Sig.ecdsa_verify / ed25519_verify / pkcs1_verify / pss_verify over Rsa8017.rfc_pkcs1_verify / rfc_pss_verify, DER.der_decode / der_encode / parse_sig, Sig.p1363_* '
         '(extracted model over stdlib oracles) vs tink-go Sign/Verify (per-key constructors, keyset handle + signature factory, '
         'signature/subtle, internal/signature) and the ECDSA codecs, on fresh signatures, their mutations and re-encodings',
    coq_targets=['props/C03.vo'],
    rule='one case = (kind V/S/D/E, API, scheme, parameters, variant, mutation label, observed result); distinct = distinct such '
         'class strings computed by the harness; all random choices from one PRNG state (VERIF_SEED); RSA keys are fresh per run',
    trusted=['stdlib oracle ops used by the model run: hash, ecdsa_verify (crypto/ecdsa.Verify on (r,s)), ed25519_verify, rsa_ep (s^e mod n, math/big); '
             'RSA verification itself is the extracted Coq transcription of RFC 8017 (model/Rsa8017.v). The direct oracle (no model) uses '
             'crypto/rsa.VerifyPKCS1v15 and harness/p/c03/pssref; pssref = (RFC 8017 EMSA-PSS transcription over math/big, salt length enforced exactly; '
             'cross-checked against crypto/rsa.VerifyPSS for every sLen >= 1 case)',
             'oracle hypotheses of the sign-then-verify theorems: raw_verify pk h (raw_sign sk h) = true (ECDSA, Ed25519; for RSA proved from rsaep(rsadp m) = m on [0,n) and the hash length/byte laws), r,s < 256^field_size, |ed25519 sig| = 64'],
    assumptions=['ECDSA / EdDSA / RSA mathematics and the hash functions are oracles (Section variables): the theorems hold for every instantiation',
                 'DER lengths of 2^32 bytes and more are outside the theorem (cryptobyte accepts at most 4 length octets; side condition der_fits)'],
)
MANIFEST = dict(
    text='Theorems in coq/props/C03.v about executable Gallina models of the tink-go signature layer (model/DER.v: strict DER of '
         'SEQUENCE{INTEGER r, INTEGER s} as ASN1Decode/ASN1Encode and crypto/ecdsa.VerifyASN1 accept and produce it; model/Sig.v: output prefix '
         'and its check, LEGACY 0x00 suffix, hash choice, IEEE P1363 fixed-width codec 64/96/132, Ed25519 64-byte rule, RSA modulus >= 2048 / '
         'e = 65537 / hash rules, PSS salt length passed to the verification), with the standard algorithms as universally quantified oracles: '
         '(1) canonical uniqueness of DER: for every byte string b and all integers r, s, der_decode b = Some (r,s) <-> b = der_encode r s '
         '(so non-minimal INTEGERs, leading 00/ff, long-form/indefinite lengths, trailing bytes inside or outside are rejected; negative values '
         'are rejected by the verification-path parser); (2) P1363 encode/decode are mutually inverse and every other length is rejected; '
         '(3) exact acceptance sets: Verify accepts sig for msg <-> sig = prefix || encoding(r,s) with raw_verify pk H(msg || legacy suffix) r s '
         '(ECDSA), <-> sig = prefix || 64-byte body accepted by Ed25519, <-> sig = prefix || body accepted by RSASSA-PKCS1 / RSASSA-PSS with '
         'exactly the key\'s salt length; (4) Sign output verifies under the oracle law; (5) wrong or missing prefix, other key id/variant, '
         'wrong-length P1363 are rejected; LEGACY = CRUNCHY over msg||00; (6) no input makes a verifier panic (checked slices); (7) key rules. '
         'Second round (proofs/SigProofs2.v): (8) the RSA fixed-length rule -- crypto/rsa rejects len(sig) <> modulus byte length before the RSA '
         'operation and tink-go adds no check of its own, so the standard verification is modelled as std_pkcs1 core / std_pss core = length '
         'check then an arbitrary core: rsa_sig_len n = (BitLen+7)/8 independent of leading zero bytes of the modulus encoding and >= 256 for '
         'accepted keys; for every key, message, hash and core, every byte string of total length <> |prefix| + modulus length is rejected, the '
         'zero-stripped and the zero-extended form of an accepted signature are rejected (same integer), and Sign output is prefix || body with '
         '|body| = modulus length under the law that the oracle verifier accepts the oracle signer; (9) explicit rejections for Ed25519 and RSA, for '
         'all inputs: no/wrong prefix, every total length other than |prefix|+64 resp. |prefix|+k, what is accepted under one output prefix is '
         'rejected under every other (other id, other start byte, RAW vs prefixed in both directions; prefixes equal iff same start byte and id), '
         'appended bytes and cuts at either end of an accepted signature; LEGACY on Sign for all four schemes (= CRUNCHY frame over msg||00); '
         '(10) modified message / other key, with NO unforgeability law assumed (proofs/SigProofs3.v, repaired after the second audit): for ECDSA, '
         'Ed25519, PKCS1, PSS and every oracle, Verify accepts a signature that Sign produced, under a FIXED other key and/or other message, iff '
         'the primitive oracle accepts the genuine raw signature under that key for that message representative (a named event, no hardness '
         'claim; rejects iff the oracle answers false); same key and other message: acceptance exhibits an oracle acceptance of the genuine raw '
         'signature under the SAME key for another representative (the EUF-CMA shaped event) or a hash collision on two distinct strings; other '
         'key: the literal clause "rejected under other keys" is REFUTED for ECDSA (C03_ecdsa_other_key_rejected_refuted): under the public-key '
         'recovery law, which real ECDSA satisfies, the genuine signature is accepted for any message under the key recovered from it. '
         'Third round (model/Rsa8017.v, proofs/Rsa8017Proofs.v): RFC 8017 transcribed from the RFC in Coq -- I2OSP/OS2IP, RSAVP1, EMSA-PKCS1-v1_5 with '
         'the DigestInfo prefixes, MGF1, EMSA-PSS-ENCODE/-VERIFY, RSASSA-PKCS1-v1_5 and RSASSA-PSS sign and verify -- over the oracles Hash, '
         'x^e mod n and x^d mod n: (11) EMSA-PSS-VERIFY accepts exactly the EMSA-PSS encodings of mHash with a salt of exactly sLen octets and an '
         'encoded message determines its salt (only law: hash length); (12) RSASSA sign-then-verify for PKCS1 and PSS from the RFC algorithms alone, '
         'under the round-trip law of the RSA permutation on [0,n) and the length / byte-range laws of the hash (the law "verify accepts sign" of '
         '(4) is thereby PROVED for this instance, not assumed); (13) the RFC verifications are length-check-then-core, so (8) and (9) hold for them; '
         'tink-go Verify with the RFC verifier accepts sig iff sig = prefix || body with RSASSA-*-VERIFY(body, Hash(msg || legacy suffix)) and accepts '
         'prefix || RFC signature. These extracted RFC functions ARE the standard RSA verification of the model run: the standard library answers '
         'only the hash and s^e mod n (math/big); crypto/rsa appears only in the separate direct oracle. '
         'The models are tied to the code by running the extracted model (OCaml, stdlib oracle for hash/ECDSA/Ed25519/RSA) and tink-go on the same '
         'cases: fresh Tink signatures for every curve x hash x encoding x variant, Ed25519, RSA 2048/3072 x SHA256/384/512 x PKCS1/PSS salt '
         'lengths through four API levels, and a mutation / re-encoding stream (non-minimal INTEGER, leading 00/ff, long-form and indefinite '
         'lengths, trailing bytes, negative, zero, r+n, n-s, swapped, wrong width, prefix edits, other key, other variant/hash/salt, modified '
         'message, truncation, bit flips, random strings; RSA len-1 / len+1 front and back, PKCS1 and PSS genuine signatures with a leading '
         'zero byte presented zero-stripped; the ECDSA key recovered from a fresh signature, which must be ACCEPTED) with exact accept/reject prediction -- decided by the extracted RFC 8017 functions (length check, '
         'RSAVP1 range check, I2OSP, EMSA comparison / EMSA-PSS-VERIFY with strict salt length), a dozen directed zero-stripped cases per run; plus a direct oracle (no model) comparing tink-go '
         'with a stdlib-only strict verifier, checking own signatures, stdlib-equality of deterministic signatures and rejection of mutants.',
    note='Trusted: Coq kernel, ExtrOcamlBasic extraction + OCaml glue, the Go harness and the stdlib oracle (Go standard library taken as the '
         'definition of the standard algorithms; for RSA the model run uses its own Coq transcription of RFC 8017 over hash and modular exponentiation; the 100-line Go '
         'transcription pssref serves the direct oracle because crypto/rsa reads salt length 0 as auto). The models are hand-written: the tie is the correspondence on the explored cases, not a '
         'translation. Cryptographic unforgeability is not a theorem: "modified signatures are rejected" is proved in the set-theoretic form '
         '(accepted iff it is the unique encoding of a pair the standard verification accepts), "modified message / other key rejected" as a '
         'named oracle event (iff) and, for the same key, as a reduction to an oracle forgery or hash collision; no no-forgery law is assumed '
         '(such a law is false of every real primitive: ECDSA key recovery and digest truncation, RSA key selection with a free exponent, counting). '
         '"Rejected under other keys" therefore holds for independently generated keys only up to the primitive, and is FALSE for keys computed '
         'from the signature (ECDSA recovery): the harness builds p = r^-1 (s R - z G) with crypto/elliptic on P-256/384/521 for the same and for '
         'another message and tink-go, the model and the independent verifier all accept -- a property of ECDSA, not a defect of tink-go. '
         'The RSA length rule lives in crypto/rsa, not in tink-go: std_pkcs1 / std_pss transcribe that one comparison. Multi-key keysets are C05. '
         'KNOWN FINDING: RSA-SSA-PSS keys with SaltLengthBytes = 0 do not bind the salt length (0 = PSSSaltLengthAuto in crypto/rsa): Sign emits a '
         'maximal salt that a strict sLen=0 verifier rejects, Verify accepts any salt length; listed in known_findings.json.',
    technique='Coq proof (canonical uniqueness of the DER and P1363 codecs by arithmetic on big-endian digits, exact acceptance sets by case analysis, '
              'no-panic by checked slices) + differential run of the extracted model with stdlib oracles against tink-go on fresh signatures and mutants',
)
