CFG = dict(
    n={'quick': 1500, 'thorough': 30000},
    oracle=False,
    reference=False,
    translate=['alias'],
    coq_targets=['proofs/AliasSitesProofs.vo', 'proofs/AliasBodiesProofs.vo', 'props/C19.vo'],
    gen_lemmas=['no_unframed_sites (gen/AliasSites.v regenerated from /repo: no append-on-parameter, store-parameter or return-field site)',
                'every_site_program_ok (every copy site of /repo as a ONE-instruction program of model/Heap.v: the selection criterion implies it; kept as a count of the copy sites)',
                'every_body_ok (gen/AliasBodies.v regenerated from /repo: every translated function BODY passes the ownership analysis of model/HeapProg.v from its initial flags)',
                'api_bodies_own_nothing (every exported function of a non-internal package outside the explicit exception list starts with no owned parameter)',
                'body_counts_add_up (considered = translated + untranslated)'],
    corr='Heap.run_prog (model/Heap.v) vs the Go runtime on random slice programs (make/sub-slice/append/copy/Concat/Clone/write)',
    rule='P cases: random slice programs, class = set of instruction kinds x length bucket, non-trivial when the program appends, copies or writes; G cases: the guard-region catalogue (every template x {primitive calls, accessors/serialization}, every subtle constructor, legacy adapters x prefix types), class = catalogue entry',
    assumptions=['Go slice semantics as modelled in model/Heap.v (validated on the random programs of this run)',
                 'aliasing inside the standard library and the protobuf runtime is not modelled',
                 'the syntactic site scan (harness/cmd/translate/alias.go) is in the trusted base; sites it cannot see are covered only by the guard-region catalogue'],
)
MANIFEST = dict(
    text='PARTIAL. Theorems in coq/props/C19.v over a slice/heap model with array identity and capacity (model/Heap.v): slices.Concat and bytes.Clone never modify an existing array and return a fresh one (for all heaps/slices); append with spare capacity writes into the caller\'s array (and the append-on-parameter idiom is refuted by a witness); the three idioms the library uses at its API boundary (message suffixing by Concat, constructor stores a clone, accessor returns a clone) satisfy the frame property; AT PROGRAM LEVEL (C19_disciplined_program_frames_the_caller, induction over programs of the slice language): any function that writes only through slices obtained from its own allocations (make, Clone, Concat, append on an owned slice, sub-slices of those) leaves every view the caller has of its memory unchanged, up to capacity, and everything it owns lives in arrays allocated during the call, disjoint from all caller slices - and each forbidden instruction on a parameter is refuted by a witness. The tie to the source is a table of boundary-crossing sites regenerated from /repo by the translator on every run, with the obligation that no site appends to / stores / returns a byte slice without a copy; every site (120 at the pinned commit) is also emitted as a program of the slice language, the obligation being that each is disciplined and keeps/returns an owned slice, so that the frame theorem applies to every site (C19_every_site_of_the_source_frames_the_caller); and a differential run of the heap model against the Go runtime on random slice programs. The search for a concrete failing input is a guard-region catalogue run against the real code: inputs inside canary-filled buffers with spare capacity for every primitive class/key type incl. legacy adapters, then inputs/outputs mutated and keys/handles/later results compared with pristine copies (reflection over all key and parameter accessors).',
    note='Trusted: Coq kernel, extraction, the translator\'s syntactic site scan, the Go harness. Not modelled: aliasing inside the Go standard library and the protobuf runtime; the heap model covers byte slices only. The catalogue samples message sizes; it is a search, not a proof.',
    technique='Coq frame theorems over a slice/heap model + regenerated site table obligation + differential run of the model against the Go runtime; guard-region catalogue as failing-input search',
)
