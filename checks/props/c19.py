CFG = dict(
    n={'quick': 1500, 'thorough': 30000},
    oracle=False,
    reference=False,
    translate=['alias'],
    coq_targets=['proofs/AliasSitesProofs.vo', 'props/C19.vo'],
    gen_lemmas=['no_unframed_sites (gen/AliasSites.v regenerated from /repo: no append-on-parameter, store-parameter or return-field site)'],
    corr='Heap.run_prog (model/Heap.v) vs the Go runtime on random slice programs (make/sub-slice/append/copy/Concat/Clone/write)',
    rule='P cases: random slice programs, class = set of instruction kinds x length bucket, non-trivial when the program appends, copies or writes; G cases: the guard-region catalogue (every template x {primitive calls, accessors/serialization}, every subtle constructor, legacy adapters x prefix types), class = catalogue entry',
    assumptions=['Go slice semantics as modelled in model/Heap.v (validated on the random programs of this run)',
                 'aliasing inside the standard library and the protobuf runtime is not modelled',
                 'the syntactic site scan (harness/cmd/translate/alias.go) is in the trusted base; sites it cannot see are covered only by the guard-region catalogue'],
)
MANIFEST = dict(
    text='PARTIAL. Theorems in coq/props/C19.v over a slice/heap model with array identity and capacity (model/Heap.v): slices.Concat and bytes.Clone never modify an existing array and return a fresh one (for all heaps/slices); append with spare capacity writes into the caller\'s array (and the append-on-parameter idiom is refuted by a witness); the three idioms the library uses at its API boundary (message suffixing by Concat, constructor stores a clone, accessor returns a clone) satisfy the frame property. The tie to the source is a table of boundary-crossing sites regenerated from /repo by the translator on every run, with the obligation that no site appends to / stores / returns a byte slice without a copy, and a differential run of the heap model against the Go runtime on random slice programs. The search for a concrete failing input is a guard-region catalogue run against the real code: inputs inside canary-filled buffers with spare capacity for every primitive class/key type incl. legacy adapters, then inputs/outputs mutated and keys/handles/later results compared with pristine copies (reflection over all key and parameter accessors).',
    note='Trusted: Coq kernel, extraction, the translator\'s syntactic site scan, the Go harness. Not modelled: aliasing inside the Go standard library and the protobuf runtime; the heap model covers byte slices only. The catalogue samples message sizes; it is a search, not a proof.',
    technique='Coq frame theorems over a slice/heap model + regenerated site table obligation + differential run of the model against the Go runtime; guard-region catalogue as failing-input search',
)
