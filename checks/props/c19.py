CFG = dict(
    n={'quick': 1500, 'thorough': 30000},
    oracle=False,
    reference=False,
    translate=['alias'],
    coq_targets=['proofs/AliasSitesProofs.vo', 'proofs/AliasBodiesProofs.vo', 'props/C19.vo'],
    gen_lemmas=['no_unframed_sites (gen/AliasSites.v regenerated from /repo: no append-on-parameter, store-parameter or return-field site)',
                'every_site_program_ok (every copy site of /repo as a ONE-instruction program of model/Heap.v: the selection criterion implies it; kept as a count of the copy sites)',
                'every_body_ok (gen/AliasBodies.v regenerated from /repo: every translated function BODY passes the three-flag ownership analysis of model/HeapProg.v from its write/keep flags, copies no object register, and every CALL RECORD meets the contract of the table entry it names)',
                'api_bodies_own_nothing (every exported function of a non-internal package outside the explicit exception list starts with no writable and no keepable parameter)',
                'immutable_types_are_not_written (no entry writes through a parameter whose type is in the emitted whitelist c19_immutable_types)',
                'body_counts_add_up (considered = translated + untranslated; number of entries that can fail)'],
    corr='Heap.run_prog (model/Heap.v) vs the Go runtime on random slice programs (make/sub-slice/append/copy/Concat/Clone/write)',
    rule='P cases: random slice programs, class = set of instruction kinds x length bucket, non-trivial when the program appends, copies or writes; G cases: the guard-region catalogue (every template x {primitive calls, accessors/serialization}, every subtle constructor, legacy adapters x prefix types), class = catalogue entry',
    assumptions=['Go slice semantics as modelled in model/Heap.v (validated on the random programs of this run)',
                 'aliasing inside the standard library and the protobuf runtime is not modelled: callees outside the library act as the trusted call table of harness/cmd/translate/bodies_ext.go says',
                 'the body translator (harness/cmd/translate/bodies_*.go) and the syntactic site scan (alias.go) are in the trusted base; functions it lists as untranslated, and object-level sharing (returning or keeping an OBJECT somebody else built), are covered only by the guard-region catalogue',
                 'closed world for dynamic calls: a call through a library interface / function value is resolved to the library types that are ever converted to an interface (plus all exported types of public packages) / the functions ever used as values'],
)


def _body_coverage():
    """Coverage of the body-level tie, read from the gen/AliasBodies.v of THIS run's workspace (written by the
    translator before the evidence is written), so that untranslated functions are reported in the evidence."""
    import hashlib, os, re
    try:
        v = os.environ.get('VERIF_HOME') or os.path.dirname(os.path.dirname(os.path.dirname(os.path.abspath(__file__))))
        repo = os.path.abspath(os.environ.get('VERIF_REPO', '/repo'))
        coq = f'{v}/coq' if repo == '/repo' else f'{v}/build/ws/' + hashlib.sha1(repo.encode()).hexdigest()[:10] + '/coq'
        src = open(f'{coq}/gen/AliasBodies.v').read()
        num = lambda n: re.search(r'Definition %s : nat := (\d+)\.' % n, src).group(1)
        i, j = src.index('Definition c19_body_untranslated'), src.index('Definition c19_body_exceptions')
        untr = re.findall(r'\("([^"]*)", "([^"]*)", "([^"]*)"\)', src[i:j])
        exc = sorted(set(re.findall(r'\("([^"]*)", "([^"]*)", "[^"]*"\)', src[j:src.index('(* WHITELIST')])))
        wl = len(re.findall(r'\("[^"]*", "[^"]*"\)', src[src.index('Definition c19_immutable_types'):src.index('(* considered =')]))
        return ('body-level tie of this run: %s function bodies considered (%s interface-only helpers, %s function literals), %s translated (%s API, %s instructions, %s call records checked in Coq; %s entries contain a statement on which the analysis can fail, the others only allocate, read and return); %s types in the whitelist of immutable object types; '
                % (num('c19_bodies_considered'), num('c19_bodies_helpers_with_interface_parameters'), num('c19_bodies_function_literals'),
                   num('c19_bodies_translated'), num('c19_bodies_api'), num('c19_bodies_instructions'), num('c19_bodies_call_records'), num('c19_bodies_that_can_fail'), wl) +
                'UNTRANSLATED (covered only by the guard-region catalogue): %s; API functions in the exception list: %s'
                % ('; '.join(f'{a} {b}: {c}' for a, b, c in untr) or 'none', ', '.join(f'{a} {b}' for a, b in exc) or 'none'))
    except Exception as e:  # pragma: no cover
        return 'body-level tie: coverage could not be read (%s)' % e


class _Cfg(dict):
    def get(self, k, d=None):
        if k == 'assumptions':
            return list(dict.get(self, k, [])) + [_body_coverage()]
        return dict.get(self, k, d)


CFG = _Cfg(CFG)


def _call_table():
    """The trusted call table, read from the translator source so that the note cannot go stale."""
    import re, os
    try:
        src = open(os.path.join(os.path.dirname(__file__), '..', '..', 'harness', 'cmd', 'translate', 'bodies_ext.go')).read()
        tab = src[src.index('var extTable'):src.index('// TRUSTED DEFAULT')]
        ents = re.findall(r'"([^"]+)":\s*"([^"]*)"', tab)
        short = lambda k: k.replace('google.golang.org/protobuf/', 'protobuf/').replace('golang.org/x/crypto/', 'x/crypto/').replace('encoding/binary.', 'binary.').replace('crypto/cipher.', 'cipher.')
        wr = [f'{short(k)}[{v}]' for k, v in ents if v and v != 'r=fresh']
        rd = [short(k) for k, v in ents if not v or v == 'r=fresh']
        fresh = re.search(r'var freshPkgs = \[\]string\{(.*?)\n\}', src, re.S).group(1)
        view = re.search(r'var viewPkgs = \[\]string\{(.*?)\}', src, re.S).group(1)
        pk = lambda t: ' '.join(re.findall(r'"([^"]+)"', t))
        return ('TRUSTED CALL TABLE (w<i> = writes argument i, a<i> = appends to argument i and returns it, k<i> = keeps argument i, r=<i> = result is a view of argument i; '
                'methods count the receiver as 0): ' + '; '.join(wr) + '. Read-only / fresh-result entries: ' + ', '.join(rd) +
                '. Default for other functions of these packages (only if no []byte parameter is named dst/out/buf/b/p/to/dest/output/result, else the caller is untranslated): reads its arguments, byte results fresh: ' + pk(fresh) +
                '; byte results may be views of any byte argument: ' + pk(view) +
                '. Generated protobuf getters return views of the message (not owned); any other callee outside the library with byte arguments or results makes its caller untranslated.')
    except Exception as e:  # pragma: no cover
        return 'TRUSTED CALL TABLE: see harness/cmd/translate/bodies_ext.go (could not be read: %s)' % e


MANIFEST = dict(
    text='PARTIAL. Theorems in coq/props/C19.v over a slice/heap model with array identity and capacity (model/Heap.v, validated against the Go runtime on random slice programs in every run). '
         '(1) Idioms, for all heaps and slices: slices.Concat and bytes.Clone never modify an existing array and return a fresh one; append with spare capacity writes into the caller\'s array (append-on-parameter refuted by a witness); message suffixing by Concat, constructor-stores-a-clone and accessor-returns-a-clone satisfy the frame property. '
         '(2) Straight-line programs (C19_disciplined_program_frames_the_caller): a program that writes only through slices obtained from its own allocations leaves every view the caller has of its memory unchanged, up to capacity, and owns only fresh arrays; each forbidden instruction is refuted by a witness. '
         '(3) FUNCTION BODIES (model/HeapProg.v, C19_disciplined_body_frames_the_caller, induction over executions): a structured language - registers (an object register stands for one may-alias class of objects and is never copied), the slice operations with freely chosen indices/lengths/bytes, opaque callee writes, stores into objects, escapes (return / store in a shared object / kept by a callee), call records, branches, loops with break/continue, early return, abort at any point (panic) - and an ownership analysis with three flags per register (may be WRITTEN through, may be KEPT, object is PRIVATE = built here and not yet handed out; joined with AND at control-flow joins, loop heads lowered to a fixpoint; a store into a private object only lowers its flags, a store into any other object lets the stored value escape). A body that passes the analysis from the write flags / keep flags of its parameters changes, on EVERY execution, no caller array except those of the write-flagged parameters, and lets escape only slices in arrays allocated during the call or in those of the keep-flagged parameters. Non-vacuity example, three refutations (callee write into / append to / keeping a parameter), and negative examples: the pointer-alias probes of the third audit (o2 := o1; o2.buf = x; return o1, chains, loops) are rejected both as written (an object register may not be copied) and in the one-register-per-class form the translator emits; a Read(p) exemption grants write but not keep; a store into an object after it was handed out is an escape. '
         'THE TIE TO THE SOURCE (regenerated from /repo on every run, gen/AliasBodies.v): the translator emits the slice-relevant behaviour of the BODY of every function, method and capture-free function literal of the library\'s non-test packages that has a byte-carrying parameter, receiver or result ([]byte, *[N]byte, [][]byte, structs / pointers / containers that reach such, to any depth), plus the internal helpers that only take interface values. OBJECTS: a struct or pointer the function was handed counts like a byte slice it was handed - storing, returning or passing it on to a keeper is an escape - unless its type is in the emitted whitelist c19_immutable_types (library struct types whose byte-reaching fields are all unexported and through whose values no translated function writes, stores, or hands out a view; plus six standard-library key types, trusted); variables between which a pointer flows share one register (flow-insensitive union-find), so a store through any alias lowers all. Call sites are call records SCall: the caller\'s registers handed to each parameter of the callee and the effect attributed to the call. Obligations, checked by computation in Coq on the table: every translated body passes the analysis from its flags and copies no object register; EVERY CALL RECORD MEETS THE CONTRACT of the table entry it names (a register handed to a parameter the callee may write through is written through in the effect, one handed to a parameter it may keep escapes in the effect - the inter-procedural half is an obligation over the table; for calls through interfaces and function values one record per candidate implementation); an exported function or method of a non-internal package outside the explicit exception list has NO write flag and NO keep flag (api_bodies_own_nothing), so by C19_every_api_function_body_frames_the_caller it changes nothing the caller can see and every byte slice it returns or stores - directly or inside an object that is followed - is freshly allocated; no entry writes through a parameter of a whitelisted type (immutable_types_are_not_written). Still trusted to the translator: what the RESULT of a call may alias, the table for callees outside the library, the classification of types, the may-alias classes. '
         'COVERAGE at the pinned commit (4204d42): 1438 function bodies considered (1279 by the definition above, 118 interface-only helpers, 41 function literals), 1436 translated (842 API functions, 12471 instructions, 3040 call records), of which 790 contain a statement on which the analysis can fail at all (a write, append, store or escape; the other 646 only allocate, read, slice and return what they allocated); 2 UNTRANSLATED with their reasons in c19_body_untranslated (a closure with return statements in streamingaead decryptReader.Read; a call through registry.PrivateKeyManager with no implementation inside the library). Constructs outside the subset make a function UNTRANSLATED rather than being dropped: goto/labels, select, byte data on channels, deferred or concurrent calls with byte effects, closures with captures that are not inlinable, unknown callees with byte arguments, external byte results beyond what the table speaks for, packages with type errors, types too deep to classify (none at this commit). 21 API functions are in the exception list c19_body_exceptions with the reason (per-stream io.Writer/io.Reader objects and their constructors; Read(p) filling the caller\'s buffer: write, not keep; the ...WithDst segment functions that write into dst by contract; keyset.MemReaderWriter, whose documented purpose is to hold the keyset object it is given; two constructors that take a POINTER to the caller\'s ed25519 key). internal/protoserialization.NewKeySerialization and KeySerialization.KeyData are internal: their entries show that the serialization holds / hands out the KeyData it was given (result aliases the argument), and every API caller is checked against that. 113 types are whitelisted as immutable. Untranslated and excepted functions are covered ONLY by the guard-region catalogue. '
         'The older copy-site table (one Clone/Concat instruction per site; the selection criterion implies the conclusion) is kept as C19_every_single_copy_site_is_framed and as the obligation that no site appends to / stores / returns a byte slice without a copy. '
         'The search for a concrete failing input is the guard-region catalogue run against the real code: inputs inside canary-filled buffers with spare capacity for every primitive class/key type incl. legacy adapters, then inputs/outputs mutated and keys/handles/later results compared with pristine copies (reflection over all key and parameter accessors), every subtle constructor (now incl. the ED25519 signer/verifier and the KMS envelope AEAD constructors). '
         'Findings of the body-level tie, both repaired in /repo and kept as seeded reverts: signature/subtle.NewED25519Verifier kept the caller\'s public-key slice (244d1a5); aead.NewKMSEnvelopeAEAD2 / NewKMSEnvelopeAEADWithContext kept the caller\'s KeyTemplate proto (4204d42). All eleven stored aliasing seeds, incl. the object-level C19-fallback-private-key-alias, break the body-level obligation.',
    note='Trusted: Coq kernel, extraction, the Go harness, the translator (harness/cmd/translate/bodies_*.go, alias.go) as far as it is not re-checked on the table: the classification of types that can reach byte memory; the flow-insensitive may-alias classes of object variables; which objects were built in the function (all others are unowned); what the result of a call may alias and which argument a callee stores into which (summaries, global fixpoint); the closed-world resolution of calls through interfaces and function values (library types ever converted to an interface, exported types of public packages; functions ever used as values); the exception list; the six standard-library types of the whitelist. Re-checked in Coq on the table: discipline of every body, no copy of an object register, every call record against the callee\'s write/keep contract, API flags, whitelist not written. Not modelled: aliasing inside the Go standard library and the protobuf runtime beyond the call table (proto.Clone and proto.Unmarshal copy; generated getters return views of the message they are called on); goroutines, deferred calls with byte effects, channels of byte data, goto/labels (such functions are reported untranslated). The catalogue samples message sizes; it is a search, not a proof. '
         + _call_table(),
    technique='Coq frame theorems over a slice/heap model (idioms, straight-line programs, structured function bodies with a three-flag ownership analysis) + regenerated table of translated function bodies with computed obligations incl. call records checked against callee contracts + differential run of the heap model against the Go runtime; guard-region catalogue as failing-input search',
)
