CFG = dict(
    n={'quick': 5000, 'thorough': 100000},
    oracle=True,
    reference=True,
    corr='Stream.v (wwrite/wclose/read over the toy segment cipher; new_enc_writer/new_dec_reader/dr_read over stdlib oracles) vs noncebased.Writer/Reader, streamingaead/subtle and streamingaead.New on random call histories, faults and manipulations',
    coq_targets=['props/C07.vo'],
)
MANIFEST = dict(
    text='placeholder',
    note='placeholder',
    technique='Coq proof by induction over call histories of an executable model of the nonce-based streaming state machines + differential run of the extracted model against the real Writer/Reader (toy cipher) and real keys (stdlib oracles)',
)
