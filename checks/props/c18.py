CFG = dict(
    n={'quick': 2, 'thorough': 40},
    oracle=False,
    reference=False,
    translate=['footprints'],
    go_flags=['-race'],
    env={'GORACE': 'exitcode=0 log_path={rundir}/race'},
    coq_targets=['proofs/FootprintsProofs.vo', 'props/C18.vo'],
    gen_lemmas=['no_shared_writes_in_source (gen/Footprints.v regenerated from /repo: per-method write footprints of every primitive type are empty)'],
    corr='race-detector hammer: 16 goroutines on one shared primitive per key type, every result compared with the sequential oracle (the property demands "ok" for every case)',
    rule='one case = one key type (or handle-read scenario) hammered from 16 goroutines for n iterations under the Go race detector; class = key type; all classes are non-trivial',
    assumptions=['Go memory model; the race detector reports races it observes (not complete)',
                 'footprint scan is syntactic (harness/cmd/translate/footprint.go): writes through helper functions taking the receiver as an argument are not seen',
                 'sync.Map / RWMutex of the registries are taken as linearisable'],
)
MANIFEST = dict(
    text='PARTIAL. Theorem C18_schedule_independent (coq/props/C18.v): for any shared object, any step function that reads but never writes it, any number of threads and every interleaving, each finished call holds exactly the result of running alone and the shared object is unchanged (induction over the schedule); the premise is shown necessary by a refutation with a shared scratch cell. The theorem is INSTANTIATED with the model of a keyset primitive that C05 ties to the code (C18_concurrent_keyset_primitive_calls): shared object = the prefix map built at construction, a Decrypt/Verify call = look up the candidates, then try the next candidate, one atomic step each; for any keyset, validity predicate, number of concurrent calls, inputs and interleaving, every finished call holds exactly the verdict of the sequential selection rule for its own input and the prefix map is unchanged. That the code satisfies the premise is a regenerated obligation: the translator extracts, from /repo on every run, the write footprint (assignments / append / copy / mutating stdlib calls through the receiver, writes to package variables) of every method of every library type that offers a primitive operation (incl. the prehash and *WithContext operations) and is not a per-stream object, of keyset.Handle and keyset.Entry, and of every key and parameters type (612 methods at the pinned commit), and Coq checks that all footprints are empty. The search for a concrete failing schedule is a hammer built with -race: 16 goroutines use one shared primitive of every class and key type (AEADs, DAEAD, MACs, PRFs, ECDSA/Ed25519/RSA-PSS/RSA-PKCS1/ML-DSA/SLH-DSA signatures, the ML-DSA prehash and prehash signer, HPKE with X25519/P-256/X-Wing/ML-KEM-768, ECIES, streaming AEADs, JWT MAC/signatures, keyset derivation; warmed up and at first use) (and read handles, construct primitives, hit the registries) and every result is compared with the sequential oracle; a race report or a differing result is the violation.',
    note='Trusted: Coq kernel, the syntactic footprint scan, the Go memory model and race detector (which only sees the interleavings that occur), the harness. The theorem is about the abstraction, not about goroutines.',
    technique='Coq proof of schedule independence by induction over interleavings + regenerated write-footprint obligation; race-detector hammer as failing-schedule search',
)
