CFG = dict(
    n={'quick': 1500, 'thorough': 40000},
    oracle=True,
    reference=False,
    corr='ProtoWire.decode/encode, Serial.parse_key/serialize_key/parse_params/serialize_params, Serial.handle_from_proto/write_cleartext/write_encrypted/public_handle (model/ProtoWire.v, model/Serial.v, model/SerialTables.v) vs proto.Unmarshal/Marshal, protoserialization.ParseKey/SerializeKey/ParseParameters/SerializeParameters and keyset.Handle writers/readers on generated keys of every registered type, templates, wire mutations and keysets',
    coq_targets=['props/C12.vo'],
    trusted=['stdlib oracle (gcm_seal) for the encrypted-keyset bytes; google.golang.org/protobuf runtime and protojson are library (the binary wire format is re-implemented in the model, JSON is exercised by the direct checks only)',
             'message schemas are read from the generated protobuf descriptors by reflection and passed to the model in the case line'],
)
MANIFEST = dict(
    text='Theorems in coq/props/C12.v about an executable Gallina model of the protobuf wire codec (model/ProtoWire.v: varint, tags, length-delimited fields, canonical encoder, total decoder with unknown-field skipping, message merging, UTF-8 check) and of tink-go key/parameters/keyset serialisation (model/Serial.v, enum tables model/SerialTables.v extracted from the Go switch statements): decode(encode m) = m for every schema and well-formed message, re-encoding is canonical and stable, BigIntBytesToFixedSizeBuffer preserves the value and fails exactly on overflow, parse(serialize k) = k for every key type whose variant/prefix tables satisfy the (computed) round-trip facts, keyset write/read in cleartext and encrypted form preserves keys, ids, statuses, primary and order, Public() preserves id/status/primary. The model is tied to the code by running the extracted model and the real tink-go on the same generated key serialisations of every registered key type x parameter product x id, templates, wire-level mutations and keysets (binary bytes compared exactly; JSON, other AEADs and primitive interoperability by direct checks).',
    note='Trusted: Coq kernel, ExtrOcamlBasic extraction + OCaml glue, the Go harness. The per-type field mapping (which proto field holds which part of the key) is tied by correspondence on generated keys and by schemas read by reflection, not by translation; SerialTables.v is regenerated from the Go switch statements by harness/cmd/c12tables. protojson and the protobuf runtime are library code; JSON round trips are checked directly on the implementation, not modelled.',
    technique='Coq proof (induction on schemas and byte strings, computation over finite enum tables) + differential run of the extracted model against tink-go serialisation',
)
