CFG = dict(
    n={'quick': 1200, 'thorough': 40000},
    oracle=True,
    reference=True,
    corr='enc_iv/dec of every AEAD scheme (model/AeadFrame.v, EtM.v, GcmSiv.v, Xaes.v, Envelope.v over stdlib oracles) vs tink.AEAD Encrypt (IV from the tape) / Decrypt: whole ciphertext byte-identical, both decrypt each other',
    translate=['consts'],
    gen_lemmas=['proofs/ConstsTieC01.v: AES-GCM IV/tag sizes and the AES-GCM / ChaCha20-Poly1305 plaintext and ciphertext limits regenerated from internal/aead (gen/RepoConsts.v) equal the limits of the model'],
    coq_targets=['proofs/ConstsTieC01.vo', 'props/C01.vo', 'model/AeadFrame.vo', 'model/Ctr.vo', 'model/EtM.vo', 'model/Polyval.vo', 'model/GcmSiv.vo', 'model/Xaes.vo', 'model/Envelope.vo', 'lib/XBase.vo'],
)
MANIFEST = dict(
    text='Theorems in coq/props/C01.v about executable Gallina models of every AEAD key type (framing around the standard AEAD for AES-GCM/ChaCha20-Poly1305/XChaCha20-Poly1305, AES-CTR-HMAC encrypt-then-MAC, AES-GCM-SIV with POLYVAL and the RFC 8452 counter mode, XAES-256-GCM key derivation, KMS envelope framing): for every key, key id, prefix variant, IV of the right length, plaintext and associated data, Decrypt(Encrypt(p, ad), ad) = p; the wire format of each scheme; and the hand-written POLYVAL kernels (mul32/mul64/polyvalDot) equal the RFC 8452 GF(2^128) specification for all field elements (bilinearity by the no-carry argument + the monomial basis). The model is tied to the code by recomputing the whole ciphertext from (key, IV read from the randomness tape, p, ad) and comparing it byte for byte with Tink output; the model decrypts Tink ciphertexts and Tink decrypts ciphertexts produced by the Go standard library alone.',
    note='Trusted: Coq kernel, ExtrOcamlBasic extraction + OCaml glue, the Go harness and the stdlib oracle (AES, GCM, ChaCha20-Poly1305, HMAC are the Go standard library / x/crypto, taken as the definition of the standard algorithms; their laws are premises of the theorems). Models are hand-written after the Go bodies; the tie is the correspondence on the explored cases.',
    technique='Coq proofs over executable Gallina models of the AEAD constructions + differential run of the extracted model (stdlib primitives via an oracle process) against tink-go with the IV fixed through a crypto/rand tape',
)
