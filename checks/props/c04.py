CFG = dict(
    n={'quick': 2500, 'thorough': 60000},
    oracle=True,
    reference=True,
    corr='Mac.build / Mac.build_set (model/Mac.v over Cmac.cmac_impl and the RFC 2104 transcription Hmac.hmac, AES block and hashes from the stdlib oracle) vs mac.New, mac.NewWithConfig, hmac.NewMAC, aescmac.NewMAC, mac/subtle and internal/mac on tag bytes, rejection stage and accept/reject of mutated tags',
    coq_targets=['props/C04.vo'],
)
MANIFEST = dict(
    text='placeholder',
    note='placeholder',
    technique='Coq proof + differential run of the extracted model against the MAC implementations',
)
