CFG = dict(
    n={'quick': 600, 'thorough': 20000},
    oracle=True,
    reference=True,
    corr='Derive.derive_keyset (model/Derive.v: RFC 5869 HKDF over the HMAC oracle + C11 manager model) vs keyderivation.New(handle).DeriveKeyset(salt)',
    coq_targets=['props/C17.vo'],
)
MANIFEST = dict(
    text='TODO',
    note='TODO',
    technique='Coq proof + differential run of the extracted model against keyderivation',
)
