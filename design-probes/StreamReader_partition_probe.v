(* Probe: nonce-based streaming Reader, read-partition independence on well-formed streams. *)
From Coq Require Import List Arith Lia NArith Bool.
Import ListNotations.

Definition bytes := list N.

Section R.
  Variable S : nat.          (* plaintext segment size *)
  Variable off : nat.        (* first-segment reduction *)
  Variable ov : nat.         (* ciphertext overhead per segment *)
  Variable encs : nat -> bool -> bytes -> bytes.
  Variable decs : nat -> bool -> bytes -> option bytes.
  Hypothesis HS : 0 < S - off.
  Hypothesis Hov : 0 < ov.
  Hypothesis Hlen : forall i l s, length (encs i l s) = length s + ov.
  Hypothesis Hdec : forall i l s, decs i l (encs i l s) = Some s.

  Definition lim (c : nat) := if c =? 0 then S - off else S.
  Lemma lim_pos c : 0 < lim c. Proof. unfold lim; destruct (c =? 0); lia. Qed.

  (* ciphertext of a list of plaintext segments starting at index i; the final one is marked last *)
  Fixpoint enc_from (i : nat) (ss : list bytes) : bytes :=
    match ss with
    | [] => []
    | [s] => encs i true s
    | s :: rest => encs i false s ++ enc_from (Datatypes.S i) rest
    end.

  (* well-formed segmentation from index i: all but the last are exactly full *)
  Fixpoint wf_from (i : nat) (ss : list bytes) : Prop :=
    match ss with
    | [] => False
    | [s] => length s <= lim i
    | s :: rest => length s = lim i /\ wf_from (Datatypes.S i) rest
    end.

  (* ---------- the Go Reader ---------- *)
  Record rst := { pt : bytes; pos : nat; carry : option N; cnt : nat; lastdone : bool; src : bytes }.
  Inductive rres := RData (b : bytes) | REof | RErr.

  Definition carryl (st : rst) : bytes := match carry st with Some c => [c] | None => [] end.

  Definition read (st : rst) (n : nat) : rst * rres :=
    if pos st <? length (pt st) then
      let k := Nat.min n (length (pt st) - pos st) in
      ({| pt := pt st; pos := pos st + k; carry := carry st; cnt := cnt st;
          lastdone := lastdone st; src := src st |},
       RData (firstn k (skipn (pos st) (pt st))))
    else if lastdone st then (st, REof)
    else
      let ctLim := lim (cnt st) + ov + 1 in         (* len(r.ciphertext) - offset on first *)
      let want := ctLim - length (carryl st) in
      let got := firstn want (src st) in
      let src' := skipn want (src st) in
      let full := length got =? want in
      let buf := carryl st ++ got in
      let last := negb full in
      let seg := if full then removelast buf else buf in
      match decs (cnt st) last seg with
      | None => ({| pt := []; pos := 0; carry := carry st; cnt := cnt st;
                    lastdone := last; src := src' |}, RErr)
      | Some p =>
        let k := Nat.min n (length p) in
        ({| pt := p; pos := k;
            carry := if full then Some (List.last buf 0%N) else carry st;
            cnt := Datatypes.S (cnt st); lastdone := last; src := src' |},
         RData (firstn k p))
      end.

  Definition rinit (ct : bytes) : rst :=
    {| pt := []; pos := 0; carry := None; cnt := 0; lastdone := false; src := ct |}.

  (* drive a list of Read sizes; collect data until EOF or error *)
  Inductive fin := Pending | AtEof | Failed.
  Fixpoint drive (sizes : list nat) (st : rst) (acc : bytes) : bytes * fin :=
    match sizes with
    | [] => (acc, Pending)
    | n :: ns =>
      match read st n with
      | (st', RData b) => drive ns st' (acc ++ b)
      | (_, REof) => (acc, AtEof)
      | (_, RErr) => (acc, Failed)
      end
    end.

  (* ---------- simulation relation ---------- *)
  (* remaining plaintext = rest of current segment ++ all later segments *)
  Definition Rel (st : rst) (cur : bytes) (rest : list bytes) : Prop :=
    skipn (pos st) (pt st) = cur /\ pos st <= length (pt st) /\
    (if lastdone st then rest = []
     else wf_from (cnt st) rest /\ carryl st ++ src st = enc_from (cnt st) rest /\
          (cnt st = 0 -> carry st = None) /\ (cnt st <> 0 -> carry st <> None)).

  Lemma enc_from_len_nonlast i s r rest :
    length (enc_from i (s :: r :: rest)) >= length s + ov + 1.
  Proof.
    cbn [enc_from]. rewrite app_length, Hlen.
    destruct rest as [|r2 rest2]; cbn [enc_from].
    - rewrite Hlen. lia.
    - rewrite app_length, Hlen. lia.
  Qed.

  Lemma skipn_skipn' (l : bytes) : forall a b, skipn a (skipn b l) = skipn (b + a) l.
  Proof.
    induction l as [|x l IH]; intros a b.
    - now rewrite !skipn_nil.
    - destruct b; cbn; [reflexivity|]. apply IH.
  Qed.

  Lemma removelast_app_last (l : bytes) (x : N) : removelast (l ++ [x]) = l.
  Proof. apply removelast_last. Qed.

  Lemma firstn_succ_split (l : bytes) n : n < length l ->
    firstn (Datatypes.S n) l = firstn n l ++ [nth n l 0%N].
  Proof.
    revert n; induction l as [|a l IH]; intros n H; cbn in *; [lia|].
    destruct n; cbn; [reflexivity|]. f_equal. apply IH. lia.
  Qed.

  (* one Read step preserves the relation and returns a prefix of the remaining plaintext *)
  Lemma read_step st cur rest n :
    Rel st cur rest ->
    let '(st', r) := read st n in
    match r with
    | RErr => False
    | REof => cur = [] /\ rest = []
    | RData b =>
        exists cur' rest', cur ++ concat rest = b ++ cur' ++ concat rest' /\ Rel st' cur' rest'
    end.
  Proof.
    intros (Hcur & Hpos & Hrest). unfold read.
    destruct (Nat.ltb_spec (pos st) (length (pt st))) as [Hlt|Hge].
    - (* serve from the current segment *)
      set (k := Nat.min n (length (pt st) - pos st)).
      exists (skipn k cur), rest. split.
      + rewrite <- Hcur. rewrite app_assoc. f_equal. symmetry. apply firstn_skipn.
      + unfold Rel; cbn [pt pos carry cnt lastdone src]. split; [|split].
        * rewrite <- Hcur. rewrite skipn_skipn'. reflexivity.
        * unfold k; lia.
        * exact Hrest.
    - assert (Hc0 : cur = []).
      { rewrite <- Hcur. apply skipn_all2. lia. }
      destruct (lastdone st) eqn:Eld.
      + split; [exact Hc0 | exact Hrest].
      + destruct Hrest as (Hwf & Hsrc & Hc1 & Hc2).
        subst cur.
        destruct rest as [|s rest]; [destruct Hwf|].
        set (want := lim (cnt st) + ov + 1 - length (carryl st)).
        assert (Hcl : length (carryl st) <= 1) by (unfold carryl; destruct (carry st); cbn; lia).
        destruct rest as [|s2 rest].
        * (* s is the last segment: source runs out *)
          cbn [wf_from enc_from] in *.
          assert (Hsl : length (src st) < want).
          { assert (length (carryl st ++ src st) = length s + ov) by (rewrite Hsrc; apply Hlen).
            rewrite app_length in H. unfold want. lia. }
          rewrite firstn_all2 by lia.
          rewrite (proj2 (Nat.eqb_neq _ _)) by lia. cbn [negb].
          rewrite Hsrc, Hdec.
          exists (skipn (Nat.min n (length s)) s), []. split.
          -- rewrite Hc0. cbn [concat app]. rewrite !app_nil_r. symmetry. apply firstn_skipn.
          -- unfold Rel; cbn [pt pos carry cnt lastdone src]. split; [|split]; [reflexivity|lia|reflexivity].
        * (* s is not last: a full buffer plus the look-ahead byte is available *)
          destruct Hwf as (Hls & Hwf').
          pose proof (enc_from_len_nonlast (cnt st) s s2 rest) as Hge'.
          assert (Hsl : want <= length (src st)).
          { assert (length (carryl st ++ src st) >= length s + ov + 1) by (rewrite Hsrc; exact Hge').
            rewrite app_length in H. unfold want. lia. }
          rewrite firstn_length, Nat.min_l by lia.
          rewrite Nat.eqb_refl. cbn [negb].
          (* name the tail of the encoded stream *)
          assert (Hne : 0 < length (enc_from (Datatypes.S (cnt st)) (s2 :: rest))).
          { destruct rest; cbn [enc_from]; [rewrite Hlen|rewrite app_length, Hlen]; lia. }
          assert (Hsrc' : carryl st ++ src st =
                          encs (cnt st) false s ++ enc_from (Datatypes.S (cnt st)) (s2 :: rest))
            by (rewrite Hsrc; reflexivity).
          remember (enc_from (Datatypes.S (cnt st)) (s2 :: rest)) as tl eqn:Etl.
          destruct tl as [|x xs]; [cbn in Hne; lia|].
          assert (Hbuf : carryl st ++ firstn want (src st) = encs (cnt st) false s ++ [x]).
          { assert (E : carryl st ++ firstn want (src st) =
                        firstn (length (carryl st) + want) (carryl st ++ src st)).
            { rewrite firstn_app_2. reflexivity. }
            rewrite E, Hsrc'.
            replace (length (carryl st) + want) with (length (encs (cnt st) false s) + 1)
              by (rewrite Hlen; unfold want; lia).
            rewrite firstn_app_2. reflexivity. }
          rewrite Hbuf, removelast_app_last, Hdec.
          exists (skipn (Nat.min n (length s)) s), (s2 :: rest). split.
          -- rewrite Hc0. change (concat (s :: s2 :: rest)) with (s ++ concat (s2 :: rest)).
             rewrite app_nil_l, app_assoc, firstn_skipn. reflexivity.
          -- unfold Rel; cbn [pt pos carry cnt lastdone src]. split; [|split]; [reflexivity|lia|].
             split; [exact Hwf'|]. split; [|split; [lia|discriminate]].
             unfold carryl; cbn [carry].
             rewrite last_last. rewrite <- Etl.
             assert (E2 : skipn want (src st) =
                          skipn (length (carryl st) + want) (carryl st ++ src st)).
             { rewrite skipn_app. rewrite (skipn_all2 (n := length (carryl st) + want) (carryl st)) by lia.
               replace (length (carryl st) + want - length (carryl st)) with want by lia. reflexivity. }
             rewrite E2, Hsrc'.
             replace (length (carryl st) + want) with (length (encs (cnt st) false s) + 1)
               by (rewrite Hlen; unfold want; lia).
             rewrite skipn_app.
             rewrite (skipn_all2 (n := length (encs (cnt st) false s) + 1) (encs (cnt st) false s)) by lia.
             replace (length (encs (cnt st) false s) + 1 - length (encs (cnt st) false s)) with 1 by lia.
             reflexivity.
  Qed.

  (* whole-run theorem *)
  Theorem read_partition_independent : forall sizes ss,
    wf_from 0 ss ->
    let '(outb, f) := drive sizes (rinit (enc_from 0 ss)) [] in
    f <> Failed /\ (f = AtEof -> outb = concat ss) /\
    (f = Pending -> exists tl, concat ss = outb ++ tl).
  Proof.
    assert (G : forall sizes st cur rest acc,
      Rel st cur rest ->
      let '(outb, f) := drive sizes st acc in
      f <> Failed /\ (f = AtEof -> outb = acc ++ cur ++ concat rest) /\
      (f = Pending -> exists tl, acc ++ cur ++ concat rest = outb ++ tl)).
    { induction sizes as [|n ns IH]; intros st cur rest acc HR; cbn [drive].
      - split; [discriminate|]. split; [discriminate|]. intros _. eexists; reflexivity.
      - pose proof (read_step st cur rest n HR) as Hs.
        destruct (read st n) as (st', r). destruct r as [b| |]; [|
          destruct Hs as (-> & ->); split; [discriminate|]; split;
            [intros _; cbn; now rewrite app_nil_r | discriminate] | destruct Hs].
        destruct Hs as (cur' & rest' & Heq & HR').
        specialize (IH st' cur' rest' (acc ++ b) HR').
        destruct (drive ns st' (acc ++ b)) as (outb, f).
        destruct IH as (H1 & H2 & H3). split; [exact H1|]. split.
        + intros Hf. rewrite (H2 Hf). rewrite Heq, <- !app_assoc. reflexivity.
        + intros Hf. destruct (H3 Hf) as (tl & Htl). exists tl.
          rewrite Heq. rewrite <- Htl, <- !app_assoc. reflexivity. }
    intros sizes ss Hwf.
    specialize (G sizes (rinit (enc_from 0 ss)) [] ss []).
    cbn [app] in G. apply G.
    unfold Rel, rinit; cbn. repeat split; auto; congruence.
  Qed.
End R.
Print Assumptions read_partition_independent.
