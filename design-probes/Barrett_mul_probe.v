From Coq Require Import ZArith Lia Bool.
Open Scope Z_scope.
Ltac Zify.zify_post_hook ::= Z.div_mod_to_equations.

Definition q := 8380417.
Definition w64 x := x mod 2^64.
Definition w32 x := x mod 2^32.
Definition M := 2^46 / q.   (* 8396807 *)

Definition reduceOnce (a : Z) : Z := if q <=? a then w32 (a - q) else a.

(* transcription of rZq.mul with explicit wraps *)
Definition mul (a b : Z) : Z :=
  let prod := w64 (a * b) in
  let hi := w64 ((Z.shiftr prod 32) * M) in
  let lo := w64 ((Z.land prod 4294967295) * M) in
  let hiLo := Z.land hi 4294967295 in
  let carry := Z.shiftr (w64 (Z.shiftr lo 32 + hiLo)) 32 in
  let quoHi := Z.land (w64 (Z.shiftr hi 32 + carry)) 63 in
  let quoLo := w64 (Z.shiftl hiLo 32 + lo) in
  let quo := Z.lor (w64 (Z.shiftl quoHi 18)) (Z.shiftr quoLo 46) in
  reduceOnce (w32 (w64 (prod - w64 (quo * q)))).

Lemma M_val : M = 8396807. Proof. reflexivity. Qed.

Lemma land_mask32 x : 0 <= x -> Z.land x 4294967295 = x mod 2^32.
Proof. intros. change 4294967295 with (Z.ones 32). now rewrite Z.land_ones by lia. Qed.
Lemma land_mask6 x : 0 <= x -> Z.land x 63 = x mod 2^6.
Proof. intros. change 63 with (Z.ones 6). now rewrite Z.land_ones by lia. Qed.

(* key arithmetic fact: floor(p*M/2^46) is floor(p/q) or one less *)
Lemma barrett_quo p : 0 <= p < q*q ->
  let quo := (p * M) / 2^46 in 0 <= p - quo * q < 2*q.
Proof.
  intros Hp quo. subst quo. rewrite M_val. unfold q in *.
  assert (H46: 2^46 = 70368744177664) by reflexivity. rewrite H46.
  lia.
Qed.

Lemma shiftr_div x n : 0 <= n -> Z.shiftr x n = x / 2^n.
Proof. intros. now rewrite Z.shiftr_div_pow2. Qed.
Lemma shiftl_mul x n : 0 <= n -> Z.shiftl x n = x * 2^n.
Proof. intros. now rewrite Z.shiftl_mul_pow2. Qed.

Lemma land_disjoint hi lo n : 0 <= n -> 0 <= lo < 2^n -> 0 <= hi ->
  Z.land (hi * 2^n) lo = 0.
Proof.
  intros Hn Hlo Hhi. rewrite <- Z.shiftl_mul_pow2 by lia.
  apply Z.bits_inj'; intros k Hk. rewrite Z.land_spec, Z.bits_0.
  destruct (Z.lt_ge_cases k n) as [Hlt|Hge].
  - rewrite Z.shiftl_spec_low by lia. reflexivity.
  - destruct (Z.eq_dec lo 0) as [->|Hne]; [rewrite Z.bits_0; apply andb_false_r|].
    rewrite (Z.bits_above_log2 lo k); [apply andb_false_r | lia |].
    apply Z.lt_le_trans with n; [|lia]. apply Z.log2_lt_pow2; lia.
Qed.
Lemma lor_disjoint_add hi lo n : 0 <= n -> 0 <= lo < 2^n -> 0 <= hi ->
  Z.lor (hi * 2^n) lo = hi * 2^n + lo.
Proof.
  intros Hn Hlo Hhi. pose proof (land_disjoint hi lo n Hn Hlo Hhi) as H.
  rewrite <- Z.lxor_lor by exact H. symmetry. apply Z.add_nocarry_lxor. exact H.
Qed.

Theorem mul_spec a b : 0 <= a < q -> 0 <= b < q -> mul a b = (a * b) mod q.
Proof.
  intros Ha Hb. unfold mul.
  set (p := a * b).
  assert (Hp : 0 <= p < q*q) by (unfold p, q in *; nia).
  assert (Hp64 : w64 p = p) by (unfold w64; apply Z.mod_small; unfold q in *; lia).
  rewrite Hp64.
  rewrite !shiftr_div, !shiftl_mul by lia.
  rewrite land_mask32 by lia.
  set (ph := p / 2^32). set (pl := p mod 2^32).
  assert (Hph : 0 <= ph < 2^14) by (unfold ph, q in *; lia).
  assert (Hpl : 0 <= pl < 2^32) by (unfold pl; lia).
  rewrite M_val.
  assert (Hhi : w64 (ph * 8396807) = ph * 8396807) by (unfold w64; apply Z.mod_small; lia).
  assert (Hlo : w64 (pl * 8396807) = pl * 8396807) by (unfold w64; apply Z.mod_small; lia).
  rewrite Hhi, Hlo.
  rewrite land_mask32 by lia.
  set (hi := ph * 8396807). set (lo := pl * 8396807).
  assert (HP : p * 8396807 = hi * 2^32 + lo) by (unfold hi, lo, ph, pl; lia).
  set (hiLo := hi mod 2^32).
  assert (Hc : w64 (lo / 2^32 + hiLo) = lo / 2^32 + hiLo) by (unfold w64; apply Z.mod_small; unfold hiLo, lo; lia).
  rewrite Hc.
  set (carry := (lo / 2^32 + hiLo) / 2^32).
  assert (Hqh : w64 (hi / 2^32 + carry) = hi / 2^32 + carry) by (unfold w64; apply Z.mod_small; unfold carry, hiLo, hi, lo; lia).
  rewrite Hqh. rewrite land_mask6 by (unfold carry, hiLo, hi, lo; lia).
  (* the full product P = p*M, its top and low words *)
  assert (Htop : hi / 2^32 + carry = (p * 8396807) / 2^64).
  { rewrite HP. unfold carry, hiLo. lia. }
  assert (Hlow : w64 (hiLo * 2^32 + lo) = (p * 8396807) mod 2^64).
  { rewrite HP. unfold w64, hiLo. lia. }
  rewrite Htop, Hlow.
  assert (Hsmall : (p * 8396807) / 2^64 < 2^6) by (unfold q in *; lia).
  rewrite (Z.mod_small ((p * 8396807) / 2^64)) by lia.
  set (P := p * 8396807) in *.
  assert (Hquo : Z.lor (w64 (P / 2^64 * 2^18)) (P mod 2^64 / 2^46) = P / 2^46).
  { unfold w64. rewrite (Z.mod_small (P / 2^64 * 2^18)) by lia.
    rewrite lor_disjoint_add by lia. lia. }
  rewrite Hquo.
  pose proof (barrett_quo p Hp) as Hb'. cbv zeta in Hb'. rewrite M_val in Hb'. fold P in Hb'.
  set (quo := P / 2^46) in *.
  assert (Hqq : w64 (quo * q) = quo * q) by (unfold w64; apply Z.mod_small; unfold q in *; lia).
  rewrite Hqq.
  assert (Hr : w32 (w64 (p - quo * q)) = p - quo * q).
  { unfold w32, w64. rewrite (Z.mod_small (p - quo*q)) by (unfold q in *; lia). apply Z.mod_small. unfold q in *; lia. }
  rewrite Hr. unfold reduceOnce.
  destruct (q <=? p - quo * q) eqn:E.
  - apply Z.leb_le in E. unfold w32. rewrite Z.mod_small by (unfold q in *; lia).
    unfold q in *; lia.
  - apply Z.leb_gt in E. unfold q in *; lia.
Qed.
Print Assumptions mul_spec.
