From Coq Require Import List NArith.
Import ListNotations.
Section S.
  Variable H : list N -> list N.
  Fixpoint chain (n : nat) (x : list N) : list N :=
    match n with O => x | S k => chain k (H x) end.
End S.
Require Import ExtrOcamlBasic.
Extraction "model.ml" chain.
