(* Probe: nonce-based streaming Writer, chunking independence. *)
From Coq Require Import List Arith Lia NArith Bool.
Import ListNotations.

Definition bytes := list N.

Section W.
  Variable S : nat.          (* plaintext segment size *)
  Variable off : nat.        (* first-segment reduction *)
  Variable encs : nat -> bool -> bytes -> bytes.  (* idx, last?, plaintext -> ciphertext segment *)
  Hypothesis HS : 0 < S - off.

  Record wst := { buf : bytes; cnt : nat; out : list bytes }.
  Definition lim (c : nat) := if c =? 0 then S - off else S.
  Definition init := {| buf := []; cnt := 0; out := [] |}.

  (* Go: Writer.Write, the for-loop, with fuel *)
  Fixpoint wloop (fuel : nat) (st : wst) (p : bytes) : option wst :=
    match fuel with
    | O => None
    | Datatypes.S f =>
      let n := Nat.min (lim (cnt st) - length (buf st)) (length p) in
      let b' := buf st ++ firstn n p in
      let p' := skipn n p in
      match p' with
      | [] => Some {| buf := b'; cnt := cnt st; out := out st |}
      | _ :: _ =>
        wloop f {| buf := []; cnt := Datatypes.S (cnt st);
                   out := out st ++ [encs (cnt st) false b'] |} p'
      end
    end.
  Definition write (st : wst) (p : bytes) := wloop (length p + 2) st p.
  Definition close (st : wst) : list bytes := out st ++ [encs (cnt st) true (buf st)].

  (* byte-at-a-time reference semantics *)
  Definition push (st : wst) (b : N) : wst :=
    if length (buf st) <? lim (cnt st)
    then {| buf := buf st ++ [b]; cnt := cnt st; out := out st |}
    else {| buf := [b]; cnt := Datatypes.S (cnt st);
            out := out st ++ [encs (cnt st) false (buf st)] |}.

  Definition Inv (st : wst) := length (buf st) <= lim (cnt st).

  Lemma lim_pos c : 0 < lim c.
  Proof. unfold lim. destruct (c =? 0); lia. Qed.

  Lemma push_inv st b : Inv st -> Inv (push st b).
  Proof.
    unfold Inv, push. intros H. destruct (Nat.ltb_spec (length (buf st)) (lim (cnt st))); cbn.
    - rewrite app_length; cbn; lia.
    - pose proof (lim_pos (Datatypes.S (cnt st))). lia.
  Qed.

  Lemma fold_push_inv p : forall st, Inv st -> Inv (fold_left push p st).
  Proof. induction p as [|b p IH]; cbn; intros st H; [exact H|]. apply IH, push_inv, H. Qed.

  (* pushing a block that fits entirely *)
  Lemma fold_push_fits p : forall st,
    length (buf st) + length p <= lim (cnt st) ->
    fold_left push p st = {| buf := buf st ++ p; cnt := cnt st; out := out st |}.
  Proof.
    induction p as [|b p IH]; intros st H; cbn in *.
    - rewrite app_nil_r. destruct st; reflexivity.
    - unfold push at 2. destruct (Nat.ltb_spec (length (buf st)) (lim (cnt st))); [|lia].
      rewrite IH; cbn; [|rewrite app_length; cbn; lia].
      rewrite <- app_assoc. reflexivity.
  Qed.

  Lemma wloop_fold : forall fuel st p,
    Inv st -> length p + 1 + (if length (buf st) <? lim (cnt st) then 0 else 1) <= fuel ->
    wloop fuel st p = Some (fold_left push p st).
  Proof.
    induction fuel as [|f IH]; intros st p Hinv Hf.
    - destruct (length (buf st) <? lim (cnt st)); lia.
    - cbn [wloop].
      set (n := Nat.min (lim (cnt st) - length (buf st)) (length p)).
      assert (Hn : n <= length p) by (unfold n; lia).
      assert (Hfit : length (buf st) + n <= lim (cnt st)) by (unfold n, Inv in *; lia).
      replace (fold_left push p st) with (fold_left push (firstn n p ++ skipn n p) st)
        by (now rewrite firstn_skipn).
      rewrite fold_left_app.
      rewrite (fold_push_fits (firstn n p) st) by (rewrite firstn_length; lia).
      destruct (skipn n p) as [|b q] eqn:Esk.
      + cbn. reflexivity.
      + (* buffer must now be full *)
        assert (Hlen : length (skipn n p) = length p - n) by apply skipn_length.
        rewrite Esk in Hlen. cbn in Hlen.
        assert (Hfull : length (buf st) + n = lim (cnt st)) by (unfold n in *; lia).
        set (st1 := {| buf := buf st ++ firstn n p; cnt := cnt st; out := out st |}).
        assert (Hpush : push st1 b = {| buf := [b]; cnt := Datatypes.S (cnt st);
                                        out := out st ++ [encs (cnt st) false (buf st ++ firstn n p)] |}).
        { unfold push, st1; cbn [buf cnt out]. rewrite app_length, firstn_length, Nat.min_l by lia.
          rewrite (proj2 (Nat.ltb_ge _ _)) by lia. reflexivity. }
        cbn [fold_left]. rewrite Hpush.
        set (st2 := {| buf := []; cnt := Datatypes.S (cnt st);
                       out := out st ++ [encs (cnt st) false (buf st ++ firstn n p)] |}).
        rewrite (IH st2 (b :: q)).
        * cbn [fold_left]. f_equal. f_equal. unfold push, st2; cbn [buf cnt out length].
          pose proof (lim_pos (Datatypes.S (cnt st))) as Hl.
          rewrite (proj2 (Nat.ltb_lt _ _)) by lia. reflexivity.
        * unfold Inv, st2; cbn. lia.
        * unfold st2; cbn [buf cnt length]. pose proof (lim_pos (Datatypes.S (cnt st))).
          rewrite (proj2 (Nat.ltb_lt _ _)) by lia.
          destruct (Nat.ltb_spec (length (buf st)) (lim (cnt st))); cbn [length] in *; lia.
  Qed.

  Lemma write_fold st p : Inv st -> write st p = Some (fold_left push p st).
  Proof.
    intros H. unfold write. apply wloop_fold; [exact H|].
    destruct (length (buf st) <? lim (cnt st)); lia.
  Qed.

  (* run a whole list of Write calls *)
  Fixpoint writes (st : wst) (chunks : list bytes) : option wst :=
    match chunks with
    | [] => Some st
    | c :: cs => match write st c with Some st' => writes st' cs | None => None end
    end.

  Theorem write_partition_independent : forall chunks,
    option_map close (writes init chunks) = Some (close (fold_left push (concat chunks) init)).
  Proof.
    assert (G : forall chunks st, Inv st ->
              writes st chunks = Some (fold_left push (concat chunks) st)).
    { induction chunks as [|c cs IH]; intros st H; cbn; [reflexivity|].
      rewrite write_fold by exact H. rewrite fold_left_app. apply IH, fold_push_inv, H. }
    intros chunks. rewrite G; [reflexivity|]. unfold Inv, init; cbn. lia.
  Qed.
End W.
Print Assumptions write_partition_independent.
