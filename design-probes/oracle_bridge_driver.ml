open Model
let rec n_of_int i = if i = 0 then N0 else Npos (pos_of_int i)
and pos_of_int i = if i = 1 then XH else if i land 1 = 0 then XO (pos_of_int (i lsr 1)) else XI (pos_of_int (i lsr 1))
let rec int_of_pos = function XH -> 1 | XO p -> 2 * int_of_pos p | XI p -> 2 * int_of_pos p + 1
let int_of_n = function N0 -> 0 | Npos p -> int_of_pos p
let (ic, oc) = Unix.open_process "./oracle"
let hexs l = String.concat "" (List.map (fun b -> Printf.sprintf "%02x" (int_of_n b)) l)
let unhex s = List.init (String.length s / 2) (fun i -> n_of_int (int_of_string ("0x" ^ String.sub s (2*i) 2)))
let h x = output_string oc (hexs x); output_char oc '\n'; flush oc; unhex (input_line ic)
let rec nat_of_int i = if i = 0 then O else S (nat_of_int (i-1))
let () =
  let t = Unix.gettimeofday () in
  let n = 100000 in
  let r = chain h (nat_of_int n) [n_of_int 1; n_of_int 2] in
  Printf.printf "%s\n%d calls in %.2fs\n" (hexs r) n (Unix.gettimeofday () -. t)
