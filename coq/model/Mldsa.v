(* Model of internal/signature/mldsa/mldsa.go and marshal.go (key/signature
   encodings), and of the thin layers above it: signature/mldsa signer and
   verifier (output prefix) and signprehash/mldsa (external mu).
   SHAKE128/SHAKE256 (golang.org/x/crypto/sha3) are Section variables,
   answered by the stdlib oracle at run time. *)
From Coq Require Import List ZArith NArith Bool Arith.
From Tink Require Import Bytes Wrap MldsaScalar MldsaKernels MldsaPoly.
Import ListNotations.
Local Open Scope nat_scope.

(* mldsa.go: params (tau, lambda, log2Gamma1, gamma2, k, l, eta, omega and the
   two derived widths) *)
Record params := mkParams {
  p_tau : nat; p_lambda : nat; p_log2Gamma1 : nat; p_gamma2 : Z;
  p_k : nat; p_l : nat; p_eta : Z; p_omega : nat;
  p_etaBits : nat; p_w1Bits : nat }.

(* math/bits.Len *)
Definition bitsLen (x : Z) : nat := if Z.leb x 0 then O else S (Z.to_nat (Z.log2 x)).

(* newParams(paramsOpts) *)
Definition newParams (tau lambda log2Gamma1 : nat) (invGamma2 : Z) (k l : nat) (eta : Z) (omega : nat) : params :=
  let gamma2 := ((mldsa_q - 1) / invGamma2)%Z in
  mkParams tau lambda log2Gamma1 gamma2 k l eta omega
           (bitsLen (2 * eta)) (bitsLen ((mldsa_q - 1) / (2 * gamma2) - 1)).

Definition MLDSA44 : params := Eval vm_compute in newParams 39 128 17 88 4 4 2 80.
Definition MLDSA65 : params := Eval vm_compute in newParams 49 192 19 32 6 5 4 55.
Definition MLDSA87 : params := Eval vm_compute in newParams 60 256 19 32 8 7 2 75.

Definition t1Bits : nat := Z.to_nat (mldsa_qBits - mldsa_d).   (* qBits - d = 10 *)
Definition dBits : nat := Z.to_nat mldsa_d.                     (* 13 *)

(* lengths (marshal.go) *)
Definition publicKeyLength (P : params) : nat := 32 + 32 * p_k P * t1Bits.
Definition secretKeyLength (P : params) : nat :=
  32 + 32 + 64 + 32 * ((p_l P + p_k P) * p_etaBits P + dBits * p_k P).
Definition ctLen (P : params) : nat := p_lambda P / 4.
Definition zBits (P : params) : nat := p_log2Gamma1 P + 1.
Definition signatureLength (P : params) : nat :=
  ctLen P + p_l P * 32 * (1 + p_log2Gamma1 P) + p_omega P + p_k P.
Definition gamma1 (P : params) : Z := Z.shiftl 1 (Z.of_nat (p_log2Gamma1 P)).
(* beta := uint32(par.tau * par.eta) *)
Definition beta (P : params) : Z := (Z.of_nat (p_tau P) * p_eta P)%Z.

(* all-or-nothing sequence of optional results *)
Fixpoint oseq {A} (l : list (option A)) : option (list A) :=
  match l with
  | [] => Some []
  | None :: _ => None
  | Some x :: t => match oseq t with None => None | Some r => Some (x :: r) end
  end.

Definition obind {A B} (o : option A) (f : A -> option B) : option B :=
  match o with None => None | Some a => f a end.

(* fixed-size pieces of a byte string *)
Definition pieces (n cnt : nat) (b : bytes) : list bytes :=
  map (fun i => firstn n (skipn (i * n) b)) (seq 0 cnt).

Record publicKey := mkPK { pk_rho : bytes; pk_t1 : list poly; pk_tr : bytes }.
Record secretKey := mkSK { sk_rho : bytes; sk_K : bytes; sk_tr : bytes;
                           sk_s1 : list poly; sk_s2 : list poly; sk_t0 : list poly }.

(* vectors *)
Definition vadd (v w : list poly) := map2 padd v w.
Definition vsub (v w : list poly) := map2 psub v w.
Definition vneg (v : list poly) := map pneg v.
Definition vntt (v : list poly) := map ntt v.
Definition vintt (v : list poly) := map intt v.
Definition vscalarMul (c : poly) (v : list poly) := map (pmul c) v.
(* matrixNTT.mul: res[i] starts as the zero polynomial; res[i] = res[i] + m[i][j]*v[j] *)
Definition mmul (m : list (list poly)) (v : list poly) : list poly :=
  map (fun row => fold_left (fun acc mv => padd acc (pmul (fst mv) (snd mv))) (combine row v) zero_poly) m.

Section WithShake.
  Variable shake128 : bytes -> nat -> bytes.
  Variable shake256 : bytes -> nat -> bytes.
  Variable P : params.

  Definition byteN (i : nat) : N := (N.of_nat i mod 256)%N.

  (* Algorithm 32: rhop = rho ‖ byte(s) ‖ byte(r) *)
  Definition expandA (rho : bytes) : option (list (list poly)) :=
    oseq (map (fun r => oseq (map (fun s => rejectNTTPoly shake128 (rho ++ [byteN s; byteN r]))
                                  (seq 0 (p_l P))))
              (seq 0 (p_k P))).

  (* Algorithm 33 *)
  Definition expandS (rho : bytes) : option (list poly * list poly) :=
    match oseq (map (fun i => rejectBoundedPoly shake256 (p_eta P) (rho ++ [byteN i; 0%N])) (seq 0 (p_l P))),
          oseq (map (fun i => rejectBoundedPoly shake256 (p_eta P) (rho ++ [byteN (i + p_l P); 0%N])) (seq 0 (p_k P))) with
    | Some s1, Some s2 => Some (s1, s2)
    | _, _ => None
    end.

  (* Algorithm 34: rhop = rho ‖ byte((mu+i)&0xFF) ‖ byte((mu+i)>>8) *)
  Definition expandMask (rho : bytes) (mu : nat) : list poly :=
    map (fun i =>
           let n := (mu + i)%nat in
           let v := shake256 (rho ++ [byteN n; byteN (n / 256)]) (32 * zBits P) in
           bitUnpack (gamma1 P) (zBits P) v)
        (seq 0 (p_l P)).

  (* Algorithm 22 (pkEncode) *)
  Definition pkEncodeRaw (rho : bytes) (t1 : list poly) : bytes :=
    firstn 32 (rho ++ zeros 32) ++ concat (map (simpleBitPack t1Bits) t1).
  Definition pkEncode (pk : publicKey) : bytes := pkEncodeRaw (pk_rho pk) (pk_t1 pk).

  (* Algorithm 23 (pkDecode): Err on a wrong length *)
  Definition pkDecode (enc : bytes) : option publicKey :=
    if negb (Nat.eqb (length enc) (publicKeyLength P)) then None else
    let rho := firstn 32 enc in
    let t1 := map (simpleBitUnpack t1Bits) (pieces (32 * t1Bits) (p_k P) (skipn 32 enc)) in
    Some (mkPK rho t1 (shake256 enc 64)).

  (* Algorithm 24 (skEncode) *)
  Definition skEncode (sk : secretKey) : bytes :=
    firstn 32 (sk_rho sk ++ zeros 32) ++ firstn 32 (sk_K sk ++ zeros 32) ++ firstn 64 (sk_tr sk ++ zeros 64) ++
    concat (map (bitPack (p_eta P) (p_etaBits P)) (sk_s1 sk)) ++
    concat (map (bitPack (p_eta P) (p_etaBits P)) (sk_s2 sk)) ++
    concat (map (bitPack (Z.shiftl 1 (mldsa_d - 1)) dBits) (sk_t0 sk)).

  (* Algorithm 25 (skDecode) *)
  Definition skDecode (enc : bytes) : option secretKey :=
    if negb (Nat.eqb (length enc) (secretKeyLength P)) then None else
    let sStep := 32 * p_etaBits P in
    let body := skipn 128 enc in
    let s1 := map (bitUnpack (p_eta P) (p_etaBits P)) (pieces sStep (p_l P) body) in
    let s2 := map (bitUnpack (p_eta P) (p_etaBits P)) (pieces sStep (p_k P) (skipn (p_l P * sStep) body)) in
    let t0 := map (bitUnpack (Z.shiftl 1 (mldsa_d - 1)) dBits)
                  (pieces (32 * dBits) (p_k P) (skipn (p_l P * sStep + p_k P * sStep) body)) in
    Some (mkSK (firstn 32 enc) (firstn 32 (skipn 32 enc)) (firstn 64 (skipn 64 enc)) s1 s2 t0).

  (* Algorithm 28 *)
  Definition w1Encode (w1 : list poly) : bytes := concat (map (simpleBitPack (p_w1Bits P)) w1).

  (* Algorithm 26 *)
  Definition sigEncode (c : bytes) (z h : list poly) : bytes :=
    firstn (ctLen P) (c ++ zeros (ctLen P)) ++
    concat (map (bitPack (gamma1 P) (zBits P)) z) ++ hintBitPack (p_omega P) h.

  (* Algorithm 27: Err on wrong length or malformed hint *)
  Definition sigDecode (sigma : bytes) : option (bytes * list poly * list poly) :=
    if negb (Nat.eqb (length sigma) (signatureLength P)) then None else
    let c := firstn (ctLen P) sigma in
    let z := map (bitUnpack (gamma1 P) (zBits P)) (pieces (32 * zBits P) (p_l P) (skipn (ctLen P) sigma)) in
    match hintBitUnpack (p_omega P) (p_k P) (skipn (ctLen P + p_l P * 32 * zBits P) sigma) with
    | Ok h => Some (c, z, h)
    | _ => None
    end.

  (* Algorithm 6 (KeyGen_internal): None only when an XOF stream ran out *)
  Definition keyGenInternal (seed : bytes) : option (publicKey * secretKey) :=
    let H := shake256 (seed ++ [byteN (p_k P); byteN (p_l P)]) 128 in
    let rho := firstn 32 H in
    let rhop := firstn 64 (skipn 32 H) in
    let K := firstn 32 (skipn 96 H) in
    obind (expandA rho) (fun Ah =>
    obind (expandS rhop) (fun s12 =>
      let '(s1, s2) := s12 in
      let t := vadd (vintt (mmul Ah (vntt s1))) s2 in
      let t10 := map ppower2Round t in
      let t1 := map fst t10 in
      let t0 := map snd t10 in
      let tr := shake256 (pkEncodeRaw rho t1) 64 in
      Some (mkPK rho t1 tr, mkSK rho K tr s1 s2 t0))).

  Inductive sign_result := Signed (sigma : bytes) | Rejected | OutOfStream | BadGamma.

  (* one iteration of the loop of signInternalWithMu *)
  Definition signAttempt (Ah : list (list poly)) (s1h s2h t0h : list poly)
             (mu rhopp : bytes) (kappa : nat) : sign_result :=
    let g := p_gamma2 P in
    let y := expandMask rhopp kappa in
    let w := vintt (mmul Ah (vntt y)) in
    match oseq (map (phighBits g) w) with
    | None => BadGamma
    | Some w1 =>
        let ct := shake256 (mu ++ w1Encode w1) (ctLen P) in
        match sampleInBall shake256 (p_tau P) ct with
        | None => OutOfStream
        | Some c =>
            let ch := ntt c in
            let cs1 := vintt (vscalarMul ch s1h) in
            let cs2 := vintt (vscalarMul ch s2h) in
            let z := vadd y cs1 in
            match oseq (map (plowBits g) (vsub w cs2)) with
            | None => BadGamma
            | Some r0 =>
                if (Z.ltb (vinfNorm z) (wrapu 32 (gamma1 P - beta P)) &&
                    Z.ltb (vinfNorm r0) (wrapu 32 (g - beta P)))%bool then
                  let ct0 := vintt (vscalarMul ch t0h) in
                  match oseq (map2 (pmakeHint g) (vneg ct0) (vadd (vsub w cs2) ct0)) with
                  | None => BadGamma
                  | Some h =>
                      if (Z.ltb (vinfNorm ct0) g && Z.leb (vnumOnes h) (Z.of_nat (p_omega P)))%bool
                      then Signed (sigEncode ct z h)
                      else Rejected
                  end
                else Rejected
            end
        end
    end.

  Fixpoint signLoop (fuel : nat) (Ah : list (list poly)) (s1h s2h t0h : list poly)
           (mu rhopp : bytes) (kappa : nat) : option bytes :=
    match fuel with
    | O => None
    | S f =>
        match signAttempt Ah s1h s2h t0h mu rhopp kappa with
        | Signed s => Some s
        | Rejected => signLoop f Ah s1h s2h t0h mu rhopp (kappa + p_l P)
        | _ => None
        end
    end.

  (* signInternalWithMu; fuel bounds the rejection loop (None: fuel or an XOF
     stream ran out) *)
  Definition signInternalWithMu (fuel : nat) (sk : secretKey) (mu rnd : bytes) : option bytes :=
    let s1h := vntt (sk_s1 sk) in
    let s2h := vntt (sk_s2 sk) in
    let t0h := vntt (sk_t0 sk) in
    obind (expandA (sk_rho sk)) (fun Ah =>
      let rhopp := shake256 (sk_K sk ++ rnd ++ mu) 64 in
      signLoop fuel Ah s1h s2h t0h mu rhopp 0).

  (* verifyInternalWithMu: Some true = nil, Some false = error, None = stream ran out *)
  Definition verifyInternalWithMu (pk : publicKey) (mu sigma : bytes) : option bool :=
    match sigDecode sigma with
    | None => Some false
    | Some (ct, z, h) =>
        obind (expandA (pk_rho pk)) (fun Ah =>
        obind (sampleInBall shake256 (p_tau P) ct) (fun c =>
          let Azh := mmul Ah (vntt z) in
          let t1sh := vntt (map pscalePower2 (pk_t1 pk)) in
          let wp := vintt (vsub Azh (vscalarMul (ntt c) t1sh)) in
          match oseq (map2 (puseHint (p_gamma2 P)) wp h) with
          | None => None
          | Some w1p =>
              let ctp := shake256 (mu ++ w1Encode w1p) (ctLen P) in
              Some (Z.ltb (vinfNorm z) (wrapu 32 (gamma1 P - beta P)) && beq ct ctp)%bool
          end))
    end.

  Definition computeMu (tr Mp : bytes) : bytes := shake256 (tr ++ Mp) 64.

  (* Algorithm 7 / 8 *)
  Definition signInternal (fuel : nat) (sk : secretKey) (Mp rnd : bytes) : option bytes :=
    signInternalWithMu fuel sk (computeMu (sk_tr sk) Mp) rnd.
  Definition verifyInternal (pk : publicKey) (Mp sigma : bytes) : option bool :=
    verifyInternalWithMu pk (computeMu (pk_tr pk) Mp) sigma.

  (* M' = 0 ‖ len(ctx) ‖ ctx ‖ M *)
  Definition formatMsg (M ctx : bytes) : bytes := [0%N; N.of_nat (length ctx)] ++ ctx ++ M.

  (* Sign / SignDeterministic (rnd = 32 zero bytes) / Verify with a context;
     outer None = "context too long" error *)
  Definition sign (fuel : nat) (sk : secretKey) (M ctx rnd : bytes) : option (option bytes) :=
    if Nat.ltb 255 (length ctx) then None else Some (signInternal fuel sk (formatMsg M ctx) rnd).
  Definition verify (pk : publicKey) (M sigma ctx : bytes) : option bool :=
    if Nat.ltb 255 (length ctx) then Some false else verifyInternal pk (formatMsg M ctx) sigma.

  (* signature/mldsa signer.go / verifier.go: the key holds the ENCODED keys;
     prefix = output prefix of the key (empty or 0x01 ‖ be32(id)) *)
  Definition tinkSign (fuel : nat) (prefix skEnc data rnd : bytes) : option bytes :=
    obind (skDecode skEnc) (fun sk =>
    obind (signInternal fuel sk (formatMsg data []) rnd) (fun s => Some (prefix ++ s))).

  Definition tinkVerify (prefix pkEnc sigma data : bytes) : option bool :=
    match pkDecode pkEnc with
    | None => Some false
    | Some pk =>
        if beq (firstn (length prefix) sigma) prefix
        then verifyInternal pk (formatMsg data []) (skipn (length prefix) sigma)
        else Some false
    end.

  (* signprehash/mldsa: payload = 0xFF ‖ be32(keyID) ‖ mu, mu over tr ‖ 0 ‖ 0 ‖ data *)
  Definition computePrehash (tr : bytes) (keyID : N) (data : bytes) : bytes :=
    [255%N] ++ be_bytes 4 keyID ++ shake256 (tr ++ [0%N; 0%N] ++ data) 64.

  (* SignPrehash: outer None = rejected prehash; the signer's key comes from the seed *)
  Definition signPrehash (fuel : nat) (sk : secretKey) (keyID : N) (prehash rnd : bytes) : option (option bytes) :=
    if negb (Nat.eqb (length prehash) 69) then None else
    if negb (N.eqb (nth 0 prehash 0%N) 255) then None else
    if negb (beq (firstn 4 (skipn 1 prehash)) (be_bytes 4 keyID)) then None else
    Some (signInternalWithMu fuel sk (skipn 5 prehash) rnd).

  (* signature/compositemldsa (with internal/signature/compositemldsa/util.go):
     signature = prefix ‖ ML-DSA signature ‖ classical signature, both over
     M' = "CompositeAlgorithmSignatures2025" ‖ label ‖ 0x00 ‖ SHA-512(data),
     the ML-DSA one with context = label.  SHA-512 and the classical verifier
     (Ed25519, ECDSA, RSA: Go standard library) are Section variables. *)
  Variable sha512 : bytes -> bytes.
  Variable classicalVerify : bytes -> bytes -> bytes -> bool.   (* public key, message, signature *)

  (* "CompositeAlgorithmSignatures2025" *)
  Definition compositeDomain : bytes :=
    [67; 111; 109; 112; 111; 115; 105; 116; 101; 65; 108; 103; 111; 114; 105; 116; 104; 109;
     83; 105; 103; 110; 97; 116; 117; 114; 101; 115; 50; 48; 50; 53]%N.

  Definition compositeMessagePrime (label data : bytes) : bytes :=
    compositeDomain ++ label ++ [0%N] ++ sha512 data.

  (* verifier.Verify: prefix, minimum length, then BOTH component verifications *)
  Definition compositeVerify (prefix pkEnc clPk label sigma data : bytes) : option bool :=
    match pkDecode pkEnc with
    | None => Some false
    | Some pk =>
        if negb (beq (firstn (length prefix) sigma) prefix) then Some false else
        let s := skipn (length prefix) sigma in
        if Nat.ltb (length s) (signatureLength P) then Some false else
        let mp := compositeMessagePrime label data in
        match verify pk mp (firstn (signatureLength P) s) label with
        | Some true => Some (classicalVerify clPk mp (skipn (signatureLength P) s))
        | r => r
        end
    end.

  (* the ML-DSA component produced by signer.Sign (secret key from the seed) *)
  Definition compositeSignMldsaPart (fuel : nat) (sk : secretKey) (label data rnd : bytes) : option (option bytes) :=
    sign fuel sk (compositeMessagePrime label data) label rnd.
End WithShake.
