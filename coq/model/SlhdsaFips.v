(* FIPS 205 (Stateless Hash-Based Digital Signature Standard, August 2024)
   transcribed from the text of the standard, algorithm by algorithm and line
   by line, INDEPENDENTLY of the Go code and of the implementation model
   (model/Slhdsa*.v): this file imports nothing of them (only `bytes = list N`).

   Differences of shape with the implementation model that the proofs
   (proofs/SlhdsaFips*.v) have to bridge:
   - integers are unbounded (no uint32 / uint64 wrap-around, no masks);
   - ADRS is the 32-byte string of FIPS 205 section 4.2, manipulated by the
     member functions of Table 1 as byte-string splices (the implementation
     model keeps a record of six words);
   - ADRS is passed BY VALUE, as in the pseudocode of the standard (a callee's
     changes are not seen by the caller); the Go code passes one pointer around;
   - the slices X[i:j] are the ones the standard writes (getSK, getAUTH,
     getXMSSSignature, getR, ... with the standard's bounds);
   - h' is h/d where the standard writes h/d; the lengths are ceilings
     defined by case distinction on the remainder;
   - loops are `for_ lo cnt body` ("for i from lo to lo+cnt-1 do") carrying
     exactly the variables the pseudocode assigns.
   Arrays of n-byte strings (tmp, sig, AUTH, root, SIG_FORS, SIG_HT) are the
   concatenations the standard passes on (it hashes tmp as a len*n-byte
   string, returns sig as a len*n-byte string, ...). *)
From Coq Require Import List NArith Bool Arith.
From Tink Require Import Bytes.
Import ListNotations.
Open Scope N_scope.

(* ---- Table 2 columns ---- *)
Record fips_params := mkFP {
  f_n : nat; f_h : nat; f_d : nat; f_hp : nat; f_a : nat; f_k : nat; f_lgw : nat; f_m : nat
}.

(* ---- pseudocode conventions (section 2.3 / 2.4) ---- *)

(* X[i : j] : bytes i .. j-1 *)
Definition sl (X : bytes) (i j : nat) : bytes := firstn (j - i) (skipn i X).

(* ceil(x / y) *)
Definition ceil_div (x y : nat) : nat :=
  if Nat.eqb (x mod y) 0 then (x / y)%nat else (x / y + 1)%nat.

(* for i from lo to lo + cnt - 1 do st <- body i st *)
Fixpoint for_ {St : Type} (lo cnt : nat) (body : nat -> St -> St) (st : St) : St :=
  match cnt with
  | O => st
  | S c => for_ (S lo) c body (body lo st)
  end.

(* ---- section 4.4: Algorithms 2, 3, 4 ---- *)

(* Algorithm 2 toInt(X, n): total <- 0; for i from 0 to n-1: total <- 256*total + X[i] *)
Definition toInt (X : bytes) (n : nat) : N :=
  for_ 0 n (fun i total => 256 * total + nth i X 0) 0.

(* Algorithm 3 toByte(x, n): total <- x; for i from 0 to n-1: S[n-1-i] <- total mod 256;
   total <- total >> 8.  S is filled from its last byte downwards: each step
   puts one byte in front of the bytes already written. *)
Definition toByte (x : N) (n : nat) : bytes :=
  snd (for_ 0 n (fun _ '(total, Sb) => (N.shiftr total 8, (total mod 256) :: Sb)) (x, [])).

(* Algorithm 4 base_2b(X, b, out_len).
   line 4-8: while bits < b do total <- (total << 8) + X[in]; in <- in+1; bits <- bits+8
   (at most b rounds: each adds 8 bits) *)
Fixpoint b2b_while (fuel : nat) (X : bytes) (b : nat) (st : nat * nat * N) : nat * nat * N :=
  let '(i, bits, total) := st in
  match fuel with
  | O => st
  | S f => if Nat.ltb bits b
           then b2b_while f X b ((i + 1)%nat, (bits + 8)%nat, N.shiftl total 8 + nth i X 0)
           else st
  end.

Definition base_2b (X : bytes) (b out_len : nat) : list N :=
  snd (for_ 0 out_len (fun _ '(st, baseb) =>
         let '(i, bits, total) := b2b_while b X b st in
         let bits := (bits - b)%nat in
         ((i, bits, total), baseb ++ [N.shiftr total (N.of_nat bits) mod 2 ^ N.of_nat b]))
       ((0%nat, 0%nat, 0), [])).

(* ---- section 4.2, 4.3: ADRS (32 bytes) and its member functions (Table 1) ---- *)
Definition ADRS := bytes.

Definition WOTS_HASH : N := 0.
Definition WOTS_PK : N := 1.
Definition TREE : N := 2.
Definition FORS_TREE : N := 3.
Definition FORS_ROOTS : N := 4.
Definition WOTS_PRF : N := 5.
Definition FORS_PRF : N := 6.

Definition setLayerAddress (l : N) (A : ADRS) : ADRS := toByte l 4 ++ sl A 4 32.
Definition setTreeAddress (t : N) (A : ADRS) : ADRS := sl A 0 4 ++ toByte t 12 ++ sl A 16 32.
Definition setTypeAndClear (Y : N) (A : ADRS) : ADRS := sl A 0 16 ++ toByte Y 4 ++ toByte 0 12.
Definition setKeyPairAddress (i : N) (A : ADRS) : ADRS := sl A 0 20 ++ toByte i 4 ++ sl A 24 32.
Definition setChainAddress (i : N) (A : ADRS) : ADRS := sl A 0 24 ++ toByte i 4 ++ sl A 28 32.
Definition setTreeHeight (i : N) (A : ADRS) : ADRS := sl A 0 24 ++ toByte i 4 ++ sl A 28 32.
Definition setHashAddress (i : N) (A : ADRS) : ADRS := sl A 0 28 ++ toByte i 4.
Definition setTreeIndex (i : N) (A : ADRS) : ADRS := sl A 0 28 ++ toByte i 4.
Definition getKeyPairAddress (A : ADRS) : N := toInt (sl A 20 24) 4.
Definition getTreeIndex (A : ADRS) : N := toInt (sl A 28 32) 4.

(* section 11.2: the 22-byte compressed address of the SHA2 instantiations
   ADRS^c = ADRS[3] || ADRS[8:16] || ADRS[19] || ADRS[20:32] *)
Definition ADRSc (A : ADRS) : bytes := sl A 3 4 ++ sl A 8 16 ++ sl A 19 20 ++ sl A 20 32.

(* ---- section 4.1: the six functions ---- *)
Record fips_hashes := mkFH {
  H_msg : bytes -> bytes -> bytes -> bytes -> bytes;   (* R PK.seed PK.root M *)
  PRF : bytes -> bytes -> ADRS -> bytes;               (* PK.seed SK.seed ADRS *)
  PRF_msg : bytes -> bytes -> bytes -> bytes;          (* SK.prf opt_rand M *)
  F : bytes -> ADRS -> bytes -> bytes;                 (* PK.seed ADRS M1 *)
  H : bytes -> ADRS -> bytes -> bytes;                 (* PK.seed ADRS M2 *)
  T_l : bytes -> ADRS -> bytes -> bytes                (* PK.seed ADRS Ml *)
}.

Section FIPS205.
  Variable FP : fips_params.
  Variable HF : fips_hashes.
  Let n := f_n FP.
  Let h := f_h FP.
  Let d := f_d FP.
  Let h' := f_hp FP.
  Let a := f_a FP.
  Let k := f_k FP.
  Let lg_w := f_lgw FP.

  (* section 5, equations 5.1 - 5.4.  floor(log2(x) / lg_w) = floor(floor(log2 x) / lg_w)
     for an integer lg_w, and Nat.log2 is floor(log2) *)
  Definition f_w : nat := (2 ^ lg_w)%nat.
  Definition f_len1 : nat := ceil_div (8 * n) lg_w.
  Definition f_len2 : nat := (Nat.log2 (f_len1 * (f_w - 1)) / lg_w + 1)%nat.
  Definition f_len : nat := (f_len1 + f_len2)%nat.

  (* ---- Algorithm 5 chain(X, i, s, PK.seed, ADRS) ---- *)
  Definition chain (X : bytes) (i s : nat) (PKseed : bytes) (A : ADRS) : bytes :=
    snd (for_ i s (fun j '(A, tmp) =>
           let A := setHashAddress (N.of_nat j) A in
           (A, F HF PKseed A tmp))
         (A, X)).

  (* ---- Algorithm 6 wots_pkGen(SK.seed, PK.seed, ADRS) ---- *)
  Definition wots_pkGen (SKseed PKseed : bytes) (A : ADRS) : bytes :=
    let skADRS := A in
    let skADRS := setTypeAndClear WOTS_PRF skADRS in
    let skADRS := setKeyPairAddress (getKeyPairAddress A) skADRS in
    let '(skADRS, A, tmp) :=
      for_ 0 f_len (fun i '(skADRS, A, tmp) =>
        let skADRS := setChainAddress (N.of_nat i) skADRS in
        let sk := PRF HF PKseed SKseed skADRS in
        let A := setChainAddress (N.of_nat i) A in
        (skADRS, A, tmp ++ chain sk 0 (f_w - 1) PKseed A))
      (skADRS, A, []) in
    let wotspkADRS := A in
    let wotspkADRS := setTypeAndClear WOTS_PK wotspkADRS in
    let wotspkADRS := setKeyPairAddress (getKeyPairAddress A) wotspkADRS in
    T_l HF PKseed wotspkADRS tmp.

  (* lines 1-7 of Algorithm 7 = lines 1-7 of Algorithm 8: the len base-w digits of
     the message and its checksum *)
  Definition wots_digits (M : bytes) : list N :=
    let csum := 0 in
    let msg := base_2b M lg_w f_len1 in
    let csum := for_ 0 f_len1 (fun i csum => csum + N.of_nat f_w - 1 - nth i msg 0) csum in
    let csum := N.shiftl csum (N.of_nat ((8 - ((f_len2 * lg_w) mod 8)) mod 8)) in
    msg ++ base_2b (toByte csum (ceil_div (f_len2 * lg_w) 8)) lg_w f_len2.

  (* ---- Algorithm 7 wots_sign(M, SK.seed, PK.seed, ADRS) ---- *)
  Definition wots_sign (M SKseed PKseed : bytes) (A : ADRS) : bytes :=
    let msg := wots_digits M in
    let skADRS := A in
    let skADRS := setTypeAndClear WOTS_PRF skADRS in
    let skADRS := setKeyPairAddress (getKeyPairAddress A) skADRS in
    let '(skADRS, A, sig) :=
      for_ 0 f_len (fun i '(skADRS, A, sig) =>
        let skADRS := setChainAddress (N.of_nat i) skADRS in
        let sk := PRF HF PKseed SKseed skADRS in
        let A := setChainAddress (N.of_nat i) A in
        (skADRS, A, sig ++ chain sk 0 (N.to_nat (nth i msg 0)) PKseed A))
      (skADRS, A, []) in
    sig.

  (* ---- Algorithm 8 wots_pkFromSig(sig, M, PK.seed, ADRS); sig[i] = sig[i*n : (i+1)*n] ---- *)
  Definition wots_pkFromSig (sig M PKseed : bytes) (A : ADRS) : bytes :=
    let msg := wots_digits M in
    let '(A, tmp) :=
      for_ 0 f_len (fun i '(A, tmp) =>
        let A := setChainAddress (N.of_nat i) A in
        (A, tmp ++ chain (sl sig (i * n) ((i + 1) * n)) (N.to_nat (nth i msg 0))
                         (f_w - 1 - N.to_nat (nth i msg 0)) PKseed A))
      (A, []) in
    let wotspkADRS := A in
    let wotspkADRS := setTypeAndClear WOTS_PK wotspkADRS in
    let wotspkADRS := setKeyPairAddress (getKeyPairAddress A) wotspkADRS in
    T_l HF PKseed wotspkADRS tmp.

  (* ---- Algorithm 9 xmss_node(SK.seed, i, z, PK.seed, ADRS) ---- *)
  Fixpoint xmss_node (SKseed : bytes) (i : N) (z : nat) (PKseed : bytes) (A : ADRS) : bytes :=
    match z with
    | O =>
      let A := setTypeAndClear WOTS_HASH A in
      let A := setKeyPairAddress i A in
      wots_pkGen SKseed PKseed A
    | S z' =>
      let lnode := xmss_node SKseed (2 * i) z' PKseed A in
      let rnode := xmss_node SKseed (2 * i + 1) z' PKseed A in
      let A := setTypeAndClear TREE A in
      let A := setTreeHeight (N.of_nat z) A in
      let A := setTreeIndex i A in
      H HF PKseed A (lnode ++ rnode)
    end.

  (* ---- Algorithm 10 xmss_sign(M, SK.seed, idx, PK.seed, ADRS) ---- *)
  Definition xmss_sign (M SKseed : bytes) (idx : N) (PKseed : bytes) (A : ADRS) : bytes :=
    let AUTH := for_ 0 h' (fun j AUTH =>
                  let k := N.lxor (idx / 2 ^ N.of_nat j) 1 in
                  AUTH ++ xmss_node SKseed k j PKseed A) [] in
    let A := setTypeAndClear WOTS_HASH A in
    let A := setKeyPairAddress idx A in
    let sig := wots_sign M SKseed PKseed A in
    sig ++ AUTH.

  (* ---- Algorithm 11 xmss_pkFromSig(idx, SIG_XMSS, M, PK.seed, ADRS) ---- *)
  Definition xmss_pkFromSig (idx : N) (SIG_XMSS M PKseed : bytes) (A : ADRS) : bytes :=
    let A := setTypeAndClear WOTS_HASH A in
    let A := setKeyPairAddress idx A in
    let sig := sl SIG_XMSS 0 (f_len * n) in                      (* getWOTSSig *)
    let AUTH := sl SIG_XMSS (f_len * n) ((f_len + h') * n) in    (* getXMSSAUTH *)
    let node0 := wots_pkFromSig sig M PKseed A in
    let A := setTypeAndClear TREE A in
    let A := setTreeIndex idx A in
    snd (for_ 0 h' (fun k '(A, node0) =>
           let A := setTreeHeight (N.of_nat k + 1) A in
           if N.even (idx / 2 ^ N.of_nat k) then
             let A := setTreeIndex (getTreeIndex A / 2) A in
             (A, H HF PKseed A (node0 ++ sl AUTH (k * n) ((k + 1) * n)))
           else
             let A := setTreeIndex ((getTreeIndex A - 1) / 2) A in
             (A, H HF PKseed A (sl AUTH (k * n) ((k + 1) * n) ++ node0)))
         (A, node0)).

  (* ---- Algorithm 12 ht_sign(M, SK.seed, PK.seed, idx_tree, idx_leaf) ---- *)
  Definition ht_sign (M SKseed PKseed : bytes) (idx_tree idx_leaf : N) : bytes :=
    let A := toByte 0 32 in
    let A := setTreeAddress idx_tree A in
    let SIG_tmp := xmss_sign M SKseed idx_leaf PKseed A in
    let SIG_HT := SIG_tmp in
    let root := xmss_pkFromSig idx_leaf SIG_tmp M PKseed A in
    let '(idx_tree, idx_leaf, A, root, SIG_HT) :=
      for_ 1 (d - 1) (fun j '(idx_tree, idx_leaf, A, root, SIG_HT) =>
        let idx_leaf := idx_tree mod 2 ^ N.of_nat h' in
        let idx_tree := N.shiftr idx_tree (N.of_nat h') in
        let A := setLayerAddress (N.of_nat j) A in
        let A := setTreeAddress idx_tree A in
        let SIG_tmp := xmss_sign root SKseed idx_leaf PKseed A in
        let SIG_HT := SIG_HT ++ SIG_tmp in
        let root := if Nat.ltb j (d - 1) then xmss_pkFromSig idx_leaf SIG_tmp root PKseed A else root in
        (idx_tree, idx_leaf, A, root, SIG_HT))
      (idx_tree, idx_leaf, A, root, SIG_HT) in
    SIG_HT.

  (* ---- Algorithm 13 ht_verify(M, SIG_HT, PK.seed, idx_tree, idx_leaf, PK.root);
          getXMSSSignature(j) = SIG_HT[j*(h'+len)*n : (j+1)*(h'+len)*n] ---- *)
  Definition ht_verify (M SIG_HT PKseed : bytes) (idx_tree idx_leaf : N) (PKroot : bytes) : bool :=
    let A := toByte 0 32 in
    let A := setTreeAddress idx_tree A in
    let SIG_tmp := sl SIG_HT 0 ((h' + f_len) * n) in
    let node := xmss_pkFromSig idx_leaf SIG_tmp M PKseed A in
    let '(idx_tree, idx_leaf, A, node) :=
      for_ 1 (d - 1) (fun j '(idx_tree, idx_leaf, A, node) =>
        let idx_leaf := idx_tree mod 2 ^ N.of_nat h' in
        let idx_tree := N.shiftr idx_tree (N.of_nat h') in
        let A := setLayerAddress (N.of_nat j) A in
        let A := setTreeAddress idx_tree A in
        let SIG_tmp := sl SIG_HT (j * (h' + f_len) * n) ((j + 1) * (h' + f_len) * n) in
        let node := xmss_pkFromSig idx_leaf SIG_tmp node PKseed A in
        (idx_tree, idx_leaf, A, node))
      (idx_tree, idx_leaf, A, node) in
    beq node PKroot.

  (* ---- Algorithm 14 fors_skGen(SK.seed, PK.seed, ADRS, idx) ---- *)
  Definition fors_skGen (SKseed PKseed : bytes) (A : ADRS) (idx : N) : bytes :=
    let skADRS := A in
    let skADRS := setTypeAndClear FORS_PRF skADRS in
    let skADRS := setKeyPairAddress (getKeyPairAddress A) skADRS in
    let skADRS := setTreeIndex idx skADRS in
    PRF HF PKseed SKseed skADRS.

  (* ---- Algorithm 15 fors_node(SK.seed, i, z, PK.seed, ADRS) ---- *)
  Fixpoint fors_node (SKseed : bytes) (i : N) (z : nat) (PKseed : bytes) (A : ADRS) : bytes :=
    match z with
    | O =>
      let sk := fors_skGen SKseed PKseed A i in
      let A := setTreeHeight 0 A in
      let A := setTreeIndex i A in
      F HF PKseed A sk
    | S z' =>
      let lnode := fors_node SKseed (2 * i) z' PKseed A in
      let rnode := fors_node SKseed (2 * i + 1) z' PKseed A in
      let A := setTreeHeight (N.of_nat z) A in
      let A := setTreeIndex i A in
      H HF PKseed A (lnode ++ rnode)
    end.

  (* ---- Algorithm 16 fors_sign(md, SK.seed, PK.seed, ADRS) ---- *)
  Definition fors_sign (md SKseed PKseed : bytes) (A : ADRS) : bytes :=
    let indices := base_2b md a k in
    for_ 0 k (fun i SIG_FORS =>
      let SIG_FORS := SIG_FORS ++ fors_skGen SKseed PKseed A (N.of_nat i * 2 ^ N.of_nat a + nth i indices 0) in
      let AUTH := for_ 0 a (fun j AUTH =>
                    let s := N.lxor (nth i indices 0 / 2 ^ N.of_nat j) 1 in
                    AUTH ++ fors_node SKseed (N.of_nat i * 2 ^ N.of_nat (a - j) + s) j PKseed A) [] in
      SIG_FORS ++ AUTH) [].

  (* ---- Algorithm 17 fors_pkFromSig(SIG_FORS, md, PK.seed, ADRS) ---- *)
  Definition fors_pkFromSig (SIG_FORS md PKseed : bytes) (A : ADRS) : bytes :=
    let indices := base_2b md a k in
    let '(A, root) :=
      for_ 0 k (fun i '(A, root) =>
        let sk := sl SIG_FORS (i * (a + 1) * n) ((i * (a + 1) + 1) * n) in          (* getSK(i) *)
        let A := setTreeHeight 0 A in
        let A := setTreeIndex (N.of_nat i * 2 ^ N.of_nat a + nth i indices 0) A in
        let node0 := F HF PKseed A sk in
        let auth := sl SIG_FORS ((i * (a + 1) + 1) * n) ((i + 1) * (a + 1) * n) in  (* getAUTH(i) *)
        let '(A, node0) :=
          for_ 0 a (fun j '(A, node0) =>
            let A := setTreeHeight (N.of_nat j + 1) A in
            if N.even (nth i indices 0 / 2 ^ N.of_nat j) then
              let A := setTreeIndex (getTreeIndex A / 2) A in
              (A, H HF PKseed A (node0 ++ sl auth (j * n) ((j + 1) * n)))
            else
              let A := setTreeIndex ((getTreeIndex A - 1) / 2) A in
              (A, H HF PKseed A (sl auth (j * n) ((j + 1) * n) ++ node0)))
          (A, node0) in
        (A, root ++ node0))
      (A, []) in
    let forspkADRS := A in
    let forspkADRS := setTypeAndClear FORS_ROOTS forspkADRS in
    let forspkADRS := setKeyPairAddress (getKeyPairAddress A) forspkADRS in
    T_l HF PKseed forspkADRS root.

  (* ---- Algorithm 18 slh_keygen_internal(SK.seed, SK.prf, PK.seed):
          SK = (SK.seed, SK.prf, PK.seed, PK.root), PK = (PK.seed, PK.root) ---- *)
  Definition slh_keygen_internal (SKseed SKprf PKseed : bytes)
    : (bytes * bytes * bytes * bytes) * (bytes * bytes) :=
    let A := toByte 0 32 in
    let A := setLayerAddress (N.of_nat (d - 1)) A in
    let PKroot := xmss_node SKseed 0 h' PKseed A in
    ((SKseed, SKprf, PKseed, PKroot), (PKseed, PKroot)).

  (* lines 6-10 of Algorithm 19 = lines 8-12 of Algorithm 20 *)
  Definition digest_parts (digest : bytes) : bytes * N * N :=
    let l1 := ceil_div (k * a) 8 in
    let l2 := ceil_div (h - h / d) 8 in
    let l3 := ceil_div h (8 * d) in
    let md := sl digest 0 l1 in
    let tmp_idx_tree := sl digest l1 (l1 + l2) in
    let tmp_idx_leaf := sl digest (l1 + l2) (l1 + l2 + l3) in
    let idx_tree := toInt tmp_idx_tree l2 mod 2 ^ N.of_nat (h - h / d) in
    let idx_leaf := toInt tmp_idx_leaf l3 mod 2 ^ N.of_nat (h / d) in
    (md, idx_tree, idx_leaf).

  (* ---- Algorithm 19 slh_sign_internal(M, SK, addrnd) ---- *)
  Definition slh_sign_internal (M : bytes) (SK : bytes * bytes * bytes * bytes) (addrnd : bytes) : bytes :=
    let '(SKseed, SKprf, PKseed, PKroot) := SK in
    let A := toByte 0 32 in
    let opt_rand := addrnd in
    let R := PRF_msg HF SKprf opt_rand M in
    let SIG := R in
    let digest := H_msg HF R PKseed PKroot M in
    let '(md, idx_tree, idx_leaf) := digest_parts digest in
    let A := setTreeAddress idx_tree A in
    let A := setTypeAndClear FORS_TREE A in
    let A := setKeyPairAddress idx_leaf A in
    let SIG_FORS := fors_sign md SKseed PKseed A in
    let SIG := SIG ++ SIG_FORS in
    let PK_FORS := fors_pkFromSig SIG_FORS md PKseed A in
    let SIG_HT := ht_sign PK_FORS SKseed PKseed idx_tree idx_leaf in
    SIG ++ SIG_HT.

  (* ---- Algorithm 20 slh_verify_internal(M, SIG, PK) ---- *)
  Definition f_sig_bytes : nat := ((1 + k * (1 + a) + h + d * f_len) * n)%nat.

  Definition slh_verify_internal (M SIG : bytes) (PK : bytes * bytes) : bool :=
    let '(PKseed, PKroot) := PK in
    if negb (Nat.eqb (length SIG) f_sig_bytes) then false else
    let A := toByte 0 32 in
    let R := sl SIG 0 n in                                                          (* getR *)
    let SIG_FORS := sl SIG n ((1 + k * (1 + a)) * n) in                             (* getSIG_FORS *)
    let SIG_HT := sl SIG ((1 + k * (1 + a)) * n) ((1 + k * (1 + a) + h + d * f_len) * n) in  (* getSIG_HT *)
    let digest := H_msg HF R PKseed PKroot M in
    let '(md, idx_tree, idx_leaf) := digest_parts digest in
    let A := setTreeAddress idx_tree A in
    let A := setTypeAndClear FORS_TREE A in
    let A := setKeyPairAddress idx_leaf A in
    let PK_FORS := fors_pkFromSig SIG_FORS md PKseed A in
    ht_verify PK_FORS SIG_HT PKseed idx_tree idx_leaf PKroot.

  (* ---- section 9.1 key formats: SK = SK.seed || SK.prf || PK.seed || PK.root (4n bytes),
          PK = PK.seed || PK.root (2n bytes) ---- *)
  Definition sk_encode (SK : bytes * bytes * bytes * bytes) : bytes :=
    let '(SKseed, SKprf, PKseed, PKroot) := SK in SKseed ++ SKprf ++ PKseed ++ PKroot.
  Definition pk_encode (PK : bytes * bytes) : bytes := fst PK ++ snd PK.
  Definition sk_decode (b : bytes) : option (bytes * bytes * bytes * bytes) :=
    if Nat.eqb (length b) (4 * n) then Some (sl b 0 n, sl b n (2 * n), sl b (2 * n) (3 * n), sl b (3 * n) (4 * n)) else None.
  Definition pk_decode (b : bytes) : option (bytes * bytes) :=
    if Nat.eqb (length b) (2 * n) then Some (sl b 0 n, sl b n (2 * n)) else None.

  (* ---- Algorithm 22 slh_sign(M, ctx, SK), the randomness addrnd an input
          (deterministic variant: addrnd = PK.seed); None = the error symbol ---- *)
  Definition slh_sign (M ctx : bytes) (SK : bytes * bytes * bytes * bytes) (addrnd : bytes) : option bytes :=
    if Nat.ltb 255 (length ctx) then None else
    let M' := toByte 0 1 ++ toByte (N.of_nat (length ctx)) 1 ++ ctx ++ M in
    Some (slh_sign_internal M' SK addrnd).

  (* ---- Algorithm 24 slh_verify(M, SIG, ctx, PK) ---- *)
  Definition slh_verify (M SIG ctx : bytes) (PK : bytes * bytes) : bool :=
    if Nat.ltb 255 (length ctx) then false else
    let M' := toByte 0 1 ++ toByte (N.of_nat (length ctx)) 1 ++ ctx ++ M in
    slh_verify_internal M' SIG PK.
End FIPS205.

(* ---- sections 11.1, 11.2: the three instantiations of the six functions over
        SHAKE256 (output length in bytes), SHA-256, SHA-512, HMAC-SHA-256/512 ---- *)
Section INSTANCES.
  Variable sha256 sha512 : bytes -> bytes.
  Variable shake256 : bytes -> nat -> bytes.
  Variable hmac256 hmac512 : bytes -> bytes -> bytes.

  (* RFC 8017 B.2.1 MGF1(mgfSeed, maskLen) with a hash of hLen output bytes:
     T = Hash(seed || I2OSP(0,4)) || ... || Hash(seed || I2OSP(ceil(maskLen/hLen)-1, 4));
     the leading maskLen bytes of T *)
  Definition MGF1 (Hash : bytes -> bytes) (hLen : nat) (mgfSeed : bytes) (maskLen : nat) : bytes :=
    sl (for_ 0 (ceil_div maskLen hLen) (fun counter T => T ++ Hash (mgfSeed ++ toByte (N.of_nat counter) 4)) [])
       0 maskLen.

  Definition Trunc (l : nat) (x : bytes) : bytes := sl x 0 l.

  (* 11.1 *)
  Definition shake_hashes (n m : nat) : fips_hashes :=
    mkFH (fun R PKseed PKroot M => shake256 (R ++ PKseed ++ PKroot ++ M) m)
         (fun PKseed SKseed A => shake256 (PKseed ++ A ++ SKseed) n)
         (fun SKprf opt_rand M => shake256 (SKprf ++ opt_rand ++ M) n)
         (fun PKseed A M1 => shake256 (PKseed ++ A ++ M1) n)
         (fun PKseed A M2 => shake256 (PKseed ++ A ++ M2) n)
         (fun PKseed A Ml => shake256 (PKseed ++ A ++ Ml) n).

  (* 11.2.1 (security category 1) *)
  Definition sha2_cat1_hashes (n m : nat) : fips_hashes :=
    mkFH (fun R PKseed PKroot M => MGF1 sha256 32 (R ++ PKseed ++ sha256 (R ++ PKseed ++ PKroot ++ M)) m)
         (fun PKseed SKseed A => Trunc n (sha256 (PKseed ++ toByte 0 (64 - n) ++ ADRSc A ++ SKseed)))
         (fun SKprf opt_rand M => Trunc n (hmac256 SKprf (opt_rand ++ M)))
         (fun PKseed A M1 => Trunc n (sha256 (PKseed ++ toByte 0 (64 - n) ++ ADRSc A ++ M1)))
         (fun PKseed A M2 => Trunc n (sha256 (PKseed ++ toByte 0 (64 - n) ++ ADRSc A ++ M2)))
         (fun PKseed A Ml => Trunc n (sha256 (PKseed ++ toByte 0 (64 - n) ++ ADRSc A ++ Ml))).

  (* 11.2.2 (security categories 3 and 5) *)
  Definition sha2_cat35_hashes (n m : nat) : fips_hashes :=
    mkFH (fun R PKseed PKroot M => MGF1 sha512 64 (R ++ PKseed ++ sha512 (R ++ PKseed ++ PKroot ++ M)) m)
         (fun PKseed SKseed A => Trunc n (sha256 (PKseed ++ toByte 0 (64 - n) ++ ADRSc A ++ SKseed)))
         (fun SKprf opt_rand M => Trunc n (hmac512 SKprf (opt_rand ++ M)))
         (fun PKseed A M1 => Trunc n (sha256 (PKseed ++ toByte 0 (64 - n) ++ ADRSc A ++ M1)))
         (fun PKseed A M2 => Trunc n (sha512 (PKseed ++ toByte 0 (128 - n) ++ ADRSc A ++ M2)))
         (fun PKseed A Ml => Trunc n (sha512 (PKseed ++ toByte 0 (128 - n) ++ ADRSc A ++ Ml))).
End INSTANCES.

(* ---- Table 2 of FIPS 205, as printed: name, n, h, d, h', a, k, lg_w, m,
        public-key bytes, signature bytes; and which of 11.1 / 11.2.1 / 11.2.2
        instantiates the functions ---- *)
Inductive fips_family := FShake | FSha2Cat1 | FSha2Cat35.

Definition table2 : list (fips_family * fips_params * N * N) :=
  (*  family        n  h  d  h' a  k lg_w m    pk   sig  *)
  [ (FSha2Cat1,  mkFP 16 63  7 9 12 14 4 30, 32,  7856);   (* SLH-DSA-SHA2-128s  *)
    (FShake,     mkFP 16 63  7 9 12 14 4 30, 32,  7856);   (* SLH-DSA-SHAKE-128s *)
    (FSha2Cat1,  mkFP 16 66 22 3  6 33 4 34, 32, 17088);   (* SLH-DSA-SHA2-128f  *)
    (FShake,     mkFP 16 66 22 3  6 33 4 34, 32, 17088);   (* SLH-DSA-SHAKE-128f *)
    (FSha2Cat35, mkFP 24 63  7 9 14 17 4 39, 48, 16224);   (* SLH-DSA-SHA2-192s  *)
    (FShake,     mkFP 24 63  7 9 14 17 4 39, 48, 16224);   (* SLH-DSA-SHAKE-192s *)
    (FSha2Cat35, mkFP 24 66 22 3  8 33 4 42, 48, 35664);   (* SLH-DSA-SHA2-192f  *)
    (FShake,     mkFP 24 66 22 3  8 33 4 42, 48, 35664);   (* SLH-DSA-SHAKE-192f *)
    (FSha2Cat35, mkFP 32 64  8 8 14 22 4 47, 64, 29792);   (* SLH-DSA-SHA2-256s  *)
    (FShake,     mkFP 32 64  8 8 14 22 4 47, 64, 29792);   (* SLH-DSA-SHAKE-256s *)
    (FSha2Cat35, mkFP 32 68 17 4  9 35 4 49, 64, 49856);   (* SLH-DSA-SHA2-256f  *)
    (FShake,     mkFP 32 68 17 4  9 35 4 49, 64, 49856)    (* SLH-DSA-SHAKE-256f *)
  ].
