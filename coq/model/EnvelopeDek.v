(* C01/C02 — the data-key (DEK) side of the KMS envelope AEAD, closed over the actual
   AEAD models: what registry.Primitive(dekTypeURL, dek) followed by Encrypt / Decrypt
   computes for the DEK templates whose key proto has the single field key_value
   (AesGcmKey, AesGcmSivKey, XChaCha20Poly1305Key: field 3; ChaCha20Poly1305Key: field 2):
     internal/legacykeymanager.KeyManager.Primitive: the key proto is unmarshalled as protobuf does
     (ProtoWire.decode of { uint32 version = 1; bytes key_value = 3 (2 for ChaCha20-Poly1305) }: any
     encoding of the message - explicit zero version, unknown fields, long varints), the version must
     be 0, it is parsed with output prefix RAW, <keytype>.NewKey checks the
     key size (AES-GCM / AES-GCM-SIV: 16 or 32 bytes, (X)ChaCha20-Poly1305: 32), and the
     full primitive of the key type is built with an EMPTY output prefix.
   An unparsable or wrongly sized DEK is an error.  The AES-CTR-HMAC DEK (a nested
   proto) is model/EnvelopeDekEtm.v.
   No proofs here. *)
From Coq Require Import List NArith Bool Arith.
From Tink Require Import Bytes AeadFrame GcmSiv Envelope ProtoWire.
Import ListNotations.
Open Scope N_scope.

Inductive dek_kind := DekGcm | DekChacha | DekXchacha | DekSiv.

(* proto tag byte of key_value: (field_number << 3) | 2 *)
Definition dek_tag (kd : dek_kind) : N :=
  match kd with DekChacha => 18 | _ => 26 end.

Definition dek_size_ok (kd : dek_kind) (k : bytes) : bool :=
  match kd with
  | DekGcm | DekSiv => Nat.eqb (length k) 16 || Nat.eqb (length k) 32
  | DekChacha | DekXchacha => Nat.eqb (length k) 32
  end.

(* random bytes one Encrypt of the DEK primitive draws *)
Definition dek_ivlen (kd : dek_kind) : nat :=
  match kd with DekXchacha => 24%nat | _ => 12%nat end.

(* the key proto of the data-key types: version (1), key_value (3; ChaCha20-Poly1305: 2) *)
Definition dek_field (kd : dek_kind) : N := match kd with DekChacha => 2 | _ => 3 end.
Definition dek_schema (kd : dek_kind) : schema := SCons 1 TU32 (SCons (dek_field kd) TBytes SNil).
Definition dk_vint (v : val) : N := match v with VInt n => n | _ => 0 end.
Definition dk_vbytes (v : val) : bytes := match v with VBytes b => b | _ => [] end.

(* the raw key of a serialised DEK, when registry.Primitive accepts it *)
Definition dek_parse (kd : dek_kind) (dek : bytes) : option bytes :=
  match decode (dek_schema kd) dek with
  | Some [ver; kv] =>
    if (dk_vint ver =? 0) && dek_size_ok kd (dk_vbytes kv) then Some (dk_vbytes kv) else None
  | _ => None
  end.

Section DEK.
  Variable aes : bytes -> bytes -> bytes.
  Variable gcm_seal : bytes -> bytes -> bytes -> bytes -> bytes.
  Variable gcm_open : bytes -> bytes -> bytes -> bytes -> option bytes.
  Variable cc_seal : bytes -> bytes -> bytes -> bytes -> bytes.
  Variable cc_open : bytes -> bytes -> bytes -> bytes -> option bytes.
  Variable xcc_seal : bytes -> bytes -> bytes -> bytes -> bytes.
  Variable xcc_open : bytes -> bytes -> bytes -> bytes -> option bytes.

  (* Encrypt / Decrypt of the RAW primitive of the key type, for a raw key k *)
  Definition dek_prim_enc (kd : dek_kind) (k iv p ad : bytes) : outcome bytes :=
    match kd with
    | DekGcm => aesgcm_enc gcm_seal [] k iv p ad
    | DekChacha => chacha_enc cc_seal [] k iv p ad
    | DekXchacha => xchacha_enc xcc_seal [] k iv p ad
    | DekSiv => siv_enc aes [] k iv p ad
    end.
  Definition dek_prim_dec (kd : dek_kind) (k c ad : bytes) : outcome bytes :=
    match kd with
    | DekGcm => aesgcm_dec gcm_open [] k c ad
    | DekChacha => chacha_dec cc_open [] k c ad
    | DekXchacha => xchacha_dec xcc_open [] k c ad
    | DekSiv => siv_dec aes [] k c ad
    end.

  (* the dek_enc / dek_dec parameters of Envelope.env_enc / env_dec *)
  Definition dek_enc (kd : dek_kind) (dek iv p ad : bytes) : outcome bytes :=
    match dek_parse kd dek with Some k => dek_prim_enc kd k iv p ad | None => Err end.
  Definition dek_dec (kd : dek_kind) (dek c ad : bytes) : outcome bytes :=
    match dek_parse kd dek with Some k => dek_prim_dec kd k c ad | None => Err end.
End DEK.
