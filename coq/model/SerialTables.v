(* Enum maps of tink-go's */*/protoserialization.go as association lists
   (key = the switch tag's constant value, value = the returned constant).
   Produced by harness/cmd/c12tables from the Go switch statements; plain data,
   meant to be regenerated.  Every proof about these tables
   (proofs/SerialTablesProofs.v) is by computation, so it re-checks when a
   table changes. *)
From Coq Require Import List NArith.
Import ListNotations.
Open Scope N_scope.

(* aead/aesctrhmac/protoserialization.go func protoOutputPrefixTypeFromVariant:
     VariantTink -> tinkpb.OutputPrefixType_TINK
     VariantCrunchy -> tinkpb.OutputPrefixType_CRUNCHY
     VariantNoPrefix -> tinkpb.OutputPrefixType_RAW
*)
Definition aead_aesctrhmac_protoOutputPrefixTypeFromVariant : list (N * N) := [(1, 1); (2, 4); (3, 3)].

(* aead/aesctrhmac/protoserialization.go func hashTypeToProto:
     SHA1 -> commonpb.HashType_SHA1
     SHA224 -> commonpb.HashType_SHA224
     SHA256 -> commonpb.HashType_SHA256
     SHA384 -> commonpb.HashType_SHA384
     SHA512 -> commonpb.HashType_SHA512
*)
Definition aead_aesctrhmac_hashTypeToProto : list (N * N) := [(1, 1); (2, 5); (3, 3); (4, 2); (5, 4)].

(* aead/aesctrhmac/protoserialization.go func variantFromProto:
     tinkpb.OutputPrefixType_TINK -> VariantTink
     tinkpb.OutputPrefixType_CRUNCHY -> VariantCrunchy
     tinkpb.OutputPrefixType_LEGACY -> VariantCrunchy
     tinkpb.OutputPrefixType_RAW -> VariantNoPrefix
*)
Definition aead_aesctrhmac_variantFromProto : list (N * N) := [(1, 1); (4, 2); (2, 2); (3, 3)].

(* aead/aesctrhmac/protoserialization.go func hashTypeFromProto:
     commonpb.HashType_SHA1 -> SHA1
     commonpb.HashType_SHA224 -> SHA224
     commonpb.HashType_SHA256 -> SHA256
     commonpb.HashType_SHA384 -> SHA384
     commonpb.HashType_SHA512 -> SHA512
*)
Definition aead_aesctrhmac_hashTypeFromProto : list (N * N) := [(1, 1); (5, 2); (3, 3); (2, 4); (4, 5)].

(* aead/aesgcm/protoserialization.go func protoOutputPrefixTypeFromVariant:
     VariantTink -> tinkpb.OutputPrefixType_TINK
     VariantCrunchy -> tinkpb.OutputPrefixType_CRUNCHY
     VariantNoPrefix -> tinkpb.OutputPrefixType_RAW
*)
Definition aead_aesgcm_protoOutputPrefixTypeFromVariant : list (N * N) := [(1, 1); (2, 4); (3, 3)].

(* aead/aesgcm/protoserialization.go func variantFromProto:
     tinkpb.OutputPrefixType_TINK -> VariantTink
     tinkpb.OutputPrefixType_CRUNCHY -> VariantCrunchy
     tinkpb.OutputPrefixType_LEGACY -> VariantCrunchy
     tinkpb.OutputPrefixType_RAW -> VariantNoPrefix
*)
Definition aead_aesgcm_variantFromProto : list (N * N) := [(1, 1); (4, 2); (2, 2); (3, 3)].

(* aead/aesgcmsiv/protoserialization.go func protoOutputPrefixTypeFromVariant:
     VariantTink -> tinkpb.OutputPrefixType_TINK
     VariantCrunchy -> tinkpb.OutputPrefixType_CRUNCHY
     VariantNoPrefix -> tinkpb.OutputPrefixType_RAW
*)
Definition aead_aesgcmsiv_protoOutputPrefixTypeFromVariant : list (N * N) := [(1, 1); (2, 4); (3, 3)].

(* aead/aesgcmsiv/protoserialization.go func variantFromProto:
     tinkpb.OutputPrefixType_TINK -> VariantTink
     tinkpb.OutputPrefixType_CRUNCHY -> VariantCrunchy
     tinkpb.OutputPrefixType_LEGACY -> VariantCrunchy
     tinkpb.OutputPrefixType_RAW -> VariantNoPrefix
*)
Definition aead_aesgcmsiv_variantFromProto : list (N * N) := [(1, 1); (4, 2); (2, 2); (3, 3)].

(* aead/chacha20poly1305/protoserialization.go func protoOutputPrefixTypeFromVariant:
     VariantTink -> tinkpb.OutputPrefixType_TINK
     VariantCrunchy -> tinkpb.OutputPrefixType_CRUNCHY
     VariantNoPrefix -> tinkpb.OutputPrefixType_RAW
*)
Definition aead_chacha20poly1305_protoOutputPrefixTypeFromVariant : list (N * N) := [(1, 1); (2, 4); (3, 3)].

(* aead/chacha20poly1305/protoserialization.go func variantFromProto:
     tinkpb.OutputPrefixType_TINK -> VariantTink
     tinkpb.OutputPrefixType_CRUNCHY -> VariantCrunchy
     tinkpb.OutputPrefixType_LEGACY -> VariantCrunchy
     tinkpb.OutputPrefixType_RAW -> VariantNoPrefix
*)
Definition aead_chacha20poly1305_variantFromProto : list (N * N) := [(1, 1); (4, 2); (2, 2); (3, 3)].

(* aead/xaesgcm/protoserialization.go func protoOutputPrefixTypeFromVariant:
     VariantTink -> tinkpb.OutputPrefixType_TINK
     VariantNoPrefix -> tinkpb.OutputPrefixType_RAW
*)
Definition aead_xaesgcm_protoOutputPrefixTypeFromVariant : list (N * N) := [(1, 1); (2, 3)].

(* aead/xaesgcm/protoserialization.go func variantFromProto:
     tinkpb.OutputPrefixType_TINK -> VariantTink
     tinkpb.OutputPrefixType_RAW -> VariantNoPrefix
*)
Definition aead_xaesgcm_variantFromProto : list (N * N) := [(1, 1); (3, 2)].

(* aead/xchacha20poly1305/protoserialization.go func protoOutputPrefixTypeFromVariant:
     VariantTink -> tinkpb.OutputPrefixType_TINK
     VariantCrunchy -> tinkpb.OutputPrefixType_CRUNCHY
     VariantNoPrefix -> tinkpb.OutputPrefixType_RAW
*)
Definition aead_xchacha20poly1305_protoOutputPrefixTypeFromVariant : list (N * N) := [(1, 1); (2, 4); (3, 3)].

(* aead/xchacha20poly1305/protoserialization.go func variantFromProto:
     tinkpb.OutputPrefixType_TINK -> VariantTink
     tinkpb.OutputPrefixType_CRUNCHY -> VariantCrunchy
     tinkpb.OutputPrefixType_LEGACY -> VariantCrunchy
     tinkpb.OutputPrefixType_RAW -> VariantNoPrefix
*)
Definition aead_xchacha20poly1305_variantFromProto : list (N * N) := [(1, 1); (4, 2); (2, 2); (3, 3)].

(* daead/aessiv/protoserialization.go func protoOutputPrefixTypeFromVariant:
     VariantTink -> tinkpb.OutputPrefixType_TINK
     VariantCrunchy -> tinkpb.OutputPrefixType_CRUNCHY
     VariantNoPrefix -> tinkpb.OutputPrefixType_RAW
*)
Definition daead_aessiv_protoOutputPrefixTypeFromVariant : list (N * N) := [(1, 1); (2, 4); (3, 3)].

(* daead/aessiv/protoserialization.go func variantFromProto:
     tinkpb.OutputPrefixType_TINK -> VariantTink
     tinkpb.OutputPrefixType_CRUNCHY -> VariantCrunchy
     tinkpb.OutputPrefixType_LEGACY -> VariantCrunchy
     tinkpb.OutputPrefixType_RAW -> VariantNoPrefix
*)
Definition daead_aessiv_variantFromProto : list (N * N) := [(1, 1); (4, 2); (2, 2); (3, 3)].

(* hybrid/ecies/protoserialization.go func protoOutputPrefixTypeFromVariant:
     VariantTink -> tinkpb.OutputPrefixType_TINK
     VariantCrunchy -> tinkpb.OutputPrefixType_CRUNCHY
     VariantNoPrefix -> tinkpb.OutputPrefixType_RAW
*)
Definition hybrid_ecies_protoOutputPrefixTypeFromVariant : list (N * N) := [(1, 1); (2, 4); (3, 3)].

(* hybrid/ecies/protoserialization.go func protoCurveFromCurveType:
     NISTP256 -> commonpb.EllipticCurveType_NIST_P256
     NISTP384 -> commonpb.EllipticCurveType_NIST_P384
     NISTP521 -> commonpb.EllipticCurveType_NIST_P521
     X25519 -> commonpb.EllipticCurveType_CURVE25519
*)
Definition hybrid_ecies_protoCurveFromCurveType : list (N * N) := [(1, 2); (2, 3); (3, 4); (4, 5)].

(* hybrid/ecies/protoserialization.go func protoHashTypeFromHashType:
     SHA1 -> commonpb.HashType_SHA1
     SHA224 -> commonpb.HashType_SHA224
     SHA256 -> commonpb.HashType_SHA256
     SHA384 -> commonpb.HashType_SHA384
     SHA512 -> commonpb.HashType_SHA512
*)
Definition hybrid_ecies_protoHashTypeFromHashType : list (N * N) := [(1, 1); (2, 5); (3, 3); (4, 2); (5, 4)].

(* hybrid/ecies/protoserialization.go func protoEcPointFormatFromPointFormat:
     CompressedPointFormat -> commonpb.EcPointFormat_COMPRESSED
     UncompressedPointFormat -> commonpb.EcPointFormat_UNCOMPRESSED
     LegacyUncompressedPointFormat -> commonpb.EcPointFormat_DO_NOT_USE_CRUNCHY_UNCOMPRESSED
     UnspecifiedPointFormat -> commonpb.EcPointFormat_COMPRESSED
*)
Definition hybrid_ecies_protoEcPointFormatFromPointFormat : list (N * N) := [(1, 2); (2, 1); (3, 3); (0, 2)].

(* hybrid/ecies/protoserialization.go func coordinateSizeForCurve:
     NISTP256 -> 32
     NISTP384 -> 48
     NISTP521 -> 66
*)
Definition hybrid_ecies_coordinateSizeForCurve : list (N * N) := [(1, 32); (2, 48); (3, 66)].

(* hybrid/ecies/protoserialization.go func curveTypeFromProto:
     commonpb.EllipticCurveType_NIST_P256 -> NISTP256
     commonpb.EllipticCurveType_NIST_P384 -> NISTP384
     commonpb.EllipticCurveType_NIST_P521 -> NISTP521
     commonpb.EllipticCurveType_CURVE25519 -> X25519
*)
Definition hybrid_ecies_curveTypeFromProto : list (N * N) := [(2, 1); (3, 2); (4, 3); (5, 4)].

(* hybrid/ecies/protoserialization.go func hashTypeFromProto:
     commonpb.HashType_SHA1 -> SHA1
     commonpb.HashType_SHA224 -> SHA224
     commonpb.HashType_SHA256 -> SHA256
     commonpb.HashType_SHA384 -> SHA384
     commonpb.HashType_SHA512 -> SHA512
*)
Definition hybrid_ecies_hashTypeFromProto : list (N * N) := [(1, 1); (5, 2); (3, 3); (2, 4); (4, 5)].

(* hybrid/ecies/protoserialization.go func variantFromProto:
     tinkpb.OutputPrefixType_TINK -> VariantTink
     tinkpb.OutputPrefixType_CRUNCHY -> VariantCrunchy
     tinkpb.OutputPrefixType_LEGACY -> VariantCrunchy
     tinkpb.OutputPrefixType_RAW -> VariantNoPrefix
*)
Definition hybrid_ecies_variantFromProto : list (N * N) := [(1, 1); (4, 2); (2, 2); (3, 3)].

(* hybrid/ecies/protoserialization.go func pointFormatFromProtoPointFormat:
     commonpb.EcPointFormat_COMPRESSED -> CompressedPointFormat
     commonpb.EcPointFormat_UNCOMPRESSED -> UncompressedPointFormat
     commonpb.EcPointFormat_DO_NOT_USE_CRUNCHY_UNCOMPRESSED -> LegacyUncompressedPointFormat
*)
Definition hybrid_ecies_pointFormatFromProtoPointFormat : list (N * N) := [(2, 1); (1, 2); (3, 3)].

(* hybrid/hpke/protoserialization.go func serializeKEMID:
     DHKEM_X25519_HKDF_SHA256 -> hpkepb.HpkeKem_DHKEM_X25519_HKDF_SHA256
     DHKEM_P256_HKDF_SHA256 -> hpkepb.HpkeKem_DHKEM_P256_HKDF_SHA256
     DHKEM_P384_HKDF_SHA384 -> hpkepb.HpkeKem_DHKEM_P384_HKDF_SHA384
     DHKEM_P521_HKDF_SHA512 -> hpkepb.HpkeKem_DHKEM_P521_HKDF_SHA512
     X_WING -> hpkepb.HpkeKem_X_WING
     ML_KEM768 -> hpkepb.HpkeKem_ML_KEM768
     ML_KEM1024 -> hpkepb.HpkeKem_ML_KEM1024
*)
Definition hybrid_hpke_serializeKEMID : list (N * N) := [(4, 1); (1, 2); (2, 3); (3, 4); (5, 5); (6, 6); (7, 7)].

(* hybrid/hpke/protoserialization.go func serializeAEADID:
     AES128GCM -> hpkepb.HpkeAead_AES_128_GCM
     AES256GCM -> hpkepb.HpkeAead_AES_256_GCM
     ChaCha20Poly1305 -> hpkepb.HpkeAead_CHACHA20_POLY1305
*)
Definition hybrid_hpke_serializeAEADID : list (N * N) := [(1, 1); (2, 2); (3, 3)].

(* hybrid/hpke/protoserialization.go func serializedKDFID:
     HKDFSHA256 -> hpkepb.HpkeKdf_HKDF_SHA256
     HKDFSHA384 -> hpkepb.HpkeKdf_HKDF_SHA384
     HKDFSHA512 -> hpkepb.HpkeKdf_HKDF_SHA512
*)
Definition hybrid_hpke_serializedKDFID : list (N * N) := [(1, 1); (2, 2); (3, 3)].

(* hybrid/hpke/protoserialization.go func protoOutputPrefixTypeFromVariant:
     VariantTink -> tinkpb.OutputPrefixType_TINK
     VariantCrunchy -> tinkpb.OutputPrefixType_CRUNCHY
     VariantNoPrefix -> tinkpb.OutputPrefixType_RAW
*)
Definition hybrid_hpke_protoOutputPrefixTypeFromVariant : list (N * N) := [(1, 1); (2, 4); (3, 3)].

(* hybrid/hpke/protoserialization.go func parseKEMID:
     hpkepb.HpkeKem_DHKEM_X25519_HKDF_SHA256 -> DHKEM_X25519_HKDF_SHA256
     hpkepb.HpkeKem_DHKEM_P256_HKDF_SHA256 -> DHKEM_P256_HKDF_SHA256
     hpkepb.HpkeKem_DHKEM_P384_HKDF_SHA384 -> DHKEM_P384_HKDF_SHA384
     hpkepb.HpkeKem_DHKEM_P521_HKDF_SHA512 -> DHKEM_P521_HKDF_SHA512
     hpkepb.HpkeKem_X_WING -> X_WING
     hpkepb.HpkeKem_ML_KEM768 -> ML_KEM768
     hpkepb.HpkeKem_ML_KEM1024 -> ML_KEM1024
*)
Definition hybrid_hpke_parseKEMID : list (N * N) := [(1, 4); (2, 1); (3, 2); (4, 3); (5, 5); (6, 6); (7, 7)].

(* hybrid/hpke/protoserialization.go func parseAEADID:
     hpkepb.HpkeAead_AES_128_GCM -> AES128GCM
     hpkepb.HpkeAead_AES_256_GCM -> AES256GCM
     hpkepb.HpkeAead_CHACHA20_POLY1305 -> ChaCha20Poly1305
*)
Definition hybrid_hpke_parseAEADID : list (N * N) := [(1, 1); (2, 2); (3, 3)].

(* hybrid/hpke/protoserialization.go func parseKDFID:
     hpkepb.HpkeKdf_HKDF_SHA256 -> HKDFSHA256
     hpkepb.HpkeKdf_HKDF_SHA384 -> HKDFSHA384
     hpkepb.HpkeKdf_HKDF_SHA512 -> HKDFSHA512
*)
Definition hybrid_hpke_parseKDFID : list (N * N) := [(1, 1); (2, 2); (3, 3)].

(* hybrid/hpke/protoserialization.go func protoOutputPrefixTypeToVariant:
     tinkpb.OutputPrefixType_TINK -> VariantTink
     tinkpb.OutputPrefixType_CRUNCHY -> VariantCrunchy
     tinkpb.OutputPrefixType_RAW -> VariantNoPrefix
*)
Definition hybrid_hpke_protoOutputPrefixTypeToVariant : list (N * N) := [(1, 1); (4, 2); (3, 3)].

(* jwt/jwtecdsa/protoserialization.go func algorithmToProto:
     ES256 -> jwtecdsapb.JwtEcdsaAlgorithm_ES256
     ES384 -> jwtecdsapb.JwtEcdsaAlgorithm_ES384
     ES512 -> jwtecdsapb.JwtEcdsaAlgorithm_ES512
*)
Definition jwt_jwtecdsa_algorithmToProto : list (N * N) := [(1, 1); (2, 2); (3, 3)].

(* jwt/jwtecdsa/protoserialization.go func algorithmFromProto:
     jwtecdsapb.JwtEcdsaAlgorithm_ES256 -> ES256
     jwtecdsapb.JwtEcdsaAlgorithm_ES384 -> ES384
     jwtecdsapb.JwtEcdsaAlgorithm_ES512 -> ES512
*)
Definition jwt_jwtecdsa_algorithmFromProto : list (N * N) := [(1, 1); (2, 2); (3, 3)].

(* jwt/jwtecdsa/protoserialization.go func outputPrefixTypeFromKIDStrategy:
     CustomKID -> tinkpb.OutputPrefixType_RAW
     IgnoredKID -> tinkpb.OutputPrefixType_RAW
     Base64EncodedKeyIDAsKID -> tinkpb.OutputPrefixType_TINK
*)
Definition jwt_jwtecdsa_outputPrefixTypeFromKIDStrategy : list (N * N) := [(3, 3); (2, 3); (1, 1)].

(* jwt/jwtecdsa/protoserialization.go func kidStrategyFromOutputPrefixType second argument true:
     tinkpb.OutputPrefixType_RAW -> CustomKID
     tinkpb.OutputPrefixType_TINK -> Base64EncodedKeyIDAsKID
*)
Definition jwt_jwtecdsa_kidStrategyFromOutputPrefixType_true : list (N * N) := [(3, 3); (1, 1)].

(* jwt/jwtecdsa/protoserialization.go func kidStrategyFromOutputPrefixType second argument false:
     tinkpb.OutputPrefixType_RAW -> IgnoredKID
     tinkpb.OutputPrefixType_TINK -> Base64EncodedKeyIDAsKID
*)
Definition jwt_jwtecdsa_kidStrategyFromOutputPrefixType_false : list (N * N) := [(3, 2); (1, 1)].

(* jwt/jwtecdsa/protoserialization.go func coordinateSizeFromAlgorithm:
     ES256 -> 32
     ES384 -> 48
     ES512 -> 66
*)
Definition jwt_jwtecdsa_coordinateSizeFromAlgorithm : list (N * N) := [(1, 32); (2, 48); (3, 66)].

(* jwt/jwthmac/protoserialization.go func algorithmToProto:
     HS256 -> jwthmacpb.JwtHmacAlgorithm_HS256
     HS384 -> jwthmacpb.JwtHmacAlgorithm_HS384
     HS512 -> jwthmacpb.JwtHmacAlgorithm_HS512
*)
Definition jwt_jwthmac_algorithmToProto : list (N * N) := [(1, 1); (2, 2); (3, 3)].

(* jwt/jwthmac/protoserialization.go func algorithmFromProto:
     jwthmacpb.JwtHmacAlgorithm_HS256 -> HS256
     jwthmacpb.JwtHmacAlgorithm_HS384 -> HS384
     jwthmacpb.JwtHmacAlgorithm_HS512 -> HS512
*)
Definition jwt_jwthmac_algorithmFromProto : list (N * N) := [(1, 1); (2, 2); (3, 3)].

(* jwt/jwthmac/protoserialization.go func outputPrefixTypeFromKIDStrategy:
     CustomKID -> tinkpb.OutputPrefixType_RAW
     IgnoredKID -> tinkpb.OutputPrefixType_RAW
     Base64EncodedKeyIDAsKID -> tinkpb.OutputPrefixType_TINK
*)
Definition jwt_jwthmac_outputPrefixTypeFromKIDStrategy : list (N * N) := [(3, 3); (2, 3); (1, 1)].

(* jwt/jwthmac/protoserialization.go func kidStrategyFromOutputPrefixType second argument true:
     tinkpb.OutputPrefixType_RAW -> CustomKID
     tinkpb.OutputPrefixType_TINK -> Base64EncodedKeyIDAsKID
*)
Definition jwt_jwthmac_kidStrategyFromOutputPrefixType_true : list (N * N) := [(3, 3); (1, 1)].

(* jwt/jwthmac/protoserialization.go func kidStrategyFromOutputPrefixType second argument false:
     tinkpb.OutputPrefixType_RAW -> IgnoredKID
     tinkpb.OutputPrefixType_TINK -> Base64EncodedKeyIDAsKID
*)
Definition jwt_jwthmac_kidStrategyFromOutputPrefixType_false : list (N * N) := [(3, 2); (1, 1)].

(* jwt/jwtmldsa/protoserialization.go func algorithmToProto:
     MLDSA44 -> jwtmldsapb.JwtMlDsaAlgorithm_ML_DSA44
     MLDSA65 -> jwtmldsapb.JwtMlDsaAlgorithm_ML_DSA65
     MLDSA87 -> jwtmldsapb.JwtMlDsaAlgorithm_ML_DSA87
*)
Definition jwt_jwtmldsa_algorithmToProto : list (N * N) := [(1, 1); (2, 2); (3, 3)].

(* jwt/jwtmldsa/protoserialization.go func algorithmFromProto:
     jwtmldsapb.JwtMlDsaAlgorithm_ML_DSA44 -> MLDSA44
     jwtmldsapb.JwtMlDsaAlgorithm_ML_DSA65 -> MLDSA65
     jwtmldsapb.JwtMlDsaAlgorithm_ML_DSA87 -> MLDSA87
*)
Definition jwt_jwtmldsa_algorithmFromProto : list (N * N) := [(1, 1); (2, 2); (3, 3)].

(* jwt/jwtmldsa/protoserialization.go func outputPrefixTypeFromKIDStrategy:
     CustomKID -> tinkpb.OutputPrefixType_RAW
     IgnoredKID -> tinkpb.OutputPrefixType_RAW
     Base64EncodedKeyIDAsKID -> tinkpb.OutputPrefixType_TINK
*)
Definition jwt_jwtmldsa_outputPrefixTypeFromKIDStrategy : list (N * N) := [(3, 3); (2, 3); (1, 1)].

(* jwt/jwtmldsa/protoserialization.go func kidStrategyFromOutputPrefixType second argument true:
     tinkpb.OutputPrefixType_RAW -> CustomKID
     tinkpb.OutputPrefixType_TINK -> Base64EncodedKeyIDAsKID
*)
Definition jwt_jwtmldsa_kidStrategyFromOutputPrefixType_true : list (N * N) := [(3, 3); (1, 1)].

(* jwt/jwtmldsa/protoserialization.go func kidStrategyFromOutputPrefixType second argument false:
     tinkpb.OutputPrefixType_RAW -> IgnoredKID
     tinkpb.OutputPrefixType_TINK -> Base64EncodedKeyIDAsKID
*)
Definition jwt_jwtmldsa_kidStrategyFromOutputPrefixType_false : list (N * N) := [(3, 2); (1, 1)].

(* jwt/jwtrsassapkcs1/protoserialization.go func algorithmToProto:
     RS256 -> jwtrsapb.JwtRsaSsaPkcs1Algorithm_RS256
     RS384 -> jwtrsapb.JwtRsaSsaPkcs1Algorithm_RS384
     RS512 -> jwtrsapb.JwtRsaSsaPkcs1Algorithm_RS512
*)
Definition jwt_jwtrsassapkcs1_algorithmToProto : list (N * N) := [(2, 1); (3, 2); (4, 3)].

(* jwt/jwtrsassapkcs1/protoserialization.go func algorithmFromProto:
     jwtrsapb.JwtRsaSsaPkcs1Algorithm_RS256 -> RS256
     jwtrsapb.JwtRsaSsaPkcs1Algorithm_RS384 -> RS384
     jwtrsapb.JwtRsaSsaPkcs1Algorithm_RS512 -> RS512
*)
Definition jwt_jwtrsassapkcs1_algorithmFromProto : list (N * N) := [(1, 2); (2, 3); (3, 4)].

(* jwt/jwtrsassapkcs1/protoserialization.go func outputPrefixTypeFromKIDStrategy:
     CustomKID -> tinkpb.OutputPrefixType_RAW
     IgnoredKID -> tinkpb.OutputPrefixType_RAW
     Base64EncodedKeyIDAsKID -> tinkpb.OutputPrefixType_TINK
*)
Definition jwt_jwtrsassapkcs1_outputPrefixTypeFromKIDStrategy : list (N * N) := [(3, 3); (2, 3); (1, 1)].

(* jwt/jwtrsassapkcs1/protoserialization.go func kidStrategyFromOutputPrefixType second argument true:
     tinkpb.OutputPrefixType_RAW -> CustomKID
     tinkpb.OutputPrefixType_TINK -> Base64EncodedKeyIDAsKID
*)
Definition jwt_jwtrsassapkcs1_kidStrategyFromOutputPrefixType_true : list (N * N) := [(3, 3); (1, 1)].

(* jwt/jwtrsassapkcs1/protoserialization.go func kidStrategyFromOutputPrefixType second argument false:
     tinkpb.OutputPrefixType_RAW -> IgnoredKID
     tinkpb.OutputPrefixType_TINK -> Base64EncodedKeyIDAsKID
*)
Definition jwt_jwtrsassapkcs1_kidStrategyFromOutputPrefixType_false : list (N * N) := [(3, 2); (1, 1)].

(* jwt/jwtrsassapss/protoserialization.go func algorithmToProto:
     PS256 -> jwtrsapb.JwtRsaSsaPssAlgorithm_PS256
     PS384 -> jwtrsapb.JwtRsaSsaPssAlgorithm_PS384
     PS512 -> jwtrsapb.JwtRsaSsaPssAlgorithm_PS512
*)
Definition jwt_jwtrsassapss_algorithmToProto : list (N * N) := [(2, 1); (3, 2); (4, 3)].

(* jwt/jwtrsassapss/protoserialization.go func algorithmFromProto:
     jwtrsapb.JwtRsaSsaPssAlgorithm_PS256 -> PS256
     jwtrsapb.JwtRsaSsaPssAlgorithm_PS384 -> PS384
     jwtrsapb.JwtRsaSsaPssAlgorithm_PS512 -> PS512
*)
Definition jwt_jwtrsassapss_algorithmFromProto : list (N * N) := [(1, 2); (2, 3); (3, 4)].

(* jwt/jwtrsassapss/protoserialization.go func outputPrefixTypeFromKIDStrategy:
     CustomKID -> tinkpb.OutputPrefixType_RAW
     IgnoredKID -> tinkpb.OutputPrefixType_RAW
     Base64EncodedKeyIDAsKID -> tinkpb.OutputPrefixType_TINK
*)
Definition jwt_jwtrsassapss_outputPrefixTypeFromKIDStrategy : list (N * N) := [(3, 3); (2, 3); (1, 1)].

(* jwt/jwtrsassapss/protoserialization.go func kidStrategyFromOutputPrefixType second argument true:
     tinkpb.OutputPrefixType_RAW -> CustomKID
     tinkpb.OutputPrefixType_TINK -> Base64EncodedKeyIDAsKID
*)
Definition jwt_jwtrsassapss_kidStrategyFromOutputPrefixType_true : list (N * N) := [(3, 3); (1, 1)].

(* jwt/jwtrsassapss/protoserialization.go func kidStrategyFromOutputPrefixType second argument false:
     tinkpb.OutputPrefixType_RAW -> IgnoredKID
     tinkpb.OutputPrefixType_TINK -> Base64EncodedKeyIDAsKID
*)
Definition jwt_jwtrsassapss_kidStrategyFromOutputPrefixType_false : list (N * N) := [(3, 2); (1, 1)].

(* mac/aescmac/protoserialization.go func protoOutputPrefixTypeFromVariant:
     VariantTink -> tinkpb.OutputPrefixType_TINK
     VariantCrunchy -> tinkpb.OutputPrefixType_CRUNCHY
     VariantLegacy -> tinkpb.OutputPrefixType_LEGACY
     VariantNoPrefix -> tinkpb.OutputPrefixType_RAW
*)
Definition mac_aescmac_protoOutputPrefixTypeFromVariant : list (N * N) := [(1, 1); (2, 4); (3, 2); (4, 3)].

(* mac/aescmac/protoserialization.go func variantFromProto:
     tinkpb.OutputPrefixType_TINK -> VariantTink
     tinkpb.OutputPrefixType_CRUNCHY -> VariantCrunchy
     tinkpb.OutputPrefixType_LEGACY -> VariantLegacy
     tinkpb.OutputPrefixType_RAW -> VariantNoPrefix
*)
Definition mac_aescmac_variantFromProto : list (N * N) := [(1, 1); (4, 2); (2, 3); (3, 4)].

(* mac/hmac/protoserialization.go func protoOutputPrefixTypeFromVariant:
     VariantTink -> tinkpb.OutputPrefixType_TINK
     VariantCrunchy -> tinkpb.OutputPrefixType_CRUNCHY
     VariantLegacy -> tinkpb.OutputPrefixType_LEGACY
     VariantNoPrefix -> tinkpb.OutputPrefixType_RAW
*)
Definition mac_hmac_protoOutputPrefixTypeFromVariant : list (N * N) := [(1, 1); (2, 4); (3, 2); (4, 3)].

(* mac/hmac/protoserialization.go func protoHashTypeFromHashType:
     SHA1 -> commonpb.HashType_SHA1
     SHA224 -> commonpb.HashType_SHA224
     SHA256 -> commonpb.HashType_SHA256
     SHA384 -> commonpb.HashType_SHA384
     SHA512 -> commonpb.HashType_SHA512
*)
Definition mac_hmac_protoHashTypeFromHashType : list (N * N) := [(1, 1); (2, 5); (3, 3); (4, 2); (5, 4)].

(* mac/hmac/protoserialization.go func variantFromProto:
     tinkpb.OutputPrefixType_TINK -> VariantTink
     tinkpb.OutputPrefixType_CRUNCHY -> VariantCrunchy
     tinkpb.OutputPrefixType_LEGACY -> VariantLegacy
     tinkpb.OutputPrefixType_RAW -> VariantNoPrefix
*)
Definition mac_hmac_variantFromProto : list (N * N) := [(1, 1); (4, 2); (2, 3); (3, 4)].

(* mac/hmac/protoserialization.go func hashTypeFromProto:
     commonpb.HashType_SHA1 -> SHA1
     commonpb.HashType_SHA224 -> SHA224
     commonpb.HashType_SHA256 -> SHA256
     commonpb.HashType_SHA384 -> SHA384
     commonpb.HashType_SHA512 -> SHA512
*)
Definition mac_hmac_hashTypeFromProto : list (N * N) := [(1, 1); (5, 2); (3, 3); (2, 4); (4, 5)].

(* prf/hkdfprf/protoserialization.go func toProtoHashType:
     SHA1 -> commonpb.HashType_SHA1
     SHA224 -> commonpb.HashType_SHA224
     SHA256 -> commonpb.HashType_SHA256
     SHA384 -> commonpb.HashType_SHA384
     SHA512 -> commonpb.HashType_SHA512
*)
Definition prf_hkdfprf_toProtoHashType : list (N * N) := [(1, 1); (2, 5); (3, 3); (4, 2); (5, 4)].

(* prf/hkdfprf/protoserialization.go func fromProtoHashType:
     commonpb.HashType_SHA1 -> SHA1
     commonpb.HashType_SHA224 -> SHA224
     commonpb.HashType_SHA256 -> SHA256
     commonpb.HashType_SHA384 -> SHA384
     commonpb.HashType_SHA512 -> SHA512
*)
Definition prf_hkdfprf_fromProtoHashType : list (N * N) := [(1, 1); (5, 2); (3, 3); (2, 4); (4, 5)].

(* prf/hmacprf/protoserialization.go func toProtoHashType:
     SHA1 -> commonpb.HashType_SHA1
     SHA224 -> commonpb.HashType_SHA224
     SHA256 -> commonpb.HashType_SHA256
     SHA384 -> commonpb.HashType_SHA384
     SHA512 -> commonpb.HashType_SHA512
*)
Definition prf_hmacprf_toProtoHashType : list (N * N) := [(1, 1); (2, 5); (3, 3); (4, 2); (5, 4)].

(* prf/hmacprf/protoserialization.go func fromProtoHashType:
     commonpb.HashType_SHA1 -> SHA1
     commonpb.HashType_SHA224 -> SHA224
     commonpb.HashType_SHA256 -> SHA256
     commonpb.HashType_SHA384 -> SHA384
     commonpb.HashType_SHA512 -> SHA512
*)
Definition prf_hmacprf_fromProtoHashType : list (N * N) := [(1, 1); (5, 2); (3, 3); (2, 4); (4, 5)].

(* signature/compositemldsa/protoserialization.go func protoOutputPrefixTypeFromVariant:
     VariantTink -> tinkpb.OutputPrefixType_TINK
     VariantNoPrefix -> tinkpb.OutputPrefixType_RAW
*)
Definition signature_compositemldsa_protoOutputPrefixTypeFromVariant : list (N * N) := [(1, 1); (2, 3)].

(* signature/compositemldsa/protoserialization.go func protoMlDsaInstanceFromInstance:
     MLDSA65 -> mldsapb.MlDsaInstance_ML_DSA_65
     MLDSA87 -> mldsapb.MlDsaInstance_ML_DSA_87
*)
Definition signature_compositemldsa_protoMlDsaInstanceFromInstance : list (N * N) := [(1, 1); (2, 2)].

(* signature/compositemldsa/protoserialization.go func protoCompositeMlDsaClassicalAlgorithmFromCompositeMlDsaClassicalAlgorithm:
     Ed25519 -> compositemldsapb.CompositeMlDsaClassicalAlgorithm_CLASSICAL_ALGORITHM_ED25519
     ECDSAP256 -> compositemldsapb.CompositeMlDsaClassicalAlgorithm_CLASSICAL_ALGORITHM_ECDSA_P256
     ECDSAP384 -> compositemldsapb.CompositeMlDsaClassicalAlgorithm_CLASSICAL_ALGORITHM_ECDSA_P384
     ECDSAP521 -> compositemldsapb.CompositeMlDsaClassicalAlgorithm_CLASSICAL_ALGORITHM_ECDSA_P521
     RSA3072PSS -> compositemldsapb.CompositeMlDsaClassicalAlgorithm_CLASSICAL_ALGORITHM_RSA3072_PSS
     RSA4096PSS -> compositemldsapb.CompositeMlDsaClassicalAlgorithm_CLASSICAL_ALGORITHM_RSA4096_PSS
     RSA3072PKCS1 -> compositemldsapb.CompositeMlDsaClassicalAlgorithm_CLASSICAL_ALGORITHM_RSA3072_PKCS1
     RSA4096PKCS1 -> compositemldsapb.CompositeMlDsaClassicalAlgorithm_CLASSICAL_ALGORITHM_RSA4096_PKCS1
*)
Definition signature_compositemldsa_protoCompositeMlDsaClassicalAlgorithmFromCompositeMlDsaClassicalAlgorithm : list (N * N) := [(1, 1); (2, 2); (3, 3); (4, 4); (5, 5); (6, 6); (7, 7); (8, 8)].

(* signature/compositemldsa/protoserialization.go func variantFromProto:
     tinkpb.OutputPrefixType_TINK -> VariantTink
     tinkpb.OutputPrefixType_RAW -> VariantNoPrefix
*)
Definition signature_compositemldsa_variantFromProto : list (N * N) := [(1, 1); (3, 2)].

(* signature/compositemldsa/protoserialization.go func instanceFromProto:
     mldsapb.MlDsaInstance_ML_DSA_65 -> MLDSA65
     mldsapb.MlDsaInstance_ML_DSA_87 -> MLDSA87
*)
Definition signature_compositemldsa_instanceFromProto : list (N * N) := [(1, 1); (2, 2)].

(* signature/compositemldsa/protoserialization.go func classicalAlgorithmFromProto:
     compositemldsapb.CompositeMlDsaClassicalAlgorithm_CLASSICAL_ALGORITHM_ED25519 -> Ed25519
     compositemldsapb.CompositeMlDsaClassicalAlgorithm_CLASSICAL_ALGORITHM_ECDSA_P256 -> ECDSAP256
     compositemldsapb.CompositeMlDsaClassicalAlgorithm_CLASSICAL_ALGORITHM_ECDSA_P384 -> ECDSAP384
     compositemldsapb.CompositeMlDsaClassicalAlgorithm_CLASSICAL_ALGORITHM_ECDSA_P521 -> ECDSAP521
     compositemldsapb.CompositeMlDsaClassicalAlgorithm_CLASSICAL_ALGORITHM_RSA3072_PSS -> RSA3072PSS
     compositemldsapb.CompositeMlDsaClassicalAlgorithm_CLASSICAL_ALGORITHM_RSA4096_PSS -> RSA4096PSS
     compositemldsapb.CompositeMlDsaClassicalAlgorithm_CLASSICAL_ALGORITHM_RSA3072_PKCS1 -> RSA3072PKCS1
     compositemldsapb.CompositeMlDsaClassicalAlgorithm_CLASSICAL_ALGORITHM_RSA4096_PKCS1 -> RSA4096PKCS1
*)
Definition signature_compositemldsa_classicalAlgorithmFromProto : list (N * N) := [(1, 1); (2, 2); (3, 3); (4, 4); (5, 5); (6, 6); (7, 7); (8, 8)].

(* signature/ecdsa/protoserialization.go func protoOutputPrefixTypeFromVariant:
     VariantTink -> tinkpb.OutputPrefixType_TINK
     VariantLegacy -> tinkpb.OutputPrefixType_LEGACY
     VariantCrunchy -> tinkpb.OutputPrefixType_CRUNCHY
     VariantNoPrefix -> tinkpb.OutputPrefixType_RAW
*)
Definition signature_ecdsa_protoOutputPrefixTypeFromVariant : list (N * N) := [(1, 1); (3, 2); (2, 4); (4, 3)].

(* signature/ecdsa/protoserialization.go func protoCurveFromCurveType:
     NistP256 -> commonpb.EllipticCurveType_NIST_P256
     NistP384 -> commonpb.EllipticCurveType_NIST_P384
     NistP521 -> commonpb.EllipticCurveType_NIST_P521
*)
Definition signature_ecdsa_protoCurveFromCurveType : list (N * N) := [(1, 2); (2, 3); (3, 4)].

(* signature/ecdsa/protoserialization.go func protoHashTypeFromHashType:
     SHA256 -> commonpb.HashType_SHA256
     SHA384 -> commonpb.HashType_SHA384
     SHA512 -> commonpb.HashType_SHA512
*)
Definition signature_ecdsa_protoHashTypeFromHashType : list (N * N) := [(1, 3); (2, 2); (3, 4)].

(* signature/ecdsa/protoserialization.go func protoEcdsaSignatureEncodingFromSignatureEncoding:
     DER -> ecdsapb.EcdsaSignatureEncoding_DER
     IEEEP1363 -> ecdsapb.EcdsaSignatureEncoding_IEEE_P1363
*)
Definition signature_ecdsa_protoEcdsaSignatureEncodingFromSignatureEncoding : list (N * N) := [(1, 2); (2, 1)].

(* signature/ecdsa/protoserialization.go func variantFromProto:
     tinkpb.OutputPrefixType_TINK -> VariantTink
     tinkpb.OutputPrefixType_LEGACY -> VariantLegacy
     tinkpb.OutputPrefixType_CRUNCHY -> VariantCrunchy
     tinkpb.OutputPrefixType_RAW -> VariantNoPrefix
*)
Definition signature_ecdsa_variantFromProto : list (N * N) := [(1, 1); (2, 3); (4, 2); (3, 4)].

(* signature/ecdsa/protoserialization.go func curveTypeFromProto:
     commonpb.EllipticCurveType_NIST_P256 -> NistP256
     commonpb.EllipticCurveType_NIST_P384 -> NistP384
     commonpb.EllipticCurveType_NIST_P521 -> NistP521
*)
Definition signature_ecdsa_curveTypeFromProto : list (N * N) := [(2, 1); (3, 2); (4, 3)].

(* signature/ecdsa/protoserialization.go func hashTypeFromProto:
     commonpb.HashType_SHA256 -> SHA256
     commonpb.HashType_SHA384 -> SHA384
     commonpb.HashType_SHA512 -> SHA512
*)
Definition signature_ecdsa_hashTypeFromProto : list (N * N) := [(3, 1); (2, 2); (4, 3)].

(* signature/ecdsa/protoserialization.go func signatureEncodingFromProto:
     ecdsapb.EcdsaSignatureEncoding_DER -> DER
     ecdsapb.EcdsaSignatureEncoding_IEEE_P1363 -> IEEEP1363
*)
Definition signature_ecdsa_signatureEncodingFromProto : list (N * N) := [(2, 1); (1, 2)].

(* signature/ecdsa/protoserialization.go func coordinateSizeForCurve:
     NistP256 -> 32
     NistP384 -> 48
     NistP521 -> 66
*)
Definition signature_ecdsa_coordinateSizeForCurve : list (N * N) := [(1, 32); (2, 48); (3, 66)].

(* signature/ed25519/protoserialization.go func protoOutputPrefixTypeFromVariant:
     VariantTink -> tinkpb.OutputPrefixType_TINK
     VariantCrunchy -> tinkpb.OutputPrefixType_CRUNCHY
     VariantLegacy -> tinkpb.OutputPrefixType_LEGACY
     VariantNoPrefix -> tinkpb.OutputPrefixType_RAW
*)
Definition signature_ed25519_protoOutputPrefixTypeFromVariant : list (N * N) := [(1, 1); (2, 4); (3, 2); (4, 3)].

(* signature/ed25519/protoserialization.go func variantFromProto:
     tinkpb.OutputPrefixType_TINK -> VariantTink
     tinkpb.OutputPrefixType_CRUNCHY -> VariantCrunchy
     tinkpb.OutputPrefixType_LEGACY -> VariantLegacy
     tinkpb.OutputPrefixType_RAW -> VariantNoPrefix
*)
Definition signature_ed25519_variantFromProto : list (N * N) := [(1, 1); (4, 2); (2, 3); (3, 4)].

(* signature/mldsa/protoserialization.go func protoOutputPrefixTypeFromVariant:
     VariantTink -> tinkpb.OutputPrefixType_TINK
     VariantNoPrefix -> tinkpb.OutputPrefixType_RAW
     VariantNoPrefixWithPrehashID -> tinkpb.OutputPrefixType_WITH_ID_REQUIREMENT
*)
Definition signature_mldsa_protoOutputPrefixTypeFromVariant : list (N * N) := [(1, 1); (2, 3); (3, 5)].

(* signature/mldsa/protoserialization.go func protoMlDsaInstanceFromInstance:
     MLDSA44 -> mldsapb.MlDsaInstance_ML_DSA_44
     MLDSA65 -> mldsapb.MlDsaInstance_ML_DSA_65
     MLDSA87 -> mldsapb.MlDsaInstance_ML_DSA_87
*)
Definition signature_mldsa_protoMlDsaInstanceFromInstance : list (N * N) := [(1, 3); (2, 1); (3, 2)].

(* signature/mldsa/protoserialization.go func variantFromProto:
     tinkpb.OutputPrefixType_TINK -> VariantTink
     tinkpb.OutputPrefixType_RAW -> VariantNoPrefix
     tinkpb.OutputPrefixType_WITH_ID_REQUIREMENT -> VariantNoPrefixWithPrehashID
*)
Definition signature_mldsa_variantFromProto : list (N * N) := [(1, 1); (3, 2); (5, 3)].

(* signature/mldsa/protoserialization.go func instanceFromProto:
     mldsapb.MlDsaInstance_ML_DSA_44 -> MLDSA44
     mldsapb.MlDsaInstance_ML_DSA_65 -> MLDSA65
     mldsapb.MlDsaInstance_ML_DSA_87 -> MLDSA87
*)
Definition signature_mldsa_instanceFromProto : list (N * N) := [(3, 1); (1, 2); (2, 3)].

(* signature/rsassapkcs1/protoserialization.go func protoOutputPrefixTypeFromVariant:
     VariantTink -> tinkpb.OutputPrefixType_TINK
     VariantCrunchy -> tinkpb.OutputPrefixType_CRUNCHY
     VariantLegacy -> tinkpb.OutputPrefixType_LEGACY
     VariantNoPrefix -> tinkpb.OutputPrefixType_RAW
*)
Definition signature_rsassapkcs1_protoOutputPrefixTypeFromVariant : list (N * N) := [(1, 1); (2, 4); (3, 2); (4, 3)].

(* signature/rsassapkcs1/protoserialization.go func protoHashValueFromHashType:
     SHA256 -> commonpb.HashType_SHA256
     SHA384 -> commonpb.HashType_SHA384
     SHA512 -> commonpb.HashType_SHA512
*)
Definition signature_rsassapkcs1_protoHashValueFromHashType : list (N * N) := [(1, 3); (2, 2); (3, 4)].

(* signature/rsassapkcs1/protoserialization.go func variantFromProto:
     tinkpb.OutputPrefixType_TINK -> VariantTink
     tinkpb.OutputPrefixType_CRUNCHY -> VariantCrunchy
     tinkpb.OutputPrefixType_LEGACY -> VariantLegacy
     tinkpb.OutputPrefixType_RAW -> VariantNoPrefix
*)
Definition signature_rsassapkcs1_variantFromProto : list (N * N) := [(1, 1); (4, 2); (2, 3); (3, 4)].

(* signature/rsassapkcs1/protoserialization.go func hashTypeFromProto:
     commonpb.HashType_SHA256 -> SHA256
     commonpb.HashType_SHA384 -> SHA384
     commonpb.HashType_SHA512 -> SHA512
*)
Definition signature_rsassapkcs1_hashTypeFromProto : list (N * N) := [(3, 1); (2, 2); (4, 3)].

(* signature/rsassapss/protoserialization.go func protoOutputPrefixTypeFromVariant:
     VariantTink -> tinkpb.OutputPrefixType_TINK
     VariantCrunchy -> tinkpb.OutputPrefixType_CRUNCHY
     VariantLegacy -> tinkpb.OutputPrefixType_LEGACY
     VariantNoPrefix -> tinkpb.OutputPrefixType_RAW
*)
Definition signature_rsassapss_protoOutputPrefixTypeFromVariant : list (N * N) := [(1, 1); (2, 4); (3, 2); (4, 3)].

(* signature/rsassapss/protoserialization.go func protoHashValueFromHashType:
     SHA256 -> commonpb.HashType_SHA256
     SHA384 -> commonpb.HashType_SHA384
     SHA512 -> commonpb.HashType_SHA512
*)
Definition signature_rsassapss_protoHashValueFromHashType : list (N * N) := [(1, 3); (2, 2); (3, 4)].

(* signature/rsassapss/protoserialization.go func variantFromProto:
     tinkpb.OutputPrefixType_TINK -> VariantTink
     tinkpb.OutputPrefixType_CRUNCHY -> VariantCrunchy
     tinkpb.OutputPrefixType_LEGACY -> VariantLegacy
     tinkpb.OutputPrefixType_RAW -> VariantNoPrefix
*)
Definition signature_rsassapss_variantFromProto : list (N * N) := [(1, 1); (4, 2); (2, 3); (3, 4)].

(* signature/rsassapss/protoserialization.go func hashTypeFromProto:
     commonpb.HashType_SHA256 -> SHA256
     commonpb.HashType_SHA384 -> SHA384
     commonpb.HashType_SHA512 -> SHA512
*)
Definition signature_rsassapss_hashTypeFromProto : list (N * N) := [(3, 1); (2, 2); (4, 3)].

(* signature/slhdsa/protoserialization.go func protoOutputPrefixTypeFromVariant:
     VariantTink -> tinkpb.OutputPrefixType_TINK
     VariantNoPrefix -> tinkpb.OutputPrefixType_RAW
*)
Definition signature_slhdsa_protoOutputPrefixTypeFromVariant : list (N * N) := [(1, 1); (2, 3)].

(* signature/slhdsa/protoserialization.go func protoSlhDsaHashTypeFromHashType:
     SHA2 -> slhdsapb.SlhDsaHashType_SHA2
     SHAKE -> slhdsapb.SlhDsaHashType_SHAKE
*)
Definition signature_slhdsa_protoSlhDsaHashTypeFromHashType : list (N * N) := [(1, 1); (2, 2)].

(* signature/slhdsa/protoserialization.go func protoSlhDsaSignatureTypeFromSignatureType:
     FastSigning -> slhdsapb.SlhDsaSignatureType_FAST_SIGNING
     SmallSignature -> slhdsapb.SlhDsaSignatureType_SMALL_SIGNATURE
*)
Definition signature_slhdsa_protoSlhDsaSignatureTypeFromSignatureType : list (N * N) := [(1, 1); (2, 2)].

(* signature/slhdsa/protoserialization.go func variantFromProto:
     tinkpb.OutputPrefixType_TINK -> VariantTink
     tinkpb.OutputPrefixType_RAW -> VariantNoPrefix
*)
Definition signature_slhdsa_variantFromProto : list (N * N) := [(1, 1); (3, 2)].

(* signature/slhdsa/protoserialization.go func hashTypeFromProto:
     slhdsapb.SlhDsaHashType_SHA2 -> SHA2
     slhdsapb.SlhDsaHashType_SHAKE -> SHAKE
*)
Definition signature_slhdsa_hashTypeFromProto : list (N * N) := [(1, 1); (2, 2)].

(* signature/slhdsa/protoserialization.go func signatureTypeFromProto:
     slhdsapb.SlhDsaSignatureType_FAST_SIGNING -> FastSigning
     slhdsapb.SlhDsaSignatureType_SMALL_SIGNATURE -> SmallSignature
*)
Definition signature_slhdsa_signatureTypeFromProto : list (N * N) := [(1, 1); (2, 2)].

(* streamingaead/aesctrhmac/protoserialization.go func hashTypeToProto:
     SHA1 -> commonpb.HashType_SHA1
     SHA256 -> commonpb.HashType_SHA256
     SHA512 -> commonpb.HashType_SHA512
*)
Definition streamingaead_aesctrhmac_hashTypeToProto : list (N * N) := [(1, 1); (2, 3); (3, 4)].

(* streamingaead/aesctrhmac/protoserialization.go func hashTypeFromProto:
     commonpb.HashType_SHA1 -> SHA1
     commonpb.HashType_SHA256 -> SHA256
     commonpb.HashType_SHA512 -> SHA512
*)
Definition streamingaead_aesctrhmac_hashTypeFromProto : list (N * N) := [(1, 1); (3, 2); (4, 3)].

(* streamingaead/aesgcmhkdf/protoserialization.go func hashTypeToProto:
     SHA1 -> commonpb.HashType_SHA1
     SHA256 -> commonpb.HashType_SHA256
     SHA512 -> commonpb.HashType_SHA512
*)
Definition streamingaead_aesgcmhkdf_hashTypeToProto : list (N * N) := [(1, 1); (2, 3); (3, 4)].

(* streamingaead/aesgcmhkdf/protoserialization.go func hashTypeFromProto:
     commonpb.HashType_SHA1 -> SHA1
     commonpb.HashType_SHA256 -> SHA256
     commonpb.HashType_SHA512 -> SHA512
*)
Definition streamingaead_aesgcmhkdf_hashTypeFromProto : list (N * N) := [(1, 1); (3, 2); (4, 3)].

(* (is it an OutputPrefixType map?, Go enum -> proto enum, proto enum -> Go enum), paired by function name *)
Definition enum_map_pairs : list (bool * list (N * N) * list (N * N)) := [
  (true, aead_aesctrhmac_protoOutputPrefixTypeFromVariant, aead_aesctrhmac_variantFromProto);
  (false, aead_aesctrhmac_hashTypeToProto, aead_aesctrhmac_hashTypeFromProto);
  (true, aead_aesgcm_protoOutputPrefixTypeFromVariant, aead_aesgcm_variantFromProto);
  (true, aead_aesgcmsiv_protoOutputPrefixTypeFromVariant, aead_aesgcmsiv_variantFromProto);
  (true, aead_chacha20poly1305_protoOutputPrefixTypeFromVariant, aead_chacha20poly1305_variantFromProto);
  (true, aead_xaesgcm_protoOutputPrefixTypeFromVariant, aead_xaesgcm_variantFromProto);
  (true, aead_xchacha20poly1305_protoOutputPrefixTypeFromVariant, aead_xchacha20poly1305_variantFromProto);
  (true, daead_aessiv_protoOutputPrefixTypeFromVariant, daead_aessiv_variantFromProto);
  (true, hybrid_ecies_protoOutputPrefixTypeFromVariant, hybrid_ecies_variantFromProto);
  (false, hybrid_ecies_protoHashTypeFromHashType, hybrid_ecies_hashTypeFromProto);
  (false, hybrid_ecies_protoCurveFromCurveType, hybrid_ecies_curveTypeFromProto);
  (false, hybrid_ecies_protoEcPointFormatFromPointFormat, hybrid_ecies_pointFormatFromProtoPointFormat);
  (true, hybrid_hpke_protoOutputPrefixTypeFromVariant, hybrid_hpke_protoOutputPrefixTypeToVariant);
  (false, hybrid_hpke_serializeKEMID, hybrid_hpke_parseKEMID);
  (false, hybrid_hpke_serializeAEADID, hybrid_hpke_parseAEADID);
  (false, hybrid_hpke_serializedKDFID, hybrid_hpke_parseKDFID);
  (false, jwt_jwtecdsa_algorithmToProto, jwt_jwtecdsa_algorithmFromProto);
  (false, jwt_jwthmac_algorithmToProto, jwt_jwthmac_algorithmFromProto);
  (false, jwt_jwtmldsa_algorithmToProto, jwt_jwtmldsa_algorithmFromProto);
  (false, jwt_jwtrsassapkcs1_algorithmToProto, jwt_jwtrsassapkcs1_algorithmFromProto);
  (false, jwt_jwtrsassapss_algorithmToProto, jwt_jwtrsassapss_algorithmFromProto);
  (true, mac_aescmac_protoOutputPrefixTypeFromVariant, mac_aescmac_variantFromProto);
  (true, mac_hmac_protoOutputPrefixTypeFromVariant, mac_hmac_variantFromProto);
  (false, mac_hmac_protoHashTypeFromHashType, mac_hmac_hashTypeFromProto);
  (false, prf_hkdfprf_toProtoHashType, prf_hkdfprf_fromProtoHashType);
  (false, prf_hmacprf_toProtoHashType, prf_hmacprf_fromProtoHashType);
  (true, signature_compositemldsa_protoOutputPrefixTypeFromVariant, signature_compositemldsa_variantFromProto);
  (false, signature_compositemldsa_protoMlDsaInstanceFromInstance, signature_compositemldsa_instanceFromProto);
  (false, signature_compositemldsa_protoCompositeMlDsaClassicalAlgorithmFromCompositeMlDsaClassicalAlgorithm, signature_compositemldsa_classicalAlgorithmFromProto);
  (true, signature_ecdsa_protoOutputPrefixTypeFromVariant, signature_ecdsa_variantFromProto);
  (false, signature_ecdsa_protoHashTypeFromHashType, signature_ecdsa_hashTypeFromProto);
  (false, signature_ecdsa_protoCurveFromCurveType, signature_ecdsa_curveTypeFromProto);
  (false, signature_ecdsa_protoEcdsaSignatureEncodingFromSignatureEncoding, signature_ecdsa_signatureEncodingFromProto);
  (true, signature_ed25519_protoOutputPrefixTypeFromVariant, signature_ed25519_variantFromProto);
  (true, signature_mldsa_protoOutputPrefixTypeFromVariant, signature_mldsa_variantFromProto);
  (false, signature_mldsa_protoMlDsaInstanceFromInstance, signature_mldsa_instanceFromProto);
  (true, signature_rsassapkcs1_protoOutputPrefixTypeFromVariant, signature_rsassapkcs1_variantFromProto);
  (false, signature_rsassapkcs1_protoHashValueFromHashType, signature_rsassapkcs1_hashTypeFromProto);
  (true, signature_rsassapss_protoOutputPrefixTypeFromVariant, signature_rsassapss_variantFromProto);
  (false, signature_rsassapss_protoHashValueFromHashType, signature_rsassapss_hashTypeFromProto);
  (true, signature_slhdsa_protoOutputPrefixTypeFromVariant, signature_slhdsa_variantFromProto);
  (false, signature_slhdsa_protoSlhDsaHashTypeFromHashType, signature_slhdsa_hashTypeFromProto);
  (false, signature_slhdsa_protoSlhDsaSignatureTypeFromSignatureType, signature_slhdsa_signatureTypeFromProto);
  (false, streamingaead_aesctrhmac_hashTypeToProto, streamingaead_aesctrhmac_hashTypeFromProto);
  (false, streamingaead_aesgcmhkdf_hashTypeToProto, streamingaead_aesgcmhkdf_hashTypeFromProto)].

(* tables that are not one half of a pair above (size tables, the JWT KID-strategy maps) *)
Definition unpaired_tables : list (list (N * N)) := [
  hybrid_ecies_coordinateSizeForCurve;
  jwt_jwtecdsa_outputPrefixTypeFromKIDStrategy;
  jwt_jwtecdsa_kidStrategyFromOutputPrefixType_true;
  jwt_jwtecdsa_kidStrategyFromOutputPrefixType_false;
  jwt_jwtecdsa_coordinateSizeFromAlgorithm;
  jwt_jwthmac_outputPrefixTypeFromKIDStrategy;
  jwt_jwthmac_kidStrategyFromOutputPrefixType_true;
  jwt_jwthmac_kidStrategyFromOutputPrefixType_false;
  jwt_jwtmldsa_outputPrefixTypeFromKIDStrategy;
  jwt_jwtmldsa_kidStrategyFromOutputPrefixType_true;
  jwt_jwtmldsa_kidStrategyFromOutputPrefixType_false;
  jwt_jwtrsassapkcs1_outputPrefixTypeFromKIDStrategy;
  jwt_jwtrsassapkcs1_kidStrategyFromOutputPrefixType_true;
  jwt_jwtrsassapkcs1_kidStrategyFromOutputPrefixType_false;
  jwt_jwtrsassapss_outputPrefixTypeFromKIDStrategy;
  jwt_jwtrsassapss_kidStrategyFromOutputPrefixType_true;
  jwt_jwtrsassapss_kidStrategyFromOutputPrefixType_false;
  signature_ecdsa_coordinateSizeForCurve].

(* ---- per key type URL: (url as bytes, (kind, (custom, (variant -> prefix map, (prefix -> variant map, prefix -> variant map when a custom kid is present))))).
   kind 0: the maps are used.  Types without variants compare the prefix with RAW (3)
   directly (PRFs: raw_only maps) or copy it from the derived key template (key
   derivation: identity maps).  kind 1: the key parser never looks at the prefix
   and the serializer always emits RAW with id 0 (streaming AEADs).  kind 2: JWT
   types, whose KID strategy also depends on the presence of a custom kid;
   custom = the constant CustomKID of the package. ---- *)
Definition raw_only_to : list (N * N) := [(0, 3)].
Definition raw_only_from : list (N * N) := [(3, 0)].
Definition prefix_identity : list (N * N) := [(1, 1); (2, 2); (3, 3); (4, 4)].

Definition prefix_maps : list (list N * (N * (N * (list (N * N) * (list (N * N) * list (N * N)))))) := [
  (* aead_aesctrhmac typeURL = "type.googleapis.com/google.crypto.tink.AesCtrHmacAeadKey" *)
  ([116;121;112;101;46;103;111;111;103;108;101;97;112;105;115;46;99;111;109;47;103;111;111;103;108;101;46;99;114;121;112;116;111;46;116;105;110;107;46;65;101;115;67;116;114;72;109;97;99;65;101;97;100;75;101;121], (0, (0, (aead_aesctrhmac_protoOutputPrefixTypeFromVariant, (aead_aesctrhmac_variantFromProto, aead_aesctrhmac_variantFromProto)))));
  (* aead_aesgcm typeURL = "type.googleapis.com/google.crypto.tink.AesGcmKey" *)
  ([116;121;112;101;46;103;111;111;103;108;101;97;112;105;115;46;99;111;109;47;103;111;111;103;108;101;46;99;114;121;112;116;111;46;116;105;110;107;46;65;101;115;71;99;109;75;101;121], (0, (0, (aead_aesgcm_protoOutputPrefixTypeFromVariant, (aead_aesgcm_variantFromProto, aead_aesgcm_variantFromProto)))));
  (* aead_aesgcmsiv typeURL = "type.googleapis.com/google.crypto.tink.AesGcmSivKey" *)
  ([116;121;112;101;46;103;111;111;103;108;101;97;112;105;115;46;99;111;109;47;103;111;111;103;108;101;46;99;114;121;112;116;111;46;116;105;110;107;46;65;101;115;71;99;109;83;105;118;75;101;121], (0, (0, (aead_aesgcmsiv_protoOutputPrefixTypeFromVariant, (aead_aesgcmsiv_variantFromProto, aead_aesgcmsiv_variantFromProto)))));
  (* aead_chacha20poly1305 typeURL = "type.googleapis.com/google.crypto.tink.ChaCha20Poly1305Key" *)
  ([116;121;112;101;46;103;111;111;103;108;101;97;112;105;115;46;99;111;109;47;103;111;111;103;108;101;46;99;114;121;112;116;111;46;116;105;110;107;46;67;104;97;67;104;97;50;48;80;111;108;121;49;51;48;53;75;101;121], (0, (0, (aead_chacha20poly1305_protoOutputPrefixTypeFromVariant, (aead_chacha20poly1305_variantFromProto, aead_chacha20poly1305_variantFromProto)))));
  (* aead_xaesgcm typeURL = "type.googleapis.com/google.crypto.tink.XAesGcmKey" *)
  ([116;121;112;101;46;103;111;111;103;108;101;97;112;105;115;46;99;111;109;47;103;111;111;103;108;101;46;99;114;121;112;116;111;46;116;105;110;107;46;88;65;101;115;71;99;109;75;101;121], (0, (0, (aead_xaesgcm_protoOutputPrefixTypeFromVariant, (aead_xaesgcm_variantFromProto, aead_xaesgcm_variantFromProto)))));
  (* aead_xchacha20poly1305 typeURL = "type.googleapis.com/google.crypto.tink.XChaCha20Poly1305Key" *)
  ([116;121;112;101;46;103;111;111;103;108;101;97;112;105;115;46;99;111;109;47;103;111;111;103;108;101;46;99;114;121;112;116;111;46;116;105;110;107;46;88;67;104;97;67;104;97;50;48;80;111;108;121;49;51;48;53;75;101;121], (0, (0, (aead_xchacha20poly1305_protoOutputPrefixTypeFromVariant, (aead_xchacha20poly1305_variantFromProto, aead_xchacha20poly1305_variantFromProto)))));
  (* daead_aessiv typeURL = "type.googleapis.com/google.crypto.tink.AesSivKey" *)
  ([116;121;112;101;46;103;111;111;103;108;101;97;112;105;115;46;99;111;109;47;103;111;111;103;108;101;46;99;114;121;112;116;111;46;116;105;110;107;46;65;101;115;83;105;118;75;101;121], (0, (0, (daead_aessiv_protoOutputPrefixTypeFromVariant, (daead_aessiv_variantFromProto, daead_aessiv_variantFromProto)))));
  (* hybrid_ecies privateKeyTypeURL = "type.googleapis.com/google.crypto.tink.EciesAeadHkdfPrivateKey" *)
  ([116;121;112;101;46;103;111;111;103;108;101;97;112;105;115;46;99;111;109;47;103;111;111;103;108;101;46;99;114;121;112;116;111;46;116;105;110;107;46;69;99;105;101;115;65;101;97;100;72;107;100;102;80;114;105;118;97;116;101;75;101;121], (0, (0, (hybrid_ecies_protoOutputPrefixTypeFromVariant, (hybrid_ecies_variantFromProto, hybrid_ecies_variantFromProto)))));
  (* hybrid_ecies publicKeyTypeURL = "type.googleapis.com/google.crypto.tink.EciesAeadHkdfPublicKey" *)
  ([116;121;112;101;46;103;111;111;103;108;101;97;112;105;115;46;99;111;109;47;103;111;111;103;108;101;46;99;114;121;112;116;111;46;116;105;110;107;46;69;99;105;101;115;65;101;97;100;72;107;100;102;80;117;98;108;105;99;75;101;121], (0, (0, (hybrid_ecies_protoOutputPrefixTypeFromVariant, (hybrid_ecies_variantFromProto, hybrid_ecies_variantFromProto)))));
  (* hybrid_hpke privateKeyTypeURL = "type.googleapis.com/google.crypto.tink.HpkePrivateKey" *)
  ([116;121;112;101;46;103;111;111;103;108;101;97;112;105;115;46;99;111;109;47;103;111;111;103;108;101;46;99;114;121;112;116;111;46;116;105;110;107;46;72;112;107;101;80;114;105;118;97;116;101;75;101;121], (0, (0, (hybrid_hpke_protoOutputPrefixTypeFromVariant, (hybrid_hpke_protoOutputPrefixTypeToVariant, hybrid_hpke_protoOutputPrefixTypeToVariant)))));
  (* hybrid_hpke publicKeyTypeURL = "type.googleapis.com/google.crypto.tink.HpkePublicKey" *)
  ([116;121;112;101;46;103;111;111;103;108;101;97;112;105;115;46;99;111;109;47;103;111;111;103;108;101;46;99;114;121;112;116;111;46;116;105;110;107;46;72;112;107;101;80;117;98;108;105;99;75;101;121], (0, (0, (hybrid_hpke_protoOutputPrefixTypeFromVariant, (hybrid_hpke_protoOutputPrefixTypeToVariant, hybrid_hpke_protoOutputPrefixTypeToVariant)))));
  (* jwt_jwtecdsa privateKeyTypeURL = "type.googleapis.com/google.crypto.tink.JwtEcdsaPrivateKey" *)
  ([116;121;112;101;46;103;111;111;103;108;101;97;112;105;115;46;99;111;109;47;103;111;111;103;108;101;46;99;114;121;112;116;111;46;116;105;110;107;46;74;119;116;69;99;100;115;97;80;114;105;118;97;116;101;75;101;121], (2, (3, (jwt_jwtecdsa_outputPrefixTypeFromKIDStrategy, (jwt_jwtecdsa_kidStrategyFromOutputPrefixType_false, jwt_jwtecdsa_kidStrategyFromOutputPrefixType_true)))));
  (* jwt_jwtecdsa publicKeyTypeURL = "type.googleapis.com/google.crypto.tink.JwtEcdsaPublicKey" *)
  ([116;121;112;101;46;103;111;111;103;108;101;97;112;105;115;46;99;111;109;47;103;111;111;103;108;101;46;99;114;121;112;116;111;46;116;105;110;107;46;74;119;116;69;99;100;115;97;80;117;98;108;105;99;75;101;121], (2, (3, (jwt_jwtecdsa_outputPrefixTypeFromKIDStrategy, (jwt_jwtecdsa_kidStrategyFromOutputPrefixType_false, jwt_jwtecdsa_kidStrategyFromOutputPrefixType_true)))));
  (* jwt_jwthmac keyTypeURL = "type.googleapis.com/google.crypto.tink.JwtHmacKey" *)
  ([116;121;112;101;46;103;111;111;103;108;101;97;112;105;115;46;99;111;109;47;103;111;111;103;108;101;46;99;114;121;112;116;111;46;116;105;110;107;46;74;119;116;72;109;97;99;75;101;121], (2, (3, (jwt_jwthmac_outputPrefixTypeFromKIDStrategy, (jwt_jwthmac_kidStrategyFromOutputPrefixType_false, jwt_jwthmac_kidStrategyFromOutputPrefixType_true)))));
  (* jwt_jwtmldsa privateKeyTypeURL = "type.googleapis.com/google.crypto.tink.JwtMlDsaPrivateKey" *)
  ([116;121;112;101;46;103;111;111;103;108;101;97;112;105;115;46;99;111;109;47;103;111;111;103;108;101;46;99;114;121;112;116;111;46;116;105;110;107;46;74;119;116;77;108;68;115;97;80;114;105;118;97;116;101;75;101;121], (2, (3, (jwt_jwtmldsa_outputPrefixTypeFromKIDStrategy, (jwt_jwtmldsa_kidStrategyFromOutputPrefixType_false, jwt_jwtmldsa_kidStrategyFromOutputPrefixType_true)))));
  (* jwt_jwtmldsa publicKeyTypeURL = "type.googleapis.com/google.crypto.tink.JwtMlDsaPublicKey" *)
  ([116;121;112;101;46;103;111;111;103;108;101;97;112;105;115;46;99;111;109;47;103;111;111;103;108;101;46;99;114;121;112;116;111;46;116;105;110;107;46;74;119;116;77;108;68;115;97;80;117;98;108;105;99;75;101;121], (2, (3, (jwt_jwtmldsa_outputPrefixTypeFromKIDStrategy, (jwt_jwtmldsa_kidStrategyFromOutputPrefixType_false, jwt_jwtmldsa_kidStrategyFromOutputPrefixType_true)))));
  (* jwt_jwtrsassapkcs1 privateKeyTypeURL = "type.googleapis.com/google.crypto.tink.JwtRsaSsaPkcs1PrivateKey" *)
  ([116;121;112;101;46;103;111;111;103;108;101;97;112;105;115;46;99;111;109;47;103;111;111;103;108;101;46;99;114;121;112;116;111;46;116;105;110;107;46;74;119;116;82;115;97;83;115;97;80;107;99;115;49;80;114;105;118;97;116;101;75;101;121], (2, (3, (jwt_jwtrsassapkcs1_outputPrefixTypeFromKIDStrategy, (jwt_jwtrsassapkcs1_kidStrategyFromOutputPrefixType_false, jwt_jwtrsassapkcs1_kidStrategyFromOutputPrefixType_true)))));
  (* jwt_jwtrsassapkcs1 publicKeyTypeURL = "type.googleapis.com/google.crypto.tink.JwtRsaSsaPkcs1PublicKey" *)
  ([116;121;112;101;46;103;111;111;103;108;101;97;112;105;115;46;99;111;109;47;103;111;111;103;108;101;46;99;114;121;112;116;111;46;116;105;110;107;46;74;119;116;82;115;97;83;115;97;80;107;99;115;49;80;117;98;108;105;99;75;101;121], (2, (3, (jwt_jwtrsassapkcs1_outputPrefixTypeFromKIDStrategy, (jwt_jwtrsassapkcs1_kidStrategyFromOutputPrefixType_false, jwt_jwtrsassapkcs1_kidStrategyFromOutputPrefixType_true)))));
  (* jwt_jwtrsassapss privateKeyTypeURL = "type.googleapis.com/google.crypto.tink.JwtRsaSsaPssPrivateKey" *)
  ([116;121;112;101;46;103;111;111;103;108;101;97;112;105;115;46;99;111;109;47;103;111;111;103;108;101;46;99;114;121;112;116;111;46;116;105;110;107;46;74;119;116;82;115;97;83;115;97;80;115;115;80;114;105;118;97;116;101;75;101;121], (2, (3, (jwt_jwtrsassapss_outputPrefixTypeFromKIDStrategy, (jwt_jwtrsassapss_kidStrategyFromOutputPrefixType_false, jwt_jwtrsassapss_kidStrategyFromOutputPrefixType_true)))));
  (* jwt_jwtrsassapss publicKeyTypeURL = "type.googleapis.com/google.crypto.tink.JwtRsaSsaPssPublicKey" *)
  ([116;121;112;101;46;103;111;111;103;108;101;97;112;105;115;46;99;111;109;47;103;111;111;103;108;101;46;99;114;121;112;116;111;46;116;105;110;107;46;74;119;116;82;115;97;83;115;97;80;115;115;80;117;98;108;105;99;75;101;121], (2, (3, (jwt_jwtrsassapss_outputPrefixTypeFromKIDStrategy, (jwt_jwtrsassapss_kidStrategyFromOutputPrefixType_false, jwt_jwtrsassapss_kidStrategyFromOutputPrefixType_true)))));
  (* keyderivation_prfbasedkeyderivation typeURL = "type.googleapis.com/google.crypto.tink.PrfBasedDeriverKey" *)
  ([116;121;112;101;46;103;111;111;103;108;101;97;112;105;115;46;99;111;109;47;103;111;111;103;108;101;46;99;114;121;112;116;111;46;116;105;110;107;46;80;114;102;66;97;115;101;100;68;101;114;105;118;101;114;75;101;121], (0, (0, (prefix_identity, (prefix_identity, prefix_identity)))));
  (* mac_aescmac typeURL = "type.googleapis.com/google.crypto.tink.AesCmacKey" *)
  ([116;121;112;101;46;103;111;111;103;108;101;97;112;105;115;46;99;111;109;47;103;111;111;103;108;101;46;99;114;121;112;116;111;46;116;105;110;107;46;65;101;115;67;109;97;99;75;101;121], (0, (0, (mac_aescmac_protoOutputPrefixTypeFromVariant, (mac_aescmac_variantFromProto, mac_aescmac_variantFromProto)))));
  (* mac_hmac typeURL = "type.googleapis.com/google.crypto.tink.HmacKey" *)
  ([116;121;112;101;46;103;111;111;103;108;101;97;112;105;115;46;99;111;109;47;103;111;111;103;108;101;46;99;114;121;112;116;111;46;116;105;110;107;46;72;109;97;99;75;101;121], (0, (0, (mac_hmac_protoOutputPrefixTypeFromVariant, (mac_hmac_variantFromProto, mac_hmac_variantFromProto)))));
  (* prf_aescmacprf typeURL = "type.googleapis.com/google.crypto.tink.AesCmacPrfKey" *)
  ([116;121;112;101;46;103;111;111;103;108;101;97;112;105;115;46;99;111;109;47;103;111;111;103;108;101;46;99;114;121;112;116;111;46;116;105;110;107;46;65;101;115;67;109;97;99;80;114;102;75;101;121], (0, (0, (raw_only_to, (raw_only_from, raw_only_from)))));
  (* prf_hkdfprf typeURL = "type.googleapis.com/google.crypto.tink.HkdfPrfKey" *)
  ([116;121;112;101;46;103;111;111;103;108;101;97;112;105;115;46;99;111;109;47;103;111;111;103;108;101;46;99;114;121;112;116;111;46;116;105;110;107;46;72;107;100;102;80;114;102;75;101;121], (0, (0, (raw_only_to, (raw_only_from, raw_only_from)))));
  (* prf_hmacprf typeURL = "type.googleapis.com/google.crypto.tink.HmacPrfKey" *)
  ([116;121;112;101;46;103;111;111;103;108;101;97;112;105;115;46;99;111;109;47;103;111;111;103;108;101;46;99;114;121;112;116;111;46;116;105;110;107;46;72;109;97;99;80;114;102;75;101;121], (0, (0, (raw_only_to, (raw_only_from, raw_only_from)))));
  (* signature_compositemldsa signerTypeURL = "type.googleapis.com/google.crypto.tink.CompositeMlDsaPrivateKey" *)
  ([116;121;112;101;46;103;111;111;103;108;101;97;112;105;115;46;99;111;109;47;103;111;111;103;108;101;46;99;114;121;112;116;111;46;116;105;110;107;46;67;111;109;112;111;115;105;116;101;77;108;68;115;97;80;114;105;118;97;116;101;75;101;121], (0, (0, (signature_compositemldsa_protoOutputPrefixTypeFromVariant, (signature_compositemldsa_variantFromProto, signature_compositemldsa_variantFromProto)))));
  (* signature_compositemldsa verifierTypeURL = "type.googleapis.com/google.crypto.tink.CompositeMlDsaPublicKey" *)
  ([116;121;112;101;46;103;111;111;103;108;101;97;112;105;115;46;99;111;109;47;103;111;111;103;108;101;46;99;114;121;112;116;111;46;116;105;110;107;46;67;111;109;112;111;115;105;116;101;77;108;68;115;97;80;117;98;108;105;99;75;101;121], (0, (0, (signature_compositemldsa_protoOutputPrefixTypeFromVariant, (signature_compositemldsa_variantFromProto, signature_compositemldsa_variantFromProto)))));
  (* signature_ecdsa signerTypeURL = "type.googleapis.com/google.crypto.tink.EcdsaPrivateKey" *)
  ([116;121;112;101;46;103;111;111;103;108;101;97;112;105;115;46;99;111;109;47;103;111;111;103;108;101;46;99;114;121;112;116;111;46;116;105;110;107;46;69;99;100;115;97;80;114;105;118;97;116;101;75;101;121], (0, (0, (signature_ecdsa_protoOutputPrefixTypeFromVariant, (signature_ecdsa_variantFromProto, signature_ecdsa_variantFromProto)))));
  (* signature_ecdsa verifierTypeURL = "type.googleapis.com/google.crypto.tink.EcdsaPublicKey" *)
  ([116;121;112;101;46;103;111;111;103;108;101;97;112;105;115;46;99;111;109;47;103;111;111;103;108;101;46;99;114;121;112;116;111;46;116;105;110;107;46;69;99;100;115;97;80;117;98;108;105;99;75;101;121], (0, (0, (signature_ecdsa_protoOutputPrefixTypeFromVariant, (signature_ecdsa_variantFromProto, signature_ecdsa_variantFromProto)))));
  (* signature_ed25519 signerTypeURL = "type.googleapis.com/google.crypto.tink.Ed25519PrivateKey" *)
  ([116;121;112;101;46;103;111;111;103;108;101;97;112;105;115;46;99;111;109;47;103;111;111;103;108;101;46;99;114;121;112;116;111;46;116;105;110;107;46;69;100;50;53;53;49;57;80;114;105;118;97;116;101;75;101;121], (0, (0, (signature_ed25519_protoOutputPrefixTypeFromVariant, (signature_ed25519_variantFromProto, signature_ed25519_variantFromProto)))));
  (* signature_ed25519 verifierTypeURL = "type.googleapis.com/google.crypto.tink.Ed25519PublicKey" *)
  ([116;121;112;101;46;103;111;111;103;108;101;97;112;105;115;46;99;111;109;47;103;111;111;103;108;101;46;99;114;121;112;116;111;46;116;105;110;107;46;69;100;50;53;53;49;57;80;117;98;108;105;99;75;101;121], (0, (0, (signature_ed25519_protoOutputPrefixTypeFromVariant, (signature_ed25519_variantFromProto, signature_ed25519_variantFromProto)))));
  (* signature_mldsa signerTypeURL = "type.googleapis.com/google.crypto.tink.MlDsaPrivateKey" *)
  ([116;121;112;101;46;103;111;111;103;108;101;97;112;105;115;46;99;111;109;47;103;111;111;103;108;101;46;99;114;121;112;116;111;46;116;105;110;107;46;77;108;68;115;97;80;114;105;118;97;116;101;75;101;121], (0, (0, (signature_mldsa_protoOutputPrefixTypeFromVariant, (signature_mldsa_variantFromProto, signature_mldsa_variantFromProto)))));
  (* signature_mldsa verifierTypeURL = "type.googleapis.com/google.crypto.tink.MlDsaPublicKey" *)
  ([116;121;112;101;46;103;111;111;103;108;101;97;112;105;115;46;99;111;109;47;103;111;111;103;108;101;46;99;114;121;112;116;111;46;116;105;110;107;46;77;108;68;115;97;80;117;98;108;105;99;75;101;121], (0, (0, (signature_mldsa_protoOutputPrefixTypeFromVariant, (signature_mldsa_variantFromProto, signature_mldsa_variantFromProto)))));
  (* signature_rsassapkcs1 signerTypeURL = "type.googleapis.com/google.crypto.tink.RsaSsaPkcs1PrivateKey" *)
  ([116;121;112;101;46;103;111;111;103;108;101;97;112;105;115;46;99;111;109;47;103;111;111;103;108;101;46;99;114;121;112;116;111;46;116;105;110;107;46;82;115;97;83;115;97;80;107;99;115;49;80;114;105;118;97;116;101;75;101;121], (0, (0, (signature_rsassapkcs1_protoOutputPrefixTypeFromVariant, (signature_rsassapkcs1_variantFromProto, signature_rsassapkcs1_variantFromProto)))));
  (* signature_rsassapkcs1 verifierTypeURL = "type.googleapis.com/google.crypto.tink.RsaSsaPkcs1PublicKey" *)
  ([116;121;112;101;46;103;111;111;103;108;101;97;112;105;115;46;99;111;109;47;103;111;111;103;108;101;46;99;114;121;112;116;111;46;116;105;110;107;46;82;115;97;83;115;97;80;107;99;115;49;80;117;98;108;105;99;75;101;121], (0, (0, (signature_rsassapkcs1_protoOutputPrefixTypeFromVariant, (signature_rsassapkcs1_variantFromProto, signature_rsassapkcs1_variantFromProto)))));
  (* signature_rsassapss signerTypeURL = "type.googleapis.com/google.crypto.tink.RsaSsaPssPrivateKey" *)
  ([116;121;112;101;46;103;111;111;103;108;101;97;112;105;115;46;99;111;109;47;103;111;111;103;108;101;46;99;114;121;112;116;111;46;116;105;110;107;46;82;115;97;83;115;97;80;115;115;80;114;105;118;97;116;101;75;101;121], (0, (0, (signature_rsassapss_protoOutputPrefixTypeFromVariant, (signature_rsassapss_variantFromProto, signature_rsassapss_variantFromProto)))));
  (* signature_rsassapss verifierTypeURL = "type.googleapis.com/google.crypto.tink.RsaSsaPssPublicKey" *)
  ([116;121;112;101;46;103;111;111;103;108;101;97;112;105;115;46;99;111;109;47;103;111;111;103;108;101;46;99;114;121;112;116;111;46;116;105;110;107;46;82;115;97;83;115;97;80;115;115;80;117;98;108;105;99;75;101;121], (0, (0, (signature_rsassapss_protoOutputPrefixTypeFromVariant, (signature_rsassapss_variantFromProto, signature_rsassapss_variantFromProto)))));
  (* signature_slhdsa signerTypeURL = "type.googleapis.com/google.crypto.tink.SlhDsaPrivateKey" *)
  ([116;121;112;101;46;103;111;111;103;108;101;97;112;105;115;46;99;111;109;47;103;111;111;103;108;101;46;99;114;121;112;116;111;46;116;105;110;107;46;83;108;104;68;115;97;80;114;105;118;97;116;101;75;101;121], (0, (0, (signature_slhdsa_protoOutputPrefixTypeFromVariant, (signature_slhdsa_variantFromProto, signature_slhdsa_variantFromProto)))));
  (* signature_slhdsa verifierTypeURL = "type.googleapis.com/google.crypto.tink.SlhDsaPublicKey" *)
  ([116;121;112;101;46;103;111;111;103;108;101;97;112;105;115;46;99;111;109;47;103;111;111;103;108;101;46;99;114;121;112;116;111;46;116;105;110;107;46;83;108;104;68;115;97;80;117;98;108;105;99;75;101;121], (0, (0, (signature_slhdsa_protoOutputPrefixTypeFromVariant, (signature_slhdsa_variantFromProto, signature_slhdsa_variantFromProto)))));
  (* streamingaead_aesctrhmac typeURL = "type.googleapis.com/google.crypto.tink.AesCtrHmacStreamingKey" *)
  ([116;121;112;101;46;103;111;111;103;108;101;97;112;105;115;46;99;111;109;47;103;111;111;103;108;101;46;99;114;121;112;116;111;46;116;105;110;107;46;65;101;115;67;116;114;72;109;97;99;83;116;114;101;97;109;105;110;103;75;101;121], (1, (0, (raw_only_to, (raw_only_from, raw_only_from)))));
  (* streamingaead_aesgcmhkdf typeURL = "type.googleapis.com/google.crypto.tink.AesGcmHkdfStreamingKey" *)
  ([116;121;112;101;46;103;111;111;103;108;101;97;112;105;115;46;99;111;109;47;103;111;111;103;108;101;46;99;114;121;112;116;111;46;116;105;110;107;46;65;101;115;71;99;109;72;107;100;102;83;116;114;101;97;109;105;110;103;75;101;121], (1, (0, (raw_only_to, (raw_only_from, raw_only_from)))))].

(* JWT: (CustomKID constant, KID strategy -> prefix, prefix -> strategy without / with a custom kid) *)
Definition jwt_custom_kid_maps : list (N * list (N * N) * list (N * N) * list (N * N)) := [
  (3, jwt_jwtecdsa_outputPrefixTypeFromKIDStrategy, jwt_jwtecdsa_kidStrategyFromOutputPrefixType_false, jwt_jwtecdsa_kidStrategyFromOutputPrefixType_true); 
  (3, jwt_jwthmac_outputPrefixTypeFromKIDStrategy, jwt_jwthmac_kidStrategyFromOutputPrefixType_false, jwt_jwthmac_kidStrategyFromOutputPrefixType_true); 
  (3, jwt_jwtmldsa_outputPrefixTypeFromKIDStrategy, jwt_jwtmldsa_kidStrategyFromOutputPrefixType_false, jwt_jwtmldsa_kidStrategyFromOutputPrefixType_true); 
  (3, jwt_jwtrsassapkcs1_outputPrefixTypeFromKIDStrategy, jwt_jwtrsassapkcs1_kidStrategyFromOutputPrefixType_false, jwt_jwtrsassapkcs1_kidStrategyFromOutputPrefixType_true); 
  (3, jwt_jwtrsassapss_outputPrefixTypeFromKIDStrategy, jwt_jwtrsassapss_kidStrategyFromOutputPrefixType_false, jwt_jwtrsassapss_kidStrategyFromOutputPrefixType_true)].

(* every table, by name order, for the generic lemmas *)
Definition all_tables : list (list (N * N)) := [
  aead_aesctrhmac_protoOutputPrefixTypeFromVariant; 
  aead_aesctrhmac_hashTypeToProto; 
  aead_aesctrhmac_variantFromProto; 
  aead_aesctrhmac_hashTypeFromProto; 
  aead_aesgcm_protoOutputPrefixTypeFromVariant; 
  aead_aesgcm_variantFromProto; 
  aead_aesgcmsiv_protoOutputPrefixTypeFromVariant; 
  aead_aesgcmsiv_variantFromProto; 
  aead_chacha20poly1305_protoOutputPrefixTypeFromVariant; 
  aead_chacha20poly1305_variantFromProto; 
  aead_xaesgcm_protoOutputPrefixTypeFromVariant; 
  aead_xaesgcm_variantFromProto; 
  aead_xchacha20poly1305_protoOutputPrefixTypeFromVariant; 
  aead_xchacha20poly1305_variantFromProto; 
  daead_aessiv_protoOutputPrefixTypeFromVariant; 
  daead_aessiv_variantFromProto; 
  hybrid_ecies_protoOutputPrefixTypeFromVariant; 
  hybrid_ecies_protoCurveFromCurveType; 
  hybrid_ecies_protoHashTypeFromHashType; 
  hybrid_ecies_protoEcPointFormatFromPointFormat; 
  hybrid_ecies_coordinateSizeForCurve; 
  hybrid_ecies_curveTypeFromProto; 
  hybrid_ecies_hashTypeFromProto; 
  hybrid_ecies_variantFromProto; 
  hybrid_ecies_pointFormatFromProtoPointFormat; 
  hybrid_hpke_serializeKEMID; 
  hybrid_hpke_serializeAEADID; 
  hybrid_hpke_serializedKDFID; 
  hybrid_hpke_protoOutputPrefixTypeFromVariant; 
  hybrid_hpke_parseKEMID; 
  hybrid_hpke_parseAEADID; 
  hybrid_hpke_parseKDFID; 
  hybrid_hpke_protoOutputPrefixTypeToVariant; 
  jwt_jwtecdsa_algorithmToProto; 
  jwt_jwtecdsa_algorithmFromProto; 
  jwt_jwtecdsa_outputPrefixTypeFromKIDStrategy; 
  jwt_jwtecdsa_kidStrategyFromOutputPrefixType_true; 
  jwt_jwtecdsa_kidStrategyFromOutputPrefixType_false; 
  jwt_jwtecdsa_coordinateSizeFromAlgorithm; 
  jwt_jwthmac_algorithmToProto; 
  jwt_jwthmac_algorithmFromProto; 
  jwt_jwthmac_outputPrefixTypeFromKIDStrategy; 
  jwt_jwthmac_kidStrategyFromOutputPrefixType_true; 
  jwt_jwthmac_kidStrategyFromOutputPrefixType_false; 
  jwt_jwtmldsa_algorithmToProto; 
  jwt_jwtmldsa_algorithmFromProto; 
  jwt_jwtmldsa_outputPrefixTypeFromKIDStrategy; 
  jwt_jwtmldsa_kidStrategyFromOutputPrefixType_true; 
  jwt_jwtmldsa_kidStrategyFromOutputPrefixType_false; 
  jwt_jwtrsassapkcs1_algorithmToProto; 
  jwt_jwtrsassapkcs1_algorithmFromProto; 
  jwt_jwtrsassapkcs1_outputPrefixTypeFromKIDStrategy; 
  jwt_jwtrsassapkcs1_kidStrategyFromOutputPrefixType_true; 
  jwt_jwtrsassapkcs1_kidStrategyFromOutputPrefixType_false; 
  jwt_jwtrsassapss_algorithmToProto; 
  jwt_jwtrsassapss_algorithmFromProto; 
  jwt_jwtrsassapss_outputPrefixTypeFromKIDStrategy; 
  jwt_jwtrsassapss_kidStrategyFromOutputPrefixType_true; 
  jwt_jwtrsassapss_kidStrategyFromOutputPrefixType_false; 
  mac_aescmac_protoOutputPrefixTypeFromVariant; 
  mac_aescmac_variantFromProto; 
  mac_hmac_protoOutputPrefixTypeFromVariant; 
  mac_hmac_protoHashTypeFromHashType; 
  mac_hmac_variantFromProto; 
  mac_hmac_hashTypeFromProto; 
  prf_hkdfprf_toProtoHashType; 
  prf_hkdfprf_fromProtoHashType; 
  prf_hmacprf_toProtoHashType; 
  prf_hmacprf_fromProtoHashType; 
  signature_compositemldsa_protoOutputPrefixTypeFromVariant; 
  signature_compositemldsa_protoMlDsaInstanceFromInstance; 
  signature_compositemldsa_protoCompositeMlDsaClassicalAlgorithmFromCompositeMlDsaClassicalAlgorithm; 
  signature_compositemldsa_variantFromProto; 
  signature_compositemldsa_instanceFromProto; 
  signature_compositemldsa_classicalAlgorithmFromProto; 
  signature_ecdsa_protoOutputPrefixTypeFromVariant; 
  signature_ecdsa_protoCurveFromCurveType; 
  signature_ecdsa_protoHashTypeFromHashType; 
  signature_ecdsa_protoEcdsaSignatureEncodingFromSignatureEncoding; 
  signature_ecdsa_variantFromProto; 
  signature_ecdsa_curveTypeFromProto; 
  signature_ecdsa_hashTypeFromProto; 
  signature_ecdsa_signatureEncodingFromProto; 
  signature_ecdsa_coordinateSizeForCurve; 
  signature_ed25519_protoOutputPrefixTypeFromVariant; 
  signature_ed25519_variantFromProto; 
  signature_mldsa_protoOutputPrefixTypeFromVariant; 
  signature_mldsa_protoMlDsaInstanceFromInstance; 
  signature_mldsa_variantFromProto; 
  signature_mldsa_instanceFromProto; 
  signature_rsassapkcs1_protoOutputPrefixTypeFromVariant; 
  signature_rsassapkcs1_protoHashValueFromHashType; 
  signature_rsassapkcs1_variantFromProto; 
  signature_rsassapkcs1_hashTypeFromProto; 
  signature_rsassapss_protoOutputPrefixTypeFromVariant; 
  signature_rsassapss_protoHashValueFromHashType; 
  signature_rsassapss_variantFromProto; 
  signature_rsassapss_hashTypeFromProto; 
  signature_slhdsa_protoOutputPrefixTypeFromVariant; 
  signature_slhdsa_protoSlhDsaHashTypeFromHashType; 
  signature_slhdsa_protoSlhDsaSignatureTypeFromSignatureType; 
  signature_slhdsa_variantFromProto; 
  signature_slhdsa_hashTypeFromProto; 
  signature_slhdsa_signatureTypeFromProto; 
  streamingaead_aesctrhmac_hashTypeToProto; 
  streamingaead_aesctrhmac_hashTypeFromProto; 
  streamingaead_aesgcmhkdf_hashTypeToProto; 
  streamingaead_aesgcmhkdf_hashTypeFromProto].
