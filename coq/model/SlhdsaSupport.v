(* Executable model of internal/signature/slhdsa/support.go (toInt, toByte,
   base2b), written after the Go loops with the Go integer widths
   (uint64 / uint32 wrap-around made explicit).  No proofs here:
   proofs/SlhdsaSupportProofs.v. *)
From Coq Require Import List NArith Bool Arith.
From Tink Require Import Bytes.
Import ListNotations.
Open Scope N_scope.

Definition u32 (x : N) : N := x mod 4294967296.
Definition u64 (x : N) : N := x mod 18446744073709551616.

(* toInt: total = 256*total + x[i] in uint64, i < n.  (Go panics when
   len x < n or n > 8; every caller passes n <= 8 bytes of exactly n bytes;
   a missing byte reads as 0 here.) *)
Fixpoint toInt_loop (x : bytes) (n : nat) (total : N) : N :=
  match n with
  | O => total
  | S n' => match x with
            | [] => toInt_loop [] n' (u64 (256 * total))
            | b :: x' => toInt_loop x' n' (u64 (256 * total + b))
            end
  end.
Definition toInt (x : bytes) (n : nat) : N := toInt_loop x n 0.

(* toByte(x uint32, n): s[n-1-i] = byte(total); total >>= 8 — the
   little-endian loop le_bytes of Bytes.v, reversed. *)
Definition toByte (x : N) (n : nat) : bytes := be_bytes n (u32 x).

(* base2b: the inner loop "for bits < b { total = total<<8 + x[in]; in++;
   bits += 8 }" (total is uint32 and is never reduced: it wraps), fuel = b+1
   iterations are always enough since each adds 8 bits. *)
Fixpoint b2b_fill (fuel : nat) (x : bytes) (b bits : nat) (total : N) : bytes * nat * N :=
  match fuel with
  | O => (x, bits, total)
  | S f => if Nat.ltb bits b then
             match x with
             | [] => b2b_fill f [] b (bits + 8) (u32 (total * 256))
             | c :: x' => b2b_fill f x' b (bits + 8) (u32 (total * 256 + c))
             end
           else (x, bits, total)
  end.

(* outer loop: bits -= b; baseb[out] = (total >> bits) & ((1<<b)-1) *)
Fixpoint base2b_loop (out : nat) (x : bytes) (b bits : nat) (total : N) : list N :=
  match out with
  | O => []
  | S o => let '(x', bits', total') := b2b_fill (S b) x b bits total in
           let bits'' := (bits' - b)%nat in
           N.land (N.shiftr total' (N.of_nat bits'')) (N.ones (N.of_nat b))
             :: base2b_loop o x' b bits'' total'
  end.
Definition base2b (x : bytes) (b outLen : nat) : list N := base2b_loop outLen x b 0 0.
