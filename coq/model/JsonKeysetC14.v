(* C14 - the JSON readers of untrusted keysets:

     insecurecleartextkeyset.Read(keyset.NewJSONReader(r))          xread_json
     keyset.ReadWithNoSecrets(keyset.NewJSONReader(r))              xread_json_no_secrets
     keyset.ReadWithAssociatedData(keyset.NewJSONReader(r), kek, ad) xread_json_encrypted

   = the text reader of model/JsonKeyset.v (protojson on tinkpb.Keyset /
   tinkpb.EncryptedKeyset) followed by the readers over proto keysets of
   model/UntrustedParams.v.  The encrypted reader decrypts the
   encrypted_keyset bytes and decodes the plaintext as a BINARY keyset
   (keyset/handle.go decrypt); keyset_info is parsed and not looked at.
   No proofs here: proofs/JsonKeysetC14Proofs.v. *)
From Coq Require Import List NArith Bool.
From Tink Require Import Bytes Untrusted UntrustedParams JsonKeyset.
Import ListNotations.
Open Scope N_scope.

(* the message protojson yields, as the message type of model/Untrusted.v (a
   JSON array has no nil elements; key data is nil when absent or null) *)
Definition keydata_of_j (d : jkeydata) : keydata := mkKD (jd_url d) (jd_value d) (jd_mat d).
Definition key_of_j (k : jkey) : pkey :=
  mkPK (option_map keydata_of_j (jk_data k)) (jk_status k) (jk_id k) (jk_prefix k).
Definition keyset_of_j (ks : jkeyset) : keyset :=
  mkKS (jks_primary ks) (map (fun k => Some (key_of_j k)) (jks_keys ks)).

(* keyset.NewJSONReader(r).Read() *)
Definition json_keyset (s : bytes) : option keyset := option_map keyset_of_j (keyset_of_json_text s).

Section Readers.
  Variable L : stdlib.

  Definition xread_json (s : bytes) : outcome xhandle := xread_proto L (json_keyset s).
  Definition xread_json_no_secrets (s : bytes) : outcome xhandle := xhandle_no_secrets L (json_keyset s).
  Definition xread_json_encrypted (kek_dec : bytes -> bytes -> option bytes) (s ad : bytes) : outcome xhandle :=
    match encrypted_of_json_text s with
    | None => Err
    | Some e =>
        match kek_dec (je_ct e) ad with
        | None => Err
        | Some pt =>
            match decode_keyset pt with
            | None => Err
            | Some ks => xhandle_from_proto L (Some ks)
            end
        end
    end.
End Readers.
