(* Executable model of internal/mac/aescmac/aescmac.go, written after the Go
   control flow (impl) and, separately, RFC 4493 (spec).  The AES block
   encryption under the key is the Section variable E (stdlib oracle).
   No proofs here: proofs/CmacProofs.v. *)
From Coq Require Import List NArith Bool Arith.
From Tink Require Import Bytes.
Import ListNotations.
Open Scope N_scope.

Definition BlockSize : nat := 16.

(* mulByX as coded: v = block[0]>>7; block[i] = block[i]<<1 | block[i+1]>>7
   (on bytes: <<1 wraps mod 256); last byte = (b<<1) ^ select(v, 0x87, 0) *)
Fixpoint shl1_bytes (l : bytes) : bytes :=
  match l with
  | [] => []
  | [x] => [(N.shiftl x 1) mod 256]
  | x :: ((y :: _) as t) => N.lor ((N.shiftl x 1) mod 256) (N.shiftr y 7) :: shl1_bytes t
  end.

Definition xor_last (l : bytes) (m : N) : bytes :=
  match rev l with
  | [] => []
  | z :: r => rev (N.lxor z m :: r)
  end.

Definition mulByX (block : bytes) : bytes :=
  let v := N.shiftr (hd 0 block) 7 in
  xor_last (shl1_bytes block) (if N.eqb v 1 then 135 else 0).

Section CMAC.
  Variable E : bytes -> bytes.       (* AES block encryption under the key *)

  (* New: subkeys *)
  Definition k1 : bytes := mulByX (E (zeros BlockSize)).
  Definition k2 : bytes := mulByX k1.

  (* the loop over all blocks but the last: output ^= data[:16]; E; data = data[16:] *)
  Fixpoint cbc_loop (n : nat) (output data : bytes) : bytes * bytes :=
    match n with
    | O => (output, data)
    | S n' => cbc_loop n' (E (xorb (firstn BlockSize data) output)) (skipn BlockSize data)
    end.

  Definition pad_block (data : bytes) : bytes :=
    (* copy(lastBlock, data); lastBlock[len(data)] = 0x80 *)
    data ++ [128] ++ zeros (BlockSize - length data - 1).

  (* CMAC.Compute as coded *)
  Definition cmac_impl (data : bytes) : bytes :=
    let len := length data in
    let nb := (len / BlockSize)%nat in
    let nb := if (Nat.ltb 0 len && Nat.eqb (len mod BlockSize) 0)%bool then (nb - 1)%nat else nb in
    let '(output, rest) := cbc_loop nb (zeros BlockSize) data in
    let lastBlock :=
      if Nat.eqb (length rest) BlockSize then xorb rest k1
      else xorb (pad_block rest) k2 in
    E (xorb output lastBlock).

  (* XOREndAndCompute as coded (preconditions: |last| = 16, |data| >= 16,
     otherwise the Go code returns an error: None) *)
  Fixpoint xorend_loop (n i : nat) (startPos : nat) (output data last : bytes) : bytes * bytes * bytes :=
    match n with
    | O => (output, data, last)
    | S n' =>
        let output := xorb (firstn BlockSize data) output in
        let '(output, last) :=
          if Nat.ltb startPos ((i + 1) * BlockSize) then
            let portion := ((i + 1) * BlockSize - startPos)%nat in
            (firstn (BlockSize - portion) output
               ++ xorb (skipn (BlockSize - portion) output) (firstn portion last),
             skipn portion last)
          else (output, last) in
        xorend_loop n' (S i) startPos (E output) (skipn BlockSize data) last
    end.

  Definition xorend_impl (data last : bytes) : option bytes :=
    if negb (Nat.eqb (length last) BlockSize) then None
    else if Nat.ltb (length data) BlockSize then None
    else
      let len := length data in
      let nb := (len / BlockSize)%nat in
      let nb := if Nat.eqb (len mod BlockSize) 0 then (nb - 1)%nat else nb in
      let startPos := (len - BlockSize)%nat in
      let '(output, rest, last') := xorend_loop nb 0 startPos (zeros BlockSize) data last in
      (* XORBytes(lastBlock, data, last): min length; lastBlock is 16 zero bytes *)
      let lb0 := xorb rest last' in
      let lastBlock :=
        if Nat.eqb (length rest) BlockSize then xorb lb0 k1
        else
          (* lastBlock = lb0 padded with zeros to 16, then [len(data)] = 0x80 *)
          xorb (firstn (length rest) (lb0 ++ zeros BlockSize) ++ [128]
                  ++ zeros (BlockSize - length rest - 1)) k2 in
      Some (E (xorb output lastBlock)).

  (* ---- RFC 4493 spec ---- *)
  (* Section 2.3 subkeys over the 128-bit value; Section 2.4 MAC generation *)
  Definition dbl (b : bytes) : bytes :=
    let x := be_val b in
    let y := (2 * x) mod (2 ^ 128) in
    be_bytes 16 (if N.testbit x 127 then N.lxor y 135 else y).

  Definition K1_spec : bytes := dbl (E (zeros 16)).
  Definition K2_spec : bytes := dbl K1_spec.

  Definition pad_spec (m : bytes) : bytes := m ++ [128] ++ zeros (15 - length m).

  Definition cmac_spec (m : bytes) : bytes :=
    match rev (chunks 16 m) with
    | [] => E (xorb (xorb (pad_spec []) K2_spec) (zeros 16))
    | last :: init_rev =>
        let x := fold_left (fun x blk => E (xorb x blk)) (rev init_rev) (zeros 16) in
        let mlast := if Nat.eqb (length last) 16 then xorb last K1_spec
                     else xorb (pad_spec last) K2_spec in
        E (xorb mlast x)
    end.

  (* xorend of RFC 5297: data with its last 16 bytes XORed with `last` *)
  Definition xorend (data last : bytes) : bytes :=
    firstn (length data - 16) data ++ xorb (skipn (length data - 16) data) last.
End CMAC.
