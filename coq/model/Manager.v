(* Executable model of keyset/manager.go (Manager) and of the part of
   keyset/handle.go that Manager.Handle relies on (newFromEntries).
   No proofs here: proofs/ManagerProofs.v.

   Go                                       model
   km.entries  []*entry                     ents : list entry   (same order)
   km.unavailableKeyIDs map[uint32]bool     unavail : list N    (a set)
   random.GetRandomUint32()                 next element of the id tape
   *Handle (immutable snapshot)             handle = list entry (a value)     *)
From Coq Require Import List NArith Bool.
Import ListNotations.
Open Scope N_scope.

Inductive status := Enabled | Disabled | Destroyed | UnknownStatus.

Definition status_eqb (a b : status) : bool :=
  match a, b with
  | Enabled, Enabled | Disabled, Disabled | Destroyed, Destroyed
  | UnknownStatus, UnknownStatus => true
  | _, _ => false
  end.

(* ereq = the key object's ID requirement (None for RAW keys); ekey is an
   opaque token standing for the key object. *)
Record entry := mkEntry { eid : N; est : status; eprim : bool; ereq : option N; ekey : N }.

Definition handle := list entry.

Record mgr := mkMgr { ents : list entry; unavail : list N }.

Definition mem (x : N) (l : list N) : bool := existsb (N.eqb x) l.

(* newRandomKeyID: draw from the tape until an id not in unavail appears.
   Structural recursion on the tape; None = tape exhausted (the Go loop would
   keep drawing). Returns id, new unavail, remaining tape, draws consumed. *)
Fixpoint new_random_id (u : list N) (tape : list N) (drawn : nat)
  : option (N * list N * list N * nat) :=
  match tape with
  | [] => None
  | x :: t => if mem x u then new_random_id u t (S drawn)
              else Some (x, x :: u, t, S drawn)
  end.

Definition new_manager : mgr := mkMgr [] [].

(* NewManagerFromHandle: entries copied (hasFixedID = key has a requirement),
   unavail = ids of the handle. *)
Definition from_handle (h : handle) : mgr :=
  mkMgr h (map eid h).

Inductive template := TmplTink | TmplRaw | TmplNil | TmplUnknownPrefix | TmplUnregistered.

(* options of the internal API Manager.AddKeyWithOpts, applied in argument order *)
Inductive kopt := KStatus (s : status) | KFixedID (id : N) | KPrimary.

Inductive op :=
| OAdd (t : template)                 (* Manager.Add *)
| OAddParams (raw : bool)             (* Manager.AddNewKeyFromParameters *)
| OAddKey (req : option N) (k : N)    (* Manager.AddKey *)
| OAddOpts (req : option N) (k : N) (opts : list kopt)   (* Manager.AddKeyWithOpts (internal API) *)
| OSetPrimary (id : N) | OEnable (id : N) | ODisable (id : N) | ODelete (id : N)
| OHandle                              (* Manager.Handle *)
| OFromHandle (k : nat).               (* NewManagerFromHandle (k-th handle obtained) *)

Inductive result :=
| RId (id : N) | ROk | RErr | RHandle (h : handle) | RSkip | ROutOfTape.

Fixpoint find_entry (l : list entry) (id : N) : option entry :=
  match l with
  | [] => None
  | e :: t => if N.eqb (eid e) id then Some e else find_entry t id
  end.

Definition set_status (id : N) (s : status) (l : list entry) : list entry :=
  (* findEntry returns the FIRST entry with that id; only that one is updated *)
  (fix go (l : list entry) : list entry :=
     match l with
     | [] => []
     | e :: t => if N.eqb (eid e) id
                 then mkEntry (eid e) s (eprim e) (ereq e) (ekey e) :: t
                 else e :: go t
     end) l.

(* SetPrimary: the found entry becomes primary, every entry with a different
   id is cleared (entries with the same id are skipped by the Go loop). *)
Definition set_primary (id : N) (l : list entry) : list entry :=
  let l1 :=
    (fix go (l : list entry) : list entry :=
       match l with
       | [] => []
       | e :: t => if N.eqb (eid e) id
                   then mkEntry (eid e) (est e) true (ereq e) (ekey e) :: t
                   else e :: go t
       end) l in
  map (fun e => if N.eqb (eid e) id then e
                else mkEntry (eid e) (est e) false (ereq e) (ekey e)) l1.

Fixpoint delete_first (id : N) (l : list entry) : list entry :=
  match l with
  | [] => []
  | e :: t => if N.eqb (eid e) id then t else e :: delete_first id t
  end.

(* newFromEntries: error if any status Unknown or no primary. *)
Definition make_handle (l : list entry) : option handle :=
  if existsb (fun e => status_eqb (est e) UnknownStatus) l then None
  else if existsb eprim l then Some l else None.

(* the entry under construction in AddKeyWithOpts *)
Record pend := mkPend { p_fixed : N; p_has : bool; p_st : status; p_prim : bool }.

Fixpoint apply_opts (req : option N) (p : pend) (opts : list kopt) : option pend :=
  match opts with
  | [] => Some p
  | KStatus s :: t => apply_opts req (mkPend (p_fixed p) (p_has p) s (p_prim p)) t
  | KFixedID id :: t =>
      (* WithFixedID: error when the key requires another id *)
      match req with
      | Some r => if N.eqb r id then apply_opts req (mkPend id true (p_st p) (p_prim p)) t else None
      | None => apply_opts req (mkPend id true (p_st p) (p_prim p)) t
      end
  | KPrimary :: t => apply_opts req (mkPend (p_fixed p) (p_has p) (p_st p) true) t
  end.

Definition clear_primary (l : list entry) : list entry :=
  map (fun e => mkEntry (eid e) (est e) false (ereq e) (ekey e)) l.

Record state := mkState { smgr : mgr; stape : list N; shandles : list handle; sdraws : nat }.

Definition add_fresh (s : state) (req_is_id : bool) (creation_ok : bool) (k : N) : state * result :=
  match new_random_id (unavail (smgr s)) (stape s) 0 with
  | None => (s, ROutOfTape)
  | Some (id, u', t', d) =>
      let m := smgr s in
      if creation_ok then
        (mkState (mkMgr (ents m ++ [mkEntry id Enabled false (if req_is_id then Some id else None) k]) u')
                 t' (shandles s) (sdraws s + d), RId id)
      else
        (* the id is consumed (unavailable from now on) although Add fails *)
        (mkState (mkMgr (ents m) u') t' (shandles s) (sdraws s + d), RErr)
  end.

Definition step (s : state) (o : op) : state * result :=
  let m := smgr s in
  match o with
  | OAdd TmplNil | OAdd TmplUnknownPrefix => (s, RErr)
  | OAdd TmplTink => add_fresh s true true 0
  | OAdd TmplRaw => add_fresh s false true 0
  | OAdd TmplUnregistered => add_fresh s true false 0
  | OAddParams raw => add_fresh s (negb raw) true 0
  | OAddKey None k => add_fresh s false true k
  | OAddKey (Some id) k =>
      if mem id (unavail m) then (s, RErr)
      else (mkState (mkMgr (ents m ++ [mkEntry id Enabled false (Some id) k]) (id :: unavail m))
                    (stape s) (shandles s) (sdraws s), RId id)
  | OAddOpts req k opts =>
      let p0 := mkPend (match req with Some r => r | None => 0 end)
                       (match req with Some _ => true | None => false end) Enabled false in
      match apply_opts req p0 opts with
      | None => (s, RErr)
      | Some p =>
          if status_eqb (p_st p) UnknownStatus then (s, RErr)
          else if p_prim p && negb (status_eqb (p_st p) Enabled) then (s, RErr)
          else
            let place (id : N) (u' : list N) (t' : list N) (d : nat) :=
              let old := if p_prim p then clear_primary (ents m) else ents m in
              (mkState (mkMgr (old ++ [mkEntry id (p_st p) (p_prim p) req k]) u')
                       t' (shandles s) (sdraws s + d), RId id) in
            if p_has p then
              if mem (p_fixed p) (unavail m) then (s, RErr)
              else place (p_fixed p) (p_fixed p :: unavail m) (stape s) 0%nat
            else
              match new_random_id (unavail m) (stape s) 0 with
              | None => (s, ROutOfTape)
              | Some (id, u', t', d) => place id u' t' d
              end
      end
  | OSetPrimary id =>
      match find_entry (ents m) id with
      | None => (s, RErr)
      | Some e => if status_eqb (est e) Enabled
                  then (mkState (mkMgr (set_primary id (ents m)) (unavail m)) (stape s) (shandles s) (sdraws s), ROk)
                  else (s, RErr)
      end
  | OEnable id =>
      match find_entry (ents m) id with
      | None => (s, RErr)
      | Some e => if status_eqb (est e) Disabled || status_eqb (est e) Enabled
                  then (mkState (mkMgr (set_status id Enabled (ents m)) (unavail m)) (stape s) (shandles s) (sdraws s), ROk)
                  else (s, RErr)
      end
  | ODisable id =>
      match find_entry (ents m) id with
      | None => (s, RErr)
      | Some e => if eprim e then (s, RErr)
                  else if status_eqb (est e) Enabled || status_eqb (est e) Disabled
                  then (mkState (mkMgr (set_status id Disabled (ents m)) (unavail m)) (stape s) (shandles s) (sdraws s), ROk)
                  else (s, RErr)
      end
  | ODelete id =>
      match find_entry (ents m) id with
      | None => (s, RErr)
      | Some e => if eprim e then (s, RErr)
                  else (mkState (mkMgr (delete_first id (ents m)) (unavail m)) (stape s) (shandles s) (sdraws s), ROk)
      end
  | OHandle =>
      match make_handle (ents m) with
      | None => (s, RErr)
      | Some h => (mkState m (stape s) (shandles s ++ [h]) (sdraws s), RHandle h)
      end
  | OFromHandle k =>
      match nth_error (shandles s) k with
      | None => (s, RSkip)
      | Some h => (mkState (from_handle h) (stape s) (shandles s) (sdraws s), ROk)
      end
  end.

Fixpoint run (s : state) (ops : list op) : state * list result :=
  match ops with
  | [] => (s, [])
  | o :: t => let '(s1, r) := step s o in
              let '(s2, rs) := run s1 t in (s2, r :: rs)
  end.

Definition init_state (h : option handle) (tape : list N) : state :=
  match h with
  | None => mkState new_manager tape [] 0
  | Some h => mkState (from_handle h) tape [h] 0
  end.
