(* Executable model of daead/subtle/aes_siv.go (AES-SIV-CMAC as coded) and of
   the full primitive daead/aessiv/daead.go (output prefix), written after the
   Go control flow; separately, RFC 5297 (S2V over a vector of strings, SIV
   encryption with the CTR mask Q = V and 1^64 0 1^31 0 1^31).
   The AES block encryption is the Section variable AES : key -> block ->
   block (stdlib oracle aes_enc); CMAC is the shared model Cmac.v.
   Every Go index / slice expression whose range is not established by a
   preceding length check is a checked one (outcome Panic).
   No proofs here: proofs/SivProofs.v. *)
From Coq Require Import List NArith Bool Arith.
From Tink Require Import Bytes Cmac.
Import ListNotations.
Open Scope N_scope.

Definition AESSIVKeySize : nat := 64.

(* crypto/subtle.XORBytes(dst, dst, y) with dst = x: the first min(|x|,|y|)
   bytes are replaced, the rest of dst is kept *)
Definition xor_into (dst y : bytes) : bytes :=
  xorb dst y ++ skipn (length y) dst.

(* b[i] op= m  (checked index) *)
Definition upd_at (i : nat) (f : N -> N) (b : bytes) : outcome bytes :=
  match nth_error b i with
  | Some x => Ok (firstn i b ++ f x :: skipn (S i) b)
  | None => Panic
  end.

(* ---- CTR as crypto/cipher.NewCTR: 128-bit big-endian counter block ---- *)
Section CTR.
  Variable E : bytes -> bytes.
  Fixpoint ctr_stream (nblocks : nat) (ctr : N) : bytes :=
    match nblocks with
    | O => []
    | S n => E (be_bytes 16 ctr) ++ ctr_stream n ((ctr + 1) mod 2 ^ 128)
    end.
  (* XORKeyStream(out, in) *)
  Definition ctr_xor (iv data : bytes) : bytes :=
    xorb data (ctr_stream (length data / 16 + 1) (be_val iv)).
End CTR.

Section SIV.
  Variable AES : bytes -> bytes -> bytes.   (* AES k blk, k of 16/24/32 bytes *)

  (* ctrCrypt: iv := clone(siv); iv[8] &= 0x7f; iv[12] &= 0x7f; CTR under k2 *)
  Definition clear_bits (siv : bytes) : outcome bytes :=
    bind (upd_at 8 (fun x => N.land x 127) siv) (fun iv =>
    upd_at 12 (fun x => N.land x 127) iv).

  Definition ctr_crypt (k2 siv inp : bytes) : outcome bytes :=
    bind (clear_bits siv) (fun iv => Ok (ctr_xor (AES k2) iv inp)).

  (* s2v as coded (one associated-data component) *)
  Definition s2v_impl (k1 msg ad : bytes) : outcome bytes :=
    let E := AES k1 in
    let block := mulByX (cmac_impl E (zeros 16)) in
    let adMac := cmac_impl E ad in
    let block := xor_into block adMac in
    if Nat.leb 16 (length msg) then
      match xorend_impl E msg block with
      | Some res => Ok res
      | None => Panic                      (* panic(err) *)
      end
    else
      let block := mulByX block in
      let block := xor_into block msg in
      bind (upd_at (length msg) (fun x => N.lxor x 128) block) (fun block =>
      Ok (cmac_impl E block)).

  (* NewAESSIV: key size check, k1 = key[:32], k2 = key[32:] *)
  Definition split_key (key : bytes) : outcome (bytes * bytes) :=
    if Nat.eqb (length key) AESSIVKeySize then Ok (firstn 32 key, skipn 32 key) else Err.

  (* EncryptDeterministically (the length guard against MaxInt cannot fire) *)
  Definition siv_encrypt (key pt ad : bytes) : outcome bytes :=
    bind (split_key key) (fun '(k1, k2) =>
    bind (s2v_impl k1 pt ad) (fun siv =>
    bind (ctr_crypt k2 siv pt) (fun body =>
    (* ct = make(len(pt)+16); copy(ct[:16], siv); body written to ct[16:] *)
    Ok (firstn 16 (siv ++ zeros 16) ++ body)))).

  (* diff |= siv[i] ^ s2v[i] for i < 16 (checked indices) *)
  Fixpoint ct_diff (n : nat) (a b : bytes) (acc : N) : outcome N :=
    match n with
    | O => Ok acc
    | S n' =>
        match a, b with
        | x :: a', y :: b' => ct_diff n' a' b' (N.lor acc (N.lxor x y))
        | _, _ => Panic
        end
    end.

  (* DecryptDeterministically *)
  Definition siv_decrypt (key ct ad : bytes) : outcome bytes :=
    bind (split_key key) (fun '(k1, k2) =>
    if Nat.ltb (length ct) 16 then Err else
    bind (slice 0 16 ct) (fun siv =>
    bind (slice 16 (length ct) ct) (fun body =>
    bind (ctr_crypt k2 siv body) (fun pt =>
    bind (s2v_impl k1 pt ad) (fun s2v =>
    bind (ct_diff 16 siv s2v 0) (fun diff =>
    if N.eqb diff 0 then Ok pt else Err)))))).

  (* ---- full primitive: daead/aessiv (key.go calculateOutputPrefix, daead.go) ---- *)
  Inductive variant := VTink | VCrunchy | VNoPrefix.
  Definition output_prefix (v : variant) (id : N) : bytes :=
    match v with
    | VTink => 1 :: be_bytes 4 id
    | VCrunchy => 0 :: be_bytes 4 id
    | VNoPrefix => []
    end.

  Definition daead_encrypt (v : variant) (id : N) (key pt ad : bytes) : outcome bytes :=
    bind (siv_encrypt key pt ad) (fun ct => Ok (output_prefix v id ++ ct)).

  Definition daead_decrypt (v : variant) (id : N) (key ct ad : bytes) : outcome bytes :=
    let pre := output_prefix v id in
    (* NewDeterministicAEAD fails first on a wrong key size *)
    bind (split_key key) (fun _ =>
    if Nat.ltb (length ct) (length pre) then Err else
    bind (slice 0 (length pre) ct) (fun p =>
    if negb (beq pre p) then Err else
    bind (slice (length pre) (length ct) ct) (fun rest =>
    siv_decrypt key rest ad))).

  (* ================= RFC 5297 ================= *)
  (* Section 2.4: S2V(K, S1, ..., Sn) over a MAC function (CMAC), dbl, xorend, pad *)
  Section RFC.
    Variable mac : bytes -> bytes.
    Definition pad16 (x : bytes) : bytes := x ++ [128] ++ zeros (15 - length x).
    Definition s2v_rfc5297 (ss : list bytes) (sn : bytes) : bytes :=
      let D := fold_left (fun D s => xorb (dbl D) (mac s)) ss (mac (zeros 16)) in
      let T := if Nat.leb 16 (length sn) then xorend sn D else xorb (dbl D) (pad16 sn) in
      mac T.
    (* Section 2.6: V = S2V(K1, AD..., P); Q = V bitand (1^64 0 1^31 0 1^31);
       C = P xor leftmost(|P|, E(K2,Q) E(K2,Q+1) ...); Z = V || C *)
    Definition q_mask : bytes :=
      [255;255;255;255;255;255;255;255;127;255;255;255;127;255;255;255].
    Fixpoint andb_bytes (a b : bytes) : bytes :=
      match a, b with
      | x :: a', y :: b' => N.land x y :: andb_bytes a' b'
      | _, _ => []
      end.
    Variable E2 : bytes -> bytes.
    Definition ctr_rfc (Q P : bytes) : bytes :=
      let m := ((length P + 15) / 16)%nat in
      let X := concat (map (fun i => E2 (be_bytes 16 ((be_val Q + N.of_nat i) mod 2 ^ 128))) (seq 0 m)) in
      xorb P (firstn (length P) X).
    Definition siv_encrypt_rfc5297 (ads : list bytes) (P : bytes) : bytes :=
      let V := s2v_rfc5297 ads P in
      let Q := andb_bytes V q_mask in
      V ++ ctr_rfc Q P.
  End RFC.
End SIV.
