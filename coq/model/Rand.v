(* C20 — randomness tape semantics.

   Every randomized operation of tink-go obtains its random bytes from
   crypto/rand.Reader through internal/random.MustRand, subtle/random
   (GetRandomBytes, GetRandomUint32), secretdata.NewBytesFromRand or
   crypto/rand.Read.  The model replaces the reader by a *tape* (a byte
   string): one rand.Read(p) is a read request of len(p) bytes, served by
   the next len(p) bytes of the tape.  A call of a randomized operation is
   (1) the list of read requests it issues, in order, and (2) the function
   field_of_call that places the windows it was served into its output.

   Go                                             model
   random.MustRand(b) / rand.Read(b)              read (length b)
   random.GetRandomBytes(n)                       read n
   secretdata.NewBytesFromRand(n)                 read n
   random.GetRandomUint32()                       read 4, big endian value
   Manager.newRandomKeyID (loop until unused)     draw_id
   dst[len(prefix):] filled in place              overwrite

   No proofs here: proofs/RandProofs.v. *)
From Coq Require Import List NArith Bool Arith.
From Tink Require Import Bytes Manager.
Import ListNotations.
Open Scope N_scope.

(* one rand.Read of n bytes; None = the tape is exhausted (the harness then
   reports TAPE-EXHAUSTED; the real reader never runs dry) *)
Definition read (n : nat) (t : bytes) : option (bytes * bytes) :=
  if Nat.leb n (length t) then Some (firstn n t, skipn n t) else None.

(* Manager.newRandomKeyID over the byte tape: GetRandomUint32 reads 4 bytes
   and takes their big-endian value; ids already in unavail are redrawn.
   Returns (accepted 4-byte window, all windows read in order, new unavail,
   rest of the tape).  The fuel only makes the recursion structural: every
   iteration consumes 4 bytes, so fuel = S (length tape) is never the reason
   for None. *)
Fixpoint draw_id_fuel (fuel : nat) (u : list N) (t : bytes)
  : option (bytes * list bytes * list N * bytes) :=
  match fuel with
  | O => None
  | S f =>
      match read 4 t with
      | None => None
      | Some (w, t1) =>
          if mem (be_val w) u then
            match draw_id_fuel f u t1 with
            | None => None
            | Some (w', tr, u', t2) => Some (w', w :: tr, u', t2)
            end
          else Some (w, [w], be_val w :: u, t1)
      end
  end.
Definition draw_id (u : list N) (t : bytes) := draw_id_fuel (S (length t)) u t.

(* the id tape of model/Manager.v seen through the byte tape: the
   big-endian values of its consecutive 4-byte words *)
Fixpoint id_words (t : bytes) : list N :=
  match t with
  | a :: b :: c :: d :: r => be_val [a; b; c; d] :: id_words r
  | _ => []
  end.

(* ---- what the randomized operations request ---------------------------- *)

Inductive req := QBytes (n : nat) | QId.

(* AEAD schemes (Encrypt of the full primitives):
   aead/aesgcm/aead.go, aead/aesgcmsiv + internal/aead/aesgcmsiv.go,
   aead/chacha20poly1305, aead/xchacha20poly1305,
   aead/aesctrhmac + internal/aead/aesctr.go (iv size is a key parameter),
   aead/xaesgcm (salt and iv drawn by ONE MustRand over salt‖iv). *)
Inductive scheme :=
| AesGcm | AesGcmSiv | ChaCha20Poly1305 | XChaCha20Poly1305
| AesCtrHmac (iv : nat) | XAesGcm (salt : nat).

Definition nonce_len (s : scheme) : nat :=
  match s with
  | AesGcm => 12 | AesGcmSiv => 12 | ChaCha20Poly1305 => 12
  | XChaCha20Poly1305 => 24
  | AesCtrHmac iv => iv
  | XAesGcm salt => salt + 12
  end.

(* key types whose createKey draws the key material itself
   (secretdata.NewBytesFromRand / rand.Read / ed25519.GenerateKey) *)
Inductive keytype :=
| KAesGcm (ks : nat) | KAesGcmSiv (ks : nat) | KChaCha | KXChaCha | KXAes
| KAesCtrHmac (aes hmac : nat)        (* two draws: AES key, then HMAC key *)
| KAesSiv (ks : nat) | KHmac (ks : nat) | KAesCmac (ks : nat)
| KHmacPrf (ks : nat) | KHkdfPrf (ks : nat) | KAesCmacPrf (ks : nat)
| KStreamGcmHkdf (ks : nat) | KStreamCtrHmac (ks : nat)
| KJwtHmac (ks : nat)
| KMlDsa                              (* 32-byte seed *)
| KSlhDsa (n : nat)                   (* skSeed, skPrf, pkSeed: three draws of n *)
| KEd25519                            (* 32-byte seed *)
| KXWing                              (* 32-byte secret *)
| KMlKem.                             (* 64-byte seed *)

Definition key_reads (k : keytype) : list nat :=
  match k with
  | KAesGcm ks | KAesGcmSiv ks | KAesSiv ks | KHmac ks | KAesCmac ks
  | KHmacPrf ks | KHkdfPrf ks | KAesCmacPrf ks
  | KStreamGcmHkdf ks | KStreamCtrHmac ks | KJwtHmac ks => [ks]
  | KChaCha | KXChaCha | KXAes | KMlDsa | KEd25519 | KXWing => [32%nat]
  | KAesCtrHmac a h => [a; h]
  | KSlhDsa n => [n; n; n]
  | KMlKem => [64%nat]
  end.

Inductive call :=
| CEncrypt (s : scheme) (prefix : bytes)       (* tink.AEAD.Encrypt under one key *)
| CNewWriter (dks : nat)                        (* NewEncryptingWriter; dks = derived key size *)
| CHpkeEncrypt (prefix : bytes)                 (* DHKEM(X25519) and the X25519 half of X-Wing *)
| CEciesEncrypt (prefix : bytes) (scalar dem_iv : nat)  (* ECIES: ephemeral scalar, then DEM IV *)
| CAddKey (kt : keytype)                        (* Manager.Add, also via AddNewKeyFrom<parameters> *)
| CNewHandle (kt : keytype)                     (* keyset.NewHandle: a fresh manager per call *)
| CSign (n : nat).                              (* ML-DSA rnd, SLH-DSA addrnd, RSA-PSS salt *)

Definition requests (c : call) : list req :=
  match c with
  | CEncrypt s _ => [QBytes (nonce_len s)]
  | CNewWriter dks => [QBytes dks; QBytes 7]
  | CHpkeEncrypt _ => [QBytes 32]
  | CEciesEncrypt _ sc iv => [QBytes sc; QBytes iv]
  | CAddKey kt | CNewHandle kt => QId :: map QBytes (key_reads kt)
  | CSign n => [QBytes n]
  end.

Definition req_len (q : req) : nat := match q with QBytes n => n | QId => 4%nat end.

(* ---- serving requests --------------------------------------------------- *)

(* result: accepted window, every window read (in order), unavail, rest *)
Definition serve (q : req) (u : list N) (t : bytes)
  : option (bytes * list bytes * list N * bytes) :=
  match q with
  | QBytes n => match read n t with
                | None => None
                | Some (w, t1) => Some (w, [w], u, t1)
                end
  | QId => draw_id u t
  end.

Fixpoint consume (qs : list req) (u : list N) (t : bytes)
  : option (list bytes * list bytes * list N * bytes) :=
  match qs with
  | [] => Some ([], [], u, t)
  | q :: r =>
      match serve q u t with
      | None => None
      | Some (w, tr1, u1, t1) =>
          match consume r u1 t1 with
          | None => None
          | Some (ws, tr2, u2, t2) => Some (w :: ws, tr1 ++ tr2, u2, t2)
          end
      end
  end.

(* ---- where the windows go ---------------------------------------------- *)

(* dst[off : off+len w] overwritten by w (MustRand on a sub-slice of dst) *)
Definition overwrite (dst : bytes) (off : nat) (w : bytes) : bytes :=
  firstn off dst ++ w ++ skipn (off + length w) dst.

Inductive output :=
| OBytes (b : bytes)                 (* the output up to the end of its random field *)
| OKey (id : N) (material : list bytes)
| ONone.

Section WithPub.
(* X25519 public key of a scalar (crypto/ecdh); answered by the stdlib oracle *)
Variable pub : bytes -> bytes.

Definition field_of_call (c : call) (ws : list bytes) : output :=
  match c, ws with
  | CEncrypt s p, [w] =>
      (* dst := make(len(prefix)+n, ...); copy(dst, prefix); MustRand(dst[len(prefix):]) *)
      OBytes (overwrite (p ++ zeros (nonce_len s)) (length p) w)
  | CNewWriter dks, [salt; np] =>
      (* header[0] = byte(HeaderLength()); copy(header[1:], salt); copy(header[1+len(salt):], noncePrefix) *)
      OBytes ((N.of_nat (1 + dks + 7) mod 256) :: salt ++ np)
  | CHpkeEncrypt p, [sk] => OBytes (p ++ pub sk)
  | CEciesEncrypt p _ _, [_; iv] => OBytes (p ++ iv)
  | CAddKey _, idw :: mat => OKey (be_val idw) mat
  | CNewHandle _, idw :: mat => OKey (be_val idw) mat
  | _, _ => ONone
  end.

Record rstate := mkR { r_unavail : list N; r_tape : bytes }.

(* one call: output, trace (every window read, in order), new state *)
Definition exec (c : call) (s : rstate) : option (output * list bytes * rstate) :=
  match c with
  | CNewHandle _ =>
      match consume (requests c) [] (r_tape s) with
      | None => None
      | Some (ws, tr, _, t1) => Some (field_of_call c ws, tr, mkR (r_unavail s) t1)
      end
  | _ =>
      match consume (requests c) (r_unavail s) (r_tape s) with
      | None => None
      | Some (ws, tr, u1, t1) => Some (field_of_call c ws, tr, mkR u1 t1)
      end
  end.

Fixpoint run (cs : list call) (s : rstate) : option (list (output * list bytes) * rstate) :=
  match cs with
  | [] => Some ([], s)
  | c :: r =>
      match exec c s with
      | None => None
      | Some (o, tr, s1) =>
          match run r s1 with
          | None => None
          | Some (res, s2) => Some ((o, tr) :: res, s2)
          end
      end
  end.
End WithPub.

(* ---- operations drawing through the standard library ------------------- *)
(* Only whether the draw reaches crypto/rand.Reader is modelled: ML-KEM
   encapsulation uses the stdlib-internal DRBG and does not. *)
Inductive loose_op :=
| LHpkeNist | LHpkeMlKem | LEcdsaSign | LNistKeygen | LX25519Keygen.

Definition draws_from_reader (o : loose_op) : bool :=
  match o with LHpkeMlKem => false | _ => true end.
