(* Model of internal/signature/slhdsa/hypertree.go. *)
From Coq Require Import List NArith Bool Arith.
From Tink Require Import Bytes SlhdsaSupport SlhdsaAddr SlhdsaBase SlhdsaWots SlhdsaXmss.
Import ListNotations.
Open Scope N_scope.

Section HT.
  Variable P : params.
  Variable HS : hashes.

  (* for j := 1; j < d; j++ { idxLeaf = idxTree & (1<<hp - 1); idxTree >>= hp;
       setLayerAddress(j); setTreeAddress(idxTree); sigTmp = xmssSign(root, idxLeaf);
       sigHT += sigTmp; if j < d-1 { root = xmssPkFromSig(idxLeaf, sigTmp, root) } } *)
  Fixpoint htSign_loop (cnt : nat) (j : nat) (skSeed pk : bytes) (idxTree : N) (ad : address)
    (root sigHT : bytes) : bytes :=
    match cnt with
    | O => sigHT
    | S c =>
      let idxLeaf := u32 (N.land idxTree (N.ones (N.of_nat (p_hp P)))) in
      let idxTree' := N.shiftr idxTree (N.of_nat (p_hp P)) in
      let ad1 := setTreeAddress idxTree' (setLayerAddress (N.of_nat j) ad) in
      let '(sigTmp, ad2) := xmssSign P HS root skSeed idxLeaf pk ad1 in
      let sigHT' := sigHT ++ sigTmp in
      if Nat.ltb j (p_d P - 1) then
        let '(root', ad3) := xmssPkFromSig P HS idxLeaf sigTmp root pk ad2 in
        htSign_loop c (S j) skSeed pk idxTree' ad3 root' sigHT'
      else
        htSign_loop c (S j) skSeed pk idxTree' ad2 root sigHT'
    end.

  Definition htSign (msg skSeed pk : bytes) (idxTree idxLeaf : N) : bytes :=
    let ad := setTreeAddress idxTree newAddress in
    let '(sigHT, ad1) := xmssSign P HS msg skSeed idxLeaf pk ad in
    let '(root, ad2) := xmssPkFromSig P HS idxLeaf sigHT msg pk ad1 in
    htSign_loop (p_d P - 1) 1 skSeed pk idxTree ad2 root sigHT.

  Fixpoint htVerify_loop (cnt : nat) (j : nat) (sigHT pk : bytes) (idxTree : N) (ad : address)
    (node : bytes) : bytes :=
    match cnt with
    | O => node
    | S c =>
      let idxLeaf := u32 (N.land idxTree (N.ones (N.of_nat (p_hp P)))) in
      let idxTree' := N.shiftr idxTree (N.of_nat (p_hp P)) in
      let ad1 := setTreeAddress idxTree' (setLayerAddress (N.of_nat j) ad) in
      let sz := ((p_hp P + p_len P) * p_n P)%nat in
      let sigTmp := firstn sz (skipn (j * sz) sigHT) in
      let '(node', ad2) := xmssPkFromSig P HS idxLeaf sigTmp node pk ad1 in
      htVerify_loop c (S j) sigHT pk idxTree' ad2 node'
    end.

  Definition htVerify (msg sigHT pk : bytes) (idxTree idxLeaf : N) (pkRoot : bytes) : bool :=
    let ad := setTreeAddress idxTree newAddress in
    let sz := ((p_hp P + p_len P) * p_n P)%nat in
    let sigTmp := firstn sz sigHT in
    let '(node, ad1) := xmssPkFromSig P HS idxLeaf sigTmp msg pk ad in
    beq (htVerify_loop (p_d P - 1) 1 sigHT pk idxTree ad1 node) pkRoot.
End HT.
