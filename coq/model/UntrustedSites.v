(* C14 (stretch) — small models of the panic sites on the untrusted-keyset path
   that model/Untrusted.v does not carry as a checked operation of its own
   (it carries every slice of the parsers as Bytes.slice and the seed check of
   ed25519.NewKeyFromSeed).  The table of ALL sites is UntrustedPanicSites.v;
   this file adds, with Go's machine integers as Z:

     make([]T, n, cap)            make_z      Panic when n < 0 or n > cap
     b[i]                         index_z     Panic when i < 0 or i >= len b
     b[lo:]  b[lo:hi]             slice_z     Panic when not 0 <= lo <= hi <= len b
     int32(x) of a uint32         int32_of_u32     wraps (two's complement)
     int(x)  of an int32 field    int_of_i32field  sign extension of the low 32 bits
     int(x)  of a uint32, 64 bit  int_of_u32       lossless

   and the as-written bodies that use them:
     internal/ec/ec.go BigIntBytesToFixedSizeBuffer            fixed_size_go
     signature/ecdsa/protoserialization.go encodePoint          encode_point_go
     internal/signature/slhdsa DecodePublicKey / DecodeSecretKey   slh_decode_pk_go / slh_decode_sk_go
     hybrid/ecies, jwt/jwtecdsa, signature/ecdsa serializers     point_coords_go  (pt[1:], xy[:c], xy[c:])
     signature/ecdsa signer.go / verifier.go                     point_halves_go  (pt[1:], xy[:len/2], xy[len/2:])
     keyset/handle.go Handle.Entry                                entry_go
     streamingaead/*/parameters.go segment-size checks            seg_check_ctr_go / seg_check_gcm_go
   No proofs here: proofs/UntrustedSitesProofs.v. *)
From Coq Require Import List NArith ZArith Bool Arith.
From Tink Require Import Bytes.
Import ListNotations.
Open Scope Z_scope.

Definition zlen (b : bytes) : Z := Z.of_nat (length b).

(* make([]byte, n, cap) *)
Definition make_z (n cap : Z) : outcome bytes :=
  if (n <? 0) || (cap <? n) then Panic else Ok (zeros (Z.to_nat n)).

(* b[i] *)
Definition index_z (b : bytes) (i : Z) : outcome N :=
  if (i <? 0) || (zlen b <=? i) then Panic else Ok (nth (Z.to_nat i) b 0%N).

(* b[lo:hi] (capacity = length) *)
Definition slice_z (b : bytes) (lo hi : Z) : outcome bytes :=
  if (lo <? 0) || (hi <? lo) || (zlen b <? hi) then Panic
  else Ok (firstn (Z.to_nat (hi - lo)) (skipn (Z.to_nat lo) b)).

(* ---- internal/ec/ec.go BigIntBytesToFixedSizeBuffer, as written ---------- *)

(* for i := 0; i < len(b)-size; i++ { if b[i] != 0 { return error } } *)
Fixpoint strip_loop (fuel : nat) (b : bytes) (i limit : Z) : outcome bool :=
  match fuel with
  | O => Ok true
  | S f =>
      if i <? limit then
        bind (index_z b i) (fun x => if (x =? 0)%N then strip_loop f b (i + 1) limit else Ok false)
      else Ok true
  end.

Definition fixed_size_go (b : bytes) (size : Z) : outcome bytes :=
  if zlen b =? size then Ok b
  else if zlen b <? size then
    bind (make_z (size - zlen b) size) (fun buf => Ok (buf ++ b))        (* append(buf, b...) *)
  else
    bind (strip_loop (length b) b 0 (zlen b - size)) (fun allzero =>
      if allzero then slice_z b (zlen b - size) (zlen b) else Err).

(* ---- signature/ecdsa/protoserialization.go encodePoint, as written ------- *)
Definition encode_point_go (x y : bytes) (c : Z) : outcome bytes :=
  bind (make_z (1 + 2 * c) (1 + 2 * c)) (fun buf =>
  bind (index_z buf 0) (fun _ =>                                          (* encodedPoint[0] = 0x04 *)
  let xs := 1 + c - zlen x in
  bind (slice_z buf xs (zlen buf)) (fun _ =>                              (* copy(encodedPoint[xStartPos:], x) *)
  let ys := 1 + c + c - zlen y in
  bind (slice_z buf ys (zlen buf)) (fun _ =>                              (* copy(encodedPoint[yStartPos:], y) *)
  Ok (4%N :: zeros (Z.to_nat (c - zlen x)) ++ x ++ zeros (Z.to_nat (c - zlen y)) ++ y))))).

(* ---- SLH-DSA DecodePublicKey / DecodeSecretKey --------------------------- *)
Definition slh_decode_pk_go (n : Z) (pk : bytes) : outcome (bytes * bytes) :=
  if negb (zlen pk =? 2 * n) then Err
  else bind (slice_z pk 0 n) (fun seed => bind (slice_z pk n (2 * n)) (fun root => Ok (seed, root))).

Definition slh_decode_sk_go (n : Z) (sk : bytes) : outcome (list bytes) :=
  if negb (zlen sk =? 4 * n) then Err
  else bind (slice_z sk 0 n) (fun a => bind (slice_z sk n (2 * n)) (fun b =>
       bind (slice_z sk (2 * n) (3 * n)) (fun c => bind (slice_z sk (3 * n) (4 * n)) (fun d => Ok [a; b; c; d])))).

(* ---- serializers and primitive constructors over an accepted point ------- *)
(* xy := pt[1:]; xy[:c]; xy[c:]   (hybrid/ecies publicKeyToProtoPublicKey, jwt/jwtecdsa, signature/ecdsa createProtoECDSAPublicKey) *)
Definition point_coords_go (pt : bytes) (c : Z) : outcome (bytes * bytes) :=
  bind (slice_z pt 1 (zlen pt)) (fun xy =>
  bind (slice_z xy 0 c) (fun x => bind (slice_z xy c (zlen xy)) (fun y => Ok (x, y)))).

(* xy := pt[1:]; xy[:len(xy)/2]; xy[len(xy)/2:]   (signature/ecdsa signer.go, verifier.go) *)
Definition point_halves_go (pt : bytes) : outcome (bytes * bytes) :=
  bind (slice_z pt 1 (zlen pt)) (fun xy =>
  bind (slice_z xy 0 (zlen xy / 2)) (fun x => bind (slice_z xy (zlen xy / 2) (zlen xy)) (fun y => Ok (x, y)))).

(* ---- keyset/handle.go Handle.Entry(i) ------------------------------------ *)
Definition entry_go {A} (entries : list A) (i : Z) : outcome A :=
  if (i <? 0) || (Z.of_nat (length entries) <=? i) then Err
  else match nth_error entries (Z.to_nat i) with Some e => Ok e | None => Panic end.

(* ---- integer conversions -------------------------------------------------- *)
Definition u32_max : Z := 4294967295.
(* int32(v) of a uint32 v *)
Definition int32_of_u32 (v : Z) : Z := if v <? 2147483648 then v else v - 4294967296.
(* a proto int32 field: the varint's low 32 bits, sign extended; then int(.) *)
Definition int_of_i32field (v : Z) : Z := int32_of_u32 (v mod 4294967296).
(* int(v) of a uint32 on a 64-bit platform *)
Definition int_of_u32 (v : Z) : Z := v.
(* ... on a 32-bit platform (NOT the platform of the check; listed for completeness) *)
Definition int_of_u32_32bit (v : Z) : Z := int32_of_u32 v.

(* streamingaead/aesctrhmac/parameters.go NewParameters: the checks in source
   order, ending with
     minCiphertextSegmentSize := int32(derived + 7 + 1 + tag + 1)
     if opts.SegmentSizeInBytes < minCiphertextSegmentSize { error }
   with SegmentSizeInBytes = int32(proto uint32) and tag = int(proto uint32);
   int32(.) of the sum wraps - int32_wrap models it *)
Definition int32_wrap (v : Z) : Z := int32_of_u32 (v mod 4294967296).
Definition seg_check_ctr_go (derived tag_u32 seg_u32 max_tag : Z) : bool :=
  let tag := int_of_u32 tag_u32 in
  ((derived =? 16) || (derived =? 32)) && (10 <=? tag) && (tag <=? max_tag)
  && (int32_wrap (derived + 7 + 1 + tag + 1) <=? int32_of_u32 seg_u32).
Definition seg_check_gcm_go (derived seg_u32 : Z) : bool :=
  ((derived =? 16) || (derived =? 32))
  && (int32_wrap (derived + 24 + 1) <=? int32_of_u32 seg_u32).

(* ---- the RAW operations (no guard) of some sites, for the table ----------- *)
(* h.entries[i] *)
Definition entry_raw {A} (entries : list A) (i : Z) : outcome A :=
  if i <? 0 then Panic
  else match nth_error entries (Z.to_nat i) with Some e => Ok e | None => Panic end.
(* pkEnc[0:n], pkEnc[n:2n] *)
Definition slh_pk_slices (n : Z) (pk : bytes) : outcome (bytes * bytes) :=
  bind (slice_z pk 0 n) (fun seed => bind (slice_z pk n (2 * n)) (fun root => Ok (seed, root))).
(* publicPoint[0] *)
Definition first_byte (pt : bytes) : outcome N := index_z pt 0.
