(* HMAC transcribed from RFC 2104 over a hash oracle H with block size B.
   (tink-go computes HMAC with the standard library's crypto/hmac; this
   transcription is the independent implementation the MAC/PRF properties
   compare against.)  No proofs here: proofs/HmacProofs.v. *)
From Coq Require Import List NArith Bool Arith.
From Tink Require Import Bytes.
Import ListNotations.
Open Scope N_scope.

(* hash functions of the HMAC / HKDF key types, with their RFC parameters *)
Inductive hash_alg := SHA1 | SHA224 | SHA256 | SHA384 | SHA512.

Definition block_size (h : hash_alg) : nat :=
  match h with SHA384 | SHA512 => 128%nat | _ => 64%nat end.

Definition digest_size (h : hash_alg) : nat :=
  match h with SHA1 => 20 | SHA224 => 28 | SHA256 => 32 | SHA384 => 48 | SHA512 => 64 end%nat.

Section HMAC.
  Variable H : bytes -> bytes.   (* the hash function *)
  Variable B : nat.              (* its block size in bytes *)

  Definition ipad : bytes := repeat 54 B.    (* 0x36 *)
  Definition opad : bytes := repeat 92 B.    (* 0x5c *)

  (* RFC 2104 section 2/3: keys longer than B are hashed first; the key is
     then padded with zeros to B bytes *)
  Definition hmac_key (k : bytes) : bytes :=
    let k' := if Nat.ltb B (length k) then H k else k in
    k' ++ zeros (B - length k').

  (* H(K XOR opad, H(K XOR ipad, text)) *)
  Definition hmac (k m : bytes) : bytes :=
    let k0 := hmac_key k in
    H (xorb k0 opad ++ H (xorb k0 ipad ++ m)).
End HMAC.
