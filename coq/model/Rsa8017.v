(* RFC 8017 (PKCS #1 v2.2) signature schemes with appendix, written from the
   text of the RFC and independent of crypto/rsa and of tink-go:

     section 4.1 / 4.2   I2OSP, OS2IP
     section 5.2.2       RSAVP1   (range check, then the RSA public permutation)
     section 8.1.1/8.1.2 RSASSA-PSS-SIGN / RSASSA-PSS-VERIFY
     section 8.2.1/8.2.2 RSASSA-PKCS1-V1_5-SIGN / -VERIFY
     section 9.1.1/9.1.2 EMSA-PSS-ENCODE / EMSA-PSS-VERIFY
     section 9.2         EMSA-PKCS1-v1_5-ENCODE (DigestInfo prefixes of Note 1)
     appendix B.2.1      MGF1

   As in tink-go (and crypto/rsa) the operations start from mHash = Hash(M):
   step "mHash = Hash(M)" is done by the caller.  Oracles (Section variables):
     Hash h m        the hash functions
     rsaep n e x     x^e mod n      (RSAEP / RSAVP1 after the range check)
     rsadp sk x      x^d mod n      (RSADP / RSASP1)
   No proofs here: proofs/Rsa8017Proofs.v. *)
From Coq Require Import List NArith Bool Arith.
From Tink Require Import Bytes DER Sig.
Import ListNotations.
Open Scope N_scope.

(* output length of the hash functions, in octets *)
Definition hlen (h : hasht) : nat :=
  match h with SHA1 => 20 | SHA224 => 28 | SHA256 => 32 | SHA384 => 48 | SHA512 => 64 end%nat.

(* section 9.2 Note 1: DER of DigestInfo up to the digest *)
Definition digest_info (h : hasht) : bytes :=
  match h with
  | SHA1   => [48; 33; 48; 9; 6; 5; 43; 14; 3; 2; 26; 5; 0; 4; 20]
  | SHA224 => [48; 45; 48; 13; 6; 9; 96; 134; 72; 1; 101; 3; 4; 2; 4; 5; 0; 4; 28]
  | SHA256 => [48; 49; 48; 13; 6; 9; 96; 134; 72; 1; 101; 3; 4; 2; 1; 5; 0; 4; 32]
  | SHA384 => [48; 65; 48; 13; 6; 9; 96; 134; 72; 1; 101; 3; 4; 2; 2; 5; 0; 4; 48]
  | SHA512 => [48; 81; 48; 13; 6; 9; 96; 134; 72; 1; 101; 3; 4; 2; 3; 5; 0; 4; 64]
  end.

(* 4.1 I2OSP: "integer too large" = None.  The digits are read off the bits
   of the number (the reference definition with div / mod 256 is [i2osp_ref];
   proofs/Rsa8017Proofs.v i2osp_spec: the two are equal) *)
Definition i2osp_ref (len : nat) (x : N) : option bytes :=
  if x <? 256 ^ N.of_nat len then Some (be_bytes len x) else None.

(* little-endian octets of a positive; v = the i low bits of the current octet *)
Fixpoint pos_le (p : positive) (v : N) (i : nat) : bytes :=
  match p with
  | xH => [v + 2 ^ N.of_nat i]
  | xO q => if Nat.eqb i 7 then v :: pos_le q 0 0 else pos_le q v (S i)
  | xI q => if Nat.eqb i 7 then (v + 128) :: pos_le q 0 0 else pos_le q (v + 2 ^ N.of_nat i) (S i)
  end.
(* minimal big-endian octets (= DER.be_min) *)
Definition be_min_fast (x : N) : bytes :=
  match x with N0 => [] | Npos p => rev (pos_le p 0 0) end.

Definition i2osp (len : nat) (x : N) : option bytes :=
  if x <? 256 ^ N.of_nat len then
    let d := be_min_fast x in Some (zeros (len - length d) ++ d)
  else None.
Definition os2ip (b : bytes) : N := be_val b.

(* modBits: the bit length of the modulus; k = ceil(modBits / 8): its octet
   length (= Sig.k_octets n, proofs/Rsa8017Proofs.v k_octets_eq) *)
Definition mod_bits (n : bytes) : nat := N.to_nat (N.size (be_val n)).
Definition k_octets (n : bytes) : nat := N.to_nat ((N.size (be_val n) + 7) / 8).

(* 9.2 EMSA-PKCS1-v1_5-ENCODE from the digest:
   T = DigestInfo; "intended encoded message length too short" if emLen < tLen + 11;
   EM = 0x00 || 0x01 || PS || 0x00 || T, PS = emLen - tLen - 3 octets 0xff *)
Definition emsa_pkcs1_encode (h : hasht) (digest : bytes) (emLen : nat) : option bytes :=
  if negb (Nat.eqb (length digest) (hlen h)) then None else
  let T := digest_info h ++ digest in
  if Nat.ltb emLen (length T + 11) then None
  else Some (0 :: 1 :: repeat 255 (emLen - length T - 3) ++ 0 :: T).

(* "set the leftmost zb bits of the leftmost octet to zero" / "are all zero" *)
Definition clear_top (zb : nat) (b : bytes) : bytes :=
  match b with [] => [] | x :: t => (x mod 2 ^ N.of_nat (8 - zb)) :: t end.
Definition top_clear (zb : nat) (b : bytes) : bool :=
  match b with [] => true | x :: _ => x <? 2 ^ N.of_nat (8 - zb) end.

Fixpoint all_zero_b (b : bytes) : bool :=
  match b with [] => true | x :: t => (x =? 0) && all_zero_b t end.

Section RFC8017.
  Variable Hash : hasht -> bytes -> bytes.
  Variable rsaep : bytes -> N -> N -> N.

  (* 5.2.2 RSAVP1: "signature representative out of range" unless 0 <= s <= n-1 *)
  Definition rsavp1 (n : bytes) (e : N) (s : N) : option N :=
    if s <? be_val n then Some (rsaep n e s) else None.

  (* 8.2.2 RSASSA-PKCS1-V1_5-VERIFY *)
  Definition rfc_pkcs1_verify (n : bytes) (e : N) (h : hasht) (digest sig : bytes) : bool :=
    let k := k_octets n in
    if negb (Nat.eqb (length sig) k) then false else          (* step 1: length checking *)
    match rsavp1 n e (os2ip sig) with                           (* 2a, 2b *)
    | None => false
    | Some m =>
      match i2osp k m with                                      (* 2c *)
      | None => false
      | Some EM =>
        match emsa_pkcs1_encode h digest k with                 (* 3 *)
        | None => false
        | Some EM' => beq EM EM'                                (* 4 *)
        end
      end
    end.

  (* B.2.1 MGF1: T = Hash(seed || C(0)) || Hash(seed || C(1)) || ...; leading maskLen octets *)
  Fixpoint mgf1_blocks (h : hasht) (seed : bytes) (cnt : nat) (counter : N) : bytes :=
    match cnt with
    | O => []
    | S c => Hash h (seed ++ be_bytes 4 counter) ++ mgf1_blocks h seed c (counter + 1)
    end.
  Definition mgf1 (h : hasht) (seed : bytes) (maskLen : nat) : bytes :=
    firstn maskLen (mgf1_blocks h seed ((maskLen + hlen h - 1) / hlen h) 0).

  (* 9.1.1 EMSA-PSS-ENCODE (from mHash, with the salt given) *)
  Definition emsa_pss_encode (h : hasht) (mHash : bytes) (emBits : nat) (salt : bytes) : option bytes :=
    let hLen := hlen h in
    let sLen := length salt in
    let emLen := ((emBits + 7) / 8)%nat in
    if negb (Nat.eqb (length mHash) hLen) then None else
    if Nat.ltb emLen (hLen + sLen + 2) then None else           (* 3: "encoding error" *)
    let Hh := Hash h (zeros 8 ++ mHash ++ salt) in              (* 5, 6 *)
    let DB := zeros (emLen - sLen - hLen - 2) ++ 1 :: salt in   (* 7, 8 *)
    let dbMask := mgf1 h Hh (emLen - hLen - 1) in               (* 9 *)
    let maskedDB := clear_top (8 * emLen - emBits) (xorb DB dbMask) in   (* 10, 11 *)
    Some (maskedDB ++ Hh ++ [188]).                             (* 12: 0xbc *)

  (* 9.1.2 EMSA-PSS-VERIFY *)
  Definition emsa_pss_verify (h : hasht) (mHash EM : bytes) (emBits sLen : nat) : bool :=
    let hLen := hlen h in
    let emLen := ((emBits + 7) / 8)%nat in
    if negb (Nat.eqb (length mHash) hLen) then false else
    if negb (Nat.eqb (length EM) emLen) then false else
    if Nat.ltb emLen (hLen + sLen + 2) then false else          (* 3 *)
    if negb (beq (skipn (emLen - 1) EM) [188]) then false else  (* 4 *)
    let maskedDB := firstn (emLen - hLen - 1) EM in             (* 5 *)
    let Hh := firstn hLen (skipn (emLen - hLen - 1) EM) in
    let zb := (8 * emLen - emBits)%nat in
    if negb (top_clear zb maskedDB) then false else             (* 6 *)
    let DB := clear_top zb (xorb maskedDB (mgf1 h Hh (emLen - hLen - 1))) in   (* 7, 8, 9 *)
    let psLen := (emLen - hLen - sLen - 2)%nat in
    if negb (all_zero_b (firstn psLen DB)) then false else      (* 10 *)
    if negb (nth psLen DB 0 =? 1) then false else
    let salt := skipn (psLen + 1) DB in                         (* 11 *)
    beq Hh (Hash h (zeros 8 ++ mHash ++ salt)).                 (* 12, 13, 14 *)

  (* 8.1.2 RSASSA-PSS-VERIFY *)
  Definition rfc_pss_verify (n : bytes) (e : N) (h : hasht) (sLen : N) (digest sig : bytes) : bool :=
    let k := k_octets n in
    if negb (Nat.eqb (length sig) k) then false else            (* 1 *)
    match rsavp1 n e (os2ip sig) with                           (* 2a, 2b *)
    | None => false
    | Some m =>
      let emBits := (mod_bits n - 1)%nat in
      match i2osp ((emBits + 7) / 8) m with                     (* 2c *)
      | None => false
      | Some EM => emsa_pss_verify h digest EM emBits (N.to_nat sLen)   (* 3, 4 *)
      end
    end.

  (* ---- crypto/rsa's handling of PSSOptions.SaltLength, as coded (Go 1.25
     crypto/rsa/fips.go VerifyPSS / SignPSS, crypto/internal/fips140/rsa
     pkcs1v22.go emsaPSSVerify, PSSMaxSaltLength).  tink-go passes the key's
     SaltLengthBytes unchanged as SaltLength (rsassapss_verifier.go,
     rsassapss_signer.go), and SaltLength 0 is PSSSaltLengthAuto:
       Verify: the salt length is DETECTED -- after step 9, psLen = index of
               the first 0x01 octet of DB (none: error), sLen = |DB| - psLen - 1;
       Sign:   the salt has the maximal length emLen - 2 - hLen.
     A positive SaltLength is used as sLen. ---- *)
  Fixpoint index01 (db : bytes) : option nat :=
    match db with
    | [] => None
    | x :: t => if x =? 1 then Some O else match index01 t with Some i => Some (S i) | None => None end
    end.

  Definition emsa_pss_verify_auto (h : hasht) (mHash EM : bytes) (emBits : nat) : bool :=
    let hLen := hlen h in
    let emLen := ((emBits + 7) / 8)%nat in
    let dbLen := (emLen - hLen - 1)%nat in
    let DB := clear_top (8 * emLen - emBits)
                (xorb (firstn dbLen EM) (mgf1 h (firstn hLen (skipn dbLen EM)) dbLen)) in
    match index01 DB with
    | None => false
    | Some psLen => emsa_pss_verify h mHash EM emBits (dbLen - psLen - 1)
    end.

  (* crypto/rsa.VerifyPSS(pub, hash, digest, sig, &PSSOptions{SaltLength: sl}) *)
  Definition go_pss_verify (n : bytes) (e : N) (h : hasht) (sl : N) (digest sig : bytes) : bool :=
    if sl =? 0 then
      let k := k_octets n in
      if negb (Nat.eqb (length sig) k) then false else
      match rsavp1 n e (os2ip sig) with
      | None => false
      | Some m =>
        let emBits := (mod_bits n - 1)%nat in
        match i2osp ((emBits + 7) / 8) m with
        | None => false
        | Some EM => emsa_pss_verify_auto h digest EM emBits
        end
      end
    else rfc_pss_verify n e h sl digest sig.

  (* the salt length crypto/rsa.SignPSS uses for SaltLength sl *)
  Definition go_pss_salt_len (n : bytes) (h : hasht) (sl : N) : nat :=
    if sl =? 0 then ((mod_bits n - 1 + 7) / 8 - 2 - hlen h)%nat else N.to_nat sl.

  (* the part after the length check, in the shape of Sig.std_pkcs1 / std_pss *)
  Definition rfc_pkcs1_core (n : bytes) (e : N) (h : hasht) (digest sig : bytes) : bool :=
    match rsavp1 n e (os2ip sig) with
    | None => false
    | Some m =>
      match i2osp (k_octets n) m with
      | None => false
      | Some EM =>
        match emsa_pkcs1_encode h digest (k_octets n) with
        | None => false
        | Some EM' => beq EM EM'
        end
      end
    end.
  Definition rfc_pss_core (n : bytes) (e : N) (h : hasht) (sLen : N) (digest sig : bytes) : bool :=
    match rsavp1 n e (os2ip sig) with
    | None => false
    | Some m =>
      let emBits := (mod_bits n - 1)%nat in
      match i2osp ((emBits + 7) / 8) m with
      | None => false
      | Some EM => emsa_pss_verify h digest EM emBits (N.to_nat sLen)
      end
    end.

  (* ---- signature generation: 8.1.1, 8.2.1 over RSASP1 ---- *)
  Variable rsadp : bytes -> N -> N.

  Definition rfc_pkcs1_sign (n sk : bytes) (h : hasht) (digest : bytes) : option bytes :=
    match emsa_pkcs1_encode h digest (k_octets n) with
    | None => None
    | Some EM => i2osp (k_octets n) (rsadp sk (os2ip EM))
    end.

  Definition rfc_pss_sign (n sk : bytes) (h : hasht) (digest salt : bytes) : option bytes :=
    match emsa_pss_encode h digest (mod_bits n - 1) salt with
    | None => None
    | Some EM => i2osp (k_octets n) (rsadp sk (os2ip EM))
    end.
End RFC8017.
