(* Executable model of Tink's HPKE (RFC 9180, base mode, single shot):
   hybrid/internal/hpke/{hpke,context,hkdf_kdf,encrypt,decrypt,
   nist_curves_kem,x25519_kem,mlkem_kem,xwing_kem,aes_gcm_aead,
   chacha20poly1305_aead,primitive_factory}.go and hybrid/hpke/{key,
   hybrid_encrypt,hybrid_decrypt}.go, written after the Go control flow.
   Every Go slice expression is a checked [slice] (Panic when out of range),
   every Go error return is Err.  HKDF-Extract/Expand, (EC)DH, ML-KEM, SHA-3
   and the AEADs are Section variables (stdlib oracles).
   No proofs here: proofs/HpkeProofs.v. *)
From Coq Require Import List NArith Bool Arith.
From Tink Require Import Bytes Xwing.
Import ListNotations.
Open Scope N_scope.

(* ---- identifiers (hpke.go) ---- *)
Inductive hash := SHA1 | SHA224 | SHA256 | SHA384 | SHA512.
Definition hash_len (h : hash) : nat :=
  match h with SHA1 => 20 | SHA224 => 28 | SHA256 => 32 | SHA384 => 48 | SHA512 => 64 end%nat.

Inductive kem := P256 | P384 | P521 | X25519 | MLKEM768 | MLKEM1024 | XWING.
Inductive kdf := HKDF_SHA256 | HKDF_SHA384 | HKDF_SHA512.
Inductive aead := AES128GCM | AES256GCM | CHACHA20POLY1305.
Inductive variant := VTink | VCrunchy | VNoPrefix.

Definition kem_id (k : kem) : N :=
  match k with
  | P256 => 16 (* 0x0010 *) | P384 => 17 | P521 => 18 | X25519 => 32 (* 0x0020 *)
  | MLKEM768 => 65 (* 0x0041 *) | MLKEM1024 => 66 | XWING => 25722 (* 0x647a *)
  end.
Definition kdf_id (d : kdf) : N :=
  match d with HKDF_SHA256 => 1 | HKDF_SHA384 => 2 | HKDF_SHA512 => 3 end.
Definition aead_id (a : aead) : N :=
  match a with AES128GCM => 1 | AES256GCM => 2 | CHACHA20POLY1305 => 3 end.

(* kemLengths *)
Definition n_secret (k : kem) : nat :=
  match k with P256 => 32 | P384 => 48 | P521 => 64 | _ => 32 end%nat.
Definition n_enc (k : kem) : nat :=
  match k with
  | P256 => 65 | P384 => 97 | P521 => 133 | X25519 => 32
  | MLKEM768 => 1088 | MLKEM1024 => 1568 | XWING => 1120
  end%nat.
Definition n_pk (k : kem) : nat :=
  match k with
  | P256 => 65 | P384 => 97 | P521 => 133 | X25519 => 32
  | MLKEM768 => 1184 | MLKEM1024 => 1568 | XWING => 1216
  end%nat.
Definition n_sk (k : kem) : nat :=
  match k with
  | P256 => 32 | P384 => 48 | P521 => 66 | X25519 => 32
  | MLKEM768 => 64 | MLKEM1024 => 64 | XWING => 32
  end%nat.

(* hash used inside the DHKEMs (newNISTCurvesKEM / newX25519KEM) *)
Definition kem_hash (k : kem) : hash :=
  match k with P384 => SHA384 | P521 => SHA512 | _ => SHA256 end.
Definition kdf_hash (d : kdf) : hash :=
  match d with HKDF_SHA256 => SHA256 | HKDF_SHA384 => SHA384 | HKDF_SHA512 => SHA512 end.
(* aead.keyLength / nonceLength *)
Definition n_k (a : aead) : nat := match a with AES128GCM => 16 | _ => 32 end%nat.
Definition n_n (a : aead) : nat := 12%nat.

Definition is_dhkem (k : kem) : bool :=
  match k with P256 | P384 | P521 | X25519 => true | _ => false end.
Definition is_mlkem (k : kem) : bool :=
  match k with MLKEM768 | MLKEM1024 => true | _ => false end.

(* ---- ASCII constants ---- *)
Definition s_hpke_v1 : bytes := [72; 80; 75; 69; 45; 118; 49].            (* "HPKE-v1" *)
Definition s_KEM : bytes := [75; 69; 77].                                 (* "KEM" *)
Definition s_HPKE : bytes := [72; 80; 75; 69].                            (* "HPKE" *)
Definition l_eae_prk : bytes := [101; 97; 101; 95; 112; 114; 107].        (* "eae_prk" *)
Definition l_shared_secret : bytes :=
  [115; 104; 97; 114; 101; 100; 95; 115; 101; 99; 114; 101; 116].         (* "shared_secret" *)
Definition l_psk_id_hash : bytes :=
  [112; 115; 107; 95; 105; 100; 95; 104; 97; 115; 104].                   (* "psk_id_hash" *)
Definition l_info_hash : bytes := [105; 110; 102; 111; 95; 104; 97; 115; 104]. (* "info_hash" *)
Definition l_secret : bytes := [115; 101; 99; 114; 101; 116].             (* "secret" *)
Definition l_key : bytes := [107; 101; 121].                              (* "key" *)
Definition l_base_nonce : bytes := [98; 97; 115; 101; 95; 110; 111; 110; 99; 101]. (* "base_nonce" *)

(* ---- suite ids and labels (hpke.go) ---- *)
Definition kem_suite_id (k : kem) : bytes := s_KEM ++ be_bytes 2 (kem_id k).
Definition hpke_suite_id (k : kem) (d : kdf) (a : aead) : bytes :=
  s_HPKE ++ be_bytes 2 (kem_id k) ++ be_bytes 2 (kdf_id d) ++ be_bytes 2 (aead_id a).

Definition base_mode : N := 0.
Definition key_schedule_context (mode : N) (psk_id_hash info_hash : bytes) : bytes :=
  mode :: psk_id_hash ++ info_hash.

Definition label_ikm (label ikm suite : bytes) : bytes :=
  s_hpke_v1 ++ suite ++ label ++ ikm.

(* labelInfo: length16 := uint16(length); error unless int(length16) == length *)
Definition label_info (label info suite : bytes) (len : nat) : outcome bytes :=
  if N.ltb (N.of_nat len) 65536
  then Ok (be_bytes 2 (N.of_nat len) ++ s_hpke_v1 ++ suite ++ label ++ info)
  else Err.

(* big.Int.Bytes(): minimal big-endian encoding, empty for 0 *)
Fixpoint le_min (fuel : nat) (x : N) : bytes :=
  match fuel with
  | O => []
  | S f => if N.eqb x 0 then [] else (x mod 256) :: le_min f (x / 256)
  end.
Definition be_min (x : N) : bytes := rev (le_min (N.size_nat x) x).

(* output prefix of the key (internal/outputprefix): TINK 0x01||be32(id), CRUNCHY 0x00||be32(id) *)
Definition output_prefix (v : variant) (id : N) : outcome bytes :=
  match v with
  | VTink => Ok (1 :: be_bytes 4 id)
  | VCrunchy => Ok (0 :: be_bytes 4 id)
  | VNoPrefix => if N.eqb id 0 then Ok [] else Err   (* NewPublicKey: key ID must be zero *)
  end.

(* aesGCMMaxPlaintextSize = (1 << 36) - 31 *)
Definition gcm_max_plaintext : N := 68719476705.

Section HPKE.
  (* x/crypto hkdf.Extract(hash, secret = ikm, salt) and hkdf.Expand(hash, prk, info) read for n bytes *)
  Variable extract : hash -> bytes -> bytes -> bytes.          (* hash ikm salt *)
  Variable expand : hash -> bytes -> bytes -> nat -> bytes.    (* hash prk info len *)
  (* crypto/ecdh on the KEM's group: ECDH(sk, pk) (None: invalid private key,
     invalid public key/point, or all-zero X25519 output); public key of sk *)
  Variable dh : kem -> bytes -> bytes -> option bytes.
  Variable dh_pub : kem -> bytes -> option bytes.
  (* crypto/mlkem, keyed by MLKEM768 / MLKEM1024 *)
  Variable mlkem_decap : kem -> bytes -> bytes -> option bytes.              (* seed ct *)
  Variable mlkem_encap : kem -> bytes -> bytes -> option (bytes * bytes).    (* pk coins -> (ss, ct) *)
  Variable mlkem_pub : kem -> bytes -> option bytes.                        (* seed *)
  Variable shake256 : bytes -> nat -> bytes.
  Variable sha3_256 : bytes -> bytes.
  (* cipher.AEAD Seal/Open of AES-GCM / ChaCha20-Poly1305: key nonce ad text *)
  Variable seal : aead -> bytes -> bytes -> bytes -> bytes -> bytes.
  Variable open : aead -> bytes -> bytes -> bytes -> bytes -> option bytes.

  (* ---- hkdf_kdf.go ---- *)
  Definition labeled_extract (h : hash) (salt ikm label suite : bytes) : bytes :=
    extract h (label_ikm label ikm suite) salt.

  (* io.ReadFull on the HKDF reader fails beyond 255 * hashLen bytes *)
  Definition labeled_expand (h : hash) (prk info label suite : bytes) (len : nat) : outcome bytes :=
    bind (label_info label info suite len) (fun li =>
    if Nat.ltb (255 * hash_len h) len then Err else Ok (expand h prk li len)).

  Definition extract_and_expand (h : hash) (salt ikm ikm_label info info_label suite : bytes) (len : nat)
    : outcome bytes :=
    labeled_expand h (labeled_extract h salt ikm ikm_label suite) info info_label suite len.

  (* ---- KEMs ---- *)
  (* deriveKEMSharedSecret (nist_curves_kem.go, x25519_kem.go) *)
  Definition dhkem_derive (k : kem) (dhv sender_pub recipient_pub : bytes) : outcome bytes :=
    extract_and_expand (kem_hash k) [] dhv l_eae_prk (sender_pub ++ recipient_pub) l_shared_secret
      (kem_suite_id k) (hash_len (kem_hash k)).

  Definition xw_enc := xw_encap sha3_256 (mlkem_encap MLKEM768) (dh X25519) (dh_pub X25519).
  Definition xw_dec := xw_decap shake256 sha3_256 (mlkem_decap MLKEM768) (dh X25519) (dh_pub X25519).
  Definition xw_pub := xw_public shake256 (mlkem_pub MLKEM768) (dh_pub X25519).

  (* kem.encapsulate with the ephemeral secret made explicit *)
  Definition encap (k : kem) (pkR eph : bytes) : outcome (bytes * bytes) :=
    match k with
    | P256 | P384 | P521 | X25519 =>
        match dh k eph pkR with None => Err | Some dhv =>
        match dh_pub k eph with None => Err | Some enc =>
          bind (dhkem_derive k dhv enc pkR) (fun ss => Ok (ss, enc))
        end end
    | MLKEM768 | MLKEM1024 =>
        match mlkem_encap k pkR eph with None => Err | Some r => Ok r end
    | XWING => xw_enc pkR eph
    end.

  (* kem.decapsulate *)
  Definition decap (k : kem) (enc skR : bytes) : outcome bytes :=
    match k with
    | P256 | P384 | P521 | X25519 =>
        match dh k skR enc with None => Err | Some dhv =>
        match dh_pub k skR with None => Err | Some pkR =>
          dhkem_derive k dhv enc pkR
        end end
    | MLKEM768 | MLKEM1024 =>
        match mlkem_decap k skR enc with None => Err | Some ss => Ok ss end
    | XWING => xw_dec enc skR
    end.

  (* key.go: the public key bytes of a private key (NewPrivateKey) *)
  Definition public_from_private (k : kem) (sk : bytes) : outcome bytes :=
    match k with
    | P256 | P384 | P521 | X25519 =>
        match dh_pub k sk with None => Err | Some p => Ok p end
    | MLKEM768 | MLKEM1024 =>
        match mlkem_pub k sk with None => Err | Some p => Ok p end
    | XWING => xw_pub sk
    end.

  (* ---- context.go ---- *)
  (* createContext: (key, base_nonce) *)
  Definition key_schedule (k : kem) (d : kdf) (a : aead) (ss info : bytes) : outcome (bytes * bytes) :=
    let suite := hpke_suite_id k d a in
    let h := kdf_hash d in
    let psk_id_hash := labeled_extract h [] [] l_psk_id_hash suite in
    let info_hash := labeled_extract h [] info l_info_hash suite in
    let ctx := key_schedule_context base_mode psk_id_hash info_hash in
    let secret := labeled_extract h ss [] l_secret suite in
    bind (labeled_expand h secret ctx l_key suite (n_k a)) (fun key =>
    bind (labeled_expand h secret ctx l_base_nonce suite (n_n a)) (fun bn =>
    Ok (key, bn))).

  (* computeNonce: nonce = (0...0 || BE(seq)) xor base_nonce *)
  Definition compute_nonce (bn : bytes) (seq : N) : outcome bytes :=
    let sb := be_min seq in
    if Nat.ltb (length bn) (length sb) then Err
    else Ok (xorb (zeros (length bn - length sb) ++ sb) bn).

  (* incrementSequenceNumber: error once seq+1 > 2^(8*Nn) - 1 *)
  Definition increment_seq (a : aead) (seq : N) : outcome N :=
    if N.ltb (2 ^ (8 * N.of_nat (n_n a)) - 1) (seq + 1) then Err else Ok (seq + 1).

  (* aead.seal / aead.open (aes_gcm_aead.go, chacha20poly1305_aead.go); x/crypto
     chacha20poly1305 panics on a nonce of the wrong length *)
  Definition aead_seal (a : aead) (key nonce pt ad : bytes) : outcome bytes :=
    match a with
    | AES128GCM | AES256GCM =>
        if negb (Nat.eqb (length key) (n_k a)) then Err
        else if negb (Nat.eqb (length nonce) (n_n a)) then Err
        else if N.ltb gcm_max_plaintext (N.of_nat (length pt)) then Err
        else Ok (seal a key nonce ad pt)
    | CHACHA20POLY1305 =>
        if negb (Nat.eqb (length key) 32) then Err
        else if negb (Nat.eqb (length nonce) 12) then Panic
        else Ok (seal a key nonce ad pt)
    end.

  Definition aead_open (a : aead) (key nonce ct ad : bytes) : outcome bytes :=
    match a with
    | AES128GCM | AES256GCM =>
        if negb (Nat.eqb (length key) (n_k a)) then Err
        else if negb (Nat.eqb (length nonce) (n_n a)) then Err
        else match open a key nonce ad ct with Some p => Ok p | None => Err end
    | CHACHA20POLY1305 =>
        if negb (Nat.eqb (length key) 32) then Err
        else if negb (Nat.eqb (length nonce) 12) then Panic
        else match open a key nonce ad ct with Some p => Ok p | None => Err end
    end.

  (* context.seal / context.open on a fresh context (sequence number 0) *)
  Definition context_seal (a : aead) (key bn pt : bytes) : outcome bytes :=
    bind (compute_nonce bn 0) (fun nonce =>
    bind (aead_seal a key nonce pt []) (fun ct =>
    bind (increment_seq a 0) (fun _ => Ok ct))).

  Definition context_open (a : aead) (key bn ct : bytes) : outcome bytes :=
    bind (compute_nonce bn 0) (fun nonce =>
    bind (aead_open a key nonce ct []) (fun pt =>
    bind (increment_seq a 0) (fun _ => Ok pt))).

  (* ---- encrypt.go / decrypt.go (raw, no prefix) ---- *)
  Definition raw_encrypt (k : kem) (d : kdf) (a : aead) (pkR eph info pt : bytes) : outcome bytes :=
    if Nat.eqb (length pkR) 0 then Err else      (* NewEncrypt: empty recipient public key *)
    bind (encap k pkR eph) (fun '(ss, enc) =>
    bind (key_schedule k d a ss info) (fun '(key, bn) =>
    bind (context_seal a key bn pt) (fun ct =>
    Ok (enc ++ ct)))).

  Definition raw_decrypt (k : kem) (d : kdf) (a : aead) (skR c info : bytes) : outcome bytes :=
    if Nat.eqb (length skR) 0 then Err else      (* NewDecrypt: private key bytes are empty *)
    if Nat.ltb (length c) (n_enc k) then Err else
    bind (slice 0 (n_enc k) c) (fun enc =>
    bind (slice (n_enc k) (length c) c) (fun act =>
    bind (decap k enc skR) (fun ss =>
    bind (key_schedule k d a ss info) (fun '(key, bn) =>
    context_open a key bn act)))).

  (* ---- hybrid/hpke/hybrid_encrypt.go, hybrid_decrypt.go (with output prefix) ---- *)
  Definition hpke_encrypt (k : kem) (d : kdf) (a : aead) (prefix pkR eph info pt : bytes) : outcome bytes :=
    bind (raw_encrypt k d a pkR eph info pt) (fun raw => Ok (prefix ++ raw)).

  Definition hpke_decrypt (k : kem) (d : kdf) (a : aead) (prefix skR c info : bytes) : outcome bytes :=
    if Nat.ltb (length c) (length prefix) then Err else
    bind (slice 0 (length prefix) c) (fun p =>
    if negb (beq prefix p) then Err else
    bind (slice (length prefix) (length c) c) (fun rest =>
    raw_decrypt k d a skR rest info)).

  (* the ciphertext recomputed by the recipient from the encapsulated key found
     in c (used by the correspondence: must equal Tink's ciphertext byte for byte) *)
  Definition hpke_recompute (k : kem) (d : kdf) (a : aead) (prefix skR c info pt : bytes) : outcome bytes :=
    bind (slice (length prefix) (length prefix + n_enc k) c) (fun enc =>
    bind (decap k enc skR) (fun ss =>
    bind (key_schedule k d a ss info) (fun '(key, bn) =>
    bind (context_seal a key bn pt) (fun ct =>
    Ok (prefix ++ enc ++ ct))))).
End HPKE.
