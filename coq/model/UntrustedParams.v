(* C14 (stretch 2) — the PARAMETERS parsers of every registered key type
   (protoserialization.ParseParameters: KeyTemplate -> key.Parameters | error),
   the PRF-based deriver key parser built on them, and the key parsers that run
   ANOTHER parser on nested untrusted bytes, written with that detour:

   Go                                                          model
   */*/protoserialization.go parametersParser.Parse (29 files)  pp_* (one per type), parse_params (the dispatch
     + the NewParameters of each package                         of protoserialization.ParseParameters), params
   hybrid/ecies parseParameters (shared by the key parsers      ecies_params_of: runs the parameters parser the DEM
     and the parameters parser): Clone(AeadDem), prefix := RAW,   template names (whatever type it is), THEN compares the
     ParseParameters(dem), isAllowedDEMParameters                 result with the six allowed sets (dem_code)
   keyderivation/prfbasedkeyderivation protoserialization.go    parse_deriver (key), pp_deriver (parameters)
     keyParser.ParseKey, parametersParser.Parse, NewParameters,
     NewKey; keyderiver.go NewKeyDeriver                         prim_ok_x
   signature/compositemldsa ParseKey: ParseKey on both nested    parse_composite_x: the nested parser of WHATEVER type the
     KeyData first, the type assertion / parameter comparison      nested KeyData names runs first (recursively), the
     afterwards                                                    constructor refuses the result afterwards
   internal/protoserialization ParseKey                          parse_key_x / parse_key_full (recursion on fuel = the
                                                                 length of the value: every nested value is strictly
                                                                 shorter - proofs/UntrustedParamsProofs.v)
   keyset/handle.go keysetToEntries ... (as model/Untrusted.v)   xto_entry ... xread, xread_proto, xhandle_no_secrets,
                                                                 xread_no_secrets, xread_encrypted over key objects xkd

   model/Untrusted.v is NOT changed (model/Secrets.v, C13, is stated over it):
   its parse_key answers a PrfBasedDeriverKey with the fallback key, decides an
   ECIES DEM template by a shortcut (ecies_dem: only the four allowed type URLs
   are looked at) and refuses a composite's nested key of an unexpected type
   without running its parser.  proofs/UntrustedParamsProofs.v proves that the
   functions here, which take the detours the code takes, never reach Panic
   and agree with those shortcuts wherever the old model had an answer.

   Would-be panic sites are represented as in model/Untrusted.v: a checked
   operation that returns Panic on the bad input (set_prefix_raw: assignment
   through a nil KeyTemplate pointer; everything the nested parsers contain). *)
From Coq Require Import String Ascii List NArith Bool.
From Tink Require Import Bytes UntrustedConsts Untrusted.
Import ListNotations.
Open Scope list_scope.
Open Scope N_scope.

(* ---- constants of this file (anchors beside them).  rsa_min_bits_format is the
   constant of UntrustedConsts that proofs/ConstsTieC14.v ties to the regenerated
   source value (the signature packages' NewParameters is shared by key and
   parameters parsers); the others are HAND-COPIED literals outside that tie
   (listed in the note of checks/props/c14.py): a source edit to them is seen
   by the correspondence run only. ---- *)
Definition url_deriver : string := "type.googleapis.com/google.crypto.tink.PrfBasedDeriverKey".
Definition u_deriver : bytes := Eval vm_compute in bytes_of_string url_deriver.
Definition deriver_min_prf_key : N := 32.     (* keyderivation/internal/streamingprf minHKDFStreamingPRFKeySize (hand-copied) *)
Definition rsa_min_bits_format : N := rsa_min_bits_parse.   (* signature/rsassa{pkcs1,pss}/key.go NewParameters (tied); jwt/jwtrsassa{pkcs1,pss}/parameters.go repeat the literal 2048 (hand-copied) *)
Definition pf_unspecified : N := 0.           (* hybrid/ecies UnspecifiedPointFormat (X25519); a code of this model, not a proto number *)
Definition slh_sha2 : N := 1.                 (* proto/slh_dsa.proto SlhDsaHashType_SHA2 (hand-copied) *)
Definition slh_shake : N := 2.
Definition slh_fast : N := 1.                 (* SlhDsaSignatureType_FAST_SIGNING (hand-copied) *)
Definition slh_small : N := 2.

(* ------------------------------------------------------------------ *)
(* tinkpb.KeyTemplate { type_url = 1 (string); value = 2; output_prefix_type = 3 } *)
(* ------------------------------------------------------------------ *)
Record template := mkT { t_url : bytes; t_value : bytes; t_prefix : N }.
Definition template_of (fs : list field) : template := mkT (get_len 1 fs) (get_len 2 fs) (get_u32 3 fs).

(* proto.Unmarshal(b, &tinkpb.KeyTemplate{}) *)
Definition decode_template (b : bytes) : option template :=
  if wire_ok sch_keytemplate b then Some (template_of (fields_or_nil b)) else None.

(* What a parameters parser keeps: the key.Parameters object of each package
   as the tuple of its accessors.  [variant] is the prefix type the parameters
   serializer writes back (1 TINK, 2 LEGACY, 3 RAW, 4 CRUNCHY, 5
   WITH_ID_REQUIREMENT): the variant of the package, LEGACY already folded
   into CRUNCHY where the package has no legacy variant. *)
Inductive params :=
| QAesGcm (keylen variant : N)
| QAesGcmSiv (keylen variant : N)
| QAesCtrHmac (aes hmac iv tag hash variant : N)
| QChaCha (variant : N)
| QXChaCha (variant : N)
| QXAesGcm (salt variant : N)
| QAesSiv (keylen variant : N)
| QHmac (keylen tag hash variant : N)
| QAesCmac (keylen tag variant : N)
| QAesCmacPrf (keylen : N)
| QHkdfPrf (keylen hash : N) (salt : bytes)
| QHmacPrf (keylen hash : N)
| QEcdsa (curve hash enc variant : N)
| QEd25519 (variant : N)
| QRsaPkcs1 (bits hash e variant : N)
| QRsaPss (bits hash e salt variant : N)
| QMlDsa (inst variant : N)
| QSlhDsa (hash ks sig variant : N)
| QComposite (alg inst variant : N)
| QEcies (curve hash fmt dem variant : N) (salt : bytes)
| QHpke (kem kdf aead variant : N)
| QStreamGcmHkdf (ikm derived hash seg : N)
| QStreamCtrHmac (ikm derived hkdf hash tag seg : N)
| QJwtHmac (keylen alg variant : N)
| QJwtEcdsa (alg variant : N)
| QJwtRsa (pss : bool) (alg bits e variant : N)
| QJwtMlDsa (alg variant : N)
| QDeriver (prf derived : params).

Definition okq (c : bool) (p : params) : outcome params := if c then Ok p else Err.
Definition is_some {A} (o : option A) : bool := match o with Some _ => true | None => false end.

(* ---- variantFromProto of the packages ---- *)
(* aesgcm, aesgcmsiv, chacha20poly1305, xchacha20poly1305, aesctrhmac, aessiv, ecies: LEGACY is VariantCrunchy *)
Definition aead_variant (p : N) : option N :=
  if p =? pt_tink then Some pt_tink
  else if (p =? pt_crunchy) || (p =? pt_legacy) then Some pt_crunchy
  else if p =? pt_raw then Some pt_raw else None.
(* hmac, aescmac, ecdsa, ed25519, rsassapkcs1, rsassapss: four variants *)
Definition full_variant (p : N) : option N := if known_prefix p then Some p else None.
(* xaesgcm, slhdsa, compositemldsa: TINK and RAW only *)
Definition tink_raw_variant (p : N) : option N :=
  if (p =? pt_tink) || (p =? pt_raw) then Some p else None.
(* mldsa: TINK, RAW, WITH_ID_REQUIREMENT *)
Definition mldsa_variant (p : N) : option N :=
  if (p =? pt_tink) || (p =? pt_raw) || (p =? pt_with_id_requirement) then Some p else None.
(* hpke protoOutputPrefixTypeToVariant: TINK, CRUNCHY, RAW *)
Definition hpke_variant (p : N) : option N :=
  if (p =? pt_tink) || (p =? pt_crunchy) || (p =? pt_raw) then Some p else None.
(* jwt kidStrategyFromOutputPrefixType(prefix, hasCustomKID = false): TINK = Base64EncodedKeyIDAsKID, RAW = IgnoredKID *)
Definition jwt_variant (p : N) : option N := tink_raw_variant p.

(* ---- the leaf parsers: Unmarshal the XxxKeyFormat, version, variant, NewParameters ---- *)
Section Leaves.
Variable t : template.
Let v := t_value t.
Let f := fields_or_nil v.
Let prefix := t_prefix t.

(* AesGcmKeyFormat { key_size = 2; version = 3 }; NewParameters: 16, 24 or 32; IV 12 and tag 16 are fixed by the parser *)
Definition pp_aes_gcm : outcome params :=
  if negb (wire_ok sch_scalar v) then Err else
  if negb (get_u32 3 f =? 0) then Err else
  match aead_variant prefix with
  | None => Err
  | Some var => okq (aes_16_24_32 (get_u32 2 f)) (QAesGcm (get_u32 2 f) var)
  end.

(* AesGcmSivKeyFormat { key_size = 2; version = 1 } *)
Definition pp_aes_gcm_siv : outcome params :=
  if negb (wire_ok sch_scalar v) then Err else
  if negb (get_u32 1 f =? 0) then Err else
  match aead_variant prefix with
  | None => Err
  | Some var => okq (aes_16_32 (get_u32 2 f)) (QAesGcmSiv (get_u32 2 f) var)
  end.

(* ChaCha20Poly1305KeyFormat {} : no version field *)
Definition pp_chacha : outcome params :=
  if negb (wire_ok sch_scalar v) then Err else
  match aead_variant prefix with None => Err | Some var => Ok (QChaCha var) end.

(* XChaCha20Poly1305KeyFormat { version = 1 } *)
Definition pp_xchacha : outcome params :=
  if negb (wire_ok sch_scalar v) then Err else
  if negb (get_u32 1 f =? 0) then Err else
  match aead_variant prefix with None => Err | Some var => Ok (QXChaCha var) end.

(* XAesGcmKeyFormat { version = 1; params = 3 { salt_size = 1 } } *)
Definition pp_xaes_gcm : outcome params :=
  if negb (wire_ok sch_params3 v) then Err else
  if negb (get_u32 1 f =? 0) then Err else
  let salt := get_u32 1 (get_sub 3 f) in
  match tink_raw_variant prefix with
  | None => Err
  | Some var => okq ((xaes_min_salt <=? salt) && (salt <=? xaes_max_salt)) (QXAesGcm salt var)
  end.

(* AesCtrHmacAeadKeyFormat { aes_ctr_key_format = 1 { params = 1 { iv_size = 1 }; key_size = 2 };
                             hmac_key_format = 2 { params = 1 { hash = 1; tag_size = 2 }; key_size = 2; version = 3 } } *)
Definition pp_aes_ctr_hmac : outcome params :=
  if negb (wire_ok sch_ctr_hmac_format v) then Err else
  let ctr := get_sub 1 f in
  let hm := get_sub 2 f in
  let aes := get_u32 2 ctr in let iv := get_u32 1 (get_sub 1 ctr) in
  let hk := get_u32 2 hm in let hash := get_u32 1 (get_sub 1 hm) in let tag := get_u32 2 (get_sub 1 hm) in
  if negb (get_u32 3 hm =? 0) then Err else
  match aead_variant prefix, digest_size hash with
  | Some var, Some d =>
      okq (aes_16_24_32 aes && (ctr_min_iv <=? iv) && (iv <=? ctr_max_iv) && (ctrhmac_min_hmac_key <=? hk)
           && (ctrhmac_min_tag <=? tag) && (tag <=? d))
          (QAesCtrHmac aes hk iv tag hash var)
  | _, _ => Err
  end.

(* AesSivKeyFormat { key_size = 1; version = 2 }; "key template value is nil" for an empty value *)
Definition pp_aes_siv : outcome params :=
  if blen v =? 0 then Err else
  if negb (wire_ok sch_scalar v) then Err else
  if negb (get_u32 2 f =? 0) then Err else
  let k := get_u32 1 f in
  match aead_variant prefix with
  | None => Err
  | Some var => okq ((k =? siv_k32) || (k =? siv_k48) || (k =? siv_k64)) (QAesSiv k var)
  end.

(* HmacKeyFormat { params = 1 { hash = 1; tag_size = 2 }; key_size = 2; version = 3 } *)
Definition pp_hmac : outcome params :=
  if negb (wire_ok (Sch [(1, sch_scalar)] []) v) then Err else
  if negb (get_u32 3 f =? 0) then Err else
  let hash := get_u32 1 (get_sub 1 f) in let tag := get_u32 2 (get_sub 1 f) in let k := get_u32 2 f in
  match full_variant prefix, digest_size hash with
  | Some var, Some d =>
      okq ((hmac_min_key_parse <=? k) && (hmac_min_tag_parse <=? tag) && (tag <=? d)) (QHmac k tag hash var)
  | _, _ => Err
  end.

(* AesCmacKeyFormat { key_size = 1; params = 2 { tag_size = 1 } }: no version field *)
Definition pp_aes_cmac : outcome params :=
  if negb (wire_ok sch_params2 v) then Err else
  let k := get_u32 1 f in let tag := get_u32 1 (get_sub 2 f) in
  match full_variant prefix with
  | None => Err
  | Some var => okq (((k =? cmac_key_a) || (k =? cmac_key_b)) && (cmac_min_tag <=? tag) && (tag <=? cmac_max_tag))
                    (QAesCmac k tag var)
  end.

(* AesCmacPrfKeyFormat { key_size = 1; version = 2 }: RAW only *)
Definition pp_aes_cmac_prf : outcome params :=
  if negb (prefix =? pt_raw) then Err else
  if negb (wire_ok sch_scalar v) then Err else
  if negb (get_u32 2 f =? 0) then Err else
  let k := get_u32 1 f in
  okq ((k =? cmacprf_key_a) || (k =? cmacprf_key_b)) (QAesCmacPrf k).

(* HkdfPrfKeyFormat { params = 1 { hash = 1; salt = 2 }; key_size = 2; version = 3 } *)
Definition pp_hkdf_prf : outcome params :=
  if negb (prefix =? pt_raw) then Err else
  if negb (wire_ok (Sch [(1, sch_scalar)] []) v) then Err else
  if negb (get_u32 3 f =? 0) then Err else
  let hash := get_u32 1 (get_sub 1 f) in let k := get_u32 2 f in
  okq (is_some (digest_size hash) && (hkdf_min_key_parse <=? k)) (QHkdfPrf k hash (get_len 2 (get_sub 1 f))).

(* HmacPrfKeyFormat { params = 1 { hash = 1 }; key_size = 2; version = 3 } *)
Definition pp_hmac_prf : outcome params :=
  if negb (prefix =? pt_raw) then Err else
  if negb (wire_ok (Sch [(1, sch_scalar)] []) v) then Err else
  if negb (get_u32 3 f =? 0) then Err else
  let hash := get_u32 1 (get_sub 1 f) in let k := get_u32 2 f in
  okq (is_some (digest_size hash) && (hmacprf_min_key_parse <=? k)) (QHmacPrf k hash).

(* EcdsaKeyFormat { params = 2 { hash_type = 1; curve = 2; encoding = 3 }; version = 3 } *)
Definition pp_ecdsa : outcome params :=
  if negb (wire_ok sch_params2 v) then Err else
  if negb (get_u32 3 f =? 0) then Err else
  let p := get_sub 2 f in
  let hash := get_u32 1 p in let curve := get_u32 2 p in let enc := get_u32 3 p in
  okq (ecdsa_params_ok curve hash enc prefix) (QEcdsa curve hash enc prefix).

(* Ed25519KeyFormat { version = 1 } *)
Definition pp_ed25519 : outcome params :=
  if negb (wire_ok sch_scalar v) then Err else
  if negb (get_u32 1 f =? 0) then Err else
  match full_variant prefix with None => Err | Some var => Ok (QEd25519 var) end.

(* RsaSsaPkcs1KeyFormat { params = 1 { hash_type = 1 }; modulus_size_in_bits = 2; public_exponent = 3 }: no version *)
Definition pp_rsa_pkcs1 : outcome params :=
  if negb (wire_ok (Sch [(1, sch_scalar)] []) v) then Err else
  let hash := get_u32 1 (get_sub 1 f) in let bits := get_u32 2 f in
  let eo := rsa_exponent (get_len 3 f) in
  match full_variant prefix with
  | None => Err
  | Some var => okq (rsa_hash_ok hash && (rsa_min_bits_format <=? bits) && rsa_exponent_parse_ok eo)
                    (QRsaPkcs1 bits hash (exponent_value eo) var)
  end.

(* RsaSsaPssKeyFormat { params = 1 { sig_hash = 1; mgf1_hash = 2; salt_length = 3 (int32) }; modulus_size_in_bits = 2;
   public_exponent = 3 }: salt length >= 0 as a signed number (0 is allowed here; the KEY parser wants > 0) *)
Definition pp_rsa_pss : outcome params :=
  if negb (wire_ok (Sch [(1, sch_scalar)] []) v) then Err else
  let p := get_sub 1 f in
  let hash := get_u32 1 p in let mgf := get_u32 2 p in let salt := get_u32 3 p in
  let bits := get_u32 2 f in
  let eo := rsa_exponent (get_len 3 f) in
  match full_variant prefix with
  | None => Err
  | Some var => okq (rsa_hash_ok hash && rsa_hash_ok mgf && (mgf =? hash) && (salt <? 2147483648)
                     && (rsa_min_bits_format <=? bits) && rsa_exponent_parse_ok eo)
                    (QRsaPss bits hash (exponent_value eo) salt var)
  end.

(* MlDsaKeyFormat { version = 1; params = 2 { ml_dsa_instance = 1 } } *)
Definition pp_mldsa : outcome params :=
  if negb (wire_ok sch_params2 v) then Err else
  if negb (get_u32 1 f =? 0) then Err else
  let inst := get_u32 1 (get_sub 2 f) in
  match mldsa_variant prefix with
  | None => Err
  | Some var => okq ((inst =? mldsa_44) || (inst =? mldsa_65) || (inst =? mldsa_87)) (QMlDsa inst var)
  end.

(* SlhDsaKeyFormat { version = 1; params = 2 { key_size = 1 (int32); hash_type = 2; sig_type = 3 } } *)
Definition pp_slhdsa : outcome params :=
  if negb (wire_ok sch_params2 v) then Err else
  if negb (get_u32 1 f =? 0) then Err else
  let p := get_sub 2 f in
  let ks := get_u32 1 p in let hash := get_u32 2 p in let sig := get_u32 3 p in
  match tink_raw_variant prefix with
  | None => Err
  | Some var => okq (((hash =? slh_sha2) || (hash =? slh_shake)) && ((sig =? slh_fast) || (sig =? slh_small))
                     && ((ks =? slhdsa_key_a) || (ks =? slhdsa_key_b) || (ks =? slhdsa_key_c)))
                    (QSlhDsa hash ks sig var)
  end.

(* CompositeMlDsaKeyFormat { version = 1; params = 2 { ml_dsa_instance = 1; classical_algorithm = 2 } } *)
Definition pp_composite : outcome params :=
  if negb (wire_ok sch_params2 v) then Err else
  if negb (get_u32 1 f =? 0) then Err else
  let inst := get_u32 1 (get_sub 2 f) in let alg := get_u32 2 (get_sub 2 f) in
  match tink_raw_variant prefix with
  | None => Err
  | Some var => okq (composite_supported inst alg) (QComposite alg inst var)
  end.

(* HpkeKeyFormat { params = 1 { kem = 1; kdf = 2; aead = 3 } } *)
Definition pp_hpke : outcome params :=
  if negb (wire_ok (Sch [(1, sch_scalar)] []) v) then Err else
  let p := get_sub 1 f in
  let kem := get_u32 1 p in let kdf := get_u32 2 p in let aead := get_u32 3 p in
  match hpke_variant prefix with
  | None => Err
  | Some var => okq (inr kem_x25519 kem_mlkem1024 kem && inr 1 hpke_max_aead aead && inr 1 hpke_max_kdf kdf)
                    (QHpke kem kdf aead var)
  end.

(* AesGcmHkdfStreamingKeyFormat { version = 3; params = 1 { ciphertext_segment_size = 1; derived_key_size = 2;
   hkdf_hash_type = 3 }; key_size = 2 }: RAW only *)
Definition pp_stream_gcm_hkdf : outcome params :=
  if negb (prefix =? pt_raw) then Err else
  if negb (wire_ok (Sch [(1, sch_scalar)] []) v) then Err else
  if negb (get_u32 3 f =? 0) then Err else
  let p := get_sub 1 f in
  let seg := get_u32 1 p in let derived := get_u32 2 p in let hash := get_u32 3 p in let ikm := get_u32 2 f in
  okq (stream_hash_ok hash && stream_derived_ok derived && (derived <=? ikm)
       && int32_at_least seg (derived + stream_gcm_overhead + 1))
      (QStreamGcmHkdf ikm derived hash seg).

(* AesCtrHmacStreamingKeyFormat { version = 3; params = 1 { segment = 1; derived = 2; hkdf_hash = 3;
   hmac_params = 4 { hash = 1; tag_size = 2 } }; key_size = 2 } *)
Definition pp_stream_ctr_hmac : outcome params :=
  if negb (prefix =? pt_raw) then Err else
  if negb (wire_ok (Sch [(1, Sch [(4, sch_scalar)] [])] []) v) then Err else
  if negb (get_u32 3 f =? 0) then Err else
  let p := get_sub 1 f in
  let seg := get_u32 1 p in let derived := get_u32 2 p in let hkdf := get_u32 3 p in
  let hash := get_u32 1 (get_sub 4 p) in let tag := get_u32 2 (get_sub 4 p) in let ikm := get_u32 2 f in
  okq (stream_hash_ok hkdf && stream_hash_ok hash && stream_derived_ok derived && (derived <=? ikm)
       && (stream_min_tag <=? tag)
       && match digest_size hash with Some dg => tag <=? dg | None => false end
       && int32_at_least seg (derived + stream_ctr_overhead + tag + 1))
      (QStreamCtrHmac ikm derived hkdf hash tag seg).

(* JwtHmacKeyFormat { version = 1; algorithm = 2; key_size = 3 } *)
Definition pp_jwt_hmac : outcome params :=
  if negb (wire_ok sch_scalar v) then Err else
  if negb (get_u32 1 f =? 0) then Err else
  let alg := get_u32 2 f in let k := get_u32 3 f in
  match jwt_variant prefix with
  | None => Err
  | Some var => okq (jwt_alg_ok alg && (jwt_hmac_min_key alg <=? k)) (QJwtHmac k alg var)
  end.

(* JwtEcdsaKeyFormat { version = 1; algorithm = 2 } *)
Definition pp_jwt_ecdsa : outcome params :=
  if negb (wire_ok sch_scalar v) then Err else
  if negb (get_u32 1 f =? 0) then Err else
  match jwt_variant prefix with
  | None => Err
  | Some var => okq (jwt_alg_ok (get_u32 2 f)) (QJwtEcdsa (get_u32 2 f) var)
  end.

(* JwtRsaSsaPkcs1KeyFormat / JwtRsaSsaPssKeyFormat { version = 1; algorithm = 2; modulus_size_in_bits = 3; public_exponent = 4 } *)
Definition pp_jwt_rsa (pss : bool) : outcome params :=
  if negb (wire_ok sch_scalar v) then Err else
  if negb (get_u32 1 f =? 0) then Err else
  let alg := get_u32 2 f in let bits := get_u32 3 f in
  let eo := rsa_exponent (get_len 4 f) in
  match jwt_variant prefix with
  | None => Err
  | Some var => okq (jwt_alg_ok alg && (rsa_min_bits_format <=? bits) && rsa_exponent_parse_ok eo)
                    (QJwtRsa pss alg bits (exponent_value eo) var)
  end.

(* JwtMlDsaKeyFormat { version = 1; algorithm = 2 } *)
Definition pp_jwt_mldsa : outcome params :=
  if negb (wire_ok sch_scalar v) then Err else
  if negb (get_u32 1 f =? 0) then Err else
  let alg := get_u32 2 f in
  match jwt_variant prefix with
  | None => Err
  | Some var => okq ((alg =? jwt_mldsa_44) || (alg =? jwt_mldsa_65) || (alg =? jwt_mldsa_87)) (QJwtMlDsa alg var)
  end.

End Leaves.

(* ---- ECIES: hybrid/ecies/protoserialization.go parseParameters ---- *)
(* demTemplate := proto.Clone(GetAeadDem()).( *tinkpb.KeyTemplate); demTemplate.OutputPrefixType = RAW:
   an assignment through the pointer - a nil KeyTemplate pointer panics *)
Definition set_prefix_raw (o : option template) : outcome template :=
  match o with
  | None => Panic
  | Some tm => Ok (mkT (t_url tm) (t_value tm) pt_raw)
  end.

(* isAllowedDEMParameters: Equal with one of the six parameter objects of
   mustCreateAllowedDEMParameters (codes of UntrustedConsts) *)
Definition dem_code (p : params) : option N :=
  match p with
  | QAesGcm k var =>
      if negb (var =? pt_raw) then None
      else if k =? dem_gcm_key_a then Some dem_aes128_gcm
      else if k =? dem_gcm_key_b then Some dem_aes256_gcm else None
  | QAesSiv k var => if (var =? pt_raw) && (k =? dem_siv_key) then Some dem_aes256_siv else None
  | QXChaCha var => if var =? pt_raw then Some dem_xchacha else None
  | QAesCtrHmac aes hk iv tag hash var =>
      if (var =? pt_raw) && (hk =? dem_ctr_hmac_key) && (iv =? dem_ctr_iv) && (hash =? h_sha256) then
        if (aes =? dem_ctr128_aes) && (tag =? dem_ctr128_tag) then Some dem_aes128_ctr_hmac
        else if (aes =? dem_ctr256_aes) && (tag =? dem_ctr256_tag) then Some dem_aes256_ctr_hmac
        else None
      else None
  | _ => None
  end.

(* protoParams.GetDemParams().GetAeadDem(): a pointer, nil when the field is absent *)
Definition aead_dem_ptr (ps : list field) : option template :=
  if has_sub 2 (get_sub 2 ps) then Some (template_of (get_sub 2 (get_sub 2 ps))) else None.

(* parseParameters(params : EciesAeadHkdfParams, outputPrefixType); pp = protoserialization.ParseParameters *)
Definition ecies_params_of (pp : template -> outcome params) (ps : list field) (prefix : N) : outcome params :=
  let kem := get_sub 1 ps in
  let curve := get_u32 1 kem in
  let hash := get_u32 2 kem in
  let fmt := get_u32 3 ps in
  if negb (ecies_curve_ok curve && is_some (digest_size hash) && is_some (aead_variant prefix)
           && ecies_format_ok fmt) then Err
  else if negb (has_sub 2 ps) then Err                          (* nil DEM params *)
  else if negb (is_some (aead_dem_ptr ps)) then Err             (* nil AEAD DEM *)
  else
    bind (set_prefix_raw (aead_dem_ptr ps)) (fun tm =>
    bind (pp tm) (fun dp =>
    if (curve =? c_x25519) && negb (fmt =? pf_compressed) then Err
    else match dem_code dp, aead_variant prefix with        (* NewParameters: isAllowedDEMParameters *)
         | Some dem, Some var =>
             Ok (QEcies curve hash (if curve =? c_x25519 then pf_unspecified else fmt) dem var (get_len 11 kem))
         | _, _ => Err
         end)).

(* EciesAeadHkdfKeyFormat { params = 1 } *)
Definition pp_ecies (pp : template -> outcome params) (t : template) : outcome params :=
  let v := t_value t in
  if negb (wire_ok (Sch [(1, sch_ecies_params)] []) v) then Err else
  ecies_params_of pp (get_sub 1 (fields_or_nil v)) (t_prefix t).

(* ---- PRF-based deriver: PrfBasedDeriverKeyFormat { prf_key_template = 1; params = 2 { derived_key_template = 1 } } ---- *)
Definition sch_deriver_format := Sch [(1, sch_keytemplate); (2, Sch [(1, sch_keytemplate)] [])] [].

(* prfbasedkeyderivation.NewParameters: the PRF parameters are of one of the three PRF packages *)
Definition prf_params_kind (p : params) : bool :=
  match p with QAesCmacPrf _ | QHkdfPrf _ _ _ | QHmacPrf _ _ => true | _ => false end.

Definition pp_deriver (pp : template -> outcome params) (t : template) : outcome params :=
  let v := t_value t in
  let f := fields_or_nil v in
  if negb (wire_ok sch_deriver_format v) then Err else
  let dt := template_of (get_sub 1 (get_sub 2 f)) in
  if negb (t_prefix t =? t_prefix dt) then Err else
  bind (pp (template_of (get_sub 1 f))) (fun prf =>
  bind (pp dt) (fun d =>
  if prf_params_kind prf then Ok (QDeriver prf d) else Err)).

(* protoserialization.ParseParameters: the parser registered for the type URL
   (a private-key URL for the asymmetric types), no parser = error.  fuel
   bounds the nesting (ECIES DEM template, deriver templates); S (length of the
   value) is always enough (proofs: parse_params_fuel).  Running out of fuel is
   represented as Err, not as a fourth outcome: parse_params_fuel (any two fuels
   above the length of the value give the same answer) is why that Err never
   decides - the answer of parse_params_full is never the fuel's. *)
Fixpoint parse_params (fuel : nat) (t : template) : outcome params :=
  match fuel with
  | O => Err
  | S fl =>
      let u := t_url t in
      if beq u u_aes_gcm then pp_aes_gcm t
      else if beq u u_aes_siv then pp_aes_siv t
      else if beq u u_xchacha then pp_xchacha t
      else if beq u u_aes_ctr_hmac then pp_aes_ctr_hmac t
      else if beq u u_aes_gcm_siv then pp_aes_gcm_siv t
      else if beq u u_chacha then pp_chacha t
      else if beq u u_xaes_gcm then pp_xaes_gcm t
      else if beq u u_hmac then pp_hmac t
      else if beq u u_aes_cmac then pp_aes_cmac t
      else if beq u u_aes_cmac_prf then pp_aes_cmac_prf t
      else if beq u u_hkdf_prf then pp_hkdf_prf t
      else if beq u u_hmac_prf then pp_hmac_prf t
      else if beq u u_ecdsa_priv then pp_ecdsa t
      else if beq u u_ed25519_priv then pp_ed25519 t
      else if beq u u_rsa_pkcs1_priv then pp_rsa_pkcs1 t
      else if beq u u_rsa_pss_priv then pp_rsa_pss t
      else if beq u u_mldsa_priv then pp_mldsa t
      else if beq u u_slhdsa_priv then pp_slhdsa t
      else if beq u u_composite_priv then pp_composite t
      else if beq u u_hpke_priv then pp_hpke t
      else if beq u u_stream_gcm_hkdf then pp_stream_gcm_hkdf t
      else if beq u u_stream_ctr_hmac then pp_stream_ctr_hmac t
      else if beq u u_jwt_hmac then pp_jwt_hmac t
      else if beq u u_jwt_ecdsa_priv then pp_jwt_ecdsa t
      else if beq u u_jwt_rsa_pkcs1_priv then pp_jwt_rsa t false
      else if beq u u_jwt_rsa_pss_priv then pp_jwt_rsa t true
      else if beq u u_jwt_mldsa_priv then pp_jwt_mldsa t
      else if beq u u_ecies_priv then pp_ecies (parse_params fl) t
      else if beq u u_deriver then pp_deriver (parse_params fl) t
      else Err
  end.

Definition parse_params_full (t : template) : outcome params := parse_params (S (length (t_value t))) t.

(* Parameters.HasIDRequirement() *)
Fixpoint params_has_idreq (p : params) : bool :=
  match p with
  | QAesGcm _ var | QAesGcmSiv _ var | QAesCtrHmac _ _ _ _ _ var | QChaCha var | QXChaCha var | QXAesGcm _ var
  | QAesSiv _ var | QHmac _ _ _ var | QAesCmac _ _ var | QEcdsa _ _ _ var | QEd25519 var | QRsaPkcs1 _ _ _ var
  | QRsaPss _ _ _ _ var | QMlDsa _ var | QSlhDsa _ _ _ var | QComposite _ _ var | QEcies _ _ _ _ var _
  | QHpke _ _ _ var | QJwtHmac _ _ var | QJwtEcdsa _ var | QJwtRsa _ _ _ _ var | QJwtMlDsa _ var => negb (var =? pt_raw)
  | QAesCmacPrf _ | QHkdfPrf _ _ _ | QHmacPrf _ _ | QStreamGcmHkdf _ _ _ _ | QStreamCtrHmac _ _ _ _ _ _ => false
  | QDeriver _ d => params_has_idreq d
  end.

(* the output prefix type protoserialization.SerializeParameters writes for the object *)
Fixpoint params_prefix (p : params) : N :=
  match p with
  | QAesGcm _ var | QAesGcmSiv _ var | QAesCtrHmac _ _ _ _ _ var | QChaCha var | QXChaCha var | QXAesGcm _ var
  | QAesSiv _ var | QHmac _ _ _ var | QAesCmac _ _ var | QEcdsa _ _ _ var | QEd25519 var | QRsaPkcs1 _ _ _ var
  | QRsaPss _ _ _ _ var | QMlDsa _ var | QSlhDsa _ _ _ var | QComposite _ _ var | QEcies _ _ _ _ var _
  | QHpke _ _ _ var | QJwtHmac _ _ var | QJwtEcdsa _ var | QJwtRsa _ _ _ _ var | QJwtMlDsa _ var => var
  | QAesCmacPrf _ | QHkdfPrf _ _ _ | QHmacPrf _ _ | QStreamGcmHkdf _ _ _ _ | QStreamCtrHmac _ _ _ _ _ _ => pt_raw
  | QDeriver _ d => params_prefix d
  end.

(* ------------------------------------------------------------------ *)
(* key parsers that run another parser on nested bytes                 *)
(* ------------------------------------------------------------------ *)
(* a key object: one of model/Untrusted.v, or a PRF-based deriver key (its PRF
   key object and the parameters of the keys it derives) *)
Inductive xkd := XBase (d : pkd) | XDeriver (prf : pkd) (dp : params).

Definition lift (o : outcome pkd) : outcome xkd := bind o (fun d => Ok (XBase d)).

Section XKeys.
Variable L : stdlib.

(* ---- ECIES keys with the DEM template parsed by its own parameters parser ---- *)
(* parsePublicKey *)
Definition ecies_pub_of_x (fs : list field) (prefix idreq : N) : outcome (N * N * bytes) :=
  if negb (get_u32 1 fs =? 0) then Err else
  bind (ecies_params_of parse_params_full (get_sub 2 fs) prefix) (fun q =>
  match q with
  | QEcies curve _ _ dem _ _ =>
      let pk := if curve =? c_x25519 then Ok (get_len 3 fs)
                else match coord_size curve with
                     | None => Err
                     | Some c =>
                         bind (fixed_size (get_len 3 fs) c) (fun x =>
                         bind (fixed_size (get_len 4 fs) c) (fun y => Ok (4 :: x ++ y)))
                     end in
      bind pk (fun pt =>
      (* NewPublicKey *)
      if negb (negb (prefix =? pt_raw) || (idreq =? 0)) then Err
      else if ec_point_ok L curve pt then Ok (curve, dem, pt) else Err)
  | _ => Err
  end).

Definition parse_ecies_pub_x (kd : keydata) (prefix idreq : N) : outcome pkd :=
  let v := kd_value kd in
  if negb (kd_mat kd =? km_public) then Err else
  if negb (wire_ok sch_ecies_pub v) then Err else
  bind (ecies_pub_of_x (fields_or_nil v) prefix idreq) (fun r =>
    match r with (curve, dem, pt) => Ok (PEcies false curve dem pt) end).

Definition parse_ecies_priv_x (kd : keydata) (prefix idreq : N) : outcome pkd :=
  let v := kd_value kd in
  let fs := fields_or_nil v in
  if negb (kd_mat kd =? km_private) then Err else
  if negb (wire_ok sch_ecies_priv v) then Err else
  if negb (get_u32 1 fs =? 0) then Err else
  bind (ecies_pub_of_x (get_sub 2 fs) prefix idreq) (fun r =>
    match r with (curve, dem, pt) =>
      let priv := if curve =? c_x25519 then Ok (get_len 3 fs)
                  else match coord_size curve with
                       | None => Err
                       | Some c => fixed_size (get_len 3 fs) c
                       end in
      bind priv (fun d =>
      match ec_pub_of_priv L curve d with
      | None => Err
      | Some pt' => if negb (ec_point_ok L curve pt) then Err
                    else if beq pt' pt then Ok (PEcies true curve dem pt) else Err
      end)
    end).

(* ---- composite ML-DSA with the nested parsers run first ---- *)
(* parsedMLDSAKey.( *mldsa.PrivateKey) / .( *mldsa.PublicKey) *)
Definition is_mldsa (private : bool) (k : xkd) : bool :=
  match k with
  | XBase PMlDsaPriv => private
  | XBase PMlDsaPub => negb private
  | _ => false
  end.

(* rec = protoserialization.ParseKey on the nested KeyData (any registered
   parser, or the fallback key) *)
Definition parse_composite_x (rec : keydata -> N -> N -> outcome xkd)
           (private : bool) (kd : keydata) (prefix idreq : N) : outcome xkd :=
  let v := kd_value kd in
  let fs := fields_or_nil v in
  if negb (kd_mat kd =? (if private then km_private else km_public)) then Err else
  if negb (wire_ok sch_composite v) then Err else
  let inst := get_u32 1 (get_sub 4 fs) in
  let alg := get_u32 2 (get_sub 4 fs) in
  let mkd := keydata_of (get_sub 2 fs) in
  let ckd := keydata_of (get_sub 3 fs) in
  if negb ((get_u32 1 fs =? 0) && ((prefix =? pt_tink) || (prefix =? pt_raw))
           && composite_supported inst alg) then Err
  else if negb (has_sub 2 fs) then Err                   (* ml-dsa key data is nil *)
  else
    bind (rec mkd pt_raw 0) (fun mk =>
    if negb (is_mldsa private mk) then Err               (* the type assertion *)
    else if negb (has_sub 3 fs) then Err                 (* classical key data is nil *)
    else
      bind (rec ckd pt_raw 0) (fun ck =>
      let mfs := fields_or_nil (kd_value mkd) in
      let minst := if private then get_u32 1 (get_sub 3 (get_sub 3 mfs)) else get_u32 1 (get_sub 3 mfs) in
      match ck with
      | XBase cd =>
          (* NewPublicKey / NewPrivateKey: the classical key's parameters, then the ML-DSA key's *)
          bind (composite_of_classical private alg cd) (fun d =>
          if negb (minst =? inst) then Err else Ok (XBase d))
      | XDeriver _ _ => Err                              (* no PublicKey(); parameters of another type *)
      end)).

(* ---- PRF-based deriver key: PrfBasedDeriverKey { version = 1; prf_key = 2 (KeyData);
   params = 3 { derived_key_template = 1 (KeyTemplate) } } ---- *)
Definition sch_deriver_key := Sch [(2, sch_keydata); (3, Sch [(1, sch_keytemplate)] [])] [].

(* NewParameters / NewKey: the PRF key is an aescmacprf, hkdfprf or hmacprf key *)
Definition prf_key_kind (d : pkd) : bool :=
  match d with PHkdfPrf _ _ | PHmacPrf _ _ | PAesCmacPrf _ => true | _ => false end.

Definition parse_deriver (rec : keydata -> N -> N -> outcome xkd)
           (kd : keydata) (prefix idreq : N) : outcome xkd :=
  let v := kd_value kd in
  let fs := fields_or_nil v in
  if negb (kd_mat kd =? km_symmetric) then Err else
  if negb (wire_ok sch_deriver_key v) then Err else
  if negb (get_u32 1 fs =? 0) then Err else
  let tm := template_of (get_sub 1 (get_sub 3 fs)) in
  if negb (t_prefix tm =? prefix) then Err else            (* inconsistent output prefix type *)
  bind (parse_params_full tm) (fun dp =>
  (* NewKeySerialization(prf_key, RAW, 0); ParseKey: the parser of whatever type the nested KeyData names *)
  bind (rec (keydata_of (get_sub 2 fs)) pt_raw 0) (fun pk =>
  match pk with
  | XBase d =>
      if negb (prf_key_kind d) then Err                     (* NewParameters: invalid PRF parameters type *)
      else if negb (params_has_idreq dp) && negb (idreq =? 0) then Err    (* NewKey *)
      else Ok (XDeriver d dp)
  | XDeriver _ _ => Err
  end)).

(* protoserialization.ParseKey.  A nested value is a field of a field of the
   value: strictly shorter, so fuel = S (length value) is never what stops the
   recursion (proofs: parse_key_x_flat; out-of-fuel is Err here too, and
   parse_key_x_flat - every fuel above the length gives parse_key_flat, a
   function without fuel - is why it never decides). *)
Fixpoint parse_key_x (fuel : nat) (kd : keydata) (prefix idreq : N) : outcome xkd :=
  match fuel with
  | O => Err
  | S fl =>
      if url_is kd u_deriver then parse_deriver (parse_key_x fl) kd prefix idreq
      else if url_is kd u_composite_pub then parse_composite_x (parse_key_x fl) false kd prefix idreq
      else if url_is kd u_composite_priv then parse_composite_x (parse_key_x fl) true kd prefix idreq
      else if url_is kd u_ecies_pub then lift (parse_ecies_pub_x kd prefix idreq)
      else if url_is kd u_ecies_priv then lift (parse_ecies_priv_x kd prefix idreq)
      else lift (parse_key_base L kd prefix idreq)
  end.

Definition parse_key_full (kd : keydata) (prefix idreq : N) : outcome xkd :=
  parse_key_x (S (length (kd_value kd))) kd prefix idreq.

(* the same answer without recursion: the shortcuts of model/Untrusted.v for
   every type it models, the deriver parser with its nested key handed to
   model/Untrusted.v's parse_key (proved equal to parse_key_full) *)
Definition parse_key_flat (kd : keydata) (prefix idreq : N) : outcome xkd :=
  if url_is kd u_deriver then parse_deriver (fun k p i => lift (parse_key L k p i)) kd prefix idreq
  else lift (parse_key L kd prefix idreq).

(* the primitive constructor: prfbasedkeyderivation.NewKeyDeriver wants an HKDF
   PRF key; streamingprf.NewHKDFStreamingPRF: SHA256 or SHA512, key >= 32 bytes *)
Definition prim_ok_x (k : xkd) : outcome bool :=
  match k with
  | XBase d => prim_ok L d
  | XDeriver (PHkdfPrf hash kl) _ =>
      Ok ((deriver_min_prf_key <=? kl) && ((hash =? h_sha256) || (hash =? h_sha512)))
  | XDeriver _ _ => Ok false
  end.

(* ------------------------------------------------------------------ *)
(* keyset/handle.go over the key objects xkd                            *)
(* ------------------------------------------------------------------ *)
Record xentry := mkXE { xid : N; xstatus : N; xprim : bool; xreq : option N;
                        xprefix : N; xurl : bytes; xvalue : bytes; xmat : N; xkey : xkd }.
Definition xhandle := list xentry.

Definition xto_entry (primary : N) (k : pkey) : outcome xentry :=
  match k_data k with
  | None => Err
  | Some kd =>
      let idreq := if k_prefix k =? pt_raw then 0 else k_id k in
      bind (parse_key_full kd (k_prefix k) idreq) (fun d =>
      if negb (known_status (k_status k)) then Err
      else
        Ok (mkXE (k_id k) (k_status k) (k_id k =? primary)
                 (if k_prefix k =? pt_raw then None else Some (k_id k))
                 (k_prefix k) (kd_url kd) (kd_value kd) (kd_mat kd) d))
  end.

Fixpoint xto_entries (primary : N) (keys : list (option pkey)) : outcome (list xentry) :=
  match keys with
  | [] => Ok []
  | None :: _ => Err
  | Some k :: t =>
      bind (xto_entry primary k) (fun e =>
      bind (xto_entries primary t) (fun es => Ok (e :: es)))
  end.

Definition xnew_from_entries (es : list xentry) : outcome xhandle :=
  if existsb (fun e => negb (known_status (xstatus e))) es then Err
  else if existsb xprim es then Ok es else Err.

Definition xhandle_from_proto (ks : option keyset) : outcome xhandle :=
  if validate ks then
    match ks with
    | None => Err
    | Some k => bind (xto_entries (ks_primary k) (ks_keys k)) xnew_from_entries
    end
  else Err.

Definition xread (b : bytes) : outcome xhandle :=
  match decode_keyset b with
  | None => Err
  | Some ks => match ks_keys ks with [] => Err | _ => xhandle_from_proto (Some ks) end
  end.

Definition xread_proto (ks : option keyset) : outcome xhandle :=
  match ks with
  | None => Err
  | Some k => match ks_keys k with [] => Err | _ => xhandle_from_proto ks end
  end.

(* the entry of model/Untrusted.v an entry with a key object of that model stands for *)
Definition base_entry (e : xentry) (d : pkd) : entry :=
  mkE (xid e) (xstatus e) (xprim e) (xreq e) (xprefix e) (xurl e) (xvalue e) (xmat e) d
      (modelled_url (mkKD (xurl e) (xvalue e) (xmat e))).

(* the prefix type the handle reports (KeysetInfo re-serialises the key): the
   deriver's serializer writes the prefix type of the re-serialised derived key template *)
Definition xshown_prefix (e : xentry) : N :=
  match xkey e with
  | XBase d => shown_prefix (base_entry e d)
  | XDeriver _ dp => params_prefix dp
  end.

(* Key.IDRequirement(): (k.idRequirement, parameters.HasIDRequirement()) *)
Definition xshown_req (e : xentry) : option N :=
  match xkey e with
  | XBase d => shown_req (base_entry e d)
  | XDeriver _ dp => if params_has_idreq dp then Some (if xprefix e =? pt_raw then 0 else xid e) else None
  end.

(* the material type the serializer writes: "PRF-based deriver keys are considered symmetric" *)
Definition xout_material (e : xentry) : N :=
  match xkey e with
  | XBase d => out_material (base_entry e d)
  | XDeriver _ _ => km_symmetric
  end.

Definition xhandle_has_secrets (h : xhandle) : bool :=
  existsb (fun e => secret_material (xout_material e)) h.

Definition xhandle_no_secrets (ks : option keyset) : outcome xhandle :=
  match ks with
  | None => Err
  | Some k =>
      if has_secrets k then Err
      else bind (xhandle_from_proto ks) (fun h => if xhandle_has_secrets h then Err else Ok h)
  end.

Definition xread_no_secrets (b : bytes) : outcome xhandle :=
  match decode_keyset b with
  | None => Err
  | Some ks => xhandle_no_secrets (Some ks)
  end.

Definition xread_encrypted (kek_dec : bytes -> bytes -> option bytes) (b ad : bytes) : outcome xhandle :=
  match decode_encrypted b with
  | None => Err
  | Some ct =>
      match kek_dec ct ad with
      | None => Err
      | Some pt =>
          match decode_keyset pt with
          | None => Err
          | Some ks => xhandle_from_proto (Some ks)
          end
      end
  end.

Definition usable_x (kd : keydata) (prefix idreq : N) : bool :=
  match parse_key_full kd prefix idreq with
  | Ok d => match prim_ok_x d with Ok true => true | _ => false end
  | _ => false
  end.

(* embedding of the handles of model/Untrusted.v *)
Definition embed_entry (e : entry) : xentry :=
  mkXE (eid e) (estatus e) (eprim e) (ereq e) (eprefix e) (eurl e) (evalue e) (emat e) (XBase (ekey e)).

Definition any_deriver (ks : keyset) : bool :=
  existsb (fun k => match k with
                    | Some k => match k_data k with Some kd => url_is kd u_deriver | None => false end
                    | None => false
                    end) (ks_keys ks).

End XKeys.
