(* Executable model of the tink-go MAC stack, written after the code:
     internal/mac/hmac/hmac.go        (New, ValidateHMACParams, ComputeMAC, VerifyMAC)
     mac/subtle/hmac.go, cmac.go      (NewHMAC, NewAESCMAC, ValidateCMACParams, Compute/VerifyMAC)
     internal/mac/aescmac/aescmac.go  (New, Compute: model/Cmac.v)
     mac/hmac/{parameters,key,mac}.go, mac/aescmac/{parameters,key,mac}.go
                                      (NewParameters, NewKey, NewMAC, fullMAC)
     internal/outputprefix            (Tink / Legacy prefixes)
     mac/mac_factory.go               (fullMACAdapter, wrappedMAC, prefix map lookup)
   The hash functions and the AES block encryption are Section variables
   (stdlib oracle at run time); HMAC itself is the RFC 2104 transcription of
   model/Hmac.v.  No proofs here: proofs/MacProofs.v. *)
From Coq Require Import List NArith Bool Arith.
From Tink Require Import Bytes Cmac Hmac.
Import ListNotations.
Open Scope N_scope.

Inductive variant := VTink | VCrunchy | VLegacy | VNoPrefix.

Definition is_legacy (v : variant) : bool := match v with VLegacy => true | _ => false end.
Definition is_noprefix (v : variant) : bool := match v with VNoPrefix => true | _ => false end.

(* internal/outputprefix: Tink = 0x01 || be32(id); Legacy (CRUNCHY and LEGACY) = 0x00 || be32(id) *)
Definition output_prefix (v : variant) (id : N) : bytes :=
  match v with
  | VTink => 1 :: be_bytes 4 id
  | VCrunchy | VLegacy => 0 :: be_bytes 4 id
  | VNoPrefix => []
  end.

(* a raw MAC object: the full-width MAC function of its key and the configured tag size *)
Record rawmac := mkRaw { rfull : bytes -> bytes; rtag : nat }.

(* tag[:tagSize]  /  Compute(data)[:tagLength] *)
Definition raw_compute (r : rawmac) (m : bytes) : bytes := firstn (rtag r) (rfull r m).
(* hmac.Equal(expected, mac)  /  subtle.ConstantTimeCompare(mac, computed) == 1:
   equal length and equal contents *)
Definition raw_verify (r : rawmac) (mac m : bytes) : bool := beq (raw_compute r m) mac.

(* what the factory and the callers see: a tink.MAC with the prefix it was inserted under *)
Record prim := mkPrim { pprefix : bytes; pcompute : bytes -> bytes; pverify : bytes -> bytes -> bool }.

(* mac/hmac/mac.go and mac/aescmac/mac.go: fullMAC *)
Record fullmac := mkFull { fraw : rawmac; fprefix : bytes; flegacy : bool }.

Definition fmessage (f : fullmac) (msg : bytes) : bytes :=
  if flegacy f then msg ++ [0] else msg.

Definition full_compute (f : fullmac) (data : bytes) : bytes :=
  fprefix f ++ raw_compute (fraw f) (fmessage f data).

Definition full_verify (f : fullmac) (mac data : bytes) : bool :=
  if Nat.ltb (length mac) (length (fprefix f)) then false
  else if negb (beq (firstn (length (fprefix f)) mac) (fprefix f)) then false
  else raw_verify (fraw f) (skipn (length (fprefix f)) mac) (fmessage f data).

Definition prim_of_full (f : fullmac) : prim :=
  mkPrim (fprefix f) (full_compute f) (full_verify f).

(* mac/mac_factory.go: fullMACAdapter over a raw primitive (used for keys whose
   primitive comes from a key manager / legacy config) *)
Definition adapter_data (f : fullmac) (data : bytes) : bytes :=
  if flegacy f then data ++ [0] else data.

Definition adapter_compute (f : fullmac) (data : bytes) : bytes :=
  let d := adapter_data f data in
  let mac := raw_compute (fraw f) d in
  fprefix f ++ mac.

Definition adapter_verify (f : fullmac) (mac data : bytes) : bool :=
  if Nat.ltb (length mac) (length (fprefix f)) then false
  else if negb (beq (firstn (length (fprefix f)) mac) (fprefix f)) then false
  else let d := adapter_data f data in
       raw_verify (fraw f) (skipn (length (fprefix f)) mac) d.

Definition prim_of_adapter (f : fullmac) : prim :=
  mkPrim (fprefix f) (adapter_compute f) (adapter_verify f).

Definition prim_of_raw (r : rawmac) : prim :=
  mkPrim [] (raw_compute r) (raw_verify r).

(* mac/mac_factory.go: wrappedMAC.  Entries are the primitives of the enabled
   keys in keyset order; the prefix map groups them by output prefix. *)
Definition NonRawPrefixSize : nat := 5.

Definition matching (es : list prim) (pfx : bytes) : list prim :=
  filter (fun e => beq (pprefix e) pfx) es.

(* prefixmap.PrimitivesMatchingPrefix: entries under prefix[:5] (when the
   argument has at least 5 bytes) followed by the raw entries *)
Definition prims_matching (es : list prim) (pfx : bytes) : list prim :=
  (if Nat.leb NonRawPrefixSize (length pfx) then matching es (firstn NonRawPrefixSize pfx) else [])
    ++ matching es [].

Definition wrapped_compute (primary : prim) (data : bytes) : bytes := pcompute primary data.

Definition wrapped_verify (es : list prim) (mac data : bytes) : bool :=
  if Nat.leb (length mac) NonRawPrefixSize then false
  else if existsb (fun e => pverify e mac data) (prims_matching es (firstn NonRawPrefixSize mac)) then true
  else existsb (fun e => pverify e mac data) (prims_matching es []).

Definition prim_of_wrapped (primary : prim) (es : list prim) : prim :=
  mkPrim (pprefix primary) (wrapped_compute primary) (wrapped_verify es).

(* construction result with the stage that rejected:
   1 NewParameters, 2 NewKey, 3 primitive constructor, 4 factory (mac.New / NewWithConfig) *)
Inductive built (A : Type) := Built (a : A) | Rejected (stage : N).
Arguments Built {A} a. Arguments Rejected {A} stage.

Inductive alg := AHmac (h : option hash_alg) | ACmac.
Inductive path := PSubtle | PKey | PFactory | PAdapter.

Section MAC.
  Variable Hash : hash_alg -> bytes -> bytes.
  Variable AES : bytes -> bytes -> bytes.     (* key, block *)

  (* internal/mac/hmac.ValidateHMACParams (hash given by name; None = unknown name) *)
  Definition hmac_validate (h : option hash_alg) (keysize tagsize : nat) : bool :=
    match h with
    | None => false
    | Some a =>
        if Nat.ltb (digest_size a) tagsize then false      (* tag size too big *)
        else if Nat.ltb tagsize 10 then false               (* tag size too small *)
        else if Nat.ltb keysize 16 then false               (* key too short *)
        else true
    end.

  (* internal/mac/hmac.New = mac/subtle.NewHMAC *)
  Definition hmac_new (h : option hash_alg) (key : bytes) (tagsize : nat) : outcome rawmac :=
    if negb (hmac_validate h (length key) tagsize) then Err
    else match h with
         | None => Err
         | Some a => Ok (mkRaw (hmac (Hash a) (block_size a) key) tagsize)
         end.

  (* mac/subtle.NewAESCMAC, then internal/mac/aescmac.New *)
  Definition cmac_new (key : bytes) (taglen : nat) : outcome rawmac :=
    if Nat.ltb (length key) 16 then Err
    else if Nat.ltb taglen 10 then Err
    else if Nat.ltb 16 taglen then Err
    else if negb (Nat.eqb (length key) 32 || Nat.eqb (length key) 24 || Nat.eqb (length key) 16) then Err
    else Ok (mkRaw (cmac_impl (AES key)) taglen).

  (* mac/subtle.ValidateCMACParams *)
  Definition cmac_validate (keysize tagsize : nat) : bool :=
    if negb (Nat.eqb keysize 32) then false
    else if Nat.ltb tagsize 10 then false
    else if Nat.ltb 16 tagsize then false
    else true.

  Definition raw_new (a : alg) (key : bytes) (tag : nat) : outcome rawmac :=
    match a with AHmac h => hmac_new h key tag | ACmac => cmac_new key tag end.

  (* hmac.NewParameters / aescmac.NewParameters (variant and hash are known values here) *)
  Definition params_ok (a : alg) (keysize tagsize : nat) : bool :=
    match a with
    | AHmac None => false
    | AHmac (Some h) =>
        negb (Nat.ltb keysize 16) && negb (Nat.ltb tagsize 10 || Nat.ltb (digest_size h) tagsize)
    | ACmac =>
        (Nat.eqb keysize 16 || Nat.eqb keysize 32) && negb (Nat.ltb tagsize 10 || Nat.ltb 16 tagsize)
    end.

  (* hmac.NewKey / aescmac.NewKey *)
  Definition key_ok (v : variant) (id : N) (keylen keysize : nat) : bool :=
    Nat.eqb keylen keysize && negb (is_noprefix v && negb (N.eqb id 0)).

  (* hmac.NewMAC / aescmac.NewMAC on a key object *)
  Definition key_mac (a : alg) (key : bytes) (tag : nat) (v : variant) (id : N) : outcome fullmac :=
    let valid := match a with
                 | AHmac h => hmac_validate h (length key) tag
                 | ACmac => cmac_validate (length key) tag
                 end in
    if negb valid then Err
    else match raw_new a key tag with
         | Ok r => Ok (mkFull r (output_prefix v id) (is_legacy v))
         | _ => Err
         end.

  (* the four ways a caller obtains a MAC for one key *)
  Definition build (p : path) (a : alg) (key : bytes) (tag : nat) (v : variant) (id : N) : built prim :=
    match p with
    | PSubtle =>
        match raw_new a key tag with Ok r => Built (prim_of_raw r) | _ => Rejected 3 end
    | PKey =>
        if negb (params_ok a (length key) tag) then Rejected 1
        else if negb (key_ok v id (length key) (length key)) then Rejected 2
        else match key_mac a key tag v id with Ok f => Built (prim_of_full f) | _ => Rejected 3 end
    | PFactory =>
        if negb (params_ok a (length key) tag) then Rejected 1
        else if negb (key_ok v id (length key) (length key)) then Rejected 2
        else match key_mac a key tag v id with
             | Ok f => let e := prim_of_full f in Built (prim_of_wrapped e [e])
             | _ => Rejected 4
             end
    | PAdapter =>
        (* keyset.Config returning a legacy (raw) primitive: the factory wraps it *)
        if negb (params_ok a (length key) tag) then Rejected 1
        else if negb (key_ok v id (length key) (length key)) then Rejected 2
        else match raw_new a key tag with
             | Ok r => let e := prim_of_adapter (mkFull r (output_prefix v id) (is_legacy v)) in
                       Built (prim_of_wrapped e [e])
             | _ => Rejected 4
             end
    end.

  (* a keyset of several keys through mac.New: every key must yield a primitive;
     the primary computes, any entry may verify *)
  Fixpoint build_entries (ks : list (alg * bytes * nat * variant * N)) : option (list prim) :=
    match ks with
    | [] => Some []
    | (a, key, tag, v, id) :: rest =>
        match key_mac a key tag v id, build_entries rest with
        | Ok f, Some es => Some (prim_of_full f :: es)
        | _, _ => None
        end
    end.

  Definition build_set (ks : list (alg * bytes * nat * variant * N)) (primary : nat) : built prim :=
    match build_entries ks with
    | Some es => match nth_error es primary with
                 | Some p => Built (prim_of_wrapped p es)
                 | None => Rejected 4
                 end
    | None => Rejected 4
    end.

  (* the standard value the property names: RFC 2104 / RFC 4493 over the key *)
  Definition std_mac (a : alg) (key msg : bytes) : bytes :=
    match a with
    | AHmac (Some h) => hmac (Hash h) (block_size h) key msg
    | AHmac None => []
    | ACmac => cmac_spec (AES key) msg
    end.
End MAC.
